"""C11 — source text is read with the documented precedence, literals and comments."""
import os
import framework as fw
import layout_stream

_binary = {}


def pygen_layout(seed, count, outfile):
    if "b" not in _binary:
        ok, out, b = fw.build_binary()
        if not ok:
            raise RuntimeError("cargo build of /repo failed: " + out[-1500:])
        _binary["b"] = b
    layout_stream.generate(_binary["b"], seed, count, outfile, os.path.join(fw.BUILD, "layout-work-%d" % os.getpid()))


def judge_layout(req, impl, model, spec):
    ok = impl == "same"
    cat = req.split("(eol ")[1].split(")")[0] if "(eol " in req else "?"
    return {"corr": True, "oracle": ok, "what": "" if ok else "the same program in another layout (line ends: %s) is read differently: %s" % (cat, impl[:300]),
            "key": req, "cats": ["eol-" + cat, "decorated" if "(decorated 1)" in req else "plain"]}


THEOREM_MODULES = ["Hcl.Theorems.C11", "Hcl.Theorems.C11Fuel", "Hcl.Proofs.ParseStmts", "Hcl.Tie.Lexer", "Hcl.Tie.Grammar", "Hcl.Tie.Preamble", "Hcl.Theorems.C11Layout", "Hcl.Theorems.C11Parens", "Hcl.Proofs.ParseStmtsSound", "Hcl.Tie.PinsLexer", "Hcl.Tie.PinsGrammar"]
THEOREMS = {"Hcl.Tie.PinsGrammar": ["Tie.PinsGrammar.pinGrammarFile"],
            "Hcl.Tie.PinsLexer": ["Tie.PinsLexer.pinLexerNext", "Tie.PinsLexer.pinLexerChooseToken", "Tie.PinsLexer.pinLexerGetWhile", "Tie.PinsLexer.pinLexerInternalNext", "Tie.PinsLexer.pinLexerResolveIdentifier"],
            "Hcl.Proofs.ParseStmtsSound": ["Parser.parse_sound", "Parser.parse_iff_D", "Parser.parseExpr_iff_D", "Parser.parseStmts_iff_DS", "Parser.parseProgram_iff_DS"],
            "Hcl.Theorems.C11Parens": ["C11_parser_complete", "C11_parens_anywhere", "C11_fully_parenthesised_form", "C11_layout_at_reached_place", "Parser.parse_ppFull", "Parser.parse_ppMin", "Parser.ppMin_ppFull_same"],
            "Hcl.Theorems.C11Layout": ["C11_spans_do_not_steer_expressions", "C11_spans_do_not_steer_statements", "C11_same_tokens_same_meaning", "C11_skipped_text", "C11_layout_in_front", "C11_layout_after_token", "C11_blank_between_tokens", "C11_block_comment_after_token", "C11_hash_comment_after_token", "C11_line_ending_style", "C11_parse_extends", "C11_redundant_parens_simple", "C11_redundant_parens", "C11_redundant_parens_statement"],
            "Hcl.Proofs.ParseStmts": ["Parser.parseStmts_fuel_independent", "Parser.parseProgram_fuel_independent", "Parser.parseProgram_lex_error", "Parser.parseE_eq_none_iff", "Parser.parseStmts_ne_nil"],
            "Hcl.Theorems.C11Fuel": ["C11_parser_fuel_monotone", "C11_parser_fuel_enough", "C11_parser_fuel_independent"],
            "Hcl.Theorems.C11": ["C11_block_comment", "C11_hash_comment", "C11_slash_comment", "C11_blank_space", "C11_pairs_and_triples_grouped", "C11_unary_slice_in", "Grouping.level_documented", "Grouping.slice_tightest", "Grouping.unary_slice_needs_parentheses", "Grouping.in_level", "Lexer.skipBlock_skips", "C11_model_tiers_documented", "C11_grammar_tiers_documented", "C11_grammar_ops_documented",
                                 "C11_preamble_values", "C11_binary", "C11_hex", "C11_decimal", "C11_digit"]}

RULE = ("S-PARSE: every ordered pair of binary operators in both groupings, every unary operator and 'in' against every binary "
        "operator, then random triples and random type-directed expressions: each tree is written (a) with the fewest "
        "parentheses the documented precedence allows, (b) fully parenthesised, (c) like (a) with blanks, CR/LF, tabs and all "
        "three comment forms inserted at token boundaries and optional redundant parentheses; the real parser must give the "
        "same tree for all three (oracle) and the Lean parser model must give the same spanned tree for (a) (correspondence). "
        "S-LITERAL: decimal, mixed-case hexadecimal and binary literals of known value up to and beyond 128 bits between "
        "comments; the real lexer must produce exactly the value, width (digit count for binary) and span known by construction, "
        "or InvalidConstant for literals that do not fit (oracle); the Lean lexer model must agree (correspondence). "
        "S-PROG (statement grammar): for every program text of the program streams the Lean model of the statement grammar (declarations, chained and comma-separated assignments, register banks, separators; success path) parses the text itself and must produce the AST the real parser produced. "
        "S-LAYOUT: three programs written with LF, CRLF, bare-CR and doubled line ends, with comments of the three kinds, blank lines and tabs between and after statements, as FILES through the real binary: the final state printed must be the one the plain LF text prints. "
        "S-LEX: token soup with Unicode blanks/letters, unterminated comments, malformed literals: real lexer vs. model. "
        "non-trivial = cases with at least two operators / one literal; distinct = distinct texts.")


def judge(req, impl, model, spec):
    ok = True
    what = ""
    cats = []
    if impl.startswith("same "):
        body = impl[5:]
        corr = body == model
        cats.append("error-literal" if "ERR:" in body else "ok")
    elif impl == "PANIC" or impl.startswith("PANIC"):
        corr = False
        ok = False
        what = "the lexer or parser panicked"
    elif impl.startswith("DIFF") or impl.startswith("ERR"):
        corr = True          # no single result to compare; the oracle decides
        ok = False
        what = "texts that the documentation says mean the same were read differently: " + impl[:300]
        cats.append(impl.split(" ")[0])
    else:
        # plain lexer soup: no expectation beyond agreement with the model and no panic
        corr = impl == model
        cats.append("lex-error" if "ERR:" in impl else "lex-ok")
    return {"corr": corr, "oracle": ok, "what": what, "key": req if len(req) > 40 else None, "cats": cats}


def judge_soup(req, impl, model, spec):
    if impl.startswith("PANIC"):
        return {"corr": False, "oracle": False, "what": "the lexer panicked", "key": None, "cats": ["panic"]}
    return {"corr": impl == model, "oracle": True, "what": "", "key": req if len(req) > 40 else None,
            "cats": ["lex-error" if "ERR:" in impl else "lex-ok"]}


def judge_stmts(req, impl, model, spec):
    # the runner turns a disagreement of the statement-grammar model with the real parser into a correspondence failure;
    # nothing else is asked of these cases here (the program itself is judged under C01-C09, the text under C13)
    return {"corr": True, "oracle": not impl.startswith("PANIC"), "what": "panic" if impl.startswith("PANIC") else "",
            "key": req if len(req) > 40 else None, "cats": ["accepted" if impl.startswith("ok") else "rejected-or-unparsed"]}


def streams(tier, seed):
    q = tier == "quick"
    return [{"name": "parse", "stream": "parse", "count": 3000 if q else 200000, "judge": judge},
            {"name": "literal", "stream": "literal", "count": 4000 if q else 300000, "judge": judge},
            {"name": "lex", "stream": "lex", "count": 4000 if q else 300000, "judge": judge_soup},
            {"name": "layout", "stream": "layout", "count": 150 if q else 6000, "pygen": pygen_layout, "judge": judge_layout},
            {"name": "stmts", "stream": "prog", "count": 300 if q else 20000, "extra": ("banks",), "judge": judge_stmts},
            {"name": "stmts-text", "stream": "anytext", "count": 1500 if q else 100000, "judge": judge_stmts}]
