import Hcl.Util.SExp
import Hcl.Graph.TopoSort
