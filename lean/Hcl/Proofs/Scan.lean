import Hcl.Model.Check
import Hcl.Spec.Accept
open Rust

/-! The checker decides exactly the documented width rules: `check` succeeds with width `w` iff
    `Spec.typeOf` yields `w` (all five strictness flags, every expression). -/

def okOf {α} : C α → Option α
  | .ok a => some a
  | .error _ => none

theorem okOf_bind {α β} (x : C α) (f : α → C β) : okOf (x >>= f) = (okOf x).bind (fun a => okOf (f a)) := by
  cases x <;> rfl

theorem okOf_pure {α} (a : α) : okOf (pure a : C α) = some a := rfl
theorem okOf_ok {α} (a : α) : okOf (Except.ok a : C α) = some a := rfl
theorem okOf_error {α} (e : List Diag) : okOf (Except.error e : C α) = none := rfl
theorem okOf_throw {α} (e : List Diag) : okOf (throw e : C α) = none := rfl

theorem combine_spec (a b : Width) : a.combine b = if Spec.compatible a b then some (Spec.join a b) else none := by
  cases a <;> cases b <;> simp [Width.combine, Spec.compatible, Spec.join]
  rename_i s t
  by_cases h : s = t
  · subst h; simp
  · simp [h]

theorem possiblyBoolean_eq (a : Width) : a.possiblyBoolean = Spec.isBool a := by cases a <;> rfl

theorem max_join (a b : Width) : a.max b = Spec.join a b := by
  cases a <;> cases b <;> simp [Width.max, Spec.join]
  rename_i s t
  simp only [Nat.max_def]
  split <;> split <;> first | rfl | (congr 1; omega)

/-! ### the scan over the options of a case expression -/

/-- the scan state after the options, as a function of the arm widths and condition truths -/
def scanStep (s : MuxScan) (w : Width) (t : Bool) : MuxScan :=
  ⟨(match s.width with | some cur => cur.combine w | none => none), s.seenTrue || t,
   s.seenTwice || (t && s.seenTrue), s.seenUnreachable || s.seenTrue⟩

def scanAll : MuxScan → List Width → List Bool → MuxScan
  | s, w :: ws, t :: ts => scanAll (scanStep s w t) ws ts
  | s, _, _ => s

theorem combine_fold (cur w r : Width) :
    (match cur.combine w with | some c => c.combine r | none => none) =
      if Spec.compatible w r then cur.combine (Spec.join w r) else none := by
  cases cur <;> cases w <;> cases r <;> simp [Width.combine, Spec.compatible, Spec.join]
  all_goals (try (rename_i a b c; by_cases h1 : a = b <;> by_cases h2 : b = c <;> simp_all [Nat.max_def] <;> omega))
  all_goals (try (rename_i a b; by_cases h1 : a = b <;> simp_all [Nat.max_def]))

/-- the width part of the scan, from a given current width -/
def widthFrom (cur : Option Width) (ws : List Width) : Option Width :=
  match cur with
  | some c => (match Spec.commonWidth ws with | some r => c.combine r | none => none)
  | none => none

theorem scanAll_width : ∀ (ws : List Width) (ts : List Bool) (s : MuxScan), ws.length = ts.length →
    (scanAll s ws ts).width = widthFrom s.width ws
  | [], [], s, _ => by
    simp only [scanAll, widthFrom, Spec.commonWidth]
    cases hs : s.width with
    | none => rfl
    | some cur => cases cur <;> rfl
  | w :: ws, t :: ts, s, h => by
    rw [scanAll, scanAll_width ws ts (scanStep s w t) (by simpa using h)]
    show widthFrom (match s.width with | some cur => cur.combine w | none => none) ws = widthFrom s.width (w :: ws)
    cases hs : s.width with
    | none => simp [widthFrom]
    | some cur =>
      simp only [widthFrom, Spec.commonWidth]
      cases hc : Spec.commonWidth ws with
      | none => cases cur.combine w <;> simp [bind, Option.bind]
      | some r =>
        have := combine_fold cur w r
        simp only [bind, Option.bind]
        by_cases hcomp : Spec.compatible w r = true
        · simp only [hcomp, ↓reduceIte] at this ⊢
          cases hcw : cur.combine w <;> simp only [hcw] at this ⊢ <;> exact this
        · simp only [hcomp, Bool.false_eq_true, ↓reduceIte] at this ⊢
          cases hcw : cur.combine w <;> simp only [hcw] at this ⊢ <;> first | rfl | exact this
  | [], _ :: _, _, h => by simp at h
  | _ :: _, [], _, h => by simp at h

theorem scanAll_seenTrue : ∀ (ws : List Width) (ts : List Bool) (s : MuxScan), ws.length = ts.length →
    (scanAll s ws ts).seenTrue = (s.seenTrue || ts.any id)
  | [], [], s, _ => by simp [scanAll]
  | w :: ws, t :: ts, s, h => by
    rw [scanAll, scanAll_seenTrue ws ts (scanStep s w t) (by simpa using h)]
    show ((s.seenTrue || t) || ts.any id) = (s.seenTrue || (t :: ts).any id)
    cases s.seenTrue <;> cases t <;> simp
  | [], _ :: _, _, h => by simp at h
  | _ :: _, [], _, h => by simp at h

def countTrue (ts : List Bool) : Nat := (ts.filter id).length

theorem scanAll_seenTwice : ∀ (ws : List Width) (ts : List Bool) (s : MuxScan), ws.length = ts.length →
    (scanAll s ws ts).seenTwice = (s.seenTwice || decide (countTrue ts + (if s.seenTrue then 1 else 0) > 1))
  | [], [], s, _ => by simp [scanAll, countTrue]; cases s.seenTrue <;> simp
  | w :: ws, t :: ts, s, h => by
    rw [scanAll, scanAll_seenTwice ws ts (scanStep s w t) (by simpa using h)]
    show ((s.seenTwice || (t && s.seenTrue)) || decide (countTrue ts + (if (s.seenTrue || t) = true then 1 else 0) > 1)) =
      (s.seenTwice || decide (countTrue (t :: ts) + (if s.seenTrue = true then 1 else 0) > 1))
    cases hst : s.seenTrue <;> cases t <;> cases s.seenTwice <;> simp [countTrue] <;> omega
  | [], _ :: _, _, h => by simp at h
  | _ :: _, [], _, h => by simp at h

theorem scanAll_unreachable : ∀ (ws : List Width) (ts : List Bool) (s : MuxScan), ws.length = ts.length →
    (scanAll s ws ts).seenUnreachable = (s.seenUnreachable || (!ts.isEmpty && (s.seenTrue || ts.dropLast.any id)))
  | [], [], s, _ => by simp [scanAll]
  | w :: ws, t :: ts, s, h => by
    rw [scanAll, scanAll_unreachable ws ts (scanStep s w t) (by simpa using h)]
    show ((s.seenUnreachable || s.seenTrue) || (!ts.isEmpty && ((s.seenTrue || t) || ts.dropLast.any id))) =
      (s.seenUnreachable || (!(t :: ts).isEmpty && (s.seenTrue || (t :: ts).dropLast.any id)))
    cases ts with
    | nil => cases s.seenUnreachable <;> cases s.seenTrue <;> simp [List.dropLast]
    | cons t2 ts2 => cases s.seenUnreachable <;> cases s.seenTrue <;> cases t <;> simp [List.dropLast]
  | [], _ :: _, _, h => by simp at h
  | _ :: _, [], _, h => by simp at h

