import Hcl.Model.Dump
import Hcl.Theorems.C16

/-!
# C18 — debug and quiet options change what is printed, never what is simulated

In the model the simulation functions (`execActions`, `processBanks`, `stepCycle`, `runLoop`) do not
take the output options at all; that the real `step_with_output` behaves like them under every subset
of the options is the correspondence stream `options`.  The `-d` table is `Dump.wireTable`.
-/

open Dump

/-- the names listed by the `-d` table (all sub-tables together) -/
def listedKeys (p : Program) (vals : AMap WireValue) (grouped : Bool) : List String :=
  (tableGroups p vals grouped).flatMap (·.2.1)

/-- **C18, ungrouped table**: it lists exactly the wires that have a value, are not constants and are not
    defaulted control signals. -/
theorem C18_ungrouped_lists (p : Program) (vals : AMap WireValue) (k : String) :
    k ∈ listedKeys p vals false ↔ (k ∈ vals.keys ∧ p.defaulted.contains k = false ∧ p.constants.contains k = false) := by
  simp only [listedKeys, tableGroups, Bool.false_eq_true, ↓reduceIte, List.flatMap_cons, List.flatMap_nil, List.append_nil,
    List.mem_filter, Bool.not_eq_true']
  constructor
  · rintro ⟨⟨h1, h2⟩, h3⟩; exact ⟨h1, h2, h3⟩
  · rintro ⟨h1, h2, h3⟩; exact ⟨⟨h1, h2⟩, h3⟩

/-- **C18, grouped table**: a wire is listed iff it has a value, is not a defaulted control signal and is
    not of constant type; it is then listed in exactly one group. -/
theorem C18_grouped_lists (p : Program) (vals : AMap WireValue) (k : String) :
    k ∈ listedKeys p vals true ↔
      (k ∈ vals.keys ∧ p.defaulted.contains k = false ∧ (p.wireTypes.get? k).getD .normal ≠ .constant) := by
  simp only [listedKeys, tableGroups, List.flatMap_cons, List.flatMap_nil, List.append_nil, List.mem_append, List.mem_filter]
  cases hty : (p.wireTypes.get? k).getD .normal <;> simp [hty]

theorem filter_nodup {α} (l : List α) (f : α → Bool) (h : l.Nodup) : (l.filter f).Nodup := by
  unfold List.Nodup at *
  exact List.Pairwise.filter f h

/-- each wire is listed once (the value table has one entry per name) -/
theorem C18_listed_once (p : Program) (vals : AMap WireValue) (h : vals.keys.Nodup) : (listedKeys p vals false).Nodup := by
  simp only [listedKeys, tableGroups, Bool.false_eq_true, ↓reduceIte, List.flatMap_cons, List.flatMap_nil, List.append_nil]
  exact filter_nodup _ _ (filter_nodup _ _ h)

/-- the printed value: `0x` followed by the value zero-padded to ceil(width/4) digits, which reads back as the value -/
theorem C18_value_reads_back (v : WireValue) (h : v.bits < 2 ^ 128) :
    Spec.DumpFormat.parseHex (toHex v.bits).toList = some v.bits := C16_hex_roundtrip v.bits h

theorem C18_value_width (v : WireValue) (n : Nat) (h : v.width = .bits n) : valueWidthLen v = (n + 3) / 4 + 2 := by
  simp [valueWidthLen, h]
