import Hcl.Proofs.ReorderBanks
open Rust

/-! Reordering the statements of a program does not change whether `Program::new` accepts it (property C12, the verdict).

    `Program_new_ok_iff` says acceptance is the absence of faults (`Faultless`); here `Faultless` is carried along a
    permutation of the statement list: every table the conditions mention is, on the two sides, the same finite map or
    the same set. -/

namespace Reorder

/-! ### the constants -/

theorem constDep_perm (e e' : AMap Ex) (h : e.Perm e') : ConstDep e = ConstDep e' := by
  funext u v
  apply propext
  unfold ConstDep
  constructor
  · rintro ⟨x, hx, hu⟩; exact ⟨x, h.mem_iff.mp hx, hu⟩
  · rintro ⟨x, hx, hu⟩; exact ⟨x, h.mem_iff.mpr hx, hu⟩

theorem refs_perm (e e' : AMap Ex) (hp : e.Perm e') (hrefs : ∀ p ∈ e, ∀ r ∈ refs p.2, e.contains r = true) :
    ∀ p ∈ e', ∀ r ∈ refs p.2, e'.contains r = true := by
  intro p hp' r hr
  rw [← perm_contains e e' hp]
  exact hrefs p (hp.mem_iff.mpr hp') r hr

section consts
variable (fl : Flags) (o o' : Orders) (ho : OrdersOK o) (ho' : OrdersOK o') (e e' : AMap Ex)
  (hp : e.Perm e') (hk : e.keys.Nodup) (hrefs : ∀ p ∈ e, ∀ r ∈ refs p.2, e.contains r = true)
include hp hk hrefs ho ho'

/-- a permutation of resolvable definitions resolves -/
theorem resolve_perm (c : AMap WireValue) (hc : resolveConstants fl o e = .ok c) :
    ∃ c', resolveConstants fl o' e' = .ok c' := by
  have hk' : e'.keys.Nodup := (List.Perm.nodup_iff (hp.map (fun p : String × Ex => p.1))).mp hk
  have hrefs' := refs_perm e e' hp hrefs
  obtain ⟨hac, _⟩ := (resolveConstants_ok_iff fl o e ho hk hrefs).mp ⟨c, hc⟩
  have hrules := resolveConstants_rules fl o e ho hk hrefs c hc
  apply (resolveConstants_ok_iff fl o' e' ho' hk' hrefs').mpr
  refine ⟨by rw [← constDep_perm e e' hp]; exact hac, c, ?_⟩
  intro n x hx
  exact hrules n x (by rw [perm_get? e e' hp hk]; exact hx)

/-- and to the same finite map -/
theorem resolve_sameMap (c c' : AMap WireValue) (hc : resolveConstants fl o e = .ok c)
    (hc' : resolveConstants fl o' e' = .ok c') : SameMap c c' := by
  have hk' : e'.keys.Nodup := (List.Perm.nodup_iff (hp.map (fun p : String × Ex => p.1))).mp hk
  have hrefs' := refs_perm e e' hp hrefs
  have hrules := resolveConstants_rules fl o e ho hk hrefs c hc
  have hR : ∀ n x, e'.get? n = some x → ∃ v, c.get? n = some v ∧ constVal fl c x = .ok v :=
    fun n x hx => hrules n x (by rw [perm_get? e e' hp hk]; exact hx)
  intro n
  cases hx : e'.get? n with
  | some x => exact (resolveConstants_table fl o' e' ho' hk' hrefs' c hR c' hc' n x hx).symm
  | none =>
    have hnk' : n ∉ e'.keys := by
      intro hm
      have := (AMap.contains_iff_mem_keys _ _).mpr hm
      rw [← AMap.get?_isSome_iff_contains, hx] at this
      cases this
    have hnk : n ∉ e.keys := fun hm => hnk' ((hp.map (fun p : String × Ex => p.1)).mem_iff.mp hm)
    cases h1 : c.get? n with
    | some v => exact absurd (resolveConstants_keys fl o e c hc n v h1) hnk
    | none =>
      cases h2 : c'.get? n with
      | some v => exact absurd (resolveConstants_keys fl o' e' c' hc' n v h2) hnk'
      | none => rfl
end consts

/-! ### the register banks -/

section banks
variable {fl : Flags} {cls : CharClass} {s1 s1' : Step1} {c c' : AMap WireValue}

theorem regDeclOK_congr (sim : S1Sim s1 s1') (hc : SameMap c c') (i o : Char) (r : RegDecl)
    (h : RegDeclOK fl s1 c i o r) : RegDeclOK fl s1' c' i o r where
  readsConsts := fun n hn => by rw [← sim.wContains, ← hc.contains]; exact h.readsConsts n hn
  notDeclared := ⟨fun hm => h.notDeclared.1 ((sim.declared _).mpr hm), fun hm => h.notDeclared.2 ((sim.declared _).mpr hm)⟩
  outNotAssigned := by rw [← sim.aContains]; exact h.outNotAssigned
  defaultOK := by rw [← hc.toEnv, ← hc.wCtx]; exact h.defaultOK

theorem bankDeclOK_congr (sim : S1Sim s1 s1') (hc : SameMap c c') (b : BankDecl)
    (h : BankDeclOK fl cls s1 c b) : BankDeclOK fl cls s1' c' b := by
  obtain ⟨i, o, h1, h2, h3, h4, h5, h6⟩ := h.ok
  exact ⟨i, o, h1, h2, h3, fun hm => h4 ((sim.declared _).mpr hm), fun hm => h5 ((sim.declared _).mpr hm),
    fun r hr => regDeclOK_congr sim hc i o r (h6 r hr)⟩
end banks

/-! ### the width table and the known names -/

/-- inserting the same set of consistent pairs into two listings of one map gives the same map -/
theorem insertAll_get?_congr {α : Type} (m m' : AMap α) (pairs pairs' : List (String × α)) (n : String)
    (hm : m.get? n = m'.get? n) (hmem : ∀ p, p ∈ pairs ↔ p ∈ pairs')
    (hfun : ∀ p ∈ pairs, ∀ q ∈ pairs, p.1 = q.1 → p.2 = q.2) :
    (insertAll m pairs).get? n = (insertAll m' pairs').get? n := by
  by_cases hex : ∃ p ∈ pairs, p.1 = n
  · obtain ⟨p, hp, hpn⟩ := hex
    rw [get?_insertAll_some pairs m n p.2 ⟨p, hp, hpn⟩ (fun q hq hqn => hfun q hq p hp (hqn.trans hpn.symm)),
      get?_insertAll_some pairs' m' n p.2 ⟨p, (hmem p).mp hp, hpn⟩
        (fun q hq hqn => hfun q ((hmem q).mpr hq) p hp (hqn.trans hpn.symm))]
  · rw [get?_insertAll_none pairs m n (fun p hp e => hex ⟨p, hp, e⟩),
      get?_insertAll_none pairs' m' n (fun p hp e => hex ⟨p, (hmem p).mpr hp, e⟩)]
    exact hm

section tables
variable {FN : List String} {W0 : AMap Width} {s1 : Step1} {constants : AMap WireValue} {s3 : Step3}

/-- no two width entries recorded for the register banks contradict one another -/
theorem bankPairs_functional (h : TablesHyp FN W0 s1 constants s3) :
    ∀ p ∈ bankPairs s3.banks, ∀ q ∈ bankPairs s3.banks, p.1 = q.1 → p.2 = q.2 := by
  intro p hp q hq e
  have hnd : (bankNames s3.banks).Nodup := by
    have := h.s3f.nodup
    rw [h.s3f.seen] at this
    simpa [sigNames] using this
  rcases bankPairs_name_cases h p hp with ⟨g1, _, _, b, hb, sg, hsg, hw, hname⟩ | ⟨_, g2, _, g4⟩
  · rcases bankPairs_name_cases h q hq with ⟨_, _, _, b', hb', sg', hsg', hw', hname'⟩ | ⟨_, k2, _, _⟩
    · have hall : sg ∈ allSigs s3.banks := (mem_allSigs _ _).mpr ⟨b, hb, hsg⟩
      have hall' : sg' ∈ allSigs s3.banks := (mem_allSigs _ _).mpr ⟨b', hb', hsg'⟩
      obtain ⟨i1, i2, i3⟩ := sig_names_inj s3.banks hnd sg sg' hall hall'
      obtain ⟨_, _, j3⟩ := sig_names_inj s3.banks hnd sg' sg hall' hall
      rcases hname with hn | hn
      · rcases hname' with hn' | hn'
        · have := i2 (hn.symm.trans (e.trans hn'))
          rw [hw, hw', this]
        · exact absurd (hn'.symm.trans (e.symm.trans hn)) j3
      · rcases hname' with hn' | hn'
        · exact absurd (hn.symm.trans (e.trans hn')) i3
        · have := i1 (hn.symm.trans (e.trans hn'))
          rw [hw, hw', this]
    · rw [e, k2] at g1; cases g1
  · rcases bankPairs_name_cases h q hq with ⟨k1, _⟩ | ⟨_, _, _, k4⟩
    · rw [← e, g2] at k1; cases k1
    · rw [g4, k4]
end tables

theorem constPairs_functional (keys : List String) (c : AMap WireValue) :
    ∀ p ∈ constPairs keys c, ∀ q ∈ constPairs keys c, p.1 = q.1 → p.2 = q.2 := by
  intro p hp q hq e
  obtain ⟨v, _, hg, hw⟩ := (mem_constPairs _ _ _).mp hp
  obtain ⟨v', _, hg', hw'⟩ := (mem_constPairs _ _ _).mp hq
  rw [e, hg'] at hg
  cases hg
  rw [hw, hw']

theorem constPairs_mem_congr (keys keys' : List String) (c c' : AMap WireValue) (hk : ∀ n, n ∈ keys ↔ n ∈ keys')
    (hc : SameMap c c') (p : String × Width) : p ∈ constPairs keys c ↔ p ∈ constPairs keys' c' := by
  rw [mem_constPairs, mem_constPairs]
  constructor
  · rintro ⟨v, h1, h2, h3⟩; exact ⟨v, (hk _).mp h1, by rw [← hc]; exact h2, h3⟩
  · rintro ⟨v, h1, h2, h3⟩; exact ⟨v, (hk _).mpr h1, by rw [hc]; exact h2, h3⟩

theorem bankPairs_perm {b b' : List RegisterBank} (h : b.Perm b') : (bankPairs b).Perm (bankPairs b') := h.flatMap_right _
theorem bankOuts_perm {b b' : List RegisterBank} (h : b.Perm b') : (bankOuts b).Perm (bankOuts b') := h.flatMap_right _
theorem bankIns_perm {b b' : List RegisterBank} (h : b.Perm b') : (bankIns b).Perm (bankIns b') := h.flatMap_right _

section
variable {s1 s1' : Step1} {c c' : AMap WireValue} {s3 s3' : Step3}

/-- the final width tables are the same finite map -/
theorem finalWires_congr (sim : S1Sim s1 s1') (hc : SameMap c c') (hb : s3.banks.Perm s3'.banks)
    {FN : List String} {W0 : AMap Width} (hyp : TablesHyp FN W0 s1 c s3) (n : String) :
    (finalWires s1 c s3).get? n = (finalWires s1' c' s3').get? n := by
  unfold finalWires
  apply insertAll_get?_congr
  · apply insertAll_get?_congr
    · exact sim.wGet n
    · exact fun p => (bankPairs_perm hb).mem_iff
    · exact bankPairs_functional hyp
  · exact constPairs_mem_congr _ _ c c' sim.cKeysMem hc
  · exact constPairs_functional _ _

theorem knownOf_congr (sim : S1Sim s1 s1') (hc : SameMap c c') (hb : s3.banks.Perm s3'.banks) (n : String) :
    n ∈ knownOf s1 c s3 ↔ n ∈ knownOf s1' c' s3' := by
  unfold knownOf
  rw [mem_foldl_setInsert, mem_foldl_setInsert, mem_foldl_setInsert, mem_foldl_setInsert, (bankOuts_perm hb).mem_iff]
  have : n ∈ (constPairs s1.constantsRaw.keys c).map (·.1) ↔ n ∈ (constPairs s1'.constantsRaw.keys c').map (·.1) := by
    rw [List.mem_map, List.mem_map]
    constructor
    · rintro ⟨p, hp, e⟩; exact ⟨p, (constPairs_mem_congr _ _ c c' sim.cKeysMem hc p).mp hp, e⟩
    · rintro ⟨p, hp, e⟩; exact ⟨p, (constPairs_mem_congr _ _ c c' sim.cKeysMem hc p).mpr hp, e⟩
  rw [this]

theorem neededOf_congr (sim : S1Sim s1 s1') (hb : s3.banks.Perm s3'.banks) (n : String) :
    n ∈ neededOf s1 s3 ↔ n ∈ neededOf s1' s3' := by
  unfold neededOf
  rw [mem_foldl_setInsert, mem_foldl_setInsert, (bankIns_perm hb).mem_iff, sim.needed]
end

/-! ### the assignments -/

theorem actDep_perm (A A' : AMap Ex) (fixed : List FixedFunction) (h : A.Perm A') : ActDep A fixed = ActDep A' fixed := by
  funext u v
  apply propext
  unfold ActDep
  constructor
  · rintro (⟨x, hx, hu⟩ | h2)
    · exact Or.inl ⟨x, h.mem_iff.mp hx, hu⟩
    · exact Or.inr h2
  · rintro (⟨x, hx, hu⟩ | h2)
    · exact Or.inl ⟨x, h.mem_iff.mpr hx, hu⟩
    · exact Or.inr h2

theorem active_perm (A A' : AMap Ex) (h : A.Perm A') (f : FixedFunction) : Active A f ↔ Active A' f := by
  unfold Active
  constructor
  · intro ha i hi; rw [← perm_contains A A' h]; exact ha i hi
  · intro ha i hi; rw [perm_contains A A' h]; exact ha i hi

/-- `ActionsOK` reads its tables as finite maps and sets only -/
theorem actionsOK_congr (fl : Flags) (A A' : AMap Ex) (W W' : AMap Width) (K K' : List String) (fixed : List FixedFunction)
    (c c' : AMap WireValue) (hA : A.Perm A') (hk : A.keys.Nodup) (hW : ∀ n, W.get? n = W'.get? n)
    (hK : ∀ n, n ∈ K ↔ n ∈ K') (hc : SameMap c c') (h : ActionsOK fl A W K fixed c) : ActionsOK fl A' W' K' fixed c' := by
  have hctx : W.toCtx = W'.toCtx := by funext n; exact hW n
  have henv := hc.toEnv
  have hcont : ∀ n, A.contains n = A'.contains n := perm_contains A A' hA
  have hget : ∀ n, A.get? n = A'.get? n := perm_get? A A' hA hk
  have hact := active_perm A A' hA
  refine { mand := ?_, unused := ?_, partialOff := ?_, assign := ?_, read := ?_, acyclic := ?_ }
  · exact fun f hf hm => (hact f).mp (h.mand f hf hm)
  · exact fun f hf hna n w hout p hp =>
      h.unused f hf (fun ha => hna ((hact f).mp ha)) n w hout p (hA.mem_iff.mpr hp)
  · rintro f hf hna ⟨i, hi, hci⟩
    obtain ⟨en, expr, v, h1, h2, h3, h4, h5⟩ :=
      h.partialOff f hf (fun ha => hna ((hact f).mp ha)) ⟨i, hi, by rw [hcont]; exact hci⟩
    refine ⟨en, expr, v, h1, by rw [← hget]; exact h2, ?_, ?_, h5⟩
    · rw [← hctx, ← henv]; exact h3
    · rw [← hctx, ← henv]; exact h4
  · intro n e he
    obtain ⟨w, ew, a1, a2, a3⟩ := h.assign n e (by rw [hget]; exact he)
    exact ⟨w, ew, by rw [← hW]; exact a1, by rw [← hctx, ← henv]; exact a2, a3⟩
  · intro p hp r hr
    rcases h.read p (hA.mem_iff.mpr hp) r hr with h1 | h1 | ⟨f, hf, hw, ha⟩
    · exact Or.inl (by rw [← list_contains_congr K K' hK]; exact h1)
    · exact Or.inr (Or.inl (by rw [← hcont]; exact h1))
    · exact Or.inr (Or.inr ⟨f, hf, hw, (hact f).mp ha⟩)
  · rw [← actDep_perm A A' fixed hA]; exact h.acyclic

/-! ### everything the two sides share -/

/-- what two statement lists that are permutations of one another, with tables of constants `c` and `c'`, share -/
structure Sim (fl : Flags) (cls : CharClass) (stmts stmts' : List Stmt) (c c' : AMap WireValue) : Prop where
  s1 : S1Sim (step1Of stmts) (step1Of stmts')
  consts : SameMap c c'
  clean : (step3Of fl cls (step1Of stmts) c).errors = []
  clean' : (step3Of fl cls (step1Of stmts') c').errors = []
  banks : (step3Of fl cls (step1Of stmts) c).banks.Perm (step3Of fl cls (step1Of stmts') c').banks
  widths : ∀ n, (finalWires (step1Of stmts) c (step3Of fl cls (step1Of stmts) c)).get? n =
    (finalWires (step1Of stmts') c' (step3Of fl cls (step1Of stmts') c')).get? n
  known : ∀ n, n ∈ knownOf (step1Of stmts) c (step3Of fl cls (step1Of stmts) c) ↔
    n ∈ knownOf (step1Of stmts') c' (step3Of fl cls (step1Of stmts') c')
  needed : ∀ n, n ∈ neededOf (step1Of stmts) (step3Of fl cls (step1Of stmts) c) ↔
    n ∈ neededOf (step1Of stmts') (step3Of fl cls (step1Of stmts') c')
  hyp : TablesHyp (fixedNamesOf y86FixedFunctions) y86W0 (step1Of stmts) c (step3Of fl cls (step1Of stmts) c)

theorem Sim.widthCtx {fl : Flags} {cls : CharClass} {stmts stmts' : List Stmt} {c c' : AMap WireValue}
    (h : Sim fl cls stmts stmts' c c') :
    (finalWires (step1Of stmts) c (step3Of fl cls (step1Of stmts) c)).toCtx =
      (finalWires (step1Of stmts') c' (step3Of fl cls (step1Of stmts') c')).toCtx := by
  funext n; exact h.widths n

theorem step1Of_inv (stmts : List Stmt) (hwf : StmtsWF stmts) :
    S1Inv (fixedNamesOf y86FixedFunctions) y86W0 (step1Of stmts) := by
  obtain ⟨s1inv, _⟩ := step1_fold_inv (fixedNamesOf y86FixedFunctions)
    (y86FixedFunctions.filterMap fun f => f.outWire.map (·.1)) y86W0 stmts (step1Init y86FixedFunctions) hwf step1Init_inv
  exact s1inv

/-- the facts about the intermediate tables that `Program_new_complete` derives from the absence of faults -/
theorem tablesHyp_of_faultless (fl : Flags) (cls : CharClass) (o : Orders) (stmts : List Stmt) (hwf : StmtsWF stmts)
    (c : AMap WireValue) (h : Faultless fl cls o stmts c) :
    (step3Of fl cls (step1Of stmts) c).errors = [] ∧
    TablesHyp (fixedNamesOf y86FixedFunctions) y86W0 (step1Of stmts) c (step3Of fl cls (step1Of stmts) c) := by
  have hs1i := step1Of_inv stmts hwf
  have hs1clean : (step1Of stmts).errors = [] :=
    (step1Of_errors_nil_iff stmts).mpr ⟨h.declNodup, h.declNotBuiltin, h.targetsNodup, h.targetsNotOutput⟩
  have hw : ∀ b ∈ (step1Of stmts).banksRaw, ∀ r ∈ b.regs, r.width.ok := fun b hb r hr => (hs1i.banks b hb r hr).1
  have hs3clean := (step3Of_errors_nil_iff fl cls (step1Of stmts) c hw).mpr ⟨h.banksOK, h.registerNamesNodup⟩
  refine ⟨hs3clean, ?_⟩
  exact
    { s1inv := hs1i, s1clean := hs1clean
      cok := resolveConstants_constOK fl o (step1Of stmts).constantsRaw c hs1i.cWf h.constantsResolve
      ckeys := resolveConstants_keys fl o (step1Of stmts).constantsRaw c h.constantsResolve
      s3f := step3_facts fl cls (step1Of stmts) c hw hs3clean
      fnShape := by
        intro n hn
        have a := List.all_eq_true.mp y86_names_not_sig n hn
        have b := List.all_eq_true.mp y86_names_not_ctl n hn
        exact ⟨by simpa using a, by simpa using b⟩ }

/-- once the register banks of both sides are in order, the two sides share all their tables -/
theorem sim_of_banks (fl : Flags) (cls : CharClass) (o : Orders) (stmts stmts' : List Stmt) (hwf : StmtsWF stmts)
    (hperm : stmts.Perm stmts') (c c' : AMap WireValue) (h : Faultless fl cls o stmts c) (hc : SameMap c c')
    (hb' : ∀ b ∈ (step1Of stmts').banksRaw, BankDeclOK fl cls (step1Of stmts') c' b)
    (hr' : (allRegNames (step1Of stmts').banksRaw).Nodup) : Sim fl cls stmts stmts' c c' := by
  have sim := step1Of_perm stmts stmts' hperm h.declNodup h.declNotBuiltin h.targetsNodup
  have hwf' := stmtsWF_perm hperm hwf
  obtain ⟨hclean, hyp⟩ := tablesHyp_of_faultless fl cls o stmts hwf c h
  have hw' : ∀ b ∈ (step1Of stmts').banksRaw, ∀ r ∈ b.regs, r.width.ok :=
    fun b hb r hr => ((step1Of_inv stmts' hwf').banks b hb r hr).1
  have hclean' := (step3Of_errors_nil_iff fl cls (step1Of stmts') c' hw').mpr ⟨hb', hr'⟩
  have hbanks := step3Of_banks_perm fl cls _ _ c c' sim.banksRaw hc hclean hclean'
  exact
    { s1 := sim, consts := hc, clean := hclean, clean' := hclean', banks := hbanks
      widths := finalWires_congr sim hc hbanks hyp
      known := knownOf_congr sim hc hbanks
      needed := neededOf_congr sim hbanks
      hyp := hyp }

/-- the conditions on the register banks carry over -/
theorem banks_perm (fl : Flags) (cls : CharClass) (o : Orders) (stmts stmts' : List Stmt)
    (hperm : stmts.Perm stmts') (c c' : AMap WireValue) (h : Faultless fl cls o stmts c) (hc : SameMap c c') :
    (∀ b ∈ (step1Of stmts').banksRaw, BankDeclOK fl cls (step1Of stmts') c' b) ∧
    (allRegNames (step1Of stmts').banksRaw).Nodup := by
  have sim := step1Of_perm stmts stmts' hperm h.declNodup h.declNotBuiltin h.targetsNodup
  refine ⟨fun b hb => bankDeclOK_congr sim hc b (h.banksOK b (sim.banksRaw.mem_iff.mpr hb)), ?_⟩
  have : (allRegNames (step1Of stmts).banksRaw).Perm (allRegNames (step1Of stmts').banksRaw) :=
    sim.banksRaw.flatMap_right _
  exact this.nodup_iff.mp h.registerNamesNodup

/-- **the absence of faults is carried along a permutation of the statements**, with the same constants as a finite map -/
theorem faultless_perm (fl : Flags) (cls : CharClass) (o o' : Orders) (stmts stmts' : List Stmt)
    (ho : OrdersOK o) (ho' : OrdersOK o') (hwf : StmtsWF stmts) (hperm : stmts.Perm stmts')
    (c : AMap WireValue) (h : Faultless fl cls o stmts c) :
    ∃ c', Faultless fl cls o' stmts' c' ∧ Sim fl cls stmts stmts' c c' := by
  have sim := step1Of_perm stmts stmts' hperm h.declNodup h.declNotBuiltin h.targetsNodup
  obtain ⟨c', hc'⟩ := resolve_perm fl o o' ho ho' _ _ sim.constantsRaw sim.cKeys h.constantsReadConstants c h.constantsResolve
  have hc : SameMap c c' :=
    resolve_sameMap fl o o' ho ho' _ _ sim.constantsRaw sim.cKeys h.constantsReadConstants c c' h.constantsResolve hc'
  obtain ⟨hb', hr'⟩ := banks_perm fl cls o stmts stmts' hperm c c' h hc
  have S := sim_of_banks fl cls o stmts stmts' hwf hperm c c' h hc hb' hr'
  refine ⟨c', ?_, S⟩
  exact
    { declNodup := (allDeclared_perm hperm).nodup_iff.mp h.declNodup
      declNotBuiltin := fun n hn => h.declNotBuiltin n ((allDeclared_perm hperm).mem_iff.mpr hn)
      targetsNodup := (allTargets_perm hperm).nodup_iff.mp h.targetsNodup
      targetsNotOutput := fun n hn => h.targetsNotOutput n ((allTargets_perm hperm).mem_iff.mpr hn)
      targetsNotConstant := fun n hn => by
        rw [← sim.cContains]; exact h.targetsNotConstant n ((allTargets_perm hperm).mem_iff.mpr hn)
      constantsReadConstants := refs_perm _ _ sim.constantsRaw h.constantsReadConstants
      constantsResolve := hc'
      banksOK := hb'
      registerNamesNodup := hr'
      neededAssigned := fun n hn =>
        (allTargets_perm hperm).mem_iff.mp (h.neededAssigned n ((S.needed n).mpr hn))
      actionsOK := actionsOK_congr fl _ _ _ _ _ _ y86FixedFunctions c c' sim.assignments sim.aKeys S.widths S.known hc
        h.actionsOK }

end Reorder

/-- **Reordering the statements does not change the verdict**: a statement list is accepted by `Program::new` if and
    only if any permutation of it is — whatever the iteration orders of the hash tables on the two sides. -/
theorem Program_new_perm_verdict (fl : Flags) (cls : CharClass) (o o' : Orders) (stmts stmts' : List Stmt)
    (ho : OrdersOK o) (ho' : OrdersOK o') (hwf : StmtsWF stmts) (hperm : stmts.Perm stmts') :
    (∃ p, Program.new fl cls o y86FixedFunctions stmts = .ok p) ↔
      (∃ p', Program.new fl cls o' y86FixedFunctions stmts' = .ok p') := by
  have hwf' := Reorder.stmtsWF_perm hperm hwf
  rw [Program_new_ok_iff fl cls o stmts ho hwf, Program_new_ok_iff fl cls o' stmts' ho' hwf']
  constructor
  · rintro ⟨c, h⟩
    obtain ⟨c', h', _⟩ := Reorder.faultless_perm fl cls o o' stmts stmts' ho ho' hwf hperm c h
    exact ⟨c', h'⟩
  · rintro ⟨c', h'⟩
    obtain ⟨c, h, _⟩ := Reorder.faultless_perm fl cls o' o stmts' stmts ho' ho hwf' hperm.symm c' h'
    exact ⟨c, h⟩

#print axioms Program_new_perm_verdict
