import Hcl.Model.ParserStmts

/-! The statement level of parser.lalrpop WITH the source spans of ast.rs: `parseStmtsSp` / `parseProgramSp` mirror
    `parseStmts` / `parseProgram` of Hcl/Model/ParserStmts.lean function by function (same productions, same fuel) and
    additionally compute every span the grammar's `@L` / `@R` captures store in the AST.

    How LALRPOP (0.19) evaluates the captures (read off the generated parser, `__action121`/`__action122` and their call
    sites): a capture in a production is inlined; `@R` yields the END of the symbol before it in the production and `@L`
    the START of the symbol after it; when there is no symbol on that side, both yield the position of the neighbouring
    symbol on the other side.  The grammar writes `<start:@R>` in front of the first symbol and `<end:@L>` behind the last
    one, so `start` is the start of the first symbol and `end` is the end of the last symbol of the production: the
    start of its first token and the end of its last token, without the layout around them.  Hence

    * `IDWithSpan` (`ConstDecl.name_span`, the entries of `Assignment.names`, `RegisterBankDecl.name_span`): the
      identifier token;
    * `WireDecl.span`: from the start of the name to the end of the width literal (`name : width`; neither the keyword
      `wire` nor the comma / semicolon);
    * `Assignment.span`: from the start of the first target name to the end of the last token of the value -- a closing
      parenthesis around the whole value included, although the value's own span excludes it -- without the `,` / `;`;
    * `RegisterDecl.span`: from the start of the register's name to the end of the last token of the default value
      (`name : width = default`, without the `;`);
    * `RegisterBankDecl.span`: from the start of the keyword `register` to the end of the closing `}`;
    * a `const` declaration has no span of its own, only `name_span` and the span of the value; the statements
      `wire ...` / `const ...` / assignments have no span for the statement as a whole.

    Expression values are the spanned trees `PEx` of Hcl/Model/Parser.lean. -/

namespace Parser
open Lexer

/-- `lexer::Span`: start and end byte offset -/
abbrev Span := Nat × Nat

/-- `ast::WireDecl` -/
structure SWireDecl where
  name : String
  width : Width
  span : Span

/-- `ast::ConstDecl` -/
structure SConstDecl where
  name : String
  nameSpan : Span
  value : PEx

/-- `ast::Assignment` -/
structure SAssignment where
  span : Span
  names : List (String × Span)
  value : PEx

/-- `ast::RegisterDecl` -/
structure SRegDecl where
  span : Span
  name : String
  width : Width
  default : PEx

/-- `ast::RegisterBankDecl` -/
structure SBankDecl where
  span : Span
  name : String
  nameSpan : Span
  registers : List SRegDecl

/-- `ast::Statement` (without `Error`, which only erroneous input produces) -/
inductive SStmt where
  | consts (ds : List SConstDecl)
  | wires (ds : List SWireDecl)
  | assigns (as : List SAssignment)
  | bank (b : SBankDecl)

/-! ### forgetting the spans -/

def SWireDecl.erase (d : SWireDecl) : WireDecl := ⟨d.name, d.width⟩
def SConstDecl.erase (d : SConstDecl) : ConstDecl := ⟨d.name, d.value.toEx⟩
def SAssignment.erase (a : SAssignment) : Assignment := ⟨a.names.map (·.1), a.value.toEx⟩
def SRegDecl.erase (r : SRegDecl) : RegDecl := ⟨r.name, r.width, r.default.toEx⟩
def SBankDecl.erase (b : SBankDecl) : BankDecl := ⟨b.name, b.registers.map SRegDecl.erase⟩

def SStmt.erase : SStmt → Stmt
  | .consts ds => .consts (ds.map SConstDecl.erase)
  | .wires ds => .wires (ds.map SWireDecl.erase)
  | .assigns as => .assigns (as.map SAssignment.erase)
  | .bank b => .bank b.erase

/-! ### the parser -/

/-- `Expr` at a statement-level position (`parseE` with the spans kept): the tree, the extent of the tokens it was read
    from (start of the first, end of the last: what `@R` / `@L` around an `Expr` symbol yield), and the rest -/
def parseESp (ts : Toks) : Option (PEx × Nat × Nat × Toks) := parseTier (14 * ts.length + 40) 0 ts

/-- `wireDeclsStep` with `WireDecl.span = (start of the name, end of the width literal)` -/
def wireDeclsStepSp (k : Toks → Option (List SWireDecl × Toks)) : Toks → Option (List SWireDecl × Toks)
  | (s, .Identifier name, _) :: (_, .Colon, _) :: rest =>
    match smallConst rest with
    | none => none
    | some (w, _, e, rest1) =>
      match rest1 with
      | (_, .Comma, _) :: rest2 =>
        match k rest2 with
        | none => none
        | some (ds, rest3) => some (⟨name, .bits w, (s, e)⟩ :: ds, rest3)
      | _ => some ([⟨name, .bits w, (s, e)⟩], rest1)
  | ts => some ([], ts)

def parseWireDeclsSp : Nat → Toks → Option (List SWireDecl × Toks)
  | 0, _ => none
  | n+1, ts => wireDeclsStepSp (parseWireDeclsSp n) ts

def wireDeclsSp (ts : Toks) : Option (List SWireDecl × Toks) := parseWireDeclsSp (ts.length + 1) ts

/-- `constDeclsStep` with `ConstDecl.name_span` = the identifier token -/
def constDeclsStepSp (k : Toks → Option (List SConstDecl × Toks)) : Toks → Option (List SConstDecl × Toks)
  | (s, .Identifier name, e) :: (_, .Assign, _) :: rest =>
    match parseESp rest with
    | none => none
    | some (v, _, _, rest1) =>
      match rest1 with
      | (_, .Comma, _) :: rest2 =>
        match k rest2 with
        | none => none
        | some (ds, rest3) => some (⟨name, (s, e), v⟩ :: ds, rest3)
      | _ => some ([⟨name, (s, e), v⟩], rest1)
  | ts => some ([], ts)

def parseConstDeclsSp : Nat → Toks → Option (List SConstDecl × Toks)
  | 0, _ => none
  | n+1, ts => constDeclsStepSp (parseConstDeclsSp n) ts

def constDeclsSp (ts : Toks) : Option (List SConstDecl × Toks) := parseConstDeclsSp (ts.length + 1) ts

/-- `parseTargets` with the span of every `IDWithSpan` -/
def parseTargetsSp : Toks → List (String × Span) × Toks
  | (s, .Identifier name, e) :: (_, .Assign, _) :: rest =>
    let r := parseTargetsSp rest
    ((name, (s, e)) :: r.1, r.2)
  | ts => ([], ts)

/-- `parseAssignment` with `Assignment.span = (start of the first target, end of the last token of the value)` -/
def parseAssignmentSp (ts : Toks) : Option (SAssignment × Toks) :=
  match parseTargetsSp ts with
  | ([], _) => none
  | (n :: more, rest) =>
    match parseESp rest with
    | none => none
    | some (v, _, e, rest1) => some (⟨(n.2.1, e), n :: more, v⟩, rest1)

def assignsStepSp (k : Toks → Option (List SAssignment × Toks)) (ts : Toks) : Option (List SAssignment × Toks) :=
  match parseAssignmentSp ts with
  | none => none
  | some (a, rest1) =>
    match rest1 with
    | (_, .Comma, _) :: (s, .Identifier name, e) :: rest2 =>
      match k ((s, .Identifier name, e) :: rest2) with
      | none => none
      | some (as, rest3) => some (a :: as, rest3)
    | (_, .Comma, _) :: rest2 => some ([a], rest2)
    | _ => some ([a], rest1)

def parseAssignsSp : Nat → Toks → Option (List SAssignment × Toks)
  | 0, _ => none
  | n+1, ts => assignsStepSp (parseAssignsSp n) ts

def assignsSp (ts : Toks) : Option (List SAssignment × Toks) := parseAssignsSp (ts.length + 1) ts

/-- `regDeclsStep` with `RegisterDecl.span = (start of the name, end of the last token of the default value)` -/
def regDeclsStepSp (k : Toks → Option (List SRegDecl × Toks)) : Toks → Option (List SRegDecl × Toks)
  | (s, .Identifier name, _) :: (_, .Colon, _) :: rest =>
    match smallConst rest with
    | none => none
    | some (w, _, _, rest1) =>
      match expect .Assign rest1 with
      | none => none
      | some (_, _, rest2) =>
        match parseESp rest2 with
        | none => none
        | some (v, _, e, rest3) =>
          match rest3 with
          | (_, .Semicolon, _) :: rest4 =>
            match k rest4 with
            | none => none
            | some (ds, rest5) => some (⟨(s, e), name, .bits w, v⟩ :: ds, rest5)
          | _ => some ([⟨(s, e), name, .bits w, v⟩], rest3)
  | ts => some ([], ts)

def parseRegDeclsSp : Nat → Toks → Option (List SRegDecl × Toks)
  | 0, _ => none
  | n+1, ts => regDeclsStepSp (parseRegDeclsSp n) ts

def regDeclsSp (ts : Toks) : Option (List SRegDecl × Toks) := parseRegDeclsSp (ts.length + 1) ts

/-- `parseBank` (after the keyword, whose start is `start`) with `RegisterBankDecl.span = (start of "register", end of
    "}")` and `name_span` = the identifier token -/
def parseBankSp (start : Nat) : Toks → Option (SBankDecl × Toks)
  | (ns, .Identifier name, ne) :: (_, .OpenBrace, _) :: rest =>
    match regDeclsSp rest with
    | none => none
    | some (regs, rest1) =>
      match expect .CloseBrace rest1 with
      | none => none
      | some (_, e, rest2) => some (⟨(start, e), name, (ns, ne), regs⟩, rest2)
  | _ => none

def parseNeedSemiSp : Toks → Option (SStmt × Toks)
  | (_, .Wire, _) :: rest =>
    match wireDeclsSp rest with
    | none => none
    | some (ds, rest1) => some (.wires ds, rest1)
  | (_, .Const, _) :: rest =>
    match constDeclsSp rest with
    | none => none
    | some (ds, rest1) => some (.consts ds, rest1)
  | (s, .Identifier name, e) :: rest =>
    match assignsSp ((s, .Identifier name, e) :: rest) with
    | none => none
    | some (as, rest1) => some (.assigns as, rest1)
  | _ => none

def stmtsStepSp (k : Toks → Option (List SStmt)) (started : Bool) : Toks → Option (List SStmt)
  | [] => if started then some [] else none
  | (_, .Semicolon, _) :: rest => if started then k rest else none
  | (s, .Register, _) :: rest =>
    match parseBankSp s rest with
    | none => none
    | some (b, rest1) =>
      match k rest1 with
      | none => none
      | some more => some (.bank b :: more)
  | t :: rest =>
    match parseNeedSemiSp (t :: rest) with
    | none => none
    | some (st, rest1) =>
      match rest1 with
      | (_, .Semicolon, _) :: rest2 =>
        match k rest2 with
        | none => none
        | some more => some (st :: more)
      | [] => if started then some [st] else none
      | _ => none

def parseStmtsLoopSp : Nat → Bool → Toks → Option (List SStmt)
  | 0, _, _ => none
  | n+1, started, ts => stmtsStepSp (parseStmtsLoopSp n true) started ts

/-- `parseStmts` with spans -/
def parseStmtsSp (fuel : Nat) (ts : Toks) : Option (List SStmt) := parseStmtsLoopSp fuel false ts

/-- `parseProgram` with spans: lex, fail on any lexical error, parse the statements -/
def parseProgramSp (cls : CharCls) (text : List Char) : Option (List SStmt) :=
  match tokensOf (lex cls text) with
  | none => none
  | some ts => parseStmtsSp (ts.length + 1) ts

end Parser
