import Hcl.Generated

/-! Text pins (written by tools/mkpins.py): the comment-free, whitespace-normalised bodies of functions that the
    hand-written model transcribes, as they were when the model was last validated against them.  An edit of one
    of these functions makes the `rfl` below fail; the check then looks for an input on which model and code
    differ, and reports the property as no longer shown to hold when it finds none. -/

namespace Tie.PinsInit

/-- `pub fn initial_state(&self)`, src/program.rs -/
theorem pinInitialState : Generated.pinInitialState = ("let mut values = self.constants(); for bank in &self.register_banks { for signal in &bank.signals { let in_name = &signal.0; let out_name = &signal.1; let the_value = *bank.defaults.get(out_name).unwrap(); values.insert(in_name.clone(), the_value); values.insert(out_name.clone(), the_value); } values.insert(bank.bubble_signal.clone(), WireValue::false_value()); values.insert(bank.stall_signal.clone(), WireValue::false_value()); } values" : String) := by rfl

end Tie.PinsInit
