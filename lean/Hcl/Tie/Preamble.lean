import Hcl.Generated

/-! The predefined Y86 names of the preamble have their CS:APP values (new names may be added freely). -/
namespace Tie.Preamble

def expected : List (String × String) := [("STAT_BUB", "0b000"), ("STAT_AOK", "0b001"), ("STAT_HLT", "0b010"), ("STAT_ADR", "0b011"), ("STAT_INS", "0b100"), ("STAT_PIP", "0b110"), ("REG_RAX", "0b0000"), ("REG_RCX", "0b0001"), ("REG_RDX", "0b0010"), ("REG_RBX", "0b0011"), ("REG_RSP", "0b0100"), ("REG_RBP", "0b0101"), ("REG_RSI", "0b0110"), ("REG_RDI", "0b0111"), ("REG_R8", "0b1000"), ("REG_R9", "0b1001"), ("REG_R10", "0b1010"), ("REG_R11", "0b1011"), ("REG_R12", "0b1100"), ("REG_R13", "0b1101"), ("REG_R14", "0b1110"), ("REG_NONE", "0b1111"), ("HALT", "0b0000"), ("NOP", "0b0001"), ("RRMOVQ", "0b0010"), ("IRMOVQ", "0b0011"), ("RMMOVQ", "0b0100"), ("MRMOVQ", "0b0101"), ("OPQ", "0b0110"), ("JXX", "0b0111"), ("CALL", "0b1000"), ("RET", "0b1001"), ("PUSHQ", "0b1010"), ("POPQ", "0b1011"), ("CMOVXX", "RRMOVQ"), ("ALWAYS", "0b0000"), ("LE", "0b0001"), ("LT", "0b0010"), ("EQ", "0b0011"), ("NE", "0b0100"), ("GE", "0b0101"), ("GT", "0b0110"), ("ADDQ", "0b0000"), ("SUBQ", "0b0001"), ("ANDQ", "0b0010"), ("XORQ", "0b0011"), ("true", "1"), ("false", "0"), ("TRUE", "1"), ("FALSE", "0")]

theorem preamble_has_expected : expected.all (fun p => Generated.preambleConsts.contains p) = true := by decide

end Tie.Preamble
