import Hcl.Model.Cli

/-!
# C19 — the command line reports success and failure through its exit status
-/

open Cli

/-- what the user asked for was done -/
def didWhatWasAsked (a : CliInput) : Prop :=
  a.help = true ∨ (a.help = false ∧ a.version = true) ∨
  (a.help = false ∧ a.version = false ∧ a.check = true ∧ 1 ≤ a.nfree ∧ a.nfree ≤ 3 ∧ a.hcl = .accepted) ∨
  (a.help = false ∧ a.version = false ∧ a.check = false ∧ 2 ≤ a.nfree ∧ a.nfree ≤ 3 ∧ a.hcl = .accepted ∧
    a.yoHasSuffix = true ∧ (a.nfree = 3 → a.timeoutValid = true) ∧ a.yo = .loaded ∧ a.run = .finished)

/-- **C19.** With well-formed options, the exit status is 0 exactly when what was asked was done: help or
    version printed, the file found acceptable under `--check`, or the simulation run to completion and
    the final state printed; in every other case it is 1. -/
theorem C19_exit (a : CliInput) (hopt : a.optionError = false) :
    (mainReal a).1 = 0 ↔ didWhatWasAsked a := by
  obtain ⟨oe, help, version, check, nfree, hcl, suf, yo, tv, run⟩ := a
  simp only at hopt
  subst hopt
  have hn : nfree = 0 ∨ nfree = 1 ∨ nfree = 2 ∨ nfree = 3 ∨ 4 ≤ nfree := by omega
  rcases hn with rfl | rfl | rfl | rfl | h4
  · cases help <;> cases version <;> simp [mainReal, outcomeOf, Out.status, didWhatWasAsked]
  · cases help <;> cases version <;> cases check <;> cases hcl <;> simp [mainReal, outcomeOf, Out.status, didWhatWasAsked]
  · cases help <;> cases version <;> cases check <;> cases hcl <;> cases suf <;> cases yo <;> cases run <;>
      simp [mainReal, outcomeOf, Out.status, didWhatWasAsked]
  · cases help <;> cases version <;> cases check <;> cases hcl <;> cases suf <;> cases yo <;> cases tv <;> cases run <;>
      simp [mainReal, outcomeOf, Out.status, didWhatWasAsked]
  · have e1 : ¬ nfree < 1 := by omega
    have e2 : nfree > 3 := by omega
    have e3 : ¬ nfree ≤ 3 := by omega
    cases help <;> cases version <;> cases hcl <;> simp [mainReal, outcomeOf, Out.status, didWhatWasAsked, e1, e2, e3]

/-- option errors always fail -/
theorem C19_option_error (a : CliInput) (h : a.optionError = true) : mainReal a = (1, .optionMessage) := by
  simp [mainReal, outcomeOf, h, Out.status]

/-- status 0 comes with the help text, the version, `syntax OK` or the final state and nothing else; status 1 with
    the usage text or a message and never with a final state; no other status occurs -/
theorem C19_output_matches_status (a : CliInput) :
    ((mainReal a).1 = 0 ↔ ((mainReal a).2 = .usage ∨ (mainReal a).2 = .version ∨ (mainReal a).2 = .syntaxOk ∨ (mainReal a).2 = .finalState)) ∧
    ((mainReal a).1 = 0 ∨ (mainReal a).1 = 1) := by
  simp only [mainReal]
  cases outcomeOf a <;> simp [Out.status]

/-- `--check` simulates nothing: its outcome does not depend on the image, the timeout or the run -/
theorem C19_check_simulates_nothing (a : CliInput) (hc : a.check = true) (suf tv : Bool) (yo : YoFile) (run : RunResult) :
    mainReal { a with yoHasSuffix := suf, yo := yo, timeoutValid := tv, run := run } = mainReal a := by
  simp only [mainReal, outcomeOf, hc]
  by_cases h1 : a.optionError = true <;> by_cases h2 : a.help = true <;> by_cases h3 : a.version = true <;>
    by_cases h4 : a.nfree < 1 <;> by_cases h5 : a.hcl = .unreadable <;> by_cases h6 : a.nfree > 3 <;>
    by_cases h7 : a.hcl = .rejected <;> simp [h1, h2, h3, h4, h5, h6, h7]

/-- the timeout argument: exactly the decimal numbers below 2^32 are accepted -/
example : parseU32 "9999".toList = some 9999 := by decide
example : parseU32 "4294967295".toList = some 4294967295 := by decide
example : parseU32 "4294967296".toList = none := by decide
example : parseU32 "".toList = none := by decide
example : parseU32 "abc".toList = none := by decide
example : parseU32 "0".toList = some 0 := by decide
