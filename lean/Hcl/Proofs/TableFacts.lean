import Hcl.Proofs.Tables
import Hcl.Proofs.InitState

/-! What the final width table says about the names that matter: built-in wires, register signals, control
    signals and constants — none of them is clobbered by another. -/

theorem nodup_flatMap_inj {α β : Type} (f : α → List β) : ∀ (l : List α), (l.flatMap f).Nodup →
    ∀ a ∈ l, ∀ b ∈ l, ∀ x, x ∈ f a → x ∈ f b → a = b
  | [], _, a, ha, _, _, _, _, _ => by simp at ha
  | c :: rest, h, a, ha, b, hb, x, hxa, hxb => by
    simp only [List.flatMap_cons] at h
    rw [List.nodup_append] at h
    obtain ⟨_, h2, h3⟩ := h
    rcases List.mem_cons.mp ha with h1 | h1
    · rcases List.mem_cons.mp hb with g1 | g1
      · rw [h1, g1]
      · subst h1
        exact absurd rfl (h3 x hxa x (List.mem_flatMap.mpr ⟨b, g1, hxb⟩))
    · rcases List.mem_cons.mp hb with g1 | g1
      · subst g1
        exact absurd rfl (h3 x hxb x (List.mem_flatMap.mpr ⟨a, h1, hxa⟩))
      · exact nodup_flatMap_inj f rest h2 a h1 b g1 x hxa hxb

def allSigs (banks : List RegisterBank) : List (String × String × Width) := banks.flatMap (·.signals)

theorem bankNames_eq (banks : List RegisterBank) : bankNames banks = (allSigs banks).flatMap (fun sg => [sg.2.1, sg.1]) := by
  simp [bankNames, allSigs, sigNames, List.flatMap_assoc]

theorem mem_allSigs (banks : List RegisterBank) (sg : String × String × Width) :
    sg ∈ allSigs banks ↔ ∃ b ∈ banks, sg ∈ b.signals := by
  simp [allSigs, List.mem_flatMap]

/-- two signals that share a name are the same signal, and no signal's input is another's (or its own) output -/
theorem sig_names_inj (banks : List RegisterBank) (h : (bankNames banks).Nodup)
    (sg sg' : String × String × Width) (hs : sg ∈ allSigs banks) (hs' : sg' ∈ allSigs banks) :
    (sg.1 = sg'.1 → sg = sg') ∧ (sg.2.1 = sg'.2.1 → sg = sg') ∧ sg.1 ≠ sg'.2.1 := by
  rw [bankNames_eq] at h
  have inj := nodup_flatMap_inj (fun sg : String × String × Width => [sg.2.1, sg.1]) (allSigs banks) h
  refine ⟨?_, ?_, ?_⟩
  · intro e
    exact inj sg hs sg' hs' sg.1 (by simp) (by simp [e])
  · intro e
    exact inj sg hs sg' hs' sg.2.1 (by simp) (by simp [e])
  · intro e
    have : sg = sg' := inj sg hs sg' hs' sg.1 (by simp) (by simp [e])
    subst this
    -- within one signal, output and input differ: the pair [out, in] is part of a duplicate-free list
    have hmem : sg ∈ allSigs banks := hs
    obtain ⟨l1, l2, hl⟩ := List.append_of_mem hmem
    rw [hl] at h
    simp only [List.flatMap_append, List.flatMap_cons] at h
    have h2 := (List.nodup_append.mp h).2.1
    have h3 := (List.nodup_append.mp h2).1
    simp at h3
    exact h3 e.symm

theorem mem_bankPairs (banks : List RegisterBank) (p : String × Width) :
    p ∈ bankPairs banks ↔ ∃ b ∈ banks, (∃ sg ∈ b.signals, p = (sg.2.1, sg.2.2) ∨ p = (sg.1, sg.2.2)) ∨
      p = (b.stall, .bits 1) ∨ p = (b.bubble, .bits 1) := by
  unfold bankPairs
  simp only [List.mem_flatMap, List.mem_append, List.mem_cons, List.mem_nil_iff, or_false]

theorem mem_constPairs (keys : List String) (constants : AMap WireValue) (p : String × Width) :
    p ∈ constPairs keys constants ↔ ∃ v, p.1 ∈ keys ∧ constants.get? p.1 = some v ∧ p.2 = v.width := by
  unfold constPairs
  rw [List.mem_filterMap]
  constructor
  · rintro ⟨k, hk, h⟩
    cases hg : constants.get? k with
    | none => rw [hg] at h; simp at h
    | some v =>
      rw [hg] at h
      simp at h
      subst h
      exact ⟨v, hk, hg, rfl⟩
  · rintro ⟨v, hk, hg, hw⟩
    exact ⟨p.1, hk, by rw [hg]; simp [← hw]⟩

structure TablesHyp (FN : List String) (W0 : AMap Width) (s1 : Step1) (constants : AMap WireValue) (s3 : Step3) : Prop where
  s1inv : S1Inv FN W0 s1
  s1clean : s1.errors = []
  cok : ConstOK constants
  ckeys : ∀ k v, constants.get? k = some v → k ∈ s1.constantsRaw.keys
  s3f : S3Facts s1.declared (fun n => s1.assignments.contains n = false) s3 {}
  fnShape : ∀ n ∈ FN, secondIsUnderscore n = false ∧ isCtlName n = false

def finalWires (s1 : Step1) (constants : AMap WireValue) (s3 : Step3) : AMap Width :=
  insertAll (insertAll s1.wires (bankPairs s3.banks)) (constPairs s1.constantsRaw.keys constants)

section
variable {FN : List String} {W0 : AMap Width} {s1 : Step1} {constants : AMap WireValue} {s3 : Step3}

theorem sig_of_bank (h : TablesHyp FN W0 s1 constants s3) (b : RegisterBank) (hb : b ∈ s3.banks)
    (sg : String × String × Width) (hsg : sg ∈ b.signals) :
    IsSigName sg.1 ∧ IsSigName sg.2.1 ∧ sg.1 ∉ s1.declared ∧ sg.2.1 ∉ s1.declared ∧ sg.2.2.ok ∧
    ∃ dv, b.defaults.get? sg.2.1 = some dv ∧ dv.width = sg.2.2 ∧ dv.bits < dv.width.card :=
  (h.s3f.banks b hb).sigs.sig sg hsg

theorem bankPairs_name_cases (h : TablesHyp FN W0 s1 constants s3) (p : String × Width) (hp : p ∈ bankPairs s3.banks) :
    (secondIsUnderscore p.1 = true ∧ p.1 ∉ s1.declared ∧ p.2.ok ∧
      ∃ b ∈ s3.banks, ∃ sg ∈ b.signals, p.2 = sg.2.2 ∧ (p.1 = sg.2.1 ∨ p.1 = sg.1)) ∨
    (isCtlName p.1 = true ∧ secondIsUnderscore p.1 = false ∧ p.1 ∉ s1.declared ∧ p.2 = .bits 1) := by
  obtain ⟨b, hb, hcase⟩ := (mem_bankPairs _ _).mp hp
  rcases hcase with ⟨sg, hsg, hpe⟩ | hpe | hpe
  · obtain ⟨a1, a2, a3, a4, a5, _⟩ := sig_of_bank h b hb sg hsg
    left
    rcases hpe with rfl | rfl
    · exact ⟨isSigName_second a2, a4, a5, b, hb, sg, hsg, rfl, Or.inl rfl⟩
    · exact ⟨isSigName_second a1, a3, a5, b, hb, sg, hsg, rfl, Or.inr rfl⟩
  · right
    obtain ⟨c, hc1, _⟩ := (h.s3f.banks b hb).ctl
    subst hpe
    simp only
    rw [hc1]
    exact ⟨stall_isCtl c, stall_not_sig c, by rw [← hc1]; exact (h.s3f.banks b hb).ctlDecl.1, trivial⟩
  · right
    obtain ⟨c, _, hc2⟩ := (h.s3f.banks b hb).ctl
    subst hpe
    simp only
    rw [hc2]
    exact ⟨bubble_isCtl c, bubble_not_sig c, by rw [← hc2]; exact (h.s3f.banks b hb).ctlDecl.2, trivial⟩

theorem constPairs_declared (h : TablesHyp FN W0 s1 constants s3) (p : String × Width)
    (hp : p ∈ constPairs s1.constantsRaw.keys constants) :
    p.1 ∈ s1.declared ∧ p.1 ∉ FN ∧ p.2.ok ∧ ∃ v, constants.get? p.1 = some v ∧ p.2 = v.width := by
  obtain ⟨v, hk, hg, hw⟩ := (mem_constPairs _ _ _).mp hp
  exact ⟨h.s1inv.cDecl _ hk, h.s1inv.cNotFixed h.s1clean _ hk, by rw [hw]; exact (h.cok _ _ hg).1, v, hg, hw⟩

/-- built-in wires keep the widths of the table -/
theorem finalWires_fixed (h : TablesHyp FN W0 s1 constants s3) (n : String) (hn : n ∈ FN) :
    (finalWires s1 constants s3).get? n = W0.get? n := by
  unfold finalWires
  rw [get?_insertAll_none, get?_insertAll_none]
  · exact h.s1inv.fixedKept h.s1clean n hn
  · intro p hp e
    have hs := h.fnShape n hn
    rcases bankPairs_name_cases h p hp with ⟨g1, _⟩ | ⟨g1, _⟩
    · rw [e, hs.1] at g1; cases g1
    · rw [e, hs.2] at g1; cases g1
  · intro p hp e
    exact (constPairs_declared h p hp).2.1 (e ▸ hn)

theorem finalWires_sig (h : TablesHyp FN W0 s1 constants s3) (b : RegisterBank) (hb : b ∈ s3.banks)
    (sg : String × String × Width) (hsg : sg ∈ b.signals) :
    (finalWires s1 constants s3).get? sg.1 = some sg.2.2 ∧ (finalWires s1 constants s3).get? sg.2.1 = some sg.2.2 := by
  obtain ⟨a1, a2, a3, a4, _, _⟩ := sig_of_bank h b hb sg hsg
  have hall : sg ∈ allSigs s3.banks := (mem_allSigs _ _).mpr ⟨b, hb, hsg⟩
  have hnd : (bankNames s3.banks).Nodup := by
    have := h.s3f.nodup
    rw [h.s3f.seen] at this
    simpa [sigNames] using this
  unfold finalWires
  constructor
  · rw [get?_insertAll_none]
    · apply get?_insertAll_some
      · exact ⟨(sg.1, sg.2.2), (mem_bankPairs _ _).mpr ⟨b, hb, Or.inl ⟨sg, hsg, Or.inr rfl⟩⟩, rfl⟩
      · intro p hp e
        rcases bankPairs_name_cases h p hp with ⟨_, _, _, b', hb', sg', hsg', hw, hname⟩ | ⟨_, g2, _⟩
        · have hall' : sg' ∈ allSigs s3.banks := (mem_allSigs _ _).mpr ⟨b', hb', hsg'⟩
          obtain ⟨i1, _, i3⟩ := sig_names_inj s3.banks hnd sg sg' hall hall'
          rcases hname with hname | hname
          · exact absurd (e.symm.trans hname) i3
          · have := i1 (e.symm.trans hname)
            rw [hw, this]
        · rw [e, isSigName_second a1] at g2; cases g2
    · intro p hp e
      exact a3 (e ▸ (constPairs_declared h p hp).1)
  · rw [get?_insertAll_none]
    · apply get?_insertAll_some
      · exact ⟨(sg.2.1, sg.2.2), (mem_bankPairs _ _).mpr ⟨b, hb, Or.inl ⟨sg, hsg, Or.inl rfl⟩⟩, rfl⟩
      · intro p hp e
        rcases bankPairs_name_cases h p hp with ⟨_, _, _, b', hb', sg', hsg', hw, hname⟩ | ⟨_, g2, _⟩
        · have hall' : sg' ∈ allSigs s3.banks := (mem_allSigs _ _).mpr ⟨b', hb', hsg'⟩
          obtain ⟨_, i2, _⟩ := sig_names_inj s3.banks hnd sg sg' hall hall'
          obtain ⟨_, _, j3⟩ := sig_names_inj s3.banks hnd sg' sg hall' hall
          rcases hname with hname | hname
          · have := i2 (e.symm.trans hname)
            rw [hw, this]
          · exact absurd (hname.symm.trans e) j3
        · rw [e, isSigName_second a2] at g2; cases g2
    · intro p hp e
      exact a4 (e ▸ (constPairs_declared h p hp).1)

theorem finalWires_ctl (h : TablesHyp FN W0 s1 constants s3) (b : RegisterBank) (hb : b ∈ s3.banks) :
    (finalWires s1 constants s3).get? b.stall = some (.bits 1) ∧ (finalWires s1 constants s3).get? b.bubble = some (.bits 1) := by
  obtain ⟨c, hc1, hc2⟩ := (h.s3f.banks b hb).ctl
  have hd := (h.s3f.banks b hb).ctlDecl
  unfold finalWires
  constructor
  · rw [get?_insertAll_none]
    · apply get?_insertAll_some
      · exact ⟨(b.stall, .bits 1), (mem_bankPairs _ _).mpr ⟨b, hb, Or.inr (Or.inl rfl)⟩, rfl⟩
      · intro p hp e
        rcases bankPairs_name_cases h p hp with ⟨g1, _⟩ | ⟨_, _, _, g4⟩
        · rw [e, hc1, stall_not_sig] at g1; cases g1
        · exact g4
    · intro p hp e
      exact hd.1 (e ▸ (constPairs_declared h p hp).1)
  · rw [get?_insertAll_none]
    · apply get?_insertAll_some
      · exact ⟨(b.bubble, .bits 1), (mem_bankPairs _ _).mpr ⟨b, hb, Or.inr (Or.inr rfl)⟩, rfl⟩
      · intro p hp e
        rcases bankPairs_name_cases h p hp with ⟨g1, _⟩ | ⟨_, _, _, g4⟩
        · rw [e, hc2, bubble_not_sig] at g1; cases g1
        · exact g4
    · intro p hp e
      exact hd.2 (e ▸ (constPairs_declared h p hp).1)

theorem finalWires_const (h : TablesHyp FN W0 s1 constants s3) (k : String) (v : WireValue)
    (hk : constants.get? k = some v) : (finalWires s1 constants s3).get? k = some v.width := by
  unfold finalWires
  apply get?_insertAll_some
  · exact ⟨(k, v.width), (mem_constPairs _ _ _).mpr ⟨v, h.ckeys k v hk, hk, rfl⟩, rfl⟩
  · intro p hp e
    obtain ⟨v', _, hg, hw⟩ := (mem_constPairs _ _ _).mp hp
    rw [e, hk] at hg
    cases hg; exact hw

theorem finalWires_ctxOK (h : TablesHyp FN W0 s1 constants s3) : CtxOK (finalWires s1 constants s3).toCtx := by
  intro n w hw
  have hw' : (finalWires s1 constants s3).get? n = some w := hw
  unfold finalWires at hw'
  rcases get?_insertAll_cases _ _ _ _ hw' with h1 | h1
  · rcases get?_insertAll_cases _ _ _ _ h1 with h2 | h2
    · exact h.s1inv.wOk n w h2
    · rcases bankPairs_name_cases h _ h2 with ⟨_, _, g3, _⟩ | ⟨_, _, _, g4⟩
      · exact g3
      · simp only at g4; rw [g4]; simp [Width.ok]
  · exact (constPairs_declared h _ h1).2.2.1

theorem banks_ready (h : TablesHyp FN W0 s1 constants s3) :
    ∀ b ∈ s3.banks, BankReady (finalWires s1 constants s3).toCtx b := by
  intro b hb
  refine ⟨?_, (finalWires_ctl h b hb).1, (finalWires_ctl h b hb).2⟩
  intro sg hsg
  obtain ⟨_, _, _, _, _, dv, d1, d2, d3⟩ := sig_of_bank h b hb sg hsg
  obtain ⟨w1, w2⟩ := finalWires_sig h b hb sg hsg
  exact ⟨dv, d1, by rw [d2]; exact w1, by rw [d2]; exact w2, d3⟩
end
