import Hcl.Proofs.FaultNamedStage1
import Hcl.Proofs.SpecFaultsBanks
open Rust

/-! Group B: the faults of the register banks and the unset wires (steps 3 and 4 of `Program::new`), each with the
    diagnostic reported for it.  Steps 3 and 4 run only when stage 1 reported nothing and the constants resolved; their
    diagnostics are collected in one list (`s3.errors ++ e4`), so none of them pre-empts another. -/

namespace FaultNamed

/-! ### the gate -/

/-- the diagnostics of step 4 (names that need an assignment and have none) -/
def e4Of (s1 : Step1) (s3 : Step3) : List Diag :=
  (neededOf s1 s3).flatMap fun n =>
    if s1.assignments.contains n then [] else
    if s1.declared.contains n then [⟨.UnsetWire, [n]⟩]
    else if s3.registerIns.contains n then [⟨.UnsetRegisterInputWire, [n]⟩]
    else [⟨.UnsetBuiltinWire, [n]⟩]

/-- stage 1 reports nothing, the constants resolve, steps 3/4 report something ⇒ exactly that is the result -/
theorem Program_new_stage3_error (fl : Flags) (cls : CharClass) (o : Orders) (fixed : List FixedFunction)
    (stmts : List Stmt) (constants : AMap WireValue)
    (h1 : errs1Of (step1G fixed stmts) = [])
    (h2 : resolveConstants fl o (step1G fixed stmts).constantsRaw = .ok constants)
    (hne : (step3Of fl cls (step1G fixed stmts) constants).errors ++
        e4Of (step1G fixed stmts) (step3Of fl cls (step1G fixed stmts) constants) ≠ []) :
    Program.new fl cls o fixed stmts = .error ((step3Of fl cls (step1G fixed stmts) constants).errors ++
        e4Of (step1G fixed stmts) (step3Of fl cls (step1G fixed stmts) constants)) := by
  unfold Program.new
  simp only
  generalize hs1 : List.foldl (step1Stmt _ _) (step1Init fixed) stmts = s1'
  have hs1' : s1' = step1G fixed stmts := hs1.symm
  subst hs1'
  clear hs1
  generalize step1G fixed stmts = s1 at *
  have h1' : (s1.errors ++ (s1.assigned.flatMap fun n => if s1.constantsRaw.contains n then [(⟨.AssignedConstant, [n]⟩ : Diag)] else []) ++
    constRefErrors s1) = [] := h1
  rw [h1']
  simp only [List.isEmpty_nil, Bool.not_true, Bool.false_eq_true, if_false]
  rw [h2]
  simp only
  have hs3 : List.foldl (step3Bank fl cls s1 constants) { wireTypes := s1.wireTypes } s1.banksRaw = step3Of fl cls s1 constants := rfl
  rw [hs3]
  generalize step3Of fl cls s1 constants = s3 at *
  have he4 : ((List.foldl setInsert s1.needed (bankIns s3.banks)).flatMap fun n =>
      if s1.assignments.contains n then ([] : List Diag) else
      if s1.declared.contains n then [⟨.UnsetWire, [n]⟩]
      else if s3.registerIns.contains n then [⟨.UnsetRegisterInputWire, [n]⟩]
      else [⟨.UnsetBuiltinWire, [n]⟩]) = e4Of s1 s3 := rfl
  rw [he4, if_pos]
  simpa using hne

theorem Program_new_stage3 (fl : Flags) (cls : CharClass) (o : Orders) (fixed : List FixedFunction)
    (stmts : List Stmt) (constants : AMap WireValue)
    (h1 : errs1Of (step1G fixed stmts) = [])
    (h2 : resolveConstants fl o (step1G fixed stmts).constantsRaw = .ok constants) (d : Diag)
    (hd : d ∈ (step3Of fl cls (step1G fixed stmts) constants).errors ++
        e4Of (step1G fixed stmts) (step3Of fl cls (step1G fixed stmts) constants)) :
    ∃ ds, Program.new fl cls o fixed stmts = .error ds ∧ d ∈ ds :=
  ⟨_, Program_new_stage3_error fl cls o fixed stmts constants h1 h2 (List.ne_nil_of_mem hd), hd⟩

/-! ### the remaining tables of step 1 -/

theorem step1Init_needed_banks (fixed : List FixedFunction) :
    (step1Init fixed).needed = [] ∧ (step1Init fixed).banksRaw = [] := by
  unfold step1Init
  apply foldl_preserves (fun s : Step1 => s.needed = [] ∧ s.banksRaw = [])
  · intro s f hs
    have h1 : (fun s : Step1 => s.needed = [] ∧ s.banksRaw = []) (f.inWires.foldl (fun s (w : String × Nat) =>
          { s with wireTypes := s.wireTypes.insert w.1 .builtinInput, wires := s.wires.insert w.1 (.bits w.2) }) s) := by
      apply foldl_preserves (fun s : Step1 => s.needed = [] ∧ s.banksRaw = [])
      · intro a x ha; exact ha
      · exact hs
    cases ho : f.outWire with
    | none => simp only; exact h1
    | some p => simp only; exact h1
  · exact ⟨rfl, rfl⟩

/-- the bank declarations of a statement list -/
def banksOf (stmts : List Stmt) : List BankDecl :=
  stmts.filterMap (fun st => match st with | .bank b => some b | _ => none)

theorem mem_banksOf (stmts : List Stmt) (b : BankDecl) : b ∈ banksOf stmts ↔ Stmt.bank b ∈ stmts := by
  unfold banksOf
  rw [List.mem_filterMap]
  constructor
  · rintro ⟨st, hm, h⟩
    cases st with
    | bank b' => simp only [Option.some.injEq] at h; subst h; exact hm
    | consts ds => cases h
    | wires ds => cases h
    | assigns as => cases h
  · intro h; exact ⟨_, h, rfl⟩

theorem step1G_banksRaw (fixed : List FixedFunction) (stmts : List Stmt) : (step1G fixed stmts).banksRaw = banksOf stmts := by
  unfold step1G banksOf
  rw [step1_fold_banksRaw, (step1Init_needed_banks fixed).2, List.nil_append]
  congr 1

/-- the wires that step 1 records as needing an assignment: exactly the names declared by `wire` statements -/
theorem step1G_needed_iff (fixed : List FixedFunction) (stmts : List Stmt) (n : String) :
    n ∈ (step1G fixed stmts).needed ↔ DeclaredWire stmts n := by
  unfold step1G
  rw [step1_fold_needed, (step1Init_needed_banks fixed).1]
  simp

theorem declaredWire_declared (stmts : List Stmt) (n : String) (h : DeclaredWire stmts n) : n ∈ allDeclared stmts := by
  obtain ⟨ds, hm, d, hd, e⟩ := h
  unfold allDeclared
  exact List.mem_flatMap.mpr ⟨_, hm, List.mem_map.mpr ⟨d, hd, e⟩⟩

/-! ### step 3: diagnostics are only ever added -/

section
variable (fl : Flags) (cls : CharClass) (s1 : Step1) (constants : AMap WireValue)

theorem regEval_errors_mono (bank inName outName : String) (s : Step3) (acc : BankAcc) (r : RegDecl) (d : Diag)
    (h : d ∈ s.errors) : d ∈ (regEval fl constants bank inName outName s acc r).1.errors := by
  unfold regEval
  simp only
  cases checkFixEval fl (AMap.toCtx (constants.map (fun p => (p.1, p.2.width)))) constants.toEnv r.default with
  | error ds => exact List.mem_append_left _ h
  | ok value =>
    simp only
    cases asWidth value r.width with
    | ok dv => exact List.mem_append_left _ h
    | error e => exact List.mem_append_left _ (List.mem_append_left _ h)

/-- a register: the diagnostics before it and those of its preliminary checks are in the list after it -/
theorem step3Register_errors_mem (bank : String) (inP outP : Char) (st : Step3 × BankAcc) (r : RegDecl) (d : Diag)
    (h : d ∈ st.1.errors ∨
      d ∈ (regPre s1 constants bank (regInName inP r) (regOutName outP r) st.2 st.1.seenRegisters r).1) :
    d ∈ (step3Register fl s1 constants bank inP outP st r).1.errors := by
  obtain ⟨s, acc⟩ := st
  unfold step3Register
  simp only
  unfold regInName regOutName at h
  simp only at h
  generalize String.ofList [inP, '_'] ++ r.name = inName at h ⊢
  generalize String.ofList [outP, '_'] ++ r.name = outName at h ⊢
  generalize regPre s1 constants bank inName outName acc s.seenRegisters r = pre at h ⊢
  have hm : d ∈ s.errors ++ pre.1 := List.mem_append.mpr h
  by_cases hpe : pre.1.isEmpty = true
  · simp only [hpe, Bool.not_true, Bool.false_eq_true, if_false]
    exact regEval_errors_mono fl constants bank inName outName _ acc r d hm
  · simp only [hpe, Bool.not_false, if_true]
    exact hm

theorem regs_fold_errors_mono (bank : String) (inP outP : Char) : ∀ (regs : List RegDecl) (st : Step3 × BankAcc) (d : Diag),
    d ∈ st.1.errors → d ∈ (regs.foldl (step3Register fl s1 constants bank inP outP) st).1.errors
  | [], _, _, h => h
  | r :: rest, st, d, h => by
    rw [List.foldl_cons]
    exact regs_fold_errors_mono bank inP outP rest _ d (step3Register_errors_mem fl s1 constants bank inP outP st r d (Or.inl h))

/-- a diagnostic that the preliminary checks of register `r` give whatever the loop state is in the list after the loop -/
theorem regs_fold_errors_reg (bank : String) (inP outP : Char) : ∀ (regs : List RegDecl) (st : Step3 × BankAcc) (d : Diag)
    (r : RegDecl), r ∈ regs →
    (∀ acc seen, d ∈ (regPre s1 constants bank (regInName inP r) (regOutName outP r) acc seen r).1) →
    d ∈ (regs.foldl (step3Register fl s1 constants bank inP outP) st).1.errors
  | [], _, _, _, h, _ => by cases h
  | x :: rest, st, d, r, hr, hd => by
    rw [List.foldl_cons]
    rcases List.mem_cons.mp hr with rfl | hr
    · exact regs_fold_errors_mono fl s1 constants bank inP outP rest _ d
        (step3Register_errors_mem fl s1 constants bank inP outP st r d (Or.inr (hd _ _)))
    · exact regs_fold_errors_reg bank inP outP rest _ d r hr hd

theorem step3Bank_errors_mono (s : Step3) (b : BankDecl) (d : Diag) (h : d ∈ s.errors) :
    d ∈ (step3Bank fl cls s1 constants s b).errors := by
  unfold step3Bank
  split
  · split
    · exact List.mem_append_left _ h
    · simp only
      exact regs_fold_errors_mono fl s1 constants b.name _ _ b.regs _ d (List.mem_append_left _ h)
  · exact List.mem_append_left _ h

theorem step3Bank_errors_reg (s : Step3) (b : BankDecl) (inP outP : Char) (hname : b.name.toList = [inP, outP])
    (hl : cls.isLower inP = true) (hu : cls.isUpper outP = true) (d : Diag) (r : RegDecl) (hr : r ∈ b.regs)
    (hd : ∀ acc seen, d ∈ (regPre s1 constants b.name (regInName inP r) (regOutName outP r) acc seen r).1) :
    d ∈ (step3Bank fl cls s1 constants s b).errors := by
  obtain ⟨s0, he, _, _, _⟩ := step3Bank_good fl cls s1 constants s b inP outP hname hl hu
  rw [he]
  exact regs_fold_errors_reg fl s1 constants b.name inP outP b.regs _ d r hr hd

theorem banks_fold_errors_mono : ∀ (banks : List BankDecl) (s : Step3) (d : Diag), d ∈ s.errors →
    d ∈ (banks.foldl (step3Bank fl cls s1 constants) s).errors
  | [], _, _, h => h
  | b :: rest, s, d, h => by
    rw [List.foldl_cons]
    exact banks_fold_errors_mono rest _ d (step3Bank_errors_mono fl cls s1 constants s b d h)

theorem banks_fold_errors_reg : ∀ (banks : List BankDecl) (s : Step3) (b : BankDecl) (inP outP : Char), b ∈ banks →
    b.name.toList = [inP, outP] → cls.isLower inP = true → cls.isUpper outP = true →
    ∀ (d : Diag) (r : RegDecl), r ∈ b.regs →
    (∀ acc seen, d ∈ (regPre s1 constants b.name (regInName inP r) (regOutName outP r) acc seen r).1) →
    d ∈ (banks.foldl (step3Bank fl cls s1 constants) s).errors
  | [], _, _, _, _, h, _, _, _, _, _, _, _ => by cases h
  | x :: rest, s, b, inP, outP, hb, hname, hl, hu, d, r, hr, hd => by
    rw [List.foldl_cons]
    rcases List.mem_cons.mp hb with rfl | hb
    · exact banks_fold_errors_mono fl cls s1 constants rest _ d
        (step3Bank_errors_reg fl cls s1 constants s b inP outP hname hl hu d r hr hd)
    · exact banks_fold_errors_reg rest _ b inP outP hb hname hl hu d r hr hd

/-- **a diagnostic of the preliminary checks of a register of a bank with a well-formed name is reported by step 3**,
    whatever else is wrong with the banks -/
theorem step3Of_errors_reg (b : BankDecl) (inP outP : Char) (hb : b ∈ s1.banksRaw)
    (hname : b.name.toList = [inP, outP]) (hl : cls.isLower inP = true) (hu : cls.isUpper outP = true)
    (d : Diag) (r : RegDecl) (hr : r ∈ b.regs)
    (hd : ∀ acc seen, d ∈ (regPre s1 constants b.name (regInName inP r) (regOutName outP r) acc seen r).1) :
    d ∈ (step3Of fl cls s1 constants).errors := by
  unfold step3Of
  exact banks_fold_errors_reg fl cls s1 constants s1.banksRaw _ b inP outP hb hname hl hu d r hr hd

/-! the state-independent diagnostics of `regPre` -/

theorem regPre_mem_nonconst (bank inName outName : String) (acc : BankAcc) (seen : List String) (r : RegDecl) (n : String)
    (hn : n ∈ refs r.default) (hw : s1.wires.contains n = true) (hc : constants.contains n = false) :
    (⟨.NonConstantWireRead, [n]⟩ : Diag) ∈ (regPre s1 constants bank inName outName acc seen r).1 := by
  unfold regPre
  simp only
  repeat apply List.mem_append_left
  refine List.mem_flatMap.mpr ⟨n, (mem_dedupS _ _).mpr hn, ?_⟩
  simp only [hw, hc, Bool.not_false, Bool.and_self, if_true]
  rw [List.mem_replicate]
  refine ⟨?_, rfl⟩
  unfold occurrences
  exact Nat.pos_iff_ne_zero.mp (List.count_pos_iff.mpr hn)

theorem regPre_mem_assigned (bank inName outName : String) (acc : BankAcc) (seen : List String) (r : RegDecl)
    (h : s1.assignments.contains outName = true) :
    (⟨.DoubleAssignedRegisterWire, [outName]⟩ : Diag) ∈ (regPre s1 constants bank inName outName acc seen r).1 := by
  unfold regPre
  simp only
  apply List.mem_append_left
  apply List.mem_append_left
  apply List.mem_append_right
  rw [if_pos h]
  exact List.mem_singleton.mpr rfl

theorem regPre_mem_declared_out (bank inName outName : String) (acc : BankAcc) (seen : List String) (r : RegDecl)
    (h : s1.declared.contains outName = true) :
    (⟨.RedeclaredWire, [outName]⟩ : Diag) ∈ (regPre s1 constants bank inName outName acc seen r).1 := by
  unfold regPre
  simp only
  apply List.mem_append_left
  apply List.mem_append_left
  apply List.mem_append_left
  apply List.mem_append_left
  apply List.mem_append_right
  refine List.mem_flatMap.mpr ⟨outName, by simp, ?_⟩
  rw [if_pos h]
  exact List.mem_singleton.mpr rfl

theorem regPre_mem_declared_in (bank inName outName : String) (acc : BankAcc) (seen : List String) (r : RegDecl)
    (h : s1.declared.contains inName = true) :
    (⟨.RedeclaredWire, [inName]⟩ : Diag) ∈ (regPre s1 constants bank inName outName acc seen r).1 := by
  unfold regPre
  simp only
  apply List.mem_append_left
  apply List.mem_append_left
  apply List.mem_append_left
  apply List.mem_append_left
  apply List.mem_append_right
  refine List.mem_flatMap.mpr ⟨inName, by simp, ?_⟩
  rw [if_pos h]
  exact List.mem_singleton.mpr rfl

/-! ### every recorded register input is in `registerIns` -/

def InsRecorded (st : Step3 × BankAcc) : Prop :=
  (∀ b ∈ st.1.banks, ∀ sg ∈ b.signals, sg.1 ∈ st.1.registerIns) ∧ (∀ sg ∈ st.2.signals, sg.1 ∈ st.1.registerIns)

theorem regEval_insRecorded (bank inName outName : String) (s : Step3) (acc : BankAcc) (r : RegDecl)
    (h : InsRecorded (s, acc)) : InsRecorded (regEval fl constants bank inName outName s acc r) := by
  unfold regEval
  simp only
  cases checkFixEval fl (AMap.toCtx (constants.map (fun p => (p.1, p.2.width)))) constants.toEnv r.default with
  | error ds => exact h
  | ok value =>
    simp only
    cases asWidth value r.width with
    | error e => exact h
    | ok dv =>
      simp only
      refine ⟨fun b hb sg hsg => List.mem_append_left _ (h.1 b hb sg hsg), ?_⟩
      intro sg hsg
      rcases List.mem_append.mp hsg with hsg | hsg
      · exact List.mem_append_left _ (h.2 sg hsg)
      · have : sg = (inName, outName, r.width) := List.mem_singleton.mp hsg
        subst this
        exact List.mem_append_right _ (List.mem_singleton.mpr rfl)

theorem step3Register_insRecorded (bank : String) (inP outP : Char) (st : Step3 × BankAcc) (r : RegDecl)
    (h : InsRecorded st) : InsRecorded (step3Register fl s1 constants bank inP outP st r) := by
  obtain ⟨s, acc⟩ := st
  unfold step3Register
  simp only
  generalize String.ofList [inP, '_'] ++ r.name = inName
  generalize String.ofList [outP, '_'] ++ r.name = outName
  generalize regPre s1 constants bank inName outName acc _ r = pre
  by_cases hpe : pre.1.isEmpty = true
  · simp only [hpe, Bool.not_true, Bool.false_eq_true, if_false]
    exact regEval_insRecorded fl constants bank inName outName _ acc r h
  · simp only [hpe, Bool.not_false, if_true]
    exact h

theorem regs_fold_insRecorded (bank : String) (inP outP : Char) : ∀ (regs : List RegDecl) (st : Step3 × BankAcc),
    InsRecorded st → InsRecorded (regs.foldl (step3Register fl s1 constants bank inP outP) st)
  | [], _, h => h
  | r :: rest, st, h => by
    rw [List.foldl_cons]
    exact regs_fold_insRecorded bank inP outP rest _ (step3Register_insRecorded fl s1 constants bank inP outP st r h)

theorem step3Bank_good_banks (s : Step3) (b : BankDecl) (inP outP : Char) (hname : b.name.toList = [inP, outP])
    (hl : cls.isLower inP = true) (hu : cls.isUpper outP = true) :
    ∃ s0 : Step3,
      (step3Bank fl cls s1 constants s b).registerIns =
        (b.regs.foldl (step3Register fl s1 constants b.name inP outP) (s0, {})).1.registerIns ∧
      s0.banks = s.banks ∧ s0.registerIns = s.registerIns ∧ ∃ bk : RegisterBank,
      (step3Bank fl cls s1 constants s b).banks =
        (b.regs.foldl (step3Register fl s1 constants b.name inP outP) (s0, {})).1.banks ++ [bk] ∧
      bk.signals = (b.regs.foldl (step3Register fl s1 constants b.name inP outP) (s0, {})).2.signals := by
  unfold step3Bank
  simp only [hname, hl, hu, Bool.not_true, Bool.or_self, Bool.false_eq_true, if_false]
  exact ⟨_, rfl, rfl, rfl, _, rfl, rfl⟩

theorem step3Bank_insRecorded (s : Step3) (b : BankDecl) (h : InsRecorded (s, {})) :
    InsRecorded (step3Bank fl cls s1 constants s b, {}) := by
  have hnil : ∀ t : Step3, (∀ b ∈ t.banks, ∀ sg ∈ b.signals, sg.1 ∈ t.registerIns) → InsRecorded (t, {}) :=
    fun t ht => ⟨ht, fun sg hsg => by cases hsg⟩
  by_cases hshape : ∃ i o, b.name.toList = [i, o]
  · obtain ⟨inP, outP, hname⟩ := hshape
    by_cases hcase : cls.isLower inP = true ∧ cls.isUpper outP = true
    · obtain ⟨hl, hu⟩ := hcase
      obtain ⟨s0, e5, e1, e2, bk, e4, e3⟩ := step3Bank_good_banks fl cls s1 constants s b inP outP hname hl hu
      have h0 : InsRecorded (s0, {}) := by
        apply hnil
        rw [e1, e2]
        exact h.1
      have := regs_fold_insRecorded fl s1 constants b.name inP outP b.regs (s0, {}) h0
      apply hnil
      rw [e4, e5]
      intro bk' hbk sg hsg
      rcases List.mem_append.mp hbk with hbk | hbk
      · exact this.1 bk' hbk sg hsg
      · have hbe : bk' = bk := List.mem_singleton.mp hbk
        subst hbe
        rw [e3] at hsg
        exact this.2 sg hsg
    · unfold step3Bank
      simp only [hname]
      rw [if_pos]
      · exact hnil _ h.1
      · cases h1 : cls.isLower inP <;> cases h2 : cls.isUpper outP <;> simp_all
  · unfold step3Bank
    split
    · rename_i i o heq
      exact absurd ⟨i, o, heq⟩ hshape
    · exact hnil _ h.1

theorem banks_fold_insRecorded : ∀ (banks : List BankDecl) (s : Step3), InsRecorded (s, {}) →
    InsRecorded (banks.foldl (step3Bank fl cls s1 constants) s, {})
  | [], _, h => h
  | b :: rest, s, h => by
    rw [List.foldl_cons]
    exact banks_fold_insRecorded rest _ (step3Bank_insRecorded fl cls s1 constants s b h)

/-- every register input of the banks that step 3 builds is in its list of register inputs -/
theorem step3Of_bankIns_registerIns (n : String) (h : n ∈ bankIns (step3Of fl cls s1 constants).banks) :
    n ∈ (step3Of fl cls s1 constants).registerIns := by
  have h0 : InsRecorded (({ wireTypes := s1.wireTypes } : Step3), ({} : BankAcc)) := by
    unfold InsRecorded
    exact ⟨fun b hb => (by cases hb), fun sg hsg => (by cases hsg)⟩
  have := banks_fold_insRecorded fl cls s1 constants s1.banksRaw { wireTypes := s1.wireTypes } h0
  unfold bankIns at h
  obtain ⟨b, hb, hn⟩ := List.mem_flatMap.mp h
  obtain ⟨sg, hsg, rfl⟩ := List.mem_map.mp hn
  exact this.1 b hb sg hsg

end

/-! ### step 4 by membership -/

theorem mem_e4Of_unsetWire (s1 : Step1) (s3 : Step3) (n : String) (hn : n ∈ neededOf s1 s3)
    (ha : s1.assignments.contains n = false) (hd : s1.declared.contains n = true) :
    (⟨.UnsetWire, [n]⟩ : Diag) ∈ e4Of s1 s3 := by
  unfold e4Of
  refine List.mem_flatMap.mpr ⟨n, hn, ?_⟩
  rw [if_neg (by rw [ha]; exact Bool.false_ne_true), if_pos hd]
  exact List.mem_singleton.mpr rfl

theorem mem_e4Of_unsetRegIn (s1 : Step1) (s3 : Step3) (n : String) (hn : n ∈ neededOf s1 s3)
    (ha : s1.assignments.contains n = false) (hd : s1.declared.contains n = false) (hr : s3.registerIns.contains n = true) :
    (⟨.UnsetRegisterInputWire, [n]⟩ : Diag) ∈ e4Of s1 s3 := by
  unfold e4Of
  refine List.mem_flatMap.mpr ⟨n, hn, ?_⟩
  rw [if_neg (by rw [ha]; exact Bool.false_ne_true), if_neg (by rw [hd]; exact Bool.false_ne_true), if_pos hr]
  exact List.mem_singleton.mpr rfl

/-- what a diagnostic of step 4 says -/
theorem e4Of_sound (s1 : Step1) (s3 : Step3) (d : Diag) (h : d ∈ e4Of s1 s3) :
    ∃ n ∈ neededOf s1 s3, s1.assignments.contains n = false ∧
      ((d = ⟨.UnsetWire, [n]⟩ ∧ s1.declared.contains n = true) ∨
       (d = ⟨.UnsetRegisterInputWire, [n]⟩ ∧ s1.declared.contains n = false ∧ s3.registerIns.contains n = true) ∨
       (d = ⟨.UnsetBuiltinWire, [n]⟩ ∧ s1.declared.contains n = false ∧ s3.registerIns.contains n = false)) := by
  unfold e4Of at h
  obtain ⟨n, hn, h⟩ := List.mem_flatMap.mp h
  refine ⟨n, hn, ?_⟩
  cases ha : s1.assignments.contains n with
  | true => simp [ha] at h
  | false =>
    refine ⟨rfl, ?_⟩
    cases hd : s1.declared.contains n with
    | true =>
      simp only [ha, hd, Bool.false_eq_true, if_false, if_true] at h
      exact Or.inl ⟨List.mem_singleton.mp h, rfl⟩
    | false =>
      cases hr : s3.registerIns.contains n with
      | true =>
        simp only [ha, hd, hr, Bool.false_eq_true, if_false, if_true] at h
        exact Or.inr (Or.inl ⟨List.mem_singleton.mp h, rfl, rfl⟩)
      | false =>
        simp only [ha, hd, hr, Bool.false_eq_true, if_false] at h
        exact Or.inr (Or.inr ⟨List.mem_singleton.mp h, rfl, rfl⟩)

theorem contains_false_of_not_mem {l : List String} {n : String} (h : n ∉ l) : l.contains n = false := by
  cases hc : l.contains n with
  | false => rfl
  | true => exact absurd (List.contains_iff_mem.mp hc) h

theorem amap_contains_false_of_not {α : Type} {m : AMap α} {n : String} (h : ¬ m.contains n = true) : m.contains n = false := by
  cases hc : m.contains n with
  | false => rfl
  | true => exact absurd hc h

/-! ### Group B: the faults and their diagnostics -/

/-- the hypothesis of group B: stage 1 reports nothing (see `stage1Clean_iff`) and the constants resolve to `constants` -/
structure Stage12 (fl : Flags) (o : Orders) (fixed : List FixedFunction) (stmts : List Stmt) (constants : AMap WireValue) : Prop where
  declNodup : (allDeclared stmts).Nodup
  declNotBuiltin : ∀ n ∈ allDeclared stmts, n ∉ fixedNamesOf fixed
  targetsNodup : (allTargets stmts).Nodup
  targetsNotOutput : ∀ n ∈ allTargets stmts, n ∉ fixedOutOf fixed
  targetsNotConstant : ∀ n ∈ allTargets stmts, ¬ DeclaredConst stmts n
  constantsReadConstants : ∀ d ∈ constDecls stmts, ∀ r ∈ refs d.value, DeclaredConst stmts r
  constantsResolve : resolveConstants fl o (step1G fixed stmts).constantsRaw = .ok constants

theorem step1G_errors_nil_iff (fixed : List FixedFunction) (stmts : List Stmt) :
    (step1G fixed stmts).errors = [] ↔
      (allDeclared stmts).Nodup ∧ (∀ n ∈ allDeclared stmts, n ∉ fixedNamesOf fixed) ∧
      (allTargets stmts).Nodup ∧ (∀ n ∈ allTargets stmts, n ∉ fixedOutOf fixed) := by
  obtain ⟨he, hd, ha, _, _⟩ := step1Init_empty fixed
  exact step1_fold_errors_nil_iff _ _ stmts _ he hd ha

/-- the six declarative conditions say exactly that stage 1 reports nothing -/
theorem errs1Of_nil_of (fl : Flags) (o : Orders) (fixed : List FixedFunction) (stmts : List Stmt) (constants : AMap WireValue)
    (h : Stage12 fl o fixed stmts constants) : errs1Of (step1G fixed stmts) = [] := by
  unfold errs1Of
  rw [List.append_eq_nil_iff, List.append_eq_nil_iff, step1G_errors_nil_iff, assignedConst_nil_iff, constRefErrors_nil_iff]
  refine ⟨⟨⟨h.declNodup, h.declNotBuiltin, h.targetsNodup, h.targetsNotOutput⟩, ?_⟩, ?_⟩
  · intro n hn
    apply amap_contains_false_of_not
    intro hc
    exact h.targetsNotConstant n ((step1G_assigned_iff fixed stmts n).mp hn) ((step1G_constant_iff fixed stmts n).mp hc)
  · intro p hp r hr
    obtain ⟨d, hd, rfl⟩ := step1G_constantsRaw_mem_decl fixed stmts p hp
    exact (step1G_constant_iff fixed stmts r).mpr (h.constantsReadConstants d hd r hr)

/-- a name that is not declared as a constant is not in the table of the resolved constants -/
theorem constants_not_contains (fl : Flags) (o : Orders) (fixed : List FixedFunction) (stmts : List Stmt)
    (constants : AMap WireValue) (h : resolveConstants fl o (step1G fixed stmts).constantsRaw = .ok constants)
    (n : String) (hn : ¬ DeclaredConst stmts n) : constants.contains n = false := by
  apply amap_contains_false_of_not
  intro hc
  obtain ⟨v, hv⟩ := (AMap.contains_iff_lookup _ _).mp hc
  have := resolveConstants_keys fl o _ constants h n v hv
  exact hn ((step1G_constant_iff fixed stmts n).mp ((AMap.contains_iff_mem_keys _ _).mpr this))

section groupB
variable (fl : Flags) (cls : CharClass) (o : Orders) (fixed : List FixedFunction) (stmts : List Stmt)
  (constants : AMap WireValue) (h12 : Stage12 fl o fixed stmts constants)
include h12

/-- B6. a wire declared by a `wire` statement (these are exactly the wires step 1 records as needed) and never assigned -/
theorem unset_wire_named (n : String) (hw : DeclaredWire stmts n) (hna : n ∉ allTargets stmts) :
    ∃ ds, Program.new fl cls o fixed stmts = .error ds ∧ (⟨.UnsetWire, [n]⟩ : Diag) ∈ ds := by
  apply Program_new_stage3 fl cls o fixed stmts constants (errs1Of_nil_of fl o fixed stmts constants h12) h12.constantsResolve
  apply List.mem_append_right
  apply mem_e4Of_unsetWire
  · unfold neededOf
    rw [mem_foldl_setInsert]
    exact Or.inl ((step1G_needed_iff fixed stmts n).mpr hw)
  · apply amap_contains_false_of_not
    intro hc
    exact hna ((step1G_assignments_contains_iff fixed stmts n).mp hc)
  · exact List.contains_iff_mem.mpr ((step1G_declared_iff fixed stmts n).mpr (declaredWire_declared stmts n hw))

/-- B9. an assignment to the output `<O>_<reg>` of a register of a bank (with a well-formed name) -/
theorem assigned_register_out_named (b : BankDecl) (hb : Stmt.bank b ∈ stmts) (inP outP : Char)
    (hname : b.name.toList = [inP, outP]) (hl : cls.isLower inP = true) (hu : cls.isUpper outP = true)
    (r : RegDecl) (hr : r ∈ b.regs) (ha : regOutName outP r ∈ allTargets stmts) :
    ∃ ds, Program.new fl cls o fixed stmts = .error ds ∧ (⟨.DoubleAssignedRegisterWire, [regOutName outP r]⟩ : Diag) ∈ ds := by
  apply Program_new_stage3 fl cls o fixed stmts constants (errs1Of_nil_of fl o fixed stmts constants h12) h12.constantsResolve
  apply List.mem_append_left
  refine step3Of_errors_reg fl cls _ constants b inP outP ?_ hname hl hu _ r hr ?_
  · rw [step1G_banksRaw]; exact (mem_banksOf stmts b).mpr hb
  · intro acc seen
    exact regPre_mem_assigned _ constants _ _ _ acc seen r ((step1G_assignments_contains_iff fixed stmts _).mpr ha)

/-- B10. the initial value of a register reads a wire (a declared wire or a name of a built-in component) that is not a constant -/
theorem register_default_reads_wire_named (b : BankDecl) (hb : Stmt.bank b ∈ stmts) (inP outP : Char)
    (hname : b.name.toList = [inP, outP]) (hl : cls.isLower inP = true) (hu : cls.isUpper outP = true)
    (r : RegDecl) (hr : r ∈ b.regs) (n : String) (hn : n ∈ refs r.default)
    (hw : n ∈ fixedNamesOf fixed ∨ DeclaredWire stmts n) (hc : ¬ DeclaredConst stmts n) :
    ∃ ds, Program.new fl cls o fixed stmts = .error ds ∧ (⟨.NonConstantWireRead, [n]⟩ : Diag) ∈ ds := by
  apply Program_new_stage3 fl cls o fixed stmts constants (errs1Of_nil_of fl o fixed stmts constants h12) h12.constantsResolve
  apply List.mem_append_left
  refine step3Of_errors_reg fl cls _ constants b inP outP ?_ hname hl hu _ r hr ?_
  · rw [step1G_banksRaw]; exact (mem_banksOf stmts b).mpr hb
  · intro acc seen
    exact regPre_mem_nonconst _ constants _ _ _ acc seen r n hn ((step1G_wire_iff fixed stmts n).mpr hw)
      (constants_not_contains fl o fixed stmts constants h12.constantsResolve n hc)

/-- B (bonus). a register signal name `<i>_<reg>` or `<O>_<reg>` that is also declared by a `wire`/`const` statement -/
theorem register_signal_declared_named (b : BankDecl) (hb : Stmt.bank b ∈ stmts) (inP outP : Char)
    (hname : b.name.toList = [inP, outP]) (hl : cls.isLower inP = true) (hu : cls.isUpper outP = true)
    (r : RegDecl) (hr : r ∈ b.regs) (n : String) (hn : n = regInName inP r ∨ n = regOutName outP r)
    (hd : n ∈ allDeclared stmts) :
    ∃ ds, Program.new fl cls o fixed stmts = .error ds ∧ (⟨.RedeclaredWire, [n]⟩ : Diag) ∈ ds := by
  apply Program_new_stage3 fl cls o fixed stmts constants (errs1Of_nil_of fl o fixed stmts constants h12) h12.constantsResolve
  apply List.mem_append_left
  refine step3Of_errors_reg fl cls _ constants b inP outP ?_ hname hl hu _ r hr ?_
  · rw [step1G_banksRaw]; exact (mem_banksOf stmts b).mpr hb
  · intro acc seen
    have hdc := List.contains_iff_mem.mpr ((step1G_declared_iff fixed stmts n).mpr hd)
    rcases hn with rfl | rfl
    · exact regPre_mem_declared_in _ constants _ _ _ acc seen r hdc
    · exact regPre_mem_declared_out _ constants _ _ _ acc seen r hdc

/-- B7. the input `<i>_<reg>` of a register has no assignment.  The register must have been recorded by step 3, which
    happens only if its own checks pass; the hypothesis used is that step 3 reports nothing at all
    (`C09_banks_exact`/`step3Of_errors_nil_iff`: every bank is `BankDeclOK` and all register signal names are distinct). -/
theorem unset_register_input_named
    (hwid : ∀ b, Stmt.bank b ∈ stmts → ∀ r ∈ b.regs, r.width.ok)
    (hbanks : ∀ b, Stmt.bank b ∈ stmts → BankDeclOK fl cls (step1G fixed stmts) constants b)
    (hnames : (allRegNames (banksOf stmts)).Nodup)
    (b : BankDecl) (hb : Stmt.bank b ∈ stmts) (inP outP : Char) (hname : b.name.toList = [inP, outP])
    (r : RegDecl) (hr : r ∈ b.regs) (hna : regInName inP r ∉ allTargets stmts) :
    ∃ ds, Program.new fl cls o fixed stmts = .error ds ∧ (⟨.UnsetRegisterInputWire, [regInName inP r]⟩ : Diag) ∈ ds := by
  apply Program_new_stage3 fl cls o fixed stmts constants (errs1Of_nil_of fl o fixed stmts constants h12) h12.constantsResolve
  apply List.mem_append_right
  have hraw := step1G_banksRaw fixed stmts
  have hw : ∀ b ∈ (step1G fixed stmts).banksRaw, ∀ r ∈ b.regs, r.width.ok := by
    intro b hb; rw [hraw] at hb; exact hwid b ((mem_banksOf stmts b).mp hb)
  have hclean : (step3Of fl cls (step1G fixed stmts) constants).errors = [] := by
    rw [step3Of_errors_nil_iff fl cls _ constants hw]
    refine ⟨?_, by rw [hraw]; exact hnames⟩
    intro b hb; rw [hraw] at hb; exact hbanks b ((mem_banksOf stmts b).mp hb)
  have hin : regInName inP r ∈ bankIns (step3Of fl cls (step1G fixed stmts) constants).banks := by
    rw [SF.bankIns_exact fl cls _ constants hw hclean, hraw]
    refine List.mem_flatMap.mpr ⟨b, (mem_banksOf stmts b).mpr hb, ?_⟩
    rw [SF.sigsOfDecl_of_name b inP outP hname]
    simp only [List.map_map]
    exact List.mem_map.mpr ⟨r, hr, rfl⟩
  apply mem_e4Of_unsetRegIn
  · unfold neededOf
    rw [mem_foldl_setInsert]
    exact Or.inr hin
  · apply amap_contains_false_of_not
    intro hc
    exact hna ((step1G_assignments_contains_iff fixed stmts _).mp hc)
  · apply contains_false_of_not_mem
    obtain ⟨i, o', hn', _, _, _, _, hregs⟩ := (hbanks b hb).ok
    rw [hname] at hn'
    simp only [List.cons.injEq, and_true] at hn'
    obtain ⟨rfl, rfl⟩ := hn'
    exact (hregs r hr).notDeclared.1
  · exact List.contains_iff_mem.mpr (step3Of_bankIns_registerIns fl cls _ constants _ hin)

end groupB

end FaultNamed
