import Hcl.Proofs.ProgramSpansPoints2
import Hcl.Proofs.ParseStmtsSpans
open Rust

/-! The spans `Spec.PointsAt` accepts are byte ranges of the text the program was parsed from; with
    `newSp_points_at`: every span of every diagnostic of `Program.newSp` is a non-empty range inside the text. -/

namespace Parser
open Spec Lexer

/-! ### sub-expressions lie inside the expression -/

mutual
theorem within_subs : ∀ (x : PEx) (lo hi : Nat), x.Within lo hi → ∀ y ∈ subs x, y.Within lo hi
  | .const s e v, lo, hi, h, y, hy => by
      simp only [subs, List.mem_singleton] at hy; rw [hy]; exact h
  | .wire s e n, lo, hi, h, y, hy => by
      simp only [subs, List.mem_singleton] at hy; rw [hy]; exact h
  | .bin s e op l r, lo, hi, h, y, hy => by
      simp only [subs, List.mem_cons, List.mem_append] at hy
      rcases hy with rfl | hy | hy
      · exact h
      · exact (within_subs l s e h.2.2.2.1 y hy).mono h.1 h.2.2.1
      · exact (within_subs r s e h.2.2.2.2 y hy).mono h.1 h.2.2.1
  | .un s e op x, lo, hi, h, y, hy => by
      simp only [subs, List.mem_cons] at hy
      rcases hy with rfl | hy
      · exact h
      · exact (within_subs x s e h.2.2.2 y hy).mono h.1 h.2.2.1
  | .slice s e x a b, lo, hi, h, y, hy => by
      simp only [subs, List.mem_cons] at hy
      rcases hy with rfl | hy
      · exact h
      · exact (within_subs x s e h.2.2.2 y hy).mono h.1 h.2.2.1
  | .concat s e l r, lo, hi, h, y, hy => by
      simp only [subs, List.mem_cons, List.mem_append] at hy
      rcases hy with rfl | hy | hy
      · exact h
      · exact (within_subs l s e h.2.2.2.1 y hy).mono h.1 h.2.2.1
      · exact (within_subs r s e h.2.2.2.2 y hy).mono h.1 h.2.2.1
  | .mux s e opts, lo, hi, h, y, hy => by
      simp only [subs, List.mem_cons] at hy
      rcases hy with rfl | hy
      · exact h
      · exact (within_subsOpts opts s e h.2.2.2 y hy).mono h.1 h.2.2.1
  | .inSet s e x items, lo, hi, h, y, hy => by
      simp only [subs, List.mem_cons, List.mem_append] at hy
      rcases hy with rfl | hy | hy
      · exact h
      · exact (within_subs x s e h.2.2.2.1 y hy).mono h.1 h.2.2.1
      · exact (within_subsExs items s e h.2.2.2.2 y hy).mono h.1 h.2.2.1
theorem within_subsOpts : ∀ (o : POpts) (lo hi : Nat), o.Within lo hi → ∀ y ∈ subsOpts o, y.Within lo hi
  | .nil, _, _, _, y, hy => by simp [subsOpts] at hy
  | .cons c v rest, lo, hi, h, y, hy => by
      simp only [subsOpts, List.mem_append] at hy
      rcases hy with (hy | hy) | hy
      · exact within_subs c lo hi h.1 y hy
      · exact within_subs v lo hi h.2.1 y hy
      · exact within_subsOpts rest lo hi h.2.2 y hy
theorem within_subsExs : ∀ (o : PExs) (lo hi : Nat), o.Within lo hi → ∀ y ∈ subsExs o, y.Within lo hi
  | .nil, _, _, _, y, hy => by simp [subsExs] at hy
  | .cons x rest, lo, hi, h, y, hy => by
      simp only [subsExs, List.mem_append] at hy
      rcases hy with hy | hy
      · exact within_subs x lo hi h.1 y hy
      · exact within_subsExs rest lo hi h.2 y hy
end

theorem within_values : ∀ (o : POpts) (lo hi : Nat), o.Within lo hi → ∀ sp ∈ optionValueSpans o, SpanIn lo hi sp
  | .nil, _, _, _, sp, hsp => by simp [optionValueSpans] at hsp
  | .cons c v rest, lo, hi, h, sp, hsp => by
      simp only [optionValueSpans, List.mem_cons] at hsp
      rcases hsp with rfl | hsp
      · exact h.2.1.span
      · exact within_values rest lo hi h.2.2 sp hsp

/-! ### the expressions of a parsed program lie inside the text -/

theorem Chain.mem_in {α : Type} {G : Nat → Nat → α → Prop} (hle : ∀ x lo hi, G lo hi x → lo ≤ hi) :
    ∀ {l : List α} {lo hi : Nat}, Chain G lo hi l → ∀ x ∈ l, ∃ lo' hi', lo ≤ lo' ∧ hi' ≤ hi ∧ G lo' hi' x
  | [], _, _, _, x, hx => by cases hx
  | y :: rest, lo, hi, ⟨m, g, c⟩, x, hx => by
    rcases List.mem_cons.mp hx with rfl | hx
    · exact ⟨lo, m, Nat.le_refl _, Chain.le hle c, g⟩
    · obtain ⟨lo', hi', h1, h2, h3⟩ := Chain.mem_in hle c x hx
      exact ⟨lo', hi', Nat.le_trans (hle _ _ _ g) h1, h2, h3⟩

theorem exprs_within {N : Nat → String → Nat → Prop} (T : Nat) (ss : List SStmt) (h : Chain (SStmt.Good N) 0 T ss) :
    ∀ x ∈ exprsOf ss, x.Within 0 T := by
  intro x hx
  obtain ⟨st, hst, hx⟩ := List.mem_flatMap.mp hx
  obtain ⟨lo1, hi1, _, hhi1, g⟩ := Chain.mem_in (fun x lo hi g => (SStmt.Good.spans x lo hi g).1) h st hst
  cases st with
  | consts ds =>
    obtain ⟨d, hd, rfl⟩ := List.mem_map.mp hx
    obtain ⟨lo2, hi2, _, hhi2, g2⟩ := Chain.mem_in (fun _ _ _ g => g.1.le) g d hd
    exact g2.2.2.mono (Nat.zero_le _) (Nat.le_trans hhi2 hhi1)
  | wires ds => simp at hx
  | assigns as =>
    obtain ⟨a, ha, rfl⟩ := List.mem_map.mp hx
    obtain ⟨lo2, hi2, _, hhi2, g2⟩ := Chain.mem_in (fun _ _ _ g => g.1.le) g a ha
    obtain ⟨hs, _, _, m, _, hw⟩ := g2
    exact hw.mono (Nat.zero_le _) (Nat.le_trans hs.2.2 (Nat.le_trans hhi2 hhi1))
  | bank b =>
    obtain ⟨r, hr, rfl⟩ := List.mem_map.mp hx
    obtain ⟨hs, _, _, _, m, hc, hm⟩ := g
    obtain ⟨lo2, hi2, _, hhi2, g2⟩ := Chain.mem_in (fun _ _ _ g => g.1.le) hc r hr
    obtain ⟨hrs, ne, _, _, hw⟩ := g2
    have h1 := hrs.2.2
    have h2 := hs.2.2
    exact hw.mono (Nat.zero_le _) (by omega)

/-! ### the spans `PointsAt` speaks of are statement spans or spans of sub-expressions -/

/-- a non-empty byte range below `T` -/
def SpanOK (T : Nat) (sp : Span) : Prop := sp.1 < sp.2 ∧ sp.2 ≤ T

set_option linter.unusedSectionVars false

section
variable (T : Nat) (ss : List SStmt) (hS : ∀ st ∈ ss, ∀ sp ∈ st.spans, SpanOK T sp) (hX : ∀ x ∈ exprsOf ss, x.Within 0 T)
include hS hX

theorem decl_ok {n : String} {sp : Span} (h : (n, sp) ∈ declsOf ss) : SpanOK T sp := by
  obtain ⟨st, hst, hp⟩ := List.mem_flatMap.mp h
  cases st with
  | consts ds =>
    obtain ⟨d, hd, he⟩ := List.mem_map.mp hp
    injection he with _ he2
    subst he2
    exact hS _ hst _ (List.mem_flatMap.mpr ⟨d, hd, by simp⟩)
  | wires ds =>
    obtain ⟨d, hd, he⟩ := List.mem_map.mp hp
    injection he with _ he2
    subst he2
    exact hS _ hst _ (List.mem_map.mpr ⟨d, hd, rfl⟩)
  | assigns as => simp at hp
  | bank b => simp at hp

theorem tgt_ok {n : String} {sp : Span} (h : TargetOf ss n sp) : SpanOK T sp := by
  obtain ⟨x, h⟩ := h
  obtain ⟨st, hst, hp⟩ := List.mem_flatMap.mp h
  cases st with
  | assigns as =>
    obtain ⟨a, ha, hp2⟩ := List.mem_flatMap.mp hp
    obtain ⟨nm, hnm, he⟩ := List.mem_map.mp hp2
    injection he with _ he2
    injection he2 with he2 _
    subst he2
    refine hS _ hst _ (List.mem_flatMap.mpr ⟨a, ha, ?_⟩)
    simp only [List.mem_cons, List.mem_map]
    exact Or.inr (Or.inr ⟨nm, hnm, rfl⟩)
  | consts ds => simp at hp
  | wires ds => simp at hp
  | bank b => simp at hp

theorem bankName_ok {b : SBankDecl} (h : b ∈ banksOf ss) : SpanOK T b.nameSpan :=
  hS _ (bank_mem ss b h) _ (by simp [SStmt.spans])

theorem reg_ok {n : String} {sp : Span} (h : RegisterOf ss n sp) : SpanOK T sp := by
  obtain ⟨b, r, h, rfl⟩ := h
  obtain ⟨b', hb', hp⟩ := List.mem_flatMap.mp h
  have hbr : b' = b ∧ r ∈ b.registers := by
    split at hp
    · obtain ⟨r', hr', hp⟩ := List.mem_flatMap.mp hp
      simp only [List.mem_cons, Prod.mk.injEq, List.mem_nil_iff, or_false] at hp
      rcases hp with ⟨_, h1, h2⟩ | ⟨_, h1, h2⟩
      · subst h1; subst h2; exact ⟨rfl, hr'⟩
      · subst h1; subst h2; exact ⟨rfl, hr'⟩
    · cases hp
  obtain ⟨rfl, hr⟩ := hbr
  refine hS _ (bank_mem ss _ hb') _ ?_
  simp only [SStmt.spans, List.mem_cons, List.mem_flatMap]
  exact Or.inr (Or.inr ⟨r, hr, by simp [SRegDecl.spans]⟩)

theorem sub_ok {x y : PEx} (hx : x ∈ exprsOf ss) (hy : y ∈ subs x) : SpanOK T y.span := by
  have := (within_subs x 0 T (hX x hx) y hy).span
  exact ⟨this.2.1, this.2.2⟩

theorem read_ok {n : String} {sp : Span} (h : ReadAt ss n sp) : SpanOK T sp := by
  obtain ⟨x, hx, s, e, hy, rfl⟩ := h
  exact sub_ok T ss hS hX hx hy

theorem one_ok {l : List Span} (h : InOneExpr ss l) : ∀ sp ∈ l, SpanOK T sp := by
  obtain ⟨x, hx, h⟩ := h
  intro sp hsp
  obtain ⟨y, hy, rfl⟩ := h sp hsp
  exact sub_ok T ss hS hX hx hy

theorem mux_ok {sps : List Span}
    (h : ∃ x ∈ exprsOf ss, ∃ s e opts, PEx.mux s e opts ∈ subs x ∧ sps = optionValueSpans opts) : ∀ sp ∈ sps, SpanOK T sp := by
  obtain ⟨x, hx, s, e, opts, hy, rfl⟩ := h
  intro sp hsp
  have hw := within_subs x 0 T (hX x hx) _ hy
  have := within_values opts s e hw.2.2.2 sp hsp
  exact ⟨this.2.1, Nat.le_trans this.2.2 hw.2.2.1⟩

theorem redecl_ok {n : String} {sp : Span}
    (h : (n, sp) ∈ declsOf ss ∨ RegisterOf ss n sp ∨ ∃ b ∈ banksOf ss, n ∈ controlSignalsOf b ∧ sp = b.nameSpan) : SpanOK T sp := by
  rcases h with h | h | ⟨b, hb, _, rfl⟩
  · exact decl_ok T ss hS hX h
  · exact reg_ok T ss hS hX h
  · exact bankName_ok T ss hS hX hb

theorem one_span {a : Span} (h : SpanOK T a) : ∀ sp ∈ [a], SpanOK T sp := by
  intro sp hsp; rw [List.mem_singleton.mp hsp]; exact h

theorem two_spans {a b : Span} (ha : SpanOK T a) (hb : SpanOK T b) : ∀ sp ∈ [a, b], SpanOK T sp := by
  intro sp hsp
  rcases List.mem_cons.mp hsp with rfl | hsp
  · exact ha
  · rw [List.mem_singleton.mp hsp]; exact hb

omit hS hX in
theorem no_spans : ∀ sp ∈ ([] : List Span), SpanOK T sp := by
  intro sp hsp; cases hsp

/-- every span `PointsAt` accepts is a non-empty byte range of the text -/
theorem pointsAt_ok (d : Diag) (spans : List Span) (h : PointsAt ss d spans) : ∀ sp ∈ spans, SpanOK T sp := by
  obtain ⟨k, ns⟩ := d
  unfold PointsAt at h
  simp only at h
  split at h
  all_goals first
    | exact h.elim
    | exact no_spans T
    | exact one_span T ss hS hX (decl_ok T ss hS hX h)
    | exact one_span T ss hS hX (reg_ok T ss hS hX h)
    | exact one_span T ss hS hX (tgt_ok T ss hS hX h)
    | exact one_span T ss hS hX (read_ok T ss hS hX h)
    | exact one_ok T ss hS hX h
    | exact mux_ok T ss hS hX h
    | exact two_spans T ss hS hX (redecl_ok T ss hS hX h.1) (decl_ok T ss hS hX h.2)
    | exact two_spans T ss hS hX (tgt_ok T ss hS hX h.1) (tgt_ok T ss hS hX h.2)
    | exact two_spans T ss hS hX (tgt_ok T ss hS hX h.1) (decl_ok T ss hS hX h.2)
    | exact two_spans T ss hS hX (reg_ok T ss hS hX h.1) (tgt_ok T ss hS hX h.2)
    | exact two_spans T ss hS hX (reg_ok T ss hS hX h.1) (reg_ok T ss hS hX h.2)
    | (obtain ⟨b, hb, _, rfl⟩ := h; exact one_span T ss hS hX (bankName_ok T ss hS hX hb))
    | (obtain ⟨t, x, hx, rfl⟩ := h; exact one_span T ss hS hX (sub_ok T ss hS hX (targets_expr ss _ _ _ hx) (subs_self x)))
    | (obtain ⟨b, hb, r, hr, _, _, rfl⟩ := h
       exact one_span T ss hS hX (sub_ok T ss hS hX (regDefault_expr ss b hb r hr) (subs_self _)))
end

/-- **the spans of the diagnostics of a parsed program lie in its text**: if the text parses to the statements `ss` and
    `Program.newSp` rejects them, every span of every diagnostic is a non-empty byte range of the text -/
theorem newSp_spans_in_text (cls : CharCls) (text : List Char) (ss : List SStmt) (hp : parseProgramSp cls text = some ss)
    (fl : Flags) (ccls : CharClass) (o : Orders) (fixed : List FixedFunction) (ds : List DiagSp)
    (h : Program.newSp fl ccls o fixed ss = .error ds) :
    ∀ d ∈ ds, ∀ sp ∈ d.spans, sp.1 < sp.2 ∧ sp.2 ≤ sizeOf' text := by
  intro d hd
  exact pointsAt_ok (sizeOf' text) ss (parseProgramSp_spans_in_text cls text ss hp)
    (exprs_within _ ss (parseProgramSp_spans cls text ss hp)) d.erase d.spans (newSp_points_at fl ccls o fixed ss ds h d hd)

end Parser
