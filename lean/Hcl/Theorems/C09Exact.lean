import Hcl.Proofs.CompleteIff
import Hcl.Theorems.C08
open Rust

/-!
# C08 / C09 — acceptance is decided *exactly* by the faults

`Faultless fl cls o stmts constants` (Hcl/Proofs/CompleteIff.lean) lists, stage by stage and without reference to any
loop state of `Program::new`, what must be right: names (declared once, not built-in; assigned once, not a built-in
output, not a constant; constants read only constants), the constants (`resolveConstants_ok_iff`: no cycle, every
definition passes the width checker and evaluates), the register banks (`BankDeclOK`, distinct signal names), every
declared wire and register input assigned, and the assignments and built-in components (`ActionsOK`: mandatory
components complete, unused components unread, partial components disabled, every assignment passes the width checker
with a compatible target width, every name read has a driver, no dependency cycle).
-/

/-- **C08 / C09, exactly**: for every statement list with well-formed literals and widths, every set of strictness
    options, every character classification and every iteration order of the hash tables, `Program::new` accepts if and
    only if nothing is wrong in the sense of `Faultless`. -/
theorem C09_accepted_iff_faultless (fl : Flags) (cls : CharClass) (o : Orders) (stmts : List Stmt) (ho : OrdersOK o)
    (hwf : StmtsWF stmts) :
    (∃ p, Program.new fl cls o y86FixedFunctions stmts = .ok p) ↔ ∃ constants, Faultless fl cls o stmts constants :=
  Program_new_ok_iff fl cls o stmts ho hwf

/-- "a program with none of these faults and no width or cycle fault is accepted" -/
theorem C09_faultless_accepted (fl : Flags) (cls : CharClass) (o : Orders) (stmts : List Stmt) (ho : OrdersOK o)
    (hwf : StmtsWF stmts) (constants : AMap WireValue) (h : Faultless fl cls o stmts constants) :
    ∃ p, Program.new fl cls o y86FixedFunctions stmts = .ok p :=
  Program_new_of_faultless fl cls o stmts ho hwf constants h

/-- every accepted program is faultless, with its own table of constants -/
theorem C09_accepted_faultless (fl : Flags) (cls : CharClass) (o : Orders) (stmts : List Stmt) (ho : OrdersOK o)
    (hwf : StmtsWF stmts) (p : Program) (h : Program.new fl cls o y86FixedFunctions stmts = .ok p) :
    Faultless fl cls o stmts p.constants :=
  Program_new_faultless fl cls o stmts ho hwf p h

/-- the constants stage by itself: the constants resolve exactly when no constant depends on itself and there is a table in
    which every definition passes the width checker and evaluates to its own entry; that table is then the result -/
theorem C08_constants_exact (fl : Flags) (o : Orders) (exprs : AMap Ex) (ho : OrdersOK o)
    (hk : exprs.keys.Nodup) (hrefs : ∀ p ∈ exprs, ∀ r ∈ refs p.2, exprs.contains r = true) :
    (∃ c, resolveConstants fl o exprs = .ok c) ↔
      ((¬ ∃ cy, RelCycle (ConstDep exprs) cy) ∧
       ∃ R : AMap WireValue, ∀ n e, exprs.get? n = some e → ∃ v, R.get? n = some v ∧ constVal fl R e = .ok v) :=
  resolveConstants_ok_iff fl o exprs ho hk hrefs

/-- the first stage by itself, in terms of the statements -/
theorem C09_names_exact (stmts : List Stmt) :
    (step1Of stmts).errors = [] ↔
      (allDeclared stmts).Nodup ∧ (∀ n ∈ allDeclared stmts, n ∉ fixedNamesOf y86FixedFunctions) ∧
      (allTargets stmts).Nodup ∧ (∀ n ∈ allTargets stmts, n ∉ y86FixedFunctions.filterMap fun f => f.outWire.map (·.1)) :=
  step1Of_errors_nil_iff stmts

/-- the register-bank stage by itself -/
theorem C09_banks_exact (fl : Flags) (cls : CharClass) (s1 : Step1) (constants : AMap WireValue)
    (hw : ∀ b ∈ s1.banksRaw, ∀ r ∈ b.regs, r.width.ok) :
    (step3Of fl cls s1 constants).errors = [] ↔
      ((∀ b ∈ s1.banksRaw, BankDeclOK fl cls s1 constants b) ∧ (allRegNames s1.banksRaw).Nodup) :=
  step3Of_errors_nil_iff fl cls s1 constants hw

/-- the last stage by itself -/
theorem C09_actions_exact (fl : Flags) (o : Orders) (assignments : AMap Ex) (widths : AMap Width)
    (known : List String) (declared : List String) (constants : AMap WireValue)
    (ho : OrdersOK o) (hk : assignments.keys.Nodup)
    (hin : ∀ f ∈ y86FixedFunctions, ∀ n ∈ f.inWires.map (·.1), known.contains n = false)
    (hout : ∀ f ∈ y86FixedFunctions, ∀ n w, f.outWire = some (n, w) → known.contains n = false ∧ assignments.contains n = false)
    (hka : ∀ n, known.contains n = true → assignments.contains n = false) :
    (∃ acts, assignmentsToActions fl o assignments widths known y86FixedFunctions declared constants = .ok acts) ↔
      ActionsOK fl assignments widths known y86FixedFunctions constants :=
  assignmentsToActions_ok_iff fl o assignments widths known y86FixedFunctions declared constants ho y86Fixed_table hk y86_hio hin hout hka

/-! ### the hypotheses are satisfiable: a program with a constant, a register bank, a wire and the mandatory components -/

def exFaultless : List Stmt :=
  [.consts [⟨"K", .const ⟨3, .unlimited⟩⟩],
   .bank ⟨"xY", [⟨"r", .bits 8, .wire "K"⟩]⟩,
   .wires [⟨"x", .bits 64⟩],
   .assigns [⟨["x"], .bin .add (.wire "pc") (.wire "K")⟩, ⟨["pc"], .const ⟨0, .unlimited⟩⟩,
     ⟨["Stat"], .const ⟨2, .unlimited⟩⟩, ⟨["x_r"], .bin .add (.wire "Y_r") (.const ⟨1, .unlimited⟩)⟩]]

theorem ordersOK_default : OrdersOK {} :=
  ⟨fun _ => List.Perm.refl _, fun _ _ => List.Perm.refl _, fun _ => List.Perm.refl _, fun _ _ => List.Perm.refl _⟩

theorem exFaultless_accepted : ∃ p, Program.new {} {} {} y86FixedFunctions exFaultless = .ok p := by
  have h : (match Program.new {} {} {} y86FixedFunctions exFaultless with | .ok _ => true | .error _ => false) = true := by
    decide +kernel
  cases hp : Program.new {} {} {} y86FixedFunctions exFaultless with
  | ok p => exact ⟨p, rfl⟩
  | error ds => rw [hp] at h; cases h

theorem exFaultless_wf : StmtsWF exFaultless := by
  intro s hs
  simp only [exFaultless, List.mem_cons, List.mem_nil_iff, or_false] at hs
  rcases hs with rfl | rfl | rfl | rfl
  · intro d hd; simp only [List.mem_cons, List.mem_nil_iff, or_false] at hd; subst hd; decide
  · intro r hr; simp only [List.mem_cons, List.mem_nil_iff, or_false] at hr; subst hr; exact ⟨by show (8:Nat) ≤ 128; omega, by decide⟩
  · intro d hd; simp only [List.mem_cons, List.mem_nil_iff, or_false] at hd; subst hd; show (64:Nat) ≤ 128; omega
  · intro a ha
    simp only [List.mem_cons, List.mem_nil_iff, or_false] at ha
    rcases ha with rfl | rfl | rfl | rfl <;> decide

/-- a concrete faultless program (so `C09_faultless_accepted` is not vacuous) -/
example : ∃ c, Faultless {} {} {} exFaultless c :=
  (C09_accepted_iff_faultless {} {} {} exFaultless ordersOK_default exFaultless_wf).mp exFaultless_accepted

/-- and a concrete faulty one: a wire declared twice is not faultless, hence rejected -/
example : ¬ ∃ p, Program.new {} {} {} y86FixedFunctions
    [.wires [⟨"a", .bits 1⟩, ⟨"a", .bits 1⟩], .assigns [⟨["a"], .const ⟨1, .unlimited⟩⟩]] = .ok p := by
  intro h
  obtain ⟨c, hc⟩ := (C09_accepted_iff_faultless {} {} {} _ ordersOK_default (by
    intro s hs
    simp only [List.mem_cons, List.mem_nil_iff, or_false] at hs
    rcases hs with rfl | rfl
    · intro d hd; simp only [List.mem_cons, List.mem_nil_iff, or_false] at hd; rcases hd with rfl | rfl <;> (show (1:Nat) ≤ 128; omega)
    · intro a ha; simp only [List.mem_cons, List.mem_nil_iff, or_false] at ha; subst ha; decide)).mp h
  exact absurd hc.declNodup (by decide)

#print axioms C09_accepted_iff_faultless
