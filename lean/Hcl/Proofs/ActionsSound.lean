import Hcl.Proofs.Preprocess

/-! `assignments_to_actions`: an accepted program's action list is a valid schedule of well-typed actions. -/

theorem sched_of_reads (avail : List String) : ∀ (l : List Action), (∀ a ∈ l, ∀ n ∈ a.reads, n ∈ avail) → Sched avail l
  | [], _ => trivial
  | a :: rest, h => ⟨h a List.mem_cons_self,
      sched_mono (fun n hn => List.mem_append_left _ hn) rest
        (sched_of_reads avail rest (fun b hb => h b (List.mem_cons_of_mem _ hb)))⟩

theorem assignmentsToActions_sound (fl : Flags) (o : Orders) (assignments : AMap Ex) (widths : AMap Width)
    (known : List String) (fixed : List FixedFunction) (declared : List String) (constants : AMap WireValue)
    (actions : List Action) (ho : OrdersOK o) (ht : FixedTableOK fixed) (hk : assignments.keys.Nodup)
    (h : assignmentsToActions fl o assignments widths known fixed declared constants = .ok actions) :
    Sched known actions ∧ (∀ a ∈ actions, GoodAction fl assignments widths constants fixed a) ∧
      (∀ k ∈ assignments.keys, k ∈ known ∨ k ∈ writesOf actions) := by
  unfold assignmentsToActions at h
  simp only at h
  obtain ⟨g0wf, g0nodes, g0edges⟩ := assignGraph_spec assignments known hk
  generalize hg0 : assignGraph assignments known = g0 at h g0wf g0nodes g0edges
  generalize hpre : fixed.foldl (preprocessOne fl widths constants assignments known) { graph := g0 } = pre at h
  by_cases hpe : pre.errors.isEmpty = true
  · have hpe' : pre.errors = [] := by simpa using hpe
    simp only [hpe, Bool.not_true, Bool.false_eq_true, if_false] at h
    have hg0c : ∀ e ∈ g0.edges, assignments.contains e.2 = true := by
      intro e he
      obtain ⟨ex, hm, _⟩ := (g0edges e.1 e.2).mp he
      exact (AMap.contains_iff_mem_keys _ _).mpr (List.mem_map.mpr ⟨(e.2, ex), hm, rfl⟩)
    have hinit : PreFacts assignments known g0 [] ({ graph := g0 } : PreState) :=
      { noOut := by intro f hf; simp at hf
        byKeys := by simp [AMap.keys]
        byOut := by intro n f hf; simp at hf
        wf := g0wf
        nodes := fun n hn => hn
        edges := fun e he => Or.inl he
        noOutSub := List.Sublist.refl _
        edgesG0 := fun e he => he
        edgesFixed := by intro n f hf; simp at hf }
    have hpf := preprocess_fold_facts fl widths constants assignments known fixed ht g0 hg0c fixed [] _ (by simp) hinit
      (by rw [hpre]; exact hpe')
    rw [hpre] at hpf
    rcases pre.graph.sort_spec o hpf.wf ho with ⟨order, hso, _, hcover, _⟩ | ⟨c, hsc, _⟩
    · rw [hso] at h
      simp only at h
      generalize hst : actionsLoop fl assignments widths declared constants pre.info.byOutput order { covered := known } = st at h
      by_cases herr : (st.errors ++ st.seenUndeclared.map (fun n => (⟨.UnsetUndeclaredWire, [n]⟩ : Diag))).isEmpty = true
      · simp only [herr, if_true, Except.ok.injEq] at h
        have hclean : st.Clean := by
          have : st.errors ++ st.seenUndeclared.map (fun n => (⟨.UnsetUndeclaredWire, [n]⟩ : Diag)) = [] := by simpa using herr
          rw [List.append_eq_nil_iff] at this
          exact ⟨this.1, by simpa using this.2⟩
        have hby : ∀ n f, pre.info.byOutput.get? n = some f → f ∈ fixed ∧ fixedFnOK f = true ∧ ∃ w, f.outWire = some (n, w) := by
          intro n f hget
          have := hpf.byOut n f (AMap.mem_of_get? _ _ _ hget)
          exact ⟨this.1, ht.fn f this.1, this.2.1⟩
        have hinitL : LoopFacts known (GoodAction fl assignments widths constants fixed) ({ covered := known } : LoopState) :=
          { sched := trivial, covered := fun n hn => Or.inl hn, good := by intro a ha; simp at ha }
        obtain ⟨hfacts, hcov⟩ := actionsLoop_facts fl assignments widths declared constants pre.info.byOutput known fixed order _ hby
          (by rw [hst]; exact hclean) hinitL
        rw [hst] at hfacts hcov
        -- every assigned name was processed, hence is covered
        have hassigned : ∀ k ∈ assignments.keys, k ∈ known ∨ k ∈ writesOf st.result := by
          intro k hk'
          have h1 : k ∈ pre.graph.nodes := hpf.nodes k (g0nodes k hk')
          have h2 : k ∈ order := (hcover k).mpr h1
          exact hfacts.covered k ((hcov k).mpr (Or.inr h2))
        subst h
        refine ⟨?_, ?_, ?_⟩
        · rw [sched_append]
          refine ⟨hfacts.sched, sched_of_reads _ _ ?_⟩
          intro a ha n hn
          obtain ⟨f, hf, rfl⟩ := List.mem_map.mp ha
          obtain ⟨hfd, _, hall⟩ := hpf.noOut f hf
          have hin : n ∈ inNames f := fixedFnOK_reads (ht.fn f hfd) n hn
          have hk' : n ∈ assignments.keys := (AMap.contains_iff_mem_keys _ _).mp (hall n hin)
          rcases hassigned n hk' with h1 | h1
          · exact List.mem_append_left _ h1
          · exact List.mem_append_right _ h1
        · intro a ha
          rcases List.mem_append.mp ha with h1 | h1
          · exact hfacts.good a h1
          · obtain ⟨f, hf, rfl⟩ := List.mem_map.mp h1
            obtain ⟨hfd, _, _⟩ := hpf.noOut f hf
            exact Or.inr ⟨f, hfd, ht.fn f hfd, rfl⟩
        · intro k hk'
          rcases hassigned k hk' with h1 | h1
          · exact Or.inl h1
          · right; rw [writesOf_append]; exact List.mem_append_left _ h1
      · simp only [herr] at h
        simp at h
    · rw [hsc] at h; simp at h
  · simp only [hpe] at h
    simp at h
