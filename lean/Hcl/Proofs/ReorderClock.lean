import Hcl.Proofs.ReorderProgram
import Hcl.Theorems.C03
open Rust

/-! The clock edge and the initial values over a permuted list of register banks.

    `process_register_banks` visits the banks one after the other; a bank looks at its own wires only (its two control
    wires, its inputs and its outputs) and writes its outputs only, so when no bank's outputs are among another bank's
    wires the order of the visit does not matter.  `initial_state` writes, for every bank, values that depend on the bank
    alone. -/

namespace Reorder

/-! ### tables that agree on a set of names -/

def AgreeOn (N : List String) (a b : AMap WireValue) : Prop := ∀ n ∈ N, a.toEnv n = b.toEnv n

/-- both fail, or both succeed with tables that agree on `N` -/
def RelOn (N : List String) (x y : E (AMap WireValue)) : Prop :=
  match x, y with
  | .ok a, .ok b => AgreeOn N a b
  | .error _, .error _ => True
  | _, _ => False

theorem relOn_bind_same {α : Type} (N : List String) (x : E α) (f g : α → E (AMap WireValue))
    (h : ∀ a, RelOn N (f a) (g a)) : RelOn N (x >>= f) (x >>= g) := by
  cases x with
  | error e => simp [bind, Except.bind, RelOn]
  | ok a => exact h a

theorem setOrPanic_relOn {N : List String} {a a' : AMap WireValue} (h : AgreeOn N a a') (k : String) (hk : k ∈ N)
    (v : WireValue) : RelOn N (setOrPanic a k v) (setOrPanic a' k v) := by
  unfold setOrPanic
  have hc : a.contains k = a'.contains k := by
    rw [AMap.contains_eq_isSome, AMap.contains_eq_isSome]
    show (a.toEnv k).isSome = (a'.toEnv k).isSome
    rw [h k hk]
  rw [hc]
  split
  · intro n hn
    rw [AMap.toEnv_insert, AMap.toEnv_insert, h n hn]
  · trivial

theorem foldlM_relOn {β : Type} (N : List String) (f : AMap WireValue → β → E (AMap WireValue)) :
    ∀ (l : List β), (∀ x ∈ l, ∀ a a', AgreeOn N a a' → RelOn N (f a x) (f a' x)) →
    ∀ a a', AgreeOn N a a' → RelOn N (l.foldlM f a) (l.foldlM f a')
  | [], _, _, _, h => h
  | x :: rest, hf, a, a', h => by
    simp only [List.foldlM_cons]
    have h1 := hf x List.mem_cons_self a a' h
    cases hs : f a x with
    | error e =>
      cases ht : f a' x with
      | error e' => simp [bind, Except.bind, RelOn]
      | ok t' => rw [hs, ht] at h1; exact h1.elim
    | ok s' =>
      cases ht : f a' x with
      | error e' => rw [hs, ht] at h1; exact h1.elim
      | ok t' =>
        rw [hs, ht] at h1
        exact foldlM_relOn N f rest (fun y hy => hf y (List.mem_cons_of_mem _ hy)) s' t' h1

/-- a bank looks only at its own wires -/
theorem processBank_relOn (N : List String) (b : RegisterBank) (hs : b.stall ∈ N) (hb : b.bubble ∈ N)
    (hsig : ∀ sg ∈ b.signals, sg.1 ∈ N ∧ sg.2.1 ∈ N) (hd : ∀ p ∈ b.defaults, p.1 ∈ N)
    (v w : AMap WireValue) (h : AgreeOn N v w) : RelOn N (processBank v b) (processBank w b) := by
  unfold processBank
  simp only [getOrPanic_eq]
  rw [lookupOrPanic_congr (h _ hs), lookupOrPanic_congr (h _ hb)]
  apply relOn_bind_same; intro st
  apply relOn_bind_same; intro bu
  split
  · apply foldlM_relOn N _ _ _ _ _ h
    intro p hp a a' hab
    exact setOrPanic_relOn hab _ (hd p hp) _
  · split
    · apply foldlM_relOn N _ _ _ _ _ h
      intro sg hsg a a' hab
      unfold loadOne
      simp only [getOrPanic_eq]
      rw [lookupOrPanic_congr (hab _ (hsig sg hsg).1)]
      apply relOn_bind_same; intro nv
      exact setOrPanic_relOn hab _ (hsig sg hsg).2 _
    · exact h

/-! ### a bank writes its outputs only -/

theorem setOrPanic_frame {a r : AMap WireValue} {k : String} {v : WireValue} (h : setOrPanic a k v = .ok r)
    (n : String) (hn : n ≠ k) : r.toEnv n = a.toEnv n := by
  unfold setOrPanic at h
  split at h
  · simp only [pure, Except.pure, Except.ok.injEq] at h
    rw [← h, AMap.toEnv_insert]
    simp [hn]
  · simp [throw, throwThe, MonadExceptOf.throw] at h

theorem foldlM_frame {β : Type} (f : AMap WireValue → β → E (AMap WireValue)) (key : β → String)
    (hf : ∀ a x r, f a x = .ok r → ∀ n, n ≠ key x → r.toEnv n = a.toEnv n) :
    ∀ (l : List β) (a r : AMap WireValue), l.foldlM f a = .ok r → ∀ n, n ∉ l.map key → r.toEnv n = a.toEnv n
  | [], a, r, h, _, _ => by
    simp only [List.foldlM_nil, pure, Except.pure, Except.ok.injEq] at h
    rw [h]
  | x :: rest, a, r, h, n, hn => by
    simp only [List.foldlM_cons] at h
    obtain ⟨a1, h1, h2⟩ := bind_ok h
    simp only [List.map_cons, List.mem_cons, not_or] at hn
    rw [foldlM_frame f key hf rest a1 r h2 n hn.2, hf a x a1 h1 n hn.1]

theorem processBank_frame (b : RegisterBank) (hd : ∀ p ∈ b.defaults, p.1 ∈ outsOf b) (v r : AMap WireValue)
    (h : processBank v b = .ok r) (n : String) (hn : n ∉ outsOf b) : r.toEnv n = v.toEnv n := by
  unfold processBank at h
  obtain ⟨st, _, h⟩ := bind_ok h
  obtain ⟨bu, _, h⟩ := bind_ok h
  split at h
  · apply foldlM_frame setDefault (·.1) (fun a x r hr n hn => setOrPanic_frame hr n hn) b.defaults v r h n
    intro hm
    obtain ⟨p, hp, e⟩ := List.mem_map.mp hm
    exact hn (e ▸ hd p hp)
  · split at h
    · apply foldlM_frame loadOne (·.2.1) ?_ b.signals v r h n hn
      intro a x r hr n hn
      unfold loadOne at hr
      obtain ⟨nv, _, hr⟩ := bind_ok hr
      exact setOrPanic_frame hr n hn
    · simp only [pure, Except.pure, Except.ok.injEq] at h
      rw [h]

/-! ### two independent banks commute -/

/-- both fail, or both succeed with like tables -/
def RelW (x y : E (AMap WireValue)) : Prop :=
  match x, y with
  | .ok a, .ok b => a.toEnv = b.toEnv
  | .error _, .error _ => True
  | _, _ => False

theorem RelW.trans {x y z : E (AMap WireValue)} (h : RelW x y) (h' : RelW y z) : RelW x z := by
  cases x <;> cases y <;> cases z <;> simp_all [RelW]

theorem RelW.of_relV {x y : E (AMap WireValue)} (h : RelV x y) : RelW x y := by
  cases x <;> cases y <;> simp_all [RelW, RelV]

/-- the record's defaults are keyed by outputs -/
def BankStruct (b : RegisterBank) : Prop := ∀ p ∈ b.defaults, p.1 ∈ outsOf b

/-- neither bank's outputs are among the other's wires -/
def Indep (b c : RegisterBank) : Prop := (∀ n ∈ namesOf c, n ∉ outsOf b) ∧ (∀ n ∈ namesOf b, n ∉ outsOf c)

theorem Indep.symm {b c : RegisterBank} (h : Indep b c) : Indep c b := ⟨h.2, h.1⟩

theorem processBank_relNames (b : RegisterBank) (hb : BankStruct b) (v w : AMap WireValue) (h : AgreeOn (namesOf b) v w) :
    RelOn (namesOf b) (processBank v b) (processBank w b) := by
  apply processBank_relOn (namesOf b) b _ _ _ _ v w h
  · simp [namesOf]
  · simp [namesOf]
  · intro sg hsg
    constructor
    · exact List.mem_cons_of_mem _ (List.mem_cons_of_mem _ (List.mem_append_left _ (List.mem_map.mpr ⟨sg, hsg, rfl⟩)))
    · exact List.mem_cons_of_mem _ (List.mem_cons_of_mem _ (List.mem_append_right _ (List.mem_map.mpr ⟨sg, hsg, rfl⟩)))
  · intro p hp
    exact List.mem_cons_of_mem _ (List.mem_cons_of_mem _ (List.mem_append_right _ (hb p hp)))

theorem outs_sub_names (b : RegisterBank) (n : String) (h : n ∈ outsOf b) : n ∈ namesOf b :=
  List.mem_cons_of_mem _ (List.mem_cons_of_mem _ (List.mem_append_right _ h))

/-- **two independent banks can be visited in either order** -/
theorem processBank_swap (x y : RegisterBank) (hx : BankStruct x) (hy : BankStruct y) (hi : Indep x y)
    (v v' : AMap WireValue) (h : v.toEnv = v'.toEnv) :
    RelW (processBank v x >>= fun r => processBank r y) (processBank v' y >>= fun r => processBank r x) := by
  cases hvx : processBank v x with
  | error e =>
    -- `x` fails on `v`; it fails after `y` too
    cases hvy : processBank v' y with
    | error e' => simp [bind, Except.bind, RelW]
    | ok r' =>
      have hag : AgreeOn (namesOf x) v r' := by
        intro n hn
        rw [processBank_frame y hy v' r' hvy n (hi.2 n hn), h]
      have := processBank_relNames x hx v r' hag
      rw [hvx] at this
      cases hrx : processBank r' x with
      | error e'' => simp [bind, Except.bind, RelW, hrx]
      | ok r'' => rw [hrx] at this; exact this.elim
  | ok r1 =>
    have hag1 : AgreeOn (namesOf y) v' r1 := by
      intro n hn
      rw [processBank_frame x hx v r1 hvx n (hi.1 n hn), h]
    have hD1 := processBank_relNames y hy v' r1 hag1
    cases hvy : processBank v' y with
    | error e' =>
      rw [hvy] at hD1
      cases hr1y : processBank r1 y with
      | error e'' => simp [bind, Except.bind, RelW, hr1y]
      | ok r'' => rw [hr1y] at hD1; exact hD1.elim
    | ok r1' =>
      rw [hvy] at hD1
      cases hr1y : processBank r1 y with
      | error e'' => rw [hr1y] at hD1; exact hD1.elim
      | ok r2 =>
        rw [hr1y] at hD1
        have hag2 : AgreeOn (namesOf x) v r1' := by
          intro n hn
          rw [processBank_frame y hy v' r1' hvy n (hi.2 n hn), h]
        have hD2 := processBank_relNames x hx v r1' hag2
        rw [hvx] at hD2
        cases hr1x : processBank r1' x with
        | error e'' => rw [hr1x] at hD2; exact hD2.elim
        | ok r2' =>
          rw [hr1x] at hD2
          suffices goal : r2.toEnv = r2'.toEnv by simpa [bind, Except.bind, RelW, hr1y, hr1x] using goal
          funext n
          by_cases hnx : n ∈ outsOf x
          · have hny : n ∉ outsOf y := hi.2 n (outs_sub_names x n hnx)
            rw [processBank_frame y hy r1 r2 hr1y n hny]
            exact hD2 n (outs_sub_names x n hnx)
          · by_cases hny : n ∈ outsOf y
            · rw [processBank_frame x hx r1' r2' hr1x n hnx]
              exact (hD1 n (outs_sub_names y n hny)).symm
            · rw [processBank_frame y hy r1 r2 hr1y n hny, processBank_frame x hx v r1 hvx n hnx,
                processBank_frame x hx r1' r2' hr1x n hnx, processBank_frame y hy v' r1' hvy n hny, h]

theorem relW_bind {x y : E (AMap WireValue)} (k k' : AMap WireValue → E (AMap WireValue)) (h : RelW x y)
    (hk : ∀ r r', r.toEnv = r'.toEnv → RelW (k r) (k' r')) : RelW (x >>= k) (y >>= k') := by
  cases x with
  | error e =>
    cases y with
    | error e' => simp [bind, Except.bind, RelW]
    | ok b => exact h.elim
  | ok a =>
    cases y with
    | error e' => exact h.elim
    | ok b => exact hk a b h

/-- **the clock edge does not depend on the order of the banks**, for pairwise independent banks -/
theorem processBanks_perm {l l' : List RegisterBank} (hp : l.Perm l') :
    l.Pairwise Indep → (∀ b ∈ l, BankStruct b) → ∀ v v' : AMap WireValue, v.toEnv = v'.toEnv →
    RelW (processBanks l v) (processBanks l' v') := by
  induction hp with
  | nil => intro _ _ v v' h; exact h
  | cons x hp ih =>
    intro hpw hs v v' h
    obtain ⟨_, hpw'⟩ := List.pairwise_cons.mp hpw
    unfold processBanks
    simp only [List.foldlM_cons]
    apply relW_bind _ _ (RelW.of_relV (processBank_congr v v' x h))
    intro r r' hr
    exact ih hpw' (fun b hb => hs b (List.mem_cons_of_mem _ hb)) r r' hr
  | swap x y l =>
    intro hpw hs v v' h
    obtain ⟨hy, hpw'⟩ := List.pairwise_cons.mp hpw
    have hi : Indep y x := hy x List.mem_cons_self
    unfold processBanks
    simp only [List.foldlM_cons]
    have := processBank_swap y x (hs y List.mem_cons_self) (hs x (List.mem_cons_of_mem _ List.mem_cons_self)) hi v v' h
    have key := relW_bind (fun r => l.foldlM processBank r) (fun r => l.foldlM processBank r) this
      (fun r r' hr => RelW.of_relV (processBanks_congr l r r' hr))
    simpa [bind_assoc] using key
  | trans hp₁ hp₂ ih₁ ih₂ =>
    intro hpw hs v v' h
    have hpw₂ := (hp₁.pairwise_iff (fun {x y} (hxy : Indep x y) => hxy.symm)).mp hpw
    exact (ih₁ hpw hs v v rfl).trans (ih₂ hpw₂ (fun b hb => hs b (hp₁.mem_iff.mpr hb)) v v' h)

/-! ### the initial values -/

/-- the entries `initial_state` writes for one bank -/
def initPairs (b : RegisterBank) : List (String × WireValue) :=
  (b.signals.flatMap fun sg => match b.defaults.get? sg.2.1 with
    | some v => [(sg.1, v), (sg.2.1, v)]
    | none => []) ++ [(b.bubble, ⟨0, .bits 1⟩), (b.stall, ⟨0, .bits 1⟩)]

theorem signals_fold_eq (b : RegisterBank) : ∀ (sigs : List (String × String × Width)) (vals r : AMap WireValue),
    sigs.foldlM (sigStep b) vals = .ok r →
    r = insertAll vals (sigs.flatMap fun sg => match b.defaults.get? sg.2.1 with
      | some v => [(sg.1, v), (sg.2.1, v)]
      | none => [])
  | [], vals, r, h => by
    simp only [List.foldlM_nil, pure, Except.pure, Except.ok.injEq] at h
    rw [← h]; rfl
  | sg :: rest, vals, r, h => by
    simp only [List.foldlM_cons] at h
    obtain ⟨a1, h1, h2⟩ := bind_ok h
    unfold sigStep at h1
    cases hd : b.defaults.get? sg.2.1 with
    | none => rw [hd] at h1; simp [throw, throwThe, MonadExceptOf.throw] at h1
    | some v =>
      rw [hd] at h1
      simp only [pure, Except.pure, Except.ok.injEq] at h1
      rw [signals_fold_eq b rest a1 r h2, List.flatMap_cons, insertAll_append, hd, ← h1]
      rfl

theorem banks_fold_eq : ∀ (banks : List RegisterBank) (vals r : AMap WireValue),
    banks.foldlM bankStep vals = .ok r → r = insertAll vals (banks.flatMap initPairs)
  | [], vals, r, h => by
    simp only [List.foldlM_nil, pure, Except.pure, Except.ok.injEq] at h
    rw [← h]; rfl
  | b :: rest, vals, r, h => by
    simp only [List.foldlM_cons] at h
    obtain ⟨a1, h1, h2⟩ := bind_ok h
    unfold bankStep at h1
    obtain ⟨a0, h0, h1⟩ := bind_ok h1
    simp only [pure, Except.pure, Except.ok.injEq] at h1
    rw [banks_fold_eq rest a1 r h2, List.flatMap_cons, insertAll_append, ← h1, signals_fold_eq b b.signals vals a0 h0]
    unfold initPairs
    rw [insertAll_append]
    rfl

/-- **the initial values are the constants overwritten by the entries of the banks** -/
theorem initialValues_eq_insertAll (p : Program) (vals : AMap WireValue) (h : p.initialValues = .ok vals) :
    vals = insertAll p.constants (p.banks.flatMap initPairs) := by
  rw [initialValues_eq] at h
  exact banks_fold_eq p.banks p.constants vals h

section
variable {FN : List String} {W0 : AMap Width} {s1 : Step1} {constants : AMap WireValue} {s3 : Step3}

theorem bankNames_nodup (h : TablesHyp FN W0 s1 constants s3) : (bankNames s3.banks).Nodup := by
  have := h.s3f.nodup
  rw [h.s3f.seen] at this
  simpa [sigNames] using this

/-- an entry written for a bank: a signal's input or output with the signal's default, or a control wire with 0 -/
theorem mem_initPairs (b : RegisterBank) (q : String × WireValue) (hq : q ∈ initPairs b) :
    (∃ sg ∈ b.signals, b.defaults.get? sg.2.1 = some q.2 ∧ (q.1 = sg.1 ∨ q.1 = sg.2.1)) ∨
    ((q.1 = b.bubble ∨ q.1 = b.stall) ∧ q.2 = ⟨0, .bits 1⟩) := by
  unfold initPairs at hq
  rcases List.mem_append.mp hq with h1 | h1
  · left
    obtain ⟨sg, hsg, hm⟩ := List.mem_flatMap.mp h1
    cases hd : b.defaults.get? sg.2.1 with
    | none => rw [hd] at hm; cases hm
    | some v =>
      rw [hd] at hm
      simp only [List.mem_cons, List.not_mem_nil, or_false] at hm
      rcases hm with rfl | rfl
      · exact ⟨sg, hsg, hd, Or.inl rfl⟩
      · exact ⟨sg, hsg, hd, Or.inr rfl⟩
  · right
    simp only [List.mem_cons, List.not_mem_nil, or_false] at h1
    rcases h1 with rfl | rfl
    · exact ⟨Or.inl rfl, rfl⟩
    · exact ⟨Or.inr rfl, rfl⟩

/-- no two entries written by `initial_state` for the banks of an accepted program contradict one another -/
theorem initPairs_functional (h : TablesHyp FN W0 s1 constants s3) :
    ∀ p ∈ s3.banks.flatMap initPairs, ∀ q ∈ s3.banks.flatMap initPairs, p.1 = q.1 → p.2 = q.2 := by
  intro p hp q hq e
  have hnd := bankNames_nodup h
  obtain ⟨b, hb, hpb⟩ := List.mem_flatMap.mp hp
  obtain ⟨b', hb', hqb⟩ := List.mem_flatMap.mp hq
  have hctl : ∀ c ∈ s3.banks, ∀ n, (n = c.bubble ∨ n = c.stall) → secondIsUnderscore n = false := by
    intro c hc n hn
    obtain ⟨ch, e1, e2⟩ := (h.s3f.banks c hc).ctl
    rcases hn with rfl | rfl
    · rw [e2]; exact bubble_not_sig ch
    · rw [e1]; exact stall_not_sig ch
  have hsig : ∀ c ∈ s3.banks, ∀ sg ∈ c.signals, ∀ n, (n = sg.1 ∨ n = sg.2.1) → secondIsUnderscore n = true := by
    intro c hc sg hsg n hn
    obtain ⟨a1, a2, _⟩ := (h.s3f.banks c hc).sigs.sig sg hsg
    rcases hn with rfl | rfl
    · exact isSigName_second a1
    · exact isSigName_second a2
  rcases mem_initPairs b p hpb with ⟨sg, hsg, hd, hn⟩ | ⟨hn, hv⟩
  · rcases mem_initPairs b' q hqb with ⟨sg', hsg', hd', hn'⟩ | ⟨hn', _⟩
    · -- the two signals share a name: the same bank, the same signal
      have hx : p.1 ∈ sigNames b.signals := by
        simp only [sigNames, List.mem_flatMap]
        exact ⟨sg, hsg, by rcases hn with e1 | e1 <;> simp [e1]⟩
      have hx' : p.1 ∈ sigNames b'.signals := by
        simp only [sigNames, List.mem_flatMap]
        exact ⟨sg', hsg', by rw [e]; rcases hn' with e1 | e1 <;> simp [e1]⟩
      have hbb : b = b' := nodup_flatMap_inj (fun c : RegisterBank => sigNames c.signals) s3.banks hnd b hb b' hb' p.1 hx hx'
      subst hbb
      have hall : sg ∈ allSigs s3.banks := (mem_allSigs _ _).mpr ⟨b, hb, hsg⟩
      have hall' : sg' ∈ allSigs s3.banks := (mem_allSigs _ _).mpr ⟨b, hb, hsg'⟩
      obtain ⟨i1, i2, i3⟩ := sig_names_inj s3.banks hnd sg sg' hall hall'
      obtain ⟨_, _, j3⟩ := sig_names_inj s3.banks hnd sg' sg hall' hall
      have hss : sg = sg' := by
        rcases hn with e1 | e1
        · rcases hn' with e2 | e2
          · exact i1 (e1.symm.trans (e.trans e2))
          · exact absurd (e1.symm.trans (e.trans e2)) i3
        · rcases hn' with e2 | e2
          · exact absurd (e2.symm.trans (e.symm.trans e1)) j3
          · exact i2 (e1.symm.trans (e.trans e2))
      subst hss
      rw [hd] at hd'
      exact Option.some.inj hd'
    · have a := hsig b hb sg hsg p.1 hn
      have c := hctl b' hb' q.1 hn'
      rw [e, c] at a; cases a
  · rcases mem_initPairs b' q hqb with ⟨sg', hsg', _, hn'⟩ | ⟨_, hv'⟩
    · have a := hsig b' hb' sg' hsg' q.1 hn'
      have c := hctl b hb p.1 hn
      rw [← e, c] at a; cases a
    · rw [hv, hv']

/-- the banks of an accepted program: the defaults are keyed by outputs, and no bank's outputs are among another's wires -/
theorem banks_indep (h : TablesHyp FN W0 s1 constants s3) :
    s3.banks.Pairwise Indep ∧ ∀ b ∈ s3.banks, BankStruct b := by
  have hnd := bankNames_nodup h
  obtain ⟨_, hpair⟩ := bankNames_pairwise s3.banks hnd
  refine ⟨?_, ?_⟩
  · have hctl : ∀ b ∈ s3.banks, ∀ c ∈ s3.banks, b.stall ∉ outsOf c ∧ b.bubble ∉ outsOf c := by
      intro b hb c hc
      obtain ⟨ch, e1, e2⟩ := (h.s3f.banks b hb).ctl
      constructor
      · intro hm
        obtain ⟨sg, hsg, e⟩ := List.mem_map.mp hm
        have := isSigName_second ((h.s3f.banks c hc).sigs.sig sg hsg).2.1
        rw [e, e1, stall_not_sig] at this; cases this
      · intro hm
        obtain ⟨sg, hsg, e⟩ := List.mem_map.mp hm
        have := isSigName_second ((h.s3f.banks c hc).sigs.sig sg hsg).2.1
        rw [e, e2, bubble_not_sig] at this; cases this
    have hsub : ∀ b : RegisterBank, ∀ n, n ∈ b.signals.map (·.1) ++ outsOf b → n ∈ sigNames b.signals := by
      intro b n hn
      simp only [sigNames, List.mem_flatMap]
      rcases List.mem_append.mp hn with h1 | h1
      · obtain ⟨sg, hsg, e⟩ := List.mem_map.mp h1
        exact ⟨sg, hsg, by simp [e]⟩
      · obtain ⟨sg, hsg, e⟩ := List.mem_map.mp h1
        exact ⟨sg, hsg, by simp [e]⟩
    have hmemPair : ∀ b ∈ s3.banks, ∀ c ∈ s3.banks,
        (∀ x ∈ sigNames b.signals, ∀ y ∈ sigNames c.signals, x ≠ y) → Indep b c := by
      intro b hb c hc hdis
      constructor
      · intro n hn hm
        simp only [namesOf, List.mem_cons] at hn
        rcases hn with e | e | e
        · subst e; exact (hctl c hc b hb).1 hm
        · subst e; exact (hctl c hc b hb).2 hm
        · exact hdis n (hsub b n (List.mem_append_right _ hm)) n (hsub c n e) rfl
      · intro n hn hm
        simp only [namesOf, List.mem_cons] at hn
        rcases hn with e | e | e
        · subst e; exact (hctl b hb c hc).1 hm
        · subst e; exact (hctl b hb c hc).2 hm
        · exact hdis n (hsub b n e) n (hsub c n (List.mem_append_right _ hm)) rfl
    have : ∀ (l : List RegisterBank), (∀ b ∈ l, b ∈ s3.banks) →
        l.Pairwise (fun b c => ∀ x ∈ sigNames b.signals, ∀ y ∈ sigNames c.signals, x ≠ y) → l.Pairwise Indep := by
      intro l
      induction l with
      | nil => intro _ _; exact List.Pairwise.nil
      | cons b rest ih =>
        intro hin hp
        obtain ⟨hp1, hp2⟩ := List.pairwise_cons.mp hp
        refine List.Pairwise.cons ?_ (ih (fun x hx => hin x (List.mem_cons_of_mem _ hx)) hp2)
        intro c hc
        exact hmemPair b (hin b List.mem_cons_self) c (hin c (List.mem_cons_of_mem _ hc)) (hp1 c hc)
    exact this s3.banks (fun _ hb => hb) hpair
  · intro b hb q hq
    obtain ⟨sg, hsg, e, _⟩ := (h.s3f.banks b hb).sigs.dflt q hq
    exact List.mem_map.mpr ⟨sg, hsg, e⟩
end

end Reorder

#print axioms Reorder.processBanks_perm
#print axioms Reorder.initPairs_functional
