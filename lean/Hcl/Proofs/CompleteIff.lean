import Hcl.Proofs.Complete
import Hcl.Proofs.CompleteActionsIff
import Hcl.Proofs.FlagProgram
open Rust

/-! Acceptance by `Program::new`, characterised: accepted **exactly when** no stage has a fault. -/

/-- every name that needs an assignment has one -/
theorem Program_new_needed_all (fl : Flags) (cls : CharClass) (o : Orders) (stmts : List Stmt) (p : Program)
    (h : Program.new fl cls o y86FixedFunctions stmts = .ok p) :
    ∀ n ∈ neededOf (step1Of stmts) (step3Of fl cls (step1Of stmts) p.constants), (step1Of stmts).assignments.contains n = true := by
  unfold Program.new at h
  simp only at h
  generalize hs1 : List.foldl (step1Stmt _ _) (step1Init y86FixedFunctions) stmts = s1 at h
  have hs1' : step1Of stmts = s1 := hs1
  rw [hs1']
  split at h
  · simp at h
  · split at h
    · simp at h
    · rename_i constants hconst
      split at h
      · simp at h
      · rename_i herrs3
        simp only [Bool.not_eq_true', List.isEmpty_eq_false_iff, ne_eq, Decidable.not_not, List.append_eq_nil_iff] at herrs3
        split at h
        · simp at h
        · split at h
          · simp at h
          · simp only [Except.ok.injEq] at h
            subst h
            intro n hn
            have he4 := herrs3.2
            rw [List.flatMap_eq_nil_iff] at he4
            have := he4 n hn
            by_cases hc : s1.assignments.contains n = true
            · exact hc
            · exfalso
              have hc' : s1.assignments.contains n = false := by simpa using hc
              rw [hc'] at this
              simp only [Bool.false_eq_true, if_false] at this
              split at this
              · cases this
              · split at this <;> cases this

/-- what `Program_new_complete` asks for, as one proposition about the statements, the strictness options, the
    character classes and the table of the constants -/
structure Faultless (fl : Flags) (cls : CharClass) (o : Orders) (stmts : List Stmt) (constants : AMap WireValue) : Prop where
  declNodup : (allDeclared stmts).Nodup
  declNotBuiltin : ∀ n ∈ allDeclared stmts, n ∉ fixedNamesOf y86FixedFunctions
  targetsNodup : (allTargets stmts).Nodup
  targetsNotOutput : ∀ n ∈ allTargets stmts, n ∉ y86FixedFunctions.filterMap fun f => f.outWire.map (·.1)
  targetsNotConstant : ∀ n ∈ allTargets stmts, (step1Of stmts).constantsRaw.contains n = false
  constantsReadConstants : ∀ p ∈ (step1Of stmts).constantsRaw, ∀ r ∈ refs p.2, (step1Of stmts).constantsRaw.contains r = true
  constantsResolve : resolveConstants fl o (step1Of stmts).constantsRaw = .ok constants
  banksOK : ∀ b ∈ (step1Of stmts).banksRaw, BankDeclOK fl cls (step1Of stmts) constants b
  registerNamesNodup : (allRegNames (step1Of stmts).banksRaw).Nodup
  neededAssigned : ∀ n ∈ neededOf (step1Of stmts) (step3Of fl cls (step1Of stmts) constants), n ∈ allTargets stmts
  actionsOK : ActionsOK fl (step1Of stmts).assignments (finalWires (step1Of stmts) constants (step3Of fl cls (step1Of stmts) constants))
    (knownOf (step1Of stmts) constants (step3Of fl cls (step1Of stmts) constants)) y86FixedFunctions constants

theorem Program_new_of_faultless (fl : Flags) (cls : CharClass) (o : Orders) (stmts : List Stmt) (ho : OrdersOK o)
    (hwf : StmtsWF stmts) (constants : AMap WireValue) (h : Faultless fl cls o stmts constants) :
    ∃ p, Program.new fl cls o y86FixedFunctions stmts = .ok p :=
  Program_new_complete fl cls o stmts ho hwf constants h.declNodup h.declNotBuiltin h.targetsNodup h.targetsNotOutput
    h.targetsNotConstant h.constantsReadConstants h.constantsResolve h.banksOK h.registerNamesNodup h.neededAssigned
    h.actionsOK.mand h.actionsOK.unused h.actionsOK.partialOff h.actionsOK.assign h.actionsOK.read h.actionsOK.acyclic

/-- **accepted ⇒ no fault** -/
theorem Program_new_faultless (fl : Flags) (cls : CharClass) (o : Orders) (stmts : List Stmt) (ho : OrdersOK o)
    (hwf : StmtsWF stmts) (p : Program) (h : Program.new fl cls o y86FixedFunctions stmts = .ok p) :
    Faultless fl cls o stmts p.constants := by
  have hcr := Program_new_constRefs fl cls o stmts p h
  have hs3clean := Program_new_s3clean fl cls o stmts p h
  have hneed := Program_new_needed_all fl cls o stmts p h
  obtain ⟨s1, c, s3, known, hyp, hknown, hact, hpc, _, hac, e1, ec, e3, e4, _, _⟩ := Program_new_decompose' fl cls o stmts p hwf h
  subst e1
  subst hpc
  subst e3
  subst e4
  obtain ⟨a1, a2, a3, a4⟩ := (step1Of_errors_nil_iff stmts).mp hyp.s1clean
  have hw : ∀ b ∈ (step1Of stmts).banksRaw, ∀ r ∈ b.regs, r.width.ok := fun b hb r hr => (hyp.s1inv.banks b hb r hr).1
  obtain ⟨b1, b2⟩ := (step3Of_errors_nil_iff fl cls (step1Of stmts) p.constants hw).mp hs3clean
  have hfixedNotKnown : ∀ n ∈ fixedNamesOf y86FixedFunctions,
      (knownOf (step1Of stmts) p.constants (step3Of fl cls (step1Of stmts) p.constants)).contains n = false := by
    intro n hn
    by_cases hc : (knownOf (step1Of stmts) p.constants (step3Of fl cls (step1Of stmts) p.constants)).contains n = true
    · exfalso
      have hm : n ∈ knownOf (step1Of stmts) p.constants (step3Of fl cls (step1Of stmts) p.constants) := by simpa using hc
      rcases (hknown n).mp hm with h1 | h1
      · simp only [bankOuts, List.mem_flatMap, List.mem_map] at h1
        obtain ⟨b, hb, sg, hsg, rfl⟩ := h1
        have := isSigName_second ((hyp.s3f.banks b hb).sigs.sig sg hsg).2.1
        rw [(hyp.fnShape _ hn).1] at this; cases this
      · obtain ⟨pr, hpr, rfl⟩ := List.mem_map.mp h1
        exact (constPairs_declared hyp pr hpr).2.1 hn
    · simpa using hc
  have hout : ∀ f ∈ y86FixedFunctions, ∀ n w, f.outWire = some (n, w) →
      (knownOf (step1Of stmts) p.constants (step3Of fl cls (step1Of stmts) p.constants)).contains n = false ∧
      (step1Of stmts).assignments.contains n = false := by
    intro f hf n w hout
    have hn : n ∈ fixedNamesOf y86FixedFunctions := by
      have := List.all_eq_true.mp y86_out_in_names f hf
      rw [hout] at this
      simpa using this
    refine ⟨hfixedNotKnown n hn, ?_⟩
    by_cases hc : (step1Of stmts).assignments.contains n = true
    · exfalso
      exact a4 n ((step1Of_assignments_contains_iff stmts n).mp hc) (List.mem_filterMap.mpr ⟨f, hf, by simp [hout]⟩)
    · simpa using hc
  -- a known name (a register output or a constant) is not assigned
  have hka : ∀ n, (knownOf (step1Of stmts) p.constants (step3Of fl cls (step1Of stmts) p.constants)).contains n = true →
      (step1Of stmts).assignments.contains n = false := by
    intro n hn
    have hm : n ∈ knownOf (step1Of stmts) p.constants (step3Of fl cls (step1Of stmts) p.constants) := by simpa using hn
    by_cases hc : (step1Of stmts).assignments.contains n = true
    · exfalso
      rcases (hknown n).mp hm with h1 | h1
      · simp only [bankOuts, List.mem_flatMap, List.mem_map] at h1
        obtain ⟨b, hb, sg, hsg, rfl⟩ := h1
        have := hyp.s3f.outsNA b hb sg hsg
        rw [hc] at this; cases this
      · obtain ⟨pr, hpr, rfl⟩ := List.mem_map.mp h1
        obtain ⟨v, hk, hv, _⟩ := (mem_constPairs _ _ _).mp hpr
        have hcc : (step1Of stmts).constantsRaw.contains pr.1 = true := (AMap.contains_iff_mem_keys _ _).mpr hk
        have := hac pr.1 ((step1Of_assigned_iff stmts pr.1).mpr ((step1Of_assignments_contains_iff stmts pr.1).mp hc))
        rw [hcc] at this; cases this
    · simpa using hc
  exact
    { declNodup := a1, declNotBuiltin := a2, targetsNodup := a3, targetsNotOutput := a4
      targetsNotConstant := fun n hn => hac n ((step1Of_assigned_iff stmts n).mpr hn)
      constantsReadConstants := constRefs_of_nil _ hcr
      constantsResolve := ec
      banksOK := b1, registerNamesNodup := b2
      neededAssigned := fun n hn => (step1Of_assignments_contains_iff stmts n).mp (hneed n hn)
      actionsOK := assignmentsToActions_ok_conds fl o _ _ _ y86FixedFunctions _ p.constants ho y86Fixed_table hyp.s1inv.aKeys
        y86_hio hout hka p.actions hact }

/-- **Acceptance is decided exactly by the faults**: `Program::new` accepts a statement list if and only if the constants
    resolve to some table for which nothing is wrong, and then the program's table of constants is that table -/
theorem Program_new_ok_iff (fl : Flags) (cls : CharClass) (o : Orders) (stmts : List Stmt) (ho : OrdersOK o)
    (hwf : StmtsWF stmts) :
    (∃ p, Program.new fl cls o y86FixedFunctions stmts = .ok p) ↔ ∃ constants, Faultless fl cls o stmts constants :=
  ⟨fun ⟨p, h⟩ => ⟨p.constants, Program_new_faultless fl cls o stmts ho hwf p h⟩,
   fun ⟨c, h⟩ => Program_new_of_faultless fl cls o stmts ho hwf c h⟩

#print axioms Program_new_ok_iff
