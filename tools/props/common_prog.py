"""Judging of the `prog` family of streams (S-EXPR, S-PROG and their mutations)."""
import re

_loop = re.compile(r"WireLoop(:[^ ]*)?")


def norm(x):
    return _loop.sub("WireLoop", x)


def judge_prog(req, impl, model, spec, focus=None):
    """corr: impl == model (loop contents ignored); oracle: accept/reject as the specification says and,
    when accepted, every wire value, register, memory byte and status of every cycle as the specification says."""
    cats = []
    spec, _, verdict = spec.partition("\x00")
    iacc = impl.startswith("ok")
    sacc = spec.startswith("ok")
    cats.append("accepted" if iacc else "rejected")
    if "end=DivideByZero" in impl:
        cats.append("divide-by-zero")
    m = re.search(r"\(inject ([^ ]*) ([^)]*)\)", req)
    if m:
        cats.append("inject-" + m.group(1))
    for t in re.findall(r"\(tags ([^)]*)\)", req):
        for x in t.split():
            cats.append("tag-" + x)
    corr = norm(impl) == norm(model)
    oracle = True
    what = ""
    ns = re.search(r"\(nsched (\d+)\)", req)
    if ns and iacc:
        cats.append("distinct-schedules-%s" % ns.group(1))
    if impl.startswith("NONDETERMINISTIC"):
        oracle = False
        what = "two builds of the same program (fresh hash seeds) behaved differently: " + impl[:300]
    elif impl.startswith("PANIC"):
        oracle = False
        what = "implementation panicked: " + impl[:200]
    elif iacc != sacc:
        oracle = False
        what = "implementation %s the program but the specification %s it (%s)" % (
            "accepted" if iacc else "rejected (" + impl[:120] + ")", "accepts" if sacc else "rejects", spec[:160])
    elif iacc and impl != spec:
        oracle = False
        # find first differing cycle/wire
        a, b = impl.split(","), spec.split(",")
        d = next(((x, y) for x, y in zip(a, b) if x != y), ("?", "?"))
        what = "values differ from the specification: impl %s vs spec %s" % (d[0][-80:], d[1][-80:])
    elif (not iacc) and m and m.group(1) not in ("none",) and m.group(2) != "-":
        # a single injected fault: the diagnostics must name the wire concerned (C09)
        # only when the injected fault is the program's only fault (the generated base program may itself
        # contain e.g. a constant dividing by zero, which an earlier checking stage reports first)
        sfaults = spec.split(" ")[1:] if spec.startswith("rej") else []
        single = bool(sfaults) and all(f.endswith(":" + m.group(2)) for f in sfaults if f != "-")
        if focus == "names" and single and m.group(2) not in impl:
            oracle = False
            what = "rejected, but no diagnostic names the injected wire %s: %s" % (m.group(2), impl[:200])
    mn = re.search(r"\(msgnames 0 ([^ )]*) ([^)]*)\)", req)
    if mn:
        oracle = False
        what = "the rendered diagnostics (%s) do not name the wire %s in quotes" % (mn.group(1), mn.group(2))
    elif "(msgnames 1)" in req:
        cats.append("messages-name-their-wires")
    if "loops-BOGUS" in verdict:
        oracle = False
        what = ("a dependency loop was reported whose names, or whose printed \"'x' depends on 'y'\" links, are not a cycle of "
                "the dependency relation of the statements")
    if verdict.startswith("sched-INVALID"):
        oracle = False
        what = "the schedule produced by the real code is not a valid evaluation order (read before write, double writer, or state change too early)"
    for vd in verdict.split():
        cats.append(vd)
    t = re.search(r"\(text ([^)]*)\)", req)
    key = t.group(1) if t else req
    return {"corr": corr, "oracle": oracle, "what": what, "key": key, "cats": cats}
