import Hcl.Proofs.Stage3
open Rust

/-! Step 3: what acceptance demands of every register default. -/

section
variable (fl : Flags) (cls : CharClass) (s1 : Step1) (constants : AMap WireValue)

/-- the entry recorded for a register obeys the rules: the default passes the width checker in the table of the constants,
    its width is the register's or it is unsized, and the value recorded is the value of the default brought to the
    register's width -/
def DefaultRule (defaults : AMap WireValue) (sg : String × String × Width) (r : RegDecl) : Prop :=
  sg.2.2 = r.width ∧ ∃ v dv,
    checkFixEval fl (AMap.toCtx (constants.map fun p => (p.1, p.2.width))) constants.toEnv r.default = .ok v ∧
    (v.width.combine r.width).isSome = true ∧ asWidth v r.width = .ok dv ∧ defaults.get? sg.2.1 = some dv

def AccRule (regs : List RegDecl) (acc : BankAcc) : Prop :=
  ∀ sg ∈ acc.signals, (acc.defaults.contains sg.2.1 = true) ∧ ∃ r ∈ regs, DefaultRule fl constants acc.defaults sg r

theorem step3Register_rule (bank : String) (inP outP : Char) (s : Step3) (acc : BankAcc) (r : RegDecl) (done : List RegDecl)
    (hclean : (step3Register fl s1 constants bank inP outP (s, acc) r).1.errors = [])
    (hacc : AccRule fl constants done acc) :
    AccRule fl constants (done ++ [r]) (step3Register fl s1 constants bank inP outP (s, acc) r).2 := by
  unfold step3Register at hclean ⊢
  simp only at hclean ⊢
  split
  · -- a diagnostic was recorded: impossible
    rename_i hpre
    rw [if_pos hpre] at hclean
    simp only [List.append_eq_nil_iff] at hclean
    simp only [Bool.not_eq_true', List.isEmpty_eq_false_iff] at hpre
    exact absurd hclean.2 hpre
  · rename_i hpre
    rw [if_neg hpre] at hclean
    have hpre' : (regPre s1 constants bank (String.ofList [inP, '_'] ++ r.name) (String.ofList [outP, '_'] ++ r.name) acc
        s.seenRegisters r).1 = [] := by simpa using hpre
    obtain ⟨_, _, hfresh, _⟩ := regPre_clean s1 constants bank _ _ acc _ r hpre'
    unfold regEval at hclean ⊢
    simp only at hclean ⊢
    cases hv : checkFixEval fl (AMap.toCtx (constants.map fun p => (p.1, p.2.width))) constants.toEnv r.default with
    | error ds =>
      rw [hv] at hclean
      simp only [List.append_eq_nil_iff] at hclean
      exact absurd hclean.2 (checkFixEval_err fl _ _ _ _ hv)
    | ok v =>
      rw [hv] at hclean
      simp only at hclean ⊢
      cases hd : asWidth v r.width with
      | error e =>
        rw [hd] at hclean
        simp only [List.append_eq_nil_iff] at hclean
        exact absurd hclean.2 (by simp [panicDiag])
      | ok dv =>
        rw [hd] at hclean
        simp only [List.append_eq_nil_iff] at hclean
        have hcomb : (v.width.combine r.width).isSome = true := by
          cases hc : v.width.combine r.width with
          | some _ => rfl
          | none => rw [hc] at hclean; simp at hclean
        intro sg hsg
        rcases List.mem_append.mp hsg with hold | hnew
        · obtain ⟨hc, r', hr', e1, v', dv', a1, a2, a3, a4⟩ := hacc sg hold
          have hne : sg.2.1 ≠ String.ofList [outP, '_'] ++ r.name := by
            intro heq; rw [heq] at hc; rw [hfresh] at hc; cases hc
          refine ⟨by rw [AMap.contains_insert, hc]; rfl, r', List.mem_append_left _ hr', e1, v', dv', a1, a2, a3, ?_⟩
          rw [AMap.get?_insert_ne _ _ _ _ hne]; exact a4
        · simp only [List.mem_cons, List.not_mem_nil, or_false] at hnew
          subst hnew
          refine ⟨by rw [AMap.contains_insert]; simp, r, List.mem_append_right _ List.mem_cons_self, rfl, v, dv, hv, hcomb, hd, ?_⟩
          exact AMap.get?_insert_self _ _ _

theorem regs_fold_rule (bank : String) (inP outP : Char) : ∀ (regs : List RegDecl) (s : Step3) (acc : BankAcc) (done : List RegDecl),
    (regs.foldl (step3Register fl s1 constants bank inP outP) (s, acc)).1.errors = [] → AccRule fl constants done acc →
    AccRule fl constants (done ++ regs) (regs.foldl (step3Register fl s1 constants bank inP outP) (s, acc)).2
  | [], _, _, done, _, h => by simpa using h
  | r :: rest, s, acc, done, hclean, h => by
    simp only [List.foldl_cons] at hclean ⊢
    have hstep := regs_fold_errors_back fl s1 constants bank inP outP rest _ hclean
    have := step3Register_rule fl s1 constants bank inP outP s acc r done hstep h
    have ih := regs_fold_rule bank inP outP rest _ _ (done ++ [r]) hclean this
    rw [List.append_assoc] at ih
    exact ih

theorem step3Register_banks (bank : String) (inP outP : Char) (st : Step3 × BankAcc) (r : RegDecl) :
    (step3Register fl s1 constants bank inP outP st r).1.banks = st.1.banks := by
  obtain ⟨s, acc⟩ := st
  unfold step3Register regEval
  simp only
  repeat' split
  all_goals rfl

theorem regs_fold_banks (bank : String) (inP outP : Char) : ∀ (regs : List RegDecl) (st : Step3 × BankAcc),
    (regs.foldl (step3Register fl s1 constants bank inP outP) st).1.banks = st.1.banks
  | [], _ => rfl
  | r :: rest, st => by
    rw [List.foldl_cons, regs_fold_banks bank inP outP rest, step3Register_banks]

/-- every register of every bank obeys the rules against the declaration it came from -/
def BanksRule (decls : List BankDecl) (banks : List RegisterBank) : Prop :=
  ∀ b ∈ banks, ∃ bd ∈ decls, bd.name = b.label ∧ ∀ sg ∈ b.signals, ∃ r ∈ bd.regs, DefaultRule fl constants b.defaults sg r

theorem step3Bank_rule (s : Step3) (b : BankDecl) (done : List BankDecl)
    (hclean : (step3Bank fl cls s1 constants s b).errors = []) (h : BanksRule fl constants done s.banks) :
    BanksRule fl constants (done ++ [b]) (step3Bank fl cls s1 constants s b).banks := by
  unfold step3Bank at hclean ⊢
  split
  · rename_i inP outP hname
    simp only [hname] at hclean
    split
    · rename_i hcase
      rw [if_pos hcase] at hclean
      simp at hclean
    · rename_i hcase
      rw [if_neg hcase] at hclean
      simp only at hclean ⊢
      have hr := regs_fold_rule fl s1 constants b.name inP outP b.regs _ {} [] hclean (by intro sg hsg; cases hsg)
      intro x hx
      rw [regs_fold_banks fl s1 constants b.name inP outP b.regs _] at hx
      rcases List.mem_append.mp hx with hold | hnew
      · obtain ⟨bd, hbd, e, hs⟩ := h x hold
        exact ⟨bd, List.mem_append_left _ hbd, e, hs⟩
      · simp only [List.mem_cons, List.not_mem_nil, or_false] at hnew
        subst hnew
        refine ⟨b, List.mem_append_right _ List.mem_cons_self, rfl, ?_⟩
        intro sg hsg
        obtain ⟨_, r, hr', hd⟩ := hr sg hsg
        exact ⟨r, by simpa using hr', hd⟩
  · simp at hclean

theorem banks_fold_rule : ∀ (banks : List BankDecl) (s : Step3) (done : List BankDecl),
    (banks.foldl (step3Bank fl cls s1 constants) s).errors = [] → BanksRule fl constants done s.banks →
    BanksRule fl constants (done ++ banks) (banks.foldl (step3Bank fl cls s1 constants) s).banks
  | [], _, done, _, h => by simpa using h
  | b :: rest, s, done, hclean, h => by
    simp only [List.foldl_cons] at hclean ⊢
    have hstep := banks_fold_errors_back fl cls s1 constants rest _ hclean
    have := step3Bank_rule fl cls s1 constants s b done hstep h
    have ih := banks_fold_rule rest _ (done ++ [b]) hclean this
    rw [List.append_assoc] at ih
    exact ih

/-- **step 3**: with no error recorded, every register of every bank obeys the rules against its declaration -/
theorem step3_rule (hclean : (s1.banksRaw.foldl (step3Bank fl cls s1 constants) { wireTypes := s1.wireTypes }).errors = []) :
    BanksRule fl constants s1.banksRaw (s1.banksRaw.foldl (step3Bank fl cls s1 constants) { wireTypes := s1.wireTypes }).banks := by
  have := banks_fold_rule fl cls s1 constants s1.banksRaw { wireTypes := s1.wireTypes } [] hclean (by intro b hb; cases hb)
  simpa using this
end
