import Hcl.Model.Program

/-! Association-list facts. -/

namespace AMap

theorem contains_iff_lookup {α} (m : AMap α) (k : String) : m.contains k = true ↔ ∃ v, m.lookup k = some v := by
  induction m with
  | nil => simp [contains]
  | cons p rest ih =>
    obtain ⟨a, b⟩ := p
    simp only [contains, List.any_cons, Bool.or_eq_true, List.lookup] at ih ⊢
    by_cases h : k = a
    · subst h; simp
    · have h' : (a == k) = false := by simpa using fun e => h e.symm
      have h'' : (k == a) = false := by simpa using h
      simp only [h', h'', Bool.false_eq_true, false_or]
      exact ih

theorem lookup_map_replace {α} (m : AMap α) (k : String) (v : α) (n : String) :
    (m.map (fun p => if p.1 == k then (k, v) else p)).lookup n =
      if n = k then (if m.contains k then some v else none) else m.lookup n := by
  induction m with
  | nil => simp [contains]
  | cons p rest ih =>
    obtain ⟨a, b⟩ := p
    simp only [List.map_cons, contains, List.any_cons] at ih ⊢
    by_cases hak : a = k
    · subst hak
      simp only [beq_self_eq_true, ↓reduceIte, List.lookup, Bool.true_or]
      by_cases hn : n = a
      · subst hn; simp
      · have : (n == a) = false := by simpa using hn
        simp only [this, hn, ↓reduceIte]
        rw [ih]; simp [hn]
    · have hak' : (a == k) = false := by simpa using hak
      simp only [hak', Bool.false_eq_true, ↓reduceIte, List.lookup, Bool.false_or]
      by_cases hn : n = a
      · subst hn
        have : n ≠ k := hak
        simp [this]
      · have : (n == a) = false := by simpa using hn
        simp only [this]
        exact ih

theorem lookup_append_single {α} (m : AMap α) (k : String) (v : α) (n : String) :
    (m ++ [(k, v)]).lookup n = match m.lookup n with
      | some x => some x
      | none => if n = k then some v else none := by
  induction m with
  | nil => simp [List.lookup]; split <;> simp_all
  | cons p rest ih =>
    obtain ⟨a, b⟩ := p
    simp only [List.cons_append, List.lookup]
    by_cases hn : n = a
    · subst hn; simp
    · have : (n == a) = false := by simpa using hn
      simp only [this]; exact ih

/-- lookup after `insert` -/
theorem lookup_insert {α} (m : AMap α) (k : String) (v : α) (n : String) :
    (m.insert k v).lookup n = if n = k then some v else m.lookup n := by
  unfold insert
  by_cases hc : m.contains k = true
  · simp only [hc, ↓reduceIte]
    rw [lookup_map_replace]
    simp [hc]
  · simp only [hc, Bool.false_eq_true, ↓reduceIte]
    rw [lookup_append_single]
    by_cases hn : n = k
    · subst hn
      have : m.lookup n = none := by
        cases h : m.lookup n with
        | none => rfl
        | some x => exact absurd ((contains_iff_lookup m n).mpr ⟨x, h⟩) hc
      simp [this]
    · simp only [hn, ↓reduceIte]
      cases m.lookup n <;> rfl

theorem toEnv_insert (m : AMap WireValue) (k : String) (v : WireValue) (n : String) :
    (m.insert k v).toEnv n = if n = k then some v else m.toEnv n := lookup_insert m k v n

theorem get?_eq_toEnv (m : AMap WireValue) (n : String) : m.get? n = m.toEnv n := rfl

theorem contains_eq_isSome {α} (m : AMap α) (k : String) : m.contains k = (m.lookup k).isSome := by
  cases h : m.lookup k with
  | some v => simpa using (contains_iff_lookup m k).mpr ⟨v, h⟩
  | none =>
    cases hc : m.contains k with
    | false => rfl
    | true =>
      obtain ⟨v, hv⟩ := (contains_iff_lookup m k).mp hc
      rw [h] at hv; cases hv

theorem contains_insert {α} (m : AMap α) (k : String) (v : α) (n : String) :
    (m.insert k v).contains n = (m.contains n || n == k) := by
  rw [contains_eq_isSome, contains_eq_isSome, lookup_insert]
  by_cases h : n = k
  · simp [h]
  · have : (n == k) = false := by simpa using h
    simp [h, this]

end AMap
