//! Type-directed generator of HCL expressions and small programs.
use crate::rng::Rng;

#[derive(Clone, Copy, PartialEq, Eq, Debug)]
pub enum W { Bits(u8), Unl }

#[derive(Clone, Debug)]
pub enum GExpr {
    Const(u128, W, u8),                       // value, width, spelling (0 dec, 1 hex, 2 HEX, 3 bin)
    Name(String),                             // wire or named constant
    Bin(&'static str, Box<GExpr>, Box<GExpr>),
    Un(&'static str, Box<GExpr>),
    Mux(Vec<(GExpr, GExpr)>),
    Slice(Box<GExpr>, u8, u8),
    Concat(Box<GExpr>, Box<GExpr>),
    In(Box<GExpr>, Vec<GExpr>),
}

pub const WIDTHS: [u8; 18] = [0, 1, 2, 3, 4, 7, 8, 15, 16, 31, 32, 33, 63, 64, 65, 80, 127, 128];
pub const ARITH: [&str; 4] = ["+", "-", "*", "/"];
pub const BITWISE: [&str; 5] = ["&", "|", "^", "<<", ">>"];
pub const COMPARE: [&str; 6] = ["==", "!=", "<", "<=", ">", ">="];
pub const LOGIC: [&str; 2] = ["&&", "||"];

pub fn mask(w: W) -> u128 {
    match w {
        W::Unl => !0,
        W::Bits(0) => 0,
        W::Bits(s) => (!0u128) >> (128 - s as u32),
    }
}

pub fn interesting_value(rng: &mut Rng, w: W) -> u128 {
    let m = mask(w);
    let bits = match w { W::Unl => 128, W::Bits(s) => s as u32 };
    let v = match rng.below(12) {
        0 => 0,
        1 => 1,
        2 => m,
        3 => if bits > 0 { 1u128 << (bits - 1) } else { 0 },
        4 => m.wrapping_sub(1),
        5 => (1u128 << 64).wrapping_add(rng.below(3) as u128).wrapping_sub(1),
        6 => 1u128 << 127,
        7 => rng.below(256) as u128,
        8 => rng.below(130) as u128,             // useful as a shift amount
        _ => rng.u128() >> rng.below(128),
    };
    v & m
}

pub fn render(e: &GExpr) -> String {
    match e {
        GExpr::Const(v, w, sp) => match (w, sp) {
            (W::Bits(n), _) if *n > 0 => format!("0b{:0width$b}", v, width = *n as usize),
            (_, 1) => format!("0x{:x}", v),
            (_, 2) => format!("0x{:X}", v),
            _ => format!("{}", v),
        },
        GExpr::Name(n) => n.clone(),
        GExpr::Bin(op, l, r) => format!("({} {} {})", render(l), op, render(r)),
        GExpr::Un(op, x) => format!("{}({})", op, render(x)),
        GExpr::Mux(opts) => {
            let mut s = String::from("[ ");
            for (c, v) in opts { s.push_str(&format!("{} : {}; ", render(c), render(v))); }
            s.push(']');
            s
        }
        GExpr::Slice(x, lo, hi) => format!("({})[{}..{}]", render(x), lo, hi),
        GExpr::Concat(l, r) => format!("({} .. {})", render(l), render(r)),
        GExpr::In(x, items) => format!("({} in {{ {} }})", render(x), items.iter().map(render).collect::<Vec<_>>().join(", ")),
    }
}

pub fn is_wire_name(n: &str) -> bool {
    if n == "true" || n == "false" { return false; }
    if n == "C_n" || n == "Stat" { return true; }
    let mut cs = n.chars();
    let first = cs.next().unwrap_or('A');
    // bank outputs look like X_name
    first.is_lowercase() || cs.next() == Some('_')
}

pub struct Scope {
    pub wires: Vec<(String, W)>,        // readable names with their widths (wires and constants)
    pub counts: std::collections::BTreeMap<&'static str, u64>,
    /// width mutation: the `sabotage_at`-th call of `gen` produces an expression of a perturbed width
    pub sabotage_at: Option<u64>,
    pub calls: u64,
}

pub fn perturb(rng: &mut Rng, w: W) -> W {
    match w {
        W::Unl => W::Bits(*rng.pick(&WIDTHS)),
        W::Bits(n) => match rng.below(5) {
            0 => W::Unl,
            1 if n < 128 => W::Bits(n + 1),
            2 if n > 0 => W::Bits(n - 1),
            _ => { let m = *rng.pick(&WIDTHS); if m == n { W::Bits(if n < 128 { n + 1 } else { n - 1 }) } else { W::Bits(m) } }
        },
    }
}

impl Scope {
    pub fn new(wires: Vec<(String, W)>) -> Scope { Scope { wires, counts: Default::default(), sabotage_at: None, calls: 0 } }
    fn hit(&mut self, k: &'static str) { *self.counts.entry(k).or_insert(0) += 1; }
    fn names_of(&self, w: W) -> Vec<String> {
        self.wires.iter().filter(|x| x.1 == w).map(|x| x.0.clone()).collect()
    }
}

fn pick_width(rng: &mut Rng) -> W {
    if rng.chance(1, 6) { W::Unl } else { W::Bits(*rng.pick(&WIDTHS)) }
}

fn leaf(rng: &mut Rng, sc: &mut Scope, target: W) -> GExpr {
    let names = sc.names_of(target);
    if !names.is_empty() && rng.chance(3, 5) {
        sc.hit("wire");
        return GExpr::Name(rng.pick(&names).clone());
    }
    match target {
        W::Bits(0) => {
            // no literal has width 0: take an empty slice of something
            sc.hit("slice");
            let lo = *rng.pick(&[0u8, 1, 64, 128]);
            GExpr::Slice(Box::new(GExpr::Const(interesting_value(rng, W::Unl), W::Unl, 1)), lo, lo)
        }
        W::Bits(n) => { sc.hit("const-bin"); GExpr::Const(interesting_value(rng, W::Bits(n)), W::Bits(n), 3) }
        W::Unl => { sc.hit("const-unsized"); GExpr::Const(interesting_value(rng, W::Unl), W::Unl, rng.below(3) as u8) }
    }
}

/// a condition that is not constant (mentions a wire when one exists), so that it is never "always true"
fn condition(rng: &mut Rng, sc: &mut Scope, depth: u32) -> GExpr {
    // names that are wires (not constants): by convention constants start with an upper-case letter or are true/false
    let sized: Vec<(String, W)> = sc.wires.iter().filter(|x| is_wire_name(&x.0)).cloned().collect();
    if sized.is_empty() {
        // constant context: a condition here is decided at check time; keep it false so that the
        // last arm stays the only always-true one
        return match rng.below(3) {
            0 => GExpr::Const(0, W::Unl, 0),
            1 => GExpr::Bin("==", Box::new(GExpr::Const(1, W::Unl, 0)), Box::new(GExpr::Const(2, W::Unl, 0))),
            _ => GExpr::Bin("<", Box::new(GExpr::Const(interesting_value(rng, W::Bits(8)), W::Bits(8), 3)), Box::new(GExpr::Const(0, W::Bits(8), 3))),
        };
    }
    let (name, w) = rng.pick(&sized).clone();
    let ow = if rng.chance(1, 3) { W::Unl } else { w };
    let other = gen(rng, sc, ow, depth.saturating_sub(1));
    sc.hit("compare");
    GExpr::Bin(*rng.pick(&COMPARE), Box::new(GExpr::Name(name)), Box::new(other))
}

/// expression whose static width (default features) is `target`
pub fn gen(rng: &mut Rng, sc: &mut Scope, target: W, depth: u32) -> GExpr {
    sc.calls += 1;
    let target = if sc.sabotage_at == Some(sc.calls) { sc.hit("mutated"); perturb(rng, target) } else { target };
    if depth == 0 || rng.chance(1, 7) {
        return leaf(rng, sc, target);
    }
    let d = depth - 1;
    // operand width for "equal or unsized" positions
    let side = |rng: &mut Rng, w: W| -> W { if rng.chance(1, 4) { W::Unl } else { w } };
    let choice = rng.below(20);
    match (choice, target) {
        (0..=3, _) => {
            // arithmetic: result is the larger sized width
            sc.hit("arith");
            let op = *rng.pick(&ARITH);
            let (lw, rw) = match target {
                W::Unl => (W::Unl, W::Unl),
                W::Bits(n) => {
                    let other = match rng.below(3) { 0 => W::Unl, 1 => W::Bits(n), _ => W::Bits(rng.below(n as u64 + 1) as u8) };
                    if rng.chance(1, 2) { (W::Bits(n), other) } else { (other, W::Bits(n)) }
                }
            };
            let l = gen(rng, sc, lw, d);
            let mut r = gen(rng, sc, rw, d);
            if op == "/" && rng.chance(7, 8) {
                // keep most divisors non-zero
                r = GExpr::Bin("|", Box::new(r), Box::new(GExpr::Const(1, W::Unl, 0)));
            }
            GExpr::Bin(op, Box::new(l), Box::new(r))
        }
        (4..=6, _) => {
            sc.hit("bitwise");
            let op = *rng.pick(&BITWISE);
            let (lw, rw) = match target {
                W::Unl => (W::Unl, W::Unl),
                w => if rng.chance(1, 2) { (w, side(rng, w)) } else { (side(rng, w), w) },
            };
            let l = gen(rng, sc, lw, d);
            // keep many shift amounts small enough to be interesting
            let r = if (op == "<<" || op == ">>") && rng.chance(2, 3) {
                let amount = rng.below(140) as u128;
                match rw { W::Unl => GExpr::Const(amount, W::Unl, 0), w => GExpr::Const(amount & mask(w), w, 3) }
            } else { gen(rng, sc, rw, d) };
            let r = if let (GExpr::Const(_, W::Bits(0), _), _) = (&r, 0) { gen(rng, sc, rw, 0) } else { r };
            GExpr::Bin(op, Box::new(l), Box::new(r))
        }
        (7..=8, W::Bits(1)) => {
            sc.hit("compare");
            let w = pick_width(rng);
            let (lw, rw) = if rng.chance(1, 2) { (w, side(rng, w)) } else { (side(rng, w), w) };
            GExpr::Bin(*rng.pick(&COMPARE), Box::new(gen(rng, sc, lw, d)), Box::new(gen(rng, sc, rw, d)))
        }
        (9, W::Bits(1)) => {
            sc.hit("logic");
            let lw = if rng.chance(1, 4) { W::Unl } else { W::Bits(1) };
            let rw = if rng.chance(1, 4) { W::Unl } else { W::Bits(1) };
            // an unsized operand of && / || counts as true when it is not zero, whatever its lowest bit is
            let even = |rng: &mut Rng| GExpr::Const(*rng.pick(&[2u128, 4, 6, 0x100, 0, 0xfffe][..]), W::Unl, rng.below(2) as u8);
            let l = if lw == W::Unl && rng.chance(1, 2) { even(rng) } else { gen(rng, sc, lw, d) };
            let r = if rw == W::Unl && rng.chance(1, 2) { even(rng) } else { gen(rng, sc, rw, d) };
            GExpr::Bin(*rng.pick(&LOGIC), Box::new(l), Box::new(r))
        }
        (10, W::Bits(1)) => {
            sc.hit("not");
            let w = pick_width(rng);
            GExpr::Un("!", Box::new(gen(rng, sc, w, d)))
        }
        (11, W::Bits(1)) => {
            sc.hit("in");
            let w = pick_width(rng);
            let n = rng.range(0, 4);
            let mut items = Vec::new();
            for _ in 0..n { let iw = side(rng, w); items.push(gen(rng, sc, iw, d.min(1))); }
            GExpr::In(Box::new(gen(rng, sc, w, d)), items)
        }
        (12..=13, _) => {
            sc.hit("unary");
            GExpr::Un(*rng.pick(&["-", "~", "+"]), Box::new(gen(rng, sc, target, d)))
        }
        (14..=15, W::Bits(n)) => {
            sc.hit("slice");
            // operand at least lo+n wide, or unsized
            let max_lo = 128 - n;
            let lo = match rng.below(4) { 0 => 0, 1 => max_lo, _ => rng.below(max_lo as u64 + 1) as u8 };
            let hi = lo + n;
            let candidates: Vec<u8> = WIDTHS.iter().cloned().filter(|x| *x >= hi).collect();
            let ow = if rng.chance(1, 5) || candidates.is_empty() { W::Unl } else { W::Bits(*rng.pick(&candidates)) };
            GExpr::Slice(Box::new(gen(rng, sc, ow, d)), lo, hi)
        }
        (16, W::Bits(n)) => {
            sc.hit("concat");
            let a = match rng.below(4) { 0 => 0, 1 => n, _ => rng.below(n as u64 + 1) as u8 };
            GExpr::Concat(Box::new(gen(rng, sc, W::Bits(a), d)), Box::new(gen(rng, sc, W::Bits(n - a), d)))
        }
        (17..=18, _) => {
            sc.hit("mux");
            let n = rng.range(0, 3);
            let mut opts = Vec::new();
            let mut have_sized = false;
            for _ in 0..n {
                let aw = match target { W::Unl => W::Unl, w => side(rng, w) };
                if aw == target { have_sized = true; }
                let c = condition(rng, sc, d.min(2));
                opts.push((c, gen(rng, sc, aw, d)));
            }
            let last_w = if have_sized && rng.chance(1, 2) { W::Unl } else { target };
            // the default arm is written `1`, or with one of the preamble's names for it
            let dflt = match rng.below(5) { 0 => GExpr::Name("true".into()), 1 => GExpr::Name("TRUE".into()), _ => GExpr::Const(1, W::Unl, 0) };
            opts.push((dflt, gen(rng, sc, last_w, d)));
            GExpr::Mux(opts)
        }
        _ => leaf(rng, sc, target),
    }
}

/// One S-EXPR program: operand wires driven by constants, the expression assigned to `t`.
pub struct ExprProgram {
    pub text: String,
    pub target: W,
}

pub fn operand_scope(rng: &mut Rng) -> (Scope, String) {
    let mut decls = String::new();
    let mut wires = Vec::new();
    let n = rng.range(3, 7);
    for i in 0..n {
        let w = *rng.pick(&WIDTHS);
        let name = format!("v{}", i);
        let val = interesting_value(rng, W::Bits(w));
        decls.push_str(&format!("wire {}:{}; {} = 0x{:x};\n", name, w, name, val));
        wires.push((name, W::Bits(w)));
    }
    // some preamble constants (4-bit and 3-bit) and the unsized booleans
    for (n, w) in &[("REG_RSP", W::Bits(4)), ("STAT_HLT", W::Bits(3)), ("JXX", W::Bits(4)), ("true", W::Unl), ("FALSE", W::Unl)] {
        wires.push((n.to_string(), *w));
    }
    // user constants
    let k = rng.range(0, 2);
    for i in 0..k {
        let w = pick_width(rng);
        let name = format!("K{}", i);
        let e = leaf(rng, &mut Scope::new(vec![]), w);
        decls.push_str(&format!("const {} = {};\n", name, render(&e)));
        wires.push((name, w));
    }
    (Scope::new(wires), decls)
}

pub fn expr_program(rng: &mut Rng, depth: u32, mutate: bool) -> (ExprProgram, Scope) {
    let (mut sc, mut text) = operand_scope(rng);
    if mutate { sc.sabotage_at = Some(rng.range(1, 1 + 3 * depth as u64)); }
    let target = if rng.chance(1, 8) { W::Unl } else { W::Bits(*rng.pick(&WIDTHS)) };
    // where the expression is used: assigned to a wire, or (constants only) as a constant's definition or a register's default
    let ctx = rng.below(8);
    if ctx <= 1 { sc.wires.retain(|x| !is_wire_name(&x.0)); }
    let structural = mutate && ctx > 1 && rng.chance(1, 3);
    if structural { sc.sabotage_at = None; }
    let mut e = gen(rng, &mut sc, target, depth);
    if structural {
        // faults in the shape of a case expression or a boolean operator (each is what one strictness option is about)
        sc.hit("mutated-structure");
        let wires: Vec<(String, W)> = sc.wires.iter().filter(|x| is_wire_name(&x.0)).cloned().collect();
        let cond = |rng: &mut Rng| -> GExpr {
            let (n, _) = rng.pick(&wires).clone();
            GExpr::Bin("==", Box::new(GExpr::Name(n)), Box::new(GExpr::Const(rng.below(2) as u128, W::Unl, 0)))
        };
        let one = || GExpr::Const(1, W::Unl, 0);
        let other = gen(rng, &mut sc, target, 1);
        let third = gen(rng, &mut sc, target, 0);
        // a case expression used as a condition whose unsized arm does not fit the width its sized arm gives it: its value
        // when the program runs is 2 mod 2 = 0 (known finding D28: the checker's always-true test looks at the value 2)
        let odd_cond = || GExpr::Mux(vec![(GExpr::Const(0, W::Unl, 0), GExpr::Const(0, W::Bits(1), 3)), (GExpr::Const(1, W::Unl, 0), GExpr::Const(2, W::Unl, 0))]);
        let pick = rng.below(40);
        if pick >= 37 { sc.hit("nested-case-condition"); }
        let sized = |w: u8| GExpr::Const(1, W::Bits(w), 3);
        e = match if pick >= 37 { pick - 31 } else if pick >= 34 { 9 } else { pick % 6 } {
            // arms of different widths, the default right after the first disagreement, and one more arm after it
            9 => { let a = *rng.pick(&[3u8, 64, 127, 128][..]); let b = *rng.pick(&[5u8, 64, 128, 1][..]); let b = if a == b { 7 } else { b };
                   GExpr::Mux(vec![(cond(rng), sized(a)), (cond(rng), sized(b)), (one(), sized(b)), (cond(rng), sized(b))]) },
            6 => GExpr::Mux(vec![(odd_cond(), e)]),                                             // really no default
            7 => GExpr::Mux(vec![(odd_cond(), e), (one(), other)]),                             // really one default, last
            8 => GExpr::Mux(vec![(GExpr::Bin("==", Box::new(odd_cond()), Box::new(GExpr::Const(0, W::Unl, 0))), e)]),  // really a default
            0 => GExpr::Mux(vec![(cond(rng), e), (one(), other), (one(), third)]),              // two defaults
            1 => GExpr::Mux(vec![(cond(rng), e), (one(), other), (cond(rng), third)]),          // an arm after the default
            2 => GExpr::Mux(vec![(cond(rng), e), (cond(rng), other)]),                          // no default
            3 => GExpr::Mux(vec![(one(), e), (one(), other)]),                                  // default first, then another
            4 => GExpr::Mux(vec![]),                                                            // no arm at all
            _ => {
                // a boolean operator with an operand that is zero, two or many bits wide
                let (n, w) = rng.pick(&wires).clone();
                let lo = match w { W::Bits(k) => rng.below(k as u64 + 1) as u8, W::Unl => 0 };
                let span = *rng.pick(&[0u8, 0, 2, 1]);
                let hi = match w { W::Bits(k) => std::cmp::min(k, lo.saturating_add(span)), W::Unl => lo + span };
                let odd = GExpr::Slice(Box::new(GExpr::Name(n)), lo, hi);
                let b = GExpr::Bin(*rng.pick(&LOGIC), Box::new(odd), Box::new(cond(rng)));
                if rng.chance(1, 2) { b } else { GExpr::Mux(vec![(b, e), (one(), other)]) }
            }
        };
    }
    // declared width of the target wire: the expression's width (an unsized expression may go anywhere)
    let decl = match target { W::Bits(n) => n, W::Unl => *rng.pick(&WIDTHS) };
    match ctx {
        0 => text.push_str(&format!("const KT = {};\nwire t:{};\nt = KT;\npc = 0; Stat = STAT_HLT;\n", render(&e), decl)),
        1 => text.push_str(&format!("register tT {{ t:{} = {}; }}\nt_t = T_t;\npc = 0; Stat = STAT_HLT;\n", decl, render(&e))),
        _ => text.push_str(&format!("wire t:{};\nt = {};\npc = 0; Stat = STAT_HLT;\n", decl, render(&e))),
    }
    (ExprProgram { text, target }, sc)
}

/// documented binding strength (C11): larger binds tighter
pub fn prec(op: &str) -> u32 {
    match op {
        "||" => 0, "&&" => 1,
        "==" | "!=" | "<" | "<=" | ">" | ">=" => 2,
        "in" => 3, "|" => 4, "^" => 5, "&" => 6, "<<" | ">>" => 7, "+" | "-" => 8, "*" | "/" => 9,
        _ => 10,
    }
}

fn level(e: &GExpr) -> u32 {
    match e {
        GExpr::Bin(op, _, _) => prec(op),
        GExpr::In(_, _) => 3,
        GExpr::Un(_, _) | GExpr::Slice(_, _, _) => 10,
        _ => 11,
    }
}

fn paren_if(e: &GExpr, need: bool) -> String { if need { format!("({})", render_min(e)) } else { render_min(e) } }

/// text with only the parentheses the documented precedence and associativity require
pub fn render_min(e: &GExpr) -> String {
    match e {
        GExpr::Bin(op, l, r) => {
            let p = prec(op);
            let nonassoc = p == 2;
            let ls = paren_if(l, level(l) < p || (nonassoc && level(l) == p));
            let rs = paren_if(r, level(r) <= p);
            format!("{} {} {}", ls, op, rs)
        }
        GExpr::Un(op, x) => format!("{}{}", op, paren_if(x, level(x) <= 10)),
        GExpr::Slice(x, lo, hi) => format!("{}[{}..{}]", paren_if(x, level(x) <= 10), lo, hi),
        GExpr::In(x, items) => format!("{} in {{ {} }}", paren_if(x, level(x) <= 3), items.iter().map(render_min).collect::<Vec<_>>().join(", ")),
        GExpr::Mux(opts) => {
            let mut s = String::from("[ ");
            for (c, v) in opts { s.push_str(&format!("{} : {}; ", render_min(c), render_min(v))); }
            s.push(']');
            s
        }
        GExpr::Concat(l, r) => format!("({} .. {})", render_min(l), render_min(r)),
        other => render(other),
    }
}
