import Hcl.Graph.Dfs

/-- invariant used for soundness: every parent link and every pending child entry is an edge -/
structure DInv (g : Graph) (s : DState) : Prop where
  links : ∀ x p, s.parents x = some (some p) → x ∈ g.succ p
  entries : ∀ p c, (some p, c) ∈ s.stack → c ∈ g.succ p

theorem IsPath_cons {g : Graph} {a b : Node} {t : List Node}
    (h : b ∈ g.succ a) (ht : IsPath g (b :: t)) : IsPath g (a :: b :: t) := ⟨h, ht⟩

/-- walking parent links extends a path at the front and keeps its last element -/
theorem walk_spec (g : Graph) (p : PMap) (cur : Node)
    (links : ∀ x q, p x = some (some q) → x ∈ g.succ q) :
    ∀ (fuel : Nat) (last : Node) (acc : List Node),
      acc.head? = some last → IsPath g acc →
      IsPath g (walk p cur fuel last acc) ∧
      (walk p cur fuel last acc).getLast? = acc.getLast? ∧ walk p cur fuel last acc ≠ [] := by
  intro fuel
  induction fuel with
  | zero => intro last acc hh hp; refine ⟨hp, rfl, ?_⟩; intro h; simp [walk] at h; simp [h] at hh
  | succ f ih =>
    intro last acc hh hp
    unfold walk
    split
    · refine ⟨hp, rfl, ?_⟩; intro h; simp [h] at hh
    · split
      · rename_i gp hgp
        have hedge : last ∈ g.succ gp := links _ _ hgp
        have hacc : ∃ t, acc = last :: t := by
          cases acc with
          | nil => simp at hh
          | cons a t => simp at hh; exact ⟨t, by rw [hh]⟩
        obtain ⟨t, rfl⟩ := hacc
        have := ih gp (gp :: last :: t) rfl (IsPath_cons hedge hp)
        refine ⟨this.1, ?_, this.2.2⟩
        rw [this.2.1]; simp [List.getLast?_cons_cons]
      · refine ⟨hp, rfl, ?_⟩; intro h; simp [h] at hh

theorem step_found_cycle (g : Graph) (n : Nat) (s : DState) (c : List Node)
    (inv : DInv g s) (h : step g n s = .found c) : IsCycle g c := by
  unfold step at h
  split at h
  · cases h
  · rename_i mp cur rest hst
    cases mp with
    | none => simp at h
    | some parent =>
      simp only at h
      split at h
      · have hentry : cur ∈ g.succ parent := inv.entries parent cur (by rw [hst]; simp)
        have ws := walk_spec g s.parents cur inv.links n parent [parent] rfl trivial
        generalize hw : walk s.parents cur n parent [parent] = path at h ws
        cases path with
        | nil => simp at h
        | cons hd tl =>
          simp only at h
          split at h
          · rename_i heq
            cases h
            subst heq
            refine ⟨ws.1, ?_⟩
            have hl : (hd :: tl).getLast? = some parent := by simpa using ws.2.1
            have : (hd :: tl).getLast! = parent := by
              rw [List.getLast!_eq_getLast?_getD, hl]; rfl
            rw [this]; exact hentry
          · cases h
      · cases h

theorem mem_set {p : PMap} {k x : Node} {v : Option Node} {q : Node}
    (h : (p.set k v) x = some (some q)) : (x = k ∧ v = some q) ∨ (x ≠ k ∧ p x = some (some q)) := by
  unfold PMap.set at h
  by_cases hx : x = k
  · simp [hx] at h; exact Or.inl ⟨hx, h⟩
  · simp [hx] at h; exact Or.inr ⟨hx, h⟩

theorem step_cont_inv (g : Graph) (n : Nat) (s s' : DState)
    (inv : DInv g s) (h : step g n s = .cont s') : DInv g s' := by
  unfold step at h
  split at h
  · cases h
  · rename_i mp cur rest hst
    have hrest : ∀ p c, (some p, c) ∈ rest → c ∈ g.succ p := fun p c hm =>
      inv.entries p c (by rw [hst]; exact List.mem_cons_of_mem _ hm)
    have hstack : ∀ p c, (some p, c) ∈
        (if (s.parents cur).isNone then (g.succ cur).reverse.map (fun o => (some cur, o)) ++ rest else rest) →
        c ∈ g.succ p := by
      intro p c hm
      split at hm
      · rcases List.mem_append.mp hm with hm | hm
        · simp only [List.mem_map, List.mem_reverse] at hm
          obtain ⟨o, ho, heq⟩ := hm
          cases heq; exact ho
        · exact hrest p c hm
      · exact hrest p c hm
    have hset : ∀ x q, (s.parents.set cur mp) x = some (some q) → x ∈ g.succ q := by
      intro x q hx
      rcases mem_set hx with ⟨rfl, hv⟩ | ⟨_, hp⟩
      · subst hv; exact inv.entries q x (by rw [hst]; simp)
      · exact inv.links x q hp
    cases mp with
    | none => simp only at h; cases h; exact ⟨hset, hstack⟩
    | some parent =>
      simp only at h
      split at h
      · split at h
        · split at h
          · cases h
          · cases h; exact ⟨inv.links, hstack⟩
        · cases h; exact ⟨inv.links, hstack⟩
      · cases h; exact ⟨hset, hstack⟩

theorem run_sound (g : Graph) (n : Nat) : ∀ (fuel : Nat) (s : DState) (c : List Node),
    DInv g s → run g n fuel s = some (some c) → IsCycle g c := by
  intro fuel
  induction fuel with
  | zero => intro s c _ h; simp [run] at h
  | succ f ih =>
    intro s c inv h
    unfold run at h
    split at h
    · simp at h
    · rename_i c' hs; simp at h; subst h; exact step_found_cycle g n s c' inv hs
    · rename_i s' hs; exact ih s' c (step_cont_inv g n s s' inv hs) h

theorem findCycle_sound (g : Graph) (c : List Node) (h : findCycle g = some (some c)) : IsCycle g c := by
  unfold findCycle at h
  refine run_sound g _ _ _ c ⟨?_, ?_⟩ h
  · intro x p hp; simp at hp
  · intro p c hm; simp at hm

#print axioms findCycle_sound
