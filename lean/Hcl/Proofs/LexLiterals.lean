import Hcl.Model.Lexer
import Hcl.Util.Format

/-! The lexer model reads binary, hexadecimal and decimal literals as their numeric values (C11). -/

namespace Lexer

theorem spanWhile_all (f : Char → Bool) : ∀ (l : List Char), (∀ c ∈ l, f c = true) → spanWhile f l = (l, [])
  | [], _ => rfl
  | c :: rest, h => by
    unfold spanWhile
    simp only [h c List.mem_cons_self, if_true]
    rw [spanWhile_all f rest (fun x hx => h x (List.mem_cons_of_mem _ hx))]

theorem sizeOf'_ascii : ∀ (l : List Char), (∀ c ∈ l, size c = 1) → sizeOf' l = l.length
  | [], _ => rfl
  | c :: rest, h => by
    unfold sizeOf'
    simp only [List.map_cons, List.sum_cons, h c List.mem_cons_self, List.length_cons]
    have := sizeOf'_ascii rest (fun x hx => h x (List.mem_cons_of_mem _ hx))
    unfold sizeOf' at this
    omega

/-- value of a digit string in a radix, most significant digit first -/
def digitsVal (radix : Nat) (ds : List Char) : Nat := ds.foldl (fun acc c => acc * radix + digitVal c) 0

theorem parseRadix_eq (radix : Nat) (ds : List Char) :
    parseRadix radix ds = if digitsVal radix ds < 2 ^ 128 then some (digitsVal radix ds) else none := rfl

theorem foldl_digits_lt (radix : Nat) (hr : 0 < radix) : ∀ (ds : List Char) (acc : Nat),
    (∀ c ∈ ds, digitVal c < radix) →
    ds.foldl (fun a c => a * radix + digitVal c) acc < (acc + 1) * radix ^ ds.length
  | [], acc, _ => by simp
  | c :: rest, acc, h => by
    simp only [List.foldl_cons, List.length_cons]
    have ih := foldl_digits_lt radix hr rest (acc * radix + digitVal c) (fun x hx => h x (List.mem_cons_of_mem _ hx))
    have hc := h c List.mem_cons_self
    have : (acc * radix + digitVal c + 1) * radix ^ rest.length ≤ (acc + 1) * radix ^ (rest.length + 1) := by
      rw [Nat.pow_succ, ← Nat.mul_assoc, Nat.mul_right_comm]
      apply Nat.mul_le_mul_right
      rw [Nat.add_mul]
      omega
    omega

theorem lexAll_nil (cls : CharCls) (total fuel off : Nat) : lexAll cls total (fuel + 1) [] off = [] := by
  simp [lexAll, lexStep]

/-! ### binary -/

def bitChar (b : Bool) : Char := if b then '1' else '0'

theorem bitChar_props (b : Bool) : isBin (bitChar b) = true ∧ size (bitChar b) = 1 ∧ digitVal (bitChar b) = b.toNat ∧
    isDec (bitChar b) = true := by
  cases b <;> decide

/-- **a binary literal** of `n` digits (1 ≤ n ≤ 128) is one constant of width `n` with the digits' value -/
theorem lex_binary (bits : List Bool) (hne : bits ≠ []) (hlen : bits.length ≤ 128) :
    lex asciiCls ('0' :: 'b' :: bits.map bitChar) =
      [.tok 0 (.Constant ⟨digitsVal 2 (bits.map bitChar), .bits bits.length⟩) (2 + bits.length)] := by
  have hall : ∀ c ∈ bits.map bitChar, isBin c = true := by
    intro c hc; obtain ⟨b, _, rfl⟩ := List.mem_map.mp hc; exact (bitChar_props b).1
  have hsize : ∀ c ∈ bits.map bitChar, size c = 1 := by
    intro c hc; obtain ⟨b, _, rfl⟩ := List.mem_map.mp hc; exact (bitChar_props b).2.1
  have hval : ∀ c ∈ bits.map bitChar, digitVal c < 2 := by
    intro c hc; obtain ⟨b, _, rfl⟩ := List.mem_map.mp hc
    rw [(bitChar_props b).2.2.1]; cases b <;> simp
  have hspan := spanWhile_all isBin _ hall
  have hsz : sizeOf' (bits.map bitChar) = bits.length := by rw [sizeOf'_ascii _ hsize]; simp
  have hlt : digitsVal 2 (bits.map bitChar) < 2 ^ 128 := by
    have := foldl_digits_lt 2 (by omega) (bits.map bitChar) 0 hval
    simp only [Nat.zero_add, Nat.one_mul, List.length_map] at this
    exact Nat.lt_of_lt_of_le this (Nat.pow_le_pow_right (by omega) hlen)
  cases bits with
  | nil => exact absurd rfl hne
  | cons b0 rest =>
    unfold lex
    simp only [List.length_cons, lexAll]
    have h0w : asciiCls.isWhitespace '0' = false := by decide
    have h0a : (asciiCls.isAlphabetic '0' || '0' == '_') = false := by decide
    have h0d : isDec '0' = true := by decide
    simp only [lexStep, h0w, h0a, h0d, Bool.false_eq_true, if_false, if_true, constantStep, handleConstant]
    have hbx : ('b' == 'x') = false := by decide
    have hbb : ('b' == 'b') = true := by decide
    simp only [hbx, hbb, Bool.false_eq_true, if_false, if_true, List.map_cons]
    have hfirst : isBin (bitChar b0) = true := (bitChar_props b0).1
    simp only [hfirst, Bool.not_true, Bool.false_eq_true, if_false]
    have hspan' : spanWhile isBin (bitChar b0 :: rest.map bitChar) = (bitChar b0 :: rest.map bitChar, []) := by
      simpa using hspan
    rw [hspan']
    simp only
    have hlen' : ¬ ((bitChar b0 :: rest.map bitChar).length > 128) := by
      simp only [List.length_cons, List.length_map]; simp at hlen; omega
    simp only [hlen', if_false, parseRadix_eq]
    have hlt' : digitsVal 2 (bitChar b0 :: rest.map bitChar) < 2 ^ 128 := by simpa using hlt
    simp only [hlt', if_true]
    have hsz' : sizeOf' (bitChar b0 :: rest.map bitChar) = rest.length + 1 := by simpa using hsz
    simp only [hsz', lexStep, List.length_cons, List.length_map]
    simp


/-! ### hexadecimal and decimal -/

theorem size_of_le_f (c : Char) (h : c ≤ 'f') : size c = 1 := by
  unfold size
  rw [Char.utf8Size_eq_one_iff]
  have : c.val ≤ 'f'.val := h
  have h2 : ('f'.val : UInt32) ≤ 127 := by decide
  exact UInt32.le_trans this h2

theorem isHex_size (c : Char) (h : isHex c = true) : size c = 1 := by
  apply size_of_le_f
  unfold isHex at h
  simp only [Bool.or_eq_true, Bool.and_eq_true, decide_eq_true_eq] at h
  rcases h with (h | h) | h
  · exact Char.le_trans h.2 (by decide)
  · exact h.2
  · exact Char.le_trans h.2 (by decide)

theorem isDec_size (c : Char) (h : isDec c = true) : size c = 1 := by
  apply size_of_le_f
  unfold isDec at h
  simp only [Bool.and_eq_true, decide_eq_true_eq] at h
  exact Char.le_trans h.2 (by decide)

/-- **a hexadecimal literal** `0x` + digits (either case): one unsized constant with the digits' value, or
    `InvalidConstant` over the whole literal when the value does not fit in 128 bits -/
theorem lex_hex (ds : List Char) (hne : ds ≠ []) (hall : ∀ c ∈ ds, isHex c = true) :
    lex asciiCls ('0' :: 'x' :: ds) =
      if digitsVal 16 ds < 2 ^ 128 then [.tok 0 (.Constant ⟨digitsVal 16 ds, .unlimited⟩) (2 + ds.length)]
      else [.err (.invalidConstant 0 (2 + ds.length))] := by
  have hsz : sizeOf' ds = ds.length := sizeOf'_ascii _ (fun c hc => isHex_size c (hall c hc))
  have hspan := spanWhile_all isHex ds hall
  cases ds with
  | nil => exact absurd rfl hne
  | cons d0 rest =>
    unfold lex
    simp only [List.length_cons, lexAll]
    have h0w : asciiCls.isWhitespace '0' = false := by decide
    have h0a : (asciiCls.isAlphabetic '0' || '0' == '_') = false := by decide
    have h0d : isDec '0' = true := by decide
    simp only [lexStep, h0w, h0a, h0d, Bool.false_eq_true, if_false, if_true, constantStep, handleConstant]
    have hxx : ('x' == 'x') = true := by decide
    simp only [hxx, if_true]
    have hfirst : isHex d0 = true := hall d0 List.mem_cons_self
    simp only [hfirst, Bool.not_true, Bool.false_eq_true, if_false]
    rw [hspan]
    simp only [parseRadix_eq, hsz, List.length_cons]
    by_cases hlt : digitsVal 16 (d0 :: rest) < 2 ^ 128
    · simp only [hlt, if_true, lexStep]
      simp
    · simp only [hlt, if_false]

theorem char_le_iff (a b : Char) : a ≤ b ↔ a.toNat ≤ b.toNat := by
  rw [Char.le_def, UInt32.le_iff_toNat_le]; rfl

theorem char_eq_iff (a b : Char) : a = b ↔ a.toNat = b.toNat := by
  constructor
  · intro h; rw [h]
  · intro h; exact Char.ext (UInt32.toNat_inj.mp h)

theorem isDec_nat (c : Char) (h : isDec c = true) : 48 ≤ c.toNat ∧ c.toNat ≤ 57 := by
  unfold isDec at h
  simp only [Bool.and_eq_true, decide_eq_true_eq, char_le_iff] at h
  have e0 : ('0' : Char).toNat = 48 := by decide
  have e9 : ('9' : Char).toNat = 57 := by decide
  omega

/-- a decimal digit is not a blank, a letter, an underscore, `x` or `b` -/
theorem isDec_class (c : Char) (h : isDec c = true) :
    asciiCls.isWhitespace c = false ∧ (asciiCls.isAlphabetic c || c == '_') = false ∧ (c == 'x') = false ∧ (c == 'b') = false := by
  obtain ⟨h1, h2⟩ := isDec_nat c h
  have ne : ∀ d : Char, d.toNat < 48 ∨ 57 < d.toNat → (c == d) = false := by
    intro d hd
    apply beq_false_of_ne
    intro e
    rw [char_eq_iff] at e
    omega
  refine ⟨?_, ?_, ne 'x' (by decide), ne 'b' (by decide)⟩
  · show (c == ' ' || ('\t' ≤ c && c ≤ '\r')) = false
    rw [ne ' ' (by decide)]
    have : ¬ (c ≤ '\r') := by
      rw [char_le_iff]
      have : ('\r' : Char).toNat = 13 := by decide
      omega
    simp [this]
  · show ((('a' ≤ c && c ≤ 'z') || ('A' ≤ c && c ≤ 'Z')) || c == '_') = false
    rw [ne '_' (by decide)]
    have n1 : ¬ ('a' ≤ c) := by
      rw [char_le_iff]
      have : ('a' : Char).toNat = 97 := by decide
      omega
    have n2 : ¬ ('A' ≤ c) := by
      rw [char_le_iff]
      have : ('A' : Char).toNat = 65 := by decide
      omega
    simp [n1, n2]

/-- **a decimal literal** of at least two digits: one unsized constant with the digits' value, or `InvalidConstant` -/
theorem lex_decimal (d0 d1 : Char) (ds : List Char) (h0 : isDec d0 = true) (h1 : isDec d1 = true)
    (hall : ∀ c ∈ ds, isDec c = true) :
    lex asciiCls (d0 :: d1 :: ds) =
      if digitsVal 10 (d0 :: d1 :: ds) < 2 ^ 128 then
        [.tok 0 (.Constant ⟨digitsVal 10 (d0 :: d1 :: ds), .unlimited⟩) (2 + ds.length)]
      else [.err (.invalidConstant 0 (2 + ds.length))] := by
  have hall' : ∀ c ∈ d0 :: d1 :: ds, isDec c = true := by
    intro c hc
    simp only [List.mem_cons] at hc
    rcases hc with rfl | rfl | hc
    · exact h0
    · exact h1
    · exact hall c hc
  have hsz : sizeOf' (d0 :: d1 :: ds) = ds.length + 2 := by
    rw [sizeOf'_ascii _ (fun c hc => isDec_size c (hall' c hc))]; simp
  have hspan := spanWhile_all isDec (d0 :: d1 :: ds) hall'
  obtain ⟨c0w, c0a, _, _⟩ := isDec_class d0 h0
  obtain ⟨_, _, c1x, c1b⟩ := isDec_class d1 h1
  unfold lex
  simp only [List.length_cons, lexAll]
  simp only [lexStep, c0w, c0a, h0, Bool.false_eq_true, if_false, if_true, constantStep, handleConstant,
    c1x, c1b, h1]
  rw [hspan]
  simp only [parseRadix_eq, hsz]
  by_cases hlt : digitsVal 10 (d0 :: d1 :: ds) < 2 ^ 128
  · simp only [hlt, if_true, lexStep]
    simp
    omega
  · simp only [hlt, if_false]
    simp
    omega

/-- a single decimal digit -/
theorem lex_digit (d0 : Char) (h0 : isDec d0 = true) :
    lex asciiCls [d0] = [.tok 0 (.Constant ⟨d0.toNat - 48, .unlimited⟩) 1] := by
  obtain ⟨c0w, c0a, _, _⟩ := isDec_class d0 h0
  unfold lex
  simp only [List.length_cons, lexAll]
  simp only [lexStep, c0w, c0a, h0, Bool.false_eq_true, if_false, if_true, constantStep, handleConstant]
  simp

end Lexer
