import Hcl.Model.Step
open Rust

/-! Model of `Memory::load_line_y86` / `load_from_y86` (program.rs).  A line is the list of its UTF-8
    bytes; `str::get(a..b)` and `&s[a..b]` are modelled with Rust's own `is_char_boundary` test on
    bytes (a byte in 0x80..0xBF continues a character), the indexing form panicking where `get`
    returns `None`. -/

abbrev Bytes := List Nat

namespace Yo

/-- `str::is_char_boundary` -/
def isBoundary (s : Bytes) (k : Nat) : Bool :=
  k == s.length || (match s[k]? with
    | some b => !(0x80 ≤ b && b ≤ 0xBF)
    | none => false)

/-- `str::get(a..b)` -/
def get (s : Bytes) (a b : Nat) : Option Bytes :=
  if a ≤ b && b ≤ s.length && isBoundary s a && isBoundary s b then some ((s.drop a).take (b - a)) else none

/-- `&s[a..b]` -/
def index (s : Bytes) (a b : Nat) : R Bytes :=
  match get s a b with
  | some x => pure x
  | none => throw (.panic "byte index is not a char boundary or out of range")

def str (x : String) : Bytes := x.toList.map Char.toNat

def isHexByte (b : Nat) : Bool := (48 ≤ b && b ≤ 57) || (97 ≤ b && b ≤ 102) || (65 ≤ b && b ≤ 70)
def isHex (s : Bytes) : Bool := s.all isHexByte

def hexVal (b : Nat) : Nat := if b ≤ 57 then b - 48 else if b ≥ 97 then b - 87 else b - 55
/-- `from_str_radix(s, 16)` on hexadecimal digits -/
def hexNum (s : Bytes) : Nat := s.foldl (fun acc b => acc * 16 + hexVal b) 0

inductive LineResult where
  | ok (m : Mem) (loc : Nat)
  | err
  | panic
  deriving Inhabited

/-- the `while i < hex_chars.len() && ...` loop; `fuel` bounds the iterations (11 suffice for 20 bytes) -/
def hexLoop (hexChars : Bytes) : Nat → Nat → Mem → Nat → LineResult
  | 0, _, _, _ => .panic
  | fuel+1, i, m, loc =>
    if i < hexChars.length && get hexChars i (i + 1) != some (str " ") then
      match get hexChars i (i + 2) with
      | some digits => if isHex digits then hexLoop hexChars fuel (i + 2) (m.insert loc (hexNum digits)) (loc + 1) else .err
      | none => .err
    else .ok m loc

def containsByte (s : Bytes) (b : Nat) : Bool := s.contains b

/-- `load_line_y86` -/
def loadLine (m : Mem) (expectLoc : Nat) (line : Bytes) : LineResult :=
  if get line 0 2 == some (str "0x") && get line 5 7 == some (str ": ") && get line 27 29 == some (str " |") then
    match index line 2 5 with
    | .error _ => .panic
    | .ok addr =>
      if !isHex addr then .err else
      match index line 7 27 with
      | .error _ => .panic
      | .ok hexChars => hexLoop hexChars 12 0 m (hexNum addr)
  else if containsByte line 124 && !((str "                            |").isPrefixOf line) then .err
  else .ok m expectLoc

inductive LoadResult where
  | ok (m : Mem)
  | unparseable (line : Bytes)
  | emptyFile
  | ioError            -- `BufRead::lines` found a line that is not valid UTF-8
  | panic

def cont (b : Nat) : Bool := 0x80 ≤ b && b ≤ 0xBF

/-- `str::from_utf8` accepts the byte string -/
def validUtf8 : Bytes → Bool
  | [] => true
  | b0 :: rest =>
    if b0 < 0x80 then validUtf8 rest
    else if 0xC2 ≤ b0 && b0 ≤ 0xDF then
      match rest with
      | b1 :: r => cont b1 && validUtf8 r
      | _ => false
    else if 0xE0 ≤ b0 && b0 ≤ 0xEF then
      match rest with
      | b1 :: b2 :: r =>
        (if b0 == 0xE0 then 0xA0 ≤ b1 && b1 ≤ 0xBF else if b0 == 0xED then 0x80 ≤ b1 && b1 ≤ 0x9F else cont b1) &&
          cont b2 && validUtf8 r
      | _ => false
    else if 0xF0 ≤ b0 && b0 ≤ 0xF4 then
      match rest with
      | b1 :: b2 :: b3 :: r =>
        (if b0 == 0xF0 then 0x90 ≤ b1 && b1 ≤ 0xBF else if b0 == 0xF4 then 0x80 ≤ b1 && b1 ≤ 0x8F else cont b1) &&
          cont b2 && cont b3 && validUtf8 r
      | _ => false
    else false

/-- `load_from_y86` over the lines `BufRead::lines` yields -/
def loadLines : List Bytes → Mem → Nat → Bool → LoadResult
  | [], m, _, found => if found then .ok m else .emptyFile
  | line :: rest, m, loc, _ =>
    if !validUtf8 line then .ioError else
    match loadLine m loc line with
    | .ok m' loc' => loadLines rest m' loc' true
    | .err => .unparseable line
    | .panic => .panic

def load (lines : List Bytes) : LoadResult := loadLines lines [] 0 false

/-- `BufRead::lines` on a byte string: split at 0x0A, drop one 0x0D before it; no empty last line -/
def splitLines (file : Bytes) : List Bytes :=
  let rec go (rest : Bytes) (cur : Bytes) (acc : List Bytes) : List Bytes :=
    match rest with
    | [] => (if cur.isEmpty then acc else cur.reverse :: acc).reverse
    | b :: tl =>
      if b == 10 then
        let line := match cur with
          | 13 :: c => c
          | c => c
        go tl [] (line.reverse :: acc)
      else go tl (b :: cur) acc
  go file [] []

end Yo
