import Hcl.Proofs.BinarySearch

/-! The (offset, line number) table built by `mark_newlines`, and what `line_number_and_bounds` finds in it. -/

namespace Io

theorem snoc_induction {α : Type} {P : List α → Prop} (hnil : P []) (hsnoc : ∀ l a, P l → P (l ++ [a])) : ∀ l, P l := by
  have h : ∀ l : List α, P l.reverse := by
    intro l
    induction l with
    | nil => simpa using hnil
    | cons a l ih => simpa using hsnoc _ a ih
  intro l
  simpa using h l.reverse

theorem takeWhile_length_le {α : Type} (f : α → Bool) (l : List α) : (l.takeWhile f).length ≤ l.length := by
  induction l with
  | nil => simp
  | cons a l ih =>
    simp only [List.takeWhile_cons]
    split <;> simp <;> omega

theorem markFrom_append (off : Nat) (A B : Bytes) (i idx : Nat) :
    markFrom off (A ++ B) i idx = markFrom off A i idx ++ markFrom off B (i + A.length) (idx + A.count 10) := by
  induction A generalizing i idx with
  | nil => simp [markFrom]
  | cons b A ih =>
    simp only [List.cons_append, markFrom]
    by_cases hb : b = 10
    · subst hb
      simp only [if_true, List.cons_append, ih, List.length_cons, List.count_cons_self]
      have h1 : i + 1 + A.length = i + (A.length + 1) := by omega
      have h2 : idx + 1 + List.count 10 A = idx + (List.count 10 A + 1) := by omega
      rw [h1, h2]
    · simp only [hb, if_false, ih, List.length_cons]
      have : List.count 10 (b :: A) = List.count 10 A := by
        rw [List.count_cons]; simp [hb]
      rw [this]
      have h1 : i + 1 + A.length = i + (A.length + 1) := by omega
      rw [h1]

theorem markFrom_length (off : Nat) (A : Bytes) (i idx : Nat) : (markFrom off A i idx).length = A.count 10 := by
  induction A generalizing i idx with
  | nil => simp [markFrom]
  | cons b A ih =>
    simp only [markFrom]
    by_cases hb : b = 10
    · subst hb; simp [ih]
    · simp only [hb, if_false, ih]; rw [List.count_cons]; simp [hb]

theorem markFrom_keys (off : Nat) (A : Bytes) (i idx : Nat) :
    ∀ p ∈ markFrom off A i idx, off + i + 1 ≤ p.1 ∧ p.1 ≤ off + i + A.length := by
  induction A generalizing i idx with
  | nil => simp [markFrom]
  | cons b A ih =>
    intro p hp
    simp only [markFrom] at hp
    by_cases hb : b = 10
    · simp only [hb, if_true, List.mem_cons] at hp
      rcases hp with rfl | hp
      · simp
      · have := ih _ _ p hp; simp only [List.length_cons]; omega
    · simp only [hb, if_false] at hp
      have := ih _ _ p hp; simp only [List.length_cons]; omega

theorem markFrom_sorted (off : Nat) (A : Bytes) (i idx : Nat) :
    ((markFrom off A i idx).map (·.1)).Pairwise (· ≤ ·) := by
  induction A generalizing i idx with
  | nil => simp [markFrom]
  | cons b A ih =>
    simp only [markFrom]
    by_cases hb : b = 10
    · simp only [hb, if_true, List.map_cons, List.pairwise_cons]
      refine ⟨?_, ih _ _⟩
      intro k hk
      obtain ⟨p, hp, rfl⟩ := List.mem_map.mp hk
      have := markFrom_keys off A (i + 1) (idx + 1) p hp
      omega
    · simp only [hb, if_false]; exact ih _ _

theorem markNewlines_sorted (off : Nat) (A : Bytes) : ((markNewlines off A).map (·.1)).Pairwise (· ≤ ·) := by
  simp only [markNewlines, List.map_cons, List.pairwise_cons]
  refine ⟨?_, markFrom_sorted _ _ _ _⟩
  intro k hk
  obtain ⟨p, hp, rfl⟩ := List.mem_map.mp hk
  have := markFrom_keys off A 0 1 p hp
  omega

theorem markNewlines_keys (off : Nat) (A : Bytes) : ∀ p ∈ markNewlines off A, off ≤ p.1 ∧ p.1 ≤ off + A.length := by
  intro p hp
  simp only [markNewlines, List.mem_cons] at hp
  rcases hp with rfl | hp
  · simp
  · have := markFrom_keys off A 0 1 p hp; omega

/-- number of bytes after the last line feed -/
def trail (A : Bytes) : Nat := (A.reverse.takeWhile (· ≠ 10)).length

theorem trail_le (A : Bytes) : trail A ≤ A.length := by
  unfold trail
  have := takeWhile_length_le (fun x => decide (x ≠ 10)) A.reverse
  simpa using this

theorem trail_concat (A : Bytes) (b : Nat) : trail (A ++ [b]) = if b = 10 then 0 else trail A + 1 := by
  unfold trail
  simp only [List.reverse_append, List.reverse_cons, List.reverse_nil, List.nil_append, List.singleton_append, List.takeWhile_cons]
  by_cases hb : b = 10 <;> simp [hb]

/-- the last entry of the table of a text: the start of its last line and that line's number -/
theorem markNewlines_getLast (off : Nat) (A : Bytes) :
    (markNewlines off A).getLast? = some (off + (A.length - trail A), 1 + A.count 10) := by
  induction A using snoc_induction with
  | hnil => simp [markNewlines, markFrom, trail]
  | hsnoc A b ih =>
    simp only [markNewlines] at ih ⊢
    rw [markFrom_append]
    by_cases hb : b = 10
    · subst hb
      simp only [markFrom, if_true, trail_concat]
      rw [← List.cons_append, List.getLast?_append]
      simp
      omega
    · simp only [markFrom, hb, if_false, List.append_nil, trail_concat]
      rw [ih]
      have := trail_le A
      have hc : List.count 10 (A ++ [b]) = List.count 10 A := by
        rw [List.count_append, List.count_cons]; simp [hb]
      rw [hc]
      simp only [List.length_append, List.length_cons, List.length_nil]
      congr 2; omega

end Io

namespace Io

theorem markFrom_nil_of_not_mem (off : Nat) (B : Bytes) (i idx : Nat) (h : 10 ∉ B) : markFrom off B i idx = [] := by
  induction B generalizing i idx with
  | nil => simp [markFrom]
  | cons b B ih =>
    simp only [List.mem_cons, not_or] at h
    have hb : ¬ b = 10 := fun e => h.1 e.symm
    simp only [markFrom, hb, if_false]
    exact ih _ _ h.2

theorem markFrom_head (off : Nat) (B : Bytes) (i idx : Nat) (h : 10 ∈ B) :
    (markFrom off B i idx)[0]? = some (off + i + B.idxOf 10 + 1, idx + 1) := by
  induction B generalizing i idx with
  | nil => simp at h
  | cons b B ih =>
    by_cases hb : b = 10
    · subst hb; simp [markFrom]
    · have h' : 10 ∈ B := by
        rcases List.mem_cons.mp h with e | e
        · exact absurd e.symm hb
        · exact e
      simp only [markFrom, hb, if_false]
      rw [ih _ _ h']
      have : List.idxOf 10 (b :: B) = List.idxOf 10 B + 1 := by
        rw [List.idxOf_cons]
        have : (b == 10) = false := by simpa using hb
        simp [this]
      rw [this]
      congr 2; omega

theorem sorted_of_pairwise (keys : List Nat) (h : keys.Pairwise (· ≤ ·)) : Sorted keys := by
  intro i j hij hj
  rcases Nat.lt_or_ge i j with hlt | hge
  · have hi : i < keys.length := by omega
    have := (List.pairwise_iff_getElem.mp h) i j hi hj hlt
    simpa [List.getD_eq_getElem?_getD, List.getElem?_eq_getElem hi, List.getElem?_eq_getElem hj] using this
  · have : i = j := by omega
    subst this; exact Nat.le_refl _

/-- where the line following position `s` of the user's text starts (or the end of the data) -/
def nextStart (P U : Bytes) (s : Nat) : Nat :=
  if 10 ∈ U.drop s then P.length + s + (U.drop s).idxOf 10 + 1 else P.length + U.length

/-- **`line_number_and_bounds` at a position of the user's text**: the line number is one more than the number
    of line feeds before it (counted in the user's text alone), the bounds are the start of that line and of the next -/
theorem lineNumberAndBounds_user (P U name : Bytes) (s : Nat) (hs : s ≤ U.length) :
    lineNumberAndBounds (newFromData P U name) (P.length + s) =
      .ok (1 + (U.take s).count 10, P.length + (s - trail (U.take s)), nextStart P U s) := by
  -- split the user's text at s
  have hU : U = U.take s ++ U.drop s := (List.take_append_drop s U).symm
  have hAlen : (U.take s).length = s := by simp [List.length_take]; omega
  -- the table
  have htable : (newFromData P U name).newlines =
      (markNewlines 0 P ++ markNewlines P.length (U.take s)) ++ markFrom P.length (U.drop s) s (1 + (U.take s).count 10) := by
    show markNewlines 0 P ++ markNewlines P.length U = _
    conv => lhs; rw [hU]
    simp only [markNewlines]
    rw [markFrom_append, hAlen]
    simp [List.append_assoc]
  generalize hL : markNewlines 0 P ++ markNewlines P.length (U.take s) = L at htable
  generalize hTB : markFrom P.length (U.drop s) s (1 + (U.take s).count 10) = TB at htable
  have hLlast : L.getLast? = some (P.length + (s - trail (U.take s)), 1 + (U.take s).count 10) := by
    rw [← hL, List.getLast?_append, markNewlines_getLast, hAlen]; simp
  have hLpos : 0 < L.length := by rw [← hL]; simp [markNewlines]
  have hLkeys : ∀ p ∈ L, p.1 ≤ P.length + s := by
    intro p hp
    rw [← hL] at hp
    rcases List.mem_append.mp hp with h | h
    · have := markNewlines_keys 0 P p h; omega
    · have := markNewlines_keys P.length (U.take s) p h; omega
  have hTBkeys : ∀ p ∈ TB, P.length + s + 1 ≤ p.1 := by
    intro p hp
    rw [← hTB] at hp
    exact (markFrom_keys _ _ _ _ p hp).1
  -- sortedness
  have hsorted : Sorted ((L ++ TB).map (·.1)) := by
    apply sorted_of_pairwise
    rw [List.map_append, List.pairwise_append]
    refine ⟨?_, ?_, ?_⟩
    · rw [← hL, List.map_append, List.pairwise_append]
      refine ⟨markNewlines_sorted _ _, markNewlines_sorted _ _, ?_⟩
      intro a ha b hb
      obtain ⟨p, hp, rfl⟩ := List.mem_map.mp ha
      obtain ⟨q, hq, rfl⟩ := List.mem_map.mp hb
      have := markNewlines_keys 0 P p hp
      have := markNewlines_keys P.length (U.take s) q hq
      omega
    · rw [← hTB]; exact markFrom_sorted _ _ _ _
    · intro a ha b hb
      obtain ⟨p, hp, rfl⟩ := List.mem_map.mp ha
      obtain ⟨q, hq, rfl⟩ := List.mem_map.mp hb
      have := hLkeys p hp
      have := hTBkeys q hq
      omega
  have hfirst : ((L ++ TB).map (·.1)).getD 0 0 ≤ P.length + s := by
    cases hLc : L with
    | nil => rw [hLc] at hLpos; simp at hLpos
    | cons p L' =>
      have := hLkeys p (by rw [hLc]; exact List.mem_cons_self)
      simpa using this
  have hne : (L ++ TB).map (·.1) ≠ [] := by
    intro h
    have : ((L ++ TB).map (·.1)).length = 0 := by rw [h]; rfl
    rw [List.length_map, List.length_append] at this; omega
  obtain ⟨i, hlook, hi, hki, hhi⟩ := lookupIndex_spec _ (P.length + s) hsorted hne hfirst
  -- the index is the last of L
  have hLlast' : L[L.length - 1]? = some (P.length + (s - trail (U.take s)), 1 + (U.take s).count 10) := by
    rw [← hLlast, List.getLast?_eq_getElem?]
  have hidx : i = L.length - 1 := by
    apply greatest_unique _ (P.length + s) i (L.length - 1) hi hki hhi
    · simp; omega
    · have hlt : L.length - 1 < L.length := by omega
      have hmem : (P.length + (s - trail (U.take s)), 1 + (U.take s).count 10) ∈ L := List.mem_of_getElem? hLlast'
      have := hLkeys _ hmem
      simp only [List.getD_eq_getElem?_getD, List.getElem?_map, List.getElem?_append_left hlt, hLlast']
      simpa using this
    · intro j hj hjl
      have hjl' : j < L.length + TB.length := by simpa using hjl
      have hge : L.length ≤ j := by omega
      have hjTB : j - L.length < TB.length := by omega
      simp only [List.getD_eq_getElem?_getD, List.getElem?_map, List.getElem?_append_right hge,
        List.getElem?_eq_getElem hjTB]
      have := hTBkeys _ (List.getElem_mem hjTB)
      show P.length + s < _
      simp only [Option.map_some, Option.getD_some]
      omega
  subst hidx
  -- evaluate line_number_and_bounds
  unfold lineNumberAndBounds
  rw [htable, hlook]
  have hlen : (L ++ TB).length = L.length + TB.length := List.length_append
  have hlt : L.length - 1 < L.length := by omega
  have hcur : (L ++ TB)[L.length - 1]? = some (P.length + (s - trail (U.take s)), 1 + (U.take s).count 10) := by
    rw [List.getElem?_append_left hlt, hLlast']
  have hdata : (newFromData P U name).data.length = P.length + U.length := by simp [newFromData]
  by_cases hmem : 10 ∈ U.drop s
  · have hh := markFrom_head P.length (U.drop s) s (1 + (U.take s).count 10) hmem
    rw [hTB] at hh
    have hTBpos : 0 < TB.length := by
      cases TB with
      | nil => simp at hh
      | cons _ _ => simp
    have hnext : (L ++ TB)[L.length - 1 + 1]? = some (P.length + s + (U.drop s).idxOf 10 + 1, 1 + (U.take s).count 10 + 1) := by
      have : L.length - 1 + 1 = L.length := by omega
      rw [this, List.getElem?_append_right (Nat.le_refl _)]
      simpa using hh
    have hnl : ¬ (L.length - 1 = L.length + TB.length - 1) := by omega
    simp only [Rust.uSub, hlen, bind, Except.bind, pure, Except.pure]
    have h1 : 1 ≤ L.length + TB.length := by omega
    simp only [h1, if_true, hnl, if_false, hnext, hcur, nextStart, hmem]
  · have hTBnil : TB = [] := by rw [← hTB]; exact markFrom_nil_of_not_mem _ _ _ _ hmem
    subst hTBnil
    simp only [Rust.uSub, hlen, bind, Except.bind, pure, Except.pure, List.length_nil, Nat.add_zero]
    have h1 : 1 ≤ L.length := by omega
    simp only [h1, if_true, hcur, nextStart, hmem, if_false, hdata]

end Io
