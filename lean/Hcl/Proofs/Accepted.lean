import Hcl.Proofs.TableFacts
import Hcl.Proofs.ActionsSound

/-! **An accepted program is sound**: if the model of `Program::new` returns a program, that program satisfies
    `ProgramOK` (every action well-typed, every read scheduled after its write), its initial state is
    well-typed, and therefore (C07_soundness) no cycle of it can fail except by an explicit division by zero. -/

theorem resolveLoop_keys (fl : Flags) (exprs : AMap Ex) : ∀ (names : List String) (res : AMap WireValue) (errs : List Diag) (k : String),
    (resolveLoop fl exprs names res errs).1.contains k = true → res.contains k = true ∨ k ∈ exprs.keys
  | [], _, _, _, h => Or.inl h
  | name :: rest, res, errs, k, h => by
    unfold resolveLoop at h
    cases hg : exprs.get? name with
    | none => rw [hg] at h; exact Or.inl h
    | some e =>
      rw [hg] at h
      simp only at h
      cases hc : checkFixEval fl (AMap.toCtx (res.map (fun p => (p.1, p.2.width)))) res.toEnv e with
      | error ds => rw [hc] at h; exact resolveLoop_keys fl exprs rest res _ k h
      | ok v =>
        rw [hc] at h
        rcases resolveLoop_keys fl exprs rest _ _ k h with h1 | h1
        · rw [AMap.contains_insert] at h1
          simp only [Bool.or_eq_true, beq_iff_eq] at h1
          rcases h1 with h2 | h2
          · exact Or.inl h2
          · right; rw [h2]
            exact List.mem_map.mpr ⟨(name, e), AMap.mem_of_get? _ _ _ hg, rfl⟩
        · exact Or.inr h1

theorem resolveConstants_keys (fl : Flags) (o : Orders) (exprs : AMap Ex) (constants : AMap WireValue)
    (h : resolveConstants fl o exprs = .ok constants) : ∀ k v, constants.get? k = some v → k ∈ exprs.keys := by
  intro k v hk
  unfold resolveConstants at h
  split at h
  · rename_i sorted _
    simp only at h
    split at h
    · simp only [Except.ok.injEq] at h
      rw [← h, canonConsts_get?] at hk
      split at hk
      · rename_i hc; exact (AMap.contains_iff_mem_keys _ _).mp hc
      · cases hk
    · simp at h
  · simp at h
  · simp at h

/-! ### the built-in table -/

def y86W0 : AMap Width := (step1Init y86FixedFunctions).wires

theorem y86W0_out : y86FixedFunctions.all (fun f => match f.outWire with
    | some (n, w) => y86W0.get? n == some (.bits w)
    | none => true) = true := by decide +kernel

theorem y86W0_ok : y86W0.all (fun p => match p.2 with | .bits n => decide (n ≤ 128) | .unlimited => true) = true := by
  decide +kernel

theorem y86_out_in_names : y86FixedFunctions.all (fun f => match f.outWire with
    | some (n, _) => (fixedNamesOf y86FixedFunctions).contains n
    | none => true) = true := by decide +kernel

theorem step1Init_inv : S1Inv (fixedNamesOf y86FixedFunctions) y86W0 (step1Init y86FixedFunctions) where
  fixedKept := fun _ _ _ => rfl
  aKeys := by decide +kernel
  cKeys := by decide +kernel
  aWf := by
    have : (step1Init y86FixedFunctions).assignments = [] := by decide +kernel
    rw [this]; intro p hp; simp at hp
  cWf := by
    have : (step1Init y86FixedFunctions).constantsRaw = [] := by decide +kernel
    rw [this]; intro p hp; simp at hp
  wOk := by
    intro n w hw
    have hm := AMap.mem_of_get? _ _ _ hw
    have := List.all_eq_true.mp y86W0_ok (n, w) hm
    cases w with
    | unlimited => trivial
    | bits k => simpa [Width.ok] using this
  cDecl := by
    have : (step1Init y86FixedFunctions).constantsRaw = [] := by decide +kernel
    rw [this]; intro k hk; simp [AMap.keys] at hk
  cNotFixed := by
    have : (step1Init y86FixedFunctions).constantsRaw = [] := by decide +kernel
    rw [this]; intro _ k hk; simp [AMap.keys] at hk
  banks := by
    have : (step1Init y86FixedFunctions).banksRaw = [] := by decide +kernel
    rw [this]; intro b hb; simp at hb
  aAssigned := by
    have : (step1Init y86FixedFunctions).assignments = [] := by decide +kernel
    rw [this]; intro k hk; simp [AMap.keys] at hk

theorem step1Init_clean : (step1Init y86FixedFunctions).errors = [] := by decide +kernel

theorem goodAction_ok (fl : Flags) (assignments : AMap Ex) (W : AMap Width) (constants : AMap WireValue) (a : Action)
    (hwf : ∀ p ∈ assignments, wfEx p.2 = true)
    (hfix : ∀ f ∈ y86FixedFunctions, ∀ n w, f.outWire = some (n, w) → W.get? n = some (.bits w))
    (h : GoodAction fl assignments W constants y86FixedFunctions a) : ActionOK fl W.toCtx constants.toEnv a := by
  rcases h with ⟨n, e₀, w, ew, rfl, h1, h2, h3⟩ | ⟨f, hf, hok, rfl⟩
  · exact ⟨h2, e₀, ew, rfl, hwf (n, e₀) (AMap.mem_of_get? _ _ _ h1), h3⟩
  · unfold fixedFnOK at hok
    simp only [Bool.and_eq_true] at hok
    obtain ⟨_, h3⟩ := hok
    cases ha : f.action with
    | assign _ _ _ => rw [ha] at h3; simp at h3
    | readReg num out =>
      rw [ha] at h3
      simp only [beq_iff_eq] at h3
      exact hfix f hf out 64 h3
    | readMem r addr out bytes isI =>
      rw [ha] at h3
      simp only [Bool.and_eq_true, beq_iff_eq, decide_eq_true_eq] at h3
      exact ⟨hfix f hf out (bytes * 8) h3.1, h3.2⟩
    | writeReg _ _ => trivial
    | writeMem _ _ _ _ => trivial
    | setStatus _ => trivial

/-- the tables of step 1 (they do not depend on the iteration order) -/
def step1Of (stmts : List Stmt) : Step1 :=
  stmts.foldl (step1Stmt (fixedNamesOf y86FixedFunctions) (y86FixedFunctions.filterMap fun f => f.outWire.map (·.1)))
    (step1Init y86FixedFunctions)

/-- the register banks of step 3 (they depend on the order only through the constants) -/
def step3Of (fl : Flags) (cls : CharClass) (s1 : Step1) (constants : AMap WireValue) : Step3 :=
  s1.banksRaw.foldl (step3Bank fl cls s1 constants) { wireTypes := s1.wireTypes }

def knownOf (s1 : Step1) (constants : AMap WireValue) (s3 : Step3) : List String :=
  ((constPairs s1.constantsRaw.keys constants).map (·.1)).foldl setInsert ((bankOuts s3.banks).foldl setInsert [])

/-- what acceptance by `Program::new` establishes about the intermediate tables -/
theorem Program_new_decompose' (fl : Flags) (cls : CharClass) (o : Orders) (stmts : List Stmt) (p : Program)
    (hwf : StmtsWF stmts) (h : Program.new fl cls o y86FixedFunctions stmts = .ok p) :
    ∃ (s1 : Step1) (constants : AMap WireValue) (s3 : Step3) (known : List String),
      TablesHyp (fixedNamesOf y86FixedFunctions) y86W0 s1 constants s3 ∧
      (∀ n, n ∈ known ↔ n ∈ bankOuts s3.banks ∨ n ∈ (constPairs s1.constantsRaw.keys constants).map (·.1)) ∧
      assignmentsToActions fl o s1.assignments (finalWires s1 constants s3) known y86FixedFunctions s1.declared constants = .ok p.actions ∧
      p.constants = constants ∧ p.banks = s3.banks ∧
      (∀ n ∈ s1.assigned, s1.constantsRaw.contains n = false) ∧
      s1 = step1Of stmts ∧ resolveConstants fl o s1.constantsRaw = .ok constants ∧ s3 = step3Of fl cls s1 constants ∧
      known = knownOf s1 constants s3 ∧ p.defaulted = s3.defaulted ∧ p.wireTypes = s3.wireTypes := by
  unfold Program.new at h
  simp only at h
  -- step 1
  generalize hs1 : List.foldl (step1Stmt _ _) (step1Init y86FixedFunctions) stmts = s1 at h
  have hs1' : stmts.foldl (step1Stmt (fixedNamesOf y86FixedFunctions)
      (y86FixedFunctions.filterMap fun f => f.outWire.map (·.1))) (step1Init y86FixedFunctions) = s1 := hs1
  obtain ⟨s1inv, _⟩ := step1_fold_inv (fixedNamesOf y86FixedFunctions)
    (y86FixedFunctions.filterMap fun f => f.outWire.map (·.1)) y86W0 stmts (step1Init y86FixedFunctions) hwf step1Init_inv
  rw [hs1'] at s1inv
  split at h
  · simp at h
  · rename_i herrs1
    simp only [Bool.not_eq_true', List.isEmpty_eq_false_iff, ne_eq, Decidable.not_not, List.append_eq_nil_iff] at herrs1
    have hs1clean : s1.errors = [] := herrs1.1.1
    have hassignedConst : ∀ n ∈ s1.assigned, s1.constantsRaw.contains n = false := by
      intro n hn
      have h2 := herrs1.1.2
      by_cases hc : s1.constantsRaw.contains n = true
      · exfalso
        have : (⟨.AssignedConstant, [n]⟩ : Diag) ∈ s1.assigned.flatMap (fun n =>
            if s1.constantsRaw.contains n then [(⟨.AssignedConstant, [n]⟩ : Diag)] else []) :=
          List.mem_flatMap.mpr ⟨n, hn, by rw [if_pos hc]; simp⟩
        rw [h2] at this; simp at this
      · simpa using hc
    -- step 2
    split at h
    · simp at h
    · rename_i constants hconst
      have hcok := resolveConstants_constOK fl o s1.constantsRaw constants s1inv.cWf hconst
      have hckeys := resolveConstants_keys fl o s1.constantsRaw constants hconst
      -- step 3
      generalize hs3 : s1.banksRaw.foldl (step3Bank fl cls s1 constants) { wireTypes := s1.wireTypes } = s3 at h
      split at h
      · simp at h
      · rename_i herrs3
        have hs3clean : s3.errors = [] := by
          simp only [Bool.not_eq_true', List.isEmpty_eq_false_iff, ne_eq, Decidable.not_not, List.append_eq_nil_iff] at herrs3
          exact herrs3.1
        have hs3f : S3Facts s1.declared (fun n => s1.assignments.contains n = false) s3 {} := by
          rw [← hs3]
          exact step3_facts fl cls s1 constants (fun b hb r hr => (s1inv.banks b hb r hr).1) (by rw [hs3]; exact hs3clean)
        split at h
        · simp at h
        · have hyp : TablesHyp (fixedNamesOf y86FixedFunctions) y86W0 s1 constants s3 :=
            { s1inv := s1inv, s1clean := hs1clean, cok := hcok, ckeys := hckeys, s3f := hs3f
              fnShape := by
                intro n hn
                have a := List.all_eq_true.mp y86_names_not_sig n hn
                have b := List.all_eq_true.mp y86_names_not_ctl n hn
                exact ⟨by simpa using a, by simpa using b⟩ }
          have hW : insertAll (insertAll s1.wires (bankPairs s3.banks)) (constPairs s1.constantsRaw.keys constants) =
              finalWires s1 constants s3 := rfl
          rw [hW] at h
          generalize hknown : ((constPairs s1.constantsRaw.keys constants).map (·.1)).foldl setInsert
            ((bankOuts s3.banks).foldl setInsert []) = known at h
          split at h
          · simp at h
          · rename_i actions hact
            simp only [Except.ok.injEq] at h
            subst h
            refine ⟨s1, constants, s3, known, hyp, ?_, hact, rfl, rfl, hassignedConst, hs1.symm, hconst, hs3.symm, hknown.symm, rfl, rfl⟩
            intro n
            rw [← hknown, mem_foldl_setInsert, mem_foldl_setInsert]
            simp

theorem Program_new_decompose (fl : Flags) (cls : CharClass) (o : Orders) (stmts : List Stmt) (p : Program)
    (hwf : StmtsWF stmts) (h : Program.new fl cls o y86FixedFunctions stmts = .ok p) :
    ∃ (s1 : Step1) (constants : AMap WireValue) (s3 : Step3) (known : List String),
      TablesHyp (fixedNamesOf y86FixedFunctions) y86W0 s1 constants s3 ∧
      (∀ n, n ∈ known ↔ n ∈ bankOuts s3.banks ∨ n ∈ (constPairs s1.constantsRaw.keys constants).map (·.1)) ∧
      assignmentsToActions fl o s1.assignments (finalWires s1 constants s3) known y86FixedFunctions s1.declared constants = .ok p.actions ∧
      p.constants = constants ∧ p.banks = s3.banks ∧
      (∀ n ∈ s1.assigned, s1.constantsRaw.contains n = false) := by
  obtain ⟨s1, constants, s3, known, h1, h2, h3, h4, h5, h6, _⟩ := Program_new_decompose' fl cls o stmts p hwf h
  exact ⟨s1, constants, s3, known, h1, h2, h3, h4, h5, h6⟩

/-- **Accepted ⇒ sound**, with the tables named: `s1` the tables of step 1, `s3` the register banks, `known` the names
    whose values exist before the first action of a cycle (register outputs and constants), the width table
    `finalWires s1 p.constants s3`; every action is one the loop produced for an assignment or a built-in component. -/
theorem Program_new_sound' (fl : Flags) (cls : CharClass) (o : Orders) (stmts : List Stmt) (p : Program)
    (ho : OrdersOK o) (hwf : StmtsWF stmts)
    (h : Program.new fl cls o y86FixedFunctions stmts = .ok p) :
    ∃ (s1 : Step1) (s3 : Step3) (known : List String),
      s1 = step1Of stmts ∧ s3 = step3Of fl cls s1 p.constants ∧ known = knownOf s1 p.constants s3 ∧
      ((∀ f ∈ y86FixedFunctions, ∀ n w, f.outWire = some (n, w) → (finalWires s1 p.constants s3).get? n = some (.bits w)) ∧
        ConstOK p.constants ∧ (∀ b ∈ s1.banksRaw, ∀ r ∈ b.regs, wfEx r.default = true)) ∧
      ProgramOK fl (finalWires s1 p.constants s3).toCtx p.constants.toEnv p known ∧
      (∀ a ∈ p.actions, GoodAction fl s1.assignments (finalWires s1 p.constants s3) p.constants y86FixedFunctions a) ∧
      (∀ pr ∈ s1.assignments, wfEx pr.2 = true) ∧
      ∃ vals, p.initialValues = .ok vals ∧ ValsOK (finalWires s1 p.constants s3).toCtx vals ∧
        (∀ n ∈ known, vals.contains n = true) ∧ (∀ b ∈ p.banks, BankOK (finalWires s1 p.constants s3).toCtx vals b) := by
  obtain ⟨s1, constants, s3, known, hyp, hknown, hact, hpc, hpb, _, e1, _, e3, e4, _, _⟩ := Program_new_decompose' fl cls o stmts p hwf h
  subst hpc
  obtain ⟨hsched, hgood, _⟩ := assignmentsToActions_sound fl o s1.assignments (finalWires s1 p.constants s3) known
    y86FixedFunctions s1.declared p.constants p.actions ho y86Fixed_table hyp.s1inv.aKeys hact
  have hfix : ∀ f ∈ y86FixedFunctions, ∀ n w, f.outWire = some (n, w) →
      (finalWires s1 p.constants s3).get? n = some (.bits w) := by
    intro f hf n w hout
    have hn : n ∈ fixedNamesOf y86FixedFunctions := by
      have := List.all_eq_true.mp y86_out_in_names f hf
      rw [hout] at this
      simpa using this
    rw [finalWires_fixed hyp n hn]
    have := List.all_eq_true.mp y86W0_out f hf
    rw [hout] at this
    simpa using this
  refine ⟨s1, s3, known, e1, e3, e4, ⟨hfix, hyp.cok, fun b hb r hr => (hyp.s1inv.banks b hb r hr).2⟩,
    ⟨finalWires_ctxOK hyp, ?_, hsched⟩, hgood, hyp.s1inv.aWf, ?_⟩
  · intro a ha
    exact goodAction_ok fl s1.assignments _ p.constants a hyp.s1inv.aWf hfix (hgood a ha)
  · -- the initial state
    have hv0 : ValsOK (finalWires s1 p.constants s3).toCtx p.constants := by
      intro n v hv
      exact ⟨finalWires_const hyp n v hv, (hyp.cok n v hv).2⟩
    obtain ⟨vals, g1, g2, g3, g4⟩ := banks_fold_ok (finalWires s1 p.constants s3).toCtx s3.banks p.constants
      (banks_ready hyp) hv0
    refine ⟨vals, by rw [initialValues_eq, hpb]; exact g1, g2, ?_, ?_⟩
    · intro n hn
      rcases (hknown n).mp hn with h1 | h1
      · simp only [bankOuts, List.mem_flatMap, List.mem_map] at h1
        obtain ⟨b, hb, sg, hsg, rfl⟩ := h1
        exact ((g4 b hb).1 sg hsg).2
      · obtain ⟨pr, hpr, rfl⟩ := List.mem_map.mp h1
        obtain ⟨v, _, hg, _⟩ := (mem_constPairs _ _ _).mp hpr
        exact g3 _ ((AMap.contains_iff_lookup _ _).mpr ⟨v, hg⟩)
    · intro b hb
      rw [hpb] at hb
      have hbs := (hyp.s3f.banks b hb).sigs
      obtain ⟨gs, gst, gbu⟩ := g4 b hb
      exact {
        defaults := by
          intro q hq
          obtain ⟨sg, hsg, e1, e2, e3⟩ := hbs.dflt q hq
          refine ⟨?_, e3, ?_⟩
          · rw [← e1, e2]; exact (finalWires_sig hyp b hb sg hsg).2
          · rw [← e1]; exact (gs sg hsg).2
        signals := by
          intro sg hsg
          obtain ⟨w1, w2⟩ := finalWires_sig hyp b hb sg hsg
          exact ⟨by show (finalWires s1 p.constants s3).get? sg.1 = (finalWires s1 p.constants s3).get? sg.2.1; rw [w1, w2],
            (gs sg hsg).1, (gs sg hsg).2⟩
        stall := gst
        bubble := gbu }

/-- **Accepted ⇒ sound.**  `known` is the list of names whose values exist before the first action of a cycle
    (register outputs and constants). -/
theorem Program_new_sound (fl : Flags) (cls : CharClass) (o : Orders) (stmts : List Stmt) (p : Program)
    (ho : OrdersOK o) (hwf : StmtsWF stmts)
    (h : Program.new fl cls o y86FixedFunctions stmts = .ok p) :
    ∃ (W : AMap Width) (known : List String),
      ProgramOK fl W.toCtx p.constants.toEnv p known ∧
      ∃ vals, p.initialValues = .ok vals ∧ ValsOK W.toCtx vals ∧
        (∀ n ∈ known, vals.contains n = true) ∧ (∀ b ∈ p.banks, BankOK W.toCtx vals b) := by
  obtain ⟨s1, s3, known, _, _, _, _, hp, _, _, hv⟩ := Program_new_sound' fl cls o stmts p ho hwf h
  exact ⟨_, known, hp, hv⟩
