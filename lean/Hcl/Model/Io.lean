import Hcl.Model.Yo
import Hcl.Util.Format
open Rust

/-! Model of `FileContents` (io.rs): the (offset, line number) table over preamble and user text, the
    standard library's binary search as compiled (`slice::binary_search_by`), `line_number_and_bounds`,
    `filename` and `show_region`.  Texts are lists of UTF-8 bytes; every slice, subtraction and index that
    can panic in Rust is a `Fail.panic` here. -/

namespace Io

/-- the `for (i, _) in data.match_indices('\n')` loop of `mark_newlines` -/
def markFrom (offset : Nat) : Bytes → Nat → Nat → List (Nat × Nat)
  | [], _, _ => []
  | b :: rest, i, idx =>
    if b = 10 then (offset + i + 1, idx + 1) :: markFrom offset rest (i + 1) (idx + 1)
    else markFrom offset rest (i + 1) idx

def markNewlines (offset : Nat) (data : Bytes) : List (Nat × Nat) := (offset, 1) :: markFrom offset data 0 1

structure FileContents where
  data : Bytes
  filenames : List (Nat × Bytes)
  newlines : List (Nat × Nat)

def builtinName : Bytes := Yo.str "<builtin>"

def newFromData (preamble user filename : Bytes) : FileContents :=
  { data := preamble ++ user
    filenames := [(0, builtinName), (preamble.length, filename)]
    newlines := markNewlines 0 preamble ++ markNewlines preamble.length user }

/-- the `while size > 1` loop of `slice::binary_search_by` (`base` moves to `mid` unless the element there is greater) -/
def bsLoop (keys : List Nat) (target : Nat) : Nat → Nat → Nat → Nat
  | 0, _, base => base
  | fuel+1, size, base =>
    if size > 1 then
      let half := size / 2
      let mid := base + half
      bsLoop keys target fuel (size - half) (if keys.getD mid 0 > target then base else mid)
    else base

inductive Found where
  | ok (i : Nat)
  | err (i : Nat)
  deriving Repr, DecidableEq

def binarySearch (keys : List Nat) (target : Nat) : Found :=
  if keys.length = 0 then .err 0 else
  let base := bsLoop keys target keys.length keys.length 0
  let k := keys.getD base 0
  if k = target then .ok base else .err (base + if k < target then 1 else 0)

/-- `match … { Ok(x) => x, Err(x) => x - 1 }` -/
def lookupIndex (keys : List Nat) (target : Nat) : R Nat :=
  match binarySearch keys target with
  | .ok x => pure x
  | .err x => uSub x 1

def filename (fc : FileContents) (index : Nat) : R Bytes := do
  let i ← lookupIndex (fc.filenames.map (·.1)) index
  match fc.filenames[i]? with
  | some p => pure p.2
  | none => throw (.panic "index out of bounds")

def lineNumberAndBounds (fc : FileContents) (index : Nat) : R (Nat × Nat × Nat) := do
  let i ← lookupIndex (fc.newlines.map (·.1)) index
  let last ← uSub fc.newlines.length 1
  let next ← if i = last then pure fc.data.length else
    match fc.newlines[i + 1]? with
    | some p => pure p.1
    | none => throw (.panic "index out of bounds")
  match fc.newlines[i]? with
  | some cur => pure (cur.2, cur.1, next)
  | none => throw (.panic "index out of bounds")

/-- `str::split_inclusive('\n')` -/
def splitInclusive : Bytes → Bytes → List Bytes
  | [], [] => []
  | [], cur => [cur.reverse]
  | b :: rest, cur => if b = 10 then (b :: cur).reverse :: splitInclusive rest [] else splitInclusive rest (b :: cur)

def stripSuffixByte (b : Nat) (l : Bytes) : Option Bytes :=
  if l.getLast? = some b then some l.dropLast else none

/-- one item of `str::lines()`: strip "\n", then (only if there was one) strip "\r" -/
def stripLine (l : Bytes) : Bytes :=
  match stripSuffixByte 10 l with
  | none => l
  | some l1 => match stripSuffixByte 13 l1 with
    | none => l1
    | some l2 => l2

def lines (s : Bytes) : List Bytes := (splitInclusive s []).map stripLine

def decBytes (n : Nat) : Bytes := (decDigits 45 n).map Char.toNat

/-- `format!("{:>4}", n)` -/
def pad4 (n : Nat) : Bytes := List.replicate (4 - (decBytes n).length) 32 ++ decBytes n

/-- the body of the `for line in segment.lines()` loop -/
def regionRows (beginLineNo endLineNo beginOff endOff : Nat) : List Bytes → Nat → Bytes
  | [], _ => []
  | line :: rest, number =>
    let thisStart := if number = beginLineNo then beginOff else 0
    let thisEnd := if number = endLineNo then endOff else line.length
    pad4 number ++ Yo.str " | " ++ line ++ [10] ++
    Yo.str "     | " ++ List.replicate thisStart 32 ++ List.replicate (thisEnd - thisStart) 94 ++ [10] ++
    regionRows beginLineNo endLineNo beginOff endOff rest (number + 1)

def showRegion (fc : FileContents) (start end_ : Nat) : R Bytes := do
  let end_ := min end_ fc.data.length
  let start := min start end_
  let name ← filename fc start
  let (beginLineNo, beginLoc, _) ← lineNumberAndBounds fc start
  let (endLineNo, beginLastLine, endLoc) ← lineNumberAndBounds fc end_
  let endLoc := min endLoc fc.data.length
  let beginOff ← uSub start beginLoc
  let endOff ← uSub end_ beginLastLine
  let segment ← Yo.index fc.data beginLoc endLoc
  pure (Yo.str "     -> " ++ name ++ [58] ++ decBytes beginLineNo ++ [10] ++ Yo.str "     |\n" ++
        regionRows beginLineNo endLineNo beginOff endOff (lines segment) beginLineNo)

/-- `range` (not used by any diagnostic).  As in the code, `line()` is component `.1` of
    `line_number_and_bounds`, i.e. the byte offset at which the line starts, not its number. -/
def range (fc : FileContents) (start end_ : Nat) : R Bytes := do
  let name ← filename fc start
  let (_, a, _) ← lineNumberAndBounds fc start
  let (_, b, _) ← lineNumberAndBounds fc end_
  pure (if a = b then name ++ [58] ++ decBytes a else name ++ [58] ++ decBytes a ++ [45] ++ decBytes b)

end Io
