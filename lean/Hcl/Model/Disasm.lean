import Hcl.Util.Format

/-! Model of `y86_disasm.rs`: `name_register`, `name_cc`, `disassemble`, and of the trace line
    printed by the instruction-memory action of `step_with_output`. -/

def y86Registers : List String :=
  ["%rax", "%rcx", "%rdx", "%rbx", "%rsp", "%rbp", "%rsi", "%rdi",
   "%r8", "%r9", "%r10", "%r11", "%r12", "%r13", "%r14", "NONE"]

def nameRegister (i : Nat) : String := y86Registers.getD i "unknown"

def y86Ifuns : List String := ["(always)", "le", "l", "e", "ne", "ge", "g"]

def nameCc (ifun : Nat) : String := y86Ifuns.getD ifun "(unknown)"

/-- the `match icode` of `disassemble`, on the extracted fields -/
def disasmFields (icode ifun ra rb disp dest : Nat) : Nat × String :=
  match icode with
  | 0 => (1, "halt")
  | 1 => (1, "nop")
  | 2 => (2, if ifun = 0 then "rrmovq " ++ nameRegister ra ++ ", " ++ nameRegister rb
             else "cmov" ++ nameCc ifun ++ " " ++ nameRegister ra ++ ", " ++ nameRegister rb)
  | 3 => (10, "irmovq $0x" ++ toHex disp ++ ", " ++ nameRegister rb)
  | 4 => (10, "rmmovq " ++ nameRegister ra ++ ", 0x" ++ toHex disp ++ "(" ++ nameRegister rb ++ ")")
  | 5 => (10, "mrmovq 0x" ++ toHex disp ++ "(" ++ nameRegister rb ++ "), " ++ nameRegister ra)
  | 6 => (2, (match ifun with
              | 0 => "addq" | 1 => "subq" | 2 => "andq" | 3 => "xorq" | _ => "<unknown OPq>")
             ++ " " ++ nameRegister ra ++ ", " ++ nameRegister rb)
  | 7 => (9, if ifun = 0 then "jmp 0x" ++ toHex dest else "j" ++ nameCc ifun ++ " 0x" ++ toHex dest)
  | 8 => (9, "call 0x" ++ toHex dest)
  | 9 => (1, "ret")
  | 10 => (2, "pushq " ++ nameRegister ra)
  | 11 => (2, "popq " ++ nameRegister ra)
  | _ => (1, "<invalid>")

/-- `disassemble(instruction: u128)`: number of bytes used and the text -/
def disassemble (instruction : Nat) : Nat × String :=
  disasmFields ((instruction / 16) % 16) (instruction % 16) ((instruction / 4096) % 16) ((instruction / 256) % 16)
    ((instruction / 65536) % 2 ^ 64) ((instruction / 256) % 2 ^ 64)

/-- the `pc = 0x..; loaded [.. : ..]` line; `value` is the 10 bytes read at `pc` (little-endian) -/
def traceLine (pc value : Nat) : String :=
  let (n, text) := disassemble value
  "pc = 0x" ++ toHex pc ++ "; loaded [" ++
    String.join ((List.range n).map fun i => toHexPad 2 ((value / 256 ^ i) % 256) ++ " ") ++ ": " ++ text ++ "]"
