import Hcl.Proofs.AcceptedValid
import Hcl.Proofs.Settle
import Hcl.Spec.Machine
open Rust

/-!
# C04 — the Y86 register file reads old values, writes at cycle end, M port wins

Reads: `Action.defn` of a read port uses the register file of the *start* of the cycle
(`C01_settlement` is stated with `s.regs`); `C04_read` spells it out.  Writes: the two write ports are
the last actions of the schedule, E before M (`y86FixedFunctions` order, checked on every produced
schedule); `C04_write_E_then_M` gives the resulting register file.
-/

/-- **read port**: the value delivered is the start-of-cycle content of the selected register -/
theorem C04_read (fl : Flags) (regs : List Nat) (mem : Mem) (σ : Env) (src out : String) (sv : WireValue)
    (hs : σ src = some sv) (hlen : regs.length = 16) (hsv : sv.bits < 16) :
    (Action.readReg src out).defn fl regs mem σ = .ok ⟨regs.getD sv.bits 0, .bits 64⟩ := by
  have h1 : sv.bits % U64 = sv.bits := Nat.mod_eq_of_lt (by unfold U64; omega)
  simp [Action.defn, lookupOrPanic, hs, bind, Except.bind, pure, Except.pure, h1, hlen, hsv]

/-- **one write port** -/
theorem C04_write_port (fl : Flags) (s : State) (dst inp : String) (dv iv : WireValue)
    (hd : s.values.toEnv dst = some dv) (hi : s.values.toEnv inp = some iv) (hlen : s.regs.length = 16) (hdv : dv.bits < 16) :
    execAction fl s (.writeReg dst inp) = .ok { s with regs := Spec.regWrite s.regs dv.bits iv.bits } := by
  have hd' : getOrPanic s.values dst = .ok dv := by simp [getOrPanic, AMap.get?_eq_toEnv, hd, pure, Except.pure]
  have hi' : getOrPanic s.values inp = .ok iv := by simp [getOrPanic, AMap.get?_eq_toEnv, hi, pure, Except.pure]
  have h1 : dv.bits % U64 = dv.bits := Nat.mod_eq_of_lt (by unfold U64; omega)
  simp only [execAction, hd', hi', bind, Except.bind, pure, Except.pure, h1, hlen, Spec.regWrite]
  by_cases h15 : dv.bits < 15
  · have : dv.bits < 16 ∧ dv.bits ≠ 15 := ⟨by omega, by omega⟩
    simp [this, h15, listSet, U64]
  · have : ¬ (dv.bits < 16 ∧ dv.bits ≠ 15) := by omega
    simp [this, h15]

theorem regWrite_length (regs : List Nat) (d v : Nat) : (Spec.regWrite regs d v).length = regs.length := by
  unfold Spec.regWrite; split <;> simp

/-- **both write ports, E then M**: the M-port value wins when both select the same register; register 15
    is never written; no other register changes -/
theorem C04_write_E_then_M (fl : Flags) (s : State) (dE iE dM iM : WireValue)
    (h1 : s.values.toEnv "reg_dstE" = some dE) (h2 : s.values.toEnv "reg_inputE" = some iE)
    (h3 : s.values.toEnv "reg_dstM" = some dM) (h4 : s.values.toEnv "reg_inputM" = some iM)
    (hlen : s.regs.length = 16) (hE : dE.bits < 16) (hM : dM.bits < 16) :
    execActions fl [.writeReg "reg_dstE" "reg_inputE", .writeReg "reg_dstM" "reg_inputM"] s =
      .ok { s with regs := Spec.regWrite (Spec.regWrite s.regs dE.bits iE.bits) dM.bits iM.bits } := by
  have e1 := C04_write_port fl s _ _ dE iE h1 h2 hlen hE
  have e2 := C04_write_port fl { s with regs := Spec.regWrite s.regs dE.bits iE.bits } "reg_dstM" "reg_inputM" dM iM h3 h4
    (by simp [regWrite_length, hlen]) hM
  simp only [execActions, bind, Except.bind, e1, e2, pure, Except.pure]

theorem regWrite_get_other (regs : List Nat) (d v k : Nat) (h : k ≠ d) : (Spec.regWrite regs d v).getD k 0 = regs.getD k 0 := by
  unfold Spec.regWrite
  split
  · simp [List.getD_eq_getElem?_getD, List.getElem?_set, Ne.symm h]
  · rfl

/-- register 15 is never written -/
theorem C04_reg15 (regs : List Nat) (d v : Nat) : (Spec.regWrite regs d v).getD 15 0 = regs.getD 15 0 := by
  unfold Spec.regWrite
  split
  · rename_i h
    have : d ≠ 15 := by omega
    simp [List.getD_eq_getElem?_getD, List.getElem?_set, this]
  · rfl

/-- the selected register takes the written value (below 15) -/
theorem regWrite_get_self (regs : List Nat) (d v : Nat) (hd : d < 15) (hlen : regs.length = 16) :
    (Spec.regWrite regs d v).getD d 0 = v % 2 ^ 64 := by
  unfold Spec.regWrite
  have : d < regs.length := by omega
  simp [hd, List.getD_eq_getElem?_getD, List.getElem?_set, this]

/-- M wins on a collision -/
theorem C04_M_wins (regs : List Nat) (d vE vM : Nat) (hd : d < 15) (hlen : regs.length = 16) :
    (Spec.regWrite (Spec.regWrite regs d vE) d vM).getD d 0 = vM % 2 ^ 64 :=
  regWrite_get_self _ d vM hd (by simp [regWrite_length, hlen])

/-- every action leaves register 15 alone: it reads 0 forever once it is 0 -/
theorem C04_reg15_invariant (fl : Flags) (s t : State) (a : Action) (h : execAction fl s a = .ok t) :
    t.regs.getD 15 0 = s.regs.getD 15 0 := by
  by_cases hp : a.isPure = true
  · rw [execAction_pure fl s a hp] at h
    obtain ⟨v, _, h⟩ := bind_ok h
    simp only [pure, Except.pure] at h; cases h; rfl
  · cases a with
    | assign n e w => simp [Action.isPure] at hp
    | readReg number out => simp [Action.isPure] at hp
    | readMem isRead address out bytes instr => simp [Action.isPure] at hp
    | writeReg number inp =>
      simp only [execAction] at h
      obtain ⟨n, _, h⟩ := bind_ok h
      split at h
      · rename_i hc
        obtain ⟨i, _, h⟩ := bind_ok h
        simp only [pure, Except.pure] at h; cases h
        have : n.bits % U64 ≠ 15 := hc.2
        simp [listSet, List.getD_eq_getElem?_getD, List.getElem?_set, this]
      · simp only [pure, Except.pure] at h; cases h; rfl
    | writeMem isWrite address inp bytes =>
      have key : ∀ (b : Bool), (if b = true then (do
            let a ← getOrPanic s.values address
            let i ← getOrPanic s.values inp
            pure { s with mem := s.mem.write (a.bits % U64) i.bits bytes } : E State)
          else pure s) = .ok t → t.regs = s.regs := by
        intro b hb
        cases b with
        | false => simp [pure, Except.pure] at hb; rw [← hb]
        | true =>
          simp only [↓reduceIte] at hb
          obtain ⟨a', _, hb⟩ := bind_ok hb
          obtain ⟨i, _, hb⟩ := bind_ok hb
          simp only [pure, Except.pure] at hb; cases hb; rfl
      cases isWrite with
      | none =>
        simp only [execAction] at h
        rw [key true h]
      | some wr =>
        simp only [execAction] at h
        obtain ⟨v, _, h⟩ := bind_ok h
        rw [key _ h]
    | setStatus w =>
      simp only [execAction] at h
      obtain ⟨v, _, h⟩ := bind_ok h
      simp only [pure, Except.pure] at h; cases h; rfl

/-- all registers start at 0 -/
example (p : Program) (m : Mem) (s : State) (h : State.init p m = .ok s) : s.regs = List.replicate 16 0 := by
  simp only [State.init] at h
  obtain ⟨v, _, h⟩ := bind_ok h
  simp only [pure, Except.pure] at h; cases h; rfl

/-! ### for every accepted program -/

/-- the state-changing actions of the table, in table order (E before M) -/
theorem y86_final_actions : (y86FixedFunctions.map (·.action)).filter (fun a => !a.isPure) =
    [.setStatus "Stat", .writeMem (some "mem_writebit") "mem_addr" "mem_input" 8,
     .writeReg "reg_dstE" "reg_inputE", .writeReg "reg_dstM" "reg_inputM"] := by
  simp [y86FixedFunctions, Action.isPure]

/-- **C04 for every accepted program**: whatever the iteration order, every value-writing action (both register
    read ports among them) comes before every state-changing one, and the state-changing actions are a
    sub-sequence of `Stat`, memory write, register write E, register write M — in this order, so that a write
    through port M is applied after, and wins over, a write through port E. -/
theorem C04_accepted_order (fl : Flags) (cls : CharClass) (o : Orders) (stmts : List Stmt) (p : Program)
    (ho : OrdersOK o) (hwf : StmtsWF stmts)
    (h : Program.new fl cls o y86FixedFunctions stmts = .ok p) :
    ∃ pre fin, p.actions = pre ++ fin ∧ (∀ a ∈ pre, a.isPure = true) ∧
      fin.Sublist [.setStatus "Stat", .writeMem (some "mem_writebit") "mem_addr" "mem_input" 8,
        .writeReg "reg_dstE" "reg_inputE", .writeReg "reg_dstM" "reg_inputM"] := by
  obtain ⟨pre, fin, _, hsplit, hv, hfin, _, _, hsub⟩ := Program_new_valid fl cls o stmts p ho hwf h
  refine ⟨pre, fin, hsplit, validFrom_pure pre [] hv, ?_⟩
  rw [← y86_final_actions]
  have hfilter : fin = fin.filter (fun a => !a.isPure) := by
    symm
    apply List.filter_eq_self.mpr
    intro a ha
    simp [hfin a ha]
  rw [hfilter]
  exact hsub.filter _
