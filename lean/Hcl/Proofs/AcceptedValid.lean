import Hcl.Proofs.Accepted
import Hcl.Proofs.ActionsValid

/-! An accepted program's action list is `pre ++ fin` with `pre` a valid schedule in the sense of C01. -/

theorem Program_new_valid (fl : Flags) (cls : CharClass) (o : Orders) (stmts : List Stmt) (p : Program)
    (ho : OrdersOK o) (hwf : StmtsWF stmts)
    (h : Program.new fl cls o y86FixedFunctions stmts = .ok p) :
    ∃ (pre fin : List Action) (known : List String), p.actions = pre ++ fin ∧ ValidFrom [] pre ∧
      (∀ a ∈ fin, a.isPure = false) ∧ Sched known pre ∧ (∀ n ∈ known, n ∉ pre.map Action.out) ∧
      fin.Sublist (y86FixedFunctions.map (·.action)) := by
  obtain ⟨s1, constants, s3, known, hyp, hknown, hact, _, _, hac⟩ := Program_new_decompose fl cls o stmts p hwf h
  have hpure : ∀ f ∈ y86FixedFunctions, f.outWire.isSome = f.action.isPure := by
    intro f hf
    have := List.all_eq_true.mp y86Fixed_pure f hf
    simpa using this
  have hdisj : ∀ k ∈ s1.assignments.keys, k ∉ known := by
    intro k hk hkn
    rcases (hknown k).mp hkn with h1 | h1
    · simp only [bankOuts, List.mem_flatMap, List.mem_map] at h1
      obtain ⟨b, hb, sg, hsg, rfl⟩ := h1
      have := hyp.s3f.outsNA b hb sg hsg
      rw [(AMap.contains_iff_mem_keys _ _).mpr hk] at this
      cases this
    · obtain ⟨pr, hpr, rfl⟩ := List.mem_map.mp h1
      obtain ⟨v, hkeys, _, _⟩ := (mem_constPairs _ _ _).mp hpr
      have := hac pr.1 (hyp.s1inv.aAssigned _ hk)
      rw [(AMap.contains_iff_mem_keys _ _).mpr hkeys] at this
      cases this
  obtain ⟨pre, fin, h1, h2, h3, h4, h5, _, h7⟩ := assignmentsToActions_valid fl o s1.assignments (finalWires s1 constants s3) known
    y86FixedFunctions s1.declared constants p.actions ho y86Fixed_table hyp.s1inv.aKeys hpure hdisj hact
  exact ⟨pre, fin, known, h1, h2, h3, h4, h5, h7⟩

theorem sched_reads (avail : List String) : ∀ (l : List Action), Sched avail l →
    ∀ a ∈ l, ∀ n ∈ a.reads, n ∈ avail ∨ n ∈ writesOf l
  | [], _, a, ha, _, _ => by simp at ha
  | b :: rest, hs, a, ha, n, hn => by
    rcases List.mem_cons.mp ha with h | h
    · subst h; exact Or.inl (hs.1 n hn)
    · rcases sched_reads (avail ++ b.writes) rest hs.2 a h n hn with h1 | h1
      · rcases List.mem_append.mp h1 with h2 | h2
        · exact Or.inl h2
        · right; simp [writesOf]; exact Or.inl h2
      · right
        simp only [writesOf, List.flatMap_cons, List.mem_append]
        exact Or.inr h1

/-- everything acceptance establishes, with one choice of the width table and the known values -/
theorem Program_new_all (fl : Flags) (cls : CharClass) (o : Orders) (stmts : List Stmt) (p : Program)
    (ho : OrdersOK o) (hwf : StmtsWF stmts)
    (h : Program.new fl cls o y86FixedFunctions stmts = .ok p) :
    ∃ (W : AMap Width) (known : List String) (pre fin : List Action),
      ProgramOK fl W.toCtx p.constants.toEnv p known ∧
      (∃ vals, p.initialValues = .ok vals ∧ ValsOK W.toCtx vals ∧
        (∀ n ∈ known, vals.contains n = true) ∧ (∀ b ∈ p.banks, BankOK W.toCtx vals b)) ∧
      p.actions = pre ++ fin ∧ ValidFrom [] pre ∧ (∀ a ∈ fin, a.isPure = false) := by
  obtain ⟨s1, constants, s3, known, hyp, hknown, hact, hpc, hpb, hac⟩ := Program_new_decompose fl cls o stmts p hwf h
  -- soundness part (as in Program_new_sound)
  obtain ⟨hsched, hgood, _⟩ := assignmentsToActions_sound fl o s1.assignments (finalWires s1 constants s3) known
    y86FixedFunctions s1.declared constants p.actions ho y86Fixed_table hyp.s1inv.aKeys hact
  have hfix : ∀ f ∈ y86FixedFunctions, ∀ n w, f.outWire = some (n, w) →
      (finalWires s1 constants s3).get? n = some (.bits w) := by
    intro f hf n w hout
    have hn : n ∈ fixedNamesOf y86FixedFunctions := by
      have := List.all_eq_true.mp y86_out_in_names f hf
      rw [hout] at this
      simpa using this
    rw [finalWires_fixed hyp n hn]
    have := List.all_eq_true.mp y86W0_out f hf
    rw [hout] at this
    simpa using this
  have hpure : ∀ f ∈ y86FixedFunctions, f.outWire.isSome = f.action.isPure := by
    intro f hf
    have := List.all_eq_true.mp y86Fixed_pure f hf
    simpa using this
  have hdisj : ∀ k ∈ s1.assignments.keys, k ∉ known := by
    intro k hk hkn
    rcases (hknown k).mp hkn with h1 | h1
    · simp only [bankOuts, List.mem_flatMap, List.mem_map] at h1
      obtain ⟨b, hb, sg, hsg, rfl⟩ := h1
      have := hyp.s3f.outsNA b hb sg hsg
      rw [(AMap.contains_iff_mem_keys _ _).mpr hk] at this
      cases this
    · obtain ⟨pr, hpr, rfl⟩ := List.mem_map.mp h1
      obtain ⟨v, hkeys, _, _⟩ := (mem_constPairs _ _ _).mp hpr
      have := hac pr.1 (hyp.s1inv.aAssigned _ hk)
      rw [(AMap.contains_iff_mem_keys _ _).mpr hkeys] at this
      cases this
  obtain ⟨pre, fin, h1, h2, h3, _, _, _, _⟩ := assignmentsToActions_valid fl o s1.assignments (finalWires s1 constants s3) known
    y86FixedFunctions s1.declared constants p.actions ho y86Fixed_table hyp.s1inv.aKeys hpure hdisj hact
  refine ⟨finalWires s1 constants s3, known, pre, fin, ⟨finalWires_ctxOK hyp, ?_, hsched⟩, ?_, h1, h2, h3⟩
  · intro a ha
    rw [hpc]
    exact goodAction_ok fl s1.assignments _ constants a hyp.s1inv.aWf hfix (hgood a ha)
  · have hv0 : ValsOK (finalWires s1 constants s3).toCtx constants := by
      intro n v hv
      exact ⟨finalWires_const hyp n v hv, (hyp.cok n v hv).2⟩
    obtain ⟨vals, g1, g2, g3, g4⟩ := banks_fold_ok (finalWires s1 constants s3).toCtx s3.banks constants
      (banks_ready hyp) hv0
    refine ⟨vals, by rw [initialValues_eq, hpc, hpb]; exact g1, g2, ?_, ?_⟩
    · intro n hn
      rcases (hknown n).mp hn with h1 | h1
      · simp only [bankOuts, List.mem_flatMap, List.mem_map] at h1
        obtain ⟨b, hb, sg, hsg, rfl⟩ := h1
        exact ((g4 b hb).1 sg hsg).2
      · obtain ⟨pr, hpr, rfl⟩ := List.mem_map.mp h1
        obtain ⟨v, _, hg, _⟩ := (mem_constPairs _ _ _).mp hpr
        exact g3 _ ((AMap.contains_iff_lookup _ _).mpr ⟨v, hg⟩)
    · intro b hb
      rw [hpb] at hb
      have hbs := (hyp.s3f.banks b hb).sigs
      obtain ⟨gs, gst, gbu⟩ := g4 b hb
      exact {
        defaults := by
          intro q hq
          obtain ⟨sg, hsg, e1, e2, e3⟩ := hbs.dflt q hq
          refine ⟨?_, e3, ?_⟩
          · rw [← e1, e2]; exact (finalWires_sig hyp b hb sg hsg).2
          · rw [← e1]; exact (gs sg hsg).2
        signals := by
          intro sg hsg
          obtain ⟨w1, w2⟩ := finalWires_sig hyp b hb sg hsg
          exact ⟨by show (finalWires s1 constants s3).get? sg.1 = (finalWires s1 constants s3).get? sg.2.1; rw [w1, w2],
            (gs sg hsg).1, (gs sg hsg).2⟩
        stall := gst
        bubble := gbu }
