import Hcl.Proofs.Step1Tables
import Hcl.Proofs.Accepted
open Rust

/-! The stage-1 diagnostics of `Program.new`, characterised exactly: the pass over the statements records no error
    iff no name is declared twice or shadows a built-in name and no name is assigned twice or is the output of a
    built-in component; `constRefErrors` is empty iff every constant reads constants only. -/

/-! ### list helpers -/

theorem flatMap_nil_fun {β γ : Type} (l : List β) : l.flatMap (fun _ => ([] : List γ)) = [] := by
  induction l with
  | nil => rfl
  | cons x rest ih => rw [List.flatMap_cons, ih]; rfl

theorem flatMap_single_fun {β γ : Type} (g : β → γ) (l : List β) : l.flatMap (fun x => [g x]) = l.map g := by
  induction l with
  | nil => rfl
  | cons x rest ih => rw [List.flatMap_cons, ih]; rfl

/-- the names `l` are pairwise distinct, none of them is in `S` (already seen) or in `F` (forbidden) -/
def Good (S F l : List String) : Prop := l.Nodup ∧ ∀ n ∈ l, n ∉ S ∧ n ∉ F

theorem Good_nil (S F : List String) : Good S F [] := ⟨List.nodup_nil, fun _ h => by cases h⟩

theorem Good_single (S F : List String) (n : String) : Good S F [n] ↔ n ∉ S ∧ n ∉ F := by
  unfold Good
  constructor
  · intro h; exact h.2 n List.mem_cons_self
  · intro h
    refine ⟨by simp, ?_⟩
    intro m hm
    have : m = n := by simpa using hm
    rw [this]; exact h

theorem Good_append (S S' F l1 l2 : List String) (h : ∀ n, n ∈ S' ↔ n ∈ S ∨ n ∈ l1) :
    Good S F l1 ∧ Good S' F l2 ↔ Good S F (l1 ++ l2) := by
  unfold Good
  rw [List.nodup_append]
  constructor
  · rintro ⟨⟨h2, h3⟩, h4, h5⟩
    refine ⟨⟨h2, h4, ?_⟩, ?_⟩
    · intro a ha b hb hab
      subst hab
      exact (h5 a hb).1 ((h a).mpr (Or.inr ha))
    · intro n hn
      rcases List.mem_append.mp hn with hn | hn
      · exact h3 n hn
      · exact ⟨fun hm => (h5 n hn).1 ((h n).mpr (Or.inl hm)), (h5 n hn).2⟩
  · rintro ⟨⟨h2, h4, h6⟩, h7⟩
    refine ⟨⟨h2, fun n hn => h7 n (List.mem_append.mpr (Or.inl hn))⟩, h4, ?_⟩
    intro n hn
    refine ⟨?_, (h7 n (List.mem_append.mpr (Or.inr hn))).2⟩
    intro hm
    rcases (h n).mp hm with hm | hm
    · exact (h7 n (List.mem_append.mpr (Or.inr hn))).1 hm
    · exact h6 n hm n hn rfl

/-! ### generic folds over `Step1` -/

section generic
variable {β : Type}

/-- a table that every step extends by the keys of its argument -/
theorem fold_seen (seen : Step1 → List String) (f : Step1 → β → Step1) (ks : β → List String)
    (H2 : ∀ s x n, n ∈ seen (f s x) ↔ n ∈ seen s ∨ n ∈ ks x) :
    ∀ (l : List β) (s : Step1) (n : String), n ∈ seen (l.foldl f s) ↔ n ∈ seen s ∨ n ∈ l.flatMap ks
  | [], s, n => by simp
  | x :: rest, s, n => by
    rw [List.foldl_cons, fold_seen seen f ks H2 rest, H2, List.flatMap_cons, List.mem_append, or_assoc]

/-- a projection no step changes -/
theorem fold_proj_eq {γ : Type} (p : Step1 → γ) (f : Step1 → β → Step1) (hf : ∀ s x, p (f s x) = p s) :
    ∀ (l : List β) (s : Step1), p (l.foldl f s) = p s
  | [], _ => rfl
  | x :: rest, s => by rw [List.foldl_cons, fold_proj_eq p f hf rest, hf]

/-- the error list of a fold whose steps check their declared names and their assigned names -/
theorem fold_errors (FN FO : List String) (f : Step1 → β → Step1) (kd kt : β → List String)
    (H1 : ∀ s x, (f s x).errors = [] ↔ s.errors = [] ∧ Good s.declared FN (kd x) ∧ Good s.assigned FO (kt x))
    (Hd : ∀ s x n, n ∈ (f s x).declared ↔ n ∈ s.declared ∨ n ∈ kd x)
    (Ht : ∀ s x n, n ∈ (f s x).assigned ↔ n ∈ s.assigned ∨ n ∈ kt x) :
    ∀ (l : List β) (s : Step1), (l.foldl f s).errors = [] ↔
      s.errors = [] ∧ Good s.declared FN (l.flatMap kd) ∧ Good s.assigned FO (l.flatMap kt)
  | [], s => by
    simp only [List.foldl_nil, List.flatMap_nil]
    exact ⟨fun h => ⟨h, Good_nil _ _, Good_nil _ _⟩, fun h => h.1⟩
  | x :: rest, s => by
    rw [List.foldl_cons, fold_errors FN FO f kd kt H1 Hd Ht rest, H1, List.flatMap_cons, List.flatMap_cons,
      ← Good_append s.declared (f s x).declared FN (kd x) _ (Hd s x),
      ← Good_append s.assigned (f s x).assigned FO (kt x) _ (Ht s x)]
    constructor
    · rintro ⟨⟨a, b, c⟩, d, e⟩; exact ⟨a, ⟨b, d⟩, c, e⟩
    · rintro ⟨a, ⟨b, d⟩, c, e⟩; exact ⟨⟨a, b, c⟩, d, e⟩
end generic

/-! ### the keys of a statement -/

def declKeys : Stmt → List String
  | .wires ds => ds.map (·.name)
  | .consts ds => ds.map (·.name)
  | _ => []

def tgtKeys : Stmt → List String
  | .assigns as => as.flatMap (·.names)
  | _ => []

def constKeys : Stmt → List String
  | .consts ds => ds.map (·.name)
  | _ => []

def wireKeys : Stmt → List String
  | .wires ds => ds.map (·.name)
  | _ => []

theorem allDeclared_eq (stmts : List Stmt) : allDeclared stmts = stmts.flatMap declKeys := by
  unfold allDeclared
  congr 1

theorem allTargets_eq (stmts : List Stmt) : allTargets stmts = stmts.flatMap tgtKeys := by
  unfold allTargets
  congr 1

/-! ### single steps -/

section
variable (FN FO : List String)

theorem checkDoubleDeclare_errors_iff (s : Step1) (n : String) :
    (checkDoubleDeclare FN s n).errors = [] ↔ s.errors = [] ∧ n ∉ s.declared ∧ n ∉ FN := by
  unfold checkDoubleDeclare
  simp only [List.append_eq_nil_iff]
  by_cases h1 : n ∈ s.declared
  · simp [h1]
  · by_cases h2 : n ∈ FN <;> simp [h1, h2]

theorem step1Name_errors_iff (v : Ex) (s : Step1) (n : String) :
    (step1Name FO v s n).errors = [] ↔ s.errors = [] ∧ n ∉ s.assigned ∧ n ∉ FO := by
  unfold step1Name
  simp only [List.append_eq_nil_iff]
  by_cases h1 : n ∈ s.assigned
  · simp [h1]
  · by_cases h2 : n ∈ FO <;> simp [h1, h2]

/-! declared names -/

theorem step1Const_declared (s : Step1) (d : ConstDecl) (n : String) :
    n ∈ (step1Const FN s d).declared ↔ n ∈ s.declared ∨ n ∈ [d.name] := by
  show n ∈ (checkDoubleDeclare FN s d.name).declared ↔ _
  rw [checkDoubleDeclare_declared]; simp

theorem step1Wire_declared (s : Step1) (d : WireDecl) (n : String) :
    n ∈ (step1Wire FN s d).declared ↔ n ∈ s.declared ∨ n ∈ [d.name] := by
  show n ∈ (checkDoubleDeclare FN s d.name).declared ↔ _
  rw [checkDoubleDeclare_declared]; simp

theorem step1Assign_declared (s : Step1) (a : Assignment) : (step1Assign FO s a).declared = s.declared :=
  fold_proj_eq (·.declared) (step1Name FO a.value) (fun _ _ => rfl) a.names s

theorem step1Stmt_declared (s : Step1) (st : Stmt) (n : String) :
    n ∈ (step1Stmt FN FO s st).declared ↔ n ∈ s.declared ∨ n ∈ declKeys st := by
  cases st with
  | consts ds =>
    have := fold_seen (·.declared) (step1Const FN) (fun d => [d.name]) (step1Const_declared FN) ds s n
    rw [flatMap_single_fun] at this
    exact this
  | wires ds =>
    have := fold_seen (·.declared) (step1Wire FN) (fun d => [d.name]) (step1Wire_declared FN) ds s n
    rw [flatMap_single_fun] at this
    exact this
  | assigns as =>
    have : (step1Stmt FN FO s (.assigns as)).declared = s.declared :=
      fold_proj_eq (·.declared) (step1Assign FO) (step1Assign_declared FO) as s
    rw [this]; simp [declKeys]
  | bank b => simp [step1Stmt, declKeys]

theorem step1_fold_declared (stmts : List Stmt) (s : Step1) (n : String) :
    n ∈ (stmts.foldl (step1Stmt FN FO) s).declared ↔ n ∈ s.declared ∨ n ∈ allDeclared stmts := by
  rw [allDeclared_eq]
  exact fold_seen (·.declared) (step1Stmt FN FO) declKeys (step1Stmt_declared FN FO) stmts s n

/-! assigned names -/

theorem step1Name_assigned' (v : Ex) (s : Step1) (name n : String) :
    n ∈ (step1Name FO v s name).assigned ↔ n ∈ s.assigned ∨ n ∈ [name] := by
  rw [step1Name_assigned]; simp

theorem step1Assign_assigned (s : Step1) (a : Assignment) (n : String) :
    n ∈ (step1Assign FO s a).assigned ↔ n ∈ s.assigned ∨ n ∈ a.names := by
  have := fold_seen (·.assigned) (step1Name FO a.value) (fun x => [x]) (step1Name_assigned' FO a.value) a.names s n
  rw [flatMap_single_fun, List.map_id'] at this
  exact this

theorem step1Stmt_assigned (s : Step1) (st : Stmt) (n : String) :
    n ∈ (step1Stmt FN FO s st).assigned ↔ n ∈ s.assigned ∨ n ∈ tgtKeys st := by
  cases st with
  | consts ds =>
    have : (step1Stmt FN FO s (.consts ds)).assigned = s.assigned :=
      fold_proj_eq (·.assigned) (step1Const FN) (fun _ _ => rfl) ds s
    rw [this]; simp [tgtKeys]
  | wires ds =>
    have : (step1Stmt FN FO s (.wires ds)).assigned = s.assigned :=
      fold_proj_eq (·.assigned) (step1Wire FN) (fun _ _ => rfl) ds s
    rw [this]; simp [tgtKeys]
  | assigns as =>
    exact fold_seen (·.assigned) (step1Assign FO) (·.names) (step1Assign_assigned FO) as s n
  | bank b => simp [step1Stmt, tgtKeys]

theorem step1_fold_assigned (stmts : List Stmt) (s : Step1) (n : String) :
    n ∈ (stmts.foldl (step1Stmt FN FO) s).assigned ↔ n ∈ s.assigned ∨ n ∈ allTargets stmts := by
  rw [allTargets_eq]
  exact fold_seen (·.assigned) (step1Stmt FN FO) tgtKeys (step1Stmt_assigned FN FO) stmts s n

/-! the error list -/

theorem consts_errors (ds : List ConstDecl) (s : Step1) :
    (ds.foldl (step1Const FN) s).errors = [] ↔
      s.errors = [] ∧ Good s.declared FN (ds.map (·.name)) ∧ Good s.assigned FO [] := by
  have := fold_errors FN FO (step1Const FN) (fun d => [d.name]) (fun _ => [])
    (by
      intro s d
      show (checkDoubleDeclare FN s d.name).errors = [] ↔ _
      rw [checkDoubleDeclare_errors_iff, Good_single]
      exact ⟨fun h => ⟨h.1, h.2, Good_nil _ _⟩, fun h => ⟨h.1, h.2.1⟩⟩)
    (step1Const_declared FN)
    (by intro s d n; show n ∈ s.assigned ↔ _; simp) ds s
  rw [flatMap_single_fun, flatMap_nil_fun] at this
  exact this

theorem wires_errors (ds : List WireDecl) (s : Step1) :
    (ds.foldl (step1Wire FN) s).errors = [] ↔
      s.errors = [] ∧ Good s.declared FN (ds.map (·.name)) ∧ Good s.assigned FO [] := by
  have := fold_errors FN FO (step1Wire FN) (fun d => [d.name]) (fun _ => [])
    (by
      intro s d
      show (checkDoubleDeclare FN s d.name).errors = [] ↔ _
      rw [checkDoubleDeclare_errors_iff, Good_single]
      exact ⟨fun h => ⟨h.1, h.2, Good_nil _ _⟩, fun h => ⟨h.1, h.2.1⟩⟩)
    (step1Wire_declared FN)
    (by intro s d n; show n ∈ s.assigned ↔ _; simp) ds s
  rw [flatMap_single_fun, flatMap_nil_fun] at this
  exact this

theorem names_errors (v : Ex) (names : List String) (s : Step1) :
    (names.foldl (step1Name FO v) s).errors = [] ↔
      s.errors = [] ∧ Good s.declared FN [] ∧ Good s.assigned FO names := by
  have := fold_errors FN FO (step1Name FO v) (fun _ => []) (fun x => [x])
    (by
      intro s x
      rw [step1Name_errors_iff, Good_single]
      exact ⟨fun h => ⟨h.1, Good_nil _ _, h.2⟩, fun h => ⟨h.1, h.2.2⟩⟩)
    (by intro s x n; show n ∈ s.declared ↔ _; simp)
    (step1Name_assigned' FO v) names s
  rw [flatMap_single_fun, flatMap_nil_fun, List.map_id'] at this
  exact this

theorem assigns_errors (as : List Assignment) (s : Step1) :
    (as.foldl (step1Assign FO) s).errors = [] ↔
      s.errors = [] ∧ Good s.declared FN [] ∧ Good s.assigned FO (as.flatMap (·.names)) := by
  have := fold_errors FN FO (step1Assign FO) (fun _ => []) (·.names)
    (fun s a => names_errors FN FO a.value a.names s)
    (by intro s a n; rw [step1Assign_declared]; simp)
    (step1Assign_assigned FO) as s
  rw [flatMap_nil_fun] at this
  exact this

theorem step1Stmt_errors_iff (s : Step1) (st : Stmt) :
    (step1Stmt FN FO s st).errors = [] ↔
      s.errors = [] ∧ Good s.declared FN (declKeys st) ∧ Good s.assigned FO (tgtKeys st) := by
  cases st with
  | consts ds => exact consts_errors FN FO ds s
  | wires ds => exact wires_errors FN FO ds s
  | assigns as => exact assigns_errors FN FO as s
  | bank b =>
    show s.errors = [] ↔ _
    exact ⟨fun h => ⟨h, Good_nil _ _, Good_nil _ _⟩, fun h => h.1⟩

/-- **the error list of the pass over the statements, exactly** (for any start state) -/
theorem step1_fold_errors_iff (stmts : List Stmt) (s : Step1) :
    (stmts.foldl (step1Stmt FN FO) s).errors = [] ↔
      s.errors = [] ∧ Good s.declared FN (allDeclared stmts) ∧ Good s.assigned FO (allTargets stmts) := by
  rw [allDeclared_eq, allTargets_eq]
  exact fold_errors FN FO (step1Stmt FN FO) declKeys tgtKeys (step1Stmt_errors_iff FN FO)
    (step1Stmt_declared FN FO) (step1Stmt_assigned FN FO) stmts s

/-- from a start state with no errors and nothing declared or assigned -/
theorem step1_fold_errors_nil_iff (stmts : List Stmt) (s : Step1)
    (he : s.errors = []) (hd : s.declared = []) (ha : s.assigned = []) :
    (stmts.foldl (step1Stmt FN FO) s).errors = [] ↔
      (allDeclared stmts).Nodup ∧ (∀ n ∈ allDeclared stmts, n ∉ FN) ∧
      (allTargets stmts).Nodup ∧ (∀ n ∈ allTargets stmts, n ∉ FO) := by
  rw [step1_fold_errors_iff, hd, ha]
  unfold Good
  constructor
  · rintro ⟨_, ⟨a, b⟩, c, d⟩
    exact ⟨a, fun n hn => (b n hn).2, c, fun n hn => (d n hn).2⟩
  · rintro ⟨a, b, c, d⟩
    exact ⟨he, ⟨a, fun n hn => ⟨by simp, b n hn⟩⟩, c, fun n hn => ⟨by simp, d n hn⟩⟩

/-! the constants and the wires -/

theorem step1Stmt_constKeys (s : Step1) (st : Stmt) (n : String) :
    n ∈ (step1Stmt FN FO s st).constantsRaw.keys ↔ n ∈ s.constantsRaw.keys ∨ n ∈ constKeys st := by
  cases st with
  | consts ds =>
    have := fold_seen (fun s => s.constantsRaw.keys) (step1Const FN) (fun d => [d.name])
      (by
        intro s d n
        show n ∈ (AMap.insert s.constantsRaw d.name d.value).keys ↔ _
        rw [AMap.mem_keys_insert]; simp) ds s n
    rw [flatMap_single_fun] at this
    exact this
  | wires ds =>
    have : (step1Stmt FN FO s (.wires ds)).constantsRaw = s.constantsRaw :=
      fold_proj_eq (·.constantsRaw) (step1Wire FN) (fun _ _ => rfl) ds s
    rw [this]; simp [constKeys]
  | assigns as =>
    have : (step1Stmt FN FO s (.assigns as)).constantsRaw = s.constantsRaw :=
      fold_proj_eq (·.constantsRaw) (step1Assign FO)
        (fun s a => fold_proj_eq (·.constantsRaw) (step1Name FO a.value) (fun _ _ => rfl) a.names s) as s
    rw [this]; simp [constKeys]
  | bank b => simp [step1Stmt, constKeys]

theorem step1Stmt_wireKeys (s : Step1) (st : Stmt) (n : String) :
    n ∈ (step1Stmt FN FO s st).wires.keys ↔ n ∈ s.wires.keys ∨ n ∈ wireKeys st := by
  cases st with
  | wires ds =>
    have := fold_seen (fun s => s.wires.keys) (step1Wire FN) (fun d => [d.name])
      (by
        intro s d n
        show n ∈ (AMap.insert s.wires d.name d.width).keys ↔ _
        rw [AMap.mem_keys_insert]; simp) ds s n
    rw [flatMap_single_fun] at this
    exact this
  | consts ds =>
    have : (step1Stmt FN FO s (.consts ds)).wires = s.wires :=
      fold_proj_eq (·.wires) (step1Const FN) (fun _ _ => rfl) ds s
    rw [this]; simp [wireKeys]
  | assigns as =>
    have : (step1Stmt FN FO s (.assigns as)).wires = s.wires :=
      fold_proj_eq (·.wires) (step1Assign FO)
        (fun s a => fold_proj_eq (·.wires) (step1Name FO a.value) (fun _ _ => rfl) a.names s) as s
    rw [this]; simp [wireKeys]
  | bank b => simp [step1Stmt, wireKeys]

theorem mem_flatMap_constKeys (stmts : List Stmt) (n : String) :
    n ∈ stmts.flatMap constKeys ↔ ∃ ds, Stmt.consts ds ∈ stmts ∧ ∃ d ∈ ds, d.name = n := by
  rw [List.mem_flatMap]
  constructor
  · rintro ⟨st, hm, hn⟩
    cases st with
    | consts ds =>
      obtain ⟨d, hd, e⟩ := List.mem_map.mp hn
      exact ⟨ds, hm, d, hd, e⟩
    | wires ds => cases hn
    | assigns as => cases hn
    | bank b => cases hn
  · rintro ⟨ds, hm, d, hd, e⟩
    exact ⟨_, hm, List.mem_map.mpr ⟨d, hd, e⟩⟩

theorem mem_flatMap_wireKeys (stmts : List Stmt) (n : String) :
    n ∈ stmts.flatMap wireKeys ↔ ∃ ds, Stmt.wires ds ∈ stmts ∧ ∃ d ∈ ds, d.name = n := by
  rw [List.mem_flatMap]
  constructor
  · rintro ⟨st, hm, hn⟩
    cases st with
    | wires ds =>
      obtain ⟨d, hd, e⟩ := List.mem_map.mp hn
      exact ⟨ds, hm, d, hd, e⟩
    | consts ds => cases hn
    | assigns as => cases hn
    | bank b => cases hn
  · rintro ⟨ds, hm, d, hd, e⟩
    exact ⟨_, hm, List.mem_map.mpr ⟨d, hd, e⟩⟩

theorem step1_fold_constant (stmts : List Stmt) (s : Step1) (n : String) :
    (stmts.foldl (step1Stmt FN FO) s).constantsRaw.contains n = true ↔
      s.constantsRaw.contains n = true ∨ ∃ ds, Stmt.consts ds ∈ stmts ∧ ∃ d ∈ ds, d.name = n := by
  rw [AMap.contains_iff_mem_keys, AMap.contains_iff_mem_keys, ← mem_flatMap_constKeys]
  exact fold_seen (fun s => s.constantsRaw.keys) (step1Stmt FN FO) constKeys (step1Stmt_constKeys FN FO) stmts s n

theorem step1_fold_wire (stmts : List Stmt) (s : Step1) (n : String) :
    (stmts.foldl (step1Stmt FN FO) s).wires.contains n = true ↔
      s.wires.contains n = true ∨ ∃ ds, Stmt.wires ds ∈ stmts ∧ ∃ d ∈ ds, d.name = n := by
  rw [AMap.contains_iff_mem_keys, AMap.contains_iff_mem_keys, ← mem_flatMap_wireKeys]
  exact fold_seen (fun s => s.wires.keys) (step1Stmt FN FO) wireKeys (step1Stmt_wireKeys FN FO) stmts s n

end

theorem assignedIn_iff_mem_allTargets (stmts : List Stmt) (n : String) : AssignedIn stmts n ↔ n ∈ allTargets stmts := by
  rw [allTargets_eq, List.mem_flatMap]
  unfold AssignedIn
  constructor
  · rintro ⟨as, hm, a, ha, hn⟩
    exact ⟨_, hm, List.mem_flatMap.mpr ⟨a, ha, hn⟩⟩
  · rintro ⟨st, hm, hn⟩
    cases st with
    | assigns as =>
      obtain ⟨a, ha, hn⟩ := List.mem_flatMap.mp hn
      exact ⟨as, hm, a, ha, hn⟩
    | consts ds => cases hn
    | wires ds => cases hn
    | bank b => cases hn

/-! ### the start state -/

/-- a fold all of whose steps preserve a property of the state -/
theorem foldl_preserves {α β : Type} (P : α → Prop) (f : α → β → α) (hf : ∀ a x, P a → P (f a x)) :
    ∀ (l : List β) (a : α), P a → P (l.foldl f a)
  | [], _, h => h
  | x :: rest, a, h => by rw [List.foldl_cons]; exact foldl_preserves P f hf rest _ (hf a x h)

/-- a state that reports nothing, declares nothing, assigns nothing and records no constant -/
def Step1.Blank (s : Step1) : Prop :=
  s.errors = [] ∧ s.declared = [] ∧ s.assigned = [] ∧ s.constantsRaw = [] ∧ s.assignments = []

/-- `step1Init` reports nothing, declares nothing, assigns nothing and records no constant, whatever the component table -/
theorem step1Init_empty (fixed : List FixedFunction) :
    (step1Init fixed).errors = [] ∧ (step1Init fixed).declared = [] ∧ (step1Init fixed).assigned = [] ∧
    (step1Init fixed).constantsRaw = [] ∧ (step1Init fixed).assignments = [] := by
  show Step1.Blank (step1Init fixed)
  unfold step1Init
  apply foldl_preserves Step1.Blank
  · intro s f hs
    have h1 : Step1.Blank (f.inWires.foldl (fun s (w : String × Nat) =>
          { s with wireTypes := s.wireTypes.insert w.1 .builtinInput, wires := s.wires.insert w.1 (.bits w.2) }) s) := by
      apply foldl_preserves Step1.Blank
      · intro a x ha; exact ha
      · exact hs
    cases ho : f.outWire with
    | none => simp only; exact h1
    | some p => simp only; exact h1
  · exact ⟨rfl, rfl, rfl, rfl, rfl⟩

theorem y86_wires_keys : (step1Init y86FixedFunctions).wires.keys = fixedNamesOf y86FixedFunctions := by decide +kernel

/-! ### the Y86 instance -/

theorem step1Of_errors_nil_iff (stmts : List Stmt) :
    (step1Of stmts).errors = [] ↔
      (allDeclared stmts).Nodup ∧ (∀ n ∈ allDeclared stmts, n ∉ fixedNamesOf y86FixedFunctions) ∧
      (allTargets stmts).Nodup ∧ (∀ n ∈ allTargets stmts, n ∉ y86FixedFunctions.filterMap fun f => f.outWire.map (·.1)) := by
  obtain ⟨he, hd, ha, _, _⟩ := step1Init_empty y86FixedFunctions
  exact step1_fold_errors_nil_iff _ _ stmts _ he hd ha

theorem step1Of_declared_iff (stmts : List Stmt) (n : String) : n ∈ (step1Of stmts).declared ↔ n ∈ allDeclared stmts := by
  unfold step1Of
  rw [step1_fold_declared, (step1Init_empty y86FixedFunctions).2.1]
  simp

theorem step1Of_assigned_iff (stmts : List Stmt) (n : String) : n ∈ (step1Of stmts).assigned ↔ n ∈ allTargets stmts := by
  unfold step1Of
  rw [step1_fold_assigned, (step1Init_empty y86FixedFunctions).2.2.1]
  simp

theorem step1Of_assignments_contains_iff (stmts : List Stmt) (n : String) :
    (step1Of stmts).assignments.contains n = true ↔ n ∈ allTargets stmts := by
  unfold step1Of
  rw [step1_fold_assignments, (step1Init_empty y86FixedFunctions).2.2.2.2, assignedIn_iff_mem_allTargets]
  simp [AMap.contains]

theorem step1Of_constant_iff (stmts : List Stmt) (n : String) :
    (step1Of stmts).constantsRaw.contains n = true ↔ ∃ ds, Stmt.consts ds ∈ stmts ∧ ∃ d ∈ ds, d.name = n := by
  unfold step1Of
  rw [step1_fold_constant, (step1Init_empty y86FixedFunctions).2.2.2.1]
  simp [AMap.contains]

/-- the wires table holds the built-in names and the user-declared wires -/
theorem step1Of_wire_iff (stmts : List Stmt) (n : String) :
    (step1Of stmts).wires.contains n = true ↔
      (n ∈ fixedNamesOf y86FixedFunctions ∨ ∃ ds, Stmt.wires ds ∈ stmts ∧ ∃ d ∈ ds, d.name = n) := by
  unfold step1Of
  rw [step1_fold_wire, AMap.contains_iff_mem_keys, y86_wires_keys]

/-! ### constants that read something other than a constant -/

theorem constRefErrors_nil_iff (s1 : Step1) :
    constRefErrors s1 = [] ↔ ∀ p ∈ s1.constantsRaw, ∀ r ∈ refs p.2, s1.constantsRaw.contains r = true := by
  unfold constRefErrors
  rw [List.flatMap_eq_nil_iff]
  apply forall_congr'
  intro p
  apply forall_congr'
  intro _
  rw [List.flatMap_eq_nil_iff]
  apply forall_congr'
  intro r
  rw [mem_dedupS]
  apply forall_congr'
  intro hr
  have hpos : occurrences p.2 r ≠ 0 := by
    unfold occurrences
    exact Nat.pos_iff_ne_zero.mp (List.count_pos_iff.mpr hr)
  cases hc : AMap.contains s1.constantsRaw r with
  | true => simp
  | false =>
    cases hw : AMap.contains s1.wires r <;> simp [hpos]

/-- the `AssignedConstant` diagnostics -/
theorem assignedConst_nil_iff (s1 : Step1) :
    (s1.assigned.flatMap fun n => if s1.constantsRaw.contains n then [(⟨.AssignedConstant, [n]⟩ : Diag)] else []) = [] ↔
      ∀ n ∈ s1.assigned, s1.constantsRaw.contains n = false := by
  rw [List.flatMap_eq_nil_iff]
  apply forall_congr'
  intro n
  apply forall_congr'
  intro _
  cases hc : AMap.contains s1.constantsRaw n <;> simp

/-- the whole stage-1 gate of `Program.new` -/
theorem step1_gate_nil_iff (stmts : List Stmt) :
    let s1 := step1Of stmts
    (s1.errors ++ (s1.assigned.flatMap fun n => if s1.constantsRaw.contains n then [(⟨.AssignedConstant, [n]⟩ : Diag)] else []) ++ constRefErrors s1 = []) ↔
      ((allDeclared stmts).Nodup ∧ (∀ n ∈ allDeclared stmts, n ∉ fixedNamesOf y86FixedFunctions) ∧
       (allTargets stmts).Nodup ∧ (∀ n ∈ allTargets stmts, n ∉ y86FixedFunctions.filterMap fun f => f.outWire.map (·.1)) ∧
       (∀ n ∈ allTargets stmts, (step1Of stmts).constantsRaw.contains n = false) ∧
       (∀ p ∈ (step1Of stmts).constantsRaw, ∀ r ∈ refs p.2, (step1Of stmts).constantsRaw.contains r = true)) := by
  intro s1
  rw [List.append_eq_nil_iff, List.append_eq_nil_iff, step1Of_errors_nil_iff, assignedConst_nil_iff, constRefErrors_nil_iff]
  have hA : (∀ n ∈ s1.assigned, s1.constantsRaw.contains n = false) ↔
      (∀ n ∈ allTargets stmts, (step1Of stmts).constantsRaw.contains n = false) := by
    apply forall_congr'
    intro n
    rw [step1Of_assigned_iff]
  rw [hA]
  constructor
  · rintro ⟨⟨⟨a, b, c, d⟩, e⟩, f⟩; exact ⟨a, b, c, d, e, f⟩
  · rintro ⟨a, b, c, d, e, f⟩; exact ⟨⟨⟨a, b, c, d⟩, e⟩, f⟩

/-- `Program.new` passes its first gate exactly when the six conditions hold (the statement of `step1_gate_nil_iff` read
    against the model: the three lists are the ones `Program.new` concatenates) -/
theorem Program_new_gate (fl : Flags) (cls : CharClass) (o : Orders) (stmts : List Stmt) :
    (∃ ds, Program.new fl cls o y86FixedFunctions stmts = .error ds ∧
      ds = (step1Of stmts).errors ++ ((step1Of stmts).assigned.flatMap fun n =>
        if (step1Of stmts).constantsRaw.contains n then [(⟨.AssignedConstant, [n]⟩ : Diag)] else []) ++ constRefErrors (step1Of stmts) ∧
      ds ≠ []) ∨
    ((allDeclared stmts).Nodup ∧ (∀ n ∈ allDeclared stmts, n ∉ fixedNamesOf y86FixedFunctions) ∧
       (allTargets stmts).Nodup ∧ (∀ n ∈ allTargets stmts, n ∉ y86FixedFunctions.filterMap fun f => f.outWire.map (·.1)) ∧
       (∀ n ∈ allTargets stmts, (step1Of stmts).constantsRaw.contains n = false) ∧
       (∀ p ∈ (step1Of stmts).constantsRaw, ∀ r ∈ refs p.2, (step1Of stmts).constantsRaw.contains r = true)) := by
  by_cases hg : (step1Of stmts).errors ++ ((step1Of stmts).assigned.flatMap fun n =>
        if (step1Of stmts).constantsRaw.contains n then [(⟨.AssignedConstant, [n]⟩ : Diag)] else []) ++ constRefErrors (step1Of stmts) = []
  · exact Or.inr ((step1_gate_nil_iff stmts).mp hg)
  · left
    refine ⟨_, ?_, rfl, hg⟩
    unfold Program.new
    simp only
    generalize hs1 : List.foldl (step1Stmt _ _) (step1Init y86FixedFunctions) stmts = s1
    have hs1' : step1Of stmts = s1 := hs1
    rw [hs1'] at hg ⊢
    rw [if_pos]
    simpa using hg

#print axioms step1Of_errors_nil_iff
#print axioms constRefErrors_nil_iff
#print axioms step1_gate_nil_iff
#print axioms step1Of_declared_iff
#print axioms step1Of_assigned_iff
#print axioms step1Of_assignments_contains_iff
#print axioms step1Of_constant_iff
#print axioms step1Of_wire_iff
#print axioms Program_new_gate
