import Hcl.Proofs.CheckSpec
import Hcl.Proofs.CheckCongr
import Hcl.Proofs.EvalCorrect
open Rust

/-! Expression-level lemmas for the comparison of the specification's fault list with the checker:
    the specification's width and value only read the names an expression mentions, eager expressions
    (no case expression) are left alone by the mux fix-up and fail to evaluate when a name has no value,
    and the width rules depend on the always-true test only through the (well-typed) conditions. -/

namespace SF

mutual
/-- evaluation of an eager expression looks at every name it mentions: no case expression, and the members of
    `in` sets mention only names for which `K` holds -/
def Eager (K : String → Bool) : Ex → Bool
  | .const _ => true
  | .wire _ => true
  | .bin _ l r => Eager K l && Eager K r
  | .un _ e => Eager K e
  | .slice e _ _ => Eager K e
  | .concat l r => Eager K l && Eager K r
  | .mux _ => false
  | .inSet e items => Eager K e && EagerItems K items
def EagerItems (K : String → Bool) : Exs → Bool
  | .nil => true
  | .cons e rest => Eager K e && (refs e).all K && EagerItems K rest
end

mutual
/-- the conditions of all case expressions inside an expression, at any depth (also inside conditions) -/
def conds : Ex → List Ex
  | .const _ => []
  | .wire _ => []
  | .bin _ l r => conds l ++ conds r
  | .un _ e => conds e
  | .slice e _ _ => conds e
  | .concat l r => conds l ++ conds r
  | .mux opts => condsOpts opts
  | .inSet e items => conds e ++ condsExs items
def condsOpts : Opts → List Ex
  | .nil => []
  | .cons c v rest => c :: (conds c ++ conds v ++ condsOpts rest)
def condsExs : Exs → List Ex
  | .nil => []
  | .cons e rest => conds e ++ condsExs rest
end

/-! ### 1, 2: the specification's width and value read the tables only at the names mentioned -/

theorem memL {α} {a b : List α} {P : α → Prop} (h : ∀ n ∈ a ++ b, P n) : ∀ n ∈ a, P n :=
  fun n hn => h n (List.mem_append_left _ hn)
theorem memR {α} {a b : List α} {P : α → Prop} (h : ∀ n ∈ a ++ b, P n) : ∀ n ∈ b, P n :=
  fun n hn => h n (List.mem_append_right _ hn)

mutual
theorem sw_congr (Γ Δ : String → Option Width) : ∀ e : Ex, (∀ n ∈ refs e, Γ n = Δ n) → Spec.sw Γ e = Spec.sw Δ e
  | .const _, _ => by simp [Spec.sw]
  | .bin op l r, h => by
      simp only [refs] at h
      simp only [Spec.sw, sw_congr Γ Δ l (memL h), sw_congr Γ Δ r (memR h)]
  | .un .not e, _ => by simp only [Spec.sw]
  | .un .neg e, h => by
      simp only [refs] at h
      simp only [Spec.sw, sw_congr Γ Δ e h]
  | .un .compl e, h => by
      simp only [refs] at h
      simp only [Spec.sw, sw_congr Γ Δ e h]
  | .un .plus e, h => by
      simp only [refs] at h
      simp only [Spec.sw, sw_congr Γ Δ e h]
  | .wire n, h => by
      simp only [refs] at h
      simp only [Spec.sw, h n (by simp)]
  | .slice e lo hi, _ => by simp only [Spec.sw]
  | .concat l r, h => by
      simp only [refs] at h
      simp only [Spec.sw, sw_congr Γ Δ l (memL h), sw_congr Γ Δ r (memR h)]
  | .mux o, h => by
      simp only [refs] at h
      simp only [Spec.sw, swOpts_congr Γ Δ o h]
  | .inSet e items, _ => by simp only [Spec.sw]
theorem swOpts_congr (Γ Δ : String → Option Width) : ∀ o : Opts, (∀ n ∈ refsOpts o, Γ n = Δ n) → Spec.swOpts Γ o = Spec.swOpts Δ o
  | .nil, _ => by simp [Spec.swOpts]
  | .cons c v rest, h => by
      simp only [refsOpts] at h
      simp only [Spec.swOpts, sw_congr Γ Δ v (memR (memL h)), swOpts_congr Γ Δ rest (memR h)]
end

mutual
theorem dv_congr (Γ Δ : String → Option Width) (σ τ : String → Nat) : ∀ e : Ex, (∀ n ∈ refs e, Γ n = Δ n) →
    (∀ n ∈ refs e, σ n = τ n) → Spec.dv Γ σ e = Spec.dv Δ τ e
  | .const _, _, _ => by simp [Spec.dv]
  | .bin op l r, hc, he => by
      have hw := sw_congr Γ Δ (.bin op l r) hc
      simp only [refs] at hc he
      simp only [Spec.dv, dv_congr Γ Δ σ τ l (memL hc) (memL he), dv_congr Γ Δ σ τ r (memR hc) (memR he), hw]
  | .un op e, hc, he => by
      simp only [refs] at hc he
      simp only [Spec.dv, dv_congr Γ Δ σ τ e hc he, sw_congr Γ Δ e hc]
  | .wire n, _, he => by
      simp only [refs] at he
      simp only [Spec.dv, he n (by simp)]
  | .slice e lo hi, hc, he => by
      simp only [refs] at hc he
      simp only [Spec.dv, dv_congr Γ Δ σ τ e hc he]
  | .concat l r, hc, he => by
      simp only [refs] at hc he
      simp only [Spec.dv, dv_congr Γ Δ σ τ l (memL hc) (memL he), dv_congr Γ Δ σ τ r (memR hc) (memR he),
        sw_congr Γ Δ r (memR hc)]
  | .mux o, hc, he => by
      simp only [refs] at hc he
      simp only [Spec.dv, dvOpts_congr Γ Δ σ τ o hc he, swOpts_congr Γ Δ o hc]
  | .inSet e items, hc, he => by
      simp only [refs] at hc he
      simp only [Spec.dv, dv_congr Γ Δ σ τ e (memL hc) (memL he)]
      congr 1; funext a
      exact dvIn_congr Γ Δ σ τ a items (memR hc) (memR he)
theorem dvOpts_congr (Γ Δ : String → Option Width) (σ τ : String → Nat) : ∀ o : Opts, (∀ n ∈ refsOpts o, Γ n = Δ n) →
    (∀ n ∈ refsOpts o, σ n = τ n) → Spec.dvOpts Γ σ o = Spec.dvOpts Δ τ o
  | .nil, _, _ => by simp [Spec.dvOpts]
  | .cons c v rest, hc, he => by
      simp only [refsOpts] at hc he
      simp only [Spec.dvOpts, dv_congr Γ Δ σ τ c (memL (memL hc)) (memL (memL he)),
        dv_congr Γ Δ σ τ v (memR (memL hc)) (memR (memL he)), dvOpts_congr Γ Δ σ τ rest (memR hc) (memR he)]
theorem dvIn_congr (Γ Δ : String → Option Width) (σ τ : String → Nat) (x : Nat) : ∀ items : Exs, (∀ n ∈ refsExs items, Γ n = Δ n) →
    (∀ n ∈ refsExs items, σ n = τ n) → Spec.dvIn Γ σ x items = Spec.dvIn Δ τ x items
  | .nil, _, _ => by simp [Spec.dvIn]
  | .cons e rest, hc, he => by
      simp only [refsExs] at hc he
      simp only [Spec.dvIn, dv_congr Γ Δ σ τ e (memL hc) (memL he), dvIn_congr Γ Δ σ τ x rest (memR hc) (memR he)]
end

/-! ### 6: the width rules depend on the always-true test only through the well-typed conditions -/

theorem condTruth_congr (fl : Flags) (Γ : String → Option Width) (f g : Ex → Bool) : ∀ o : Opts,
    (∀ c ∈ condsOpts o, Spec.typeOf fl Γ f c ≠ none → f c = g c) → Spec.typeOfOpts fl Γ f o ≠ none →
    Spec.condTruth f o = Spec.condTruth g o
  | .nil, _, _ => by simp [Spec.condTruth]
  | .cons c v rest, h, ht => by
      simp only [condsOpts] at h
      have hc : Spec.typeOf fl Γ f c ≠ none := by
        intro hn
        apply ht
        simp only [Spec.typeOfOpts, hn]
        rfl
      have hr : Spec.typeOfOpts fl Γ f rest ≠ none := by
        intro hn
        apply ht
        simp only [Spec.typeOfOpts, hn]
        cases Spec.typeOf fl Γ f c <;> cases Spec.typeOf fl Γ f v <;> rfl
      have h1 : f c = g c := h c (List.mem_cons_self ..) hc
      have h2 := condTruth_congr fl Γ f g rest (fun x hx => h x (List.mem_cons_of_mem _ (List.mem_append_right _ hx))) hr
      simp only [Spec.condTruth, h1, h2]

mutual
theorem typeOf_congr_isTrue (fl : Flags) (Γ : String → Option Width) (f g : Ex → Bool) : ∀ e : Ex,
    (∀ c ∈ conds e, Spec.typeOf fl Γ f c ≠ none → f c = g c) → Spec.typeOf fl Γ f e = Spec.typeOf fl Γ g e
  | .const _, _ => by simp [Spec.typeOf]
  | .wire _, _ => by simp [Spec.typeOf]
  | .bin op l r, h => by
      simp only [conds] at h
      simp only [Spec.typeOf, typeOf_congr_isTrue fl Γ f g l (memL h), typeOf_congr_isTrue fl Γ f g r (memR h)]
  | .un .not e, h => by
      simp only [conds] at h
      simp only [Spec.typeOf, typeOf_congr_isTrue fl Γ f g e h]
  | .un .neg e, h => by
      simp only [conds] at h
      simp only [Spec.typeOf, typeOf_congr_isTrue fl Γ f g e h]
  | .un .compl e, h => by
      simp only [conds] at h
      simp only [Spec.typeOf, typeOf_congr_isTrue fl Γ f g e h]
  | .un .plus e, h => by
      simp only [conds] at h
      simp only [Spec.typeOf, typeOf_congr_isTrue fl Γ f g e h]
  | .slice e lo hi, h => by
      simp only [conds] at h
      simp only [Spec.typeOf, typeOf_congr_isTrue fl Γ f g e h]
  | .concat l r, h => by
      simp only [conds] at h
      simp only [Spec.typeOf, typeOf_congr_isTrue fl Γ f g l (memL h), typeOf_congr_isTrue fl Γ f g r (memR h)]
  | .mux o, h => by
      simp only [conds] at h
      have ho := typeOfOpts_congr_isTrue fl Γ f g o h
      simp only [Spec.typeOf]
      rw [← ho]
      cases hws : Spec.typeOfOpts fl Γ f o with
      | none => rfl
      | some ws =>
          have ht := condTruth_congr fl Γ f g o h (by rw [hws]; simp)
          rw [ht]
  | .inSet e items, h => by
      simp only [conds] at h
      simp only [Spec.typeOf, typeOf_congr_isTrue fl Γ f g e (memL h), typeOfItems_congr_isTrue fl Γ f g items (memR h)]
theorem typeOfOpts_congr_isTrue (fl : Flags) (Γ : String → Option Width) (f g : Ex → Bool) : ∀ o : Opts,
    (∀ c ∈ condsOpts o, Spec.typeOf fl Γ f c ≠ none → f c = g c) → Spec.typeOfOpts fl Γ f o = Spec.typeOfOpts fl Γ g o
  | .nil, _ => by simp [Spec.typeOfOpts]
  | .cons c v rest, h => by
      simp only [condsOpts] at h
      have h' := fun x hx => h x (List.mem_cons_of_mem _ hx)
      simp only [Spec.typeOfOpts, typeOf_congr_isTrue fl Γ f g c (memL (memL h')),
        typeOf_congr_isTrue fl Γ f g v (memR (memL h')), typeOfOpts_congr_isTrue fl Γ f g rest (memR h')]
theorem typeOfItems_congr_isTrue (fl : Flags) (Γ : String → Option Width) (f g : Ex → Bool) : ∀ items : Exs,
    (∀ c ∈ condsExs items, Spec.typeOf fl Γ f c ≠ none → f c = g c) → Spec.typeOfItems fl Γ f items = Spec.typeOfItems fl Γ g items
  | .nil, _ => by simp [Spec.typeOfItems]
  | .cons e rest, h => by
      simp only [condsExs] at h
      simp only [Spec.typeOfItems, typeOf_congr_isTrue fl Γ f g e (memL h), typeOfItems_congr_isTrue fl Γ f g rest (memR h)]
end

/-! ### 3, 4: an eager expression has no case expression: nothing to fix up, no conditions -/

mutual
theorem fixMux_eager (fl : Flags) (Γ : Ctx) (κ : Env) (K : String → Bool) : ∀ e : Ex, Eager K e = true → fixMux fl Γ κ e = e
  | .const _, _ => by simp [fixMux]
  | .wire _, _ => by simp [fixMux]
  | .bin op l r, h => by
      simp only [Eager, Bool.and_eq_true] at h
      simp only [fixMux, fixMux_eager fl Γ κ K l h.1, fixMux_eager fl Γ κ K r h.2]
  | .un op e, h => by
      simp only [Eager] at h
      simp only [fixMux, fixMux_eager fl Γ κ K e h]
  | .slice e lo hi, h => by
      simp only [Eager] at h
      simp only [fixMux, fixMux_eager fl Γ κ K e h]
  | .concat l r, h => by
      simp only [Eager, Bool.and_eq_true] at h
      simp only [fixMux, fixMux_eager fl Γ κ K l h.1, fixMux_eager fl Γ κ K r h.2]
  | .mux o, h => by simp [Eager] at h
  | .inSet e items, h => by
      simp only [Eager, Bool.and_eq_true] at h
      simp only [fixMux, fixMux_eager fl Γ κ K e h.1, fixMuxExs_eager fl Γ κ K items h.2]
theorem fixMuxExs_eager (fl : Flags) (Γ : Ctx) (κ : Env) (K : String → Bool) : ∀ items : Exs, EagerItems K items = true →
    fixMuxExs fl Γ κ items = items
  | .nil, _ => by simp [fixMuxExs]
  | .cons e rest, h => by
      simp only [EagerItems, Bool.and_eq_true] at h
      simp only [fixMuxExs, fixMux_eager fl Γ κ K e h.1.1, fixMuxExs_eager fl Γ κ K rest h.2]
end

mutual
theorem conds_eager (K : String → Bool) : ∀ e : Ex, Eager K e = true → conds e = []
  | .const _, _ => by simp [conds]
  | .wire _, _ => by simp [conds]
  | .bin op l r, h => by
      simp only [Eager, Bool.and_eq_true] at h
      simp only [conds, conds_eager K l h.1, conds_eager K r h.2, List.append_nil]
  | .un op e, h => by
      simp only [Eager] at h
      simp only [conds, conds_eager K e h]
  | .slice e lo hi, h => by
      simp only [Eager] at h
      simp only [conds, conds_eager K e h]
  | .concat l r, h => by
      simp only [Eager, Bool.and_eq_true] at h
      simp only [conds, conds_eager K l h.1, conds_eager K r h.2, List.append_nil]
  | .mux o, h => by simp [Eager] at h
  | .inSet e items, h => by
      simp only [Eager, Bool.and_eq_true] at h
      simp only [conds, conds_eager K e h.1, condsExs_eager K items h.2, List.append_nil]
theorem condsExs_eager (K : String → Bool) : ∀ items : Exs, EagerItems K items = true → condsExs items = []
  | .nil, _ => by simp [condsExs]
  | .cons e rest, h => by
      simp only [EagerItems, Bool.and_eq_true] at h
      simp only [condsExs, conds_eager K e h.1.1, condsExs_eager K rest h.2, List.append_nil]
end

/-! ### 5: evaluating an eager expression that mentions a name without a value fails -/

theorem eagerItems_refs (K : String → Bool) : ∀ items : Exs, EagerItems K items = true → ∀ n ∈ refsExs items, K n = true
  | .nil, _, n, hn => by simp [refsExs] at hn
  | .cons e rest, h, n, hn => by
      simp only [EagerItems, Bool.and_eq_true, List.all_eq_true] at h
      simp only [refsExs, List.mem_append] at hn
      rcases hn with hn | hn
      · exact h.1.2 n hn
      · exact eagerItems_refs K rest h.2 n hn

theorem bind_error {α β} (err : Err) (k : α → E β) : ((Except.error err : E α) >>= k) = .error err := rfl
theorem bind_ok {α β} (a : α) (k : α → E β) : ((Except.ok a : E α) >>= k) = k a := rfl

theorem ev_eager_error (fl : Flags) (σ : Env) (K : String → Bool) (hσ : ∀ n, K n = false → σ n = none) : ∀ e : Ex,
    Eager K e = true → (∃ n ∈ refs e, K n = false) → ∃ err, ev fl σ e = .error err
  | .const _, _, ⟨n, hn, _⟩ => by simp [refs] at hn
  | .wire m, _, ⟨n, hn, hk⟩ => by
      simp only [refs, List.mem_singleton] at hn
      subst hn
      exact ⟨.undeclaredWireRead n, by simp only [ev, hσ n hk]; rfl⟩
  | .bin op l r, h, ⟨n, hn, hk⟩ => by
      simp only [Eager, Bool.and_eq_true] at h
      simp only [refs, List.mem_append] at hn
      cases hl : ev fl σ l with
      | error err => exact ⟨err, by simp only [ev, hl, bind_error]⟩
      | ok a =>
          rcases hn with hn | hn
          · obtain ⟨err, he⟩ := ev_eager_error fl σ K hσ l h.1 ⟨n, hn, hk⟩
            rw [hl] at he; cases he
          · obtain ⟨err, he⟩ := ev_eager_error fl σ K hσ r h.2 ⟨n, hn, hk⟩
            exact ⟨err, by simp only [ev, hl, he, bind_ok, bind_error]⟩
  | .un op e, h, ⟨n, hn, hk⟩ => by
      simp only [Eager] at h
      simp only [refs] at hn
      obtain ⟨err, he⟩ := ev_eager_error fl σ K hσ e h ⟨n, hn, hk⟩
      exact ⟨err, by simp only [ev, he, bind_error]⟩
  | .slice e lo hi, h, ⟨n, hn, hk⟩ => by
      simp only [Eager] at h
      simp only [refs] at hn
      obtain ⟨err, he⟩ := ev_eager_error fl σ K hσ e h ⟨n, hn, hk⟩
      exact ⟨err, by simp only [ev, he, bind_error]⟩
  | .concat l r, h, ⟨n, hn, hk⟩ => by
      simp only [Eager, Bool.and_eq_true] at h
      simp only [refs, List.mem_append] at hn
      cases hl : ev fl σ l with
      | error err => exact ⟨err, by simp only [ev, hl, bind_error]⟩
      | ok a =>
          rcases hn with hn | hn
          · obtain ⟨err, he⟩ := ev_eager_error fl σ K hσ l h.1 ⟨n, hn, hk⟩
            rw [hl] at he; cases he
          · obtain ⟨err, he⟩ := ev_eager_error fl σ K hσ r h.2 ⟨n, hn, hk⟩
            exact ⟨err, by simp only [ev, hl, he, bind_ok, bind_error]⟩
  | .mux o, h, _ => by simp [Eager] at h
  | .inSet e items, h, ⟨n, hn, hk⟩ => by
      simp only [Eager, Bool.and_eq_true] at h
      simp only [refs, List.mem_append] at hn
      rcases hn with hn | hn
      · obtain ⟨err, he⟩ := ev_eager_error fl σ K hσ e h.1 ⟨n, hn, hk⟩
        exact ⟨err, by simp only [ev, he, bind_error]⟩
      · have := eagerItems_refs K items h.2 n hn
        rw [hk] at this; cases this

theorem alwaysTrue_eager_false (fl : Flags) (σ : Env) (K : String → Bool) (hσ : ∀ n, K n = false → σ n = none) (e : Ex)
    (he : Eager K e = true) (hb : ∃ n ∈ refs e, K n = false) : alwaysTrue fl σ e = false := by
  obtain ⟨err, h⟩ := ev_eager_error fl σ K hσ e he hb
  unfold alwaysTrue
  rw [h]

/-! ### 7: the conditions of a well-formed expression are well-formed and mention only names of the expression -/

mutual
theorem wfEx_conds : ∀ e : Ex, wfEx e = true → ∀ c ∈ conds e, wfEx c = true
  | .const _, _, c, hc => by simp [conds] at hc
  | .wire _, _, c, hc => by simp [conds] at hc
  | .bin op l r, h, c, hc => by
      simp only [wfEx, Bool.and_eq_true] at h
      simp only [conds, List.mem_append] at hc
      rcases hc with hc | hc
      · exact wfEx_conds l h.1 c hc
      · exact wfEx_conds r h.2 c hc
  | .un op e, h, c, hc => by
      simp only [wfEx] at h
      simp only [conds] at hc
      exact wfEx_conds e h c hc
  | .slice e lo hi, h, c, hc => by
      simp only [wfEx, Bool.and_eq_true] at h
      simp only [conds] at hc
      exact wfEx_conds e h.1 c hc
  | .concat l r, h, c, hc => by
      simp only [wfEx, Bool.and_eq_true] at h
      simp only [conds, List.mem_append] at hc
      rcases hc with hc | hc
      · exact wfEx_conds l h.1 c hc
      · exact wfEx_conds r h.2 c hc
  | .mux o, h, c, hc => by
      simp only [wfEx] at h
      simp only [conds] at hc
      exact wfOpts_conds o h c hc
  | .inSet e items, h, c, hc => by
      simp only [wfEx, Bool.and_eq_true] at h
      simp only [conds, List.mem_append] at hc
      rcases hc with hc | hc
      · exact wfEx_conds e h.1 c hc
      · exact wfExs_conds items h.2 c hc
theorem wfOpts_conds : ∀ o : Opts, wfOpts o = true → ∀ c ∈ condsOpts o, wfEx c = true
  | .nil, _, c, hc => by simp [condsOpts] at hc
  | .cons c0 v rest, h, c, hc => by
      simp only [wfOpts, Bool.and_eq_true] at h
      simp only [condsOpts, List.mem_cons, List.mem_append] at hc
      rcases hc with hc | (hc | hc) | hc
      · rw [hc]; exact h.1.1
      · exact wfEx_conds c0 h.1.1 c hc
      · exact wfEx_conds v h.1.2 c hc
      · exact wfOpts_conds rest h.2 c hc
theorem wfExs_conds : ∀ items : Exs, wfExs items = true → ∀ c ∈ condsExs items, wfEx c = true
  | .nil, _, c, hc => by simp [condsExs] at hc
  | .cons e rest, h, c, hc => by
      simp only [wfExs, Bool.and_eq_true] at h
      simp only [condsExs, List.mem_append] at hc
      rcases hc with hc | hc
      · exact wfEx_conds e h.1 c hc
      · exact wfExs_conds rest h.2 c hc
end

mutual
theorem refs_conds : ∀ e : Ex, ∀ c ∈ conds e, ∀ n ∈ refs c, n ∈ refs e
  | .const _, c, hc, _, _ => by simp [conds] at hc
  | .wire _, c, hc, _, _ => by simp [conds] at hc
  | .bin op l r, c, hc, n, hn => by
      simp only [conds, List.mem_append] at hc
      simp only [refs, List.mem_append]
      rcases hc with hc | hc
      · exact Or.inl (refs_conds l c hc n hn)
      · exact Or.inr (refs_conds r c hc n hn)
  | .un op e, c, hc, n, hn => by
      simp only [conds] at hc
      simp only [refs]
      exact refs_conds e c hc n hn
  | .slice e lo hi, c, hc, n, hn => by
      simp only [conds] at hc
      simp only [refs]
      exact refs_conds e c hc n hn
  | .concat l r, c, hc, n, hn => by
      simp only [conds, List.mem_append] at hc
      simp only [refs, List.mem_append]
      rcases hc with hc | hc
      · exact Or.inl (refs_conds l c hc n hn)
      · exact Or.inr (refs_conds r c hc n hn)
  | .mux o, c, hc, n, hn => by
      simp only [conds] at hc
      simp only [refs]
      exact refsOpts_conds o c hc n hn
  | .inSet e items, c, hc, n, hn => by
      simp only [conds, List.mem_append] at hc
      simp only [refs, List.mem_append]
      rcases hc with hc | hc
      · exact Or.inl (refs_conds e c hc n hn)
      · exact Or.inr (refsExs_conds items c hc n hn)
theorem refsOpts_conds : ∀ o : Opts, ∀ c ∈ condsOpts o, ∀ n ∈ refs c, n ∈ refsOpts o
  | .nil, c, hc, _, _ => by simp [condsOpts] at hc
  | .cons c0 v rest, c, hc, n, hn => by
      simp only [condsOpts, List.mem_cons, List.mem_append] at hc
      simp only [refsOpts, List.mem_append]
      rcases hc with hc | (hc | hc) | hc
      · rw [hc] at hn; exact Or.inl (Or.inl hn)
      · exact Or.inl (Or.inl (refs_conds c0 c hc n hn))
      · exact Or.inl (Or.inr (refs_conds v c hc n hn))
      · exact Or.inr (refsOpts_conds rest c hc n hn)
theorem refsExs_conds : ∀ items : Exs, ∀ c ∈ condsExs items, ∀ n ∈ refs c, n ∈ refsExs items
  | .nil, c, hc, _, _ => by simp [condsExs] at hc
  | .cons e rest, c, hc, n, hn => by
      simp only [condsExs, List.mem_append] at hc
      simp only [refsExs, List.mem_append]
      rcases hc with hc | hc
      · exact Or.inl (refs_conds e c hc n hn)
      · exact Or.inr (refsExs_conds rest c hc n hn)
end

/-! ### 8: the width rules read the width table only at the names mentioned -/

mutual
theorem typeOf_congr_ctx (fl : Flags) (Γ Δ : String → Option Width) (f : Ex → Bool) : ∀ e : Ex,
    (∀ n ∈ refs e, Γ n = Δ n) → Spec.typeOf fl Γ f e = Spec.typeOf fl Δ f e
  | .const _, _ => by simp [Spec.typeOf]
  | .wire n, h => by
      simp only [refs] at h
      simp only [Spec.typeOf, h n (by simp)]
  | .bin op l r, h => by
      simp only [refs] at h
      simp only [Spec.typeOf, typeOf_congr_ctx fl Γ Δ f l (memL h), typeOf_congr_ctx fl Γ Δ f r (memR h)]
  | .un .not e, h => by
      simp only [refs] at h
      simp only [Spec.typeOf, typeOf_congr_ctx fl Γ Δ f e h]
  | .un .neg e, h => by
      simp only [refs] at h
      simp only [Spec.typeOf, typeOf_congr_ctx fl Γ Δ f e h]
  | .un .compl e, h => by
      simp only [refs] at h
      simp only [Spec.typeOf, typeOf_congr_ctx fl Γ Δ f e h]
  | .un .plus e, h => by
      simp only [refs] at h
      simp only [Spec.typeOf, typeOf_congr_ctx fl Γ Δ f e h]
  | .slice e lo hi, h => by
      simp only [refs] at h
      simp only [Spec.typeOf, typeOf_congr_ctx fl Γ Δ f e h]
  | .concat l r, h => by
      simp only [refs] at h
      simp only [Spec.typeOf, typeOf_congr_ctx fl Γ Δ f l (memL h), typeOf_congr_ctx fl Γ Δ f r (memR h)]
  | .mux o, h => by
      simp only [refs] at h
      simp only [Spec.typeOf, typeOfOpts_congr_ctx fl Γ Δ f o h]
  | .inSet e items, h => by
      simp only [refs] at h
      simp only [Spec.typeOf, typeOf_congr_ctx fl Γ Δ f e (memL h), typeOfItems_congr_ctx fl Γ Δ f items (memR h)]
theorem typeOfOpts_congr_ctx (fl : Flags) (Γ Δ : String → Option Width) (f : Ex → Bool) : ∀ o : Opts,
    (∀ n ∈ refsOpts o, Γ n = Δ n) → Spec.typeOfOpts fl Γ f o = Spec.typeOfOpts fl Δ f o
  | .nil, _ => by simp [Spec.typeOfOpts]
  | .cons c v rest, h => by
      simp only [refsOpts] at h
      simp only [Spec.typeOfOpts, typeOf_congr_ctx fl Γ Δ f c (memL (memL h)),
        typeOf_congr_ctx fl Γ Δ f v (memR (memL h)), typeOfOpts_congr_ctx fl Γ Δ f rest (memR h)]
theorem typeOfItems_congr_ctx (fl : Flags) (Γ Δ : String → Option Width) (f : Ex → Bool) : ∀ items : Exs,
    (∀ n ∈ refsExs items, Γ n = Δ n) → Spec.typeOfItems fl Γ f items = Spec.typeOfItems fl Δ f items
  | .nil, _ => by simp [Spec.typeOfItems]
  | .cons e rest, h => by
      simp only [refsExs] at h
      simp only [Spec.typeOfItems, typeOf_congr_ctx fl Γ Δ f e (memL h), typeOfItems_congr_ctx fl Γ Δ f rest (memR h)]
end

end SF

#print axioms SF.sw_congr
#print axioms SF.dv_congr
#print axioms SF.typeOf_congr_isTrue
#print axioms SF.fixMux_eager
#print axioms SF.conds_eager
#print axioms SF.ev_eager_error
#print axioms SF.alwaysTrue_eager_false
#print axioms SF.wfEx_conds
#print axioms SF.refs_conds
#print axioms SF.typeOf_congr_ctx
