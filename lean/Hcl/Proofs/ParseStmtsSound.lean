import Hcl.Proofs.ParseSound
open Parser Lexer

/-! The statement level of the grammar as a derivation relation `DS` on token kinds (`Statements`, `WireDecls`,
    `ConstDecls`, `Assignments`, `RegisterBankDecl`, ... of parser.lalrpop on the success path), and the proof that it is
    exactly what the statement-parser model accepts: `parseStmts_iff_DS`. -/

namespace Parser

/-! ### The loops as fixed points -/

theorem wireDecls_unfold (ts : Toks) : wireDecls ts = wireDeclsStep wireDecls ts := by
  unfold wireDecls
  rw [parseWireDecls]
  exact wireDeclsStep_congr _ _ ts fun r hr => wireDecls_eq _ r hr

theorem constDecls_unfold (ts : Toks) : constDecls ts = constDeclsStep constDecls ts := by
  unfold constDecls
  rw [parseConstDecls]
  exact constDeclsStep_congr _ _ ts fun r hr => constDecls_eq _ r hr

theorem assigns_unfold (ts : Toks) : assigns ts = assignsStep assigns ts := by
  unfold assigns
  rw [parseAssigns]
  exact assignsStep_congr _ _ ts fun r hr => assigns_eq _ r hr

theorem regDecls_unfold (ts : Toks) : regDecls ts = regDeclsStep regDecls ts := by
  unfold regDecls
  rw [parseRegDecls]
  exact regDeclsStep_congr _ _ ts fun r hr => regDecls_eq _ r hr

/-- the statement loop with the fuel `parseProgram` gives it -/
def stmtsOf (started : Bool) (ts : Toks) : Option (List Stmt) := parseStmtsLoop (ts.length + 1) started ts

theorem stmtsOf_unfold (started : Bool) (ts : Toks) : stmtsOf started ts = stmtsStep (stmtsOf true) started ts := by
  unfold stmtsOf
  rw [parseStmtsLoop]
  exact stmtsStep_congr _ _ started ts fun r hr => parseStmtsLoop_fuel _ _ true r hr (Nat.lt_succ_self _)

theorem parseStmts_eq_stmtsOf (f : Nat) (ts : Toks) (hf : ts.length < f) : parseStmts f ts = stmtsOf false ts :=
  parseStmts_fuel_independent f _ ts hf (Nat.lt_succ_self _)

/-! ### Expressions followed by something -/

theorem parseE_complete_tail {x : Ex} {ts : List Tok} (h : D (.tier 0) (.e x) ts) (c rest : Toks) (hk : kinds c = ts)
    (hs : StopAt 0 rest) : parseE (c ++ rest) = some (x, rest) := by
  obtain ⟨g, hg⟩ := goal_of_D h rest hs
  have h1 := hg g (Nat.le_refl _)
  have h2 := parseTier_fuel_enough g _ _ h1
  have hkk : kinds (c ++ rest) = kinds (sp ts ++ rest) := by rw [kinds_app, kinds_app, hk, kinds_sp]
  have hl : (c ++ rest).length = (sp ts ++ rest).length := kinds_length hkk
  rw [← hl] at h2
  rcases (allKinds (14 * (c ++ rest).length + 40)).tier 0 _ _ hkk with ⟨_, k2⟩ | ⟨px, s, e, r, px', s', e', r', k1, k2, hx, hr⟩
  · rw [k2] at h2; cases h2
  · rw [k2] at h2
    cases h2
    obtain ⟨c', hc', _⟩ := parse_sound _ 0 _ _ _ _ _ (Nat.zero_le _) k1
    have hrl : rest.length = r.length := (kinds_length hr).symm
    have := (List.append_inj' hc' hrl).2
    subst this
    unfold parseE
    rw [k1]
    simp only [PEx.toEx, hx, emb_erase]

/-- no derivation of the expression grammar contains `=` -/
theorem D_no_assign {c : Cat} {v : Val} {ts : List Tok} (h : D c v ts) : Tok.Assign ∉ ts := by
  induction h with
  | un hop _ ih =>
    rename_i t op x ts
    intro hm
    rcases List.mem_cons.mp hm with h1 | h1
    · subst h1; cases hop
    · exact ih h1
  | flatBin htk _ _ hfind _ ih1 ih2 =>
    rename_i k tier l ts t t0 op r ts'
    intro hm
    rcases List.mem_append.mp hm with h1 | h1
    · exact ih1 h1
    · rcases List.mem_cons.mp h1 with h2 | h2
      · subst h2
        have := find_opTier htk _ hfind
        cases this
      · exact ih2 h2
  | chainCons htk hfind _ _ ih1 ih2 =>
    rename_i k tier acc t t0 op r ts x ts'
    intro hm
    rcases List.mem_cons.mp hm with h1 | h1
    · subst h1
      have := find_opTier htk _ hfind
      cases this
    · rcases List.mem_append.mp h1 with h2 | h2
      · exact ih1 h2
      · exact ih2 h2
  | _ => simp_all

/-! ### What may follow a list -/

/-- the token list is empty or starts with the token `stop` -/
def Follow (stop : Tok) : Toks → Prop
  | [] => True
  | (_, t, _) :: _ => t = stop

theorem Follow.stopAt {stop : Tok} (h : opTier stop = none) : ∀ {rest : Toks}, Follow stop rest → StopAt 0 rest
  | [], _ => trivial
  | (_, t, _) :: _, hf => by
    have : t = stop := hf
    subst this
    exact stopAt_cons_none h

/-! ### `Commas<WireDecl>` -/

inductive DWires : List WireDecl → List Tok → Prop
  | nil : DWires [] []
  | one {name : String} {w : Nat} {wd : Width} : w ≤ 128 →
      DWires [⟨name, .bits w⟩] [.Identifier name, .Colon, .Constant ⟨w, wd⟩]
  | cons {name : String} {w : Nat} {wd : Width} {ds : List WireDecl} {ts : List Tok} : w ≤ 128 → DWires ds ts →
      DWires (⟨name, .bits w⟩ :: ds) (.Identifier name :: .Colon :: .Constant ⟨w, wd⟩ :: .Comma :: ts)

theorem wireDecls_sound : ∀ (n : Nat) (ts : Toks), ts.length < n → ∀ ds rest, wireDecls ts = some (ds, rest) →
    ∃ c, ts = c ++ rest ∧ DWires ds (kinds c)
  | 0, _, hn, _, _, _ => by omega
  | n + 1, ts, hn, ds, rest, h => by
    rw [wireDecls_unfold] at h
    unfold wireDeclsStep at h
    split at h
    · rename_i s name e s' e' rest0
      cases hs : smallConst rest0 with
      | none => simp only [hs] at h; cases h
      | some r =>
        obtain ⟨w, a, b, rest1⟩ := r
        obtain ⟨v, hv1, hv2, hv3⟩ := smallConst_inv hs
        subst hv1 hv2
        simp only [hs] at h
        split at h
        · rename_i s2 e2 rest2
          cases hk2 : wireDecls rest2 with
          | none => simp only [hk2] at h; cases h
          | some r2 =>
            obtain ⟨ds2, rest3⟩ := r2
            simp only [hk2] at h
            cases h
            obtain ⟨c2, hc2, d2⟩ := wireDecls_sound n rest2 (by simp only [List.length_cons] at hn; omega) _ _ hk2
            refine ⟨(s, .Identifier name, e) :: (s', .Colon, e') :: (a, .Constant v, b) :: (s2, .Comma, e2) :: c2,
              by rw [hc2]; rfl, ?_⟩
            exact DWires.cons (wd := v.width) hv3 d2
        · cases h
          exact ⟨[(s, .Identifier name, e), (s', .Colon, e'), (a, .Constant v, b)], rfl, DWires.one (wd := v.width) hv3⟩
    · cases h
      exact ⟨[], rfl, DWires.nil⟩

theorem wireDecls_complete {ds : List WireDecl} {cs : List Tok} (h : DWires ds cs) : ∀ (c rest : Toks), kinds c = cs →
    Follow .Semicolon rest → wireDecls (c ++ rest) = some (ds, rest) := by
  induction h with
  | nil =>
    intro c rest hk hf
    have := kinds_eq_nil hk
    subst this
    rw [wireDecls_unfold]
    cases rest with
    | nil => rfl
    | cons hd tl =>
      obtain ⟨s, t, e⟩ := hd
      have : t = .Semicolon := hf
      subst this
      rfl
  | @one name w wd hw =>
    intro c rest hk hf
    obtain ⟨s1, e1, c1, rfl, h1⟩ := kinds_eq_cons hk
    obtain ⟨s2, e2, c2, rfl, h2⟩ := kinds_eq_cons h1
    obtain ⟨s3, e3, c3, rfl, h3⟩ := kinds_eq_cons h2
    have := kinds_eq_nil h3
    subst this
    rw [wireDecls_unfold]
    simp only [List.cons_append, List.nil_append, wireDeclsStep, smallConst, hw, if_true]
    cases rest with
    | nil => rfl
    | cons hd tl =>
      obtain ⟨s, t, e⟩ := hd
      have : t = .Semicolon := hf
      subst this
      rfl
  | @cons name w wd ds ts hw _ ih =>
    intro c rest hk hf
    obtain ⟨s1, e1, c1, rfl, h1⟩ := kinds_eq_cons hk
    obtain ⟨s2, e2, c2, rfl, h2⟩ := kinds_eq_cons h1
    obtain ⟨s3, e3, c3, rfl, h3⟩ := kinds_eq_cons h2
    obtain ⟨s4, e4, c4, rfl, h4⟩ := kinds_eq_cons h3
    rw [wireDecls_unfold]
    simp only [List.cons_append, wireDeclsStep, smallConst, hw, if_true, ih c4 rest h4 hf]

/-- the token list is empty or starts with `,`, `;` or `}`: what can follow an expression at the statement level -/
def Closer : Toks → Prop
  | [] => True
  | (_, t, _) :: _ => t = .Comma ∨ t = .Semicolon ∨ t = .CloseBrace

theorem Closer.stopAt : ∀ {rest : Toks}, Closer rest → StopAt 0 rest
  | [], _ => trivial
  | (_, t, _) :: _, hf => by
    have h : t = .Comma ∨ t = .Semicolon ∨ t = .CloseBrace := hf
    rcases h with rfl | rfl | rfl <;> exact stopAt_cons_none rfl

theorem Follow.closer {stop : Tok} (h : stop = .Comma ∨ stop = .Semicolon ∨ stop = .CloseBrace) :
    ∀ {rest : Toks}, Follow stop rest → Closer rest
  | [], _ => trivial
  | (_, t, _) :: _, hf => by
    have : t = stop := hf
    subst this
    exact h

theorem closer_comma (s e : Nat) (tl : Toks) : Closer ((s, .Comma, e) :: tl) := Or.inl rfl
theorem closer_semi (s e : Nat) (tl : Toks) : Closer ((s, .Semicolon, e) :: tl) := Or.inr (Or.inl rfl)

theorem kinds_eq_append : ∀ {c : Toks} {a b : List Tok}, kinds c = a ++ b → ∃ ca cb, c = ca ++ cb ∧ kinds ca = a ∧ kinds cb = b
  | c, [], b, h => ⟨[], c, rfl, rfl, h⟩
  | c, t :: a, b, h => by
    obtain ⟨s, e, c1, rfl, h1⟩ := kinds_eq_cons (by simpa using h)
    obtain ⟨ca, cb, rfl, h2, h3⟩ := kinds_eq_append h1
    exact ⟨(s, t, e) :: ca, cb, rfl, by rw [kinds_cons, h2], h3⟩

/-! ### `Commas<ConstDecl>` -/

inductive DConsts : List ConstDecl → List Tok → Prop
  | nil : DConsts [] []
  | one {name : String} {v : Ex} {ts : List Tok} : D (.tier 0) (.e v) ts →
      DConsts [⟨name, v⟩] (.Identifier name :: .Assign :: ts)
  | cons {name : String} {v : Ex} {ts : List Tok} {ds : List ConstDecl} {ts' : List Tok} : D (.tier 0) (.e v) ts →
      DConsts ds ts' → DConsts (⟨name, v⟩ :: ds) (.Identifier name :: .Assign :: (ts ++ .Comma :: ts'))

theorem constDecls_sound : ∀ (n : Nat) (ts : Toks), ts.length < n → ∀ ds rest, constDecls ts = some (ds, rest) →
    ∃ c, ts = c ++ rest ∧ DConsts ds (kinds c)
  | 0, _, hn, _, _, _ => by omega
  | n + 1, ts, hn, ds, rest, h => by
    rw [constDecls_unfold] at h
    unfold constDeclsStep at h
    split at h
    · rename_i s name e s' e' rest0
      cases hs : parseE rest0 with
      | none => simp only [hs] at h; cases h
      | some r =>
        obtain ⟨v, rest1⟩ := r
        obtain ⟨ce, hce, de⟩ := parseE_sound _ _ _ hs
        have hl := parseE_consumes hs
        simp only [hs] at h
        split at h
        · rename_i s2 e2 rest2
          cases hk2 : constDecls rest2 with
          | none => simp only [hk2] at h; cases h
          | some r2 =>
            obtain ⟨ds2, rest3⟩ := r2
            simp only [hk2] at h
            cases h
            obtain ⟨c2, hc2, d2⟩ := constDecls_sound n rest2 (by simp only [List.length_cons] at hn hl; omega) _ _ hk2
            refine ⟨(s, .Identifier name, e) :: (s', .Assign, e') :: (ce ++ (s2, .Comma, e2) :: c2),
              by rw [hce, hc2]; simp, ?_⟩
            simp only [kinds_cons, kinds_app]
            exact DConsts.cons de d2
        · cases h
          refine ⟨(s, .Identifier name, e) :: (s', .Assign, e') :: ce, by rw [hce]; simp, ?_⟩
          simp only [kinds_cons]
          exact DConsts.one de
    · cases h
      exact ⟨[], rfl, DConsts.nil⟩

theorem constDecls_complete {ds : List ConstDecl} {cs : List Tok} (h : DConsts ds cs) : ∀ (c rest : Toks), kinds c = cs →
    Follow .Semicolon rest → constDecls (c ++ rest) = some (ds, rest) := by
  induction h with
  | nil =>
    intro c rest hk hf
    have := kinds_eq_nil hk
    subst this
    rw [constDecls_unfold]
    cases rest with
    | nil => rfl
    | cons hd tl =>
      obtain ⟨s, t, e⟩ := hd
      have : t = .Semicolon := hf
      subst this
      rfl
  | @one name v ts d =>
    intro c rest hk hf
    obtain ⟨s1, e1, c1, rfl, h1⟩ := kinds_eq_cons hk
    obtain ⟨s2, e2, c2, rfl, h2⟩ := kinds_eq_cons h1
    rw [constDecls_unfold]
    simp only [List.cons_append, constDeclsStep,
      parseE_complete_tail d c2 rest h2 (hf.closer (Or.inr (Or.inl rfl))).stopAt]
    cases rest with
    | nil => rfl
    | cons hd tl =>
      obtain ⟨s, t, e⟩ := hd
      have : t = .Semicolon := hf
      subst this
      rfl
  | @cons name v ts ds ts' d _ ih =>
    intro c rest hk hf
    obtain ⟨s1, e1, c1, rfl, h1⟩ := kinds_eq_cons hk
    obtain ⟨s2, e2, c2, rfl, h2⟩ := kinds_eq_cons h1
    obtain ⟨ce, cb, rfl, h3, h4⟩ := kinds_eq_append h2
    obtain ⟨s3, e3, c3, rfl, h5⟩ := kinds_eq_cons h4
    rw [constDecls_unfold]
    simp only [List.cons_append, List.append_assoc, constDeclsStep,
      parseE_complete_tail d ce ((s3, .Comma, e3) :: (c3 ++ rest)) h3 (closer_comma _ _ _).stopAt, ih c3 rest h5 hf]

/-! ### `Commas1<Assignment>` -/

inductive DTargets : List String → List Tok → Prop
  | nil : DTargets [] []
  | cons {name : String} {names : List String} {ts : List Tok} : DTargets names ts →
      DTargets (name :: names) (.Identifier name :: .Assign :: ts)

inductive DAssignment : Assignment → List Tok → Prop
  | mk {names : List String} {v : Ex} {tk ek : List Tok} : names ≠ [] → DTargets names tk → D (.tier 0) (.e v) ek →
      DAssignment ⟨names, v⟩ (tk ++ ek)

inductive DAssigns : List Assignment → List Tok → Prop
  | one {a : Assignment} {ts : List Tok} : DAssignment a ts → DAssigns [a] ts
  | oneComma {a : Assignment} {ts : List Tok} : DAssignment a ts → DAssigns [a] (ts ++ [.Comma])
  | cons {a : Assignment} {ts : List Tok} {as : List Assignment} {ts' : List Tok} : DAssignment a ts → DAssigns as ts' →
      DAssigns (a :: as) (ts ++ .Comma :: ts')

theorem parseTargets_sound : ∀ (n : Nat) (ts : Toks), ts.length < n →
    ∃ tt, ts = tt ++ (parseTargets ts).2 ∧ DTargets (parseTargets ts).1 (kinds tt)
  | 0, _, hn => by omega
  | n + 1, ts, hn => by
    cases ts with
    | nil => exact ⟨[], rfl, DTargets.nil⟩
    | cons hd tl =>
      obtain ⟨s, t, e⟩ := hd
      cases t with
      | Identifier name =>
        cases tl with
        | nil => exact ⟨[], rfl, DTargets.nil⟩
        | cons hd2 tl2 =>
          obtain ⟨s2, t2, e2⟩ := hd2
          cases t2 with
          | Assign =>
            obtain ⟨tt, h1, h2⟩ := parseTargets_sound n tl2 (by simp only [List.length_cons] at hn; omega)
            simp only [parseTargets]
            refine ⟨(s, .Identifier name, e) :: (s2, .Assign, e2) :: tt, ?_, ?_⟩
            · simp only [List.cons_append, List.cons.injEq, true_and]
              exact h1
            · exact DTargets.cons h2
          | _ => exact ⟨[], rfl, DTargets.nil⟩
      | _ => exact ⟨[], rfl, DTargets.nil⟩

/-- the token list does not start with a target `name =` -/
def NoTarget (L : Toks) : Prop := ∀ s n e s' e' tl, L ≠ (s, .Identifier n, e) :: (s', .Assign, e') :: tl

theorem parseTargets_stop (L : Toks) (h : NoTarget L) : parseTargets L = ([], L) := by
  cases L with
  | nil => rfl
  | cons hd tl =>
    obtain ⟨s, t, e⟩ := hd
    cases t with
    | Identifier name =>
      cases tl with
      | nil => rfl
      | cons hd2 tl2 =>
        obtain ⟨s2, t2, e2⟩ := hd2
        cases t2 with
        | Assign => exact absurd rfl (h s name e s2 e2 tl2)
        | _ => rfl
    | _ => rfl

theorem parseTargets_complete {names : List String} {tk : List Tok} (h : DTargets names tk) : ∀ (tt L : Toks),
    kinds tt = tk → NoTarget L → parseTargets (tt ++ L) = (names, L) := by
  induction h with
  | nil =>
    intro tt L hk hL
    have := kinds_eq_nil hk
    subst this
    exact parseTargets_stop L hL
  | @cons name names ts _ ih =>
    intro tt L hk hL
    obtain ⟨s1, e1, c1, rfl, h1⟩ := kinds_eq_cons hk
    obtain ⟨s2, e2, c2, rfl, h2⟩ := kinds_eq_cons h1
    simp only [List.cons_append, parseTargets, ih c2 L h2 hL]

/-- an expression followed by `,`, `;`, `}` or nothing does not start with a target -/
theorem noTarget_expr {v : Ex} {ek : List Tok} (d : D (.tier 0) (.e v) ek) (ce rest : Toks) (hk : kinds ce = ek)
    (hr : Closer rest) : NoTarget (ce ++ rest) := by
  intro s n e s' e' tl heq
  have hna := D_no_assign d
  cases ce with
  | nil =>
    simp only [List.nil_append] at heq
    subst heq
    have h : Tok.Identifier n = .Comma ∨ Tok.Identifier n = .Semicolon ∨ Tok.Identifier n = .CloseBrace := hr
    rcases h with h | h | h <;> cases h
  | cons a ce1 =>
    cases ce1 with
    | nil =>
      simp only [List.cons_append, List.nil_append, List.cons.injEq] at heq
      obtain ⟨_, heq2⟩ := heq
      subst heq2
      have h : Tok.Assign = .Comma ∨ Tok.Assign = .Semicolon ∨ Tok.Assign = .CloseBrace := hr
      rcases h with h | h | h <;> cases h
    | cons b ce2 =>
      simp only [List.cons_append, List.cons.injEq] at heq
      obtain ⟨_, hb, _⟩ := heq
      subst hb
      apply hna
      rw [← hk]
      simp [kinds]

theorem parseAssignment_sound (ts : Toks) (a : Assignment) (rest : Toks) (h : parseAssignment ts = some (a, rest)) :
    ∃ c, ts = c ++ rest ∧ DAssignment a (kinds c) := by
  unfold parseAssignment at h
  obtain ⟨tt, h1, h2⟩ := parseTargets_sound (ts.length + 1) ts (Nat.lt_succ_self _)
  generalize parseTargets ts = p at h h1 h2
  obtain ⟨names, rest0⟩ := p
  simp only at h1 h2
  cases names with
  | nil => cases h
  | cons nm nms =>
    simp only at h
    cases he : parseE rest0 with
    | none => simp only [he] at h; cases h
    | some r =>
      obtain ⟨v, rest1⟩ := r
      simp only [he] at h
      cases h
      obtain ⟨ce, hce, de⟩ := parseE_sound _ _ _ he
      refine ⟨tt ++ ce, by rw [h1, hce]; simp, ?_⟩
      rw [kinds_app]
      exact DAssignment.mk (List.cons_ne_nil _ _) h2 de

theorem parseAssignment_complete {a : Assignment} {cs : List Tok} (h : DAssignment a cs) (c rest : Toks) (hk : kinds c = cs)
    (hr : Closer rest) : parseAssignment (c ++ rest) = some (a, rest) := by
  cases h with
  | @mk names v tk ek hne dt de =>
    obtain ⟨tt, ce, rfl, h1, h2⟩ := kinds_eq_append hk
    unfold parseAssignment
    rw [List.append_assoc, parseTargets_complete dt tt (ce ++ rest) h1 (noTarget_expr de ce rest h2 hr)]
    cases names with
    | nil => exact absurd rfl hne
    | cons nm nms =>
      simp only [parseE_complete_tail de ce rest h2 hr.stopAt]

theorem DTargets_head {names : List String} {tk : List Tok} (h : DTargets names tk) (hne : names ≠ []) :
    ∃ n r, tk = .Identifier n :: r := by
  cases h with
  | nil => exact absurd rfl hne
  | cons _ => exact ⟨_, _, rfl⟩

theorem DAssignment_head {a : Assignment} {ts : List Tok} (h : DAssignment a ts) : ∃ n r, ts = .Identifier n :: r := by
  cases h with
  | mk hne dt _ =>
    obtain ⟨n, r, rfl⟩ := DTargets_head dt hne
    exact ⟨n, _, rfl⟩

theorem DAssigns_head {as : List Assignment} {ts : List Tok} (h : DAssigns as ts) : ∃ n r, ts = .Identifier n :: r := by
  cases h with
  | one d => exact DAssignment_head d
  | oneComma d => obtain ⟨n, r, rfl⟩ := DAssignment_head d; exact ⟨n, _, rfl⟩
  | cons d _ => obtain ⟨n, r, rfl⟩ := DAssignment_head d; exact ⟨n, _, rfl⟩

theorem assigns_sound : ∀ (n : Nat) (ts : Toks), ts.length < n → ∀ as rest, assigns ts = some (as, rest) →
    ∃ c, ts = c ++ rest ∧ DAssigns as (kinds c)
  | 0, _, hn, _, _, _ => by omega
  | n + 1, ts, hn, as, rest, h => by
    rw [assigns_unfold] at h
    unfold assignsStep at h
    cases ha : parseAssignment ts with
    | none => simp only [ha] at h; cases h
    | some r =>
      obtain ⟨a, rest1⟩ := r
      obtain ⟨ca, hca, da⟩ := parseAssignment_sound _ _ _ ha
      have hl := parseAssignment_consumes ha
      simp only [ha] at h
      split at h
      · rename_i s1 e1 s name e rest2
        cases hk2 : assigns ((s, Tok.Identifier name, e) :: rest2) with
        | none => simp only [hk2] at h; cases h
        | some r2 =>
          obtain ⟨as2, rest3⟩ := r2
          simp only [hk2] at h
          cases h
          obtain ⟨c2, hc2, d2⟩ := assigns_sound n _ (by simp only [List.length_cons] at hn hl ⊢; omega) _ _ hk2
          refine ⟨ca ++ (s1, .Comma, e1) :: c2, by rw [hca, hc2]; simp, ?_⟩
          simp only [kinds_cons, kinds_app]
          exact DAssigns.cons da d2
      · rename_i s1 e1 rest2 _
        cases h
        refine ⟨ca ++ [(s1, .Comma, e1)], by rw [hca]; simp, ?_⟩
        simp only [kinds_cons, kinds_app, kinds_nil]
        exact DAssigns.oneComma da
      · cases h
        exact ⟨ca, hca, DAssigns.one da⟩

theorem follow_semi_cases {rest : Toks} (hf : Follow .Semicolon rest) : rest = [] ∨ ∃ s e tl, rest = (s, .Semicolon, e) :: tl := by
  cases rest with
  | nil => exact Or.inl rfl
  | cons hd tl =>
    obtain ⟨s, t, e⟩ := hd
    have : t = .Semicolon := hf
    subst this
    exact Or.inr ⟨s, e, tl, rfl⟩

theorem assigns_complete {as : List Assignment} {cs : List Tok} (h : DAssigns as cs) : ∀ (c rest : Toks), kinds c = cs →
    Follow .Semicolon rest → assigns (c ++ rest) = some (as, rest) := by
  induction h with
  | @one a ts d =>
    intro c rest hk hf
    rw [assigns_unfold]
    unfold assignsStep
    rw [parseAssignment_complete d c rest hk (hf.closer (Or.inr (Or.inl rfl)))]
    rcases follow_semi_cases hf with rfl | ⟨s, e, tl, rfl⟩ <;> rfl
  | @oneComma a ts d =>
    intro c rest hk hf
    obtain ⟨ca, cb, rfl, h1, h2⟩ := kinds_eq_append hk
    obtain ⟨s1, e1, c1, rfl, h3⟩ := kinds_eq_cons h2
    have := kinds_eq_nil h3
    subst this
    rw [assigns_unfold]
    unfold assignsStep
    rw [List.append_assoc]
    simp only [List.cons_append, List.nil_append]
    rw [parseAssignment_complete d ca _ h1 (closer_comma s1 e1 _)]
    rcases follow_semi_cases hf with rfl | ⟨s, e, tl, rfl⟩ <;> rfl
  | @cons a ts as ts' d das ih =>
    intro c rest hk hf
    obtain ⟨ca, cb, rfl, h1, h2⟩ := kinds_eq_append hk
    obtain ⟨s1, e1, c1, rfl, h3⟩ := kinds_eq_cons h2
    obtain ⟨n, r, hts'⟩ := DAssigns_head das
    subst hts'
    obtain ⟨s2, e2, c2, rfl, h4⟩ := kinds_eq_cons h3
    rw [assigns_unfold]
    unfold assignsStep
    rw [List.append_assoc]
    simp only [List.cons_append]
    rw [parseAssignment_complete d ca _ h1 (closer_comma s1 e1 _)]
    have := ih ((s2, .Identifier n, e2) :: c2) rest (by rw [kinds_cons, h4]) hf
    simp only [List.cons_append] at this ⊢
    simp only [this]

/-! ### `Semicolons<RegisterDecl>` and `RegisterBankDecl` -/

inductive DRegs : List RegDecl → List Tok → Prop
  | nil : DRegs [] []
  | one {name : String} {w : Nat} {wd : Width} {v : Ex} {ts : List Tok} : w ≤ 128 → D (.tier 0) (.e v) ts →
      DRegs [⟨name, .bits w, v⟩] (.Identifier name :: .Colon :: .Constant ⟨w, wd⟩ :: .Assign :: ts)
  | cons {name : String} {w : Nat} {wd : Width} {v : Ex} {ts : List Tok} {ds : List RegDecl} {ts' : List Tok} : w ≤ 128 →
      D (.tier 0) (.e v) ts → DRegs ds ts' →
      DRegs (⟨name, .bits w, v⟩ :: ds) (.Identifier name :: .Colon :: .Constant ⟨w, wd⟩ :: .Assign :: (ts ++ .Semicolon :: ts'))

inductive DBank : BankDecl → List Tok → Prop
  | mk {name : String} {regs : List RegDecl} {ts : List Tok} : DRegs regs ts →
      DBank ⟨name, regs⟩ (.Identifier name :: .OpenBrace :: (ts ++ [.CloseBrace]))

theorem regDecls_sound : ∀ (n : Nat) (ts : Toks), ts.length < n → ∀ ds rest, regDecls ts = some (ds, rest) →
    ∃ c, ts = c ++ rest ∧ DRegs ds (kinds c)
  | 0, _, hn, _, _, _ => by omega
  | n + 1, ts, hn, ds, rest, h => by
    rw [regDecls_unfold] at h
    unfold regDeclsStep at h
    split at h
    · rename_i s name e s' e' rest0
      cases hs : smallConst rest0 with
      | none => simp only [hs] at h; cases h
      | some r =>
        obtain ⟨w, a, b, rest1⟩ := r
        obtain ⟨v, hv1, hv2, hv3⟩ := smallConst_inv hs
        subst hv1 hv2
        simp only [hs] at h
        cases hx : expect Tok.Assign rest1 with
        | none => simp only [hx] at h; cases h
        | some r2 =>
          obtain ⟨a2, b2, rest2⟩ := r2
          have hx' := expect_inv hx
          subst hx'
          simp only [hx] at h
          cases hv : parseE rest2 with
          | none => simp only [hv] at h; cases h
          | some r3 =>
            obtain ⟨x, rest3⟩ := r3
            obtain ⟨ce, hce, de⟩ := parseE_sound _ _ _ hv
            have hl := parseE_consumes hv
            simp only [hv] at h
            split at h
            · rename_i s4 e4 rest4
              cases hk2 : regDecls rest4 with
              | none => simp only [hk2] at h; cases h
              | some r4 =>
                obtain ⟨ds2, rest5⟩ := r4
                simp only [hk2] at h
                cases h
                obtain ⟨c2, hc2, d2⟩ := regDecls_sound n rest4 (by simp only [List.length_cons] at hn hl; omega) _ _ hk2
                refine ⟨(s, .Identifier name, e) :: (s', .Colon, e') :: (a, .Constant v, b) :: (a2, .Assign, b2) ::
                  (ce ++ (s4, .Semicolon, e4) :: c2), by rw [hce, hc2]; simp, ?_⟩
                simp only [kinds_cons, kinds_app]
                exact DRegs.cons (wd := v.width) hv3 de d2
            · cases h
              refine ⟨(s, .Identifier name, e) :: (s', .Colon, e') :: (a, .Constant v, b) :: (a2, .Assign, b2) :: ce,
                by rw [hce]; simp, ?_⟩
              simp only [kinds_cons]
              exact DRegs.one (wd := v.width) hv3 de
    · cases h
      exact ⟨[], rfl, DRegs.nil⟩

theorem follow_brace_cases {rest : Toks} (hf : Follow .CloseBrace rest) :
    rest = [] ∨ ∃ s e tl, rest = (s, .CloseBrace, e) :: tl := by
  cases rest with
  | nil => exact Or.inl rfl
  | cons hd tl =>
    obtain ⟨s, t, e⟩ := hd
    have : t = .CloseBrace := hf
    subst this
    exact Or.inr ⟨s, e, tl, rfl⟩

theorem regDecls_complete {ds : List RegDecl} {cs : List Tok} (h : DRegs ds cs) : ∀ (c rest : Toks), kinds c = cs →
    Follow .CloseBrace rest → regDecls (c ++ rest) = some (ds, rest) := by
  induction h with
  | nil =>
    intro c rest hk hf
    have := kinds_eq_nil hk
    subst this
    rw [regDecls_unfold]
    rcases follow_brace_cases hf with rfl | ⟨s, e, tl, rfl⟩ <;> rfl
  | @one name w wd v ts hw d =>
    intro c rest hk hf
    obtain ⟨s1, e1, c1, rfl, h1⟩ := kinds_eq_cons hk
    obtain ⟨s2, e2, c2, rfl, h2⟩ := kinds_eq_cons h1
    obtain ⟨s3, e3, c3, rfl, h3⟩ := kinds_eq_cons h2
    obtain ⟨s4, e4, c4, rfl, h4⟩ := kinds_eq_cons h3
    rw [regDecls_unfold]
    simp only [List.cons_append, regDeclsStep, smallConst, hw, if_true, expect, beq_self_eq_true,
      parseE_complete_tail d c4 rest h4 (hf.closer (Or.inr (Or.inr rfl))).stopAt]
    rcases follow_brace_cases hf with rfl | ⟨s, e, tl, rfl⟩ <;> rfl
  | @cons name w wd v ts ds ts' hw d _ ih =>
    intro c rest hk hf
    obtain ⟨s1, e1, c1, rfl, h1⟩ := kinds_eq_cons hk
    obtain ⟨s2, e2, c2, rfl, h2⟩ := kinds_eq_cons h1
    obtain ⟨s3, e3, c3, rfl, h3⟩ := kinds_eq_cons h2
    obtain ⟨s4, e4, c4, rfl, h4⟩ := kinds_eq_cons h3
    obtain ⟨ce, cb, rfl, h5, h6⟩ := kinds_eq_append h4
    obtain ⟨s5, e5, c5, rfl, h7⟩ := kinds_eq_cons h6
    rw [regDecls_unfold]
    simp only [List.cons_append, List.append_assoc, regDeclsStep, smallConst, hw, if_true, expect, beq_self_eq_true,
      parseE_complete_tail d ce ((s5, .Semicolon, e5) :: (c5 ++ rest)) h5 (closer_semi _ _ _).stopAt, ih c5 rest h7 hf]

theorem parseBank_sound (ts : Toks) (b : BankDecl) (rest : Toks) (h : parseBank ts = some (b, rest)) :
    ∃ c, ts = c ++ rest ∧ DBank b (kinds c) := by
  unfold parseBank at h
  split at h
  · rename_i s name e s' e' rest0
    cases hr : regDecls rest0 with
    | none => simp only [hr] at h; cases h
    | some r =>
      obtain ⟨regs, rest1⟩ := r
      obtain ⟨c1, hc1, d1⟩ := regDecls_sound _ rest0 (Nat.lt_succ_self _) _ _ hr
      simp only [hr] at h
      cases hx : expect Tok.CloseBrace rest1 with
      | none => simp only [hx] at h; cases h
      | some r2 =>
        obtain ⟨a2, b2, rest2⟩ := r2
        have hx' := expect_inv hx
        simp only [hx] at h
        cases h
        refine ⟨(s, .Identifier name, e) :: (s', .OpenBrace, e') :: (c1 ++ [(a2, .CloseBrace, b2)]),
          by rw [hc1, hx']; simp, ?_⟩
        simp only [kinds_cons, kinds_app, kinds_nil]
        exact DBank.mk d1
  · cases h

theorem parseBank_complete {b : BankDecl} {cs : List Tok} (h : DBank b cs) (c rest : Toks) (hk : kinds c = cs) :
    parseBank (c ++ rest) = some (b, rest) := by
  cases h with
  | @mk name regs ts d =>
    obtain ⟨s1, e1, c1, rfl, h1⟩ := kinds_eq_cons hk
    obtain ⟨s2, e2, c2, rfl, h2⟩ := kinds_eq_cons h1
    obtain ⟨cr, cb, rfl, h3, h4⟩ := kinds_eq_append h2
    obtain ⟨s3, e3, c3, rfl, h5⟩ := kinds_eq_cons h4
    have := kinds_eq_nil h5
    subst this
    have hr := regDecls_complete d cr ((s3, .CloseBrace, e3) :: rest) h3 rfl
    simp only [List.cons_append, List.append_assoc, List.nil_append, parseBank, hr, expect, beq_self_eq_true, if_true]

/-! ### `StatementNeedSemi` and `Statements` -/

inductive DNeed : Stmt → List Tok → Prop
  | wires {ds : List WireDecl} {ts : List Tok} : DWires ds ts → DNeed (.wires ds) (.Wire :: ts)
  | consts {ds : List ConstDecl} {ts : List Tok} : DConsts ds ts → DNeed (.consts ds) (.Const :: ts)
  | assigns {as : List Assignment} {ts : List Tok} : DAssigns as ts → DNeed (.assigns as) ts

/-- `Statements`: `started` says that something (a statement or a `;`... see `stmtsStep`) came before -/
inductive DS : Bool → List Stmt → List Tok → Prop
  | nil : DS true [] []
  | semi {l : List Stmt} {ts : List Tok} : DS true l ts → DS true l (.Semicolon :: ts)
  | bank {started : Bool} {b : BankDecl} {ts : List Tok} {l : List Stmt} {ts' : List Tok} : DBank b ts → DS true l ts' →
      DS started (.bank b :: l) (.Register :: (ts ++ ts'))
  | stmt {started : Bool} {st : Stmt} {ts : List Tok} {l : List Stmt} {ts' : List Tok} : DNeed st ts → DS true l ts' →
      DS started (st :: l) (ts ++ .Semicolon :: ts')
  | last {st : Stmt} {ts : List Tok} : DNeed st ts → DS true [st] ts

theorem parseNeedSemi_sound (ts : Toks) (st : Stmt) (rest : Toks) (h : parseNeedSemi ts = some (st, rest)) :
    ∃ c, ts = c ++ rest ∧ DNeed st (kinds c) := by
  unfold parseNeedSemi at h
  split at h
  · rename_i s e rest0
    cases hr : wireDecls rest0 with
    | none => simp only [hr] at h; cases h
    | some r =>
      obtain ⟨ds, rest1⟩ := r
      obtain ⟨c1, hc1, d1⟩ := wireDecls_sound _ rest0 (Nat.lt_succ_self _) _ _ hr
      simp only [hr] at h
      cases h
      exact ⟨(s, .Wire, e) :: c1, by rw [hc1]; rfl, DNeed.wires d1⟩
  · rename_i s e rest0
    cases hr : constDecls rest0 with
    | none => simp only [hr] at h; cases h
    | some r =>
      obtain ⟨ds, rest1⟩ := r
      obtain ⟨c1, hc1, d1⟩ := constDecls_sound _ rest0 (Nat.lt_succ_self _) _ _ hr
      simp only [hr] at h
      cases h
      exact ⟨(s, .Const, e) :: c1, by rw [hc1]; rfl, DNeed.consts d1⟩
  · rename_i s name e rest0
    cases hr : assigns ((s, Tok.Identifier name, e) :: rest0) with
    | none => simp only [hr] at h; cases h
    | some r =>
      obtain ⟨as, rest1⟩ := r
      obtain ⟨c1, hc1, d1⟩ := assigns_sound _ _ (Nat.lt_succ_self _) _ _ hr
      simp only [hr] at h
      cases h
      exact ⟨c1, hc1, DNeed.assigns d1⟩
  · cases h

theorem parseNeedSemi_complete {st : Stmt} {cs : List Tok} (h : DNeed st cs) (c rest : Toks) (hk : kinds c = cs)
    (hf : Follow .Semicolon rest) : parseNeedSemi (c ++ rest) = some (st, rest) := by
  cases h with
  | @wires ds ts d =>
    obtain ⟨s1, e1, c1, rfl, h1⟩ := kinds_eq_cons hk
    simp only [List.cons_append, parseNeedSemi, wireDecls_complete d c1 rest h1 hf]
  | @consts ds ts d =>
    obtain ⟨s1, e1, c1, rfl, h1⟩ := kinds_eq_cons hk
    simp only [List.cons_append, parseNeedSemi, constDecls_complete d c1 rest h1 hf]
  | @assigns as ts d =>
    obtain ⟨n, r, hts⟩ := DAssigns_head d
    subst hts
    obtain ⟨s1, e1, c1, rfl, h1⟩ := kinds_eq_cons hk
    have := assigns_complete d ((s1, .Identifier n, e1) :: c1) rest (by rw [kinds_cons, h1]) hf
    simp only [List.cons_append] at this ⊢
    simp only [parseNeedSemi, this]

/-- a statement that needs a semicolon starts with `wire`, `const` or a name -/
theorem DNeed_head {st : Stmt} {ts : List Tok} (h : DNeed st ts) :
    ∃ t r, ts = t :: r ∧ (t = .Wire ∨ t = .Const ∨ ∃ n, t = .Identifier n) := by
  cases h with
  | wires _ => exact ⟨_, _, rfl, Or.inl rfl⟩
  | consts _ => exact ⟨_, _, rfl, Or.inr (Or.inl rfl)⟩
  | assigns d => obtain ⟨n, r, rfl⟩ := DAssigns_head d; exact ⟨_, _, rfl, Or.inr (Or.inr ⟨n, rfl⟩)⟩

/-- `stmtsStep` in front of a statement that needs a semicolon -/
theorem stmtsStep_need (k : Toks → Option (List Stmt)) (started : Bool) (s e : Nat) (t : Tok) (tl : Toks)
    (ht : t = .Wire ∨ t = .Const ∨ ∃ n, t = .Identifier n) :
    stmtsStep k started ((s, t, e) :: tl) =
      match parseNeedSemi ((s, t, e) :: tl) with
      | none => none
      | some (st, rest1) =>
        match rest1 with
        | (_, .Semicolon, _) :: rest2 =>
          match k rest2 with
          | none => none
          | some more => some (st :: more)
        | [] => if started then some [st] else none
        | _ => none := by
  rcases ht with rfl | rfl | ⟨n, rfl⟩ <;> rfl

theorem stmts_sound : ∀ (n : Nat) (ts : Toks), ts.length < n → ∀ started l, stmtsOf started ts = some l →
    DS started l (kinds ts)
  | 0, _, hn, _, _, _ => by omega
  | n + 1, ts, hn, started, l, h => by
    rw [stmtsOf_unfold] at h
    unfold stmtsStep at h
    split at h
    · cases started with
      | true => simp only [if_true] at h; cases h; exact DS.nil
      | false => simp at h
    · rename_i s e rest
      cases started with
      | true =>
        simp only [if_true] at h
        exact DS.semi (stmts_sound n rest (by simp only [List.length_cons] at hn; omega) _ _ h)
      | false => simp at h
    · rename_i s e rest
      cases hb : parseBank rest with
      | none => simp only [hb] at h; cases h
      | some r =>
        obtain ⟨b, rest1⟩ := r
        obtain ⟨c1, hc1, d1⟩ := parseBank_sound _ _ _ hb
        have hl := parseBank_consumes hb
        simp only [hb] at h
        cases hk : stmtsOf true rest1 with
        | none => simp only [hk] at h; cases h
        | some more =>
          simp only [hk] at h
          cases h
          have d2 := stmts_sound n rest1 (by simp only [List.length_cons] at hn; omega) _ _ hk
          rw [hc1, kinds_cons, kinds_app]
          exact DS.bank d1 d2
    · rename_i t rest h1 h2
      cases hn' : parseNeedSemi (t :: rest) with
      | none => simp only [hn'] at h; cases h
      | some r =>
        obtain ⟨st, rest1⟩ := r
        obtain ⟨c1, hc1, d1⟩ := parseNeedSemi_sound _ _ _ hn'
        have hl := parseNeedSemi_consumes hn'
        simp only [hn'] at h
        split at h
        · rename_i s2 e2 rest2
          cases hk : stmtsOf true rest2 with
          | none => simp only [hk] at h; cases h
          | some more =>
            simp only [hk] at h
            cases h
            have d2 := stmts_sound n rest2 (by simp only [List.length_cons] at hn hl; omega) _ _ hk
            rw [hc1, kinds_app, kinds_cons]
            exact DS.stmt d1 d2
        · cases started with
          | true =>
            simp only [if_true] at h
            cases h
            rw [hc1, List.append_nil]
            exact DS.last d1
          | false => simp at h
        · cases h

theorem stmts_complete {started : Bool} {l : List Stmt} {cs : List Tok} (h : DS started l cs) : ∀ (c : Toks), kinds c = cs →
    stmtsOf started c = some l := by
  induction h with
  | nil =>
    intro c hk
    have := kinds_eq_nil hk
    subst this
    rfl
  | @semi l ts _ ih =>
    intro c hk
    obtain ⟨s1, e1, c1, rfl, h1⟩ := kinds_eq_cons hk
    rw [stmtsOf_unfold]
    simp only [stmtsStep, if_true]
    exact ih c1 h1
  | @bank started b ts l ts' db _ ih =>
    intro c hk
    obtain ⟨s1, e1, c1, rfl, h1⟩ := kinds_eq_cons hk
    obtain ⟨cb, c', rfl, h2, h3⟩ := kinds_eq_append h1
    rw [stmtsOf_unfold]
    simp only [stmtsStep, parseBank_complete db cb c' h2, ih c' h3]
  | @stmt started st ts l ts' dn _ ih =>
    intro c hk
    obtain ⟨cn, cb, rfl, h2, h3⟩ := kinds_eq_append hk
    obtain ⟨s1, e1, c', rfl, h4⟩ := kinds_eq_cons h3
    obtain ⟨t, r, hts, ht⟩ := DNeed_head dn
    subst hts
    obtain ⟨s0, e0, cn', rfl, h5⟩ := kinds_eq_cons h2
    have hp := parseNeedSemi_complete dn ((s0, t, e0) :: cn') ((s1, .Semicolon, e1) :: c') (by rw [kinds_cons, h5]) rfl
    rw [stmtsOf_unfold]
    simp only [List.cons_append] at hp ⊢
    rw [stmtsStep_need _ _ _ _ _ _ ht, hp]
    simp only [ih c' h4]
  | @last st ts dn =>
    intro c hk
    obtain ⟨t, r, hts, ht⟩ := DNeed_head dn
    subst hts
    obtain ⟨s0, e0, cn', rfl, h5⟩ := kinds_eq_cons hk
    have hp := parseNeedSemi_complete dn ((s0, t, e0) :: cn') [] (by rw [kinds_cons, h5]) trivial
    rw [stmtsOf_unfold]
    simp only [List.append_nil] at hp
    rw [stmtsStep_need _ _ _ _ _ _ ht, hp]
    rfl

/-- **The statement grammar is exactly what the statement-parser model accepts** (with more fuel than tokens, as
    `parseProgram` gives it): the tokens are parsed to the statements `l` iff their kinds are derived from `Statements`
    with `l`. -/
theorem parseStmts_iff_DS (f : Nat) (toks : Toks) (hf : toks.length < f) (l : List Stmt) :
    parseStmts f toks = some l ↔ DS false l (kinds toks) := by
  rw [parseStmts_eq_stmtsOf f toks hf]
  exact ⟨fun h => stmts_sound _ toks (Nat.lt_succ_self _) _ _ h, fun h => stmts_complete h toks rfl⟩

/-- at text level -/
theorem parseProgram_iff_DS (cls : CharCls) (text : List Char) (l : List Stmt) :
    parseProgram cls text = some l ↔ ∃ toks, tokensOf (lex cls text) = some toks ∧ DS false l (kinds toks) := by
  unfold parseProgram
  cases ht : tokensOf (lex cls text) with
  | none => simp
  | some toks =>
    simp only [Option.some.injEq, exists_eq_left']
    exact parseStmts_iff_DS _ toks (Nat.lt_succ_self _) l

/-- `wire a:8; a = 1` (the last statement without its semicolon) is derived from `Statements` -/
example : DS false [.wires [⟨"a", .bits 8⟩], .assigns [⟨["a"], .const ⟨1, .unlimited⟩⟩]]
    [.Wire, .Identifier "a", .Colon, .Constant ⟨8, .unlimited⟩, .Semicolon, .Identifier "a", .Assign,
      .Constant ⟨1, .unlimited⟩] := by
  have h := (parseStmts_iff_DS 9 (sp [.Wire, .Identifier "a", .Colon, .Constant ⟨8, .unlimited⟩, .Semicolon,
    .Identifier "a", .Assign, .Constant ⟨1, .unlimited⟩]) (by decide)
    [.wires [⟨"a", .bits 8⟩], .assigns [⟨["a"], .const ⟨1, .unlimited⟩⟩]]).1 (by decide +kernel)
  rwa [kinds_sp] at h

end Parser

#print axioms Parser.parseStmts_iff_DS
#print axioms Parser.parseProgram_iff_DS
