import Hcl.Proofs.ActionsVerdict
import Hcl.Proofs.ConstErrors
import Hcl.Proofs.ProgramVerdict
open Rust

/-! A rejected program gets the same diagnostics under every iteration order (up to their order, and up to which
    dependency loop is shown). -/

theorem assignmentsToActions_errors_order_independent (fl : Flags) (o₁ o₂ : Orders) (assignments : AMap Ex) (widths : AMap Width)
    (known : List String) (fixed : List FixedFunction) (declared : List String) (constants : AMap WireValue)
    (ds₁ ds₂ : List Diag) (ho₁ : OrdersOK o₁) (ho₂ : OrdersOK o₂) (ht : FixedTableOK fixed) (hk : assignments.keys.Nodup)
    (h₁ : assignmentsToActions fl o₁ assignments widths known fixed declared constants = .error ds₁)
    (h₂ : assignmentsToActions fl o₂ assignments widths known fixed declared constants = .error ds₂) :
    SameDiags ds₁ ds₂ := by
  unfold assignmentsToActions at h₁ h₂
  simp only at h₁ h₂
  obtain ⟨g0wf, g0nodes, g0edges⟩ := assignGraph_spec assignments known hk
  generalize hg0 : assignGraph assignments known = g0 at h₁ h₂ g0wf g0nodes g0edges
  generalize hpre : fixed.foldl (preprocessOne fl widths constants assignments known) { graph := g0 } = pre at h₁ h₂
  by_cases hpe : pre.errors.isEmpty = true
  · have hpe' : pre.errors = [] := by simpa using hpe
    simp only [hpe, Bool.not_true, Bool.false_eq_true, if_false] at h₁ h₂
    have hg0c : ∀ e ∈ g0.edges, assignments.contains e.2 = true := by
      intro e he
      obtain ⟨ex, hm, _⟩ := (g0edges e.1 e.2).mp he
      exact (AMap.contains_iff_mem_keys _ _).mpr (List.mem_map.mpr ⟨(e.2, ex), hm, rfl⟩)
    have hinit : PreFacts assignments known g0 [] ({ graph := g0 } : PreState) :=
      { noOut := by intro f hf; simp at hf
        byKeys := by simp [AMap.keys]
        byOut := by intro n f hf; simp at hf
        wf := g0wf
        nodes := fun n hn => hn
        edges := fun e he => Or.inl he
        noOutSub := List.Sublist.refl _
        edgesG0 := fun e he => he
        edgesFixed := by intro n f hf; simp at hf }
    have hpf := preprocess_fold_facts fl widths constants assignments known fixed ht g0 hg0c fixed [] _ (by simp) hinit
      (by rw [hpre]; exact hpe')
    rw [hpre] at hpf
    have hord : ∀ (order : List Node), (∀ pre' x post, order = pre' ++ x :: post → ∀ u, (u, x) ∈ pre.graph.edges → u ∈ pre') →
        ∀ pfx x post, order = pfx ++ x :: post →
        (∀ e, assignments.get? x = some e → ∀ r ∈ refs e, r ∈ ({ covered := known } : LoopState).covered ∨ r ∈ pfx) ∧
        (∀ f, assignments.get? x = none → pre.info.byOutput.get? x = some f → ∀ i ∈ f.inWires.map (·.1),
          i ∈ ({ covered := known } : LoopState).covered ∨ i ∈ pfx) := by
      intro order hordered pfx x post hsplit
      constructor
      · intro e he r hr
        by_cases hkn : known.contains r = true
        · left; simpa using hkn
        · right
          have hkn' : known.contains r = false := by simpa using hkn
          have hedge : (r, x) ∈ g0.edges := (g0edges r x).mpr ⟨e, AMap.mem_of_get? _ _ _ he, hr, hkn'⟩
          exact hordered pfx x post hsplit r (hpf.edgesG0 _ hedge)
      · intro f _ h2 i hi
        right
        exact hordered pfx x post hsplit i (hpf.edgesFixed x f (AMap.mem_of_get? _ _ _ h2) i hi)
    cases hs₁ : pre.graph.sort o₁ with
    | panic => exact absurd hs₁ (pre.graph.sort_ne_panic o₁ hpf.wf ho₁)
    | cycle c₁ =>
      obtain ⟨c₂, hc₂⟩ := (pre.graph.sort_verdict o₁ o₂ hpf.wf ho₁ ho₂).mp ⟨c₁, hs₁⟩
      rw [hs₁] at h₁; rw [hc₂] at h₂
      simp only [Except.error.injEq] at h₁ h₂
      exact Or.inl ⟨c₁, c₂, h₁.symm, h₂.symm⟩
    | ok order₁ =>
      obtain ⟨order₂, hs₂⟩ := pre.graph.sort_ok_of_ok o₁ o₂ hpf.wf ho₁ ho₂ order₁ hs₁
      rcases pre.graph.sort_spec o₁ hpf.wf ho₁ with ⟨o1', hso₁, hnd₁, hcover₁, hordered₁⟩ | ⟨c, hsc, _⟩
      · rcases pre.graph.sort_spec o₂ hpf.wf ho₂ with ⟨o2', hso₂, hnd₂, hcover₂, hordered₂⟩ | ⟨c, hsc, _⟩
        · rw [hs₁] at hso₁; cases hso₁
          rw [hs₂] at hso₂; cases hso₂
          rw [hs₁] at h₁; rw [hs₂] at h₂
          simp only at h₁ h₂
          obtain ⟨a1, a2⟩ := actionsLoop_errs fl assignments widths declared constants pre.info.byOutput order₁
            { covered := known } (hord order₁ hordered₁)
          obtain ⟨b1, b2⟩ := actionsLoop_errs fl assignments widths declared constants pre.info.byOutput order₂
            { covered := known } (hord order₂ hordered₂)
          generalize actionsLoop fl assignments widths declared constants pre.info.byOutput order₁ { covered := known } = st₁ at h₁ a1 a2
          generalize actionsLoop fl assignments widths declared constants pre.info.byOutput order₂ { covered := known } = st₂ at h₂ b1 b2
          have hperm : order₁.Perm order₂ := (List.perm_ext_iff_of_nodup hnd₁ hnd₂).mpr (fun a => by rw [hcover₁, hcover₂])
          simp only [List.nil_append] at a1 b1
          have hu₁ : st₁.seenUndeclared = order₁.filter (nameUndecl assignments declared pre.info.byOutput) := by
            rw [a2]
            have := dedupS_of_nodup_aux (order₁.filter (nameUndecl assignments declared pre.info.byOutput)) []
              (by rw [List.nil_append]; exact hnd₁.filter _)
            simpa using this
          have hu₂ : st₂.seenUndeclared = order₂.filter (nameUndecl assignments declared pre.info.byOutput) := by
            rw [b2]
            have := dedupS_of_nodup_aux (order₂.filter (nameUndecl assignments declared pre.info.byOutput)) []
              (by rw [List.nil_append]; exact hnd₂.filter _)
            simpa using this
          right
          split at h₁
          · cases h₁
          · split at h₂
            · cases h₂
            · simp only [Except.error.injEq] at h₁ h₂
              rw [← h₁, ← h₂, a1, b1, hu₁, hu₂]
              exact (hperm.flatMap_right _).append ((hperm.filter _).map _)
        · rw [hs₂] at hsc; cases hsc
      · rw [hs₁] at hsc; cases hsc
  · simp only [hpe] at h₁ h₂
    simp only [Bool.not_false, if_true, Except.error.injEq] at h₁ h₂
    rw [← h₁, ← h₂]
    exact SameDiags.refl _

/-- **a rejected program gets the same diagnostics on every run**: under any two iteration orders of the hash tables,
    the two lists hold the same diagnostics (same kinds, same names, same multiplicities) in some order -- or both
    report a dependency loop, possibly a different one -/
theorem Program_new_errors_order_independent (fl : Flags) (cls : CharClass) (o₁ o₂ : Orders) (stmts : List Stmt)
    (ds₁ ds₂ : List Diag) (ho₁ : OrdersOK o₁) (ho₂ : OrdersOK o₂) (hwf : StmtsWF stmts)
    (h₁ : Program.new fl cls o₁ y86FixedFunctions stmts = .error ds₁)
    (h₂ : Program.new fl cls o₂ y86FixedFunctions stmts = .error ds₂) : SameDiags ds₁ ds₂ := by
  unfold Program.new at h₁ h₂
  simp only at h₁ h₂
  generalize hs1 : List.foldl (step1Stmt _ _) (step1Init y86FixedFunctions) stmts = s1 at h₁ h₂
  have hs1' : stmts.foldl (step1Stmt (fixedNamesOf y86FixedFunctions)
      (y86FixedFunctions.filterMap fun f => f.outWire.map (·.1))) (step1Init y86FixedFunctions) = s1 := hs1
  obtain ⟨s1inv, _⟩ := step1_fold_inv (fixedNamesOf y86FixedFunctions)
    (y86FixedFunctions.filterMap fun f => f.outWire.map (·.1)) y86W0 stmts (step1Init y86FixedFunctions) hwf step1Init_inv
  rw [hs1'] at s1inv
  split at h₁
  · rename_i herrs1
    rw [if_pos herrs1] at h₂
    simp only [Except.error.injEq] at h₁ h₂
    rw [← h₁, ← h₂]; exact SameDiags.refl _
  · rename_i herrs1
    rw [if_neg herrs1] at h₂
    have hcr : constRefErrors s1 = [] := by
      simp only [Bool.not_eq_true', List.isEmpty_eq_false_iff, ne_eq, Decidable.not_not, List.append_eq_nil_iff] at herrs1
      exact herrs1.2
    have hrefs := constRefs_of_nil s1 hcr
    cases hc₁ : resolveConstants fl o₁ s1.constantsRaw with
    | error e₁ =>
      cases hc₂ : resolveConstants fl o₂ s1.constantsRaw with
      | error e₂ =>
        rw [hc₁] at h₁; rw [hc₂] at h₂
        simp only [Except.error.injEq] at h₁ h₂
        rw [← h₁, ← h₂]
        exact resolveConstants_errors_order_independent fl o₁ o₂ s1.constantsRaw ho₁ ho₂ s1inv.cKeys hrefs e₁ e₂ hc₁ hc₂
      | ok c₂ =>
        have := resolveConstants_order_independent fl o₂ o₁ s1.constantsRaw ho₂ ho₁ s1inv.cKeys hrefs c₂ hc₂
        rw [hc₁] at this; cases this
    | ok c₁ =>
      have hc₂ := resolveConstants_order_independent fl o₁ o₂ s1.constantsRaw ho₁ ho₂ s1inv.cKeys hrefs c₁ hc₁
      rw [hc₁] at h₁; rw [hc₂] at h₂
      simp only at h₁ h₂
      generalize hs3 : s1.banksRaw.foldl (step3Bank fl cls s1 c₁) { wireTypes := s1.wireTypes } = s3 at h₁ h₂
      split at h₁
      · rename_i herrs3
        rw [if_pos herrs3] at h₂
        simp only [Except.error.injEq] at h₁ h₂
        rw [← h₁, ← h₂]; exact SameDiags.refl _
      · rename_i herrs3
        rw [if_neg herrs3] at h₂
        split at h₁
        · rename_i hmiss
          rw [if_pos hmiss] at h₂
          simp only [Except.error.injEq] at h₁ h₂
          rw [← h₁, ← h₂]; exact SameDiags.refl _
        · rename_i hmiss
          rw [if_neg hmiss] at h₂
          split at h₁
          · rename_i e₁ ha₁
            split at h₂
            · rename_i e₂ ha₂
              simp only [Except.error.injEq] at h₁ h₂
              rw [← h₁, ← h₂]
              exact assignmentsToActions_errors_order_independent fl o₁ o₂ _ _ _ _ _ _ e₁ e₂ ho₁ ho₂ y86Fixed_table
                s1inv.aKeys ha₁ ha₂
            · cases h₂
          · cases h₁
