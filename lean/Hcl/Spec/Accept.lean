import Hcl.Spec.Machine

/-!
# Which programs are to be accepted (specification)

`faults fl stmts` lists what the property statements C08 (width rules), C09 (one driver per
wire) and C10 (no combinational loop) call a fault, each with the name concerned.  A program
is to be accepted exactly when the list is empty.  Written over the statement list, with no
reference to the checker's data structures or staging.
-/

namespace Spec

inductive FaultClass where
  | declaredTwice | assignedTwice | readUndeclared | assignedUndeclared | assignedDriven
  | neverAssigned | partialComponent | constReadsWire | badBankName | widthRule | loop
  deriving Repr, DecidableEq, Inhabited

structure Fault where
  cls : FaultClass
  name : String := ""
  deriving Repr, DecidableEq, Inhabited

def compatible (a b : Width) : Bool :=
  match a, b with
  | .unlimited, _ => true
  | _, .unlimited => true
  | .bits s, .bits t => s == t

def isBool (a : Width) : Bool :=
  match a with
  | .unlimited => true
  | .bits n => n == 1

/-- the common width of the arms of a case expression: all sized arms equal -/
def commonWidth : List Width → Option Width
  | [] => some .unlimited
  | w :: rest => do
      let r ← commonWidth rest
      if compatible w r then some (join w r) else none

/-- for each arm of a case expression: is its condition always true? -/
def condTruth (isTrue : Ex → Bool) : Opts → List Bool
  | .nil => []
  | .cons c _ rest => isTrue c :: condTruth isTrue rest

mutual
/-- the width rules of C08/C17; `none` = some rule is violated.
    `isTrue c` says whether a condition is "always true" (a constant expression with non-zero value). -/
def typeOf (fl : Flags) (Γ : String → Option Width) (isTrue : Ex → Bool) : Ex → Option Width
  | .const v => some v.width
  | .wire n => Γ n
  | .bin op l r => do
      let a ← typeOf fl Γ isTrue l
      let b ← typeOf fl Γ isTrue r
      match classOf op with
      | .arith => if fl.strictBinary && !compatible a b then none else some (join a b)
      | .bitwise => if compatible a b then some (join a b) else none
      | .compare => if compatible a b then some (.bits 1) else none
      | .logic => if fl.strictBoolean && !(isBool a && isBool b) then none else some (.bits 1)
  | .un .not e => do let _ ← typeOf fl Γ isTrue e; some (.bits 1)
  | .un _ e => typeOf fl Γ isTrue e
  | .slice e lo hi => do
      let a ← typeOf fl Γ isTrue e
      let within : Bool := match a with
        | .bits n => decide (hi ≤ n)
        | .unlimited => true
      if decide (lo ≤ hi) && within then some (.bits (hi - lo)) else none
  | .concat l r => do
      let a ← typeOf fl Γ isTrue l
      match a with
      | .unlimited => none
      | .bits x =>
        let b ← typeOf fl Γ isTrue r
        match b with
        | .unlimited => none
        | .bits y => if x + y ≤ 128 then some (.bits (x + y)) else none
  | .mux opts => do
      let ws ← typeOfOpts fl Γ isTrue opts
      let w ← commonWidth ws
      let trues := condTruth isTrue opts
      -- a default arm is required / at most one arm may be always true / nothing may follow an always-true arm
      if fl.requireMuxDefault && !trues.any id then none
      else if fl.disallowMultipleMuxDefault && decide ((trues.filter id).length > 1) then none
      else if fl.disallowUnreachable && trues.dropLast.any id then none
      else some w
  | .inSet e items => do
      let a ← typeOf fl Γ isTrue e
      let ws ← typeOfItems fl Γ isTrue items
      if ws.all (compatible a) then some (.bits 1) else none
/-- widths of the arm values (conditions only have to be well-formed) -/
def typeOfOpts (fl : Flags) (Γ : String → Option Width) (isTrue : Ex → Bool) : Opts → Option (List Width)
  | .nil => some []
  | .cons c v rest => do
      let _ ← typeOf fl Γ isTrue c
      let w ← typeOf fl Γ isTrue v
      let ws ← typeOfOpts fl Γ isTrue rest
      some (w :: ws)
def typeOfItems (fl : Flags) (Γ : String → Option Width) (isTrue : Ex → Bool) : Exs → Option (List Width)
  | .nil => some []
  | .cons e rest => do
      let w ← typeOf fl Γ isTrue e
      let ws ← typeOfItems fl Γ isTrue rest
      some (w :: ws)
end

def count (l : List String) (n : String) : Nat := (l.filter (· == n)).length
def dedup (l : List String) : List String := l.foldl (fun acc x => if acc.contains x then acc else acc ++ [x]) []

structure Component where
  inputs : List String
  output : Option String
  enable : Option String
  mandatory : Bool

def components : List Component :=
  [ ⟨["Stat"], none, none, true⟩, ⟨["pc"], some "i10bytes", none, true⟩,
    ⟨["mem_addr", "mem_readbit"], some "mem_output", some "mem_readbit", false⟩,
    ⟨["mem_addr", "mem_input", "mem_writebit"], none, some "mem_writebit", false⟩,
    ⟨["reg_srcA"], some "reg_outputA", none, false⟩, ⟨["reg_srcB"], some "reg_outputB", none, false⟩,
    ⟨["reg_dstE", "reg_inputE"], none, none, false⟩, ⟨["reg_dstM", "reg_inputM"], none, none, false⟩ ]

/-- does `u` reach itself through the edge list (non-empty path)? -/
def reaches (edges : List (String × String)) (fuel : Nat) (from_ : String) : List String :=
  let succs (u : String) : List String := (edges.filter (fun e => e.1 == u)).map (·.2)
  Nat.rec (succs from_) (fun _ acc => dedup (acc ++ acc.flatMap succs)) fuel

def cyclicNodes (edges : List (String × String)) : List String :=
  let nodes := dedup (edges.flatMap (fun e => [e.1, e.2]))
  nodes.filter (fun u => (reaches edges nodes.length u).contains u)

def faults (fl : Flags) (isLower isUpper : Char → Bool) (stmts : List Stmt) : List Fault :=
  let a := stmts.foldl elabStmt {}
  let d := design stmts
  let constNames := a.constDefs.map (·.1)
  let wireNames := a.wireWidths.map (·.1)
  let goodBanks := a.banks.filter fun b => match b.name.toList with
    | [i, o] => isLower i && isUpper o
    | _ => false
  let bankFaults : List Fault := (a.banks.filter (fun b => !goodBanks.any (fun g => g.name == b.name))).map
    (fun b => ⟨.badBankName, b.name⟩)
  let bankIn := goodBanks.flatMap fun b => b.regs.map fun r => String.ofList [b.name.toList.head!, '_'] ++ r.name
  let bankOut := goodBanks.flatMap fun b => b.regs.map fun r => String.ofList [b.name.toList.getLast!, '_'] ++ r.name
  let bankCtl := dedup (goodBanks.flatMap fun b =>
    ["stall_" ++ String.ofList [b.name.toList.getLast!], "bubble_" ++ String.ofList [b.name.toList.getLast!]])
  let builtinIn := dedup (components.flatMap (·.inputs))
  let builtinOut := components.filterMap (·.output)
  let allDecls := wireNames ++ constNames ++ bankIn ++ bankOut ++ bankCtl ++ builtinIn ++ builtinOut
  let declared (n : String) : Bool := allDecls.contains n
  let targets := a.assigns.map (·.1)
  let assigned (n : String) : Bool := targets.contains n
  let exprs : List Ex := a.assigns.map (·.2) ++ a.constDefs.map (·.2) ++ goodBanks.flatMap (fun b => b.regs.map (·.default))
  let readNames := dedup (exprs.flatMap refs)
  -- F1 declared twice
  let f1 := (dedup allDecls).filterMap fun n => if count allDecls n > 1 then some (⟨.declaredTwice, n⟩ : Fault) else none
  -- F2 assigned twice
  let f2 := (dedup targets).filterMap fun n => if count targets n > 1 then some (⟨.assignedTwice, n⟩ : Fault) else none
  -- F3 read but undeclared
  let f3 := readNames.filterMap fun n => if declared n then none else some (⟨.readUndeclared, n⟩ : Fault)
  -- F4 assigned but undeclared
  let f4 := (dedup targets).filterMap fun n => if declared n then none else some (⟨.assignedUndeclared, n⟩ : Fault)
  -- F5 assigning something that already has a driver
  let f5 := (dedup targets).filterMap fun n =>
    if bankOut.contains n || builtinOut.contains n || constNames.contains n then some (⟨.assignedDriven, n⟩ : Fault) else none
  -- F6 never assigned: declared wires, bank inputs, needed built-in inputs
  let f6a := (wireNames ++ bankIn).filterMap fun n => if assigned n then none else some (⟨.neverAssigned, n⟩ : Fault)
  let constEnv : String → Nat := d.consts.get
  let isConstExpr (e : Ex) : Bool := (refs e).all constNames.contains
  let f6b := components.flatMap fun c =>
    let missing := c.inputs.filter (fun i => !assigned i)
    let needed := c.mandatory || (match c.output with | some o => readNames.contains o || assigned o | none => false)
    let disabled := match c.enable with
      | some en => (match a.assigns.lookup en with
          | some e => isConstExpr e && dv d.Γ constEnv e == some 0
          | none => false)
      | none => false
    if missing.isEmpty then []
    else if needed then missing.map (fun i => (⟨.neverAssigned, i⟩ : Fault))
    else if missing.length < c.inputs.length && !disabled then [⟨.partialComponent, missing.head!⟩]
    else []
  -- a built-in input or a stall/bubble signal that is read must be driven
  let f6c := (builtinIn ++ bankCtl).filterMap fun n => if readNames.contains n && !assigned n then some (⟨.neverAssigned, n⟩ : Fault) else none
  -- F7 constants and register defaults may only read constants
  let f7 := (a.constDefs.map (·.2) ++ goodBanks.flatMap (fun b => b.regs.map (·.default))).flatMap fun e =>
    (dedup (refs e)).filterMap fun n => if declared n && !constNames.contains n then some (⟨.constReadsWire, n⟩ : Fault) else none
  -- width rules
  let isTrue (e : Ex) : Bool := isConstExpr e && (match dv d.Γ constEnv e with | some v => v != 0 | none => false)
  let wAssign := a.assigns.filterMap fun p =>
    match typeOf fl d.Γ isTrue p.2, d.Γ p.1 with
    | some ew, some tw => if compatible tw ew then none else some (⟨.widthRule, p.1⟩ : Fault)
    | none, _ => some ⟨.widthRule, p.1⟩
    | _, none => none
  let wConst := a.constDefs.filterMap fun p => match typeOf fl d.Γ isTrue p.2 with
    | some _ => (match dv d.Γ constEnv p.2 with | some _ => none | none => some (⟨.widthRule, p.1⟩ : Fault))
    | none => some ⟨.widthRule, p.1⟩
  let wDefault := goodBanks.flatMap fun b => b.regs.filterMap fun r => match typeOf fl d.Γ isTrue r.default with
    | some ew => if compatible r.width ew && (dv d.Γ constEnv r.default).isSome then none else some (⟨.widthRule, r.name⟩ : Fault)
    | none => some ⟨.widthRule, r.name⟩
  -- loops: assignments (minus constants and bank outputs) and combinational component paths
  let known (n : String) : Bool := constNames.contains n || bankOut.contains n
  let eAssign := a.assigns.flatMap fun p => (dedup (refs p.2)).filterMap fun n => if known n then none else some (n, p.1)
  let eComp := components.flatMap fun c => match c.output with
    | some o => if c.inputs.all assigned then c.inputs.map (fun i => (i, o)) else []
    | none => []
  let eConst := a.constDefs.flatMap fun p => (dedup (refs p.2)).map fun n => (n, p.1)
  let loops := (cyclicNodes (eAssign ++ eComp) ++ cyclicNodes eConst).map fun n => (⟨.loop, n⟩ : Fault)
  bankFaults ++ f1 ++ f2 ++ f3 ++ f4 ++ f5 ++ f6a ++ f6b ++ f6c ++ f7 ++ wAssign ++ wConst ++ wDefault ++ loops

/-! ### is a reported dependency loop real? (specification side of the oracle for loop reports) -/

/-- wire `u` is read by what drives `v`: a definition `v = e` or `const v = e` that mentions `u`, or a built-in
    component with output `v` and input `u` -/
def dependsOn (stmts : List Stmt) (u v : String) : Bool :=
  let a := stmts.foldl elabStmt {}
  (a.constDefs ++ a.assigns).any (fun p => p.1 == v && (refs p.2).contains u) ||
  components.any (fun c => c.output == some v && c.inputs.contains u)

/-- the names form a cycle of the dependency relation: each is read by what drives the next, the last by what drives the first -/
def loopReal (stmts : List Stmt) (c : List String) : Bool :=
  !c.isEmpty && ((c.zip (c.rotateLeft 1)).all fun p => dependsOn stmts p.1 p.2)

end Spec
