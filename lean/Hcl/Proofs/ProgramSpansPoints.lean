import Hcl.Proofs.ProgramSpansErase
import Hcl.Spec.DiagSpans
open Rust

/-! The spans of the diagnostics of step 1 of `Program.newSp` (redeclarations, double assignments, assigned constants,
    constants that read a wire or an undeclared name) are what `Spec.PointsAt` asks for. -/

namespace Parser
open Spec

/-- a diagnostic with spans is located as the specification asks -/
def WL (ss : List SStmt) (d : DiagSp) : Prop := PointsAt ss d.erase d.spans

/-! ### occurrences of a name -/

mutual
theorem refSpans_sub (n : String) : ∀ (x : PEx) (sp : Span), sp ∈ refSpans n x → ∃ s e, PEx.wire s e n ∈ subs x ∧ sp = (s, e)
  | .const _ _ _, sp, h => by simp [refSpans] at h
  | .wire s e m, sp, h => by
      unfold refSpans at h
      by_cases hm : m = n
      · subst hm; simp at h; exact ⟨s, e, by simp [subs], h⟩
      · simp [hm] at h
  | .bin s e op l r, sp, h => by
      simp only [refSpans, List.mem_append] at h
      rcases h with h | h
      · obtain ⟨a, b, h1, h2⟩ := refSpans_sub n l sp h; exact ⟨a, b, by simp [subs, h1], h2⟩
      · obtain ⟨a, b, h1, h2⟩ := refSpans_sub n r sp h; exact ⟨a, b, by simp [subs, h1], h2⟩
  | .un s e op x, sp, h => by
      simp only [refSpans] at h
      obtain ⟨a, b, h1, h2⟩ := refSpans_sub n x sp h; exact ⟨a, b, by simp [subs, h1], h2⟩
  | .slice s e x lo hi, sp, h => by
      simp only [refSpans] at h
      obtain ⟨a, b, h1, h2⟩ := refSpans_sub n x sp h; exact ⟨a, b, by simp [subs, h1], h2⟩
  | .concat s e l r, sp, h => by
      simp only [refSpans, List.mem_append] at h
      rcases h with h | h
      · obtain ⟨a, b, h1, h2⟩ := refSpans_sub n l sp h; exact ⟨a, b, by simp [subs, h1], h2⟩
      · obtain ⟨a, b, h1, h2⟩ := refSpans_sub n r sp h; exact ⟨a, b, by simp [subs, h1], h2⟩
  | .mux s e opts, sp, h => by
      simp only [refSpans] at h
      obtain ⟨a, b, h1, h2⟩ := refSpansOpts_sub n opts sp h; exact ⟨a, b, by simp [subs, h1], h2⟩
  | .inSet s e x items, sp, h => by
      simp only [refSpans, List.mem_append] at h
      rcases h with h | h
      · obtain ⟨a, b, h1, h2⟩ := refSpans_sub n x sp h; exact ⟨a, b, by simp [subs, h1], h2⟩
      · obtain ⟨a, b, h1, h2⟩ := refSpansExs_sub n items sp h; exact ⟨a, b, by simp [subs, h1], h2⟩
theorem refSpansOpts_sub (n : String) : ∀ (o : POpts) (sp : Span), sp ∈ refSpansOpts n o → ∃ s e, PEx.wire s e n ∈ subsOpts o ∧ sp = (s, e)
  | .nil, sp, h => by simp [refSpansOpts] at h
  | .cons c v rest, sp, h => by
      simp only [refSpansOpts, List.mem_append] at h
      rcases h with (h | h) | h
      · obtain ⟨a, b, h1, h2⟩ := refSpans_sub n c sp h; exact ⟨a, b, by simp [subsOpts, h1], h2⟩
      · obtain ⟨a, b, h1, h2⟩ := refSpans_sub n v sp h; exact ⟨a, b, by simp [subsOpts, h1], h2⟩
      · obtain ⟨a, b, h1, h2⟩ := refSpansOpts_sub n rest sp h; exact ⟨a, b, by simp [subsOpts, h1], h2⟩
theorem refSpansExs_sub (n : String) : ∀ (o : PExs) (sp : Span), sp ∈ refSpansExs n o → ∃ s e, PEx.wire s e n ∈ subsExs o ∧ sp = (s, e)
  | .nil, sp, h => by simp [refSpansExs] at h
  | .cons x rest, sp, h => by
      simp only [refSpansExs, List.mem_append] at h
      rcases h with h | h
      · obtain ⟨a, b, h1, h2⟩ := refSpans_sub n x sp h; exact ⟨a, b, by simp [subsExs, h1], h2⟩
      · obtain ⟨a, b, h1, h2⟩ := refSpansExs_sub n rest sp h; exact ⟨a, b, by simp [subsExs, h1], h2⟩
end

/-! ### the tables of step 1 hold spans of the program -/

structure Tbl (ss : List SStmt) (t : Step1Sp) : Prop where
  decl : ∀ p ∈ t.declSpans, p ∈ declsOf ss
  asg : ∀ p ∈ t.assignSpans, TargetOf ss p.1 p.2
  consts : ∀ p ∈ t.consts, p.2 ∈ exprsOf ss
  constDecl : ∀ n, AMap.contains t.consts n = true → AMap.contains t.declSpans n = true
  assigns : ∀ p ∈ t.assigns, ∃ sp, (p.1, sp, p.2) ∈ targetsOf ss
  assignsSp : ∀ n, AMap.contains t.assigns n = true → AMap.contains t.assignSpans n = true
  banks : ∀ b ∈ t.banks, b ∈ banksOf ss
  errs : ∀ d ∈ t.errs, WL ss d

theorem get?_mem {α} (m : AMap α) (k : String) (v : α) (h : AMap.get? m k = some v) : (k, v) ∈ m :=
  AMap.mem_of_get? m k v h

theorem ddErrs_wl (ss : List SStmt) (fixedNames : List String) (t : Step1Sp) (h : Tbl ss t) (name : String) (span : Span)
    (hd : (name, span) ∈ declsOf ss) : ∀ d ∈ ddErrs fixedNames t name span, WL ss d := by
  intro d hd2
  unfold ddErrs at hd2
  cases hg : AMap.get? t.declSpans name with
  | some other =>
    rw [hg] at hd2
    simp only [List.mem_singleton] at hd2
    subst hd2
    have := h.decl _ (get?_mem _ _ _ hg)
    simp only [WL, PointsAt, DiagSp.erase]
    exact ⟨Or.inl hd, this⟩
  | none =>
    rw [hg] at hd2
    by_cases hf : fixedNames.contains name = true
    · simp only [hf, if_true, List.mem_singleton] at hd2
      subst hd2
      simp only [WL, PointsAt, DiagSp.erase]
      exact hd
    · simp at hd2; exact absurd (by simpa using hd2.1) hf

theorem step1ConstSp_tbl (ss : List SStmt) (fixedNames : List String) (t : Step1Sp) (d : SConstDecl) (h : Tbl ss t)
    (hd : (d.name, d.nameSpan) ∈ declsOf ss ∧ d.value ∈ exprsOf ss) : Tbl ss (step1ConstSp fixedNames t d) := by
  constructor
  · intro p hp
    rcases AMap.mem_insert _ _ _ _ hp with hp | hp
    · exact h.decl p hp
    · rw [hp]; exact hd.1
  · exact h.asg
  · intro p hp
    rcases AMap.mem_insert _ _ _ _ hp with hp | hp
    · exact h.consts p hp
    · rw [hp]; exact hd.2
  · intro n hn
    simp only [step1ConstSp, AMap.contains_insert, Bool.or_eq_true] at hn ⊢
    rcases hn with hn | hn
    · exact Or.inl (h.constDecl n hn)
    · exact Or.inr hn
  · exact h.assigns
  · exact h.assignsSp
  · exact h.banks
  · intro e he
    simp only [step1ConstSp, List.mem_append] at he
    rcases he with he | he
    · exact h.errs e he
    · exact ddErrs_wl ss fixedNames t h _ _ hd.1 e he

theorem step1WireSp_tbl (ss : List SStmt) (fixedNames : List String) (t : Step1Sp) (d : SWireDecl) (h : Tbl ss t)
    (hd : (d.name, d.span) ∈ declsOf ss) : Tbl ss (step1WireSp fixedNames t d) := by
  constructor
  · intro p hp
    rcases AMap.mem_insert _ _ _ _ hp with hp | hp
    · exact h.decl p hp
    · rw [hp]; exact hd
  · exact h.asg
  · exact h.consts
  · intro n hn
    simp only [step1WireSp, AMap.contains_insert, Bool.or_eq_true]
    exact Or.inl (h.constDecl n hn)
  · exact h.assigns
  · exact h.assignsSp
  · exact h.banks
  · intro e he
    simp only [step1WireSp, List.mem_append] at he
    rcases he with he | he
    · exact h.errs e he
    · exact ddErrs_wl ss fixedNames t h _ _ hd e he

theorem step1NameSp_tbl (ss : List SStmt) (fixedOut : List String) (value : PEx) (t : Step1Sp) (nm : String × Span)
    (h : Tbl ss t) (hd : (nm.1, nm.2, value) ∈ targetsOf ss) : Tbl ss (step1NameSp fixedOut value t nm) := by
  constructor
  · exact h.decl
  · intro p hp
    rcases AMap.mem_insert _ _ _ _ hp with hp | hp
    · exact h.asg p hp
    · rw [hp]; exact ⟨value, hd⟩
  · exact h.consts
  · exact h.constDecl
  · intro p hp
    rcases AMap.mem_insert _ _ _ _ hp with hp | hp
    · exact h.assigns p hp
    · rw [hp]; exact ⟨nm.2, hd⟩
  · intro n hn
    simp only [step1NameSp, AMap.contains_insert, Bool.or_eq_true] at hn ⊢
    rcases hn with hn | hn
    · exact Or.inl (h.assignsSp n hn)
    · exact Or.inr hn
  · exact h.banks
  · intro e he
    simp only [step1NameSp, List.mem_append] at he
    rcases he with he | he
    · exact h.errs e he
    · cases hg : AMap.get? t.assignSpans nm.1 with
      | some other =>
        rw [hg] at he
        simp only [List.mem_singleton] at he
        subst he
        have := h.asg _ (get?_mem _ _ _ hg)
        simp only [WL, PointsAt, DiagSp.erase]
        exact ⟨⟨value, hd⟩, this⟩
      | none =>
        rw [hg] at he
        by_cases hf : fixedOut.contains nm.1 = true
        · simp only [hf, if_true, List.mem_singleton] at he
          subst he
          simp only [WL, PointsAt, DiagSp.erase]
          exact ⟨value, hd⟩
        · simp at he; exact absurd (by simpa using he.1) hf

theorem foldl_tbl {σ : Type} (ss : List SStmt) (f : Step1Sp → σ → Step1Sp) (P : σ → Prop)
    (hf : ∀ t x, Tbl ss t → P x → Tbl ss (f t x)) : ∀ (l : List σ) (t : Step1Sp), (∀ x ∈ l, P x) → Tbl ss t → Tbl ss (l.foldl f t)
  | [], _, _, h => h
  | x :: rest, t, hl, h => by
    simp only [List.foldl_cons]
    exact foldl_tbl ss f P hf rest _ (fun y hy => hl y (by simp [hy])) (hf t x h (hl x (by simp)))

theorem step1StmtSp_tbl (ss : List SStmt) (fixedNames fixedOut : List String) (t : Step1Sp) (st : SStmt) (h : Tbl ss t)
    (hst : st ∈ ss) : Tbl ss (step1StmtSp fixedNames fixedOut t st) := by
  cases st with
  | consts ds =>
    apply foldl_tbl ss (step1ConstSp fixedNames) (fun d => (d.name, d.nameSpan) ∈ declsOf ss ∧ d.value ∈ exprsOf ss)
      (fun t d ht hd => step1ConstSp_tbl ss fixedNames t d ht hd) ds t _ h
    intro d hd
    constructor
    · exact List.mem_flatMap.mpr ⟨_, hst, List.mem_map.mpr ⟨d, hd, rfl⟩⟩
    · exact List.mem_flatMap.mpr ⟨_, hst, List.mem_map.mpr ⟨d, hd, rfl⟩⟩
  | wires ds =>
    apply foldl_tbl ss (step1WireSp fixedNames) (fun d => (d.name, d.span) ∈ declsOf ss)
      (fun t d ht hd => step1WireSp_tbl ss fixedNames t d ht hd) ds t _ h
    intro d hd
    exact List.mem_flatMap.mpr ⟨_, hst, List.mem_map.mpr ⟨d, hd, rfl⟩⟩
  | assigns as =>
    apply foldl_tbl ss (step1AssignSp fixedOut) (fun a => ∀ nm ∈ a.names, (nm.1, nm.2, a.value) ∈ targetsOf ss)
      (fun t a ht ha => foldl_tbl ss (step1NameSp fixedOut a.value) (fun nm => (nm.1, nm.2, a.value) ∈ targetsOf ss)
        (fun t nm ht hnm => step1NameSp_tbl ss fixedOut a.value t nm ht hnm) a.names t ha ht) as t _ h
    intro a ha nm hnm
    exact List.mem_flatMap.mpr ⟨_, hst, List.mem_flatMap.mpr ⟨a, ha, List.mem_map.mpr ⟨nm, hnm, rfl⟩⟩⟩
  | bank b =>
    refine ⟨h.decl, h.asg, h.consts, h.constDecl, h.assigns, h.assignsSp, ?_, h.errs⟩
    intro b' hb'
    simp only [step1StmtSp, List.mem_append, List.mem_singleton] at hb'
    rcases hb' with hb' | hb'
    · exact h.banks b' hb'
    · rw [hb']; exact List.mem_flatMap.mpr ⟨_, hst, by simp⟩

theorem step1_tbl (ss : List SStmt) (fixedNames fixedOut : List String) (fixed : List FixedFunction) :
    Tbl ss (ss.foldl (step1StmtSp fixedNames fixedOut) { s := step1Init fixed }) := by
  apply foldl_tbl ss (step1StmtSp fixedNames fixedOut) (fun st => st ∈ ss)
    (fun t st ht hst => step1StmtSp_tbl ss fixedNames fixedOut t st ht hst) ss _ (fun _ h => h)
  exact ⟨by simp, by simp, by simp, by simp [AMap.contains], by simp, by simp [AMap.contains], by simp, by simp⟩

/-! ### the diagnostics found after the loop of step 1 -/

theorem spanOf_mem (m : AMap Span) (n : String) (h : AMap.contains m n = true) : (n, spanOf m n) ∈ m := by
  obtain ⟨v, hv⟩ := (AMap.contains_iff_lookup m n).mp h
  have hg : AMap.get? m n = some v := hv
  unfold spanOf
  rw [hg]
  exact get?_mem m n v hg

theorem assignedConstSp_wl (ss : List SStmt) (t : Step1Sp) (h : Tbl ss t) : ∀ d ∈ assignedConstSp t, WL ss d := by
  intro d hd
  unfold assignedConstSp at hd
  obtain ⟨p, hp, hd⟩ := List.mem_flatMap.mp hd
  by_cases hc : AMap.contains t.consts p.1 = true
  · simp only [hc, if_true, List.mem_singleton] at hd
    subst hd
    simp only [WL, PointsAt, DiagSp.erase]
    exact ⟨h.asg p hp, h.decl _ (spanOf_mem _ _ (h.constDecl _ hc))⟩
  · simp [hc] at hd

theorem constRefErrorsSp_wl (ss : List SStmt) (t : Step1Sp) (h : Tbl ss t) : ∀ d ∈ constRefErrorsSp t, WL ss d := by
  intro d hd
  unfold constRefErrorsSp at hd
  obtain ⟨p, hp, hd⟩ := List.mem_flatMap.mp hd
  obtain ⟨inName, _, hd⟩ := List.mem_flatMap.mp hd
  have hx := h.consts p hp
  have key : ∀ sp ∈ refSpans inName p.2, ReadAt ss inName sp := by
    intro sp hsp
    obtain ⟨a, b, h1, h2⟩ := refSpans_sub inName p.2 sp hsp
    exact ⟨p.2, hx, a, b, h1, h2⟩
  by_cases h1 : (t.s.wires.contains inName && !AMap.contains t.consts inName) = true
  · simp only [h1, if_true] at hd
    obtain ⟨sp, hsp, rfl⟩ := List.mem_map.mp hd
    simp only [WL, PointsAt, DiagSp.erase]
    exact key sp hsp
  · simp only [h1] at hd
    by_cases h2 : (!AMap.contains t.consts inName) = true
    · simp only [h2, if_true] at hd
      obtain ⟨sp, hsp, rfl⟩ := List.mem_map.mp hd
      simp only [WL, PointsAt, DiagSp.erase]
      exact key sp hsp
    · simp [h2] at hd

/-- every diagnostic of a rejection in step 1 is located as the specification asks -/
theorem step1_points_at (fixedNames fixedOut : List String) (fixed : List FixedFunction) (ss : List SStmt) :
    let t1 := ss.foldl (step1StmtSp fixedNames fixedOut) { s := step1Init fixed }
    ∀ d ∈ t1.errs ++ assignedConstSp t1 ++ constRefErrorsSp t1, PointsAt ss d.erase d.spans := by
  intro t1 d hd
  have h := step1_tbl ss fixedNames fixedOut fixed
  simp only [List.mem_append] at hd
  rcases hd with (hd | hd) | hd
  · exact h.errs d hd
  · exact assignedConstSp_wl ss _ h d hd
  · exact constRefErrorsSp_wl ss _ h d hd

end Parser
