import Hcl.Proofs.DumpReadBackAll
open Rust Spec.DumpFormat Dump

/-!
# C16 — the dump can be read back into exactly the state it was printed from, character by character

`Dump.state` is the model of the text `dump_y86` prints (compared with the real text by the S-DUMP stream);
`Spec.DumpFormat.parse` is an independent line-oriented reader of the format.  The theorems below say that the reader,
applied to the characters of the model's text, recovers the fifteen program registers, every register of every printed
register bank with the bank's status letter, and exactly the memory bytes that exist -- and that every line is framed.
-/

/-- **C16, read-back of a whole dump**: registers, register banks (when shown), memory bytes, framing of every line, and
    the `Cycles run:` line -/
theorem C16_dump_readback (s : State) (banks : List RegisterBank) (timeout : Nat) (showBanks : Bool)
    (hr : ∀ i, i < 15 → s.regs.getD i 0 < 2 ^ 64) (hm : SortedFrom 0 s.mem) (hb : ∀ kv ∈ s.mem, kv.2 < 256)
    (hbanks : showBanks = true → ∀ b ∈ Dump.printedBanks banks, GoodBank s.values b)
    (hc : s.cycle < 10 ^ 45) :
    let P := parse (Dump.state s banks timeout showBanks)
    P.regs = [("RAX", s.regs.getD 0 0), ("RCX", s.regs.getD 1 0), ("RDX", s.regs.getD 2 0), ("RBX", s.regs.getD 3 0),
              ("RSP", s.regs.getD 4 0), ("RBP", s.regs.getD 5 0), ("RSI", s.regs.getD 6 0), ("RDI", s.regs.getD 7 0),
              ("R8", s.regs.getD 8 0), ("R9", s.regs.getD 9 0), ("R10", s.regs.getD 10 0), ("R11", s.regs.getD 11 0),
              ("R12", s.regs.getD 12 0), ("R13", s.regs.getD 13 0), ("R14", s.regs.getD 14 0)] ∧
    P.banks = (if showBanks && !banks.isEmpty then (Dump.printedBanks banks).map (bankEntry s.values) else []) ∧
    P.bytes = s.mem ∧ P.framed = true ∧ P.openBank = false ∧
    P.cyclesRun = (if isDone s timeout && !timedOut s timeout then some s.cycle else none) :=
  Dump.state_readback s banks timeout showBanks hr hm hb hbanks hc

/-- the program registers alone -/
theorem C16_registers_readback (r : List Nat) (hr : ∀ i, i < 15 → r.getD i 0 < 2 ^ 64) :
    (parse (Dump.programRegisters r)).regs =
      [("RAX", r.getD 0 0), ("RCX", r.getD 1 0), ("RDX", r.getD 2 0), ("RBX", r.getD 3 0), ("RSP", r.getD 4 0), ("RBP", r.getD 5 0),
       ("RSI", r.getD 6 0), ("RDI", r.getD 7 0), ("R8", r.getD 8 0), ("R9", r.getD 9 0), ("R10", r.getD 10 0), ("R11", r.getD 11 0),
       ("R12", r.getD 12 0), ("R13", r.getD 13 0), ("R14", r.getD 14 0)] ∧ (parse (Dump.programRegisters r)).framed = true :=
  Dump.programRegisters_readback r hr

/-- the memory section alone: exactly the bytes that exist, each at its own address -/
theorem C16_memory_readback (m : Mem) (h : SortedFrom 0 m) (hv : ∀ kv ∈ m, kv.2 < 256) :
    (parse (Dump.memory m)).bytes = m ∧ (parse (Dump.memory m)).framed = true ∧ (parse (Dump.memory m)).inMemory = true :=
  Dump.memory_readback m h hv

#print axioms C16_dump_readback
