import Hcl.Proofs.SpecFaultsExpr
open Rust

/-! # Plain conditions: where the model's and the specification's always-true analyses must agree

The model evaluates a condition with only the constants in scope; evaluation is lazy in two places (a case expression
stops at the first true arm, an `in` set at the first match).  `stuck K e` says that evaluation of `e` is *certain* to
reach a name outside `K` (a non-constant), so it fails whatever the constants are; `muxFree e` that `e` contains no case
expression.  A condition is **plain** when it is stuck, or is a constant expression free of case expressions.
`SF.Eager` (no case expression, `in`-set members constant) is a special case. -/

namespace SF

mutual
/-- no case expression inside -/
def muxFree : Ex → Bool
  | .const _ => true
  | .wire _ => true
  | .bin _ l r => muxFree l && muxFree r
  | .un _ e => muxFree e
  | .slice e _ _ => muxFree e
  | .concat l r => muxFree l && muxFree r
  | .mux _ => false
  | .inSet e items => muxFree e && muxFreeExs items
def muxFreeExs : Exs → Bool
  | .nil => true
  | .cons e rest => muxFree e && muxFreeExs rest
end

mutual
/-- evaluation with values for the `K`-names only is certain to fail: a name outside `K` sits where evaluation always
    arrives (operands of operators, the first condition of a case expression, the scrutinee and the first member of an
    `in` set) -/
def stuck (K : String → Bool) : Ex → Bool
  | .const _ => false
  | .wire n => !K n
  | .bin _ l r => stuck K l || stuck K r
  | .un _ e => stuck K e
  | .slice e _ _ => stuck K e
  | .concat l r => stuck K l || stuck K r
  | .mux opts => stuckOpts K opts
  | .inSet e items => stuck K e || stuckExs K items
def stuckOpts (K : String → Bool) : Opts → Bool
  | .nil => false
  | .cons c _ _ => stuck K c
def stuckExs (K : String → Bool) : Exs → Bool
  | .nil => false
  | .cons e _ => stuck K e
end

/-- a plain condition: certain to fail to evaluate without the wires, or a constant expression without case expressions -/
def Plain (K : String → Bool) (e : Ex) : Bool := stuck K e || (muxFree e && (refs e).all K)

/-! ### expressions without case expressions -/

mutual
theorem fixMux_muxFree (fl : Flags) (Γ : Ctx) (κ : Env) : ∀ e : Ex, muxFree e = true → fixMux fl Γ κ e = e
  | .const _, _ => by simp [fixMux]
  | .wire _, _ => by simp [fixMux]
  | .bin op l r, h => by
      simp only [muxFree, Bool.and_eq_true] at h
      simp only [fixMux, fixMux_muxFree fl Γ κ l h.1, fixMux_muxFree fl Γ κ r h.2]
  | .un op e, h => by
      simp only [muxFree] at h
      simp only [fixMux, fixMux_muxFree fl Γ κ e h]
  | .slice e lo hi, h => by
      simp only [muxFree] at h
      simp only [fixMux, fixMux_muxFree fl Γ κ e h]
  | .concat l r, h => by
      simp only [muxFree, Bool.and_eq_true] at h
      simp only [fixMux, fixMux_muxFree fl Γ κ l h.1, fixMux_muxFree fl Γ κ r h.2]
  | .mux o, h => by simp [muxFree] at h
  | .inSet e items, h => by
      simp only [muxFree, Bool.and_eq_true] at h
      simp only [fixMux, fixMux_muxFree fl Γ κ e h.1, fixMuxExs_muxFree fl Γ κ items h.2]
theorem fixMuxExs_muxFree (fl : Flags) (Γ : Ctx) (κ : Env) : ∀ items : Exs, muxFreeExs items = true →
    fixMuxExs fl Γ κ items = items
  | .nil, _ => by simp [fixMuxExs]
  | .cons e rest, h => by
      simp only [muxFreeExs, Bool.and_eq_true] at h
      simp only [fixMuxExs, fixMux_muxFree fl Γ κ e h.1, fixMuxExs_muxFree fl Γ κ rest h.2]
end

mutual
theorem conds_muxFree : ∀ e : Ex, muxFree e = true → conds e = []
  | .const _, _ => by simp [conds]
  | .wire _, _ => by simp [conds]
  | .bin op l r, h => by
      simp only [muxFree, Bool.and_eq_true] at h
      simp only [conds, conds_muxFree l h.1, conds_muxFree r h.2, List.append_nil]
  | .un op e, h => by
      simp only [muxFree] at h
      simp only [conds, conds_muxFree e h]
  | .slice e lo hi, h => by
      simp only [muxFree] at h
      simp only [conds, conds_muxFree e h]
  | .concat l r, h => by
      simp only [muxFree, Bool.and_eq_true] at h
      simp only [conds, conds_muxFree l h.1, conds_muxFree r h.2, List.append_nil]
  | .mux o, h => by simp [muxFree] at h
  | .inSet e items, h => by
      simp only [muxFree, Bool.and_eq_true] at h
      simp only [conds, conds_muxFree e h.1, condsExs_muxFree items h.2, List.append_nil]
theorem condsExs_muxFree : ∀ items : Exs, muxFreeExs items = true → condsExs items = []
  | .nil, _ => by simp [condsExs]
  | .cons e rest, h => by
      simp only [muxFreeExs, Bool.and_eq_true] at h
      simp only [condsExs, conds_muxFree e h.1, condsExs_muxFree rest h.2, List.append_nil]
end

/-! ### stuck expressions fail to evaluate -/

section
variable (fl : Flags) (σ : Env) (K : String → Bool) (hσ : ∀ n, K n = false → σ n = none)
include hσ

theorem ev_stuck_error : ∀ e : Ex, stuck K e = true → ∃ err, ev fl σ e = .error err
  | .const _, h => by simp [stuck] at h
  | .wire n, h => by
      simp only [stuck, Bool.not_eq_true'] at h
      exact ⟨.undeclaredWireRead n, by simp only [ev, hσ n h]; rfl⟩
  | .bin op l r, h => by
      simp only [stuck, Bool.or_eq_true] at h
      cases hl : ev fl σ l with
      | error err => exact ⟨err, by simp only [ev, hl, bind_error]⟩
      | ok a =>
          rcases h with h | h
          · obtain ⟨err, he⟩ := ev_stuck_error l h
            rw [hl] at he; cases he
          · obtain ⟨err, he⟩ := ev_stuck_error r h
            exact ⟨err, by simp only [ev, hl, he, bind_ok, bind_error]⟩
  | .un op e, h => by
      simp only [stuck] at h
      obtain ⟨err, he⟩ := ev_stuck_error e h
      exact ⟨err, by simp only [ev, he, bind_error]⟩
  | .slice e lo hi, h => by
      simp only [stuck] at h
      obtain ⟨err, he⟩ := ev_stuck_error e h
      exact ⟨err, by simp only [ev, he, bind_error]⟩
  | .concat l r, h => by
      simp only [stuck, Bool.or_eq_true] at h
      cases hl : ev fl σ l with
      | error err => exact ⟨err, by simp only [ev, hl, bind_error]⟩
      | ok a =>
          rcases h with h | h
          · obtain ⟨err, he⟩ := ev_stuck_error l h
            rw [hl] at he; cases he
          · obtain ⟨err, he⟩ := ev_stuck_error r h
            exact ⟨err, by simp only [ev, hl, he, bind_ok, bind_error]⟩
  | .mux (.nil), h => by simp [stuck, stuckOpts] at h
  | .mux (.cons c v rest), h => by
      simp only [stuck, stuckOpts] at h
      obtain ⟨err, he⟩ := ev_stuck_error c h
      exact ⟨err, by simp only [ev, evMux, he, bind_error]⟩
  | .inSet e items, h => by
      simp only [stuck, Bool.or_eq_true] at h
      cases hl : ev fl σ e with
      | error err => exact ⟨err, by simp only [ev, hl, bind_error]⟩
      | ok a =>
          rcases h with h | h
          · obtain ⟨err, he⟩ := ev_stuck_error e h
            rw [hl] at he; cases he
          · cases items with
            | nil => simp [stuckExs] at h
            | cons i rest =>
              simp only [stuckExs] at h
              obtain ⟨err, he⟩ := ev_stuck_error i h
              exact ⟨err, by simp only [ev, hl, evIn, he, bind_ok, bind_error]⟩

theorem alwaysTrue_stuck_false (e : Ex) (h : stuck K e = true) : alwaysTrue fl σ e = false := by
  obtain ⟨err, he⟩ := ev_stuck_error fl σ K hσ e h
  unfold alwaysTrue
  rw [he]

end

/-- a stuck expression mentions a name outside `K` -/
theorem stuck_ref (K : String → Bool) : ∀ e : Ex, stuck K e = true → ∃ n ∈ refs e, K n = false
  | .const _, h => by simp [stuck] at h
  | .wire n, h => by
      simp only [stuck, Bool.not_eq_true'] at h
      exact ⟨n, by simp [refs], h⟩
  | .bin op l r, h => by
      simp only [stuck, Bool.or_eq_true] at h
      rcases h with h | h
      · obtain ⟨n, hn, hk⟩ := stuck_ref K l h
        exact ⟨n, by simp only [refs]; exact List.mem_append_left _ hn, hk⟩
      · obtain ⟨n, hn, hk⟩ := stuck_ref K r h
        exact ⟨n, by simp only [refs]; exact List.mem_append_right _ hn, hk⟩
  | .un op e, h => by
      simp only [stuck] at h
      obtain ⟨n, hn, hk⟩ := stuck_ref K e h
      exact ⟨n, by simp only [refs]; exact hn, hk⟩
  | .slice e lo hi, h => by
      simp only [stuck] at h
      obtain ⟨n, hn, hk⟩ := stuck_ref K e h
      exact ⟨n, by simp only [refs]; exact hn, hk⟩
  | .concat l r, h => by
      simp only [stuck, Bool.or_eq_true] at h
      rcases h with h | h
      · obtain ⟨n, hn, hk⟩ := stuck_ref K l h
        exact ⟨n, by simp only [refs]; exact List.mem_append_left _ hn, hk⟩
      · obtain ⟨n, hn, hk⟩ := stuck_ref K r h
        exact ⟨n, by simp only [refs]; exact List.mem_append_right _ hn, hk⟩
  | .mux (.nil), h => by simp [stuck, stuckOpts] at h
  | .mux (.cons c v rest), h => by
      simp only [stuck, stuckOpts] at h
      obtain ⟨n, hn, hk⟩ := stuck_ref K c h
      exact ⟨n, by simp only [refs, refsOpts]; exact List.mem_append_left _ (List.mem_append_left _ hn), hk⟩
  | .inSet e items, h => by
      simp only [stuck, Bool.or_eq_true] at h
      rcases h with h | h
      · obtain ⟨n, hn, hk⟩ := stuck_ref K e h
        exact ⟨n, by simp only [refs]; exact List.mem_append_left _ hn, hk⟩
      · cases items with
        | nil => simp [stuckExs] at h
        | cons i rest =>
          simp only [stuckExs] at h
          obtain ⟨n, hn, hk⟩ := stuck_ref K i h
          exact ⟨n, by simp only [refs, refsExs]; exact List.mem_append_right _ (List.mem_append_left _ hn), hk⟩

/-- the width fix-up of case expressions does not change whether an expression is stuck -/
theorem stuck_fixMux (fl : Flags) (Γ : Ctx) (κ : Env) (K : String → Bool) : ∀ e : Ex, stuck K (fixMux fl Γ κ e) = stuck K e
  | .const _ => by simp [fixMux]
  | .wire _ => by simp [fixMux]
  | .bin op l r => by simp only [fixMux, stuck, stuck_fixMux fl Γ κ K l, stuck_fixMux fl Γ κ K r]
  | .un op e => by simp only [fixMux, stuck, stuck_fixMux fl Γ κ K e]
  | .slice e lo hi => by simp only [fixMux, stuck, stuck_fixMux fl Γ κ K e]
  | .concat l r => by simp only [fixMux, stuck, stuck_fixMux fl Γ κ K l, stuck_fixMux fl Γ κ K r]
  | .mux (.nil) => by
      simp only [fixMux, fixMuxOpts]
      split <;> simp [stuck, stuckOpts]
  | .mux (.cons c v rest) => by
      have ih := stuck_fixMux fl Γ κ K c
      simp only [fixMux, fixMuxOpts]
      split <;> simp [stuck, stuckOpts, ih]
  | .inSet e (.nil) => by simp only [fixMux, fixMuxExs, stuck, stuckExs, stuck_fixMux fl Γ κ K e]
  | .inSet e (.cons i rest) => by
      simp only [fixMux, fixMuxExs, stuck, stuckExs, stuck_fixMux fl Γ κ K e, stuck_fixMux fl Γ κ K i]

/-! ### eager expressions are plain -/

mutual
theorem eager_muxFree (K : String → Bool) : ∀ e : Ex, Eager K e = true → muxFree e = true
  | .const _, _ => rfl
  | .wire _, _ => rfl
  | .bin op l r, h => by
      simp only [Eager, Bool.and_eq_true] at h
      simp only [muxFree, eager_muxFree K l h.1, eager_muxFree K r h.2, Bool.and_self]
  | .un op e, h => by
      simp only [Eager] at h
      simp only [muxFree, eager_muxFree K e h]
  | .slice e lo hi, h => by
      simp only [Eager] at h
      simp only [muxFree, eager_muxFree K e h]
  | .concat l r, h => by
      simp only [Eager, Bool.and_eq_true] at h
      simp only [muxFree, eager_muxFree K l h.1, eager_muxFree K r h.2, Bool.and_self]
  | .mux o, h => by simp [Eager] at h
  | .inSet e items, h => by
      simp only [Eager, Bool.and_eq_true] at h
      simp only [muxFree, eager_muxFree K e h.1, eagerItems_muxFree K items h.2, Bool.and_self]
theorem eagerItems_muxFree (K : String → Bool) : ∀ items : Exs, EagerItems K items = true → muxFreeExs items = true
  | .nil, _ => rfl
  | .cons e rest, h => by
      simp only [EagerItems, Bool.and_eq_true] at h
      simp only [muxFreeExs, eager_muxFree K e h.1.1, eagerItems_muxFree K rest h.2, Bool.and_self]
end

/-- an eager expression that mentions a name outside `K` is stuck -/
theorem eager_stuck (K : String → Bool) : ∀ e : Ex, Eager K e = true → (∃ n ∈ refs e, K n = false) → stuck K e = true
  | .const _, _, ⟨n, hn, _⟩ => by simp [refs] at hn
  | .wire m, _, ⟨n, hn, hk⟩ => by
      simp only [refs, List.mem_singleton] at hn
      subst hn
      simp [stuck, hk]
  | .bin op l r, h, ⟨n, hn, hk⟩ => by
      simp only [Eager, Bool.and_eq_true] at h
      simp only [refs, List.mem_append] at hn
      simp only [stuck, Bool.or_eq_true]
      rcases hn with hn | hn
      · exact Or.inl (eager_stuck K l h.1 ⟨n, hn, hk⟩)
      · exact Or.inr (eager_stuck K r h.2 ⟨n, hn, hk⟩)
  | .un op e, h, ⟨n, hn, hk⟩ => by
      simp only [Eager] at h
      simp only [refs] at hn
      simp only [stuck]
      exact eager_stuck K e h ⟨n, hn, hk⟩
  | .slice e lo hi, h, ⟨n, hn, hk⟩ => by
      simp only [Eager] at h
      simp only [refs] at hn
      simp only [stuck]
      exact eager_stuck K e h ⟨n, hn, hk⟩
  | .concat l r, h, ⟨n, hn, hk⟩ => by
      simp only [Eager, Bool.and_eq_true] at h
      simp only [refs, List.mem_append] at hn
      simp only [stuck, Bool.or_eq_true]
      rcases hn with hn | hn
      · exact Or.inl (eager_stuck K l h.1 ⟨n, hn, hk⟩)
      · exact Or.inr (eager_stuck K r h.2 ⟨n, hn, hk⟩)
  | .mux o, h, _ => by simp [Eager] at h
  | .inSet e items, h, ⟨n, hn, hk⟩ => by
      simp only [Eager, Bool.and_eq_true] at h
      simp only [refs, List.mem_append] at hn
      simp only [stuck, Bool.or_eq_true]
      rcases hn with hn | hn
      · exact Or.inl (eager_stuck K e h.1 ⟨n, hn, hk⟩)
      · have := eagerItems_refs K items h.2 n hn
        rw [hk] at this; cases this

theorem eager_plain (K : String → Bool) (e : Ex) (h : Eager K e = true) : Plain K e = true := by
  unfold Plain
  rw [eager_muxFree K e h]
  simp only [Bool.true_and, Bool.or_eq_true]
  by_cases hall : (refs e).all K = true
  · exact Or.inr hall
  · left
    apply eager_stuck K e h
    have hf : (refs e).all K = false := by simpa using hall
    rw [List.all_eq_false] at hf
    obtain ⟨n, hn, hk⟩ := hf
    exact ⟨n, hn, by simpa using hk⟩

#print axioms ev_stuck_error
#print axioms stuck_fixMux
#print axioms eager_plain

end SF
