import Hcl.Graph.Kahn
import Hcl.Graph.DfsComplete

/-! Invariants of the Kahn loop. -/

structure KWF (g : KGraph) : Prop where
  nodesNodup : g.nodes.Nodup
  succNodup : ∀ u, (g.succ u).Nodup
  predsNodup : ∀ v, (g.preds v).Nodup
  inv : ∀ u v, v ∈ g.succ u ↔ u ∈ g.preds v
  closed : ∀ u v, v ∈ g.succ u → u ∈ g.nodes ∧ v ∈ g.nodes
  numEdges : g.numEdges = (g.nodes.map (fun u => (g.succ u).length)).sum

def outSum (g : KGraph) (l : List Node) : Nat := (l.map (fun u => (g.succ u).length)).sum

/-- every predecessor of an element occurs strictly earlier in the list -/
def PredOrdered (g : KGraph) (l : List Node) : Prop :=
  ∀ pre x post, l = pre ++ x :: post → ∀ p ∈ g.preds x, p ∈ pre

/-- invariant that holds at every point of the computation, including inside `relax`.
    `cur`/`todo` describe the node being relaxed and its not yet handled successors
    (`todo = []` and `cur` arbitrary-with-no-pending at loop boundaries). -/
structure KInv (g : KGraph) (s : KState) (pend : List (Node × Node)) : Prop where
  resNodup : (s.result ++ s.queue).Nodup
  inNodes : ∀ x, x ∈ s.result ∨ x ∈ s.queue → x ∈ g.nodes
  visNodup : s.visited.Nodup
  visSub : ∀ u v, (u, v) ∈ s.visited → u ∈ s.result ∧ v ∈ g.succ u
  visAll : ∀ u ∈ s.result, ∀ v ∈ g.succ u, (u, v) ∈ s.visited ∨ (u, v) ∈ pend
  pendDisj : ∀ e ∈ pend, e ∉ s.visited
  pendNodup : pend.Nodup
  pendEdge : ∀ u v, (u, v) ∈ pend → u ∈ s.result ∧ v ∈ g.succ u
  count : ∀ v, s.count v + ((g.preds v).filter (fun p => (p, v) ∈ s.visited)).length = (g.preds v).length
  zero : ∀ v ∈ g.nodes, s.count v = 0 ↔ (v ∈ s.result ∨ v ∈ s.queue)
  ordered : PredOrdered g s.result
  visLen : s.visited.length + pend.length = outSum g s.result

theorem filter_length_le_of_imp {α} (l : List α) (p q : α → Bool) (h : ∀ x ∈ l, p x → q x) :
    (l.filter p).length ≤ (l.filter q).length := by
  induction l with
  | nil => simp
  | cons a t ih =>
    have iht := ih (fun x hx => h x (List.mem_cons_of_mem _ hx))
    simp only [List.filter_cons]
    by_cases hp : p a
    · have hq := h a (by simp) hp
      simp [hp, hq]; omega
    · by_cases hq : q a <;> simp [hp, hq] <;> omega

/-- adding one fresh element satisfying the predicate to the filter increases its length by one -/
theorem filter_length_insert (l : List Node) (hnd : l.Nodup) (o : Node) (ho : o ∈ l)
    (p q : Node → Bool) (hpo : p o = false) (hqo : q o = true)
    (hrest : ∀ x ∈ l, x ≠ o → p x = q x) :
    (l.filter q).length = (l.filter p).length + 1 := by
  induction l with
  | nil => simp at ho
  | cons a t ih =>
    have hnd' := List.nodup_cons.mp hnd
    simp only [List.filter_cons]
    by_cases hao : a = o
    · subst hao
      have : t.filter q = t.filter p := by
        apply List.filter_congr
        intro x hx
        exact (hrest x (List.mem_cons_of_mem _ hx) (fun h => hnd'.1 (h ▸ hx))).symm
      simp [hpo, hqo, this]
    · have hot : o ∈ t := by
        rcases List.mem_cons.mp ho with h | h
        · exact absurd h.symm hao
        · exact h
      have iht := ih hnd'.2 hot (fun x hx hxo => hrest x (List.mem_cons_of_mem _ hx) hxo)
      have hpa : p a = q a := hrest a (by simp) hao
      by_cases hq : q a
      · have hp : p a = true := by rw [hpa]; exact hq
        simp [hp, hq, iht]
      · have hq' : q a = false := by simpa using hq
        have hp : p a = false := by rw [hpa]; exact hq'
        simp [hp, hq', iht]

theorem filter_length_lt_of_not {α} (l : List α) (p : α → Bool) (a : α) (ha : a ∈ l) (hp : p a = false) :
    (l.filter p).length < l.length := by
  induction l with
  | nil => simp at ha
  | cons b t ih =>
    have hle := List.length_filter_le p t
    rcases List.mem_cons.mp ha with rfl | h
    · rw [List.filter_cons_of_neg (by simp [hp])]; simp only [List.length_cons]; omega
    · have := ih h
      by_cases hb : p b = true
      · rw [List.filter_cons_of_pos hb]; simp only [List.length_cons]; omega
      · rw [List.filter_cons_of_neg hb]; simp only [List.length_cons]; omega

theorem exists_not_of_filter_lt {α} (l : List α) (p : α → Bool) (h : (l.filter p).length < l.length) :
    ∃ a ∈ l, p a = false := by
  induction l with
  | nil => simp at h
  | cons b t ih =>
    by_cases hb : p b = true
    · rw [List.filter_cons_of_pos hb] at h
      simp only [List.length_cons] at h
      obtain ⟨a, ha, hpa⟩ := ih (by omega)
      exact ⟨a, List.mem_cons_of_mem _ ha, hpa⟩
    · exact ⟨b, by simp, by simpa using hb⟩

theorem all_of_filter_length_eq {α} (l : List α) (p : α → Bool) (h : (l.filter p).length = l.length) :
    ∀ a ∈ l, p a = true := by
  intro a ha
  by_cases hp : p a
  · exact hp
  · have := filter_length_lt_of_not l p a ha (by simpa using hp); omega

/-- one successor handled by the inner loop -/
theorem relax_step_inv (g : KGraph) (wf : KWF g) (s : KState) (cur o : Node) (rest : List (Node × Node))
    (inv : KInv g s ((cur, o) :: rest)) :
    (cur, o) ∉ s.visited ∧ s.count o ≠ 0 ∧
    KInv g { s with visited := (cur, o) :: s.visited, count := cset s.count o (s.count o - 1),
                    queue := if s.count o - 1 = 0 then s.queue ++ [o] else s.queue } rest := by
  have hnv : (cur, o) ∉ s.visited := inv.pendDisj _ (by simp)
  have hedge := inv.pendEdge cur o (by simp)
  have hcurp : cur ∈ g.preds o := (wf.inv cur o).mp hedge.2
  have hon : o ∈ g.nodes := (wf.closed cur o hedge.2).2
  have hcnt := inv.count o
  have hlt : ((g.preds o).filter (fun p => decide ((p, o) ∈ s.visited))).length < (g.preds o).length :=
    filter_length_lt_of_not _ _ cur hcurp (by simpa using hnv)
  have hc0 : s.count o ≠ 0 := by omega
  refine ⟨hnv, hc0, ?_⟩
  have honot : ¬ (o ∈ s.result ∨ o ∈ s.queue) := fun h => hc0 ((inv.zero o hon).mpr h)
  have hpn := List.nodup_cons.mp inv.pendNodup
  constructor
  · -- resNodup
    show (s.result ++ (if s.count o - 1 = 0 then s.queue ++ [o] else s.queue)).Nodup
    split
    · rw [← List.append_assoc]
      apply List.nodup_append.mpr
      refine ⟨inv.resNodup, by simp, ?_⟩
      intro a ha b hb hab
      simp at hb; subst hb; subst hab
      exact honot (List.mem_append.mp ha)
    · exact inv.resNodup
  · -- inNodes
    intro x hx
    rcases hx with hx | hx
    · exact inv.inNodes x (Or.inl hx)
    · simp only at hx
      split at hx
      · rcases List.mem_append.mp hx with h | h
        · exact inv.inNodes x (Or.inr h)
        · simp at h; subst h; exact hon
      · exact inv.inNodes x (Or.inr hx)
  · exact List.nodup_cons.mpr ⟨hnv, inv.visNodup⟩
  · intro u v hm
    rcases List.mem_cons.mp hm with h | h
    · cases h; exact hedge
    · exact inv.visSub u v h
  · intro u hu v hv
    rcases inv.visAll u hu v hv with h | h
    · left; exact List.mem_cons_of_mem _ h
    · rcases List.mem_cons.mp h with h | h
      · left; rw [h]; simp
      · right; exact h
  · intro e he hm
    rcases List.mem_cons.mp hm with h | h
    · subst h; exact hpn.1 he
    · exact inv.pendDisj e (List.mem_cons_of_mem _ he) h
  · exact hpn.2
  · intro u v hm; exact inv.pendEdge u v (List.mem_cons_of_mem _ hm)
  · -- count
    intro v
    show cset s.count o (s.count o - 1) v + ((g.preds v).filter (fun p => decide ((p, v) ∈ (cur, o) :: s.visited))).length = _
    by_cases hvo : v = o
    · subst hvo
      have hins := filter_length_insert (g.preds v) (wf.predsNodup v) cur hcurp
        (fun p => decide ((p, v) ∈ s.visited)) (fun p => decide ((p, v) ∈ (cur, v) :: s.visited))
        (by simpa using hnv) (by simp)
        (by intro x _ hx; simp [hx])
      simp only [cset, ↓reduceIte]
      rw [hins]; omega
    · have : (g.preds v).filter (fun p => decide ((p, v) ∈ (cur, o) :: s.visited))
           = (g.preds v).filter (fun p => decide ((p, v) ∈ s.visited)) := by
        apply List.filter_congr
        intro x _
        simp [hvo]
      rw [this]
      simp only [cset, hvo, ↓reduceIte]
      exact inv.count v
  · -- zero
    intro v hv
    show cset s.count o (s.count o - 1) v = 0 ↔ (v ∈ s.result ∨ v ∈ (if s.count o - 1 = 0 then s.queue ++ [o] else s.queue))
    by_cases hvo : v = o
    · subst hvo
      simp only [cset, ↓reduceIte]
      constructor
      · intro h; right; simp [h]
      · intro h
        rcases h with h | h
        · exact absurd (Or.inl h) honot
        · split at h
          · assumption
          · exact absurd (Or.inr h) honot
    · simp only [cset, hvo, ↓reduceIte]
      rw [inv.zero v hv]
      constructor
      · rintro (h | h)
        · exact Or.inl h
        · right; split
          · exact List.mem_append_left _ h
          · exact h
      · rintro (h | h)
        · exact Or.inl h
        · right; split at h
          · rcases List.mem_append.mp h with h | h
            · exact h
            · simp at h; exact absurd h hvo
          · exact h
  · exact inv.ordered
  · have := inv.visLen
    simp only [List.length_cons] at this ⊢
    omega

/-- the whole inner loop: never underflows and re-establishes the boundary invariant -/
theorem relax_inv (g : KGraph) (wf : KWF g) (cur : Node) :
    ∀ (todo : List Node) (s : KState), KInv g s (todo.map (fun o => (cur, o))) →
      ∃ s', relax cur todo s = some s' ∧ KInv g s' [] ∧ s'.result = s.result := by
  intro todo
  induction todo with
  | nil => intro s inv; exact ⟨s, rfl, inv, rfl⟩
  | cons o os ih =>
    intro s inv
    obtain ⟨hnv, hc0, inv'⟩ := relax_step_inv g wf s cur o (os.map (fun o => (cur, o))) inv
    unfold relax
    simp only [hnv, ↓reduceIte, hc0]
    obtain ⟨s', hs', hinv', hres⟩ := ih _ inv'
    exact ⟨s', hs', hinv', hres⟩

theorem outSum_append (g : KGraph) (a b : List Node) : outSum g (a ++ b) = outSum g a + outSum g b := by
  simp [outSum]

/-- popping a node from the queue and setting up its successors as pending -/
theorem pop_inv (g : KGraph) (wf : KWF g) (s : KState) (cur : Node) (q : List Node)
    (hq : s.queue = cur :: q) (inv : KInv g s []) :
    KInv g { s with queue := q, result := s.result ++ [cur] } ((g.succ cur).map (fun o => (cur, o))) := by
  have hnd : (s.result ++ cur :: q).Nodup := hq ▸ inv.resNodup
  have hcur_res : cur ∉ s.result := by
    intro h
    exact (List.nodup_append.mp hnd).2.2 cur h cur (by simp) rfl
  have hcurn : cur ∈ g.nodes := inv.inNodes cur (Or.inr (by rw [hq]; simp))
  have hc0 : s.count cur = 0 := (inv.zero cur hcurn).mpr (Or.inr (by rw [hq]; simp))
  have hall : ∀ p ∈ g.preds cur, (p, cur) ∈ s.visited := by
    have hc := inv.count cur
    rw [hc0] at hc
    intro p hp
    have := all_of_filter_length_eq (g.preds cur) (fun p => decide ((p, cur) ∈ s.visited)) (by omega) p hp
    simpa using this
  constructor
  · show ((s.result ++ [cur]) ++ q).Nodup
    simpa [List.append_assoc] using hnd
  · intro x hx
    apply inv.inNodes x
    rcases hx with hx | hx
    · rcases List.mem_append.mp hx with h | h
      · exact Or.inl h
      · simp at h; subst h; exact Or.inr (by rw [hq]; simp)
    · exact Or.inr (by rw [hq]; exact List.mem_cons_of_mem _ hx)
  · exact inv.visNodup
  · intro u v hm
    have := inv.visSub u v hm
    exact ⟨List.mem_append_left _ this.1, this.2⟩
  · intro u hu v hv
    rcases List.mem_append.mp hu with h | h
    · rcases inv.visAll u h v hv with h' | h'
      · exact Or.inl h'
      · simp at h'
    · simp at h; subst h
      right; exact List.mem_map.mpr ⟨v, hv, rfl⟩
  · intro e he hm
    obtain ⟨o, _, rfl⟩ := List.mem_map.mp he
    exact hcur_res (inv.visSub cur o hm).1
  · have hsn := wf.succNodup cur
    unfold List.Nodup at hsn ⊢
    exact List.Pairwise.map (fun o => (cur, o)) (fun a b hab h => hab (by cases h; rfl)) hsn
  · intro u v hm
    obtain ⟨o, ho, heq⟩ := List.mem_map.mp hm
    cases heq
    exact ⟨List.mem_append_right _ (by simp), ho⟩
  · exact inv.count
  · intro v hv
    rw [inv.zero v hv, hq]
    simp only [List.mem_append, List.mem_cons, List.mem_singleton, List.not_mem_nil, or_false]
    constructor
    · rintro (h | h | h) <;> simp [h]
    · rintro ((h | h) | h) <;> simp [h]
  · intro pre x post heq p hp
    by_cases hpost : post = []
    · subst hpost
      have : pre = s.result ∧ x = cur := by
        have := List.append_inj' (by simpa using heq : s.result ++ [cur] = pre ++ [x]) rfl
        exact ⟨this.1.symm, by simpa using this.2.symm⟩
      obtain ⟨rfl, rfl⟩ := this
      exact (inv.visSub p x (hall p hp)).1
    · obtain ⟨post', y, rfl⟩ : ∃ post' y, post = post' ++ [y] := by
        rcases List.eq_nil_or_concat post with h | ⟨l, a, h⟩
        · exact absurd h hpost
        · exact ⟨l, a, by simpa using h⟩
      have : s.result ++ [cur] = (pre ++ x :: post') ++ [y] := by simpa [List.append_assoc] using heq
      have h2 := List.append_inj' this rfl
      exact inv.ordered pre x post' h2.1 p hp
  · have := inv.visLen
    simp only [List.length_nil, Nat.add_zero, List.length_map] at this ⊢
    rw [outSum_append, ← this]
    simp [outSum]

theorem sum_le_of_nodup_subset (f : Node → Nat) : ∀ (l₁ l₂ : List Node), l₁.Nodup → (∀ x ∈ l₁, x ∈ l₂) →
    (l₁.map f).sum ≤ (l₂.map f).sum := by
  intro l₁
  induction l₁ with
  | nil => intro _ _ _; simp
  | cons a t ih =>
    intro l₂ hn hs
    have ha : a ∈ l₂ := hs a (by simp)
    have hn' := List.nodup_cons.mp hn
    have := ih (l₂.erase a) hn'.2 (by
      intro x hx
      have hxa : x ≠ a := fun h => hn'.1 (h ▸ hx)
      exact (List.mem_erase_of_ne hxa).mpr (hs x (List.mem_cons_of_mem _ hx)))
    have hperm : l₂.Perm (a :: l₂.erase a) := List.perm_cons_erase ha
    have hsum : (l₂.map f).sum = f a + ((l₂.erase a).map f).sum := by
      rw [(hperm.map f).sum_nat]; simp
    simp only [List.map_cons, List.sum_cons]; omega

/-- result of the outer loop, by induction on fuel -/
theorem kloop_spec (g : KGraph) (wf : KWF g) : ∀ (fuel : Nat) (s : KState),
    KInv g s [] → g.nodes.length + 1 ≤ fuel + s.result.length →
    (∃ s', KInv g s' [] ∧ s'.queue = [] ∧
        ((s'.visited.length = g.numEdges ∧ kloop g fuel s = .ok s'.result) ∨
         (s'.visited.length ≠ g.numEdges ∧ kloop g fuel s = .cyclic))) := by
  intro fuel
  induction fuel with
  | zero =>
    intro s inv hf
    have h1 : s.result.length ≤ g.nodes.length :=
      nodup_subset_length s.result g.nodes (List.nodup_append.mp inv.resNodup).1
        (fun x hx => inv.inNodes x (Or.inl hx))
    omega
  | succ f ih =>
    intro s inv hf
    unfold kloop
    cases hq : s.queue with
    | nil =>
      refine ⟨s, inv, hq, ?_⟩
      by_cases hv : s.visited.length = g.numEdges
      · left; simp [hv]
      · right; simp [hv]
    | cons cur q =>
      simp only
      have inv1 := pop_inv g wf s cur q hq inv
      obtain ⟨s', hs', inv', hres⟩ := relax_inv g wf cur (g.succ cur) _ inv1
      rw [hs']
      simp only
      apply ih s' inv'
      rw [hres]; simp; omega

theorem kinit_inv (g : KGraph) (wf : KWF g) : KInv g (kinit g) [] := by
  unfold kinit
  constructor
  · simp; exact wf.nodesNodup.filter _
  · intro x hx; simp at hx; exact hx.1
  · simp
  · intro u v hm; simp at hm
  · intro u hu; simp at hu
  · intro e he; simp at he
  · simp
  · intro u v hm; simp at hm
  · intro v; simp
  · intro v hv
    simp only [List.length_eq_zero_iff, List.not_mem_nil, false_or, List.mem_filter, hv, true_and,
      List.isEmpty_iff]
  · intro pre x post heq; simp at heq
  · simp [outSum]

theorem kahn_spec (g : KGraph) (wf : KWF g) :
    ∃ s', KInv g s' [] ∧ s'.queue = [] ∧
        ((s'.visited.length = g.numEdges ∧ kahn g = .ok s'.result) ∨
         (s'.visited.length ≠ g.numEdges ∧ kahn g = .cyclic)) := by
  unfold kahn
  exact kloop_spec g wf _ _ (kinit_inv g wf) (by simp [kinit])

/-- if some node is missing from the result at the end, a whole "unprocessed" set is closed
    under taking an unprocessed predecessor -/
theorem missing_has_missing_pred (g : KGraph) (wf : KWF g) (s : KState) (inv : KInv g s [])
    (hq : s.queue = []) (u : Node) (hu : u ∈ g.nodes) (hnr : u ∉ s.result) :
    ∃ p ∈ g.preds u, p ∈ g.nodes ∧ p ∉ s.result := by
  have hc : s.count u ≠ 0 := by
    intro h
    rcases (inv.zero u hu).mp h with h | h
    · exact hnr h
    · rw [hq] at h; simp at h
  have hcnt := inv.count u
  obtain ⟨p, hp, hpv⟩ := exists_not_of_filter_lt (g.preds u) (fun p => decide ((p, u) ∈ s.visited)) (by omega)
  refine ⟨p, hp, (wf.closed p u ((wf.inv p u).mpr hp)).1, ?_⟩
  intro hpr
  rcases inv.visAll p hpr u ((wf.inv p u).mpr hp) with h | h
  · simp at hpv; exact hpv h
  · simp at h

/-- least-rank element of a non-empty list -/
theorem exists_min_rank (rank : Node → Nat) : ∀ (l : List Node), l ≠ [] →
    ∃ m ∈ l, ∀ x ∈ l, rank m ≤ rank x := by
  intro l
  induction l with
  | nil => intro h; exact absurd rfl h
  | cons a t ih =>
    intro _
    by_cases ht : t = []
    · subst ht; exact ⟨a, by simp, by intro x hx; simp at hx; subst hx; exact Nat.le_refl _⟩
    · obtain ⟨m, hm, hmin⟩ := ih ht
      by_cases h : rank a ≤ rank m
      · refine ⟨a, by simp, ?_⟩
        intro x hx
        rcases List.mem_cons.mp hx with rfl | hx
        · exact Nat.le_refl _
        · exact Nat.le_trans h (hmin x hx)
      · refine ⟨m, List.mem_cons_of_mem _ hm, ?_⟩
        intro x hx
        rcases List.mem_cons.mp hx with rfl | hx
        · omega
        · exact hmin x hx

/-- Soundness of `Ok(order)`: a permutation of the nodes in which predecessors come first -/
theorem kahn_ok_sound (g : KGraph) (wf : KWF g) (order : List Node) (h : kahn g = .ok order) :
    order.Nodup ∧ (∀ x, x ∈ order ↔ x ∈ g.nodes) ∧ PredOrdered g order := by
  obtain ⟨s', inv, hq, hres⟩ := kahn_spec g wf
  rcases hres with ⟨hlen, hk⟩ | ⟨_, hk⟩
  · rw [h] at hk; cases hk
    have hnd : s'.result.Nodup := (List.nodup_append.mp inv.resNodup).1
    have hsub : ∀ x ∈ s'.result, x ∈ g.nodes := fun x hx => inv.inNodes x (Or.inl hx)
    refine ⟨hnd, ?_, inv.ordered⟩
    intro x
    refine ⟨hsub x, ?_⟩
    intro hx
    apply Classical.byContradiction
    intro hnr
    -- x is missing: it has a missing predecessor p, which has an out-edge; so the visited count is too small
    obtain ⟨p, hp, hpn, hpr⟩ := missing_has_missing_pred g wf s' inv hq x hx hnr
    have hedge : x ∈ g.succ p := (wf.inv p x).mpr hp
    have hpos : 0 < (g.succ p).length := List.length_pos_of_mem hedge
    have hle := sum_le_of_nodup_subset (fun u => (g.succ u).length) (p :: s'.result) g.nodes
      (List.nodup_cons.mpr ⟨hpr, hnd⟩)
      (by intro y hy; rcases List.mem_cons.mp hy with rfl | hy
          · exact hpn
          · exact hsub y hy)
    have hv := inv.visLen
    simp only [List.length_nil, Nat.add_zero, outSum] at hv
    simp only [List.map_cons, List.sum_cons] at hle
    rw [wf.numEdges] at hlen
    omega
  · rw [h] at hk; cases hk

theorem kahn_total (g : KGraph) (wf : KWF g) : kahn g ≠ .panic ∧ kahn g ≠ .fuel := by
  obtain ⟨s', _, _, hres⟩ := kahn_spec g wf
  rcases hres with ⟨_, hk⟩ | ⟨_, hk⟩
  · rw [hk]; constructor <;> (intro h; cases h)
  · rw [hk]; constructor <;> (intro h; cases h)

/-- `cyclic` is only reported when no topological numbering exists -/
theorem kahn_cyclic_no_rank (g : KGraph) (wf : KWF g) (h : kahn g = .cyclic) :
    ¬ ∃ rank : Node → Nat, ∀ u v, v ∈ g.succ u → rank u < rank v := by
  rintro ⟨rank, hrank⟩
  obtain ⟨s', inv, hq, hres⟩ := kahn_spec g wf
  rcases hres with ⟨_, hk⟩ | ⟨hne, _⟩
  · rw [h] at hk; cases hk
  · apply hne
    have hnd : s'.result.Nodup := (List.nodup_append.mp inv.resNodup).1
    have hsub : ∀ x ∈ s'.result, x ∈ g.nodes := fun x hx => inv.inNodes x (Or.inl hx)
    have hall : ∀ x ∈ g.nodes, x ∈ s'.result := by
      apply Classical.byContradiction
      intro hcon
      have hU : (g.nodes.filter (fun x => decide (x ∉ s'.result))) ≠ [] := by
        intro hnil
        apply hcon
        intro x hx
        apply Classical.byContradiction
        intro hnr
        have : x ∈ g.nodes.filter (fun x => decide (x ∉ s'.result)) := by simp [hx, hnr]
        rw [hnil] at this; simp at this
      obtain ⟨m, hm, hmin⟩ := exists_min_rank rank _ hU
      simp at hm
      obtain ⟨p, hp, hpn, hpr⟩ := missing_has_missing_pred g wf s' inv hq m hm.1 hm.2
      have := hmin p (by simp [hpn, hpr])
      have := hrank p m ((wf.inv p m).mpr hp)
      omega
    have h1 := sum_le_of_nodup_subset (fun u => (g.succ u).length) s'.result g.nodes hnd hsub
    have h2 := sum_le_of_nodup_subset (fun u => (g.succ u).length) g.nodes s'.result wf.nodesNodup hall
    have hv := inv.visLen
    simp only [List.length_nil, Nat.add_zero, outSum] at hv
    rw [wf.numEdges]; omega

#print axioms kahn_ok_sound
#print axioms kahn_cyclic_no_rank
