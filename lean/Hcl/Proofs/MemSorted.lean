import Hcl.Proofs.MemWalk
import Hcl.Proofs.YoSpec
import Hcl.Theorems.Effects
open Rust

/-! Every memory the simulator reaches lists its bytes at strictly increasing addresses below 2^64
    (what iterating the `BTreeMap<u64, u8>` yields), so the theorems about the memory walk apply to it. -/

theorem execAction_mem_sorted (fl : Flags) (s t : State) (a : Action) (hs : SortedFrom 0 s.mem)
    (h : execAction fl s a = .ok t) : SortedFrom 0 t.mem := by
  by_cases hp : a.isPure = true
  · rw [execAction_pure fl s a hp] at h
    obtain ⟨v, _, h⟩ := bind_ok h
    simp only [pure, Except.pure, Except.ok.injEq] at h
    rw [← h]; exact hs
  · cases a with
    | assign _ _ _ => simp [Action.isPure] at hp
    | readReg _ _ => simp [Action.isPure] at hp
    | readMem _ _ _ _ _ => simp [Action.isPure] at hp
    | writeReg d i => rw [(writeReg_effect fl s t d i h).2.1]; exact hs
    | setStatus w => rw [(setStatus_effect fl s t w h).2.2]; exact hs
    | writeMem isWrite address inp bytes =>
      have key : ∀ (b : Bool), (if b = true then (do
            let a ← getOrPanic s.values address
            let i ← getOrPanic s.values inp
            pure { s with mem := s.mem.write (a.bits % U64) i.bits bytes } : E State)
          else pure s) = .ok t → SortedFrom 0 t.mem := by
        intro b hb
        cases b with
        | false => simp [pure, Except.pure] at hb; rw [← hb]; exact hs
        | true =>
          simp only [↓reduceIte] at hb
          obtain ⟨a', _, hb⟩ := bind_ok hb
          obtain ⟨i, _, hb⟩ := bind_ok hb
          simp only [pure, Except.pure, Except.ok.injEq] at hb
          rw [← hb]
          exact Mem.write_sortedFrom s.mem _ _ hs bytes
      cases isWrite with
      | none =>
        simp only [execAction] at h
        exact key true h
      | some wr =>
        simp only [execAction] at h
        obtain ⟨v, _, h⟩ := bind_ok h
        exact key _ h

theorem execActions_mem_sorted (fl : Flags) : ∀ (acts : List Action) (s t : State), SortedFrom 0 s.mem →
    execActions fl acts s = .ok t → SortedFrom 0 t.mem
  | [], s, t, hs, h => by simp [execActions, pure, Except.pure] at h; rw [← h]; exact hs
  | a :: rest, s, t, hs, h => by
    simp only [execActions] at h
    obtain ⟨s₁, h₁, h₂⟩ := bind_ok h
    exact execActions_mem_sorted fl rest s₁ t (execAction_mem_sorted fl s s₁ a hs h₁) h₂

theorem stepCycle_mem_sorted (fl : Flags) (p : Program) (s t : State) (hs : SortedFrom 0 s.mem)
    (h : stepCycle fl p s = .ok t) : SortedFrom 0 t.mem := by
  unfold stepCycle at h
  obtain ⟨u, hu, h⟩ := bind_ok h
  obtain ⟨v, _, h⟩ := bind_ok h
  simp only [pure, Except.pure, Except.ok.injEq] at h
  rw [← h]
  exact execActions_mem_sorted fl p.actions s u hs hu

theorem runN_mem_sorted (fl : Flags) (p : Program) : ∀ (n : Nat) (s t : State), SortedFrom 0 s.mem →
    runN fl p n s = .ok t → SortedFrom 0 t.mem
  | 0, s, t, hs, h => by simp [runN, pure, Except.pure] at h; rw [← h]; exact hs
  | n + 1, s, t, hs, h => by
    simp only [runN] at h
    obtain ⟨s₁, h₁, h₂⟩ := bind_ok h
    exact runN_mem_sorted fl p n s₁ t (stepCycle_mem_sorted fl p s s₁ hs h₁) h₂

/-! ### the loader -/

namespace Yo

theorem storeBytes_sortedFrom : ∀ (bs : List Nat) (m : Mem) (loc : Nat), SortedFrom 0 m → loc + bs.length ≤ U64 →
    SortedFrom 0 (storeBytes m loc bs)
  | [], m, _, hs, _ => hs
  | b :: rest, m, loc, hs, hl => by
    simp only [List.length_cons] at hl
    unfold storeBytes
    exact storeBytes_sortedFrom rest _ (loc + 1) (Mem.insert_sortedFrom m 0 loc b hs (Nat.zero_le _) (by omega)) (by omega)

theorem hexDigitVal_lt (b : Nat) (h : Spec.isHexDigit b = true) : Spec.hexDigitVal b < 16 := by
  unfold Spec.isHexDigit at h
  unfold Spec.hexDigitVal
  simp only [Bool.or_eq_true, Bool.and_eq_true, decide_eq_true_eq] at h
  split
  · omega
  · split <;> omega

theorem foldl_hex_lt : ∀ (l : List Nat) (acc : Nat), (∀ d ∈ l, Spec.isHexDigit d = true) →
    l.foldl (fun acc d => acc * 16 + Spec.hexDigitVal d) acc < (acc + 1) * 16 ^ l.length
  | [], acc, _ => by simp
  | d :: rest, acc, h => by
    simp only [List.foldl_cons, List.length_cons]
    have hd := hexDigitVal_lt d (h d List.mem_cons_self)
    have := foldl_hex_lt rest (acc * 16 + Spec.hexDigitVal d) (fun x hx => h x (List.mem_cons_of_mem _ hx))
    calc _ < (acc * 16 + Spec.hexDigitVal d + 1) * 16 ^ rest.length := this
      _ ≤ ((acc + 1) * 16) * 16 ^ rest.length := Nat.mul_le_mul_right _ (by omega)
      _ = (acc + 1) * 16 ^ (rest.length + 1) := by rw [Nat.mul_assoc, Nat.pow_succ, Nat.mul_comm 16]

theorem fieldPairs_length : ∀ (n : Nat) (l bs : List Nat), l.length ≤ n → Spec.fieldPairs l = some bs → 2 * bs.length ≤ l.length
  | _, [], bs, _, h => by simp [Spec.fieldPairs] at h; subst h; simp
  | 0, _ :: _, _, hn, _ => by simp at hn
  | n + 1, [a], bs, _, h => by
    by_cases ha : a = 32
    · subst ha; simp [Spec.fieldPairs] at h; subst h; simp
    · rw [fp_single a ha] at h; cases h
  | n + 1, a :: b :: rest, bs, hn, h => by
    by_cases ha : a = 32
    · subst ha; rw [fp_blank] at h; cases h; simp
    · rw [fp_pair a b rest ha] at h
      split at h
      · cases hr : Spec.fieldPairs rest with
        | none => rw [hr] at h; cases h
        | some l =>
          rw [hr] at h
          simp only [Option.map_some, Option.some.injEq] at h
          subst h
          have := fieldPairs_length n rest l (by simp at hn; omega) hr
          simp only [List.length_cons]
          omega
      · cases h

theorem classify_data_bounds (line : List Nat) (addr : Nat) (bs : List Nat) (h : Spec.classify line = .data addr bs) :
    addr < 4096 ∧ bs.length ≤ 10 := by
  unfold Spec.classify at h
  simp only at h
  split at h
  · split at h
    · rename_i hall
      cases hf : Spec.fieldPairs ((line.drop 7).take 20) with
      | none => rw [hf] at h; cases h
      | some l =>
        rw [hf] at h
        simp only [Spec.YoLine.data.injEq] at h
        obtain ⟨h1, h2⟩ := h
        subst h2
        constructor
        · rw [← h1]
          have hlen : ((line.drop 2).take 3).length ≤ 3 := by simp; omega
          have := foldl_hex_lt ((line.drop 2).take 3) 0 (fun d hd => List.all_eq_true.mp hall d hd)
          calc _ < (0 + 1) * 16 ^ ((line.drop 2).take 3).length := this
            _ ≤ 1 * 16 ^ 3 := Nat.mul_le_mul_left _ (Nat.pow_le_pow_right (by decide) hlen)
            _ = 4096 := by decide
        · have hlen : ((line.drop 7).take 20).length ≤ 20 := by simp; omega
          have := fieldPairs_length 20 _ _ hlen hf
          omega
    · cases h
  · split at h <;> cases h

theorem loadLine_sorted (m : Mem) (loc : Nat) (line : Bytes) (hv : validUtf8 line = true) (hs : SortedFrom 0 m)
    (m' : Mem) (loc' : Nat) (h : loadLine m loc line = .ok m' loc') : SortedFrom 0 m' := by
  rw [loadLine_spec m loc line hv] at h
  cases hc : Spec.classify line with
  | data addr bs =>
    rw [hc] at h
    simp only [LineResult.ok.injEq] at h
    obtain ⟨b1, b2⟩ := classify_data_bounds line addr bs hc
    rw [← h.1]
    have hU : (4096 : Nat) + 10 ≤ U64 := by unfold U64; decide
    exact storeBytes_sortedFrom bs m addr hs (by omega)
  | nothing => rw [hc] at h; simp only [LineResult.ok.injEq] at h; rw [← h.1]; exact hs
  | malformed => rw [hc] at h; cases h

theorem loadLines_sorted : ∀ (lines : List Bytes) (m : Mem) (loc : Nat) (found : Bool) (m' : Mem), SortedFrom 0 m →
    loadLines lines m loc found = .ok m' → SortedFrom 0 m'
  | [], m, _, found, m', hs, h => by
    unfold loadLines at h
    split at h
    · simp only [LoadResult.ok.injEq] at h; rw [← h]; exact hs
    · cases h
  | line :: rest, m, loc, found, m', hs, h => by
    unfold loadLines at h
    by_cases hv : validUtf8 line = true
    · simp only [hv, Bool.not_true, Bool.false_eq_true, if_false] at h
      cases hl : loadLine m loc line with
      | ok m₁ loc₁ =>
        rw [hl] at h
        exact loadLines_sorted rest m₁ loc₁ true m' (loadLine_sorted m loc line hv hs m₁ loc₁ hl) h
      | err => rw [hl] at h; cases h
      | panic => rw [hl] at h; cases h
    · have : validUtf8 line = false := by simpa using hv
      simp [this] at h

/-- **every image the loader accepts is sorted** -/
theorem load_sorted (lines : List Bytes) (m : Mem) (h : load lines = .ok m) : SortedFrom 0 m :=
  loadLines_sorted lines [] 0 false m trivial h
end Yo
