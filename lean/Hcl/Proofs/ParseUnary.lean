import Hcl.Proofs.ParseGrouping
open Parser Lexer

/-! Unary operators, slices and `in` against every binary operator: kernel evaluation of the parser model. -/

namespace Grouping

/-- shapes with unary operators, slices and set membership -/
inductive Sk2 where
  | leaf (start : Nat)
  | bin (op : BinOp) (l r : Sk2)
  | un (op : UnOp) (x : Sk2)
  | slice (x : Sk2) (lo hi : Nat)
  | inSet (x : Sk2) (first : Sk2)
  | other
  deriving DecidableEq, Repr

def sk2 : PEx → Sk2
  | .wire s _ _ => .leaf s
  | .bin _ _ op l r => .bin op (sk2 l) (sk2 r)
  | .un _ _ op x => .un op (sk2 x)
  | .slice _ _ x lo hi => .slice (sk2 x) lo hi
  | .inSet _ _ x (.cons y .nil) => .inSet (sk2 x) (sk2 y)
  | _ => .other

def parseSk2 (ts : Toks) : Option Sk2 :=
  match parseTier (14 * ts.length + 40) 0 ts with
  | some (x, _, _, []) => some (sk2 x)
  | _ => none

def unTok : UnOp → Tok
  | .plus => .Plus | .neg => .Minus | .compl => .Complement | .not => .Not

def allUnOps : List UnOp := [.plus, .neg, .compl, .not]

def idT (s : Nat) : Nat × Tok × Nat := (s, .Identifier "x", s + 1)
def numT (s n : Nat) : Nat × Tok × Nat := (s, .Constant ⟨n, .unlimited⟩, s + 1)

/-- `u x op x`: the unary operator applies to the first operand only -/
theorem unary_left : (allUnOps.all fun u => allBinOps.all fun op =>
    parseSk2 [(0, unTok u, 1), idT 2, (4, tokOf op, 5), idT 6] == some (.bin op (.un u (.leaf 2)) (.leaf 6))) = true := by
  decide +kernel

/-- `x op u x`: a unary operator in the second operand position -/
theorem unary_right : (allUnOps.all fun u => allBinOps.all fun op =>
    parseSk2 [idT 0, (2, tokOf op, 3), (4, unTok u, 5), idT 6] == some (.bin op (.leaf 0) (.un u (.leaf 6)))) = true := by
  decide +kernel

/-- `x op x[1..3]` and `x[1..3] op x`: slicing binds tighter than every binary operator -/
theorem slice_tightest : (allBinOps.all fun op =>
    parseSk2 [idT 0, (2, tokOf op, 3), idT 4, (5, .OpenBracket, 6), numT 6 1, (7, .DotDot, 9), numT 9 3, (10, .CloseBracket, 11)]
      == some (.bin op (.leaf 0) (.slice (.leaf 4) 1 3)) &&
    parseSk2 [idT 0, (1, .OpenBracket, 2), numT 2 1, (3, .DotDot, 5), numT 5 3, (6, .CloseBracket, 7), (8, tokOf op, 9), idT 10]
      == some (.bin op (.slice (.leaf 0) 1 3) (.leaf 10))) = true := by
  decide +kernel

/-- `-x[1..3]`: a unary operator and a slice share the tightest level and do not combine without parentheses
    (the grammar's `Term` is a unary operator applied to a simple term, *or* a sliced simple term) -/
theorem unary_slice_needs_parentheses : (allUnOps.all fun u =>
    parseSk2 [(0, unTok u, 1), idT 1, (2, .OpenBracket, 3), numT 3 1, (4, .DotDot, 6), numT 6 3, (7, .CloseBracket, 8)]
      == none) = true := by
  decide +kernel

/-- `x op x in { x }`: `in` lies between `|` and the comparisons: operators up to `|` group first, comparisons, `&&`
    and `||` apply to the result of `in` -/
theorem in_level : (allBinOps.all fun op =>
    parseSk2 [idT 0, (2, tokOf op, 3), idT 4, (6, .In, 8), (9, .OpenBrace, 10), idT 10, (11, .CloseBrace, 12)] ==
      (if (level op).1 < 6 then some (.inSet (.bin op (.leaf 0) (.leaf 4)) (.leaf 10))
       else some (.bin op (.leaf 0) (.inSet (.leaf 4) (.leaf 10))))) = true := by
  decide +kernel

end Grouping
