import Hcl.Proofs.FlagProgram
import Hcl.Theorems.C06
open Rust

/-! A program accepted under two sets of strictness options runs alike under both. -/

section
variable {fl₁ fl₂ : Flags} {A : AMap Ex} {W : AMap Width} {K : AMap WireValue}

/-- one action: the options do not change what it does to a well-typed state -/
theorem execAction_flag (hΓ : CtxOK W.toCtx) (hwf : ∀ p ∈ A, wfEx p.2 = true) (s : State) (hs : StateOK W.toCtx s) (a : Action)
    (g₁ : GoodAction fl₁ A W K y86FixedFunctions a) (g₂ : GoodAction fl₂ A W K y86FixedFunctions a)
    (hp : Present s.values a.reads) : execAction fl₁ s a = execAction fl₂ s a := by
  cases a with
  | readReg _ _ => rfl
  | readMem _ _ _ _ _ => rfl
  | writeReg _ _ => rfl
  | writeMem _ _ _ _ => rfl
  | setStatus _ => rfl
  | assign n e w =>
    -- the same definition stands behind the action under both option sets
    have fixedNot : ∀ f ∈ y86FixedFunctions, fixedFnOK f = true → Action.assign n e w ≠ f.action := by
      intro f _ hok heq
      unfold fixedFnOK at hok
      simp only [Bool.and_eq_true] at hok
      rw [← heq] at hok
      simp at hok
    rcases g₁ with ⟨n₁, e₁, w₁, ew₁, ha₁, hg₁, _, hc₁⟩ | ⟨f, hf, hok, ha⟩
    · rcases g₂ with ⟨n₂, e₂, w₂, ew₂, ha₂, hg₂, _, hc₂⟩ | ⟨f, hf, hok, ha⟩
      · simp only [Action.assign.injEq] at ha₁ ha₂
        obtain ⟨rfl, he₁, rfl⟩ := ha₁
        obtain ⟨rfl, he₂, rfl⟩ := ha₂
        rw [hg₁] at hg₂
        simp only [Option.some.injEq] at hg₂
        subst hg₂
        have hwfe := hwf (n, e₁) (AMap.mem_of_get? _ _ _ hg₁)
        have hp' : Present s.values (refs e₁) := by
          rw [he₁] at hp
          simpa [Action.reads, refs_fixMux] using hp
        have hon := envOn_of hs.vals _ hp'
        obtain ⟨_, s1, c1⟩ := ev_correct (fl := fl₁) (κ := K.toEnv) hΓ e₁ ew₁ hon hwfe hc₁
        obtain ⟨_, s2, c2⟩ := ev_correct (fl := fl₂) (κ := K.toEnv) hΓ e₁ ew₂ hon hwfe hc₂
        have hw : ew₁ = ew₂ := by rw [s1, s2]
        subst hw
        have hev : ev fl₁ s.values.toEnv e = ev fl₂ s.values.toEnv e := by
          have k1 : ev fl₁ s.values.toEnv e = ev fl₁ s.values.toEnv (fixMux fl₁ W.toCtx K.toEnv e₁) := by rw [he₁]
          have k2 : ev fl₂ s.values.toEnv e = ev fl₂ s.values.toEnv (fixMux fl₂ W.toCtx K.toEnv e₁) := by rw [he₂]
          rw [k1, k2]
          cases hd : Spec.dv W.toCtx (val s.values.toEnv) e₁ with
          | none =>
            rw [hd] at c1 c2
            simp only at c1 c2
            rw [c1, c2]
          | some x =>
            rw [hd] at c1 c2
            simp only at c1 c2
            rw [c1.1, c2.1]
        simp only [execAction, hev]
      · exact absurd ha (fixedNot f hf hok)
    · exact absurd ha (fixedNot f hf hok)

theorem execActions_flag (hΓ : CtxOK W.toCtx) (hwf : ∀ p ∈ A, wfEx p.2 = true)
    (hfix : ∀ f ∈ y86FixedFunctions, ∀ n w, f.outWire = some (n, w) → W.get? n = some (.bits w)) :
    ∀ (acts : List Action) (s : State) (avail : List String), StateOK W.toCtx s →
      (∀ a ∈ acts, GoodAction fl₁ A W K y86FixedFunctions a) → (∀ a ∈ acts, GoodAction fl₂ A W K y86FixedFunctions a) →
      Sched avail acts → (∀ n ∈ avail, s.values.contains n = true) →
      execActions fl₁ acts s = execActions fl₂ acts s
  | [], _, _, _, _, _, _, _ => rfl
  | a :: rest, s, avail, hs, g₁, g₂, hsched, hav => by
    have hp : Present s.values a.reads := fun n hn => hav n (hsched.1 n hn)
    have hstep := execAction_flag hΓ hwf s hs a (g₁ a List.mem_cons_self) (g₂ a List.mem_cons_self) hp
    simp only [execActions]
    rw [← hstep]
    rcases execAction_sound (fl := fl₁) (κ := K.toEnv) hΓ s hs a
        (goodAction_ok fl₁ A W K a hwf hfix (g₁ a List.mem_cons_self)) hp with ⟨s₁, h₁, hs₁, hmono₁, hw₁, _⟩ | herr
    · rw [h₁]
      have hav₁ : ∀ n ∈ avail ++ a.writes, s₁.values.contains n = true := by
        intro n hn
        rcases List.mem_append.mp hn with h | h
        · exact hmono₁ n (hav n h)
        · exact hw₁ n h
      exact execActions_flag hΓ hwf hfix rest s₁ (avail ++ a.writes) hs₁ (fun b hb => g₁ b (List.mem_cons_of_mem _ hb))
        (fun b hb => g₂ b (List.mem_cons_of_mem _ hb)) hsched.2 hav₁
    · rw [herr]; rfl
end

section
variable {fl₁ fl₂ : Flags} {A : AMap Ex} {W : AMap Width} {K : AMap WireValue} {p : Program} {avail : List String}

theorem stepCycle_flag (hwf : ∀ pr ∈ A, wfEx pr.2 = true)
    (hfix : ∀ f ∈ y86FixedFunctions, ∀ n w, f.outWire = some (n, w) → W.get? n = some (.bits w))
    (hp : ProgramOK fl₁ W.toCtx K.toEnv p avail)
    (g₁ : ∀ a ∈ p.actions, GoodAction fl₁ A W K y86FixedFunctions a) (g₂ : ∀ a ∈ p.actions, GoodAction fl₂ A W K y86FixedFunctions a)
    (s : State) (hs : StateOK W.toCtx s) (hav : ∀ n ∈ avail, s.values.contains n = true) :
    stepCycle fl₁ p s = stepCycle fl₂ p s := by
  unfold stepCycle
  rw [execActions_flag hp.ctx hwf hfix p.actions s avail hs g₁ g₂ hp.sched hav]

theorem runLoop_flag (hwf : ∀ pr ∈ A, wfEx pr.2 = true)
    (hfix : ∀ f ∈ y86FixedFunctions, ∀ n w, f.outWire = some (n, w) → W.get? n = some (.bits w))
    (hp : ProgramOK fl₁ W.toCtx K.toEnv p avail)
    (g₁ : ∀ a ∈ p.actions, GoodAction fl₁ A W K y86FixedFunctions a) (g₂ : ∀ a ∈ p.actions, GoodAction fl₂ A W K y86FixedFunctions a)
    (timeout : Nat) : ∀ (fuel : Nat) (s : State), StateOK W.toCtx s → (∀ x ∈ avail, s.values.contains x = true) →
      (∀ b ∈ p.banks, BankOK W.toCtx s.values b) → runLoop fl₁ p timeout fuel s = runLoop fl₂ p timeout fuel s
  | 0, _, _, _, _ => rfl
  | fuel + 1, s, hs, hav, hb => by
    simp only [runLoop]
    rw [← stepCycle_flag hwf hfix hp g₁ g₂ s hs hav]
    by_cases hd : isDone s timeout = true
    · simp only [hd, if_true]
    · simp only [hd]
      rcases stepCycle_sound hp s hs hav hb with ⟨s₁, h₁, hs₁, _, hm₁⟩ | herr
      · simp only [h₁]
        exact runLoop_flag hwf hfix hp g₁ g₂ timeout fuel s₁ hs₁ (fun x hx => hm₁ x (hav x hx))
          (fun b hbb => (hb b hbb).mono hm₁)
      · simp only [herr]
end

/-- **C17 at program level**: a statement list accepted under two sets of strictness options (same iteration orders)
    yields the same program, which started on any memory image takes the same run under both -- the same states
    after every cycle, the same end -/
theorem Program_new_flag_run (fl₁ fl₂ : Flags) (cls : CharClass) (o : Orders) (stmts : List Stmt) (p₁ p₂ : Program)
    (ho : OrdersOK o) (hwf : StmtsWF stmts)
    (h₁ : Program.new fl₁ cls o y86FixedFunctions stmts = .ok p₁)
    (h₂ : Program.new fl₂ cls o y86FixedFunctions stmts = .ok p₂) (mem : Mem) (hmem : mem.BytesOK) (timeout fuel : Nat) :
    p₁ = p₂ ∧ ∃ s0, State.init p₁ mem = .ok s0 ∧ runLoop fl₁ p₁ timeout fuel s0 = runLoop fl₂ p₂ timeout fuel s0 := by
  have hpp := Program_new_flag fl₁ fl₂ cls o stmts p₁ p₂ hwf h₁ h₂
  subst hpp
  refine ⟨rfl, ?_⟩
  obtain ⟨s1, s3₁, kn₁, e1, e3₁, ek₁, ⟨hfix, hcok, hwfD⟩, hp₁, g₁, hwfA, vals, hv1, hv2, hv3, hv4⟩ := Program_new_sound' fl₁ cls o stmts p₁ ho hwf h₁
  obtain ⟨s1', s3₂, kn₂, e1', e3₂, ek₂, _, hp₂, g₂, _, _⟩ := Program_new_sound' fl₂ cls o stmts p₁ ho hwf h₂
  have hs1 : s1 = s1' := by rw [e1, e1']
  subst hs1
  -- the register banks of step 3 are the same under either option set
  have hs3 : s3₁ = s3₂ := by
    have c₁ := Program_new_s3clean fl₁ cls o stmts p₁ h₁
    have c₂ := Program_new_s3clean fl₂ cls o stmts p₁ h₂
    rw [e3₁, e3₂]
    rw [← e1] at c₁ c₂
    unfold step3Of at c₁ c₂ ⊢
    exact banks_fold_flag fl₁ fl₂ cls s1 p₁.constants hcok s1.banksRaw _ hwfD c₁ c₂
  subst hs3
  refine ⟨{ values := vals, regs := List.replicate 16 0, mem := mem }, ?_, ?_⟩
  · simp [State.init, hv1, bind, Except.bind, pure, Except.pure]
  · have hs : StateOK (finalWires s1 p₁.constants s3₁).toCtx { values := vals, regs := List.replicate 16 0, mem := mem } :=
      { vals := hv2, regsLen := by simp, regsBound := by intro r hr; simp at hr; rw [hr]; simp [U64]
        memBytes := hmem }
    exact runLoop_flag hwfA hfix hp₁ g₁ g₂ timeout fuel _ hs hv3 hv4
