import Hcl.Proofs.SpecFaultsMid
open Rust Reorder

/-! # Register banks: `BankDeclOK` against `wDefault`, `f3`, `f5`, `f7` -/

namespace SF

theorem compatible_symm (a b : Width) : Spec.compatible a b = Spec.compatible b a := by
  cases a <;> cases b <;> simp [Spec.compatible, Bool.beq_comm]

theorem combine_isSome_iff (a b : Width) : (a.combine b).isSome = true ↔ Spec.compatible a b = true := by
  rw [combine_spec]; cases Spec.compatible a b <;> simp

theorem mem_defaultsOf (gb : List BankDecl) (e : Ex) : e ∈ defaultsOf gb ↔ ∃ b ∈ gb, ∃ r ∈ b.regs, e = r.default := by
  unfold defaultsOf
  simp only [List.mem_flatMap, List.mem_map]
  constructor
  · rintro ⟨b, hb, r, hr, e'⟩; exact ⟨b, hb, r, hr, e'.symm⟩
  · rintro ⟨b, hb, r, hr, e'⟩; exact ⟨b, hb, r, hr, e'.symm⟩

/-- constants and register defaults read constants only, when `f3` and `f7` are empty -/
theorem reads_consts (isLower isUpper : Char → Bool) (stmts : List Stmt)
    (h3 : f3 isLower isUpper stmts = []) (h7 : f7 isLower isUpper stmts = []) :
    ∀ e ∈ (el stmts).constDefs.map (·.2) ++ defaultsOf (goodBanks isLower isUpper stmts), ∀ n ∈ refs e, n ∈ constNames stmts := by
  intro e he n hn
  apply (f7_nil_iff isLower isUpper stmts).mp h7 e he n hn
  apply (f3_nil_iff isLower isUpper stmts).mp h3 e _ n hn
  unfold exprs
  rw [List.append_assoc]
  exact List.mem_append_right _ he

theorem contains_of_match {stmts : List Stmt} {c : AMap WireValue} (hcm : ConstsMatch stmts c) (n : String)
    (h : n ∈ constNames stmts) : c.contains n = true := by
  rw [AMap.contains_eq_isSome]
  show (c.toEnv n).isSome = true
  rw [hcm.get n]
  unfold specEnv
  obtain ⟨w, hw⟩ := Option.isSome_iff_exists.mp (((cst_inv stmts).has_iff_lookup n).mp (hcm.all n h))
  rw [hw]; rfl

/-- **register banks, specification ⇒ model** -/
theorem banks_sound (fl : Flags) {cls : CharClass} {stmts : List Stmt} {c : AMap WireValue} (hb : Basic cls stmts)
    (hwf : StmtsWF stmts) (hcm : ConstsMatch stmts c) (hok : ConstOK c)
    (hplainD : ∀ b ∈ (el stmts).banks, ∀ r ∈ b.regs, ∀ cd ∈ conds r.default, Plain (K stmts) cd = true)
    (h3 : f3 cls.isLower cls.isUpper stmts = []) (h5 : f5 cls.isLower cls.isUpper stmts = [])
    (h7 : f7 cls.isLower cls.isUpper stmts = []) (hwD : wDefault fl cls.isLower cls.isUpper stmts = []) :
    ∀ b ∈ (step1Of stmts).banksRaw, BankDeclOK fl cls (step1Of stmts) c b := by
  intro b hbm
  have hbe : b ∈ (el stmts).banks := by rw [el_banks]; exact hbm
  have hgb := hb.goodBanks
  obtain ⟨i, o, hn, hl, hu⟩ := (goodName_iff _ _ b).mp (hb.good b hbe)
  have hdecl : ∀ x, x ∈ (step1Of stmts).declared → x ∈ wireNames stmts ++ constNames stmts := by
    intro x hx
    exact List.mem_append.mpr ((mem_allDeclared_iff stmts x).mp ((step1Of_declared_iff stmts x).mp hx))
  have H5 := (f5_nil_iff cls.isLower cls.isUpper stmts).mp h5
  have HR := reads_consts cls.isLower cls.isUpper stmts h3 h7
  have HD := (wDefault_nil_iff fl cls.isLower cls.isUpper stmts).mp hwD
  rw [hgb] at H5 HR HD
  refine ⟨i, o, hn, hl, hu, ?_, ?_, ?_⟩
  · intro hx
    apply (hb.declFresh _ (hdecl _ hx)).2.1
    exact (mem_bankCtlOf _ _).mpr ⟨b, hbe, Or.inl (stallOf_eq b i o hn).symm⟩
  · intro hx
    apply (hb.declFresh _ (hdecl _ hx)).2.1
    exact (mem_bankCtlOf _ _).mpr ⟨b, hbe, Or.inr (bubbleOf_eq b i o hn).symm⟩
  · intro r hr
    have hrefs : ∀ n ∈ refs r.default, n ∈ constNames stmts :=
      HR r.default (List.mem_append_right _ ((mem_defaultsOf _ _).mpr ⟨b, hbe, r, hr, rfl⟩))
    refine ⟨?_, ⟨?_, ?_⟩, ?_, ?_⟩
    · intro n hnr hbad
      rw [contains_of_match hcm n (hrefs n hnr)] at hbad
      cases hbad.2
    · intro hx
      apply (hb.declFresh _ (hdecl _ hx)).1
      exact List.mem_append_left _ ((mem_bankInOf _ _).mpr ⟨b, hbe, r, hr, (inNameOf_eq b i o hn r).symm⟩)
    · intro hx
      apply (hb.declFresh _ (hdecl _ hx)).1
      exact List.mem_append_right _ ((mem_bankOutOf _ _).mpr ⟨b, hbe, r, hr, (outNameOf_eq b i o hn r).symm⟩)
    · cases hc : (step1Of stmts).assignments.contains (regOutName o r) with
      | false => rfl
      | true =>
        exfalso
        have ht := (assignments_contains_iff stmts _).mp hc
        exact (H5 _ ht).1 ((mem_bankOutOf _ _).mpr ⟨b, hbe, r, hr, (outNameOf_eq b i o hn r).symm⟩)
    · obtain ⟨ew, hty, hcomp, hdv⟩ := HD b hbe r hr
      obtain ⟨h1, h2⟩ := def_ok fl hb hcm.get (wOf c).toCtx (tables_consts (toEnv_none hcm.get) hok) r.default
        (wf_banks hwf b hbm r hr).2 (hplainD b hbe r hr) hrefs (fun n _ => wOf_eq hcm.get n)
      rw [hty] at h1
      have hck := okOf_some _ _ h1
      obtain ⟨_, _, hm⟩ := h2 ew hck
      obtain ⟨v, hv⟩ := Option.isSome_iff_exists.mp hdv
      rw [hv] at hm
      simp only at hm
      refine ⟨⟨v, ew⟩, ?_, ?_⟩
      · unfold checkFixEval
        rw [hck]
        simp only
        rw [hm.1]
      · rw [combine_isSome_iff, compatible_symm]; exact hcomp

/-- **register banks, model ⇒ specification**: the defaults read constants only and obey the width rules -/
theorem banks_complete {fl : Flags} {cls : CharClass} {o : Orders} {stmts : List Stmt} {c : AMap WireValue}
    (hm : Mid fl cls o stmts c)
    (hplainD : ∀ b ∈ (el stmts).banks, ∀ r ∈ b.regs, ∀ cd ∈ conds r.default, Plain (K stmts) cd = true) :
    (∀ e ∈ defaultsOf (goodBanks cls.isLower cls.isUpper stmts), ∀ n ∈ refs e, n ∈ constNames stmts) ∧
    wDefault fl cls.isLower cls.isUpper stmts = [] := by
  have hb := hm.basic
  have hcore : ∀ b ∈ (el stmts).banks, ∀ r ∈ b.regs, (∀ n ∈ refs r.default, n ∈ constNames stmts) ∧
      ∃ ew, Spec.typeOf fl (Spec.design stmts).Γ (isTrue stmts) r.default = some ew ∧ Spec.compatible r.width ew = true ∧
        (Spec.dv (Spec.design stmts).Γ (constEnv stmts) r.default).isSome = true := by
    intro b hbe r hr
    have hbm : b ∈ (step1Of stmts).banksRaw := by rw [← el_banks]; exact hbe
    obtain ⟨i, o', hn, _, _, _, _, hregs⟩ := (hm.front.banksOK b hbm).ok
    obtain ⟨v, hcf, hcomb⟩ := (hregs r hr).defaultOK
    unfold checkFixEval at hcf
    cases hck : check fl (wOf c).toCtx c.toEnv r.default with
    | error ds => rw [hck] at hcf; cases hcf
    | ok w =>
      rw [hck] at hcf
      simp only at hcf
      have hrefs : ∀ n ∈ refs r.default, n ∈ constNames stmts := by
        intro n hnr
        have h1 := check_refs_declared r.default w hck n hnr
        rw [wOf_toCtx] at h1
        by_cases hk : K stmts n = true
        · exact (K_iff stmts n).mp hk
        · rw [toEnv_none hm.cm.get n (by simpa using hk)] at h1; cases h1
      obtain ⟨h1, h2⟩ := def_ok fl hb hm.cm.get (wOf c).toCtx hm.tablesC r.default
        (wf_banks hm.wf b hbm r hr).2 (hplainD b hbe r hr) hrefs (fun n _ => wOf_eq hm.cm.get n)
      obtain ⟨_, _, hmv⟩ := h2 w hck
      refine ⟨hrefs, w, by rw [h1, hck]; rfl, ?_, ?_⟩
      · cases hd : Spec.dv (Spec.design stmts).Γ (constEnv stmts) r.default with
        | none =>
          rw [hd] at hmv
          simp only at hmv
          rw [hmv] at hcf
          cases hcf
        | some v' =>
          rw [hd] at hmv
          simp only at hmv
          rw [hmv.1] at hcf
          simp only [Except.ok.injEq] at hcf
          subst hcf
          rw [compatible_symm, ← combine_isSome_iff]
          exact hcomb
      · cases hd : Spec.dv (Spec.design stmts).Γ (constEnv stmts) r.default with
        | none =>
          rw [hd] at hmv
          simp only at hmv
          rw [hmv] at hcf
          cases hcf
        | some v' => rfl
  rw [wDefault_nil_iff, hm.goodBanks]
  refine ⟨?_, fun b hbe r hr => (hcore b hbe r hr).2⟩
  intro e he
  obtain ⟨b, hbe, r, hr, rfl⟩ := (mem_defaultsOf _ _).mp he
  exact (hcore b hbe r hr).1

end SF
