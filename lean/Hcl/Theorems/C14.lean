import Hcl.Proofs.Region
import Hcl.Proofs.LexSpans
import Hcl.Proofs.ParseSpans
import Hcl.Generated

/-!
# C14 — diagnostics point at the offending construct in the user's own file

`Io.showRegion`, `Io.lineNumberAndBounds`, `Io.filename` model io.rs (compared with the real
`FileContents` on arbitrary texts and spans, and with the regions of real rendered diagnostics);
`Spec.region`, `Spec.lineNo`, `Spec.lineText`, `Spec.column` say where a position of the user's text is
without any table.  `P` is the built-in preamble, `U` the user's file, both as UTF-8 bytes.
-/

open Io

/-- **file**: every position at or after the start of the user's text is attributed to the user's file -/
theorem C14_file (P U name : Bytes) (s : Nat) : filename (newFromData P U name) (P.length + s) = .ok name :=
  filename_user P U name _ (by omega)

/-- positions inside the preamble are attributed to `<builtin>` (so the attribution is exactly by position) -/
theorem C14_file_builtin (P U name : Bytes) (t : Nat) (ht : t < P.length) :
    filename (newFromData P U name) t = .ok builtinName := by
  have hgt : P.length > t := ht
  have hne : ¬ P.length = t := by omega
  by_cases h0 : t = 0
  · subst h0
    simp [filename, newFromData, lookupIndex, binarySearch, bsLoop, hgt, bind, Except.bind, pure, Except.pure]
  · have hlt : 0 < t := by omega
    have hne0 : ¬ 0 = t := by omega
    simp [filename, newFromData, lookupIndex, binarySearch, bsLoop, hgt, hne0, hlt, Rust.uSub, bind, Except.bind, pure, Except.pure]

/-- **line**: the line number reported for a position of the user's text is one more than the number of line
    feeds of the user's text before it — whatever the preamble is, for every position up to the end of the file -/
theorem C14_line (P U name : Bytes) (s : Nat) (hs : s ≤ U.length) :
    ∃ b n, lineNumberAndBounds (newFromData P U name) (P.length + s) = .ok (Spec.lineNo U s, b, n) :=
  ⟨_, _, lineNumberAndBounds_user P U name s hs⟩

/-- **echo and underline**: for a span inside one line of the user's text, the located region is exactly
    header `-> file:line`, the text of that line, and carets under exactly the span -/
theorem C14_region (P U name : Bytes) (s e : Nat) (r : Bytes)
    (hP : P = [] ∨ P.getLast? = some 10) (hvalid : Yo.validUtf8 (P ++ U) = true)
    (hspec : Spec.region name U s e = some r) :
    showRegion (newFromData P U name) (P.length + s) (P.length + e) = .ok r := by
  obtain ⟨h1, h2, h3, h4, h5⟩ := region_eq_render name U s e r hspec
  rw [h5]
  exact showRegion_line P U name s e hP hvalid h1 h2 h3 h4

/-- the hypothesis on the preamble holds for the real one (text extracted from program.rs on this run) -/
theorem C14_preamble_ends_line : Generated.preambleBytes.getLast? = some 10 := by decide +kernel

/-- and it is valid UTF-8 -/
theorem C14_preamble_utf8 : Yo.validUtf8 Generated.preambleBytes = true := by decide +kernel

/-- the hypotheses of `C14_region` are satisfiable: third line of a CRLF file, after a comment -/
example : Spec.region (Yo.str "t.hcl") (Yo.str "wire a : 8;\r\n# c\r\n  a = bb;\r\n") 24 26 =
    some (Yo.str "     -> t.hcl:3\n     |\n   3 |   a = bb;\n     |       ^^\n") := by decide

/-- **C14 with the real preamble**: for every valid-UTF-8 user file and every span inside one of its lines, what
    `show_region` prints for that span (offsets as the lexer counts them, after the preamble) is the specified
    region: the user's file name, the line counted in the user's file, that line's text, carets under the span -/
theorem C14_region_y86 (U name : Bytes) (s e : Nat) (r : Bytes) (hU : Yo.validUtf8 U = true)
    (hspec : Spec.region name U s e = some r) :
    showRegion (newFromData Generated.preambleBytes U name) (Generated.preambleBytes.length + s)
      (Generated.preambleBytes.length + e) = .ok r :=
  C14_region _ U name s e r (Or.inr C14_preamble_ends_line)
    (Yo.validUtf8_append _ _ _ (Nat.le_refl _) C14_preamble_utf8 hU) hspec

/-! ### the spans of the tokens -/

/-- **C14, token spans**: for every input and every classification of its characters, the spans the lexer attaches to
    its tokens are byte ranges of the input, each non-empty, in increasing order and not overlapping -- so a span taken
    from a token (or stretching from one token to a later one) always denotes a piece of the text that was read -/
theorem C14_token_spans (cls : Lexer.CharCls) (input : List Char) :
    Lexer.SpansFrom (Lexer.sizeOf' input) 0 (Lexer.lex cls input) :=
  Lexer.lex_spans cls input

/-- what the statement says about two consecutive tokens -/
example (total lo s₁ e₁ s₂ e₂ : Nat) (t₁ t₂ : Lexer.Tok) (rest : List Lexer.Item)
    (h : Lexer.SpansFrom total lo (.tok s₁ t₁ e₁ :: .tok s₂ t₂ e₂ :: rest)) :
    lo ≤ s₁ ∧ s₁ < e₁ ∧ e₁ ≤ s₂ ∧ s₂ < e₂ ∧ e₂ ≤ total := ⟨h.1, h.2.1, h.2.2.2.1, h.2.2.2.2.1, h.2.2.2.2.2.1⟩

/-! ### the spans of the expressions -/

/-- **C14, expression spans**: when the expression parser model accepts a text, every node of the tree -- operators,
    slices, concatenations, mux expressions and their options, set memberships and their members, operands in parentheses --
    carries a non-empty byte range of that text, and the range of every sub-expression lies inside the range of the
    expression it is part of.  So a diagnostic that shows the span of an expression, or of any part of it, shows a piece
    of the user's text that contains the construct. -/
theorem C14_expression_spans (cls : Lexer.CharCls) (text : List Char) (x : Parser.PEx)
    (h : Parser.parseExpr cls text = some x) : x.Within 0 (Lexer.sizeOf' text) :=
  Parser.parseExpr_spans cls text x h

/-- the same for an expression read from the middle of a token sequence: its span starts at its first token, ends at
    its last one, and the tokens left over start after it -/
theorem C14_expression_extent (T fuel k : Nat) (ts rest : Parser.Toks) (lo : Nat) (x : Parser.PEx) (s e : Nat)
    (hl : Parser.Laid T lo ts) (h : Parser.parseTier fuel k ts = some (x, s, e, rest)) :
    lo ≤ s ∧ s < e ∧ e ≤ T ∧ x.Within s e ∧ Parser.Laid T e rest := by
  obtain ⟨a, b, c, d⟩ := Parser.parseTier_spans fuel k ts rest lo x s e hl h
  exact ⟨a, b, d.le, c, d⟩

/-- what `Within` says for `a + b` -/
example (s e s₁ e₁ s₂ e₂ : Nat) (a b : String) (h : (Parser.PEx.bin s e .add (.wire s₁ e₁ a) (.wire s₂ e₂ b)).Within 0 10) :
    s < e ∧ e ≤ 10 ∧ s ≤ s₁ ∧ s₁ < e₁ ∧ e₁ ≤ e ∧ s ≤ s₂ ∧ s₂ < e₂ ∧ e₂ ≤ e := by
  obtain ⟨_, h2, h3, ⟨h4, h5, h6⟩, h7, h8, h9⟩ := h
  exact ⟨h2, h3, h4, h5, h6, h7, h8, h9⟩
