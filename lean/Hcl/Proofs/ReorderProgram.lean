import Hcl.Proofs.ReorderVerdict
import Hcl.Proofs.AcceptedValid
import Hcl.Proofs.RunEq
open Rust

/-! Reordering the statements of a program: what the two accepted programs share (property C12, the programs).

    `assignments_to_actions` is run on two listings of the same finite maps.  Its result is, on either side, the actions
    of the nodes of the dependency graph (in the order the sorter chose) followed by the actions of the active components
    that have no output (in the order of the component table); the node sets and the components agree, so the two action
    lists are two schedules of one set of value-writing actions followed by the same state-changing actions. -/

namespace Reorder

/-! ### `preprocess_fixed`: the components chosen and the nodes of the graph -/

/-- the inputs of a component that have no assignment -/
def missingOf (A : AMap Ex) (f : FixedFunction) : List String := (f.inWires.map (·.1)).filter (fun n => !A.contains n)

/-- the component is taken into the program -/
def usesF (A : AMap Ex) (f : FixedFunction) : Bool := (f.mandatory && !(missingOf A f).isEmpty) || (missingOf A f).isEmpty

def addInfo (info : FixedInfo) (f : FixedFunction) : FixedInfo :=
  match f.outWire with
  | none => { info with noOutput := info.noOutput ++ [f] }
  | some (out, _) => { info with byOutput := info.byOutput.insert out f }

def addGraph (g : GBuild) (f : FixedFunction) : GBuild :=
  match f.outWire with
  | none => g
  | some (out, _) => (f.inWires.map (·.1)).foldl (fun g n => g.insert n out) g

/-- which components `preprocess_fixed` records, and which edges it adds, depends only on which names are assigned -/
theorem preprocessOne_info (fl : Flags) (W : AMap Width) (c : AMap WireValue) (A : AMap Ex) (K : List String)
    (st : PreState) (f : FixedFunction) :
    (preprocessOne fl W c A K st f).info = (if usesF A f then addInfo st.info f else st.info) ∧
    (preprocessOne fl W c A K st f).graph = (if usesF A f then addGraph st.graph f else st.graph) := by
  unfold preprocessOne usesF addInfo addGraph missingOf
  simp only
  cases hm : f.mandatory <;>
  cases he : (List.filter (fun n => !A.contains n) (f.inWires.map (·.1))).isEmpty <;>
  cases ho : f.outWire <;> simp [apply_ite PreState.info, apply_ite PreState.graph]

/-- the same set of nodes -/
def NodesEq (g g' : GBuild) : Prop := ∀ n, n ∈ g.nodes ↔ n ∈ g'.nodes

theorem nodesEq_insert {g g' : GBuild} (h : NodesEq g g') (a b : Node) : NodesEq (g.insert a b) (g'.insert a b) := by
  intro n
  show n ∈ setInsert (setInsert g.nodes a) b ↔ n ∈ setInsert (setInsert g'.nodes a) b
  rw [mem_setInsert, mem_setInsert, mem_setInsert, mem_setInsert, h n]

theorem nodesEq_foldInsert (out : String) : ∀ (l : List String) (g g' : GBuild), NodesEq g g' →
    NodesEq (l.foldl (fun g n => g.insert n out) g) (l.foldl (fun g n => g.insert n out) g')
  | [], _, _, h => h
  | x :: rest, g, g', h => by
    simp only [List.foldl_cons]
    exact nodesEq_foldInsert out rest _ _ (nodesEq_insert h x out)

theorem nodesEq_addGraph {g g' : GBuild} (h : NodesEq g g') (f : FixedFunction) : NodesEq (addGraph g f) (addGraph g' f) := by
  unfold addGraph
  cases f.outWire with
  | none => exact h
  | some w => exact nodesEq_foldInsert w.1 _ _ _ h

theorem usesF_congr (A A' : AMap Ex) (h : ∀ n, A.contains n = A'.contains n) (f : FixedFunction) : usesF A f = usesF A' f := by
  have : missingOf A f = missingOf A' f := by
    unfold missingOf
    congr 1
    funext n
    rw [h n]
  unfold usesF
  rw [this]

theorem preprocess_fold_sim (fl : Flags) (W W' : AMap Width) (c c' : AMap WireValue) (A A' : AMap Ex) (K K' : List String)
    (h : ∀ n, A.contains n = A'.contains n) : ∀ (l : List FixedFunction) (st st' : PreState),
    st.info = st'.info → NodesEq st.graph st'.graph →
    (l.foldl (preprocessOne fl W c A K) st).info = (l.foldl (preprocessOne fl W' c' A' K') st').info ∧
    NodesEq (l.foldl (preprocessOne fl W c A K) st).graph (l.foldl (preprocessOne fl W' c' A' K') st').graph
  | [], _, _, hi, hg => ⟨hi, hg⟩
  | f :: rest, st, st', hi, hg => by
    simp only [List.foldl_cons]
    obtain ⟨a1, a2⟩ := preprocessOne_info fl W c A K st f
    obtain ⟨b1, b2⟩ := preprocessOne_info fl W' c' A' K' st' f
    apply preprocess_fold_sim fl W W' c c' A A' K K' h rest
    · rw [a1, b1, usesF_congr A A' h f, hi]
    · rw [a2, b2, usesF_congr A A' h f]
      split
      · exact nodesEq_addGraph hg f
      · exact hg

/-- the nodes of the assignment graph: the assigned names and the names they read that are not known -/
theorem assignGraph_nodes_iff (A : AMap Ex) (K : List String) (hk : A.keys.Nodup) (n : Node) :
    n ∈ (assignGraph A K).nodes ↔ (A.contains n = true ∨ ∃ p ∈ A, n ∈ refs p.2 ∧ K.contains n = false) := by
  obtain ⟨wf, hkeys, hedges⟩ := assignGraph_spec A K hk
  constructor
  · exact assignGraph_nodes_upper A K n
  · rintro (h | ⟨p, hp, hr, hkn⟩)
    · exact hkeys n ((AMap.contains_iff_mem_keys _ _).mp h)
    · exact (wf.closed (n, p.1) ((hedges n p.1).mpr ⟨p.2, hp, hr, hkn⟩)).1

theorem assignGraph_nodesEq (A A' : AMap Ex) (K K' : List String) (hA : A.Perm A') (hk : A.keys.Nodup)
    (hK : ∀ n, n ∈ K ↔ n ∈ K') : NodesEq (assignGraph A K) (assignGraph A' K') := by
  have hk' : A'.keys.Nodup := (List.Perm.nodup_iff (hA.map (fun p : String × Ex => p.1))).mp hk
  intro n
  rw [assignGraph_nodes_iff A K hk, assignGraph_nodes_iff A' K' hk', perm_contains A A' hA, list_contains_congr K K' hK]
  constructor
  · rintro (h | ⟨p, hp, hr⟩)
    · exact Or.inl h
    · exact Or.inr ⟨p, hA.mem_iff.mp hp, hr⟩
  · rintro (h | ⟨p, hp, hr⟩)
    · exact Or.inl h
    · exact Or.inr ⟨p, hA.mem_iff.mpr hp, hr⟩

/-! ### the shape of a successful `assignments_to_actions` -/

/-- the state `preprocess_fixed` ends in -/
def preOf (fl : Flags) (A : AMap Ex) (W : AMap Width) (K : List String) (fixed : List FixedFunction) (c : AMap WireValue) : PreState :=
  fixed.foldl (preprocessOne fl W c A K) { graph := assignGraph A K }

/-- a successful run returns the actions of the nodes of the graph, in the order of the sort, then the actions of the
    recorded components without an output -/
theorem assignmentsToActions_shape (fl : Flags) (o : Orders) (A : AMap Ex) (W : AMap Width)
    (K : List String) (fixed : List FixedFunction) (D : List String) (c : AMap WireValue)
    (acts : List Action) (ho : OrdersOK o) (ht : FixedTableOK fixed) (hk : A.keys.Nodup)
    (hpure : ∀ f ∈ fixed, f.outWire.isSome = f.action.isPure)
    (h : assignmentsToActions fl o A W K fixed D c = .ok acts) :
    ∃ order : List String, acts = order.filterMap (actionOf fl A W c (preOf fl A W K fixed c).info.byOutput) ++
        (preOf fl A W K fixed c).info.noOutput.map (·.action) ∧
      (∀ n, n ∈ order ↔ n ∈ (preOf fl A W K fixed c).graph.nodes) ∧
      (∀ a ∈ order.filterMap (actionOf fl A W c (preOf fl A W K fixed c).info.byOutput), a.isPure = true) ∧
      (∀ a ∈ (preOf fl A W K fixed c).info.noOutput.map (·.action), a.isPure = false) := by
  unfold assignmentsToActions at h
  unfold preOf
  simp only at h
  obtain ⟨g0wf, g0nodes, g0edges⟩ := assignGraph_spec A K hk
  generalize hg0 : assignGraph A K = g0 at h g0wf g0nodes g0edges ⊢
  generalize hpre : fixed.foldl (preprocessOne fl W c A K) { graph := g0 } = pre at h ⊢
  by_cases hpe : pre.errors.isEmpty = true
  · have hpe' : pre.errors = [] := by simpa using hpe
    simp only [hpe, Bool.not_true, Bool.false_eq_true, if_false] at h
    have hg0c : ∀ e ∈ g0.edges, A.contains e.2 = true := by
      intro e he
      obtain ⟨ex, hm, _⟩ := (g0edges e.1 e.2).mp he
      exact (AMap.contains_iff_mem_keys _ _).mpr (List.mem_map.mpr ⟨(e.2, ex), hm, rfl⟩)
    have hinit : PreFacts A K g0 [] ({ graph := g0 } : PreState) :=
      { noOut := by intro f hf; simp at hf
        byKeys := by simp [AMap.keys]
        byOut := by intro n f hf; simp at hf
        wf := g0wf
        nodes := fun n hn => hn
        edges := fun e he => Or.inl he
        noOutSub := List.Sublist.refl _
        edgesG0 := fun e he => he
        edgesFixed := by intro n f hf; simp at hf }
    have hpf := preprocess_fold_facts fl W c A K fixed ht g0 hg0c fixed [] _ (by simp) hinit
      (by rw [hpre]; exact hpe')
    rw [hpre] at hpf
    rcases pre.graph.sort_spec o hpf.wf ho with ⟨order, hso, _, hcover, _⟩ | ⟨cy, hsc, _⟩
    · rw [hso] at h
      simp only at h
      generalize hst : actionsLoop fl A W D c pre.info.byOutput order { covered := K } = st at h
      have hclean : st.Clean ∧ acts = st.result ++ pre.info.noOutput.map (·.action) := by
        split at h
        · rename_i herr
          have : st.errors ++ st.seenUndeclared.map (fun n => (⟨.UnsetUndeclaredWire, [n]⟩ : Diag)) = [] := by simpa using herr
          rw [List.append_eq_nil_iff] at this
          simp only [Except.ok.injEq] at h
          exact ⟨⟨this.1, by simpa using this.2⟩, h.symm⟩
        · simp at h
      obtain ⟨hc, he⟩ := hclean
      obtain ⟨hr, _⟩ := actionsLoop_result fl A W D c pre.info.byOutput order _ (by rw [hst]; exact hc)
      rw [hst] at hr
      simp only [List.nil_append] at hr
      refine ⟨order, by rw [he, hr], hcover, ?_, ?_⟩
      · intro a ha
        rw [List.mem_filterMap] at ha
        obtain ⟨n, _, ha⟩ := ha
        unfold actionOf at ha
        cases hg : A.get? n with
        | some e =>
          rw [hg] at ha
          simp only [Option.map_eq_some_iff] at ha
          obtain ⟨w, _, rfl⟩ := ha
          rfl
        | none =>
          rw [hg] at ha
          simp only [Option.map_eq_some_iff] at ha
          obtain ⟨f, hf, rfl⟩ := ha
          obtain ⟨hfd, ⟨w, hw⟩, _⟩ := hpf.byOut n f (AMap.mem_of_get? _ _ _ hf)
          rw [← hpure f hfd, hw]; rfl
      · intro a ha
        obtain ⟨f, hf, rfl⟩ := List.mem_map.mp ha
        obtain ⟨hfd, hnone, _⟩ := hpf.noOut f hf
        have := hpure f hfd
        rw [hnone] at this
        simpa using this.symm
    · rw [hsc] at h; simp at h
  · simp only [hpe] at h
    simp at h

/-- **`assignments_to_actions` on two listings of the same tables**: the two results are the same set of value-writing
    actions, in some order each, followed by the same list of state-changing actions -/
theorem assignmentsToActions_perm (fl : Flags) (o o' : Orders) (A A' : AMap Ex) (W W' : AMap Width)
    (K K' : List String) (fixed : List FixedFunction) (D D' : List String) (c c' : AMap WireValue)
    (acts acts' : List Action) (ho : OrdersOK o) (ho' : OrdersOK o') (ht : FixedTableOK fixed)
    (hpure : ∀ f ∈ fixed, f.outWire.isSome = f.action.isPure)
    (hA : A.Perm A') (hk : A.keys.Nodup) (hW : ∀ n, W.get? n = W'.get? n) (hK : ∀ n, n ∈ K ↔ n ∈ K') (hc : SameMap c c')
    (h : assignmentsToActions fl o A W K fixed D c = .ok acts)
    (h' : assignmentsToActions fl o' A' W' K' fixed D' c' = .ok acts') :
    ∃ pre pre' fin, acts = pre ++ fin ∧ acts' = pre' ++ fin ∧ (∀ a, a ∈ pre ↔ a ∈ pre') ∧
      (∀ a ∈ pre, a.isPure = true) ∧ (∀ a ∈ pre', a.isPure = true) ∧ (∀ a ∈ fin, a.isPure = false) := by
  have hk' : A'.keys.Nodup := (List.Perm.nodup_iff (hA.map (fun p : String × Ex => p.1))).mp hk
  obtain ⟨order, e1, hcov, hp1, hpf⟩ := assignmentsToActions_shape fl o A W K fixed D c acts ho ht hk hpure h
  obtain ⟨order', e1', hcov', hp1', _⟩ := assignmentsToActions_shape fl o' A' W' K' fixed D' c' acts' ho' ht hk' hpure h'
  have hcont := perm_contains A A' hA
  obtain ⟨hinfo, hnodes⟩ := preprocess_fold_sim fl W W' c c' A A' K K' hcont fixed
    { graph := assignGraph A K } { graph := assignGraph A' K' } rfl (assignGraph_nodesEq A A' K K' hA hk hK)
  have hinfo' : (preOf fl A W K fixed c).info = (preOf fl A' W' K' fixed c').info := hinfo
  have hnodes' : NodesEq (preOf fl A W K fixed c).graph (preOf fl A' W' K' fixed c').graph := hnodes
  have hctx : W.toCtx = W'.toCtx := by funext n; exact hW n
  have hact : actionOf fl A W c (preOf fl A W K fixed c).info.byOutput =
      actionOf fl A' W' c' (preOf fl A' W' K' fixed c').info.byOutput := by
    funext n
    unfold actionOf
    rw [perm_get? A A' hA hk n, hW n, hctx, hc.toEnv, hinfo']
  rw [hact] at e1 hp1
  rw [hinfo'] at e1 hpf
  refine ⟨_, _, _, e1, e1', ?_, hp1, hp1', hpf⟩
  intro a
  rw [List.mem_filterMap, List.mem_filterMap]
  constructor
  · rintro ⟨n, hn, ha⟩; exact ⟨n, (hcov' n).mpr ((hnodes' n).mp ((hcov n).mp hn)), ha⟩
  · rintro ⟨n, hn, ha⟩; exact ⟨n, (hcov n).mpr ((hnodes' n).mpr ((hcov' n).mp hn)), ha⟩

/-! ### the two programs -/

/-- what acceptance of a statement list and of a permutation of it gives: the tables of the two runs of `Program::new`
    are shared (`Sim`) -/
theorem sim_of_accepted (fl : Flags) (cls : CharClass) (o o' : Orders) (stmts stmts' : List Stmt) (p p' : Program)
    (ho : OrdersOK o) (ho' : OrdersOK o') (hwf : StmtsWF stmts) (hperm : stmts.Perm stmts')
    (h : Program.new fl cls o y86FixedFunctions stmts = .ok p) (h' : Program.new fl cls o' y86FixedFunctions stmts' = .ok p') :
    Sim fl cls stmts stmts' p.constants p'.constants := by
  have hwf' := stmtsWF_perm hperm hwf
  have F := Program_new_faultless fl cls o stmts ho hwf p h
  have F' := Program_new_faultless fl cls o' stmts' ho' hwf' p' h'
  have sim := step1Of_perm stmts stmts' hperm F.declNodup F.declNotBuiltin F.targetsNodup
  have hc : SameMap p.constants p'.constants :=
    resolve_sameMap fl o o' ho ho' _ _ sim.constantsRaw sim.cKeys F.constantsReadConstants _ _ F.constantsResolve
      F'.constantsResolve
  exact sim_of_banks fl cls o stmts stmts' hwf hperm _ _ F hc F'.banksOK F'.registerNamesNodup

end Reorder

/-- two builds whose register banks agree up to their order and whose action lists agree up to the order of the
    value-writing actions (`SameActions` of `RunEq.lean`, with the banks up to a permutation) -/
structure SameActionsP (p₁ p₂ : Program) : Prop where
  banks : p₁.banks.Perm p₂.banks
  split : ∃ q₁ q₂ f base, p₁.actions = q₁ ++ f ∧ p₂.actions = q₂ ++ f ∧ ValidFrom [] q₁ ∧ ValidFrom [] q₂ ∧
    (∀ a, a ∈ q₁ ↔ a ∈ q₂) ∧ ReadsEarlier base q₁ ∧ (∀ x ∈ base, x ∉ q₁.map Action.out) ∧ (∀ a ∈ f, a.isPure = false)

/-- **Reordering the statements, the programs**: a statement list and a permutation of it, both accepted (by
    `Program_new_perm_verdict` one is iff the other is) under any iteration orders of the hash tables, give programs with
    the same constants as a finite map, the same register-bank records up to their order, and action lists that are two
    valid schedules of one set of value-writing actions followed by the same list of state-changing actions. -/
theorem Program_new_perm_program (fl : Flags) (cls : CharClass) (o o' : Orders) (stmts stmts' : List Stmt) (p p' : Program)
    (ho : OrdersOK o) (ho' : OrdersOK o') (hwf : StmtsWF stmts) (hperm : stmts.Perm stmts')
    (h : Program.new fl cls o y86FixedFunctions stmts = .ok p) (h' : Program.new fl cls o' y86FixedFunctions stmts' = .ok p') :
    (∀ n, p.constants.get? n = p'.constants.get? n) ∧ p.banks.Perm p'.banks ∧
    ∃ q q' f base, p.actions = q ++ f ∧ p'.actions = q' ++ f ∧ ValidFrom [] q ∧ ValidFrom [] q' ∧
      (∀ a, a ∈ q ↔ a ∈ q') ∧ ReadsEarlier base q ∧ (∀ x ∈ base, x ∉ q.map Action.out) ∧ (∀ a ∈ f, a.isPure = false) := by
  have hwf' := Reorder.stmtsWF_perm hperm hwf
  have S := Reorder.sim_of_accepted fl cls o o' stmts stmts' p p' ho ho' hwf hperm h h'
  obtain ⟨s1, c1, s3, k1, hyp1, _, hact1, hpc1, hpb1, _, e1, _, e3, e4, _, _⟩ := Program_new_decompose' fl cls o stmts p hwf h
  obtain ⟨s1', c2, s3', k2, _, _, hact2, hpc2, hpb2, _, e1', _, e3', e4', _, _⟩ := Program_new_decompose' fl cls o' stmts' p' hwf' h'
  subst hpc1 hpc2 e1 e1' e3 e3' e4 e4'
  refine ⟨S.consts, by rw [hpb1, hpb2]; exact S.banks, ?_⟩
  have hpure : ∀ f ∈ y86FixedFunctions, f.outWire.isSome = f.action.isPure := by
    intro f hf
    have := List.all_eq_true.mp y86Fixed_pure f hf
    simpa using this
  obtain ⟨pre₁, pre₂, fin, ha1, ha2, hsame, hp₁, hp₂, hpf⟩ := Reorder.assignmentsToActions_perm fl o o' _ _ _ _ _ _
    y86FixedFunctions _ _ _ _ p.actions p'.actions ho ho' y86Fixed_table hpure S.s1.assignments S.s1.aKeys S.widths S.known
    S.consts hact1 hact2
  obtain ⟨q₁, f₁, kn₁, hsp₁, hv₁, hf₁, hsch₁, hkn₁, _⟩ := Program_new_valid fl cls o stmts p ho hwf h
  obtain ⟨q₂, f₂, kn₂, hsp₂, hv₂, hf₂, _, _, _⟩ := Program_new_valid fl cls o' stmts' p' ho' hwf' h'
  obtain ⟨hq₁, _⟩ := split_unique Action.isPure q₁ f₁ pre₁ fin (by rw [← hsp₁, ha1]) (validFrom_pure q₁ [] hv₁) hf₁ hp₁ hpf
  obtain ⟨hq₂, _⟩ := split_unique Action.isPure q₂ f₂ pre₂ fin (by rw [← hsp₂, ha2]) (validFrom_pure q₂ [] hv₂) hf₂ hp₂ hpf
  subst hq₁ hq₂
  exact ⟨q₁, q₂, fin, kn₁, ha1, ha2, hv₁, hv₂, hsame,
    sched_readsEarlier q₁ kn₁ kn₁ (fun _ hn => hn) hsch₁ (validFrom_pure q₁ [] hv₁), hkn₁, hpf⟩

/-- the same, packaged for the run theorems -/
theorem Program_new_perm_sameActions (fl : Flags) (cls : CharClass) (o o' : Orders) (stmts stmts' : List Stmt) (p p' : Program)
    (ho : OrdersOK o) (ho' : OrdersOK o') (hwf : StmtsWF stmts) (hperm : stmts.Perm stmts')
    (h : Program.new fl cls o y86FixedFunctions stmts = .ok p) (h' : Program.new fl cls o' y86FixedFunctions stmts' = .ok p') :
    SameActionsP p p' :=
  let ⟨_, hb, hs⟩ := Program_new_perm_program fl cls o o' stmts stmts' p p' ho ho' hwf hperm h h'
  ⟨hb, hs⟩

#print axioms Program_new_perm_program
