import Hcl.Proofs.ParsedWF
import Hcl.Proofs.CompleteIff
open Rust Lexer Parser

/-!
# Theorems about programs that come from a text

The theorems about `Program.new` assume `StmtsWF stmts`, "what the lexer and the grammar guarantee".
`Parser.parseProgram_wf` (Hcl/Proofs/ParsedWF.lean) proves it for the statements parsed from a text, so for those the
hypothesis disappears: here are `C07_accepted`, the read-back of a dump and the exact characterisation of acceptance
restated for `parseProgram cls text = some stmts`.
-/

/-- **C07 for a program text**: if the text parses and `Program::new` accepts the statements -- under any iteration order
    of its hash tables -- then from the initial state, on any memory image, any number of cycles either all succeed or
    the run stops with an explicit division-by-zero report (`C07_accepted` without `StmtsWF`). -/
theorem C07_from_text (cls : CharCls) (text : List Char) (stmts : List Stmt)
    (hp : Parser.parseProgram cls text = some stmts)
    (fl : Flags) (cc : CharClass) (o : Orders) (p : Program) (ho : OrdersOK o)
    (h : Program.new fl cc o y86FixedFunctions stmts = .ok p) (mem : Mem) (hmem : mem.BytesOK) (n : Nat) :
    ∃ s0, State.init p mem = .ok s0 ∧
      ((∃ s', runN fl p n s0 = .ok s' ∧ s'.cycle = n) ∨ runN fl p n s0 = .error .divideByZero) :=
  C07_accepted fl cc o stmts p ho (Parser.parseProgram_wf cls text stmts hp) h mem hmem n

/-- **`GoodBank` for a program text**: `C16_goodBank_from_text` without `StmtsWF` -/
theorem C16_goodBank_from_text' (cls : CharCls) (hc : ClsSane cls) (text : List Char) (stmts : List Stmt)
    (hp : Parser.parseProgram cls text = some stmts)
    (fl : Flags) (cc : CharClass) (o : Orders) (p : Program) (ho : OrdersOK o)
    (h : Program.new fl cc o y86FixedFunctions stmts = .ok p)
    (mem : Mem) (hmem : mem.BytesOK) (n : Nat) (s0 s : State) (h0 : State.init p mem = .ok s0)
    (hrun : runN fl p n s0 = .ok s) :
    ∀ b ∈ Dump.printedBanks p.banks, Dump.GoodBank s.values b :=
  C16_goodBank_from_text cls hc text stmts hp fl cc o p ho (Parser.parseProgram_wf cls text stmts hp) h mem hmem n s0 s h0 hrun

/-- **The read-back theorem for a program text**: the hypothesis on the banks is discharged, and nothing is assumed about
    the statements beyond their being parsed from the text (`C16_dump_readback_from_text` without `StmtsWF`). -/
theorem C16_dump_readback_from_text' (cls : CharCls) (hc : ClsSane cls) (text : List Char) (stmts : List Stmt)
    (hp : Parser.parseProgram cls text = some stmts)
    (fl : Flags) (cc : CharClass) (o : Orders) (p : Program) (ho : OrdersOK o)
    (h : Program.new fl cc o y86FixedFunctions stmts = .ok p)
    (mem : Mem) (hmem : mem.BytesOK) (n : Nat) (s0 s : State) (h0 : State.init p mem = .ok s0)
    (hrun : runN fl p n s0 = .ok s) (timeout : Nat) (showBanks : Bool)
    (hr : ∀ i, i < 15 → s.regs.getD i 0 < 2 ^ 64) (hm : SortedFrom 0 s.mem) (hb : ∀ kv ∈ s.mem, kv.2 < 256)
    (hcyc : s.cycle < 10 ^ 45) :
    let P := Spec.DumpFormat.parse (Dump.state s p.banks timeout showBanks)
    P.banks = (if showBanks && !p.banks.isEmpty then (Dump.printedBanks p.banks).map (Dump.bankEntry s.values) else []) ∧
    P.bytes = s.mem ∧ P.framed = true ∧ P.openBank = false :=
  C16_dump_readback_from_text cls hc text stmts hp fl cc o p ho (Parser.parseProgram_wf cls text stmts hp) h mem hmem n s0 s
    h0 hrun timeout showBanks hr hm hb hcyc

/-- **C09 for a program text**: `Program::new` accepts the statements parsed from a text if and only if the constants
    resolve to some table for which nothing is wrong (`Program_new_ok_iff` without `StmtsWF`). -/
theorem C09_from_text (cls : CharCls) (text : List Char) (stmts : List Stmt)
    (hp : Parser.parseProgram cls text = some stmts)
    (fl : Flags) (cc : CharClass) (o : Orders) (ho : OrdersOK o) :
    (∃ p, Program.new fl cc o y86FixedFunctions stmts = .ok p) ↔ ∃ constants, Faultless fl cc o stmts constants :=
  Program_new_ok_iff fl cc o stmts ho (Parser.parseProgram_wf cls text stmts hp)

/-- the direction of `C09_from_text` for a given accepted program: its table of constants is one for which nothing is
    wrong -/
theorem C09_from_text_accepted (cls : CharCls) (text : List Char) (stmts : List Stmt)
    (hp : Parser.parseProgram cls text = some stmts)
    (fl : Flags) (cc : CharClass) (o : Orders) (ho : OrdersOK o) (p : Program)
    (h : Program.new fl cc o y86FixedFunctions stmts = .ok p) : Faultless fl cc o stmts p.constants :=
  Program_new_faultless fl cc o stmts ho (Parser.parseProgram_wf cls text stmts hp) p h

#print axioms C07_from_text
#print axioms C16_goodBank_from_text'
#print axioms C16_dump_readback_from_text'
#print axioms C09_from_text
#print axioms C09_from_text_accepted
