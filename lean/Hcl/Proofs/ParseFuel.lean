import Hcl.Model.Parser
open Parser Lexer

/-! The fuel of the expression-parser model is only a termination device: a successful run gives the same result with any
    larger fuel, and the fuel `14 * ts.length + 40` that `parseExpr` uses is enough for every token list that any fuel
    at all can parse. -/

namespace Parser

theorem expect_length {t : Tok} {ts rest : Toks} {s e : Nat} (h : expect t ts = some (s, e, rest)) :
    ts.length = rest.length + 1 := by
  cases ts with
  | nil => simp [expect] at h
  | cons hd tl =>
    obtain ⟨s', t', e'⟩ := hd
    unfold expect at h
    simp only at h
    split at h
    · cases h; simp
    · cases h

theorem smallConst_length {ts rest : Toks} {v s e : Nat} (h : smallConst ts = some (v, s, e, rest)) :
    ts.length = rest.length + 1 := by
  cases ts with
  | nil => simp [smallConst] at h
  | cons hd tl =>
    obtain ⟨s', t', e'⟩ := hd
    cases t' with
    | Constant c =>
      unfold smallConst at h
      simp only at h
      split at h
      · cases h; simp
      · cases h
    | _ => simp [smallConst] at h

theorem exists_succ {f : Nat} (h : 1 ≤ f) : ∃ f', f = f' + 1 := ⟨f - 1, by omega⟩

/-- What the induction over the fuel `g` of a successful run carries for the six mutually recursive functions:
    the rest is a suffix no longer than the input (strictly shorter for the three expression parsers), and the same
    result comes out with every fuel `f` that is at least `g` (monotonicity) or at least an affine bound in the number of
    tokens consumed (sufficiency):
    `parseTier k`: `14 c + 2 + (10 - k)`, `parseChain`: `14 c + 1`, `parseTerm`: `14 c + 1`, `parseSimple`: `14 c`,
    `parseOpts`, `parseItems`: `14 c + 13`, with `c = ts.length - rest.length`. -/
structure AllFuel (g : Nat) : Prop where
  tier : ∀ k ts x s e rest, parseTier g k ts = some (x, s, e, rest) →
    rest.length + 1 ≤ ts.length ∧
    ∀ f, (g ≤ f ∨ 14 * ts.length + 2 + (10 - k) ≤ f + 14 * rest.length) → parseTier f k ts = some (x, s, e, rest)
  chain : ∀ k tier l s e ts x s' e' rest, parseChain g k tier l s e ts = some (x, s', e', rest) →
    rest.length ≤ ts.length ∧
    ∀ f, (g ≤ f ∨ 14 * ts.length + 1 ≤ f + 14 * rest.length) → parseChain f k tier l s e ts = some (x, s', e', rest)
  term : ∀ ts x s e rest, parseTerm g ts = some (x, s, e, rest) →
    rest.length + 1 ≤ ts.length ∧
    ∀ f, (g ≤ f ∨ 14 * ts.length + 1 ≤ f + 14 * rest.length) → parseTerm f ts = some (x, s, e, rest)
  simple : ∀ ts x s e rest, parseSimple g ts = some (x, s, e, rest) →
    rest.length + 1 ≤ ts.length ∧
    ∀ f, (g ≤ f ∨ 14 * ts.length ≤ f + 14 * rest.length) → parseSimple f ts = some (x, s, e, rest)
  opts : ∀ ts o s e rest, parseOpts g ts = some (o, s, e, rest) →
    rest.length ≤ ts.length ∧
    ∀ f, (g ≤ f ∨ 14 * ts.length + 13 ≤ f + 14 * rest.length) → parseOpts f ts = some (o, s, e, rest)
  items : ∀ ts o s e rest, parseItems g ts = some (o, s, e, rest) →
    rest.length ≤ ts.length ∧
    ∀ f, (g ≤ f ∨ 14 * ts.length + 13 ≤ f + 14 * rest.length) → parseItems f ts = some (o, s, e, rest)

theorem allFuel_zero : AllFuel 0 where
  tier := by intro k ts x s e rest h; unfold parseTier at h; cases h
  chain := by intro k tier l s e ts x s' e' rest h; unfold parseChain at h; cases h
  term := by intro ts x s e rest h; unfold parseTerm at h; cases h
  simple := by intro ts x s e rest h; unfold parseSimple at h; cases h
  opts := by intro ts x s e rest h; unfold parseOpts at h; cases h
  items := by intro ts x s e rest h; unfold parseItems at h; cases h

theorem simple_fuel_step (g : Nat) (ih : AllFuel g) : ∀ ts x s e rest, parseSimple (g + 1) ts = some (x, s, e, rest) →
    rest.length + 1 ≤ ts.length ∧
    ∀ f, (g + 1 ≤ f ∨ 14 * ts.length ≤ f + 14 * rest.length) → parseSimple f ts = some (x, s, e, rest) := by
  intro ts x s e rest h
  cases ts with
  | nil => unfold parseSimple at h; cases h
  | cons hd tl =>
    obtain ⟨s0, t, e0⟩ := hd
    cases t with
    | Constant v =>
      unfold parseSimple at h
      cases h
      simp only [List.length_cons]
      refine ⟨by omega, ?_⟩
      intro f hf
      obtain ⟨f', rfl⟩ := exists_succ (f := f) (by omega)
      unfold parseSimple
      rfl
    | Identifier n =>
      unfold parseSimple at h
      cases h
      simp only [List.length_cons]
      refine ⟨by omega, ?_⟩
      intro f hf
      obtain ⟨f', rfl⟩ := exists_succ (f := f) (by omega)
      unfold parseSimple
      rfl
    | OpenParen =>
      unfold parseSimple at h
      simp only at h
      split at h
      · cases h
      · rename_i x1 s1 e1 rest1 heq
        obtain ⟨a1, a2⟩ := ih.tier _ _ _ _ _ _ heq
        cases rest1 with
        | nil => cases h
        | cons hd2 rest2 =>
          obtain ⟨sc, t2, ec⟩ := hd2
          cases t2 with
          | CloseParen =>
            cases h
            simp only [List.length_cons] at a1 a2 ⊢
            refine ⟨by omega, ?_⟩
            intro f hf
            obtain ⟨f', rfl⟩ := exists_succ (f := f) (by omega)
            unfold parseSimple
            simp only [a2 f' (by omega)]
            rfl
          | DotDot =>
            simp only at h
            split at h
            · cases h
            · rename_i y sy ey rest3 heq2
              obtain ⟨b1, b2⟩ := ih.tier _ _ _ _ _ _ heq2
              split at h
              · cases h
              · rename_i sc' e' rest4 hex
                have l1 := expect_length hex
                cases h
                simp only [List.length_cons] at a1 a2 ⊢
                refine ⟨by omega, ?_⟩
                intro f hf
                obtain ⟨f', rfl⟩ := exists_succ (f := f) (by omega)
                unfold parseSimple
                simp only [a2 f' (by omega), b2 f' (by omega), hex]
                rfl
          | _ => cases h
    | OpenBracket =>
      unfold parseSimple at h
      simp only at h
      split at h
      · cases h
      · rename_i opts so eo rest1 heq
        obtain ⟨a1, a2⟩ := ih.opts _ _ _ _ _ heq
        split at h
        · cases h
        · rename_i sc e' rest2 hex
          have l1 := expect_length hex
          cases h
          simp only [List.length_cons] at a1 a2 ⊢
          refine ⟨by omega, ?_⟩
          intro f hf
          obtain ⟨f', rfl⟩ := exists_succ (f := f) (by omega)
          unfold parseSimple
          simp only [a2 f' (by omega), hex]
          rfl
    | _ => unfold parseSimple at h; cases h

theorem term_fuel_step (g : Nat) (ih : AllFuel g) : ∀ ts x s e rest, parseTerm (g + 1) ts = some (x, s, e, rest) →
    rest.length + 1 ≤ ts.length ∧
    ∀ f, (g + 1 ≤ f ∨ 14 * ts.length + 1 ≤ f + 14 * rest.length) → parseTerm f ts = some (x, s, e, rest) := by
  intro ts x s e rest h
  cases ts with
  | nil => unfold parseTerm at h; cases h
  | cons hd tl =>
    obtain ⟨s0, t, e0⟩ := hd
    unfold parseTerm at h
    simp only at h
    split at h
    · rename_i op hop
      split at h
      · cases h
      · rename_i x1 sx e1 rest1 heq
        obtain ⟨a1, a2⟩ := ih.simple _ _ _ _ _ heq
        cases h
        simp only [List.length_cons]
        refine ⟨by omega, ?_⟩
        intro f hf
        obtain ⟨f', rfl⟩ := exists_succ (f := f) (by omega)
        unfold parseTerm
        simp only [hop, a2 f' (by omega)]
        rfl
    · rename_i hop
      split at h
      · cases h
      · rename_i x1 s' e' rest1 heq
        obtain ⟨a1, a2⟩ := ih.simple _ _ _ _ _ heq
        cases rest1 with
        | nil =>
          cases h
          simp only [List.length_cons] at a1 a2 ⊢
          refine ⟨by omega, ?_⟩
          intro f hf
          obtain ⟨f', rfl⟩ := exists_succ (f := f) (by omega)
          unfold parseTerm
          simp only [hop, a2 f' (by omega)]
          rfl
        | cons hd2 rest2 =>
          obtain ⟨sb, t2, eb⟩ := hd2
          cases t2 with
          | OpenBracket =>
            simp only at h
            split at h
            · cases h
            · rename_i lo s1 e1 rest3 h1
              have l1 := smallConst_length h1
              split at h
              · cases h
              · rename_i s2 e2 rest4 h2
                have l2 := expect_length h2
                split at h
                · cases h
                · rename_i hi s3 e3 rest5 h3
                  have l3 := smallConst_length h3
                  split at h
                  · cases h
                  · rename_i s4 e4 rest6 h4
                    have l4 := expect_length h4
                    cases h
                    simp only [List.length_cons] at a1 a2 ⊢
                    refine ⟨by omega, ?_⟩
                    intro f hf
                    obtain ⟨f', rfl⟩ := exists_succ (f := f) (by omega)
                    unfold parseTerm
                    simp only [hop, a2 f' (by omega), h1, h2, h3, h4]
                    rfl
          | _ =>
            cases h
            simp only [List.length_cons] at a1 a2 ⊢
            refine ⟨by omega, ?_⟩
            intro f hf
            obtain ⟨f', rfl⟩ := exists_succ (f := f) (by omega)
            unfold parseTerm
            simp only [hop, a2 f' (by omega)]
            rfl

theorem chain_fuel_step (g : Nat) (ih : AllFuel g) : ∀ k tier l s e ts x s' e' rest,
    parseChain (g + 1) k tier l s e ts = some (x, s', e', rest) →
    rest.length ≤ ts.length ∧
    ∀ f, (g + 1 ≤ f ∨ 14 * ts.length + 1 ≤ f + 14 * rest.length) →
      parseChain f k tier l s e ts = some (x, s', e', rest) := by
  intro k tier l s e ts x s' e' rest h
  cases ts with
  | nil =>
    unfold parseChain at h
    cases h
    refine ⟨Nat.le_refl _, ?_⟩
    intro f hf
    obtain ⟨f', rfl⟩ := exists_succ (f := f) (by omega)
    unfold parseChain
    rfl
  | cons hd rest1 =>
    obtain ⟨so, t, eo⟩ := hd
    unfold parseChain at h
    simp only at h
    split at h
    · rename_i t' op hfind
      split at h
      · cases h
      · rename_i r sr er rest2 heq
        obtain ⟨a1, a2⟩ := ih.tier _ _ _ _ _ _ heq
        obtain ⟨b1, b2⟩ := ih.chain _ _ _ _ _ _ _ _ _ _ h
        simp only [List.length_cons]
        refine ⟨by omega, ?_⟩
        intro f hf
        obtain ⟨f', rfl⟩ := exists_succ (f := f) (by omega)
        unfold parseChain
        simp only [hfind, a2 f' (by omega)]
        exact b2 f' (by omega)
    · rename_i hfind
      cases h
      refine ⟨Nat.le_refl _, ?_⟩
      intro f hf
      obtain ⟨f', rfl⟩ := exists_succ (f := f) (by omega)
      unfold parseChain
      simp only [hfind]
      rfl

theorem tier_fuel_step (g : Nat) (ih : AllFuel g) : ∀ k ts x s e rest, parseTier (g + 1) k ts = some (x, s, e, rest) →
    rest.length + 1 ≤ ts.length ∧
    ∀ f, (g + 1 ≤ f ∨ 14 * ts.length + 2 + (10 - k) ≤ f + 14 * rest.length) →
      parseTier f k ts = some (x, s, e, rest) := by
  intro k ts x s e rest h
  unfold parseTier at h
  cases htk : tiers[k]? with
  | none =>
    simp only [htk] at h
    obtain ⟨a1, a2⟩ := ih.term _ _ _ _ _ h
    refine ⟨a1, ?_⟩
    intro f hf
    obtain ⟨f', rfl⟩ := exists_succ (f := f) (by omega)
    unfold parseTier
    simp only [htk]
    exact a2 f' (by omega)
  | some ot =>
    have hk : k < 10 := by
      have := (List.getElem?_eq_some_iff.1 htk).1
      simpa [tiers] using this
    cases ot with
    | none =>
      simp only [htk] at h
      split at h
      · cases h
      · rename_i x1 s1 e1 rest1 heq
        obtain ⟨a1, a2⟩ := ih.tier _ _ _ _ _ _ heq
        cases rest1 with
        | nil =>
          cases h
          refine ⟨a1, ?_⟩
          intro f hf
          obtain ⟨f', rfl⟩ := exists_succ (f := f) (by omega)
          unfold parseTier
          simp only [htk, a2 f' (by omega)]
          rfl
        | cons hd rest1' =>
          obtain ⟨si, t, ei⟩ := hd
          cases t with
          | In =>
            simp only at h
            split at h
            · cases h
            · rename_i s2 e2 rest2 hex1
              have l1 := expect_length hex1
              split at h
              · cases h
              · rename_i items s3 e3 rest3 hit
                obtain ⟨b1, b2⟩ := ih.items _ _ _ _ _ hit
                split at h
                · cases h
                · rename_i s4 e4 rest4 hex2
                  have l2 := expect_length hex2
                  cases h
                  simp only [List.length_cons] at a1 a2
                  refine ⟨by omega, ?_⟩
                  intro f hf
                  obtain ⟨f', rfl⟩ := exists_succ (f := f) (by omega)
                  unfold parseTier
                  simp only [htk, a2 f' (by omega), hex1, b2 f' (by omega), hex2]
                  rfl
          | _ =>
            cases h
            refine ⟨a1, ?_⟩
            intro f hf
            obtain ⟨f', rfl⟩ := exists_succ (f := f) (by omega)
            unfold parseTier
            simp only [htk, a2 f' (by omega)]
            rfl
    | some tier =>
      simp only [htk] at h
      split at h
      · cases h
      · rename_i l s1 e1 rest1 heq
        obtain ⟨a1, a2⟩ := ih.tier _ _ _ _ _ _ heq
        split at h
        · rename_i hch
          obtain ⟨b1, b2⟩ := ih.chain _ _ _ _ _ _ _ _ _ _ h
          refine ⟨by omega, ?_⟩
          intro f hf
          obtain ⟨f', rfl⟩ := exists_succ (f := f) (by omega)
          unfold parseTier
          simp only [htk, a2 f' (by omega), if_pos hch]
          exact b2 f' (by omega)
        · rename_i hch
          cases rest1 with
          | nil =>
            cases h
            refine ⟨a1, ?_⟩
            intro f hf
            obtain ⟨f', rfl⟩ := exists_succ (f := f) (by omega)
            unfold parseTier
            simp only [htk, a2 f' (by omega), hch]
            rfl
          | cons hd rest1' =>
            obtain ⟨so, t, eo⟩ := hd
            simp only at h
            split at h
            · rename_i t' op hfind
              split at h
              · cases h
              · rename_i r sr e' rest2 heq2
                obtain ⟨b1, b2⟩ := ih.tier _ _ _ _ _ _ heq2
                cases h
                simp only [List.length_cons] at a1 a2
                refine ⟨by omega, ?_⟩
                intro f hf
                obtain ⟨f', rfl⟩ := exists_succ (f := f) (by omega)
                unfold parseTier
                simp only [htk, a2 f' (by omega), hch, hfind, b2 f' (by omega)]
                rfl
            · rename_i hfind
              cases h
              refine ⟨a1, ?_⟩
              intro f hf
              obtain ⟨f', rfl⟩ := exists_succ (f := f) (by omega)
              unfold parseTier
              simp only [htk, a2 f' (by omega), hch, hfind]
              rfl

theorem opts_fuel_body (g : Nat) (ih : AllFuel g) (ts : Toks) (o : POpts) (s e : Nat) (rest : Toks)
    (h : (match parseTier g 0 ts with
      | none => none
      | some (c, _, _, rest) =>
        match expect .Colon rest with
        | none => none
        | some (_, _, rest1) =>
          match parseTier g 0 rest1 with
          | none => none
          | some (v, _, _, rest2) =>
            match rest2 with
            | (_, .Semicolon, _) :: rest3 =>
              match parseOpts g rest3 with
              | none => none
              | some (more, _, _, rest4) => some (.cons c v more, 0, 0, rest4)
            | _ => some (.cons c v .nil, 0, 0, rest2)) = (some (o, s, e, rest) : P POpts)) :
    rest.length ≤ ts.length ∧
    ∀ f, (g ≤ f ∨ 14 * ts.length + 12 ≤ f + 14 * rest.length) →
      (match parseTier f 0 ts with
      | none => none
      | some (c, _, _, rest) =>
        match expect .Colon rest with
        | none => none
        | some (_, _, rest1) =>
          match parseTier f 0 rest1 with
          | none => none
          | some (v, _, _, rest2) =>
            match rest2 with
            | (_, .Semicolon, _) :: rest3 =>
              match parseOpts f rest3 with
              | none => none
              | some (more, _, _, rest4) => some (.cons c v more, 0, 0, rest4)
            | _ => some (.cons c v .nil, 0, 0, rest2)) = (some (o, s, e, rest) : P POpts) := by
  split at h
  · cases h
  · rename_i c sc ec rest0 heq
    obtain ⟨a1, a2⟩ := ih.tier _ _ _ _ _ _ heq
    split at h
    · cases h
    · rename_i s1 e1 rest1 hex
      have l1 := expect_length hex
      split at h
      · cases h
      · rename_i v sv ev rest2 heq2
        obtain ⟨b1, b2⟩ := ih.tier _ _ _ _ _ _ heq2
        cases rest2 with
        | nil =>
          cases h
          refine ⟨by omega, ?_⟩
          intro f hf
          simp only [a2 f (by omega), hex, b2 f (by omega)]
        | cons hd rest3 =>
          obtain ⟨ss, t, es⟩ := hd
          cases t with
          | Semicolon =>
            simp only at h
            split at h
            · cases h
            · rename_i more sm em rest4 h3
              obtain ⟨c1, c2⟩ := ih.opts _ _ _ _ _ h3
              cases h
              simp only [List.length_cons] at b1 b2
              refine ⟨by omega, ?_⟩
              intro f hf
              simp only [a2 f (by omega), hex, b2 f (by omega), c2 f (by omega)]
          | _ =>
            cases h
            refine ⟨by omega, ?_⟩
            intro f hf
            simp only [a2 f (by omega), hex, b2 f (by omega)]

theorem opts_fuel_step (g : Nat) (ih : AllFuel g) : ∀ ts o s e rest, parseOpts (g + 1) ts = some (o, s, e, rest) →
    rest.length ≤ ts.length ∧
    ∀ f, (g + 1 ≤ f ∨ 14 * ts.length + 13 ≤ f + 14 * rest.length) → parseOpts f ts = some (o, s, e, rest) := by
  intro ts o s e rest h
  cases ts with
  | nil =>
    unfold parseOpts at h
    obtain ⟨a1, a2⟩ := opts_fuel_body g ih _ _ _ _ _ h
    refine ⟨a1, ?_⟩
    intro f hf
    obtain ⟨f', rfl⟩ := exists_succ (f := f) (by omega)
    unfold parseOpts
    exact a2 f' (by omega)
  | cons hd tl =>
    obtain ⟨s0, t, e0⟩ := hd
    cases t with
    | CloseBracket =>
      unfold parseOpts at h
      cases h
      refine ⟨Nat.le_refl _, ?_⟩
      intro f hf
      obtain ⟨f', rfl⟩ := exists_succ (f := f) (by omega)
      unfold parseOpts
      rfl
    | _ =>
      unfold parseOpts at h
      obtain ⟨a1, a2⟩ := opts_fuel_body g ih _ _ _ _ _ h
      refine ⟨a1, ?_⟩
      intro f hf
      obtain ⟨f', rfl⟩ := exists_succ (f := f) (by omega)
      unfold parseOpts
      exact a2 f' (by omega)

theorem items_fuel_body (g : Nat) (ih : AllFuel g) (ts : Toks) (o : PExs) (s e : Nat) (rest : Toks)
    (h : (match parseTier g 0 ts with
      | none => none
      | some (x, _, _, rest) =>
        match rest with
        | (_, .Comma, _) :: rest1 =>
          match parseItems g rest1 with
          | none => none
          | some (more, _, _, rest2) => some (.cons x more, 0, 0, rest2)
        | _ => some (.cons x .nil, 0, 0, rest)) = (some (o, s, e, rest) : P PExs)) :
    rest.length ≤ ts.length ∧
    ∀ f, (g ≤ f ∨ 14 * ts.length + 12 ≤ f + 14 * rest.length) →
      (match parseTier f 0 ts with
      | none => none
      | some (x, _, _, rest) =>
        match rest with
        | (_, .Comma, _) :: rest1 =>
          match parseItems f rest1 with
          | none => none
          | some (more, _, _, rest2) => some (.cons x more, 0, 0, rest2)
        | _ => some (.cons x .nil, 0, 0, rest)) = (some (o, s, e, rest) : P PExs) := by
  split at h
  · cases h
  · rename_i x sx ex rest0 heq
    obtain ⟨a1, a2⟩ := ih.tier _ _ _ _ _ _ heq
    cases rest0 with
    | nil =>
      cases h
      refine ⟨by omega, ?_⟩
      intro f hf
      simp only [a2 f (by omega)]
    | cons hd rest1 =>
      obtain ⟨ss, t, es⟩ := hd
      cases t with
      | Comma =>
        simp only at h
        split at h
        · cases h
        · rename_i more sm em rest2 h3
          obtain ⟨c1, c2⟩ := ih.items _ _ _ _ _ h3
          cases h
          simp only [List.length_cons] at a1 a2
          refine ⟨by omega, ?_⟩
          intro f hf
          simp only [a2 f (by omega), c2 f (by omega)]
      | _ =>
        cases h
        refine ⟨by omega, ?_⟩
        intro f hf
        simp only [a2 f (by omega)]

theorem items_fuel_step (g : Nat) (ih : AllFuel g) : ∀ ts o s e rest, parseItems (g + 1) ts = some (o, s, e, rest) →
    rest.length ≤ ts.length ∧
    ∀ f, (g + 1 ≤ f ∨ 14 * ts.length + 13 ≤ f + 14 * rest.length) → parseItems f ts = some (o, s, e, rest) := by
  intro ts o s e rest h
  cases ts with
  | nil =>
    unfold parseItems at h
    obtain ⟨a1, a2⟩ := items_fuel_body g ih _ _ _ _ _ h
    refine ⟨a1, ?_⟩
    intro f hf
    obtain ⟨f', rfl⟩ := exists_succ (f := f) (by omega)
    unfold parseItems
    exact a2 f' (by omega)
  | cons hd tl =>
    obtain ⟨s0, t, e0⟩ := hd
    cases t with
    | CloseBrace =>
      unfold parseItems at h
      cases h
      refine ⟨Nat.le_refl _, ?_⟩
      intro f hf
      obtain ⟨f', rfl⟩ := exists_succ (f := f) (by omega)
      unfold parseItems
      rfl
    | _ =>
      unfold parseItems at h
      obtain ⟨a1, a2⟩ := items_fuel_body g ih _ _ _ _ _ h
      refine ⟨a1, ?_⟩
      intro f hf
      obtain ⟨f', rfl⟩ := exists_succ (f := f) (by omega)
      unfold parseItems
      exact a2 f' (by omega)

theorem allFuel : ∀ g, AllFuel g
  | 0 => allFuel_zero
  | g + 1 =>
    have ih := allFuel g
    { tier := tier_fuel_step g ih, chain := chain_fuel_step g ih, term := term_fuel_step g ih,
      simple := simple_fuel_step g ih, opts := opts_fuel_step g ih, items := items_fuel_step g ih }

/-- **More fuel never changes a successful result.** -/
theorem parseTier_fuel_mono (f g k : Nat) (ts : Toks) (r) (hfg : f ≤ g) (h : parseTier f k ts = some r) :
    parseTier g k ts = some r := by
  obtain ⟨x, s, e, rest⟩ := r
  exact ((allFuel f).tier k ts x s e rest h).2 g (Or.inl hfg)

theorem parseChain_fuel_mono (f g k : Nat) (tier : Tier) (l : PEx) (s e : Nat) (ts : Toks) (r) (hfg : f ≤ g)
    (h : parseChain f k tier l s e ts = some r) : parseChain g k tier l s e ts = some r := by
  obtain ⟨x, s', e', rest⟩ := r
  exact ((allFuel f).chain k tier l s e ts x s' e' rest h).2 g (Or.inl hfg)

theorem parseTerm_fuel_mono (f g : Nat) (ts : Toks) (r) (hfg : f ≤ g) (h : parseTerm f ts = some r) :
    parseTerm g ts = some r := by
  obtain ⟨x, s, e, rest⟩ := r
  exact ((allFuel f).term ts x s e rest h).2 g (Or.inl hfg)

theorem parseSimple_fuel_mono (f g : Nat) (ts : Toks) (r) (hfg : f ≤ g) (h : parseSimple f ts = some r) :
    parseSimple g ts = some r := by
  obtain ⟨x, s, e, rest⟩ := r
  exact ((allFuel f).simple ts x s e rest h).2 g (Or.inl hfg)

theorem parseOpts_fuel_mono (f g : Nat) (ts : Toks) (r) (hfg : f ≤ g) (h : parseOpts f ts = some r) :
    parseOpts g ts = some r := by
  obtain ⟨x, s, e, rest⟩ := r
  exact ((allFuel f).opts ts x s e rest h).2 g (Or.inl hfg)

theorem parseItems_fuel_mono (f g : Nat) (ts : Toks) (r) (hfg : f ≤ g) (h : parseItems f ts = some r) :
    parseItems g ts = some r := by
  obtain ⟨x, s, e, rest⟩ := r
  exact ((allFuel f).items ts x s e rest h).2 g (Or.inl hfg)

/-- A successful `parseTier` consumes at least one token and leaves no more than it was given. -/
theorem parseTier_consumes (g k : Nat) (ts : Toks) (x : PEx) (s e : Nat) (rest : Toks)
    (h : parseTier g k ts = some (x, s, e, rest)) : rest.length < ts.length :=
  ((allFuel g).tier k ts x s e rest h).1

/-- The affine bound behind sufficiency: a run that succeeds with some fuel succeeds, with the same result, with every
    fuel of at least `14 * consumed + 2 + (10 - k)`. -/
theorem parseTier_fuel_bound (g k : Nat) (ts : Toks) (x : PEx) (s e : Nat) (rest : Toks) (f : Nat)
    (h : parseTier g k ts = some (x, s, e, rest)) (hf : 14 * (ts.length - rest.length) + 2 + (10 - k) ≤ f) :
    parseTier f k ts = some (x, s, e, rest) := by
  obtain ⟨a1, a2⟩ := (allFuel g).tier k ts x s e rest h
  exact a2 f (Or.inr (by omega))

/-- **The fuel of `parseExpr` is enough**: if any amount of fuel parses a token list, `14 * ts.length + 40` gives the
    same result. -/
theorem parseTier_fuel_enough (g : Nat) (ts : Toks) (r) (h : parseTier g 0 ts = some r) :
    parseTier (14 * ts.length + 40) 0 ts = some r := by
  obtain ⟨x, s, e, rest⟩ := r
  obtain ⟨a1, a2⟩ := (allFuel g).tier 0 ts x s e rest h
  exact a2 _ (Or.inr (by omega))

/-- **`parseExpr` does not depend on its fuel**: whenever some fuel parses all the tokens of the text, `parseExpr`
    returns that expression. -/
theorem parseExpr_fuel_independent (cls : CharCls) (text : List Char) (ts : Toks) (g : Nat) (x : PEx) (s e : Nat)
    (hts : tokensOf (lex cls text) = some ts) (h : parseTier g 0 ts = some (x, s, e, [])) :
    parseExpr cls text = some x := by
  unfold parseExpr
  simp only [hts, parseTier_fuel_enough g ts _ h]

end Parser

#print axioms Parser.parseTier_fuel_mono
#print axioms Parser.parseTier_fuel_enough
#print axioms Parser.parseExpr_fuel_independent
