import Hcl.Generated

/-! Text pins (written by tools/mkpins.py): the comment-free, whitespace-normalised bodies of functions that the
    hand-written model transcribes, as they were when the model was last validated against them.  An edit of one
    of these functions makes the `rfl` below fail; the check then looks for an input on which model and code
    differ, and reports the property as no longer shown to hold when it finds none. -/

namespace Tie.PinsRefs

/-- `pub fn apply_to_all<'a, 'b, F>(`, src/ast.rs -/
theorem pinApplyToAll : Generated.pinApplyToAll = ("debug!(\"running on {:?}\", self); func(self)?; match *self.expr { Expr::Constant(_) => {}, Expr::BinOp(_, ref left, ref right) => { left.apply_to_all(func)?; right.apply_to_all(func)?; }, Expr::UnOp(_, ref inner) => { inner.apply_to_all(func)?; }, Expr::Mux(ref options) => { debug!(\"checking {:?}\", options); for ref option in options { option.condition.apply_to_all(func)?; option.value.apply_to_all(func)?; } }, Expr::NamedWire(_) => {}, Expr::BitSelect { ref from, .. } => { from.apply_to_all(func)?; }, Expr::Concat(ref left, ref right) => { left.apply_to_all(func)?; right.apply_to_all(func)?; }, Expr::InSet(ref left, ref lst) => { left.apply_to_all(func)?; for ref item in lst { item.apply_to_all(func)?; } }, Expr::Error => {}, } Ok(())" : String) := by rfl

/-- `pub fn apply_to_all_mut<F>(`, src/ast.rs -/
theorem pinApplyToAllMut : Generated.pinApplyToAllMut = ("func(self)?; match *self.expr { Expr::Constant(_) => {}, Expr::BinOp(_, _, _) => { if let Expr::BinOp(_, ref mut left, _) = *self.expr { left.apply_to_all_mut(func)?; } if let Expr::BinOp(_, _, ref mut right) = *self.expr { right.apply_to_all_mut(func)?; } }, Expr::UnOp(_, ref mut inner) => { inner.apply_to_all_mut(func)?; }, Expr::Mux(ref mut options) => { for ref mut option in options { option.condition.apply_to_all_mut(func)?; option.value.apply_to_all_mut(func)?; } }, Expr::NamedWire(_) => {}, Expr::BitSelect { ref mut from, .. } => { from.apply_to_all_mut(func)?; }, Expr::Concat(_, _) => { if let Expr::Concat(ref mut left, _) = *self.expr { left.apply_to_all_mut(func)?; } if let Expr::Concat(_, ref mut right) = *self.expr { right.apply_to_all_mut(func)?; } }, Expr::InSet(_, _) => { if let Expr::InSet(ref mut left, _) = *self.expr { left.apply_to_all_mut(func)?; } if let Expr::InSet(_, ref mut lst) = *self.expr { for ref mut item in lst { item.apply_to_all_mut(func)?; } } }, Expr::Error => {}, } Ok(())" : String) := by rfl

/-- `pub fn referenced_wires<'a>(`, src/ast.rs -/
theorem pinReferencedWires : Generated.pinReferencedWires = ("let mut result = HashSet::new(); self.apply_to_all(&mut |item| { match *item.expr { Expr::NamedWire(ref name) => { debug!(\"adding {:?}\", name); result.insert(name.as_str()); }, _ => {debug!(\"ignoring {:?}\", *item);}, } Ok(()) }).unwrap(); result" : String) := by rfl

/-- `pub fn find_references<'a>(`, src/ast.rs -/
theorem pinFindReferences : Generated.pinFindReferences = ("let mut result = Vec::new(); self.apply_to_all(&mut |item| { match *item.expr { Expr::NamedWire(ref name) => { if name == find_name { result.push(item.clone()); } }, _ => {}, } Ok(()) }).unwrap(); result" : String) := by rfl

end Tie.PinsRefs
