import Hcl.Proofs.CompleteIff
open Rust

/-! Each strictness option only ADDS the check it names (C17): monotonicity of acceptance in the options, at the level of
    expressions (`check`) and of whole programs (`Program.new`).

    The checker consults the options in five guarded `throw`s **and** in `alwaysTrue` (which evaluates a case condition over
    the constants with `ev fl`, and `ev` consults `strictBinary` for the width of `+ - * /`).  The second dependency is
    harmless only when the constants' values have the widths the context records for them (`EnvTyped`): without that the
    statements M1/M2 are false (see `FlagMonoCex` at the end of the file). -/

/-- fl is at most as strict as fl' -/
def Flags.le (fl fl' : Flags) : Prop :=
  (fl.strictBinary = true → fl'.strictBinary = true) ∧ (fl.strictBoolean = true → fl'.strictBoolean = true) ∧
  (fl.requireMuxDefault = true → fl'.requireMuxDefault = true) ∧
  (fl.disallowMultipleMuxDefault = true → fl'.disallowMultipleMuxDefault = true) ∧
  (fl.disallowUnreachable = true → fl'.disallowUnreachable = true)

/-- the diagnostic kinds the options produce: for every option that is on in `fl'` and off in `fl`, the kind of the
    diagnostic its guarded `throw` raises in `check` -/
def flagKinds (fl fl' : Flags) : List DKind :=
  (if !fl.strictBinary && fl'.strictBinary then [DKind.MismatchedExprWidths] else []) ++
  (if !fl.strictBoolean && fl'.strictBoolean then [DKind.NonBooleanWidth] else []) ++
  (if !fl.requireMuxDefault && fl'.requireMuxDefault then [DKind.NoMuxDefaultOption] else []) ++
  (if !fl.disallowMultipleMuxDefault && fl'.disallowMultipleMuxDefault then [DKind.MultipleMuxDefaultOption] else []) ++
  (if !fl.disallowUnreachable && fl'.disallowUnreachable then [DKind.UnreachableOptions] else [])

/-- the values of the environment have the widths the context records -/
def EnvTyped (Γ : Ctx) (κ : Env) : Prop := ∀ n v, κ n = some v → Γ n = some v.width

/-! ### widths -/

theorem Width.max_of_combine {a b w : Width} (h : a.combine b = some w) : a.max b = w := by
  cases a <;> cases b <;> simp [Width.combine] at h <;> simp [Width.max]
  · rename_i s t; obtain ⟨rfl, rfl⟩ := h; simp
  · exact h
  · exact h
  · exact h

/-- `x` is the width `w` or the width of an unsized literal -/
def Width.under (x w : Width) : Prop := x = w ∨ x = .unlimited

theorem Width.under_combine {a b w a' b' : Width} (h : a.combine b = some w) (ha : a'.under a) (hb : b'.under b) :
    ∃ w', a'.combine b' = some w' ∧ w'.under w := by
  unfold Width.under at *
  rcases ha with rfl | rfl <;> rcases hb with rfl | rfl
  · exact ⟨w, h, Or.inl rfl⟩
  · cases a' <;> cases b <;> simp [Width.combine] at h ⊢
    · rename_i s t; obtain ⟨rfl, rfl⟩ := h; simp
    · exact h
  · cases a <;> cases b' <;> simp [Width.combine] at h ⊢
    · rename_i s t; obtain ⟨rfl, rfl⟩ := h; simp
    · exact h
  · exact ⟨.unlimited, rfl, Or.inr rfl⟩

/-! ### `Except`: one computation succeeds whenever another does -/

/-- whenever `x'` succeeds, `x` succeeds with the same result -/
def ExLe {ε α : Type} (x' x : Except ε α) : Prop := ∀ a, x' = .ok a → x = .ok a

theorem ExLe.refl {ε α : Type} (x : Except ε α) : ExLe x x := fun _ h => h

theorem ExLe.bind {ε α β : Type} {x' x : Except ε α} {f' f : α → Except ε β} (h : ExLe x' x)
    (hf : ∀ a, x' = .ok a → ExLe (f' a) (f a)) : ExLe (x' >>= f') (x >>= f) := by
  intro b hb
  obtain ⟨a, ha, hfa⟩ := bind_ok hb
  rw [h a ha]
  exact hf a ha b hfa

theorem ExLe.error {ε α : Type} (e : ε) (x : Except ε α) : ExLe (.error e) x := fun _ h => by cases h

/-! ### evaluation: `strictBinary` can only turn a value into a run-time width error -/

theorem binWidthE_le {fl fl' : Flags} (hsb : fl.strictBinary = true → fl'.strictBinary = true) (op : BinOp) (a b : Width) :
    ExLe (binWidthE fl' op a b) (binWidthE fl op a b) := by
  intro w h
  unfold binWidthE at h ⊢
  cases hk : op.kind <;> simp only [hk] at h ⊢ <;> try exact h
  cases hs' : fl'.strictBinary
  · have hs : fl.strictBinary = false := by
      cases hs : fl.strictBinary
      · rfl
      · rw [hsb hs] at hs'; cases hs'
    simp only [hs, hs'] at h ⊢
    exact h
  · simp only [hs', if_true] at h
    cases hc : a.combine b with
    | none => rw [hc] at h; cases h
    | some w' =>
      rw [hc] at h
      cases hs : fl.strictBinary
      · simp only [Bool.false_eq_true, if_false]
        rw [Width.max_of_combine hc]; exact h
      · simp only [if_true]; exact h

theorem applyBin_le {fl fl' : Flags} (hsb : fl.strictBinary = true → fl'.strictBinary = true) (op : BinOp) (a b : WireValue) :
    ExLe (applyBin fl' op a b) (applyBin fl op a b) := by
  unfold applyBin
  split
  · exact ExLe.refl _
  · exact ExLe.bind (binWidthE_le hsb op _ _) (fun _ _ => ExLe.refl _)

section
variable {fl fl' : Flags} {σ : Env}

mutual
/-- a value computed with `strictBinary` on is the value computed with it off -/
theorem ev_le (hsb : fl.strictBinary = true → fl'.strictBinary = true) : ∀ e : Ex, ExLe (ev fl' σ e) (ev fl σ e)
  | .const _ => by unfold ev; exact ExLe.refl _
  | .wire _ => by unfold ev; exact ExLe.refl _
  | .bin op l r => by
      unfold ev
      exact ExLe.bind (ev_le hsb l) (fun a _ => ExLe.bind (ev_le hsb r) (fun b _ => applyBin_le hsb op a b))
  | .un op e => by
      unfold ev
      exact ExLe.bind (ev_le hsb e) (fun a _ => ExLe.refl _)
  | .slice e lo hi => by
      unfold ev
      exact ExLe.bind (ev_le hsb e) (fun a _ => ExLe.refl _)
  | .concat l r => by
      unfold ev
      exact ExLe.bind (ev_le hsb l) (fun a _ => ExLe.bind (ev_le hsb r) (fun b _ => ExLe.refl _))
  | .mux opts => by unfold ev; exact evMux_le hsb opts
  | .inSet e items => by
      unfold ev
      exact ExLe.bind (ev_le hsb e) (fun a _ => evIn_le hsb a.bits items)
theorem evMux_le (hsb : fl.strictBinary = true → fl'.strictBinary = true) : ∀ opts : Opts, ExLe (evMux fl' σ opts) (evMux fl σ opts)
  | .nil => by unfold evMux; exact ExLe.refl _
  | .cons c v rest => by
      unfold evMux
      refine ExLe.bind (ev_le hsb c) (fun cv _ => ?_)
      split
      · exact ev_le hsb v
      · exact evMux_le hsb rest
theorem evIn_le (hsb : fl.strictBinary = true → fl'.strictBinary = true) (x : Nat) : ∀ items : Exs, ExLe (evIn fl' σ x items) (evIn fl σ x items)
  | .nil => by unfold evIn; exact ExLe.refl _
  | .cons e rest => by
      unfold evIn
      refine ExLe.bind (ev_le hsb e) (fun b _ => ?_)
      split
      · exact ExLe.refl _
      · exact evIn_le hsb x rest
end
end

/-! ### an expression the checker accepts with `strictBinary` on never meets a run-time width error over typed constants -/

theorem binWidthE_strict {fl fl' : Flags} (hs' : fl'.strictBinary = true) {op : BinOp} {wa wb w a' b' w1 : Width}
    (hw : binWidth fl' op wa wb = some w) (ha : a'.under wa) (hb : b'.under wb) (h : binWidthE fl op a' b' = .ok w1) :
    binWidthE fl' op a' b' = .ok w1 ∧ w1.under w := by
  unfold binWidth at hw
  unfold binWidthE at h ⊢
  cases hk : op.kind <;> simp only [hk, hs', if_true] at h hw ⊢
  · cases hw; exact ⟨h, by cases h; exact Or.inl rfl⟩
  · cases hw; exact ⟨h, by cases h; exact Or.inl rfl⟩
  · obtain ⟨w', hc, hu⟩ := Width.under_combine hw ha hb
    rw [hc] at h ⊢
    cases h; exact ⟨rfl, hu⟩
  · obtain ⟨w', hc, hu⟩ := Width.under_combine hw ha hb
    rw [hc]
    cases hs : fl.strictBinary
    · simp only [hs, Bool.false_eq_true, if_false, Width.max_of_combine hc] at h
      cases h; exact ⟨rfl, hu⟩
    · simp only [hs, if_true, hc] at h
      cases h; exact ⟨rfl, hu⟩

theorem applyBin_strict {fl fl' : Flags} (hs' : fl'.strictBinary = true) {op : BinOp} {wa wb w : Width} {a b v : WireValue}
    (hw : binWidth fl' op wa wb = some w) (ha : a.width.under wa) (hb : b.width.under wb) (h : applyBin fl op a b = .ok v) :
    applyBin fl' op a b = .ok v ∧ v.width.under w := by
  unfold applyBin at h ⊢
  split at h
  · cases h
  · rename_i hnz
    rw [if_neg hnz]
    obtain ⟨w1, hw1, h⟩ := bind_ok h
    obtain ⟨g1, g2⟩ := binWidthE_strict (fl := fl) hs' hw ha hb hw1
    rw [g1]
    refine ⟨h, ?_⟩
    obtain ⟨raw, _, h⟩ := bind_ok h
    obtain ⟨m, _, h⟩ := bind_ok h
    cases h
    exact g2

theorem applyUn_width {op : UnOp} {a v : WireValue} (h : applyUn op a = .ok v) :
    v.width = if op = .not then .bits 1 else a.width := by
  unfold applyUn at h
  obtain ⟨m, _, h⟩ := bind_ok h
  cases h
  rfl

theorem liftR_ok {α : Type} {x : R α} {a : α} (h : liftR x = .ok a) : x = .ok a := by
  cases x with
  | ok b => simp only [liftR] at h; cases h; rfl
  | error f => simp only [liftR] at h; cases h

theorem evIn_width {fl : Flags} {σ : Env} {x : Nat} : ∀ {items : Exs} {v : WireValue}, evIn fl σ x items = .ok v → v.width = .bits 1
  | .nil, v, h => by unfold evIn at h; cases h; rfl
  | .cons e rest, v, h => by
      unfold evIn at h
      obtain ⟨b, _, h⟩ := bind_ok h
      split at h
      · cases h; rfl
      · exact evIn_width h

/-- the tests `check` makes on a case expression once its options are scanned -/
def muxFinal (fl : Flags) (s : MuxScan) : C Width :=
  if (fl.requireMuxDefault && !s.seenTrue) = true then .error [⟨.NoMuxDefaultOption, []⟩]
  else if (fl.disallowMultipleMuxDefault && s.seenTwice) = true then .error [⟨.MultipleMuxDefaultOption, []⟩]
  else if (fl.disallowUnreachable && s.seenUnreachable) = true then .error [⟨.UnreachableOptions, []⟩]
  else match s.width with
    | some w => .ok w
    | none => .error [⟨.MismatchedMuxWidths, []⟩]

theorem check_mux_eq (fl : Flags) (Γ : Ctx) (κ : Env) (opts : Opts) :
    check fl Γ κ (.mux opts) = checkOpts fl Γ κ opts {} >>= muxFinal fl := by
  unfold check
  rfl

theorem muxFinal_ok {fl : Flags} {s : MuxScan} {w : Width} (h : muxFinal fl s = .ok w) : s.width = some w := by
  unfold muxFinal at h
  split at h
  · cases h
  · split at h
    · cases h
    · split at h
      · cases h
      · cases hsw : s.width with
        | none => rw [hsw] at h; cases h
        | some w' => rw [hsw] at h; cases h; rfl

/-- the width a scan of options ends with is, up to unsized literals, the width it started with -/
theorem checkOpts_width_back {fl : Flags} {Γ : Ctx} {κ : Env} : ∀ (opts : Opts) (s s' : MuxScan),
    checkOpts fl Γ κ opts s = .ok s' → ∀ w, s'.width = some w → ∃ w1, s.width = some w1 ∧ w1.under w
  | .nil, s, s', h, w, hw => by
      unfold checkOpts at h; cases h
      exact ⟨w, hw, Or.inl rfl⟩
  | .cons c x rest, s, s', h, w, hw => by
      unfold checkOpts at h
      obtain ⟨wc, hc, h⟩ := bind_ok h
      obtain ⟨wx, hx, h⟩ := bind_ok h
      obtain ⟨w1, hw1, hu⟩ := checkOpts_width_back rest _ s' h w hw
      cases hsw : s.width with
      | none => rw [hsw] at hw1; cases hw1
      | some cur =>
        rw [hsw] at hw1
        simp only at hw1
        rcases combine_cases hw1 with ⟨rfl, rfl⟩ | ⟨rfl, rfl⟩ | ⟨rfl, rfl⟩
        · exact ⟨_, rfl, Or.inr rfl⟩
        · exact ⟨_, rfl, hu⟩
        · exact ⟨_, rfl, hu⟩

section
variable {fl fl' : Flags} {Γ : Ctx} {κ : Env}

mutual
/-- over constants of the recorded widths, an expression accepted with `strictBinary` on evaluates with the option on to
    whatever it evaluates to with the option off; the value's width is the checked width or that of an unsized literal -/
theorem ev_strict (hκ : EnvTyped Γ κ) (hs' : fl'.strictBinary = true) : ∀ (e : Ex) (w : Width), check fl' Γ κ e = .ok w →
    ∀ v, ev fl κ e = .ok v → ev fl' κ e = .ok v ∧ v.width.under w
  | .const c, w, h, v, hv => by
      unfold check at h; unfold ev at hv ⊢
      cases h; cases hv
      exact ⟨rfl, Or.inl rfl⟩
  | .wire n, w, h, v, hv => by
      unfold check at h; unfold ev at hv ⊢
      cases hk : κ n with
      | none => rw [hk] at hv; cases hv
      | some x =>
        rw [hk] at hv; cases hv
        rw [hκ n _ hk] at h
        cases h
        exact ⟨rfl, Or.inl rfl⟩
  | .bin op l r, w, h, v, hv => by
      obtain ⟨wa, wb, ha, hb, hw⟩ := check_bin_inv h
      unfold ev at hv ⊢
      obtain ⟨a, hea, hv⟩ := bind_ok hv
      obtain ⟨b, heb, hv⟩ := bind_ok hv
      obtain ⟨a1, a2⟩ := ev_strict hκ hs' l wa ha a hea
      obtain ⟨b1, b2⟩ := ev_strict hκ hs' r wb hb b heb
      rw [a1, b1]
      exact applyBin_strict hs' hw a2 b2 hv
  | .un op e, w, h, v, hv => by
      unfold ev at hv ⊢
      obtain ⟨a, hea, hv⟩ := bind_ok hv
      have hwidth := applyUn_width hv
      cases op with
      | not =>
        unfold check at h
        obtain ⟨wa, ha, h⟩ := bind_ok h
        cases h
        obtain ⟨a1, _⟩ := ev_strict hκ hs' e wa ha a hea
        rw [a1]
        exact ⟨hv, Or.inl (by rw [hwidth]; rfl)⟩
      | plus =>
        unfold check at h
        obtain ⟨a1, a2⟩ := ev_strict hκ hs' e w h a hea
        rw [a1]
        exact ⟨hv, by rw [hwidth]; exact a2⟩
      | neg =>
        unfold check at h
        obtain ⟨a1, a2⟩ := ev_strict hκ hs' e w h a hea
        rw [a1]
        exact ⟨hv, by rw [hwidth]; exact a2⟩
      | compl =>
        unfold check at h
        obtain ⟨a1, a2⟩ := ev_strict hκ hs' e w h a hea
        rw [a1]
        exact ⟨hv, by rw [hwidth]; exact a2⟩
  | .slice e lo hi, w, h, v, hv => by
      obtain ⟨wa, ha⟩ := check_slice_inv h
      unfold ev at hv ⊢
      obtain ⟨a, hea, hv⟩ := bind_ok hv
      obtain ⟨a1, _⟩ := ev_strict hκ hs' e wa ha a hea
      rw [a1]
      refine ⟨hv, ?_⟩
      obtain ⟨n, hn, hv⟩ := bind_ok hv
      obtain ⟨m, _, hv⟩ := bind_ok hv
      cases hv
      have hn' := liftR_ok hn
      unfold uSub at hn'
      split at hn'
      · cases hn'
        unfold check at h
        split at h
        · cases h
        · rw [ha] at h
          cases wa with
          | unlimited => cases h; exact Or.inl rfl
          | bits k =>
            simp only [bind, Except.bind] at h
            split at h
            · cases h
            · cases h; exact Or.inl rfl
      · cases hn'
  | .concat l r, w, h, v, hv => by
      obtain ⟨wa, wb, ha, hb⟩ := check_concat_inv h
      unfold ev at hv ⊢
      obtain ⟨a, hea, hv⟩ := bind_ok hv
      obtain ⟨b, heb, hv⟩ := bind_ok hv
      obtain ⟨a1, a2⟩ := ev_strict hκ hs' l wa ha a hea
      obtain ⟨b1, b2⟩ := ev_strict hκ hs' r wb hb b heb
      rw [a1, b1]
      refine ⟨hv, ?_⟩
      unfold check at h
      rw [ha] at h
      simp only [bind, Except.bind] at h
      cases wa with
      | unlimited => cases h
      | bits lw =>
        simp only [hb] at h
        cases wb with
        | unlimited => cases h
        | bits rw =>
          simp only at h
          split at h
          · cases h
            cases hbw : b.width with
            | unlimited => rw [hbw] at hv; cases hv
            | bits rb =>
              cases haw : a.width with
              | unlimited => rw [hbw, haw] at hv; cases hv
              | bits lb =>
                rw [hbw, haw] at hv
                simp only at hv
                obtain ⟨n, hn, hv⟩ := bind_ok hv
                obtain ⟨m, _, hv⟩ := bind_ok hv
                cases hv
                have hn' := liftR_ok hn
                unfold u8Add at hn'
                split at hn'
                · cases hn'
                  rw [haw] at a2; rw [hbw] at b2
                  rcases a2 with a2 | a2
                  · rcases b2 with b2 | b2
                    · cases a2; cases b2; exact Or.inl rfl
                    · cases b2
                  · cases a2
                · cases hn'
          · cases h
  | .mux opts, w, h, v, hv => by
      rw [check_mux_eq] at h
      obtain ⟨s, hs, h⟩ := bind_ok h
      unfold ev at hv ⊢
      obtain ⟨m1, m2⟩ := evMux_strict hκ hs' opts {} s hs v hv
      exact ⟨m1, (m2 w (muxFinal_ok h)).2⟩
  | .inSet e items, w, h, v, hv => by
      unfold check at h
      obtain ⟨wa, ha, h⟩ := bind_ok h
      obtain ⟨errs, he, h⟩ := bind_ok h
      unfold ev at hv ⊢
      obtain ⟨a, hea, hv⟩ := bind_ok hv
      obtain ⟨a1, _⟩ := ev_strict hκ hs' e wa ha a hea
      rw [a1]
      have hi := evIn_strict hκ hs' a.bits wa items errs he v hv
      refine ⟨hi, ?_⟩
      split at h
      · cases h; exact Or.inl (evIn_width hv)
      · cases h
theorem evMux_strict (hκ : EnvTyped Γ κ) (hs' : fl'.strictBinary = true) : ∀ (opts : Opts) (s s' : MuxScan),
    checkOpts fl' Γ κ opts s = .ok s' → ∀ v, evMux fl κ opts = .ok v → evMux fl' κ opts = .ok v ∧
      ∀ w, s'.width = some w → (∃ w0, s.width = some w0 ∧ w0.under w) ∧ v.width.under w
  | .nil, s, s', h, v, hv => by
      unfold checkOpts at h; unfold evMux at hv ⊢
      cases h; cases hv
      exact ⟨rfl, fun w hw => ⟨⟨w, hw, Or.inl rfl⟩, Or.inr rfl⟩⟩
  | .cons c x rest, s, s', h, v, hv => by
      unfold checkOpts at h
      obtain ⟨wc, hc, h⟩ := bind_ok h
      obtain ⟨wx, hx, h⟩ := bind_ok h
      unfold evMux at hv ⊢
      obtain ⟨cv, hcv, hv⟩ := bind_ok hv
      obtain ⟨c1, _⟩ := ev_strict hκ hs' c wc hc cv hcv
      rw [c1]
      simp only [bind, Except.bind]
      have hstate : ∀ w, s'.width = some w → ∃ w1, (match s.width with | some cur => cur.combine wx | none => none) = some w1 ∧ w1.under w := by
        intro w hw
        exact checkOpts_width_back rest _ s' h w hw
      by_cases hpos : cv.bits > 0
      · rw [if_pos hpos] at hv ⊢
        obtain ⟨x1, x2⟩ := ev_strict hκ hs' x wx hx v hv
        refine ⟨x1, fun w hw => ?_⟩
        obtain ⟨w1, hw1, hu⟩ := hstate w hw
        cases hsw : s.width with
        | none => rw [hsw] at hw1; cases hw1
        | some cur =>
          rw [hsw] at hw1
          simp only at hw1
          rcases combine_cases hw1 with ⟨rfl, rfl⟩ | ⟨rfl, rfl⟩ | ⟨rfl, rfl⟩
          · exact ⟨⟨_, rfl, Or.inr rfl⟩, by rcases x2 with x2 | x2; (rcases hu with hu | hu; exact Or.inl (x2.trans hu); exact Or.inr (x2.trans hu)); exact Or.inr x2⟩
          · exact ⟨⟨_, rfl, hu⟩, by rcases x2 with x2 | x2; exact Or.inr x2; exact Or.inr x2⟩
          · exact ⟨⟨_, rfl, hu⟩, by rcases x2 with x2 | x2; (rcases hu with hu | hu; exact Or.inl (x2.trans hu); exact Or.inr (x2.trans hu)); exact Or.inr x2⟩
      · rw [if_neg hpos] at hv ⊢
        obtain ⟨r1, r2⟩ := evMux_strict hκ hs' rest _ s' h v hv
        refine ⟨r1, fun w hw => ?_⟩
        obtain ⟨⟨w1, hw1, hu⟩, hvw⟩ := r2 w hw
        refine ⟨?_, hvw⟩
        cases hsw : s.width with
        | none => rw [hsw] at hw1; cases hw1
        | some cur =>
          rw [hsw] at hw1
          simp only at hw1
          rcases combine_cases hw1 with ⟨rfl, rfl⟩ | ⟨rfl, rfl⟩ | ⟨rfl, rfl⟩
          · exact ⟨_, rfl, Or.inr rfl⟩
          · exact ⟨_, rfl, hu⟩
          · exact ⟨_, rfl, hu⟩
theorem evIn_strict (hκ : EnvTyped Γ κ) (hs' : fl'.strictBinary = true) (x : Nat) (a : Width) : ∀ (items : Exs) (l : List Diag),
    checkItems fl' Γ κ a items = .ok l → ∀ v, evIn fl κ x items = .ok v → evIn fl' κ x items = .ok v
  | .nil, _, _, v, hv => by unfold evIn at hv ⊢; exact hv
  | .cons e rest, l, h, v, hv => by
      obtain ⟨b, l', hb, hl'⟩ := checkItems_cons_inv h
      unfold evIn at hv ⊢
      obtain ⟨bv, hbv, hv⟩ := bind_ok hv
      obtain ⟨b1, _⟩ := ev_strict hκ hs' e b hb bv hbv
      rw [b1]
      simp only [bind, Except.bind]
      split
      · rename_i hx; rw [if_pos hx] at hv; exact hv
      · rename_i hx; rw [if_neg hx] at hv; exact evIn_strict hκ hs' x a rest l' hl' v hv
end
end

/-- **the always-true test of a case condition does not depend on the options**, for a condition the stricter options accept
    (over constants of the recorded widths) -/
theorem alwaysTrue_flag {fl fl' : Flags} {Γ : Ctx} {κ : Env} (hle : Flags.le fl fl') (hκ : EnvTyped Γ κ) (e : Ex) (w : Width)
    (h : check fl' Γ κ e = .ok w) : alwaysTrue fl κ e = alwaysTrue fl' κ e := by
  have A : ExLe (ev fl' κ e) (ev fl κ e) := ev_le hle.1 e
  have B : ExLe (ev fl κ e) (ev fl' κ e) := by
    cases hs' : fl'.strictBinary
    · exact ev_le (fun hx => by rw [hs'] at hx; cases hx) e
    · exact fun v hv => (ev_strict hκ hs' e w h v hv).1
  unfold alwaysTrue
  cases h' : ev fl' κ e with
  | ok v => rw [A v h']
  | error x =>
    cases h0 : ev fl κ e with
    | ok v => rw [B v h0] at h'; cases h'
    | error y => rfl

/-! ### the relation between a run of the checker under `fl` and under a stricter `fl'` -/

/-- a non-empty list of diagnostics whose kinds all belong to `K` -/
def OnlyKinds (K : List DKind) (ds : List Diag) : Prop := ds ≠ [] ∧ ∀ d ∈ ds, d.kind ∈ K

/-- `x'` (the run under the stricter options) succeeds only if `x` does, with the same result; and where `x` succeeds and
    `x'` fails, `x'` reports only diagnostics of kinds in `K` -/
def FRel {α : Type} (K : List DKind) (x x' : C α) : Prop :=
  (∀ a, x' = .ok a → x = .ok a) ∧ (∀ a ds, x = .ok a → x' = .error ds → OnlyKinds K ds)

namespace FRel
variable {α β : Type} {K : List DKind}

theorem refl (x : C α) : FRel K x x := ⟨fun _ h => h, fun a ds h h' => by rw [h] at h'; cases h'⟩

theorem err_err (ds ds' : List Diag) : FRel K (.error ds : C α) (.error ds') :=
  ⟨fun _ h => (by cases h), fun _ _ h _ => (by cases h)⟩

theorem err_right (x : C α) {ds : List Diag} (h : OnlyKinds K ds) : FRel K x (.error ds) :=
  ⟨fun _ h => (by cases h), fun _ _ _ h' => (by cases h'; exact h)⟩

theorem bind {x x' : C α} {f f' : α → C β} (h : FRel K x x') (hf : ∀ a, x' = .ok a → FRel K (f a) (f' a)) :
    FRel K (x >>= f) (x' >>= f') := by
  constructor
  · intro b hb
    obtain ⟨a, ha, hfa⟩ := bind_ok hb
    rw [h.1 a ha]
    exact (hf a ha).1 b hfa
  · intro b ds hb hb'
    obtain ⟨a, ha, hfa⟩ := bind_ok hb
    cases hx' : x' with
    | error ds' =>
      rw [hx'] at hb'
      cases hb'
      exact h.2 a _ ha hx'
    | ok a' =>
      have := h.1 a' hx'
      rw [ha] at this
      cases this
      rw [hx'] at hb'
      exact (hf a hx').2 b ds hfa hb'
end FRel

theorem onlyKinds_single {K : List DKind} {k : DKind} (h : k ∈ K) : OnlyKinds K [⟨k, []⟩] :=
  ⟨by simp, fun d hd => by simp only [List.mem_cons, List.not_mem_nil, or_false] at hd; rw [hd]; exact h⟩

theorem mem_flagKinds_binary {fl fl' : Flags} (h : fl.strictBinary = false) (h' : fl'.strictBinary = true) :
    DKind.MismatchedExprWidths ∈ flagKinds fl fl' := by simp [flagKinds, h, h']
theorem mem_flagKinds_boolean {fl fl' : Flags} (h : fl.strictBoolean = false) (h' : fl'.strictBoolean = true) :
    DKind.NonBooleanWidth ∈ flagKinds fl fl' := by simp [flagKinds, h, h']
theorem mem_flagKinds_default {fl fl' : Flags} (h : fl.requireMuxDefault = false) (h' : fl'.requireMuxDefault = true) :
    DKind.NoMuxDefaultOption ∈ flagKinds fl fl' := by simp [flagKinds, h, h']
theorem mem_flagKinds_multiple {fl fl' : Flags} (h : fl.disallowMultipleMuxDefault = false) (h' : fl'.disallowMultipleMuxDefault = true) :
    DKind.MultipleMuxDefaultOption ∈ flagKinds fl fl' := by simp [flagKinds, h, h']
theorem mem_flagKinds_unreachable {fl fl' : Flags} (h : fl.disallowUnreachable = false) (h' : fl'.disallowUnreachable = true) :
    DKind.UnreachableOptions ∈ flagKinds fl fl' := by simp [flagKinds, h, h']

/-- a guarded `throw`: the stricter options raise it whenever the laxer ones do, and when only the stricter ones raise it
    its kind is one of `K` -/
theorem FRel.guard {α : Type} {K : List DKind} {c c' : Bool} {k : DKind} {x x' : C α} (h1 : c = true → c' = true)
    (h2 : c = false → c' = true → k ∈ K) (hx : FRel K x x') :
    FRel K (if c = true then .error [⟨k, []⟩] else x) (if c' = true then .error [⟨k, []⟩] else x') := by
  cases c <;> cases c'
  · simpa using hx
  · simp only [Bool.false_eq_true, if_false, if_true]
    exact FRel.err_right _ (onlyKinds_single (h2 rfl rfl))
  · have := h1 rfl; cases this
  · simp only [if_true]; exact FRel.err_err _ _

theorem muxFinal_rel {fl fl' : Flags} (hle : Flags.le fl fl') (s : MuxScan) :
    FRel (flagKinds fl fl') (muxFinal fl s) (muxFinal fl' s) := by
  obtain ⟨_, _, h3, h4, h5⟩ := hle
  unfold muxFinal
  refine FRel.guard ?_ ?_ (FRel.guard ?_ ?_ (FRel.guard ?_ ?_ (FRel.refl _)))
  · intro h; simp only [Bool.and_eq_true] at h ⊢; exact ⟨h3 h.1, h.2⟩
  · intro h h'
    simp only [Bool.and_eq_true] at h'
    refine mem_flagKinds_default ?_ h'.1
    cases hf : fl.requireMuxDefault
    · rfl
    · rw [hf, h'.2] at h; cases h
  · intro h; simp only [Bool.and_eq_true] at h ⊢; exact ⟨h4 h.1, h.2⟩
  · intro h h'
    simp only [Bool.and_eq_true] at h'
    refine mem_flagKinds_multiple ?_ h'.1
    cases hf : fl.disallowMultipleMuxDefault
    · rfl
    · rw [hf, h'.2] at h; cases h
  · intro h; simp only [Bool.and_eq_true] at h ⊢; exact ⟨h5 h.1, h.2⟩
  · intro h h'
    simp only [Bool.and_eq_true] at h'
    refine mem_flagKinds_unreachable ?_ h'.1
    cases hf : fl.disallowUnreachable
    · rfl
    · rw [hf, h'.2] at h; cases h

/-- the two option sets agree on which case conditions are always true, for the conditions the stricter set accepts -/
def SameAlwaysTrue (fl fl' : Flags) (Γ : Ctx) (κ : Env) : Prop :=
  ∀ c w, check fl' Γ κ c = .ok w → alwaysTrue fl κ c = alwaysTrue fl' κ c

theorem sameAlwaysTrue_of_typed {fl fl' : Flags} {Γ : Ctx} {κ : Env} (hle : Flags.le fl fl') (hκ : EnvTyped Γ κ) :
    SameAlwaysTrue fl fl' Γ κ := fun c w h => alwaysTrue_flag hle hκ c w h

/-- evaluation consults `strictBinary` only: two option sets that agree on it agree on every always-true test -/
theorem sameAlwaysTrue_of_sameBinary {fl fl' : Flags} (Γ : Ctx) (κ : Env) (hsb : fl.strictBinary = fl'.strictBinary) :
    SameAlwaysTrue fl fl' Γ κ := by
  intro c w _
  have A : ExLe (ev fl' κ c) (ev fl κ c) := ev_le (fun hx => by rw [← hsb]; exact hx) c
  have B : ExLe (ev fl κ c) (ev fl' κ c) := ev_le (fun hx => by rw [hsb]; exact hx) c
  unfold alwaysTrue
  cases h' : ev fl' κ c with
  | ok v => rw [A v h']
  | error x =>
    cases h0 : ev fl κ c with
    | ok v => rw [B v h0] at h'; cases h'
    | error y => rfl

section
variable {fl fl' : Flags} {Γ : Ctx} {κ : Env}

theorem Flags.le_false {a b : Bool} (h : a = true → b = true) (hb : b = false) : a = false := by
  cases a
  · rfl
  · rw [h rfl] at hb; cases hb

mutual
theorem check_rel (hle : Flags.le fl fl') (hat : SameAlwaysTrue fl fl' Γ κ) : ∀ e : Ex,
    FRel (flagKinds fl fl') (check fl Γ κ e) (check fl' Γ κ e)
  | .const _ => by unfold check; exact FRel.refl _
  | .wire _ => by unfold check; exact FRel.refl _
  | .bin op l r => by
      have hl := check_rel hle hat l
      have hr := check_rel hle hat r
      unfold check
      cases hk : op.kind <;> simp only []
      · -- boolCombine
        cases hs' : fl'.strictBoolean
        · rw [Flags.le_false hle.2.1 hs']
          simp only [Bool.false_eq_true, if_false]
          exact FRel.bind hl (fun a _ => FRel.bind hr (fun b _ => FRel.refl _))
        · cases hs : fl.strictBoolean
          · simp only [Bool.false_eq_true, if_false, if_true]
            refine FRel.bind hl (fun a _ => ?_)
            have hk := mem_flagKinds_boolean hs hs'
            by_cases ha : (!a.possiblyBoolean) = true
            · rw [if_pos ha]
              exact FRel.err_right _ (onlyKinds_single hk)
            · rw [if_neg ha]
              refine FRel.bind hr (fun b _ => ?_)
              by_cases hb : (!b.possiblyBoolean) = true
              · rw [if_pos hb]
                exact FRel.err_right _ (onlyKinds_single hk)
              · rw [if_neg hb]
                exact FRel.refl _
          · simp only [if_true]
            refine FRel.bind hl (fun a _ => ?_)
            by_cases ha : (!a.possiblyBoolean) = true
            · rw [if_pos ha, if_pos ha]
              exact FRel.err_err _ _
            · rw [if_neg ha, if_neg ha]
              exact FRel.bind hr (fun b _ => FRel.refl _)
      · -- boolFromEq
        exact FRel.bind hl (fun a _ => FRel.bind hr (fun b _ => FRel.refl _))
      · -- equalWidth
        exact FRel.bind hl (fun a _ => FRel.bind hr (fun b _ => FRel.refl _))
      · -- equalWidthWeak
        cases hs' : fl'.strictBinary
        · rw [Flags.le_false hle.1 hs']
          simp only [Bool.false_eq_true, if_false]
          exact FRel.bind hl (fun a _ => FRel.bind hr (fun b _ => FRel.refl _))
        · cases hs : fl.strictBinary
          · simp only [Bool.false_eq_true, if_false, if_true]
            refine FRel.bind hl (fun a _ => FRel.bind hr (fun b _ => ?_))
            cases hc : a.combine b with
            | none => exact FRel.err_right _ (onlyKinds_single (mem_flagKinds_binary hs hs'))
            | some w => rw [Width.max_of_combine hc]; exact FRel.refl _
          · simp only [if_true]
            exact FRel.bind hl (fun a _ => FRel.bind hr (fun b _ => FRel.refl _))
  | .un op e => by
      have he := check_rel hle hat e
      cases op with
      | not => unfold check; exact FRel.bind he (fun _ _ => FRel.refl _)
      | plus => unfold check; exact he
      | neg => unfold check; exact he
      | compl => unfold check; exact he
  | .slice e lo hi => by
      have he := check_rel hle hat e
      unfold check
      split
      · exact FRel.err_err _ _
      · exact FRel.bind he (fun _ _ => FRel.refl _)
  | .concat l r => by
      have hl := check_rel hle hat l
      have hr := check_rel hle hat r
      unfold check
      refine FRel.bind hl (fun a _ => ?_)
      cases a with
      | unlimited => exact FRel.refl _
      | bits lw => exact FRel.bind hr (fun _ _ => FRel.refl _)
  | .mux opts => by
      rw [check_mux_eq, check_mux_eq]
      exact FRel.bind (checkOpts_rel hle hat opts {}) (fun s _ => muxFinal_rel hle s)
  | .inSet e items => by
      have he := check_rel hle hat e
      unfold check
      exact FRel.bind he (fun a _ => FRel.bind (checkItems_rel hle hat a items) (fun _ _ => FRel.refl _))
theorem checkOpts_rel (hle : Flags.le fl fl') (hat : SameAlwaysTrue fl fl' Γ κ) : ∀ (opts : Opts) (s : MuxScan),
    FRel (flagKinds fl fl') (checkOpts fl Γ κ opts s) (checkOpts fl' Γ κ opts s)
  | .nil, s => by unfold checkOpts; exact FRel.refl _
  | .cons c v rest, s => by
      unfold checkOpts
      refine FRel.bind (check_rel hle hat c) (fun wc hc => ?_)
      rw [hat c wc hc]
      exact FRel.bind (check_rel hle hat v) (fun wv _ => checkOpts_rel hle hat rest _)
theorem checkItems_rel (hle : Flags.le fl fl') (hat : SameAlwaysTrue fl fl' Γ κ) (a : Width) : ∀ items : Exs,
    FRel (flagKinds fl fl') (checkItems fl Γ κ a items) (checkItems fl' Γ κ a items)
  | .nil => by unfold checkItems; exact FRel.refl _
  | .cons e rest => by
      unfold checkItems
      exact FRel.bind (check_rel hle hat e) (fun b _ => FRel.bind (checkItems_rel hle hat a rest) (fun _ _ => FRel.refl _))
end
end

/-! ### M1, M2: expressions -/

/-- **M1**: what the stricter option set accepts the laxer one accepts, at the same width (over constants of the recorded
    widths) -/
theorem check_flag_mono (fl fl' : Flags) (hle : Flags.le fl fl') (Γ : Ctx) (κ : Env) (hκ : EnvTyped Γ κ) (e : Ex) (w : Width)
    (h : check fl' Γ κ e = .ok w) : check fl Γ κ e = .ok w :=
  (check_rel hle (sameAlwaysTrue_of_typed hle hκ) e).1 w h

/-- **M2**: what the laxer set accepts and the stricter set rejects is rejected with diagnostics of the options that differ,
    and only those -/
theorem check_flag_exact (fl fl' : Flags) (hle : Flags.le fl fl') (Γ : Ctx) (κ : Env) (hκ : EnvTyped Γ κ) (e : Ex) (w : Width)
    (ds : List Diag) (h : check fl Γ κ e = .ok w) (h' : check fl' Γ κ e = .error ds) :
    ds ≠ [] ∧ ∀ d ∈ ds, d.kind ∈ flagKinds fl fl' :=
  (check_rel hle (sameAlwaysTrue_of_typed hle hκ) e).2 w ds h h'

/-- the same for the scan of a case expression's options, from any scan state -/
theorem checkOpts_flag_mono (fl fl' : Flags) (hle : Flags.le fl fl') (Γ : Ctx) (κ : Env) (hκ : EnvTyped Γ κ) (opts : Opts)
    (s s' : MuxScan) (h : checkOpts fl' Γ κ opts s = .ok s') : checkOpts fl Γ κ opts s = .ok s' :=
  (checkOpts_rel hle (sameAlwaysTrue_of_typed hle hκ) opts s).1 s' h

/-- the same for the members of an `in` set -/
theorem checkItems_flag_mono (fl fl' : Flags) (hle : Flags.le fl fl') (Γ : Ctx) (κ : Env) (hκ : EnvTyped Γ κ) (a : Width)
    (items : Exs) (l : List Diag) (h : checkItems fl' Γ κ a items = .ok l) : checkItems fl Γ κ a items = .ok l :=
  (checkItems_rel hle (sameAlwaysTrue_of_typed hle hκ) a items).1 l h

/-- M1 for option sets that agree on `strictBinary`: no assumption on the context and the constants is needed -/
theorem check_flag_mono_sameBinary (fl fl' : Flags) (hle : Flags.le fl fl') (hsb : fl.strictBinary = fl'.strictBinary)
    (Γ : Ctx) (κ : Env) (e : Ex) (w : Width) (h : check fl' Γ κ e = .ok w) : check fl Γ κ e = .ok w :=
  (check_rel hle (sameAlwaysTrue_of_sameBinary Γ κ hsb) e).1 w h

/-- M2 for option sets that agree on `strictBinary`: no assumption on the context and the constants is needed -/
theorem check_flag_exact_sameBinary (fl fl' : Flags) (hle : Flags.le fl fl') (hsb : fl.strictBinary = fl'.strictBinary)
    (Γ : Ctx) (κ : Env) (e : Ex) (w : Width) (ds : List Diag) (h : check fl Γ κ e = .ok w) (h' : check fl' Γ κ e = .error ds) :
    ds ≠ [] ∧ ∀ d ∈ ds, d.kind ∈ flagKinds fl fl' :=
  (check_rel hle (sameAlwaysTrue_of_sameBinary Γ κ hsb) e).2 w ds h h'

section
variable {fl fl' : Flags} {Γ : Ctx} {κ : Env}

mutual
/-- the width fix-up of an expression the stricter options accept is the same under the laxer ones (no assumption on the
    widths of the context or the shape of the literals) -/
theorem fixMux_flag_mono (hle : Flags.le fl fl') (hat : SameAlwaysTrue fl fl' Γ κ) : ∀ (e : Ex) (w : Width),
    check fl' Γ κ e = .ok w → fixMux fl Γ κ e = fixMux fl' Γ κ e
  | .const _, _, _ => by simp [fixMux]
  | .wire _, _, _ => by simp [fixMux]
  | .bin op l r, w, h => by
      obtain ⟨a, b, ha, hb, _⟩ := check_bin_inv h
      simp only [fixMux, fixMux_flag_mono hle hat l a ha, fixMux_flag_mono hle hat r b hb]
  | .un op e, w, h => by
      obtain ⟨a, ha⟩ := check_un_inv h
      simp only [fixMux, fixMux_flag_mono hle hat e a ha]
  | .slice e lo hi, w, h => by
      obtain ⟨a, ha⟩ := check_slice_inv h
      simp only [fixMux, fixMux_flag_mono hle hat e a ha]
  | .concat l r, w, h => by
      obtain ⟨a, b, ha, hb⟩ := check_concat_inv h
      simp only [fixMux, fixMux_flag_mono hle hat l a ha, fixMux_flag_mono hle hat r b hb]
  | .mux opts, w, h => by
      obtain ⟨s, hs⟩ := check_mux_inv h
      have h0 := (check_rel hle hat (.mux opts)).1 w h
      simp only [fixMux, h, h0, fixMuxOpts_flag_mono hle hat opts {} s hs]
  | .inSet e items, w, h => by
      obtain ⟨a, l, ha, hl⟩ := check_inSet_inv h
      simp only [fixMux, fixMux_flag_mono hle hat e a ha, fixMuxExs_flag_mono hle hat items a l hl]
theorem fixMuxOpts_flag_mono (hle : Flags.le fl fl') (hat : SameAlwaysTrue fl fl' Γ κ) : ∀ (opts : Opts) (s s' : MuxScan),
    checkOpts fl' Γ κ opts s = .ok s' → fixMuxOpts fl Γ κ opts = fixMuxOpts fl' Γ κ opts
  | .nil, _, _, _ => by simp [fixMuxOpts]
  | .cons c v rest, s, s', h => by
      obtain ⟨wc, wv, t, hc, hv, hr⟩ := checkOpts_cons_inv h
      simp only [fixMuxOpts, fixMux_flag_mono hle hat c wc hc, fixMux_flag_mono hle hat v wv hv,
        fixMuxOpts_flag_mono hle hat rest t s' hr]
theorem fixMuxExs_flag_mono (hle : Flags.le fl fl') (hat : SameAlwaysTrue fl fl' Γ κ) : ∀ (items : Exs) (a : Width) (l : List Diag),
    checkItems fl' Γ κ a items = .ok l → fixMuxExs fl Γ κ items = fixMuxExs fl' Γ κ items
  | .nil, _, _, _ => by simp [fixMuxExs]
  | .cons e rest, a, l, h => by
      obtain ⟨b, m, hb, hm⟩ := checkItems_cons_inv h
      simp only [fixMuxExs, fixMux_flag_mono hle hat e b hb, fixMuxExs_flag_mono hle hat rest a m hm]
end
end

/-- no option on in `fl'` and off in `fl`: nothing can be rejected by `fl'` alone -/
theorem flagKinds_self (fl : Flags) : flagKinds fl fl = [] := by
  unfold flagKinds
  cases fl.strictBinary <;> cases fl.strictBoolean <;> cases fl.requireMuxDefault <;>
    cases fl.disallowMultipleMuxDefault <;> cases fl.disallowUnreachable <;> rfl

/-! ### check, fix up, evaluate -/

theorem envTyped_wOf (R : AMap WireValue) : EnvTyped (wOf R).toCtx R.toEnv := by
  intro n v hv
  rw [wOf_toCtx, hv]
  rfl

/-- what `checkFixEval` yields under the stricter options it yields under the laxer ones -/
theorem checkFixEval_flag_mono {fl fl' : Flags} (hle : Flags.le fl fl') {Γ : Ctx} {κ : Env} (hκ : EnvTyped Γ κ)
    (e : Ex) (v : WireValue) (h : checkFixEval fl' Γ κ e = .ok v) : checkFixEval fl Γ κ e = .ok v := by
  unfold checkFixEval at h ⊢
  cases hc' : check fl' Γ κ e with
  | error ds => rw [hc'] at h; cases h
  | ok w =>
    have hc := check_flag_mono fl fl' hle Γ κ hκ e w hc'
    rw [hc'] at h
    rw [hc]
    simp only at h ⊢
    rw [fixMux_flag_mono hle (sameAlwaysTrue_of_typed hle hκ) e w hc']
    cases hev' : ev fl' κ (fixMux fl' Γ κ e) with
    | error err => rw [hev'] at h; cases h
    | ok v' =>
      rw [hev'] at h
      rw [ev_le hle.1 _ v' hev']
      exact h

theorem constVal_flag_mono {fl fl' : Flags} (hle : Flags.le fl fl') (R : AMap WireValue) (e : Ex) (v : WireValue)
    (h : constVal fl' R e = .ok v) : constVal fl R e = .ok v := by
  unfold constVal at h ⊢
  exact checkFixEval_flag_mono hle (envTyped_wOf R) e v h

/-! ### the stages of `Program.new` -/

/-- the constants the stricter options resolve are resolved, to the same table, by the laxer ones -/
theorem resolveConstants_flag_mono {fl fl' : Flags} (hle : Flags.le fl fl') (o : Orders) (exprs : AMap Ex) (ho : OrdersOK o)
    (hk : exprs.keys.Nodup) (hrefs : ∀ p ∈ exprs, ∀ r ∈ refs p.2, exprs.contains r = true)
    (hwf : ∀ p ∈ exprs, wfEx p.2 = true) (c : AMap WireValue) (h : resolveConstants fl' o exprs = .ok c) :
    resolveConstants fl o exprs = .ok c := by
  have hrules := resolveConstants_rules fl' o exprs ho hk hrefs c h
  have hac := ((resolveConstants_ok_iff fl' o exprs ho hk hrefs).mp ⟨c, h⟩).1
  obtain ⟨c₂, h₂⟩ := (resolveConstants_ok_iff fl o exprs ho hk hrefs).mpr ⟨hac, c, fun n e he => by
    obtain ⟨v, hv, hcv⟩ := hrules n e he
    exact ⟨v, hv, constVal_flag_mono hle c e v hcv⟩⟩
  rw [h₂, resolveConstants_flag fl fl' o exprs hwf c₂ c h₂ h]

theorem RegDeclOK.flag_mono {fl fl' : Flags} (hle : Flags.le fl fl') {s1 : Step1} {constants : AMap WireValue}
    {i o : Char} {r : RegDecl} (h : RegDeclOK fl' s1 constants i o r) :
    RegDeclOK fl s1 constants i o r :=
  { readsConsts := h.readsConsts, notDeclared := h.notDeclared, outNotAssigned := h.outNotAssigned
    defaultOK := by
      obtain ⟨v, hv, hw⟩ := h.defaultOK
      exact ⟨v, constVal_flag_mono hle constants r.default v hv, hw⟩ }

theorem BankDeclOK.flag_mono {fl fl' : Flags} (hle : Flags.le fl fl') {cls : CharClass} {s1 : Step1} {constants : AMap WireValue}
    {b : BankDecl} (h : BankDeclOK fl' cls s1 constants b) :
    BankDeclOK fl cls s1 constants b := by
  obtain ⟨i, o, h1, h2, h3, h4, h5, h6⟩ := h.ok
  exact ⟨i, o, h1, h2, h3, h4, h5, fun r hr => (h6 r hr).flag_mono hle⟩

/-- **M3**: a statement list accepted under the stricter options is accepted under the laxer ones, and it is built into the
    same program -/
theorem Program_new_flag_mono (fl fl' : Flags) (hle : Flags.le fl fl') (cls : CharClass) (o : Orders) (stmts : List Stmt)
    (ho : OrdersOK o) (hwf : StmtsWF stmts) (p' : Program) (h' : Program.new fl' cls o y86FixedFunctions stmts = .ok p') :
    Program.new fl cls o y86FixedFunctions stmts = .ok p' := by
  have F' := Program_new_faultless fl' cls o stmts ho hwf p' h'
  have hs3clean' := Program_new_s3clean fl' cls o stmts p' h'
  obtain ⟨s1, c, s3, known, hyp, _, _, hpc, _, _, e1, _, e3, _, _, _⟩ := Program_new_decompose' fl' cls o stmts p' hwf h'
  subst e1
  subst hpc
  subst e3
  have hbwf : ∀ b ∈ (step1Of stmts).banksRaw, ∀ r ∈ b.regs, wfEx r.default = true := fun b hb r hr => (hyp.s1inv.banks b hb r hr).2
  have hw : ∀ b ∈ (step1Of stmts).banksRaw, ∀ r ∈ b.regs, r.width.ok := fun b hb r hr => (hyp.s1inv.banks b hb r hr).1
  -- step 2
  have hconst : resolveConstants fl o (step1Of stmts).constantsRaw = .ok p'.constants :=
    resolveConstants_flag_mono hle o _ ho hyp.s1inv.cKeys F'.constantsReadConstants hyp.s1inv.cWf _ F'.constantsResolve
  -- step 3
  have hbanks : ∀ b ∈ (step1Of stmts).banksRaw, BankDeclOK fl cls (step1Of stmts) p'.constants b :=
    fun b hb => (F'.banksOK b hb).flag_mono hle
  have hs3clean : (step3Of fl cls (step1Of stmts) p'.constants).errors = [] :=
    (step3Of_errors_nil_iff fl cls (step1Of stmts) p'.constants hw).mpr ⟨hbanks, F'.registerNamesNodup⟩
  have hs3 : step3Of fl cls (step1Of stmts) p'.constants = step3Of fl' cls (step1Of stmts) p'.constants := by
    unfold step3Of at hs3clean hs3clean' ⊢
    exact banks_fold_flag fl fl' cls (step1Of stmts) p'.constants hyp.cok _ _ hbwf hs3clean hs3clean'
  -- the actions
  have hΓ := finalWires_ctxOK hyp
  have hκ : EnvTyped (finalWires (step1Of stmts) p'.constants (step3Of fl' cls (step1Of stmts) p'.constants)).toCtx
      p'.constants.toEnv := fun n v hv => finalWires_const hyp n v hv
  have F : Faultless fl cls o stmts p'.constants :=
    { declNodup := F'.declNodup, declNotBuiltin := F'.declNotBuiltin, targetsNodup := F'.targetsNodup
      targetsNotOutput := F'.targetsNotOutput, targetsNotConstant := F'.targetsNotConstant
      constantsReadConstants := F'.constantsReadConstants
      constantsResolve := hconst
      banksOK := hbanks
      registerNamesNodup := F'.registerNamesNodup
      neededAssigned := by rw [hs3]; exact F'.neededAssigned
      actionsOK := by
        rw [hs3]
        have A' := F'.actionsOK
        exact
          { mand := A'.mand, unused := A'.unused, read := A'.read, acyclic := A'.acyclic
            partialOff := by
              intro f hf hna hsome
              obtain ⟨en, expr, v, g1, g2, ⟨ew, g3⟩, g4, g5⟩ := A'.partialOff f hf hna hsome
              have hwfe := hyp.s1inv.aWf (en, expr) (AMap.mem_of_get? _ _ _ g2)
              have hc := check_flag_mono fl fl' hle _ _ hκ expr ew g3
              refine ⟨en, expr, v, g1, g2, ⟨ew, hc⟩, ?_, g5⟩
              rw [fixMux_flag hΓ expr ew ew hwfe hc g3]
              exact ev_le hle.1 _ v g4
            assign := by
              intro n e he
              obtain ⟨w, ew, g1, g2, g3⟩ := A'.assign n e he
              exact ⟨w, ew, g1, check_flag_mono fl fl' hle _ _ hκ e ew g2, g3⟩ } }
  obtain ⟨p, hp⟩ := Program_new_of_faultless fl cls o stmts ho hwf p'.constants F
  rw [hp, Program_new_flag fl fl' cls o stmts p p' hwf hp h']

/-! ### why `EnvTyped` is needed: M1 and M2 fail over constants whose values do not have the recorded widths -/

namespace FlagMonoCex
/-- every name is recorded as 4 bits wide … -/
def Γ : Ctx := fun _ => some (.bits 4)
/-- … but its value is 8 bits wide -/
def κ : Env := fun _ => some ⟨1, .bits 8⟩
/-- `a + 1'4`: accepted with `strictBinary` (4 and 4 bits); evaluating it with the option on is a run-time width error
    (8 and 4 bits), so it is not "always true"; with the option off it evaluates to 2, so it is -/
def cond : Ex := .bin .add (.wire "a") (.const ⟨1, .bits 4⟩)
/-- `[ a + 1 : 0; 1 : 1 ]` -/
def e1 : Ex := .mux (.cons cond (.const ⟨0, .bits 1⟩) (.cons (.const ⟨1, .bits 1⟩) (.const ⟨1, .bits 1⟩) .nil))
/-- `[ a + 1 : 0 ]` -/
def e2 : Ex := .mux (.cons cond (.const ⟨0, .bits 1⟩) .nil)
def lax1 : Flags := ⟨false, false, false, false, true⟩
def strict1 : Flags := ⟨true, false, false, false, true⟩
def lax2 : Flags := ⟨false, false, true, false, false⟩
def strict2 : Flags := ⟨true, false, true, false, false⟩

/-- M1 without `EnvTyped`: with `disallowUnreachable` on in both sets, turning `strictBinary` ON makes the second option
    reachable, so the stricter set accepts what the laxer one rejects -/
theorem m1_fails : Flags.le lax1 strict1 ∧ check strict1 Γ κ e1 = .ok (.bits 1) ∧
    check lax1 Γ κ e1 = .error [⟨.UnreachableOptions, []⟩] := by
  refine ⟨by simp [Flags.le, lax1, strict1], by rfl, by rfl⟩

/-- M2 without `EnvTyped`: with `requireMuxDefault` on in both sets, turning `strictBinary` on removes the default; the
    diagnostic is not one of the option that differs -/
theorem m2_fails : Flags.le lax2 strict2 ∧ check lax2 Γ κ e2 = .ok (.bits 1) ∧
    check strict2 Γ κ e2 = .error [⟨.NoMuxDefaultOption, []⟩] ∧ flagKinds lax2 strict2 = [.MismatchedExprWidths] := by
  refine ⟨by simp [Flags.le, lax2, strict2], by rfl, by rfl, by rfl⟩
end FlagMonoCex

#print axioms check_flag_mono
#print axioms check_flag_exact
#print axioms Program_new_flag_mono
