import Hcl.Model.Parser

/-! Model of the STATEMENT level of parser.lalrpop (`Statements`, `StatementsNotEof`, `StatementNeedSemi`,
    `StatementNoSemi`, `WireDecls`, `ConstDecls`, `Assignments`, `RegisterBankDecl`, `Commas`, `Commas1`, `Semicolons`,
    `WidthConstant`) on the SUCCESS path of the grammar: a recursive-descent parser over the token list of the lexer
    model that builds the span-less AST of Hcl/Ast.lean.

    Not modelled (the model answers `none`): LALRPOP's error recovery (the `!` productions) and every production whose
    action pushes an error (a wire without width or with an initialiser, a constant with a width, a register without
    width or declared with `wire`, `name [ ... ]` without `=`, a bare expression as a statement, a width above 128).
    Each of these makes the real parser return errors, so "the real parser produced an AST without errors" is exactly
    membership in the language of the remaining productions, which is what `parseStmts` decides.

    The remaining grammar is LR(1) (LALRPOP built its tables without conflicts), hence unambiguous: a recursive-descent
    recogniser that accepts the same language builds the same tree.  The points where one token of look-ahead beyond
    the current one is used are noted at the functions. -/

deriving instance DecidableEq for Ex, Opts, Exs
deriving instance DecidableEq for ConstDecl
deriving instance DecidableEq for WireDecl
deriving instance DecidableEq for Assignment
deriving instance DecidableEq for RegDecl
deriving instance DecidableEq for BankDecl
deriving instance DecidableEq for Stmt

namespace Parser
open Lexer

/-- expression tree without spans (`PEx.erase` of Hcl/Model/Parser.lean under the name the statement level uses) -/
abbrev PEx.toEx (x : PEx) : Ex := x.erase

/-- `Expr` at a statement-level position: the expression model with the fuel `parseExpr` uses, which is enough for every
    token list any fuel can parse (`parseTier_fuel_enough`); the value without spans, and the rest -/
def parseE (ts : Toks) : Option (Ex × Toks) :=
  match parseTier (14 * ts.length + 40) 0 ts with
  | some (x, _, _, rest) => some (x.toEx, rest)
  | none => none

/-! The lists of the grammar are loops; each is written as one turn of the loop (`...Step`, with the rest of the loop as
    the parameter `k`), iterated under a fuel (`parse...`), and run with one more unit of fuel than there are tokens
    (every turn consumes a token, so this never runs out: `Hcl/Proofs/ParseStmts.lean`). -/

/-- `Commas<WireDecl>` = `(WireDecl ",")* WireDecl?` with `WireDecl = ID ":" WidthConstant` (the three other productions
    of `WireDecl` push errors).  Stops, without failing, in front of the first token that cannot start a declaration. -/
def wireDeclsStep (k : Toks → Option (List WireDecl × Toks)) : Toks → Option (List WireDecl × Toks)
  | (_, .Identifier name, _) :: (_, .Colon, _) :: rest =>
    match smallConst rest with
    | none => none
    | some (w, _, _, rest1) =>
      match rest1 with
      | (_, .Comma, _) :: rest2 =>
        match k rest2 with
        | none => none
        | some (ds, rest3) => some (⟨name, .bits w⟩ :: ds, rest3)
      | _ => some ([⟨name, .bits w⟩], rest1)
  | ts => some ([], ts)

def parseWireDecls : Nat → Toks → Option (List WireDecl × Toks)
  | 0, _ => none
  | n+1, ts => wireDeclsStep (parseWireDecls n) ts

def wireDecls (ts : Toks) : Option (List WireDecl × Toks) := parseWireDecls (ts.length + 1) ts

/-- `Commas<ConstDecl>` with `ConstDecl = ID "=" Expr` -/
def constDeclsStep (k : Toks → Option (List ConstDecl × Toks)) : Toks → Option (List ConstDecl × Toks)
  | (_, .Identifier name, _) :: (_, .Assign, _) :: rest =>
    match parseE rest with
    | none => none
    | some (v, rest1) =>
      match rest1 with
      | (_, .Comma, _) :: rest2 =>
        match k rest2 with
        | none => none
        | some (ds, rest3) => some (⟨name, v⟩ :: ds, rest3)
      | _ => some ([⟨name, v⟩], rest1)
  | ts => some ([], ts)

def parseConstDecls : Nat → Toks → Option (List ConstDecl × Toks)
  | 0, _ => none
  | n+1, ts => constDeclsStep (parseConstDecls n) ts

def constDecls (ts : Toks) : Option (List ConstDecl × Toks) := parseConstDecls (ts.length + 1) ts

/-- `(<IDWithSpan> "=")*`: an identifier followed by `=` is a target (after an identifier the LR(1) automaton reduces it
    to `IDWithSpan` exactly when the look-ahead is `=`: no expression can be followed by `=`) -/
def parseTargets : Toks → List String × Toks
  | (_, .Identifier name, _) :: (_, .Assign, _) :: rest =>
    let r := parseTargets rest
    (name :: r.1, r.2)
  | ts => ([], ts)

/-- `Assignment = (ID "=")+ Expr` -/
def parseAssignment (ts : Toks) : Option (Assignment × Toks) :=
  match parseTargets ts with
  | ([], _) => none
  | (names, rest) =>
    match parseE rest with
    | none => none
    | some (v, rest1) => some (⟨names, v⟩, rest1)

/-- `Commas1<Assignment>` = `(Assignment ",")* Assignment ","?`: after a comma an identifier starts the next
    assignment, anything else ends the list (only `;` or the end of input can follow) -/
def assignsStep (k : Toks → Option (List Assignment × Toks)) (ts : Toks) : Option (List Assignment × Toks) :=
  match parseAssignment ts with
  | none => none
  | some (a, rest1) =>
    match rest1 with
    | (_, .Comma, _) :: (s, .Identifier name, e) :: rest2 =>
      match k ((s, .Identifier name, e) :: rest2) with
      | none => none
      | some (as, rest3) => some (a :: as, rest3)
    | (_, .Comma, _) :: rest2 => some ([a], rest2)
    | _ => some ([a], rest1)

def parseAssigns : Nat → Toks → Option (List Assignment × Toks)
  | 0, _ => none
  | n+1, ts => assignsStep (parseAssigns n) ts

def assigns (ts : Toks) : Option (List Assignment × Toks) := parseAssigns (ts.length + 1) ts

/-- `Semicolons<RegisterDecl>` = `(RegisterDecl ";")* RegisterDecl?` with
    `RegisterDecl = ID ":" WidthConstant "=" Expr` (the other productions push errors) -/
def regDeclsStep (k : Toks → Option (List RegDecl × Toks)) : Toks → Option (List RegDecl × Toks)
  | (_, .Identifier name, _) :: (_, .Colon, _) :: rest =>
    match smallConst rest with
    | none => none
    | some (w, _, _, rest1) =>
      match expect .Assign rest1 with
      | none => none
      | some (_, _, rest2) =>
        match parseE rest2 with
        | none => none
        | some (v, rest3) =>
          match rest3 with
          | (_, .Semicolon, _) :: rest4 =>
            match k rest4 with
            | none => none
            | some (ds, rest5) => some (⟨name, .bits w, v⟩ :: ds, rest5)
          | _ => some ([⟨name, .bits w, v⟩], rest3)
  | ts => some ([], ts)

def parseRegDecls : Nat → Toks → Option (List RegDecl × Toks)
  | 0, _ => none
  | n+1, ts => regDeclsStep (parseRegDecls n) ts

def regDecls (ts : Toks) : Option (List RegDecl × Toks) := parseRegDecls (ts.length + 1) ts

/-- `RegisterBankDecl = "register" ID "{" Semicolons<RegisterDecl> "}"`, after the keyword -/
def parseBank : Toks → Option (BankDecl × Toks)
  | (_, .Identifier name, _) :: (_, .OpenBrace, _) :: rest =>
    match regDecls rest with
    | none => none
    | some (regs, rest1) =>
      match expect .CloseBrace rest1 with
      | none => none
      | some (_, _, rest2) => some (⟨name, regs⟩, rest2)
  | _ => none

/-- `StatementNeedSemi` without its fourth production (a bare `SimpleTerm`, which pushes an error) -/
def parseNeedSemi : Toks → Option (Stmt × Toks)
  | (_, .Wire, _) :: rest =>
    match wireDecls rest with
    | none => none
    | some (ds, rest1) => some (.wires ds, rest1)
  | (_, .Const, _) :: rest =>
    match constDecls rest with
    | none => none
    | some (ds, rest1) => some (.consts ds, rest1)
  | (s, .Identifier name, e) :: rest =>
    match assigns ((s, .Identifier name, e) :: rest) with
    | none => none
    | some (as, rest1) => some (.assigns as, rest1)
  | _ => none

/-- `Statements = StatementsNotEof StatementNeedSemi?`, where `StatementsNotEof` is a non-empty sequence of
    `StatementNeedSemi ";"`, `StatementNoSemi` and -- not in first place -- `";"`.  `started` says that the sequence
    is non-empty already; `k` parses what follows a complete item. -/
def stmtsStep (k : Toks → Option (List Stmt)) (started : Bool) : Toks → Option (List Stmt)
  | [] => if started then some [] else none
  | (_, .Semicolon, _) :: rest => if started then k rest else none
  | (_, .Register, _) :: rest =>
    match parseBank rest with
    | none => none
    | some (b, rest1) =>
      match k rest1 with
      | none => none
      | some more => some (.bank b :: more)
  | t :: rest =>
    match parseNeedSemi (t :: rest) with
    | none => none
    | some (st, rest1) =>
      match rest1 with
      | (_, .Semicolon, _) :: rest2 =>
        match k rest2 with
        | none => none
        | some more => some (st :: more)
      | [] => if started then some [st] else none
      | _ => none

def parseStmtsLoop : Nat → Bool → Toks → Option (List Stmt)
  | 0, _, _ => none
  | n+1, started, ts => stmtsStep (parseStmtsLoop n true) started ts

/-- `Statements` on the success path of the grammar; the fuel bounds the number of statements and stray semicolons
    (more than the number of tokens is enough, and then the result does not depend on it:
    `parseStmts_fuel_independent`) -/
def parseStmts (fuel : Nat) (ts : Toks) : Option (List Stmt) := parseStmtsLoop fuel false ts

/-- lex, fail on any lexical error, parse the statements -/
def parseProgram (cls : CharCls) (text : List Char) : Option (List Stmt) :=
  match tokensOf (lex cls text) with
  | none => none
  | some ts => parseStmts (ts.length + 1) ts

end Parser
