import Hcl.Theorems.C04
import Hcl.Theorems.C05
import Hcl.Theorems.C01

/-!
# What a cycle of an accepted program does to the register file and to memory (C04, C05)

For every accepted program, the state-changing actions are an ordered selection (flags `bS bW bE bM`: which of the
four components are wired) of: set status, memory write port, register write port E, register write port M.
They run after every value-writing action, read only the final valuation, and so the registers and memory after a
cycle are the start-of-cycle ones with the specified writes applied in this order.
-/

def opt (b : Bool) (a : Action) : List Action := if b then [a] else []

theorem sublist4 {α : Type} (l : List α) (a b c d : α) (h : l.Sublist [a, b, c, d]) :
    ∃ b1 b2 b3 b4 : Bool, l = (if b1 then [a] else []) ++ (if b2 then [b] else []) ++ (if b3 then [c] else []) ++ (if b4 then [d] else []) := by
  rcases List.sublist_cons_iff.mp h with h1 | ⟨r1, rfl, h1⟩ <;>
  rcases List.sublist_cons_iff.mp h1 with h2 | ⟨r2, rfl, h2⟩ <;>
  rcases List.sublist_cons_iff.mp h2 with h3 | ⟨r3, rfl, h3⟩ <;>
  rcases List.sublist_cons_iff.mp h3 with h4 | ⟨r4, rfl, h4⟩ <;>
  (have := List.sublist_nil.mp h4; subst this)
  · exact ⟨false, false, false, false, rfl⟩
  · exact ⟨false, false, false, true, rfl⟩
  · exact ⟨false, false, true, false, rfl⟩
  · exact ⟨false, false, true, true, rfl⟩
  · exact ⟨false, true, false, false, rfl⟩
  · exact ⟨false, true, false, true, rfl⟩
  · exact ⟨false, true, true, false, rfl⟩
  · exact ⟨false, true, true, true, rfl⟩
  · exact ⟨true, false, false, false, rfl⟩
  · exact ⟨true, false, false, true, rfl⟩
  · exact ⟨true, false, true, false, rfl⟩
  · exact ⟨true, false, true, true, rfl⟩
  · exact ⟨true, true, false, false, rfl⟩
  · exact ⟨true, true, false, true, rfl⟩
  · exact ⟨true, true, true, false, rfl⟩
  · exact ⟨true, true, true, true, rfl⟩

/-- the number a wire holds (0 when it has no value) -/
def bitsOf (vals : AMap WireValue) (n : String) : Nat := match vals.toEnv n with
  | some v => v.bits
  | none => 0

theorem getOrPanic_bits {vals : AMap WireValue} {n : String} {v : WireValue} (h : getOrPanic vals n = .ok v) :
    v.bits = bitsOf vals n := by
  unfold getOrPanic at h
  unfold bitsOf
  have : vals.toEnv n = vals.get? n := rfl
  rw [this]
  cases hg : vals.get? n with
  | none => rw [hg] at h; simp [throw, throwThe, MonadExceptOf.throw] at h
  | some x => rw [hg] at h; simp [pure, Except.pure] at h; subst h; rfl

/-- the register file after a write port, as the code computes it -/
def portWrite (regs : List Nat) (d v : Nat) : List Nat :=
  if d % U64 < regs.length ∧ d % U64 ≠ 15 then regs.set (d % U64) (v % U64) else regs

theorem portWrite_spec (regs : List Nat) (d v : Nat) (hlen : regs.length = 16) (hd : d < 16) :
    portWrite regs d v = Spec.regWrite regs d v := by
  unfold portWrite Spec.regWrite
  have h1 : d % U64 = d := Nat.mod_eq_of_lt (by unfold U64; omega)
  rw [h1, hlen]
  by_cases h : d < 15
  · have : d < 16 ∧ d ≠ 15 := ⟨hd, by omega⟩
    simp [h, this, U64]
  · have : ¬ (d < 16 ∧ d ≠ 15) := by omega
    simp [h, this]

theorem setStatus_effect (fl : Flags) (s t : State) (w : String) (h : execAction fl s (.setStatus w) = .ok t) :
    t.values = s.values ∧ t.regs = s.regs ∧ t.mem = s.mem := by
  simp only [execAction] at h
  obtain ⟨v, _, h2⟩ := bind_ok h
  simp only [pure, Except.pure, Except.ok.injEq] at h2
  subst h2; exact ⟨rfl, rfl, rfl⟩

theorem writeMem_effect (fl : Flags) (s t : State) (en a i : String)
    (h : execAction fl s (.writeMem (some en) a i 8) = .ok t) :
    t.values = s.values ∧ t.regs = s.regs ∧
    absMem t.mem = if bitsOf s.values en ≠ 0 then Spec.wrLE (absMem s.mem) (bitsOf s.values a % 2 ^ 64) (bitsOf s.values i) 8
      else absMem s.mem := by
  cases he : getOrPanic s.values en with
  | error e => simp [execAction, he, bind, Except.bind] at h
  | ok ev =>
    have hev := getOrPanic_bits he
    simp only [execAction, he, bind, Except.bind, pure, Except.pure] at h
    by_cases hpos : ev.bits > 0
    · simp only [hpos, decide_true, if_true] at h
      cases ha : getOrPanic s.values a with
      | error e => simp [ha] at h
      | ok av =>
        cases hi : getOrPanic s.values i with
        | error e => simp [ha, hi] at h
        | ok iv =>
          simp only [ha, hi, Except.ok.injEq] at h
          subst h
          refine ⟨rfl, rfl, ?_⟩
          have hne : bitsOf s.values en ≠ 0 := by rw [← hev]; omega
          simp only [hne, ne_eq, not_false_eq_true, if_true]
          rw [C05_write_spec, ← getOrPanic_bits ha, ← getOrPanic_bits hi]
          rfl
    · simp only [hpos, decide_false, Bool.false_eq_true, if_false, Except.ok.injEq] at h
      subst h
      refine ⟨rfl, rfl, ?_⟩
      have hz : bitsOf s.values en = 0 := by rw [← hev]; omega
      simp [hz]

theorem writeReg_effect (fl : Flags) (s t : State) (d i : String) (h : execAction fl s (.writeReg d i) = .ok t) :
    t.values = s.values ∧ t.mem = s.mem ∧ t.regs = portWrite s.regs (bitsOf s.values d) (bitsOf s.values i) := by
  cases hd : getOrPanic s.values d with
  | error e => simp [execAction, hd, bind, Except.bind] at h
  | ok dv =>
    have hdv := getOrPanic_bits hd
    simp only [execAction, hd, bind, Except.bind, pure, Except.pure] at h
    unfold portWrite
    rw [← hdv]
    by_cases hc : dv.bits % U64 < s.regs.length ∧ dv.bits % U64 ≠ 15
    · rw [if_pos hc] at h ⊢
      cases hi : getOrPanic s.values i with
      | error e => simp [hi] at h
      | ok iv =>
        simp only [hi, Except.ok.injEq] at h
        subst h
        refine ⟨rfl, rfl, ?_⟩
        rw [← getOrPanic_bits hi]
        simp [listSet]
    · rw [if_neg hc] at h ⊢
      simp only [Except.ok.injEq] at h
      subst h
      exact ⟨rfl, rfl, rfl⟩

theorem exec_opt (fl : Flags) (b : Bool) (a : Action) (rest : List Action) (s t : State)
    (h : execActions fl ((if b then [a] else []) ++ rest) s = .ok t) :
    (b = true → ∃ s₁, execAction fl s a = .ok s₁ ∧ execActions fl rest s₁ = .ok t) ∧
    (b = false → execActions fl rest s = .ok t) := by
  cases b with
  | true =>
    simp only [if_true, List.singleton_append, execActions] at h
    obtain ⟨s₁, h1, h2⟩ := bind_ok h
    exact ⟨fun _ => ⟨s₁, h1, h2⟩, fun e => Bool.noConfusion e⟩
  | false =>
    simp only [Bool.false_eq_true, if_false, List.nil_append] at h
    exact ⟨fun e => Bool.noConfusion e, fun _ => h⟩

/-- **C04/C05 for every accepted program: the effect of a cycle on registers and memory.**  There are flags saying
    which of the memory write port and the register write ports E and M the design wires up, such that whenever the
    actions of a cycle complete from `s` in `t`: the valuation of `t` is the settled one (C01/C02), memory is the
    start-of-cycle memory with the little-endian 8-byte store applied iff the port is wired and `mem_writebit` is
    non-zero, and the register file is the start-of-cycle one with the write of port E applied first and the write of
    port M second (so M wins a collision; `portWrite` never touches register 15). -/
theorem C04_C05_accepted_effect (fl : Flags) (cls : CharClass) (o : Orders) (stmts : List Stmt) (p : Program)
    (ho : OrdersOK o) (hwf : StmtsWF stmts)
    (h : Program.new fl cls o y86FixedFunctions stmts = .ok p) :
    ∃ bW bE bM : Bool, ∀ (s t : State), execActions fl p.actions s = .ok t →
      absMem t.mem = (if bW = true ∧ bitsOf t.values "mem_writebit" ≠ 0 then
          Spec.wrLE (absMem s.mem) (bitsOf t.values "mem_addr" % 2 ^ 64) (bitsOf t.values "mem_input") 8
        else absMem s.mem) ∧
      t.regs = (let r1 := if bE = true then portWrite s.regs (bitsOf t.values "reg_dstE") (bitsOf t.values "reg_inputE") else s.regs
                if bM = true then portWrite r1 (bitsOf t.values "reg_dstM") (bitsOf t.values "reg_inputM") else r1) := by
  obtain ⟨pre, fin, _, hsplit, hv, hfin, _, _, hsub⟩ := Program_new_valid fl cls o stmts p ho hwf h
  have hsub4 : fin.Sublist [.setStatus "Stat", .writeMem (some "mem_writebit") "mem_addr" "mem_input" 8,
      .writeReg "reg_dstE" "reg_inputE", .writeReg "reg_dstM" "reg_inputM"] := by
    rw [← y86_final_actions]
    have hfilter : fin = fin.filter (fun a => !a.isPure) := by
      symm
      apply List.filter_eq_self.mpr
      intro a ha
      simp [hfin a ha]
    rw [hfilter]
    exact hsub.filter _
  obtain ⟨bS, bW, bE, bM, hfinEq⟩ := sublist4 fin _ _ _ _ hsub4
  refine ⟨bW, bE, bM, ?_⟩
  intro s t hex
  rw [hsplit, execActions_append] at hex
  obtain ⟨s₁, hpre, hfinex⟩ := bind_ok hex
  -- the value-writing actions leave registers and memory alone
  have hstable := execPure_stable fl pre s s₁ "" (validFrom_pure pre [] hv) hpre
  have hregs1 : s₁.regs = s.regs ∧ s₁.mem = s.mem := by
    -- any name works for the frame part
    by_cases hx : "" ∉ pre.map Action.out
    · exact (hstable hx).2
    · -- use the general statement on regs/mem through a fold instead
      have : ∀ (acts : List Action) (a b : State), (∀ x ∈ acts, x.isPure = true) → execActions fl acts a = .ok b →
          b.regs = a.regs ∧ b.mem = a.mem := by
        intro acts
        induction acts with
        | nil => intro a b _ hh; simp [execActions, pure, Except.pure] at hh; subst hh; exact ⟨rfl, rfl⟩
        | cons x rest ih =>
          intro a b hp hh
          simp only [execActions] at hh
          obtain ⟨m, h1, h2⟩ := bind_ok hh
          have hx' := hp x List.mem_cons_self
          rw [execAction_pure fl a x hx'] at h1
          obtain ⟨v, _, h3⟩ := bind_ok h1
          simp only [pure, Except.pure, Except.ok.injEq] at h3
          subst h3
          have := ih _ b (fun y hy => hp y (List.mem_cons_of_mem _ hy)) h2
          exact this
      exact this pre s s₁ (validFrom_pure pre [] hv) hpre
  -- the state-changing actions keep the valuation
  have hvals : t.values = s₁.values := execFinal_values fl fin s₁ t hfin hfinex
  rw [hfinEq] at hfinex
  simp only [List.append_assoc] at hfinex
  -- status
  have h1 : ∃ a₁, execActions fl ((if bW = true then [Action.writeMem (some "mem_writebit") "mem_addr" "mem_input" 8] else []) ++
      ((if bE = true then [Action.writeReg "reg_dstE" "reg_inputE"] else []) ++
       (if bM = true then [Action.writeReg "reg_dstM" "reg_inputM"] else []))) a₁ = .ok t ∧
      a₁.values = s₁.values ∧ a₁.regs = s₁.regs ∧ a₁.mem = s₁.mem := by
    obtain ⟨g1, g2⟩ := exec_opt fl bS _ _ s₁ t hfinex
    cases hb : bS with
    | true =>
      obtain ⟨a₁, e1, e2⟩ := g1 hb
      obtain ⟨v1, v2, v3⟩ := setStatus_effect fl s₁ a₁ _ e1
      exact ⟨a₁, e2, v1, v2, v3⟩
    | false => exact ⟨s₁, g2 hb, rfl, rfl, rfl⟩
  obtain ⟨a₁, hx1, hv1, hr1, hm1⟩ := h1
  -- memory write port
  have h2 : ∃ a₂, execActions fl ((if bE = true then [Action.writeReg "reg_dstE" "reg_inputE"] else []) ++
       (if bM = true then [Action.writeReg "reg_dstM" "reg_inputM"] else [])) a₂ = .ok t ∧
      a₂.values = s₁.values ∧ a₂.regs = s₁.regs ∧
      absMem a₂.mem = (if bW = true ∧ bitsOf s₁.values "mem_writebit" ≠ 0 then
          Spec.wrLE (absMem s₁.mem) (bitsOf s₁.values "mem_addr" % 2 ^ 64) (bitsOf s₁.values "mem_input") 8
        else absMem s₁.mem) := by
    obtain ⟨g1, g2⟩ := exec_opt fl bW _ _ a₁ t hx1
    cases hb : bW with
    | true =>
      obtain ⟨a₂, e1, e2⟩ := g1 hb
      obtain ⟨v1, v2, v3⟩ := writeMem_effect fl a₁ a₂ _ _ _ e1
      refine ⟨a₂, e2, v1.trans hv1, v2.trans hr1, ?_⟩
      rw [v3, hv1, hm1]
      simp
    | false =>
      refine ⟨a₁, g2 hb, hv1, hr1, ?_⟩
      rw [hm1]; simp
  obtain ⟨a₂, hx2, hv2, hr2, hm2⟩ := h2
  -- register write port E
  have h3 : ∃ a₃, execActions fl (if bM = true then [Action.writeReg "reg_dstM" "reg_inputM"] else []) a₃ = .ok t ∧
      a₃.values = s₁.values ∧ a₃.mem = a₂.mem ∧
      a₃.regs = (if bE = true then portWrite s₁.regs (bitsOf s₁.values "reg_dstE") (bitsOf s₁.values "reg_inputE") else s₁.regs) := by
    obtain ⟨g1, g2⟩ := exec_opt fl bE _ _ a₂ t hx2
    cases hb : bE with
    | true =>
      obtain ⟨a₃, e1, e2⟩ := g1 hb
      obtain ⟨v1, v2, v3⟩ := writeReg_effect fl a₂ a₃ _ _ e1
      refine ⟨a₃, e2, v1.trans hv2, v2, ?_⟩
      rw [v3, hv2, hr2]; simp
    | false => exact ⟨a₂, g2 hb, hv2, rfl, by rw [hr2]; simp⟩
  obtain ⟨a₃, hx3, hv3, hm3, hr3⟩ := h3
  -- register write port M
  have h4 : t.mem = a₃.mem ∧
      t.regs = (if bM = true then portWrite a₃.regs (bitsOf s₁.values "reg_dstM") (bitsOf s₁.values "reg_inputM") else a₃.regs) := by
    have hx3' : execActions fl ((if bM = true then [Action.writeReg "reg_dstM" "reg_inputM"] else []) ++ []) a₃ = .ok t := by
      simpa using hx3
    obtain ⟨g1, g2⟩ := exec_opt fl bM _ _ a₃ t hx3'
    cases hb : bM with
    | true =>
      obtain ⟨a₄, e1, e2⟩ := g1 hb
      obtain ⟨v1, v2, v3⟩ := writeReg_effect fl a₃ a₄ _ _ e1
      simp only [execActions, pure, Except.pure, Except.ok.injEq] at e2
      subst e2
      exact ⟨v2, by rw [v3, hv3]; simp⟩
    | false =>
      have := g2 hb
      simp only [execActions, pure, Except.pure, Except.ok.injEq] at this
      subst this
      exact ⟨rfl, by simp⟩
  obtain ⟨hm4, hr4⟩ := h4
  constructor
  · rw [hm4, hm3, hm2, hvals, hregs1.2]
  · rw [hr4, hr3, hvals, hregs1.1]
