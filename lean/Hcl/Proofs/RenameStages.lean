import Hcl.Proofs.RenameSort
import Hcl.Proofs.Step1Tables
open Rust

/-! Every stage of `Program.new` commutes with a consistent renaming of the wires (exact equalities, under the
    transported iteration orders `Orders.tr`). -/

/-! ### renaming the run-time structures -/

def Action.rename (π : String → String) : Action → Action
  | .assign name e w => .assign (π name) (e.rename π) w
  | .readReg number out => .readReg (π number) (π out)
  | .readMem isRead address out bytes isI => .readMem (isRead.map π) (π address) (π out) bytes isI
  | .writeReg number inp => .writeReg (π number) (π inp)
  | .writeMem isWrite address inp bytes => .writeMem (isWrite.map π) (π address) (π inp) bytes
  | .setStatus inWire => .setStatus (π inWire)

def FixedFunction.rename (π : String → String) (f : FixedFunction) : FixedFunction :=
  { name := f.name, inWires := f.inWires.map fun w => (π w.1, w.2), outWire := f.outWire.map fun w => (π w.1, w.2),
    disabledIfFalse := f.disabledIfFalse.map π, action := f.action.rename π, mandatory := f.mandatory }

def RegisterBank.rename (π : String → String) (b : RegisterBank) : RegisterBank :=
  { label := b.label, signals := b.signals.map fun sg => (π sg.1, π sg.2.1, sg.2.2), defaults := b.defaults.rn π id,
    stall := π b.stall, bubble := π b.bubble }

def Program.rename (π : String → String) (p : Program) : Program :=
  { constants := p.constants.rn π id, actions := p.actions.map (Action.rename π), banks := p.banks.map (RegisterBank.rename π),
    defaulted := p.defaulted.map π, wireTypes := p.wireTypes.rn π id }

/-- every name in the table of built-in components is left alone -/
def FixedOK (π : String → String) (fixed : List FixedFunction) : Prop := ∀ f ∈ fixed, f.rename π = f

/-! ### small facts -/

theorem map_fixed {π : String → String} (L : List String) (hL : ∀ n ∈ L, π n = n) : L.map π = L := by
  induction L with
  | nil => rfl
  | cons a L ih =>
    rw [List.map_cons, hL a List.mem_cons_self, ih (fun n hn => hL n (List.mem_cons_of_mem _ hn))]

theorem contains_fixed {π : String → String} (hi : Inj π) (L : List String) (hL : ∀ n ∈ L, π n = n) (n : String) :
    L.contains (π n) = L.contains n := by
  have := contains_map_inj hi L n
  rwa [map_fixed L hL] at this

theorem map_ite {α β : Type} (f : α → β) (c : Prop) [Decidable c] (a b : α) : f (if c then a else b) = if c then f a else f b := by
  split <;> rfl

/-! ### step 1 -/

def Step1.rename (π : String → String) (s : Step1) : Step1 :=
  { constantsRaw := s.constantsRaw.rn π (Ex.rename π), wires := s.wires.rn π id, declared := s.declared.map π,
    assigned := s.assigned.map π, needed := s.needed.map π, assignments := s.assignments.rn π (Ex.rename π),
    banksRaw := s.banksRaw.map (BankDecl.rename π), wireTypes := s.wireTypes.rn π id,
    errors := s.errors.map (Diag.rename π) }

theorem checkDoubleDeclare_rename {π : String → String} (hi : Inj π) (FN : List String) (hFN : ∀ n ∈ FN, π n = n)
    (s : Step1) (name : String) :
    checkDoubleDeclare FN (s.rename π) (π name) = (checkDoubleDeclare FN s name).rename π := by
  simp only [checkDoubleDeclare, Step1.rename, contains_map_inj hi, contains_fixed hi FN hFN, setInsert_map hi,
    List.map_append, map_ite (List.map (Diag.rename π))]
  rfl

theorem step1Const_rename {π : String → String} (hi : Inj π) (FN : List String) (hFN : ∀ n ∈ FN, π n = n)
    (s : Step1) (d : ConstDecl) :
    step1Const FN (s.rename π) { d with name := π d.name, value := d.value.rename π } = (step1Const FN s d).rename π := by
  unfold step1Const
  simp only [checkDoubleDeclare_rename hi FN hFN]
  simp only [Step1.rename, AMap.rn_insert hi]
  rfl

theorem step1Wire_rename {π : String → String} (hi : Inj π) (FN : List String) (hFN : ∀ n ∈ FN, π n = n)
    (s : Step1) (d : WireDecl) :
    step1Wire FN (s.rename π) { d with name := π d.name } = (step1Wire FN s d).rename π := by
  unfold step1Wire
  simp only [checkDoubleDeclare_rename hi FN hFN]
  simp only [Step1.rename, AMap.rn_insert hi, setInsert_map hi]
  rfl

theorem step1Name_rename {π : String → String} (hi : Inj π) (FO : List String) (hFO : ∀ n ∈ FO, π n = n)
    (value : Ex) (s : Step1) (name : String) :
    step1Name FO (value.rename π) (s.rename π) (π name) = (step1Name FO value s name).rename π := by
  simp only [step1Name, Step1.rename, contains_map_inj hi, contains_fixed hi FO hFO, setInsert_map hi,
    List.map_append, map_ite (List.map (Diag.rename π)), AMap.rn_insert hi]
  rfl

theorem step1Assign_rename {π : String → String} (hi : Inj π) (FO : List String) (hFO : ∀ n ∈ FO, π n = n)
    (s : Step1) (a : Assignment) :
    step1Assign FO (s.rename π) { a with names := a.names.map π, value := a.value.rename π } = (step1Assign FO s a).rename π := by
  unfold step1Assign
  simp only []
  generalize a.names = l
  induction l generalizing s with
  | nil => rfl
  | cons n l ih => simp only [List.map_cons, List.foldl_cons, step1Name_rename hi FO hFO, ih]

theorem step1Stmt_rename {π : String → String} (hi : Inj π) (FN FO : List String) (hFN : ∀ n ∈ FN, π n = n)
    (hFO : ∀ n ∈ FO, π n = n) (s : Step1) (st : Stmt) :
    step1Stmt FN FO (s.rename π) (st.rename π) = (step1Stmt FN FO s st).rename π := by
  cases st with
  | consts ds =>
    simp only [Stmt.rename, step1Stmt]
    induction ds generalizing s with
    | nil => rfl
    | cons d ds ih => simp only [List.map_cons, List.foldl_cons, step1Const_rename hi FN hFN, ih]
  | wires ds =>
    simp only [Stmt.rename, step1Stmt]
    induction ds generalizing s with
    | nil => rfl
    | cons d ds ih => simp only [List.map_cons, List.foldl_cons, step1Wire_rename hi FN hFN, ih]
  | assigns as =>
    simp only [Stmt.rename, step1Stmt]
    induction as generalizing s with
    | nil => rfl
    | cons d ds ih => simp only [List.map_cons, List.foldl_cons, step1Assign_rename hi FO hFO, ih]
  | bank b =>
    simp only [Stmt.rename, step1Stmt, Step1.rename, List.map_append, List.map_cons, List.map_nil]
    rfl

theorem step1_fold_rename {π : String → String} (hi : Inj π) (FN FO : List String) (hFN : ∀ n ∈ FN, π n = n)
    (hFO : ∀ n ∈ FO, π n = n) (stmts : List Stmt) (s : Step1) :
    (stmts.map (Stmt.rename π)).foldl (step1Stmt FN FO) (s.rename π) = (stmts.foldl (step1Stmt FN FO) s).rename π := by
  induction stmts generalizing s with
  | nil => rfl
  | cons st rest ih => simp only [List.map_cons, List.foldl_cons, step1Stmt_rename hi FN FO hFN hFO, ih]

theorem of_map_eq_self {α : Type} (g : α → α) : ∀ (l : List α), l.map g = l → ∀ x ∈ l, g x = x
  | [], _, x, hx => by cases hx
  | a :: l, h, x, hx => by
    simp only [List.map_cons, List.cons.injEq] at h
    rcases List.mem_cons.mp hx with rfl | hx
    · exact h.1
    · exact of_map_eq_self g l h.2 x hx

theorem FixedOK.inW {π : String → String} {fixed : List FixedFunction} (h : FixedOK π fixed) :
    ∀ f ∈ fixed, ∀ w ∈ f.inWires, π w.1 = w.1 := by
  intro f hf w hw
  have := congrArg FixedFunction.inWires (h f hf)
  simp only [FixedFunction.rename] at this
  have := of_map_eq_self _ _ this w hw
  exact congrArg Prod.fst this

theorem FixedOK.inNames {π : String → String} {fixed : List FixedFunction} (h : FixedOK π fixed) :
    ∀ f ∈ fixed, (f.inWires.map (·.1)).map π = f.inWires.map (·.1) := by
  intro f hf
  apply map_fixed
  intro n hn
  obtain ⟨w, hw, rfl⟩ := List.mem_map.mp hn
  exact h.inW f hf w hw

theorem FixedOK.outW {π : String → String} {fixed : List FixedFunction} (h : FixedOK π fixed) :
    ∀ f ∈ fixed, ∀ n w, f.outWire = some (n, w) → π n = n := by
  intro f hf n w ho
  have := congrArg FixedFunction.outWire (h f hf)
  simp only [FixedFunction.rename, ho, Option.map_some, Option.some.injEq, Prod.mk.injEq] at this
  exact this.1

theorem FixedOK.dis {π : String → String} {fixed : List FixedFunction} (h : FixedOK π fixed) :
    ∀ f ∈ fixed, ∀ n, f.disabledIfFalse = some n → π n = n := by
  intro f hf n ho
  have := congrArg FixedFunction.disabledIfFalse (h f hf)
  simp only [FixedFunction.rename, ho, Option.map_some, Option.some.injEq] at this
  exact this

theorem FixedOK.act {π : String → String} {fixed : List FixedFunction} (h : FixedOK π fixed) :
    ∀ f ∈ fixed, f.action.rename π = f.action := by
  intro f hf
  exact congrArg FixedFunction.action (h f hf)

theorem FixedOK.names {π : String → String} {fixed : List FixedFunction} (h : FixedOK π fixed) :
    ∀ n ∈ fixedNamesOf fixed, π n = n := by
  intro n hn
  unfold fixedNamesOf at hn
  rw [mem_dedupS, List.mem_flatMap] at hn
  obtain ⟨f, hf, hn⟩ := hn
  rcases List.mem_append.mp hn with hn | hn
  · obtain ⟨w, hw, rfl⟩ := List.mem_map.mp hn
    exact h.inW f hf w hw
  · cases ho : f.outWire with
    | none => rw [ho] at hn; cases hn
    | some p =>
      obtain ⟨m, w⟩ := p
      rw [ho] at hn
      simp only [List.mem_singleton] at hn
      subst hn
      exact h.outW f hf n w ho

theorem FixedOK.outs {π : String → String} {fixed : List FixedFunction} (h : FixedOK π fixed) :
    ∀ n ∈ fixed.filterMap (fun f => f.outWire.map (·.1)), π n = n := by
  intro n hn
  obtain ⟨f, hf, ho⟩ := List.mem_filterMap.mp hn
  cases ho' : f.outWire with
  | none => rw [ho'] at ho; cases ho
  | some p =>
    obtain ⟨m, w⟩ := p
    rw [ho'] at ho
    simp only [Option.map_some, Option.some.injEq] at ho
    subst ho
    exact h.outW f hf m w ho'

theorem step1Init_inner_rename {π : String → String} (hi : Inj π) (l : List (String × Nat)) (hl : ∀ w ∈ l, π w.1 = w.1)
    (s : Step1) :
    (l.foldl (fun s (w : String × Nat) =>
      { s with wireTypes := s.wireTypes.insert w.1 .builtinInput, wires := s.wires.insert w.1 (.bits w.2) }) s).rename π =
    l.foldl (fun s (w : String × Nat) =>
      { s with wireTypes := s.wireTypes.insert w.1 .builtinInput, wires := s.wires.insert w.1 (.bits w.2) }) (s.rename π) := by
  induction l generalizing s with
  | nil => rfl
  | cons w l ih =>
    simp only [List.foldl_cons]
    rw [ih (fun x hx => hl x (List.mem_cons_of_mem _ hx))]
    congr 1
    simp only [Step1.rename, AMap.rn_insert hi, hl w List.mem_cons_self]
    rfl

theorem step1Init_rename_aux {π : String → String} (hi : Inj π) (fixed : List FixedFunction) (h : FixedOK π fixed) (s : Step1) :
    (fixed.foldl (fun s f =>
      let s := f.inWires.foldl (fun s (w : String × Nat) =>
        { s with wireTypes := s.wireTypes.insert w.1 .builtinInput, wires := s.wires.insert w.1 (.bits w.2) }) s
      match f.outWire with
      | some (n, w) => { s with wireTypes := s.wireTypes.insert n .builtinOutput, wires := s.wires.insert n (.bits w) }
      | none => s) s).rename π =
    fixed.foldl (fun s f =>
      let s := f.inWires.foldl (fun s (w : String × Nat) =>
        { s with wireTypes := s.wireTypes.insert w.1 .builtinInput, wires := s.wires.insert w.1 (.bits w.2) }) s
      match f.outWire with
      | some (n, w) => { s with wireTypes := s.wireTypes.insert n .builtinOutput, wires := s.wires.insert n (.bits w) }
      | none => s) (s.rename π) := by
  induction fixed generalizing s with
  | nil => rfl
  | cons f rest ih =>
    simp only [List.foldl_cons]
    rw [ih (fun g hg => h g (List.mem_cons_of_mem _ hg))]
    congr 1
    have hin := h.inW f List.mem_cons_self
    have hout := h.outW f List.mem_cons_self
    cases ho : f.outWire with
    | none => simp only []; exact step1Init_inner_rename hi f.inWires hin s
    | some p =>
      obtain ⟨n, w⟩ := p
      simp only []
      rw [← step1Init_inner_rename hi f.inWires hin s]
      simp only [Step1.rename, AMap.rn_insert hi, hout n w ho]
      rfl

theorem step1Init_rename {π : String → String} (hi : Inj π) (fixed : List FixedFunction) (h : FixedOK π fixed) :
    (step1Init fixed).rename π = step1Init fixed := by
  exact step1Init_rename_aux hi fixed h {}

/-! ### the checks after step 1 -/

theorem flatMap_map_rename {α β γ δ : Type} (f : α → β) (h : γ → δ) (g : α → List γ) (g' : β → List δ) (l : List α)
    (hg : ∀ a ∈ l, g' (f a) = (g a).map h) : (l.map f).flatMap g' = (l.flatMap g).map h := by
  induction l with
  | nil => rfl
  | cons a l ih =>
    simp only [List.map_cons, List.flatMap_cons, List.map_append]
    rw [hg a List.mem_cons_self, ih (fun x hx => hg x (List.mem_cons_of_mem _ hx))]

theorem constRefErrors_rename {π : String → String} (hi : Inj π) (s : Step1) :
    constRefErrors (s.rename π) = (constRefErrors s).map (Diag.rename π) := by
  unfold constRefErrors
  simp only [Step1.rename, AMap.rn]
  apply flatMap_map_rename
  intro p _
  simp only [refs_rename, dedupS_map hi]
  apply flatMap_map_rename
  intro n _
  have h1 := AMap.rn_contains hi (Ex.rename π) s.constantsRaw n
  have h2 := AMap.rn_contains hi (id : Width → Width) s.wires n
  simp only [AMap.rn] at h1 h2
  simp only [h1, h2, occurrences_rename hi]
  split
  · simp only [List.map_replicate]; rfl
  · split
    · simp only [List.map_replicate]; rfl
    · rfl

theorem assignedConst_rename {π : String → String} (hi : Inj π) (s : Step1) :
    ((s.rename π).assigned.flatMap fun n =>
      if (s.rename π).constantsRaw.contains n then [(⟨.AssignedConstant, [n]⟩ : Diag)] else []) =
    (s.assigned.flatMap fun n => if s.constantsRaw.contains n then [(⟨.AssignedConstant, [n]⟩ : Diag)] else []).map
      (Diag.rename π) := by
  simp only [Step1.rename]
  apply flatMap_map_rename
  intro n _
  simp only [AMap.rn_contains hi]
  split <;> rfl

/-! ### `resolve_constants` -/

theorem widths_toCtx_rename {π : String → String} (hi : Inj π) (res : AMap WireValue) (n : String) :
    AMap.toCtx ((res.rn π id).map fun p => (p.1, p.2.width)) (π n) = AMap.toCtx (res.map fun p => (p.1, p.2.width)) n := by
  have : ((res.rn π id).map fun p => (p.1, p.2.width)) = AMap.rn π id (res.map fun p => (p.1, p.2.width)) := by
    simp [AMap.rn, List.map_map, Function.comp_def]
  rw [this, AMap.rn_toCtx hi]

theorem resolveLoop_rename {π : String → String} (hi : Inj π) (fl : Flags) (exprs : AMap Ex) :
    ∀ (names : List String) (res : AMap WireValue) (errs : List Diag),
    resolveLoop fl (exprs.rn π (Ex.rename π)) (names.map π) (res.rn π id) (errs.map (Diag.rename π)) =
      ((resolveLoop fl exprs names res errs).1.rn π id, (resolveLoop fl exprs names res errs).2.map (Diag.rename π))
  | [], res, errs => rfl
  | name :: rest, res, errs => by
    simp only [List.map_cons, resolveLoop, AMap.rn_get? hi]
    cases hg : exprs.get? name with
    | none => simp only [Option.map_none, List.map_append, panicDiag_rename]
    | some e =>
      simp only [Option.map_some]
      rw [checkFixEval_rename π fl _ _ _ _ (widths_toCtx_rename hi res) (AMap.rn_toEnv hi res) e]
      cases checkFixEval fl (AMap.toCtx (res.map fun p => (p.1, p.2.width))) res.toEnv e with
      | ok v =>
        simp only [crn, id]
        have := AMap.rn_insert hi (id : WireValue → WireValue) res name v
        simp only [id] at this
        rw [← this]
        exact resolveLoop_rename hi fl exprs rest _ errs
      | error ds =>
        simp only [crn]
        rw [← List.map_append]
        exact resolveLoop_rename hi fl exprs rest res _

theorem canonConsts_rename {π : String → String} (hi : Inj π) (exprs : AMap Ex) (res : AMap WireValue) :
    canonConsts (exprs.rn π (Ex.rename π)) (res.rn π id) = (canonConsts exprs res).rn π id := by
  unfold canonConsts
  induction exprs with
  | nil => rfl
  | cons p rest ih =>
    simp only [AMap.rn, List.map_cons, List.filterMap_cons] at ih ⊢
    have := AMap.rn_get? hi (id : WireValue → WireValue) res p.1
    simp only [AMap.rn] at this
    rw [this]
    cases res.get? p.1 with
    | none => simp only [Option.map_none]; exact ih
    | some v => simp only [Option.map_some, List.map_cons, id] at ih ⊢; rw [ih]

theorem resolveConstants_rename {π π' : String → String} (hl : ∀ n, π' (π n) = n) (hr : ∀ n, π (π' n) = n)
    (fl : Flags) (o : Orders) (exprs : AMap Ex) :
    resolveConstants fl (o.tr π π') (exprs.rn π (Ex.rename π)) = crn π (AMap.rn π id) (resolveConstants fl o exprs) := by
  have hi := inj_of_left hl
  unfold resolveConstants
  rw [constGraph_rename hi, GBuild.sort_rename hl hr]
  cases (constGraph exprs).sort o with
  | ok sorted =>
    simp only [SortResult.rename]
    have := resolveLoop_rename hi fl exprs sorted [] []
    simp only [List.map_nil] at this
    have h0 : AMap.rn π id ([] : AMap WireValue) = [] := rfl
    rw [h0] at this
    rw [this]
    simp only [List.isEmpty_map]
    split
    · simp only [crn, canonConsts_rename hi]
    · rfl
  | cycle c => rfl
  | panic => rfl

/-! ### step 3: the register banks -/

def BankAcc.rename (π : String → String) (a : BankAcc) : BankAcc :=
  { signals := a.signals.map fun sg => (π sg.1, π sg.2.1, sg.2.2), defaults := a.defaults.rn π id }

def Step3.rename (π : String → String) (s : Step3) : Step3 :=
  { banks := s.banks.map (RegisterBank.rename π), errors := s.errors.map (Diag.rename π),
    seenRegisters := s.seenRegisters.map π, defaulted := s.defaulted.map π, wireTypes := s.wireTypes.rn π id,
    registerIns := s.registerIns.map π }

theorem regPre_e1_rename {π : String → String} (hi : Inj π) (wires : AMap Width) (constants : AMap WireValue) (e : Ex) :
    ((dedupS (refs (e.rename π))).flatMap fun n =>
      if (wires.rn π id).contains n && !(constants.rn π id).contains n then
        List.replicate (occurrences (e.rename π) n) (⟨.NonConstantWireRead, [n]⟩ : Diag) else []) =
    ((dedupS (refs e)).flatMap fun n =>
      if wires.contains n && !constants.contains n then
        List.replicate (occurrences e n) (⟨.NonConstantWireRead, [n]⟩ : Diag) else []).map (Diag.rename π) := by
  rw [refs_rename, dedupS_map hi]
  apply flatMap_map_rename
  intro n _
  simp only [AMap.rn_contains hi, occurrences_rename hi]
  split
  · simp only [List.map_replicate]; rfl
  · rfl

theorem seen_map_ite (π : String → String) (c : Prop) [Decidable c] (seen : List String) (k : String) :
    (if c then seen.map π else seen.map π ++ [π k]) = (if c then seen else seen ++ [k]).map π := by
  split <;> simp

theorem regPre_rename {π : String → String} (hi : Inj π) (s1 : Step1) (constants : AMap WireValue) (bank inName outName : String)
    (acc : BankAcc) (seen : List String) (r : RegDecl) :
    regPre (s1.rename π) (constants.rn π id) bank (π inName) (π outName) (acc.rename π) (seen.map π) (r.rename π) =
      ((regPre s1 constants bank inName outName acc seen r).1.map (Diag.rename π),
       (regPre s1 constants bank inName outName acc seen r).2.map π) := by
  have e1 := regPre_e1_rename hi s1.wires constants r.default
  simp only [regPre, Step1.rename, BankAcc.rename, RegDecl.rename, List.flatMap_cons, List.flatMap_nil,
    contains_map_inj hi, AMap.rn_contains hi, List.append_nil, seen_map_ite, Prod.mk.injEq]
  refine ⟨?_, ?_⟩
  · erw [e1]
    simp only [List.map_append, map_ite (List.map (Diag.rename π))]
    rfl
  · trivial

theorem regEval_rename {π : String → String} (hi : Inj π) (fl : Flags) (constants : AMap WireValue) (bank inName outName : String)
    (s : Step3) (acc : BankAcc) (r : RegDecl) :
    regEval fl (constants.rn π id) bank (π inName) (π outName) (s.rename π) (acc.rename π) (r.rename π) =
      ((regEval fl constants bank inName outName s acc r).1.rename π,
       (regEval fl constants bank inName outName s acc r).2.rename π) := by
  unfold regEval
  simp only [RegDecl.rename]
  rw [checkFixEval_rename π fl _ _ _ _ (widths_toCtx_rename hi constants) (AMap.rn_toEnv hi constants) r.default]
  cases checkFixEval fl (AMap.toCtx (constants.map fun p => (p.1, p.2.width))) constants.toEnv r.default with
  | error ds => simp only [crn, Step3.rename, List.map_append]
  | ok value =>
    simp only [crn, id]
    cases asWidth value r.width with
    | error e =>
      simp only [Step3.rename, List.map_append, panicDiag_rename]
      cases value.width.combine r.width <;> rfl
    | ok dv =>
      simp only [Step3.rename, BankAcc.rename, List.map_append, List.map_cons, List.map_nil, AMap.rn_insert hi, id]
      cases value.width.combine r.width <;> rfl

/-- `step3Register` with the two signal names as parameters -/
def step3RegisterBody (fl : Flags) (s1 : Step1) (constants : AMap WireValue) (bank inName outName : String)
    (st : Step3 × BankAcc) (r : RegDecl) : Step3 × BankAcc :=
  let s := { st.1 with wireTypes := (st.1.wireTypes.insert inName .bankInput).insert outName .bankOutput }
  let pre := regPre s1 constants bank inName outName st.2 s.seenRegisters r
  let s := { s with seenRegisters := pre.2, errors := s.errors ++ pre.1 }
  if !pre.1.isEmpty then (s, st.2) else regEval fl constants bank inName outName s st.2 r

theorem step3Register_eq_body (fl : Flags) (s1 : Step1) (constants : AMap WireValue) (bank : String) (inP outP : Char)
    (st : Step3 × BankAcc) (r : RegDecl) :
    step3Register fl s1 constants bank inP outP st r =
      step3RegisterBody fl s1 constants bank (String.ofList [inP, '_'] ++ r.name) (String.ofList [outP, '_'] ++ r.name) st r := rfl

theorem step3RegisterBody_rename {π : String → String} (hi : Inj π) (fl : Flags) (s1 : Step1) (constants : AMap WireValue)
    (bank inName outName : String) (st : Step3 × BankAcc) (r : RegDecl) :
    step3RegisterBody fl (s1.rename π) (constants.rn π id) bank (π inName) (π outName) (st.1.rename π, st.2.rename π)
        (r.rename π) =
      ((step3RegisterBody fl s1 constants bank inName outName st r).1.rename π,
       (step3RegisterBody fl s1 constants bank inName outName st r).2.rename π) := by
  obtain ⟨s, acc⟩ := st
  unfold step3RegisterBody
  simp only []
  have hpre := regPre_rename hi s1 constants bank inName outName acc s.seenRegisters r
  have hsr : (s.rename π).seenRegisters = s.seenRegisters.map π := rfl
  rw [hsr, hpre]
  simp only [List.isEmpty_map]
  split
  · simp only [Step3.rename, List.map_append, AMap.rn_insert hi, id]
  · have := regEval_rename hi fl constants bank inName outName
      { s with wireTypes := (s.wireTypes.insert inName .bankInput).insert outName .bankOutput,
               seenRegisters := (regPre s1 constants bank inName outName acc s.seenRegisters r).2,
               errors := s.errors ++ (regPre s1 constants bank inName outName acc s.seenRegisters r).1 } acc r
    rw [← this]
    congr 1
    simp only [Step3.rename, List.map_append, AMap.rn_insert hi, id]

theorem step3Register_rename {π : String → String} (hi : Inj π) (fl : Flags) (s1 : Step1) (constants : AMap WireValue)
    (bank : String) (inP outP : Char) (st : Step3 × BankAcc) (r : RegDecl)
    (hin : π (String.ofList [inP, '_'] ++ r.name) = String.ofList [inP, '_'] ++ r.name)
    (hout : π (String.ofList [outP, '_'] ++ r.name) = String.ofList [outP, '_'] ++ r.name) :
    step3Register fl (s1.rename π) (constants.rn π id) bank inP outP (st.1.rename π, st.2.rename π) (r.rename π) =
      ((step3Register fl s1 constants bank inP outP st r).1.rename π,
       (step3Register fl s1 constants bank inP outP st r).2.rename π) := by
  rw [step3Register_eq_body, step3Register_eq_body, ← step3RegisterBody_rename hi]
  have hn : (r.rename π).name = r.name := rfl
  rw [hn, hin, hout]

theorem step3Regs_fold_rename {π : String → String} (hi : Inj π) (fl : Flags) (s1 : Step1) (constants : AMap WireValue)
    (bank : String) (inP outP : Char) :
    ∀ (regs : List RegDecl) (st : Step3 × BankAcc),
    (∀ r ∈ regs, π (String.ofList [inP, '_'] ++ r.name) = String.ofList [inP, '_'] ++ r.name ∧
      π (String.ofList [outP, '_'] ++ r.name) = String.ofList [outP, '_'] ++ r.name) →
    (regs.map (RegDecl.rename π)).foldl (step3Register fl (s1.rename π) (constants.rn π id) bank inP outP)
        (st.1.rename π, st.2.rename π) =
      ((regs.foldl (step3Register fl s1 constants bank inP outP) st).1.rename π,
       (regs.foldl (step3Register fl s1 constants bank inP outP) st).2.rename π)
  | [], _, _ => rfl
  | r :: rest, st, h => by
    simp only [List.map_cons, List.foldl_cons]
    rw [step3Register_rename hi fl s1 constants bank inP outP st r (h r List.mem_cons_self).1 (h r List.mem_cons_self).2]
    exact step3Regs_fold_rename hi fl s1 constants bank inP outP rest _ (fun x hx => h x (List.mem_cons_of_mem _ hx))

/-- the state in which `step3Bank` starts on the registers of a bank -/
def step3BankStart (s1 : Step1) (s : Step3) (stall bubble : String) : Step3 :=
  let e0 : List Diag := [stall, bubble].flatMap fun n => if s1.declared.contains n then [⟨.RedeclaredWire, [n]⟩] else []
  let d := if s1.assignments.contains stall then s.defaulted else setInsert s.defaulted stall
  let d := if s1.assignments.contains bubble then d else setInsert d bubble
  { s with errors := s.errors ++ e0, defaulted := d,
           wireTypes := (s.wireTypes.insert stall .bankSpecial).insert bubble .bankSpecial }

/-- the accepted-name branch of `step3Bank` with the two control-signal names as parameters -/
def step3BankBody (fl : Flags) (s1 : Step1) (constants : AMap WireValue) (s : Step3) (b : BankDecl) (inP outP : Char)
    (stall bubble : String) : Step3 :=
  let t := b.regs.foldl (step3Register fl s1 constants b.name inP outP) (step3BankStart s1 s stall bubble, {})
  { t.1 with banks := t.1.banks ++ [{ label := b.name, signals := t.2.signals, defaults := t.2.defaults, stall := stall, bubble := bubble }] }

theorem step3Bank_two (fl : Flags) (cls : CharClass) (s1 : Step1) (constants : AMap WireValue) (s : Step3) (b : BankDecl)
    (inP outP : Char) (h : b.name.toList = [inP, outP]) :
    step3Bank fl cls s1 constants s b =
      if !cls.isLower inP || !cls.isUpper outP then { s with errors := s.errors ++ [⟨.InvalidRegisterBankName, [b.name]⟩] }
      else step3BankBody fl s1 constants s b inP outP ("stall_" ++ String.ofList [outP]) ("bubble_" ++ String.ofList [outP]) := by
  unfold step3Bank
  rw [h]
  rfl

theorem step3Bank_other (fl : Flags) (cls : CharClass) (s1 : Step1) (constants : AMap WireValue) (s : Step3) (b : BankDecl)
    (h : ∀ inP outP, b.name.toList ≠ [inP, outP]) :
    step3Bank fl cls s1 constants s b = { s with errors := s.errors ++ [⟨.InvalidRegisterBankName, [b.name]⟩] } := by
  unfold step3Bank
  split
  · rename_i inP outP heq
    exact absurd heq (h inP outP)
  · rfl

theorem step3BankStart_rename {π : String → String} (hi : Inj π) (s1 : Step1) (s : Step3) (stall bubble : String) :
    step3BankStart (s1.rename π) (s.rename π) (π stall) (π bubble) = (step3BankStart s1 s stall bubble).rename π := by
  simp only [step3BankStart, Step3.rename, Step1.rename, List.map_append, AMap.rn_insert hi, AMap.rn_contains hi,
    contains_map_inj hi, List.flatMap_cons, List.flatMap_nil, map_ite (List.map (Diag.rename π)), ← map_ite (List.map π),
    setInsert_map hi, id, List.append_nil]
  rfl

theorem step3BankBody_rename {π : String → String} (hi : Inj π) (fl : Flags) (s1 : Step1) (constants : AMap WireValue)
    (s : Step3) (b : BankDecl) (inP outP : Char) (stall bubble : String)
    (hregs : ∀ r ∈ b.regs, π (String.ofList [inP, '_'] ++ r.name) = String.ofList [inP, '_'] ++ r.name ∧
      π (String.ofList [outP, '_'] ++ r.name) = String.ofList [outP, '_'] ++ r.name) :
    step3BankBody fl (s1.rename π) (constants.rn π id) (s.rename π) (b.rename π) inP outP (π stall) (π bubble) =
      (step3BankBody fl s1 constants s b inP outP stall bubble).rename π := by
  unfold step3BankBody
  simp only []
  have hb : (b.rename π).regs = b.regs.map (RegDecl.rename π) := rfl
  have hbn : (b.rename π).name = b.name := rfl
  have h0 : (({} : BankAcc).rename π) = {} := rfl
  rw [hb, hbn, step3BankStart_rename hi]
  have := step3Regs_fold_rename hi fl s1 constants b.name inP outP b.regs (step3BankStart s1 s stall bubble, {}) hregs
  simp only [h0] at this
  rw [this]
  simp only [Step3.rename, List.map_append, List.map_cons, List.map_nil, RegisterBank.rename, BankAcc.rename]

/-- `π` leaves alone the signal names `step3Bank` constructs for the bank `b` -/
def BankFixes (π : String → String) (b : BankDecl) : Prop :=
  ∀ inP outP, b.name.toList = [inP, outP] →
    (∀ r ∈ b.regs, π (String.ofList [inP, '_'] ++ r.name) = String.ofList [inP, '_'] ++ r.name ∧
      π (String.ofList [outP, '_'] ++ r.name) = String.ofList [outP, '_'] ++ r.name) ∧
    π ("stall_" ++ String.ofList [outP]) = "stall_" ++ String.ofList [outP] ∧
    π ("bubble_" ++ String.ofList [outP]) = "bubble_" ++ String.ofList [outP]

theorem step3Bank_rename {π : String → String} (hi : Inj π) (fl : Flags) (cls : CharClass) (s1 : Step1)
    (constants : AMap WireValue) (s : Step3) (b : BankDecl) (hb : BankFixes π b) :
    step3Bank fl cls (s1.rename π) (constants.rn π id) (s.rename π) (b.rename π) =
      (step3Bank fl cls s1 constants s b).rename π := by
  have hbn : (b.rename π).name = b.name := rfl
  by_cases h : ∃ inP outP, b.name.toList = [inP, outP]
  · obtain ⟨inP, outP, h⟩ := h
    obtain ⟨hregs, hst, hbu⟩ := hb inP outP h
    rw [step3Bank_two fl cls _ _ _ _ inP outP (by rw [hbn]; exact h), step3Bank_two fl cls _ _ _ _ inP outP h]
    split
    · simp only [Step3.rename, List.map_append, List.map_cons, List.map_nil, hbn]
      rfl
    · rw [← step3BankBody_rename hi fl s1 constants s b inP outP _ _ hregs, hst, hbu]
  · have h' : ∀ inP outP, b.name.toList ≠ [inP, outP] := fun inP outP e => h ⟨inP, outP, e⟩
    rw [step3Bank_other fl cls _ _ _ _ (by rw [hbn]; exact h'), step3Bank_other fl cls _ _ _ _ h']
    simp only [Step3.rename, List.map_append, List.map_cons, List.map_nil, hbn]
    rfl

theorem step3_fold_rename {π : String → String} (hi : Inj π) (fl : Flags) (cls : CharClass) (s1 : Step1)
    (constants : AMap WireValue) :
    ∀ (banks : List BankDecl) (s : Step3), (∀ b ∈ banks, BankFixes π b) →
    (banks.map (BankDecl.rename π)).foldl (step3Bank fl cls (s1.rename π) (constants.rn π id)) (s.rename π) =
      (banks.foldl (step3Bank fl cls s1 constants) s).rename π
  | [], _, _ => rfl
  | b :: rest, s, h => by
    simp only [List.map_cons, List.foldl_cons]
    rw [step3Bank_rename hi fl cls s1 constants s b (h b List.mem_cons_self)]
    exact step3_fold_rename hi fl cls s1 constants rest _ (fun x hx => h x (List.mem_cons_of_mem _ hx))

/-! ### the tables handed to `assignments_to_actions` -/

theorem insertAll_rename {α : Type} {π : String → String} (hi : Inj π) (pairs : List (String × α)) (m : AMap α) :
    insertAll (m.rn π id) (pairs.map fun p => (π p.1, p.2)) = (insertAll m pairs).rn π id := by
  unfold insertAll
  induction pairs generalizing m with
  | nil => rfl
  | cons p rest ih =>
    simp only [List.map_cons, List.foldl_cons]
    have := AMap.rn_insert hi (id : α → α) m p.1 p.2
    simp only [id] at this
    rw [← this, ih]

theorem bankPairs_rename (π : String → String) (banks : List RegisterBank) :
    bankPairs (banks.map (RegisterBank.rename π)) = (bankPairs banks).map fun p => (π p.1, p.2) := by
  unfold bankPairs
  induction banks with
  | nil => rfl
  | cons b rest ih =>
    simp only [List.map_cons, List.flatMap_cons, List.map_append, ih]
    congr 1
    simp only [RegisterBank.rename, List.map_nil]
    congr 1
    generalize b.signals = sigs
    induction sigs with
    | nil => rfl
    | cons sg sigs ih2 => simp only [List.map_cons, List.flatMap_cons, List.map_append, ih2, List.map_nil]

theorem bankOuts_rename (π : String → String) (banks : List RegisterBank) :
    bankOuts (banks.map (RegisterBank.rename π)) = (bankOuts banks).map π := by
  unfold bankOuts
  induction banks with
  | nil => rfl
  | cons b rest ih =>
    simp only [List.map_cons, List.flatMap_cons, List.map_append, ih]
    simp [RegisterBank.rename, List.map_map, Function.comp_def]

theorem bankIns_rename (π : String → String) (banks : List RegisterBank) :
    bankIns (banks.map (RegisterBank.rename π)) = (bankIns banks).map π := by
  unfold bankIns
  induction banks with
  | nil => rfl
  | cons b rest ih =>
    simp only [List.map_cons, List.flatMap_cons, List.map_append, ih]
    simp [RegisterBank.rename, List.map_map, Function.comp_def]

theorem constPairs_rename {π : String → String} (hi : Inj π) (keys : List String) (constants : AMap WireValue) :
    constPairs (keys.map π) (constants.rn π id) = (constPairs keys constants).map fun p => (π p.1, p.2) := by
  unfold constPairs
  induction keys with
  | nil => rfl
  | cons k rest ih =>
    simp only [List.map_cons, List.filterMap_cons, AMap.rn_get? hi]
    cases constants.get? k with
    | none => simp only [Option.map_none]; exact ih
    | some v => simp only [Option.map_some, id, List.map_cons, ih]

/-! ### `preprocess_fixed` -/

def FixedInfo.rename (π : String → String) (i : FixedInfo) : FixedInfo :=
  { byOutput := i.byOutput.rn π (FixedFunction.rename π), noOutput := i.noOutput.map (FixedFunction.rename π) }

def PreState.rename (π : String → String) (st : PreState) : PreState :=
  { graph := st.graph.rename π, info := st.info.rename π, errors := st.errors.map (Diag.rename π) }

def preAddActive (assignments : AMap Ex) (known : List String) (f : FixedFunction) (st : PreState) : PreState :=
  match f.outWire with
  | none => { st with info := { st.info with noOutput := st.info.noOutput ++ [f] } }
  | some (out, _) =>
    let clash := known.contains out || assignments.contains out
    let st := if clash then { st with errors := st.errors ++ panicDiag } else st
    { st with info := { st.info with byOutput := st.info.byOutput.insert out f },
              graph := (f.inWires.map (·.1)).foldl (fun g n => g.insert n out) st.graph }

def preDisabled (fl : Flags) (widths : AMap Width) (constants : AMap WireValue) (assignments : AMap Ex) (f : FixedFunction) : Bool :=
  match f.disabledIfFalse with
  | some enable => match assignments.get? enable with
    | some expr =>
      match check fl widths.toCtx constants.toEnv expr with
      | .ok _ => (match ev fl constants.toEnv (fixMux fl widths.toCtx constants.toEnv expr) with
        | .ok v => !(v.bits > 0)
        | .error _ => false)
      | .error _ => false
    | none => false
  | none => false

def preE1 (st : PreState) (f : FixedFunction) (missing : List String) : List Diag :=
  match f.outWire with
  | some (out, _) => if st.graph.containsNode out then missing.map (fun n => ⟨.UnsetBuiltinWire, [n]⟩) else []
  | none => []

def preClash (known : List String) (f : FixedFunction) (st : PreState) : PreState :=
  if (f.inWires.map (·.1)).any known.contains then { st with errors := st.errors ++ panicDiag } else st

theorem preprocessOne_eq (fl : Flags) (widths : AMap Width) (constants : AMap WireValue) (assignments : AMap Ex)
    (known : List String) (st : PreState) (f : FixedFunction) :
    preprocessOne fl widths constants assignments known st f =
      if f.mandatory && !((f.inWires.map (·.1)).filter (fun n => !assignments.contains n)).isEmpty then
        preAddActive assignments known f { preClash known f st with
          errors := (preClash known f st).errors ++
            ((f.inWires.map (·.1)).filter (fun n => !assignments.contains n)).map (fun n => ⟨.UnsetBuiltinWire, [n]⟩) }
      else if !((f.inWires.map (·.1)).filter (fun n => !assignments.contains n)).isEmpty then
        { preClash known f st with
          errors := (preClash known f st).errors ++
            preE1 (preClash known f st) f ((f.inWires.map (·.1)).filter (fun n => !assignments.contains n)) ++
            (if ((f.inWires.map (·.1)).filter (fun n => !assignments.contains n)).length != f.inWires.length then
              (if !preDisabled fl widths constants assignments f then
                [⟨.PartialFixedInput, (f.inWires.map (·.1)).filter (fun n => assignments.contains n) ++ ["/"] ++
                  (f.inWires.map (·.1)).filter (fun n => !assignments.contains n)⟩] else [])
             else []) }
      else preAddActive assignments known f (preClash known f st) := rfl

theorem inNames_rename (π : String → String) (f : FixedFunction) :
    (f.rename π).inWires.map (·.1) = (f.inWires.map (·.1)).map π := by
  simp [FixedFunction.rename, List.map_map, Function.comp_def]

theorem preClash_rename {π : String → String} (hi : Inj π) (known : List String) (f : FixedFunction) (st : PreState) :
    preClash (known.map π) (f.rename π) (st.rename π) = (preClash known f st).rename π := by
  unfold preClash
  rw [inNames_rename, List.any_map]
  have : ((known.map π).contains ∘ π) = known.contains := funext fun n => contains_map_inj hi known n
  rw [this]
  split
  · simp only [PreState.rename, List.map_append, panicDiag_rename]
  · rfl

theorem missing_rename {π : String → String} (hi : Inj π) (assignments : AMap Ex) (f : FixedFunction) :
    ((f.rename π).inWires.map (·.1)).filter (fun n => !(assignments.rn π (Ex.rename π)).contains n) =
      ((f.inWires.map (·.1)).filter (fun n => !assignments.contains n)).map π := by
  rw [inNames_rename, List.filter_map]
  congr 2
  funext n
  simp only [Function.comp_def, AMap.rn_contains hi]

theorem included_rename {π : String → String} (hi : Inj π) (assignments : AMap Ex) (f : FixedFunction) :
    ((f.rename π).inWires.map (·.1)).filter (fun n => (assignments.rn π (Ex.rename π)).contains n) =
      ((f.inWires.map (·.1)).filter (fun n => assignments.contains n)).map π := by
  rw [inNames_rename, List.filter_map]
  congr 2
  funext n
  simp only [Function.comp_def, AMap.rn_contains hi]

theorem preAddActive_rename {π : String → String} (hi : Inj π) (assignments : AMap Ex) (known : List String)
    (f : FixedFunction) (st : PreState) :
    preAddActive (assignments.rn π (Ex.rename π)) (known.map π) (f.rename π) (st.rename π) =
      (preAddActive assignments known f st).rename π := by
  unfold preAddActive
  have ho : (f.rename π).outWire = f.outWire.map fun w => (π w.1, w.2) := rfl
  rw [ho, inNames_rename]
  cases f.outWire with
  | none =>
    simp only [Option.map_none, PreState.rename, FixedInfo.rename, List.map_append, List.map_cons, List.map_nil]
  | some p =>
    obtain ⟨out, w⟩ := p
    simp only [Option.map_some, contains_map_inj hi, AMap.rn_contains hi]
    have hg : ∀ g : GBuild, ((f.inWires.map (·.1)).map π).foldl (fun g n => g.insert n (π out)) (g.rename π) =
        ((f.inWires.map (·.1)).foldl (fun g n => g.insert n out) g).rename π :=
      fun g => foldl_insert_rename hi out _ g
    split
    · simp only [PreState.rename, FixedInfo.rename, List.map_append, panicDiag_rename, AMap.rn_insert hi, hg]
    · simp only [PreState.rename, FixedInfo.rename, AMap.rn_insert hi, hg]

theorem preDisabled_rename {π : String → String} (hi : Inj π) (fl : Flags) (widths : AMap Width) (constants : AMap WireValue)
    (assignments : AMap Ex) (f : FixedFunction) :
    preDisabled fl (widths.rn π id) (constants.rn π id) (assignments.rn π (Ex.rename π)) (f.rename π) =
      preDisabled fl widths constants assignments f := by
  unfold preDisabled
  have hd : (f.rename π).disabledIfFalse = f.disabledIfFalse.map π := rfl
  rw [hd]
  cases f.disabledIfFalse with
  | none => rfl
  | some enable =>
    simp only [Option.map_some, AMap.rn_get? hi]
    cases assignments.get? enable with
    | none => rfl
    | some expr =>
      simp only [Option.map_some]
      rw [check_rename π fl _ _ _ _ (AMap.rn_toCtx hi widths) (AMap.rn_toEnv hi constants),
        fixMux_rename π fl _ _ _ _ (AMap.rn_toCtx hi widths) (AMap.rn_toEnv hi constants),
        ev_rename π fl _ _ (AMap.rn_toEnv hi constants)]
      cases check fl widths.toCtx constants.toEnv expr with
      | error ds => rfl
      | ok w =>
        simp only [crn]
        cases ev fl constants.toEnv (fixMux fl widths.toCtx constants.toEnv expr) <;> rfl

theorem preE1_rename {π : String → String} (hi : Inj π) (st : PreState) (f : FixedFunction) (missing : List String) :
    preE1 (st.rename π) (f.rename π) (missing.map π) = (preE1 st f missing).map (Diag.rename π) := by
  unfold preE1
  have ho : (f.rename π).outWire = f.outWire.map fun w => (π w.1, w.2) := rfl
  rw [ho]
  cases f.outWire with
  | none => rfl
  | some p =>
    obtain ⟨out, w⟩ := p
    simp only [Option.map_some, PreState.rename, GBuild.rename_containsNode hi]
    split
    · simp only [List.map_map, Function.comp_def]; rfl
    · rfl

theorem preprocessOne_rename' {π : String → String} (hi : Inj π) (fl : Flags) (widths : AMap Width)
    (constants : AMap WireValue) (assignments : AMap Ex) (known : List String) (st : PreState) (f : FixedFunction)
    (hin : ∀ w ∈ f.inWires, π w.1 = w.1) :
    preprocessOne fl (widths.rn π id) (constants.rn π id) (assignments.rn π (Ex.rename π)) (known.map π) (st.rename π)
        (f.rename π) =
      (preprocessOne fl widths constants assignments known st f).rename π := by
  rw [preprocessOne_eq, preprocessOne_eq, missing_rename hi, included_rename hi, preClash_rename hi, preDisabled_rename hi]
  have hm : (f.rename π).mandatory = f.mandatory := rfl
  have hlen : (f.rename π).inWires.length = f.inWires.length := by simp [FixedFunction.rename]
  have hfix : ∀ l : List String, (∀ n ∈ l, n ∈ f.inWires.map (·.1)) → l.map π = l := by
    intro l hl
    apply map_fixed
    intro n hn
    obtain ⟨w, hw, rfl⟩ := List.mem_map.mp (hl n hn)
    exact hin w hw
  rw [hm, hlen, List.isEmpty_map, List.length_map]
  split
  · rw [← preAddActive_rename hi]
    congr 1
    simp only [PreState.rename, List.map_append, List.map_map, Function.comp_def]
    rfl
  · split
    · rw [preE1_rename hi]
      simp only [PreState.rename, List.map_append, map_ite (List.map (Diag.rename π))]
      rw [hfix _ (fun n hn => (List.mem_filter.mp hn).1), hfix _ (fun n hn => (List.mem_filter.mp hn).1)]
      rfl
    · exact preAddActive_rename hi assignments known f _

theorem preprocessOne_rename {π : String → String} (hi : Inj π) (fl : Flags) (widths : AMap Width)
    (constants : AMap WireValue) (assignments : AMap Ex) (known : List String) (st : PreState) (f : FixedFunction)
    (hf : f.rename π = f) :
    preprocessOne fl (widths.rn π id) (constants.rn π id) (assignments.rn π (Ex.rename π)) (known.map π) (st.rename π) f =
      (preprocessOne fl widths constants assignments known st f).rename π := by
  have hin : ∀ w ∈ f.inWires, π w.1 = w.1 := by
    intro w hw
    have := congrArg FixedFunction.inWires hf
    simp only [FixedFunction.rename] at this
    exact congrArg Prod.fst (of_map_eq_self _ _ this w hw)
  have := preprocessOne_rename' hi fl widths constants assignments known st f hin
  rw [hf] at this
  exact this

theorem preprocess_fold_rename {π : String → String} (hi : Inj π) (fl : Flags) (widths : AMap Width)
    (constants : AMap WireValue) (assignments : AMap Ex) (known : List String) :
    ∀ (fixed : List FixedFunction) (st : PreState), FixedOK π fixed →
    fixed.foldl (preprocessOne fl (widths.rn π id) (constants.rn π id) (assignments.rn π (Ex.rename π)) (known.map π))
        (st.rename π) =
      (fixed.foldl (preprocessOne fl widths constants assignments known) st).rename π
  | [], _, _ => rfl
  | f :: rest, st, h => by
    simp only [List.foldl_cons]
    rw [preprocessOne_rename hi fl widths constants assignments known st f (h f List.mem_cons_self)]
    exact preprocess_fold_rename hi fl widths constants assignments known rest _ (fun g hg => h g (List.mem_cons_of_mem _ hg))

/-! ### `assignments_to_actions` -/

def LoopState.rename (π : String → String) (st : LoopState) : LoopState :=
  { covered := st.covered.map π, result := st.result.map (Action.rename π), errors := st.errors.map (Diag.rename π),
    seenUndeclared := st.seenUndeclared.map π }

theorem all_covered_rename {π : String → String} (hi : Inj π) (l covered : List String) :
    (l.map π).all (covered.map π).contains = l.all covered.contains := by
  rw [List.all_map]
  have : ((covered.map π).contains ∘ π) = covered.contains := funext fun n => contains_map_inj hi covered n
  rw [this]

theorem loopStep_rename {π : String → String} (hi : Inj π) (fl : Flags) (assignments : AMap Ex) (widths : AMap Width)
    (declared : List String) (constants : AMap WireValue) (byOutput : AMap FixedFunction) (st : LoopState) (name : String) :
    loopStep fl (assignments.rn π (Ex.rename π)) (widths.rn π id) (declared.map π) (constants.rn π id)
        (byOutput.rn π (FixedFunction.rename π)) (st.rename π) (π name) =
      (loopStep fl assignments widths declared constants byOutput st name).rename π := by
  unfold loopStep
  simp only [AMap.rn_get? hi]
  cases assignments.get? name with
  | some expr =>
    simp only [Option.map_some]
    have hcov : (refs (expr.rename π)).all (st.rename π).covered.contains = (refs expr).all st.covered.contains := by
      rw [refs_rename]; exact all_covered_rename hi _ _
    rw [hcov]
    cases widths.get? name with
    | none =>
      simp only [Option.map_none]
      split <;> simp only [LoopState.rename, List.map_append, panicDiag_rename, setInsert_map hi] <;> rfl
    | some w =>
      simp only [Option.map_some, id]
      rw [check_rename π fl _ _ _ _ (AMap.rn_toCtx hi widths) (AMap.rn_toEnv hi constants),
        fixMux_rename π fl _ _ _ _ (AMap.rn_toCtx hi widths) (AMap.rn_toEnv hi constants)]
      cases check fl widths.toCtx constants.toEnv expr with
      | error ds =>
        simp only [crn]
        split <;> simp only [LoopState.rename, List.map_append, panicDiag_rename, setInsert_map hi]
      | ok ew =>
        simp only [crn, id]
        cases w.combine ew with
        | some _ =>
          simp only []
          split <;> simp only [LoopState.rename, List.map_append, panicDiag_rename, setInsert_map hi, List.map_cons,
            List.map_nil, Action.rename]
        | none =>
          simp only []
          split <;> simp only [LoopState.rename, List.map_append, panicDiag_rename, setInsert_map hi, List.map_cons,
            List.map_nil, Action.rename] <;> rfl
  | none =>
    simp only [Option.map_none]
    cases byOutput.get? name with
    | some f =>
      simp only [Option.map_some]
      have hcov : ((f.rename π).inWires.map (·.1)).all (st.rename π).covered.contains =
          (f.inWires.map (·.1)).all st.covered.contains := by
        rw [inNames_rename]; exact all_covered_rename hi _ _
      rw [hcov]
      split <;> simp only [LoopState.rename, List.map_append, panicDiag_rename, setInsert_map hi, List.map_cons,
        List.map_nil] <;> rfl
    | none =>
      simp only [Option.map_none, contains_map_inj hi]
      split
      · simp only [LoopState.rename, List.map_append, setInsert_map hi, List.map_cons, List.map_nil]; rfl
      · simp only [LoopState.rename, setInsert_map hi]

theorem actionsLoop_rename {π : String → String} (hi : Inj π) (fl : Flags) (assignments : AMap Ex) (widths : AMap Width)
    (declared : List String) (constants : AMap WireValue) (byOutput : AMap FixedFunction) :
    ∀ (names : List String) (st : LoopState),
    actionsLoop fl (assignments.rn π (Ex.rename π)) (widths.rn π id) (declared.map π) (constants.rn π id)
        (byOutput.rn π (FixedFunction.rename π)) (names.map π) (st.rename π) =
      (actionsLoop fl assignments widths declared constants byOutput names st).rename π
  | [], _ => rfl
  | n :: rest, st => by
    unfold actionsLoop
    simp only [List.map_cons, List.foldl_cons]
    rw [loopStep_rename hi]
    exact actionsLoop_rename hi fl assignments widths declared constants byOutput rest _

theorem assignmentsToActions_rename {π π' : String → String} (hl : ∀ n, π' (π n) = n) (hr : ∀ n, π (π' n) = n)
    (fl : Flags) (o : Orders) (assignments : AMap Ex) (widths : AMap Width) (known : List String)
    (fixed : List FixedFunction) (declared : List String) (constants : AMap WireValue) (hfixed : FixedOK π fixed) :
    assignmentsToActions fl (o.tr π π') (assignments.rn π (Ex.rename π)) (widths.rn π id) (known.map π) fixed
        (declared.map π) (constants.rn π id) =
      crn π (List.map (Action.rename π)) (assignmentsToActions fl o assignments widths known fixed declared constants) := by
  have hi := inj_of_left hl
  unfold assignmentsToActions
  simp only []
  rw [assignGraph_rename hi]
  have h0 : ({ graph := (assignGraph assignments known).rename π } : PreState) =
      ({ graph := assignGraph assignments known } : PreState).rename π := rfl
  rw [h0, preprocess_fold_rename hi fl widths constants assignments known fixed _ hfixed]
  generalize fixed.foldl (preprocessOne fl widths constants assignments known) { graph := assignGraph assignments known } = pre
  have he : (pre.rename π).errors = pre.errors.map (Diag.rename π) := rfl
  have hg : (pre.rename π).graph = pre.graph.rename π := rfl
  have hb : (pre.rename π).info.byOutput = pre.info.byOutput.rn π (FixedFunction.rename π) := rfl
  have hn : (pre.rename π).info.noOutput = pre.info.noOutput.map (FixedFunction.rename π) := rfl
  rw [he, hg, hb, hn, List.isEmpty_map, GBuild.sort_rename hl hr]
  split
  · rfl
  · cases pre.graph.sort o with
    | cycle c => rfl
    | panic => rfl
    | ok sorted =>
      simp only [SortResult.rename]
      have h1 : ({ covered := known.map π } : LoopState) = ({ covered := known } : LoopState).rename π := rfl
      rw [h1, actionsLoop_rename hi]
      generalize actionsLoop fl assignments widths declared constants pre.info.byOutput sorted { covered := known } = st
      have e1 : (st.rename π).errors = st.errors.map (Diag.rename π) := rfl
      have e2 : (st.rename π).seenUndeclared = st.seenUndeclared.map π := rfl
      have e3 : (st.rename π).result = st.result.map (Action.rename π) := rfl
      rw [e1, e2, e3]
      have e4 : (st.seenUndeclared.map π).map (fun n => (⟨.UnsetUndeclaredWire, [n]⟩ : Diag)) =
          (st.seenUndeclared.map (fun n => (⟨.UnsetUndeclaredWire, [n]⟩ : Diag))).map (Diag.rename π) := by
        simp only [List.map_map, Function.comp_def]; rfl
      rw [e4, ← List.map_append, List.isEmpty_map]
      split
      · simp only [crn, List.map_append, List.map_map, Function.comp_def]
        rfl
      · rfl

/-! ### `Program::new` -/

/-- `Program.new` after step 3 -/
def newTail3 (fl : Flags) (o : Orders) (fixed : List FixedFunction) (s1 : Step1) (constants : AMap WireValue) (s3 : Step3) :
    C Program :=
  let wires := insertAll s1.wires (bankPairs s3.banks)
  let known := (bankOuts s3.banks).foldl setInsert []
  let needed := (bankIns s3.banks).foldl setInsert s1.needed
  let e4 : List Diag := needed.flatMap fun n =>
    if s1.assignments.contains n then [] else
    if s1.declared.contains n then [⟨.UnsetWire, [n]⟩]
    else if s3.registerIns.contains n then [⟨.UnsetRegisterInputWire, [n]⟩]
    else [⟨.UnsetBuiltinWire, [n]⟩]
  let cpairs := constPairs s1.constantsRaw.keys constants
  let wires := insertAll wires cpairs
  let known := (cpairs.map (·.1)).foldl setInsert known
  let missingConst := s1.constantsRaw.keys.any (fun k => !constants.contains k)
  let errs3 := s3.errors ++ e4
  if !errs3.isEmpty then .error errs3 else
  if missingConst then .error panicDiag else
  match assignmentsToActions fl o s1.assignments wires known fixed s1.declared constants with
  | .error ds => .error ds
  | .ok actions =>
    .ok { constants := constants, actions := actions, banks := s3.banks, defaulted := s3.defaulted, wireTypes := s3.wireTypes }

/-- `Program.new` after step 1 -/
def newTail1 (fl : Flags) (cls : CharClass) (o : Orders) (fixed : List FixedFunction) (s1 : Step1) : C Program :=
  let eAssignedConst : List Diag := s1.assigned.flatMap fun n =>
    if s1.constantsRaw.contains n then [⟨.AssignedConstant, [n]⟩] else []
  let errs1 := s1.errors ++ eAssignedConst ++ constRefErrors s1
  if !errs1.isEmpty then .error errs1 else
  match resolveConstants fl o s1.constantsRaw with
  | .error ds => .error ds
  | .ok constants =>
    newTail3 fl o fixed s1 constants (s1.banksRaw.foldl (step3Bank fl cls s1 constants) { wireTypes := s1.wireTypes })

theorem Program_new_eq_tail (fl : Flags) (cls : CharClass) (o : Orders) (fixed : List FixedFunction) (stmts : List Stmt) :
    Program.new fl cls o fixed stmts =
      newTail1 fl cls o fixed (stmts.foldl (step1Stmt (fixedNamesOf fixed) (fixed.filterMap fun f => f.outWire.map (·.1)))
        (step1Init fixed)) := rfl

theorem map_fst_pairs_rename {α : Type} (π : String → String) (l : List (String × α)) :
    (l.map fun p => (π p.1, p.2)).map (·.1) = (l.map (·.1)).map π := by
  simp [List.map_map, Function.comp_def]

theorem any_missing_rename {π : String → String} (hi : Inj π) (keys : List String) (constants : AMap WireValue) :
    (keys.map π).any (fun k => !(constants.rn π id).contains k) = keys.any (fun k => !constants.contains k) := by
  rw [List.any_map]
  congr 1
  funext k
  simp only [Function.comp_def, AMap.rn_contains hi]

theorem newTail3_rename {π π' : String → String} (hl : ∀ n, π' (π n) = n) (hr : ∀ n, π (π' n) = n)
    (fl : Flags) (o : Orders) (fixed : List FixedFunction) (s1 : Step1) (constants : AMap WireValue) (s3 : Step3)
    (hfixed : FixedOK π fixed) :
    newTail3 fl (o.tr π π') fixed (s1.rename π) (constants.rn π id) (s3.rename π) =
      crn π (Program.rename π) (newTail3 fl o fixed s1 constants s3) := by
  have hi := inj_of_left hl
  unfold newTail3
  simp only []
  have b1 : (s3.rename π).banks = s3.banks.map (RegisterBank.rename π) := rfl
  have b2 : (s3.rename π).errors = s3.errors.map (Diag.rename π) := rfl
  have b3 : (s3.rename π).registerIns = s3.registerIns.map π := rfl
  have b4 : (s3.rename π).defaulted = s3.defaulted.map π := rfl
  have b5 : (s3.rename π).wireTypes = s3.wireTypes.rn π id := rfl
  have a1 : (s1.rename π).wires = s1.wires.rn π id := rfl
  have a2 : (s1.rename π).needed = s1.needed.map π := rfl
  have a3 : (s1.rename π).assignments = s1.assignments.rn π (Ex.rename π) := rfl
  have a4 : (s1.rename π).declared = s1.declared.map π := rfl
  have a5 : (s1.rename π).constantsRaw = s1.constantsRaw.rn π (Ex.rename π) := rfl
  rw [b1, b2, b3, b4, b5, a1, a2, a3, a4, a5, bankPairs_rename, bankOuts_rename, bankIns_rename, AMap.rn_keys,
    constPairs_rename hi, insertAll_rename hi, insertAll_rename hi, map_fst_pairs_rename, any_missing_rename hi]
  have k0 := foldl_setInsert_map hi (bankOuts s3.banks) []
  simp only [List.map_nil] at k0
  rw [k0, foldl_setInsert_map hi, foldl_setInsert_map hi]
  have e4 : (((bankIns s3.banks).foldl setInsert s1.needed).map π).flatMap (fun n =>
        if (s1.assignments.rn π (Ex.rename π)).contains n then [] else
        if (s1.declared.map π).contains n then [(⟨.UnsetWire, [n]⟩ : Diag)]
        else if (s3.registerIns.map π).contains n then [⟨.UnsetRegisterInputWire, [n]⟩]
        else [⟨.UnsetBuiltinWire, [n]⟩]) =
      (((bankIns s3.banks).foldl setInsert s1.needed).flatMap (fun n =>
        if s1.assignments.contains n then [] else
        if s1.declared.contains n then [(⟨.UnsetWire, [n]⟩ : Diag)]
        else if s3.registerIns.contains n then [⟨.UnsetRegisterInputWire, [n]⟩]
        else [⟨.UnsetBuiltinWire, [n]⟩])).map (Diag.rename π) := by
    apply flatMap_map_rename
    intro n _
    simp only [AMap.rn_contains hi, contains_map_inj hi]
    split
    · rfl
    · split
      · rfl
      · split <;> rfl
  rw [e4, ← List.map_append, List.isEmpty_map]
  split
  · rfl
  · split
    · rfl
    · rw [assignmentsToActions_rename hl hr fl o _ _ _ fixed _ _ hfixed]
      cases assignmentsToActions fl o s1.assignments
        (insertAll (insertAll s1.wires (bankPairs s3.banks)) (constPairs s1.constantsRaw.keys constants))
        (((constPairs s1.constantsRaw.keys constants).map (·.1)).foldl setInsert ((bankOuts s3.banks).foldl setInsert []))
        fixed s1.declared constants with
      | error ds => rfl
      | ok actions => rfl

theorem newTail1_rename {π π' : String → String} (hl : ∀ n, π' (π n) = n) (hr : ∀ n, π (π' n) = n)
    (fl : Flags) (cls : CharClass) (o : Orders) (fixed : List FixedFunction) (s1 : Step1)
    (hfixed : FixedOK π fixed) (hbanks : ∀ b ∈ s1.banksRaw, BankFixes π b) :
    newTail1 fl cls (o.tr π π') fixed (s1.rename π) = crn π (Program.rename π) (newTail1 fl cls o fixed s1) := by
  have hi := inj_of_left hl
  unfold newTail1
  simp only []
  rw [assignedConst_rename hi, constRefErrors_rename hi]
  have a1 : (s1.rename π).errors = s1.errors.map (Diag.rename π) := rfl
  have a5 : (s1.rename π).constantsRaw = s1.constantsRaw.rn π (Ex.rename π) := rfl
  have a6 : (s1.rename π).banksRaw = s1.banksRaw.map (BankDecl.rename π) := rfl
  have a7 : ({ wireTypes := (s1.rename π).wireTypes } : Step3) = ({ wireTypes := s1.wireTypes } : Step3).rename π := rfl
  rw [a1, a5, a6, a7, ← List.map_append, ← List.map_append, List.isEmpty_map, resolveConstants_rename hl hr]
  split
  · rfl
  · cases resolveConstants fl o s1.constantsRaw with
    | error ds => rfl
    | ok constants =>
      simp only [crn]
      rw [step3_fold_rename hi fl cls s1 constants s1.banksRaw _ hbanks]
      exact newTail3_rename hl hr fl o fixed s1 constants _ hfixed

theorem step1Init_banksRaw (fixed : List FixedFunction) : (step1Init fixed).banksRaw = [] := by
  unfold step1Init
  apply foldl_banksRaw_eq
  intro s f
  have : (f.inWires.foldl (fun s (w : String × Nat) =>
      { s with wireTypes := s.wireTypes.insert w.1 .builtinInput, wires := s.wires.insert w.1 (.bits w.2) }) s).banksRaw =
      s.banksRaw := by
    apply foldl_banksRaw_eq
    intro _ _; rfl
  cases f.outWire with
  | none => exact this
  | some p => exact this

/-- **`Program.new` is equivariant**: under the iteration orders seen through the renaming, the program built from the
    renamed statements is the renamed program, and a rejection carries the renamed diagnostics. -/
theorem Program_new_rename_tr {π π' : String → String} (hl : ∀ n, π' (π n) = n) (hr : ∀ n, π (π' n) = n)
    (fl : Flags) (cls : CharClass) (o : Orders) (fixed : List FixedFunction) (stmts : List Stmt)
    (hfixed : FixedOK π fixed) (hbanks : ∀ b, Stmt.bank b ∈ stmts → BankFixes π b) :
    Program.new fl cls (o.tr π π') fixed (stmts.map (Stmt.rename π)) =
      crn π (Program.rename π) (Program.new fl cls o fixed stmts) := by
  have hi := inj_of_left hl
  rw [Program_new_eq_tail, Program_new_eq_tail, ← step1Init_rename hi fixed hfixed,
    step1_fold_rename hi _ _ hfixed.names hfixed.outs]
  rw [step1Init_rename hi fixed hfixed]
  apply newTail1_rename hl hr fl cls o fixed _ hfixed
  intro b hb
  rw [step1_fold_banksRaw, step1Init_banksRaw, List.nil_append] at hb
  obtain ⟨st, hst, hsb⟩ := List.mem_filterMap.mp hb
  cases st with
  | bank b' =>
    simp only [Option.some.injEq] at hsb
    subst hsb
    exact hbanks _ hst
  | consts _ => cases hsb
  | wires _ => cases hsb
  | assigns _ => cases hsb
