import Hcl.Model.Lexer

/-! Model of the grammar parser.lalrpop for error-free input: a recursive-descent parser over the
    token list that builds the AST with source spans (first token start .. last token end), driven
    by the precedence table.  It does not model LALRPOP's error recovery. -/

namespace Parser
open Lexer

mutual
/-- expressions with spans -/
inductive PEx where
  | const (s e : Nat) (v : WireValue)
  | bin (s e : Nat) (op : BinOp) (l r : PEx)
  | un (s e : Nat) (op : UnOp) (x : PEx)
  | mux (s e : Nat) (opts : POpts)
  | wire (s e : Nat) (name : String)
  | slice (s e : Nat) (x : PEx) (lo hi : Nat)
  | concat (s e : Nat) (l r : PEx)
  | inSet (s e : Nat) (x : PEx) (items : PExs)
inductive POpts where
  | nil
  | cons (c v : PEx) (rest : POpts)
inductive PExs where
  | nil
  | cons (x : PEx) (rest : PExs)
end

instance : Inhabited PEx := ⟨.wire 0 0 ""⟩

def PEx.span : PEx → Nat × Nat
  | .const s e _ | .bin s e _ _ _ | .un s e _ _ | .mux s e _ | .wire s e _ | .slice s e _ _ _ | .concat s e _ _ | .inSet s e _ _ => (s, e)

mutual
/-- forget the spans -/
def PEx.erase : PEx → Ex
  | .const _ _ v => .const v
  | .bin _ _ op l r => .bin op l.erase r.erase
  | .un _ _ op x => .un op x.erase
  | .mux _ _ opts => .mux opts.erase
  | .wire _ _ n => .wire n
  | .slice _ _ x lo hi => .slice x.erase lo hi
  | .concat _ _ l r => .concat l.erase r.erase
  | .inSet _ _ x items => .inSet x.erase items.erase
def POpts.erase : POpts → Opts
  | .nil => .nil
  | .cons c v r => .cons c.erase v.erase r.erase
def PExs.erase : PExs → Exs
  | .nil => .nil
  | .cons x r => .cons x.erase r.erase
end

abbrev Toks := List (Nat × Tok × Nat)

/-- a tier of binary operators: the tokens with their opcodes, and whether the tier chains (left-associative) -/
structure Tier where
  ops : List (Tok × BinOp)
  chains : Bool

/-- the precedence table of the grammar, loosest first; `none` marks the place of the `in` operator -/
def tiers : List (Option Tier) :=
  [some ⟨[(.OrOr, .lor)], true⟩,
   some ⟨[(.AndAnd, .land)], true⟩,
   some ⟨[(.Equal, .eq), (.NotEqual, .ne), (.LessEqual, .le), (.GreaterEqual, .ge), (.Less, .lt), (.Greater, .gt)], false⟩,
   none,
   some ⟨[(.Or, .or)], true⟩,
   some ⟨[(.Xor, .xor)], true⟩,
   some ⟨[(.And, .and)], true⟩,
   some ⟨[(.LeftShift, .shl), (.RightShift, .shr)], true⟩,
   some ⟨[(.Plus, .add), (.Minus, .sub)], true⟩,
   some ⟨[(.Times, .mul), (.Divide, .div)], true⟩]

def unOpOf : Tok → Option UnOp
  | .Plus => some .plus | .Minus => some .neg | .Complement => some .compl | .Not => some .not
  | _ => none

/-- result of a parser: the value, the extent (start of first token, end of last token) of what was consumed, the rest -/
def P (α : Type) := Option (α × Nat × Nat × Toks)

def expect (t : Tok) : Toks → Option (Nat × Nat × Toks)
  | (s, t', e) :: rest => if t' == t then some (s, e, rest) else none
  | [] => none

/-- `SimpleConstant` / `WidthConstant`: a literal at most 128 -/
def smallConst : Toks → Option (Nat × Nat × Nat × Toks)
  | (s, .Constant v, e) :: rest => if v.bits ≤ 128 then some (v.bits, s, e, rest) else none
  | _ => none

mutual
/-- `Expr` at tier `k` (`k = tiers.length` is `Term`) -/
def parseTier (fuel : Nat) (k : Nat) (ts : Toks) : P PEx :=
  match fuel with
  | 0 => none
  | fuel+1 =>
    match tiers[k]? with
    | none => parseTerm fuel ts
    | some none =>
      -- ExprIn: ExprOr ("in" "{" Commas<Expr> "}")?
      match parseTier fuel (k + 1) ts with
      | none => none
      | some (x, s, e, rest) =>
        match rest with
        | (_, .In, _) :: rest1 =>
          match expect .OpenBrace rest1 with
          | none => none
          | some (_, _, rest2) =>
            match parseItems fuel rest2 with
            | none => none
            | some (items, _, _, rest3) =>
              match expect .CloseBrace rest3 with
              | none => none
              | some (_, e', rest4) => some (.inSet s e' x items, s, e', rest4)
        | _ => some (x, s, e, rest)
    | some (some tier) =>
      match parseTier fuel (k + 1) ts with
      | none => none
      | some (l, s, e, rest) => if tier.chains then parseChain fuel k tier l s e rest else
        match rest with
        | (_, t, _) :: rest1 =>
          match tier.ops.find? (fun o => o.1 == t) with
          | some (_, op) =>
            match parseTier fuel (k + 1) rest1 with
            | none => none
            | some (r, _, e', rest2) => some (.bin s e' op l r, s, e', rest2)
          | none => some (l, s, e, rest)
        | [] => some (l, s, e, rest)
/-- the left-associative loop `l (op next)*` -/
def parseChain (fuel : Nat) (k : Nat) (tier : Tier) (l : PEx) (s e : Nat) (ts : Toks) : P PEx :=
  match fuel with
  | 0 => none
  | fuel+1 =>
    match ts with
    | (_, t, _) :: rest1 =>
      match tier.ops.find? (fun o => o.1 == t) with
      | some (_, op) =>
        match parseTier fuel (k + 1) rest1 with
        | none => none
        | some (r, _, e', rest2) => parseChain fuel k tier (.bin s e' op l r) s e' rest2
      | none => some (l, s, e, ts)
    | [] => some (l, s, e, ts)
/-- `Term` -/
def parseTerm (fuel : Nat) (ts : Toks) : P PEx :=
  match fuel with
  | 0 => none
  | fuel+1 =>
    match ts with
    | (s, t, _) :: rest =>
      match unOpOf t with
      | some op =>
        match parseSimple fuel rest with
        | none => none
        | some (x, _, e, rest1) => some (.un s e op x, s, e, rest1)
      | none =>
        match parseSimple fuel ts with
        | none => none
        | some (x, s', e', rest1) =>
          match rest1 with
          | (_, .OpenBracket, _) :: rest2 =>
            match smallConst rest2 with
            | none => none
            | some (lo, _, _, rest3) =>
              match expect .DotDot rest3 with
              | none => none
              | some (_, _, rest4) =>
                match smallConst rest4 with
                | none => none
                | some (hi, _, _, rest5) =>
                  match expect .CloseBracket rest5 with
                  | none => none
                  | some (_, e, rest6) => some (.slice s' e x lo hi, s', e, rest6)
          | _ => some (x, s', e', rest1)
    | [] => none
/-- `SimpleTerm`; a parenthesised expression keeps the span of the inner expression, as in the grammar,
    but its extent includes the parentheses -/
def parseSimple (fuel : Nat) (ts : Toks) : P PEx :=
  match fuel with
  | 0 => none
  | fuel+1 =>
    match ts with
    | (s, .Constant v, e) :: rest => some (.const s e v, s, e, rest)
    | (s, .Identifier n, e) :: rest => some (.wire s e n, s, e, rest)
    | (s, .OpenParen, _) :: rest =>
      match parseTier fuel 0 rest with
      | none => none
      | some (x, _, _, rest1) =>
        match rest1 with
        | (_, .CloseParen, e) :: rest2 => some (x, s, e, rest2)
        | (_, .DotDot, _) :: rest2 =>
          match parseTier fuel 0 rest2 with
          | none => none
          | some (y, _, _, rest3) =>
            match expect .CloseParen rest3 with
            | none => none
            | some (_, e, rest4) => some (.concat s e x y, s, e, rest4)
        | _ => none
    | (s, .OpenBracket, _) :: rest =>
      match parseOpts fuel rest with
      | none => none
      | some (opts, _, _, rest1) =>
        match expect .CloseBracket rest1 with
        | none => none
        | some (_, e, rest2) => some (.mux s e opts, s, e, rest2)
    | _ => none
/-- `Semicolons<MuxOption>` : (opt ";")* opt? -/
def parseOpts (fuel : Nat) (ts : Toks) : P POpts :=
  match fuel with
  | 0 => none
  | fuel+1 =>
    match ts with
    | (_, .CloseBracket, _) :: _ => some (.nil, 0, 0, ts)
    | _ =>
      match parseTier fuel 0 ts with
      | none => none
      | some (c, _, _, rest) =>
        match expect .Colon rest with
        | none => none
        | some (_, _, rest1) =>
          match parseTier fuel 0 rest1 with
          | none => none
          | some (v, _, _, rest2) =>
            match rest2 with
            | (_, .Semicolon, _) :: rest3 =>
              match parseOpts fuel rest3 with
              | none => none
              | some (more, _, _, rest4) => some (.cons c v more, 0, 0, rest4)
            | _ => some (.cons c v .nil, 0, 0, rest2)
/-- `Commas<Expr>` : (e ",")* e? -/
def parseItems (fuel : Nat) (ts : Toks) : P PExs :=
  match fuel with
  | 0 => none
  | fuel+1 =>
    match ts with
    | (_, .CloseBrace, _) :: _ => some (.nil, 0, 0, ts)
    | _ =>
      match parseTier fuel 0 ts with
      | none => none
      | some (x, _, _, rest) =>
        match rest with
        | (_, .Comma, _) :: rest1 =>
          match parseItems fuel rest1 with
          | none => none
          | some (more, _, _, rest2) => some (.cons x more, 0, 0, rest2)
        | _ => some (.cons x .nil, 0, 0, rest)
end

def tokensOf (items : List Item) : Option Toks :=
  items.mapM fun it => match it with
    | .tok s t e => some (s, t, e)
    | .err _ => none

/-- parse a complete expression -/
def parseExpr (cls : CharCls) (text : List Char) : Option PEx :=
  match tokensOf (lex cls text) with
  | none => none
  | some ts =>
    match parseTier (14 * ts.length + 40) 0 ts with
    | some (x, _, _, []) => some x
    | _ => none

end Parser
