import Hcl.Proofs.EvalCorrect
import Hcl.Proofs.AMapLemmas
import Hcl.Model.Step
open Rust

/-! Soundness of the cycle: from a well-typed state, every action of a well-formed action list
    succeeds (or reports division by zero) and leaves a well-typed state. -/

theorem U64_pos : 0 < U64 := by unfold U64; exact Nat.pow_pos (by decide)

mutual
theorem refs_fixMux (fl : Flags) (Γ : Ctx) (κ : Env) : ∀ e : Ex, refs (fixMux fl Γ κ e) = refs e
  | .const _ => by simp [fixMux]
  | .bin _ l r => by simp [fixMux, refs, refs_fixMux fl Γ κ l, refs_fixMux fl Γ κ r]
  | .un _ e => by simp [fixMux, refs, refs_fixMux fl Γ κ e]
  | .wire _ => by simp [fixMux]
  | .slice e _ _ => by simp [fixMux, refs, refs_fixMux fl Γ κ e]
  | .concat l r => by simp [fixMux, refs, refs_fixMux fl Γ κ l, refs_fixMux fl Γ κ r]
  | .inSet e items => by simp [fixMux, refs, refs_fixMux fl Γ κ e, refsExs_fixMux fl Γ κ items]
  | .mux opts => by
      simp only [fixMux]
      split <;> simp [refs, refsOpts_fixMux fl Γ κ opts]
theorem refsOpts_fixMux (fl : Flags) (Γ : Ctx) (κ : Env) : ∀ o : Opts, refsOpts (fixMuxOpts fl Γ κ o) = refsOpts o
  | .nil => by simp [fixMuxOpts]
  | .cons c v rest => by
      simp [fixMuxOpts, refsOpts, refs_fixMux fl Γ κ c, refs_fixMux fl Γ κ v, refsOpts_fixMux fl Γ κ rest]
theorem refsExs_fixMux (fl : Flags) (Γ : Ctx) (κ : Env) : ∀ o : Exs, refsExs (fixMuxExs fl Γ κ o) = refsExs o
  | .nil => by simp [fixMuxExs]
  | .cons e rest => by simp [fixMuxExs, refsExs, refs_fixMux fl Γ κ e, refsExs_fixMux fl Γ κ rest]
end

/-! ### memory -/

namespace Mem

def BytesOK (m : Mem) : Prop := ∀ p ∈ m, p.2 < 256

theorem get_lt (m : Mem) (h : m.BytesOK) (a : Nat) : m.get a < 256 := by
  unfold get
  cases hl : List.lookup a m with
  | none => simp
  | some v =>
    simp only [Option.getD_some]
    have : (a, v) ∈ m := by
      clear h
      induction m with
      | nil => simp [List.lookup] at hl
      | cons p rest ih =>
        obtain ⟨k, x⟩ := p
        simp only [List.lookup] at hl
        by_cases hk : a = k
        · subst hk; simp at hl; subst hl; simp
        · have : (a == k) = false := by simpa using hk
          simp only [this] at hl
          exact List.mem_cons_of_mem _ (ih hl)
    exact h _ this

theorem insert_bytesOK (m : Mem) (h : m.BytesOK) (a v : Nat) (hv : v < 256) : (m.insert a v).BytesOK := by
  induction m with
  | nil => intro p hp; simp [insert] at hp; subst hp; exact hv
  | cons q rest ih =>
    obtain ⟨k, x⟩ := q
    have hrest : BytesOK rest := fun p hp => h p (List.mem_cons_of_mem _ hp)
    have hq : x < 256 := h (k, x) (by simp)
    intro p hp
    simp only [insert] at hp
    split at hp
    · rcases List.mem_cons.mp hp with rfl | hp
      · exact hv
      · exact h p hp
    · split at hp
      · rcases List.mem_cons.mp hp with rfl | hp
        · exact hv
        · exact hrest p hp
      · rcases List.mem_cons.mp hp with rfl | hp
        · exact hq
        · exact ih hrest p hp

theorem write_bytesOK (m : Mem) (h : m.BytesOK) (addr value : Nat) : ∀ n, (m.write addr value n).BytesOK
  | 0 => h
  | n+1 => insert_bytesOK _ (write_bytesOK m h addr value n) _ _ (Nat.mod_lt _ (by decide))

theorem read_lt (m : Mem) (h : m.BytesOK) (addr : Nat) : ∀ n, m.read addr n < 256 ^ n
  | 0 => by simp [read]
  | n+1 => by
      have ih := read_lt m h addr n
      have hb := get_lt m h ((addr + n) % U64)
      simp only [read, Nat.pow_succ]
      have : m.get ((addr + n) % U64) * 256 ^ n ≤ 255 * 256 ^ n := Nat.mul_le_mul_right _ (by omega)
      omega

end Mem

/-! ### well-typed states -/

/-- every value present in the table has the width the context declares and fits it -/
def ValsOK (Γ : Ctx) (vals : AMap WireValue) : Prop :=
  ∀ n v, vals.toEnv n = some v → Γ n = some v.width ∧ v.bits < v.width.card

structure StateOK (Γ : Ctx) (s : State) : Prop where
  vals : ValsOK Γ s.values
  regsLen : s.regs.length = 16
  regsBound : ∀ r ∈ s.regs, r < U64
  memBytes : s.mem.BytesOK

def Present (vals : AMap WireValue) (names : List String) : Prop := ∀ n ∈ names, vals.contains n = true

theorem ValsOK.insert {Γ vals} (h : ValsOK Γ vals) (n : String) (v : WireValue)
    (hn : Γ n = some v.width) (hv : v.bits < v.width.card) : ValsOK Γ (vals.insert n v) := by
  intro m x hx
  rw [AMap.toEnv_insert] at hx
  split at hx
  · rename_i hmn; cases hx; subst hmn; exact ⟨hn, hv⟩
  · exact h m x hx

theorem present_lookup {vals : AMap WireValue} {n : String} (h : vals.contains n = true) : ∃ v, vals.toEnv n = some v :=
  (AMap.contains_iff_lookup vals n).mp h

theorem envOn_of {Γ vals} (h : ValsOK Γ vals) (names : List String) (hp : Present vals names) :
    EnvOn Γ vals.toEnv names := by
  intro n hn w hw
  obtain ⟨v, hv⟩ := present_lookup (hp n hn)
  obtain ⟨hΓn, hlt⟩ := h n v hv
  rw [hw] at hΓn; cases hΓn
  exact ⟨v.bits, by rw [hv], hlt⟩

theorem getOrPanic_of {vals : AMap WireValue} {n : String} (h : vals.contains n = true) :
    ∃ v, getOrPanic vals n = .ok v ∧ vals.toEnv n = some v := by
  obtain ⟨v, hv⟩ := present_lookup h
  exact ⟨v, by simp [getOrPanic, AMap.get?_eq_toEnv, hv, pure, Except.pure], hv⟩

/-! ### actions -/

def Action.reads : Action → List String
  | .assign _ e _ => refs e
  | .readReg number _ => [number]
  | .readMem (some r) address _ _ _ => [r, address]
  | .readMem none address _ _ _ => [address]
  | .writeReg number inp => [number, inp]
  | .writeMem (some w) address inp _ => [w, address, inp]
  | .writeMem none address inp _ => [address, inp]
  | .setStatus w => [w]

def Action.writes : Action → List String
  | .assign n _ _ => [n]
  | .readReg _ out => [out]
  | .readMem _ _ out _ _ => [out]
  | _ => []

/-- static well-formedness of an action with respect to the declared widths -/
def ActionOK (fl : Flags) (Γ : Ctx) (κ : Env) : Action → Prop
  | .assign n e w => Γ n = some w ∧ ∃ e₀ ew, e = fixMux fl Γ κ e₀ ∧ wfEx e₀ = true ∧ check fl Γ κ e₀ = .ok ew
  | .readReg _ out => Γ out = some (.bits 64)
  | .readMem _ _ out bytes _ => Γ out = some (.bits (bytes * 8)) ∧ bytes * 8 ≤ 128
  | _ => True

inductive Outcome (α : Type) where
  | ok (a : α)
  | divZero

/-- what one action does to a well-typed state -/
theorem execAction_sound {fl : Flags} {Γ : Ctx} {κ : Env} (hΓ : CtxOK Γ) (s : State) (hs : StateOK Γ s)
    (a : Action) (ha : ActionOK fl Γ κ a) (hp : Present s.values a.reads) :
    (∃ s', execAction fl s a = .ok s' ∧ StateOK Γ s' ∧
        (∀ n, s.values.contains n = true → s'.values.contains n = true) ∧
        (∀ n ∈ a.writes, s'.values.contains n = true) ∧ s'.cycle = s.cycle) ∨
    execAction fl s a = .error .divideByZero := by
  cases a with
  | assign n e w =>
    obtain ⟨hn, e₀, ew, rfl, hwf, hc⟩ := ha
    have hp' : Present s.values (refs e₀) := by
      simpa [Action.reads, refs_fixMux] using hp
    have hwok : w.ok := hΓ n w hn
    obtain ⟨_, _, hev⟩ := ev_correct (κ := κ) hΓ e₀ ew (envOn_of hs.vals _ hp') hwf hc
    cases hd : Spec.dv Γ (val s.values.toEnv) e₀ with
    | none =>
      simp only [hd] at hev
      right; simp [execAction, hev, bind, Except.bind]
    | some v =>
      simp only [hd] at hev
      left
      have hm := maskStep w hwok v
      refine ⟨{ s with values := s.values.insert n ⟨v % w.card, w⟩ }, ?_, ?_, ?_, ?_, rfl⟩
      · simp only [execAction, hev.1, bind, Except.bind, asWidth, pure, Except.pure]
        rw [Width.mask_eq w hwok]
        simp only [liftR, and_mask]
      · exact { hs with vals := hs.vals.insert n _ hn (Nat.mod_lt _ w.card_pos) }
      · intro m hm; simp [AMap.contains_insert, hm]
      · intro m hm; simp [Action.writes] at hm; subst hm; simp [AMap.contains_insert]
  | readReg number out =>
    left
    obtain ⟨nv, hget, _⟩ := getOrPanic_of (hp number (by simp [Action.reads]))
    let v : Nat := if nv.bits % U64 < s.regs.length then s.regs.getD (nv.bits % U64) 0 else 0
    have hvlt : v < U64 := by
      show (if nv.bits % U64 < s.regs.length then s.regs.getD (nv.bits % U64) 0 else 0) < U64
      split
      · rename_i hlt
        rw [List.getD_eq_getElem?_getD, List.getElem?_eq_getElem hlt]
        exact hs.regsBound _ (List.getElem_mem hlt)
      · exact U64_pos
    refine ⟨{ s with values := s.values.insert out ⟨v, .bits 64⟩ }, ?_, ?_, ?_, ?_, rfl⟩
    · simp only [execAction, hget, bind, Except.bind, pure, Except.pure]; rfl
    · exact { hs with vals := hs.vals.insert out _ ha (by simpa [Width.card, U64] using hvlt) }
    · intro m hm; simp [AMap.contains_insert, hm]
    · intro m hm; simp [Action.writes] at hm; subst hm; simp [AMap.contains_insert]
  | readMem isRead address out bytes isInstr =>
    left
    obtain ⟨hout, hb⟩ := ha
    obtain ⟨av, hgeta, _⟩ := getOrPanic_of (hp address (by cases isRead <;> simp [Action.reads]))
    have hwok : (Width.bits (bytes * 8)).ok := hb
    have hread : s.mem.read (av.bits % U64) bytes < (Width.bits (bytes * 8)).card := by
      have := Mem.read_lt s.mem hs.memBytes (av.bits % U64) bytes
      have h2 : (256 : Nat) ^ bytes = 2 ^ (bytes * 8) := by
        rw [show (256 : Nat) = 2 ^ 8 by rfl, ← Nat.pow_mul, Nat.mul_comm]
      simpa [Width.card, h2] using this
    have hzero : asWidth ⟨0, .unlimited⟩ (.bits (bytes * 8)) = .ok ⟨0, .bits (bytes * 8)⟩ := by
      have := maskStep (.bits (bytes * 8)) hwok 0
      simpa [asWidth, bind, Except.bind, pure, Except.pure] using this
    have fin : ∀ v : Nat, v < (Width.bits (bytes * 8)).card →
        StateOK Γ { s with values := s.values.insert out ⟨v, .bits (bytes * 8)⟩ } ∧
        (∀ n, s.values.contains n = true → (s.values.insert out ⟨v, .bits (bytes * 8)⟩).contains n = true) ∧
        (∀ n ∈ (Action.readMem isRead address out bytes isInstr).writes,
          (s.values.insert out ⟨v, .bits (bytes * 8)⟩).contains n = true) ∧ s.cycle = s.cycle := by
      intro v hv
      refine ⟨{ hs with vals := hs.vals.insert out _ hout hv }, ?_, ?_, rfl⟩
      · intro m hm; simp [AMap.contains_insert, hm]
      · intro m hm; simp [Action.writes] at hm; subst hm; simp [AMap.contains_insert]
    cases isRead with
    | none =>
      exact ⟨_, by simp only [execAction, hgeta, bind, Except.bind, pure, Except.pure]; rfl, fin _ hread⟩
    | some r =>
      obtain ⟨rv, hgetr, _⟩ := getOrPanic_of (hp r (by simp [Action.reads]))
      by_cases hr : rv.bits > 0
      · exact ⟨_, by simp only [execAction, hgetr, hgeta, hr, bind, Except.bind, pure, Except.pure]; rfl, fin _ hread⟩
      · exact ⟨_, by simp only [execAction, hgetr, hr, hzero, bind, Except.bind, pure, Except.pure]; rfl,
          fin 0 (Width.card_pos _)⟩
  | writeReg number inp =>
    left
    obtain ⟨nv, hgetn, _⟩ := getOrPanic_of (hp number (by simp [Action.reads]))
    obtain ⟨iv, hgeti, _⟩ := getOrPanic_of (hp inp (by simp [Action.reads]))
    by_cases hcond : nv.bits % U64 < s.regs.length ∧ nv.bits % U64 ≠ 15
    · refine ⟨{ s with regs := listSet s.regs (nv.bits % U64) (iv.bits % U64) }, ?_, ?_, fun _ h => h, ?_, rfl⟩
      · simp only [execAction, hgetn, hgeti, bind, Except.bind, pure, Except.pure]
        rw [if_pos hcond]
      · refine { hs with regsLen := by simp [listSet, hs.regsLen], regsBound := ?_ }
        intro r hr
        rcases List.mem_or_eq_of_mem_set hr with h | h
        · exact hs.regsBound r h
        · rw [h]; exact Nat.mod_lt _ U64_pos
      · intro m hm; simp [Action.writes] at hm
    · refine ⟨s, ?_, hs, fun _ h => h, ?_, rfl⟩
      · simp only [execAction, hgetn, bind, Except.bind, pure, Except.pure]
        rw [if_neg hcond]
      · intro m hm; simp [Action.writes] at hm
  | writeMem isWrite address inp bytes =>
    left
    obtain ⟨av, hgeta, _⟩ := getOrPanic_of (hp address (by cases isWrite <;> simp [Action.reads]))
    obtain ⟨iv, hgeti, _⟩ := getOrPanic_of (hp inp (by cases isWrite <;> simp [Action.reads]))
    have hw : StateOK Γ { s with mem := s.mem.write (av.bits % U64) iv.bits bytes } :=
      { hs with memBytes := Mem.write_bytesOK s.mem hs.memBytes _ _ _ }
    have hnw : ∀ n ∈ (Action.writeMem isWrite address inp bytes).writes, s.values.contains n = true := by
      intro m hm; simp [Action.writes] at hm
    cases isWrite with
    | none =>
      exact ⟨_, by simp only [execAction, hgeta, hgeti, bind, Except.bind, pure, Except.pure]; rfl, hw, fun _ h => h, hnw, rfl⟩
    | some wr =>
      obtain ⟨wv, hgetw, _⟩ := getOrPanic_of (hp wr (by simp [Action.reads]))
      by_cases hwr : wv.bits > 0
      · exact ⟨_, by simp only [execAction, hgetw, hgeta, hgeti, hwr, bind, Except.bind, pure, Except.pure]; rfl,
          hw, fun _ h => h, hnw, rfl⟩
      · exact ⟨s, by simp only [execAction, hgetw, hwr, bind, Except.bind, pure, Except.pure]; rfl,
          hs, fun _ h => h, hnw, rfl⟩
  | setStatus w =>
    left
    obtain ⟨v, hget, _⟩ := getOrPanic_of (hp w (by simp [Action.reads]))
    refine ⟨{ s with lastStatus := some (v.bits % 256) }, ?_, { hs with }, fun _ h => h, ?_, rfl⟩
    · simp only [execAction, hget, bind, Except.bind, pure, Except.pure]
    · intro m hm; simp [Action.writes] at hm

/-! ### action lists -/

/-- the schedule condition for presence: every wire an action reads is available before it runs -/
def Sched (avail : List String) : List Action → Prop
  | [] => True
  | a :: rest => (∀ n ∈ a.reads, n ∈ avail) ∧ Sched (avail ++ a.writes) rest

theorem execActions_sound {fl : Flags} {Γ : Ctx} {κ : Env} (hΓ : CtxOK Γ) :
    ∀ (acts : List Action) (s : State) (avail : List String), StateOK Γ s →
      (∀ a ∈ acts, ActionOK fl Γ κ a) → Sched avail acts → (∀ n ∈ avail, s.values.contains n = true) →
      (∃ s', execActions fl acts s = .ok s' ∧ StateOK Γ s' ∧
          (∀ n, s.values.contains n = true → s'.values.contains n = true) ∧
          (∀ a ∈ acts, ∀ n ∈ a.writes, s'.values.contains n = true) ∧ s'.cycle = s.cycle) ∨
      execActions fl acts s = .error .divideByZero
  | [], s, _, hs, _, _, _ => Or.inl ⟨s, rfl, hs, fun _ h => h, by simp, rfl⟩
  | a :: rest, s, avail, hs, hok, hsched, hav => by
    have hp : Present s.values a.reads := fun n hn => hav n (hsched.1 n hn)
    rcases execAction_sound hΓ s hs a (hok a (by simp)) hp with ⟨s₁, h₁, hs₁, hmono₁, hw₁, hc₁⟩ | herr
    · have hav₁ : ∀ n ∈ avail ++ a.writes, s₁.values.contains n = true := by
        intro n hn
        rcases List.mem_append.mp hn with h | h
        · exact hmono₁ n (hav n h)
        · exact hw₁ n h
      rcases execActions_sound hΓ rest s₁ (avail ++ a.writes) hs₁ (fun b hb => hok b (List.mem_cons_of_mem _ hb))
          hsched.2 hav₁ with ⟨s₂, h₂, hs₂, hmono₂, hw₂, hc₂⟩ | herr₂
      · left
        refine ⟨s₂, by simp [execActions, h₁, h₂, bind, Except.bind], hs₂, fun n h => hmono₂ n (hmono₁ n h), ?_, by rw [hc₂, hc₁]⟩
        intro b hb n hn
        rcases List.mem_cons.mp hb with rfl | hb
        · exact hmono₂ n (hw₁ n hn)
        · exact hw₂ b hb n hn
      · right; simp [execActions, h₁, herr₂, bind, Except.bind]
    · right; simp [execActions, herr, bind, Except.bind]

/-! ### register banks -/

structure BankOK (Γ : Ctx) (vals : AMap WireValue) (b : RegisterBank) : Prop where
  defaults : ∀ p ∈ b.defaults, Γ p.1 = some p.2.width ∧ p.2.bits < p.2.width.card ∧ vals.contains p.1 = true
  signals : ∀ sg ∈ b.signals, Γ sg.1 = Γ sg.2.1 ∧ vals.contains sg.1 = true ∧ vals.contains sg.2.1 = true
  stall : vals.contains b.stall = true
  bubble : vals.contains b.bubble = true

theorem foldlM_inv {β : Type} (P : AMap WireValue → Prop) (f : AMap WireValue → β → E (AMap WireValue)) :
    ∀ (l : List β), (∀ vals x, x ∈ l → P vals → ∃ vals', f vals x = .ok vals' ∧ P vals') →
      ∀ vals, P vals → ∃ vals', l.foldlM f vals = .ok vals' ∧ P vals'
  | [], _, vals, h => ⟨vals, rfl, h⟩
  | x :: rest, hf, vals, h => by
    obtain ⟨v₁, h₁, hp₁⟩ := hf vals x (by simp) h
    obtain ⟨v₂, h₂, hp₂⟩ := foldlM_inv P f rest (fun v y hy hp => hf v y (List.mem_cons_of_mem _ hy) hp) v₁ hp₁
    exact ⟨v₂, by simp [List.foldlM, h₁, h₂, bind, Except.bind], hp₂⟩

/-- the invariant kept while the banks are processed: well-typed, and no name disappears -/
def KeepInv (Γ : Ctx) (base : AMap WireValue) (vals : AMap WireValue) : Prop :=
  ValsOK Γ vals ∧ ∀ n, base.contains n = true → vals.contains n = true

theorem setOrPanic_keep {Γ base vals} (h : KeepInv Γ base vals) (n : String) (v : WireValue)
    (hc : base.contains n = true) (hn : Γ n = some v.width) (hv : v.bits < v.width.card) :
    ∃ vals', setOrPanic vals n v = .ok vals' ∧ KeepInv Γ base vals' := by
  have hcv : vals.contains n = true := h.2 n hc
  refine ⟨vals.insert n v, by simp [setOrPanic, hcv, pure, Except.pure], h.1.insert n v hn hv, ?_⟩
  intro m hm; simp [AMap.contains_insert, h.2 m hm]

theorem processBanks_sound {Γ : Ctx} (banks : List RegisterBank) (vals : AMap WireValue) (hv : ValsOK Γ vals)
    (hb : ∀ b ∈ banks, BankOK Γ vals b) :
    ∃ vals', processBanks banks vals = .ok vals' ∧ ValsOK Γ vals' ∧
      ∀ n, vals.contains n = true → vals'.contains n = true := by
  have := foldlM_inv (KeepInv Γ vals) processBank banks ?_ vals ⟨hv, fun _ h => h⟩
  · obtain ⟨vals', h, hk⟩ := this
    exact ⟨vals', h, hk.1, hk.2⟩
  · intro cur bank hbank hcur
    have bok := hb bank hbank
    obtain ⟨st, hst, _⟩ := getOrPanic_of (hcur.2 _ bok.stall)
    obtain ⟨bu, hbu, _⟩ := getOrPanic_of (hcur.2 _ bok.bubble)
    simp only [processBank, hst, hbu, bind, Except.bind]
    by_cases hbub : bu.bits > 0
    · simp only [hbub, ↓reduceIte]
      apply foldlM_inv (KeepInv Γ vals) setDefault bank.defaults _ cur hcur
      intro v p hp hv'
      obtain ⟨h1, h2, h3⟩ := bok.defaults p hp
      exact setOrPanic_keep hv' p.1 p.2 h3 h1 h2
    · simp only [hbub, ↓reduceIte]
      by_cases hstall : st.bits > 0
      · simp only [hstall, Bool.not_true, Bool.false_eq_true, ↓reduceIte, decide_true]
        exact ⟨cur, rfl, hcur⟩
      · simp only [hstall, decide_false, Bool.not_false, ↓reduceIte]
        apply foldlM_inv (KeepInv Γ vals) loadOne bank.signals _ cur hcur
        intro v sg hsg hv'
        obtain ⟨hΓeq, hin, hout⟩ := bok.signals sg hsg
        obtain ⟨nv, hnv, hnv'⟩ := getOrPanic_of (hv'.2 _ hin)
        obtain ⟨hw, hlt⟩ := hv'.1 _ _ hnv'
        simp only [loadOne, hnv, bind, Except.bind]
        exact setOrPanic_keep hv' sg.2.1 nv hout (by rw [← hΓeq]; exact hw) hlt

/-! ### a whole cycle, and any number of cycles -/

/-- what acceptance must establish about a program (proved from `Program.new` elsewhere; also a
    checkable condition on any action list) -/
structure ProgramOK (fl : Flags) (Γ : Ctx) (κ : Env) (p : Program) (avail : List String) : Prop where
  ctx : CtxOK Γ
  actions : ∀ a ∈ p.actions, ActionOK fl Γ κ a
  sched : Sched avail p.actions

theorem stepCycle_sound {fl : Flags} {Γ : Ctx} {κ : Env} {p : Program} {avail : List String}
    (hp : ProgramOK fl Γ κ p avail) (s : State) (hs : StateOK Γ s)
    (hav : ∀ n ∈ avail, s.values.contains n = true) (hbanks : ∀ b ∈ p.banks, BankOK Γ s.values b) :
    (∃ s', stepCycle fl p s = .ok s' ∧ StateOK Γ s' ∧ s'.cycle = s.cycle + 1 ∧
        (∀ n, s.values.contains n = true → s'.values.contains n = true)) ∨
    stepCycle fl p s = .error .divideByZero := by
  rcases execActions_sound hp.ctx p.actions s avail hs hp.actions hp.sched hav with ⟨s₁, h₁, hs₁, hmono, _, hcyc⟩ | herr
  · have hb₁ : ∀ b ∈ p.banks, BankOK Γ s₁.values b := by
      intro b hb
      have := hbanks b hb
      exact ⟨fun q hq => ⟨(this.defaults q hq).1, (this.defaults q hq).2.1, hmono _ (this.defaults q hq).2.2⟩,
             fun sg hsg => ⟨(this.signals sg hsg).1, hmono _ (this.signals sg hsg).2.1, hmono _ (this.signals sg hsg).2.2⟩,
             hmono _ this.stall, hmono _ this.bubble⟩
    obtain ⟨vals', hpb, hv', hmono'⟩ := processBanks_sound p.banks s₁.values hs₁.vals hb₁
    left
    refine ⟨{ s₁ with values := vals', cycle := s₁.cycle + 1 }, ?_, { hs₁ with vals := hv' }, ?_, ?_⟩
    · simp [stepCycle, h₁, hpb, bind, Except.bind, pure, Except.pure]
    · simp [hcyc]
    · intro n hn; exact hmono' n (hmono n hn)
  · right; simp [stepCycle, herr, bind, Except.bind]
