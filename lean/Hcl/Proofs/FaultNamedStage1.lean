import Hcl.Proofs.FaultNamed
open Rust

/-! Group A: the stage-1 faults of a statement list, each with the diagnostic `Program::new` reports for it.
    The antecedents are about the statement list only. -/

namespace FaultNamed

/-! ### declarative vocabulary -/

/-- `n` is declared by a `const` statement -/
def DeclaredConst (stmts : List Stmt) (n : String) : Prop := ∃ ds, Stmt.consts ds ∈ stmts ∧ ∃ d ∈ ds, d.name = n

/-- all constant declarations, in order -/
def constDecls (stmts : List Stmt) : List ConstDecl :=
  stmts.flatMap fun st => match st with
    | .consts ds => ds
    | _ => []

theorem mem_constDecls (stmts : List Stmt) (d : ConstDecl) : d ∈ constDecls stmts ↔ ∃ ds, Stmt.consts ds ∈ stmts ∧ d ∈ ds := by
  unfold constDecls
  rw [List.mem_flatMap]
  constructor
  · rintro ⟨st, hm, hd⟩
    cases st with
    | consts ds => exact ⟨ds, hm, hd⟩
    | wires ds => cases hd
    | assigns as => cases hd
    | bank b => cases hd
  · rintro ⟨ds, hm, hd⟩
    exact ⟨_, hm, hd⟩

theorem declaredConst_iff (stmts : List Stmt) (n : String) : DeclaredConst stmts n ↔ ∃ d ∈ constDecls stmts, d.name = n := by
  unfold DeclaredConst
  constructor
  · rintro ⟨ds, hm, d, hd, e⟩
    exact ⟨d, (mem_constDecls stmts d).mpr ⟨ds, hm, hd⟩, e⟩
  · rintro ⟨d, hd, e⟩
    obtain ⟨ds, hm, hd⟩ := (mem_constDecls stmts d).mp hd
    exact ⟨ds, hm, d, hd, e⟩

/-- `d` is the declaration of its name that counts: no later `const` declaration has the same name
    (`constants_raw.insert` overwrites) -/
def LastConstDecl (stmts : List Stmt) (d : ConstDecl) : Prop :=
  ∃ pre post, constDecls stmts = pre ++ d :: post ∧ ∀ d' ∈ post, d'.name ≠ d.name

/-- a name declared once as a constant: its declaration is the one that counts -/
theorem lastConstDecl_of_count_one (stmts : List Stmt) (d : ConstDecl) (hd : d ∈ constDecls stmts)
    (h1 : ((constDecls stmts).map (·.name)).count d.name = 1) : LastConstDecl stmts d := by
  obtain ⟨pre, post, hs⟩ := List.append_of_mem hd
  refine ⟨pre, post, hs, ?_⟩
  intro d' hd' he
  rw [hs, List.map_append, List.map_cons, List.count_append, List.count_cons_self] at h1
  have : 0 < (post.map (·.name)).count d.name :=
    List.count_pos_iff.mpr (List.mem_map.mpr ⟨d', hd', he⟩)
  omega

/-! ### the tables of step 1 in terms of the statements -/

theorem step1G_declared_iff (fixed : List FixedFunction) (stmts : List Stmt) (n : String) :
    n ∈ (step1G fixed stmts).declared ↔ n ∈ allDeclared stmts := by
  unfold step1G
  rw [step1_fold_declared, (step1Init_empty fixed).2.1]
  simp

theorem step1G_assigned_iff (fixed : List FixedFunction) (stmts : List Stmt) (n : String) :
    n ∈ (step1G fixed stmts).assigned ↔ n ∈ allTargets stmts := by
  unfold step1G
  rw [step1_fold_assigned, (step1Init_empty fixed).2.2.1]
  simp

theorem step1G_assignments_contains_iff (fixed : List FixedFunction) (stmts : List Stmt) (n : String) :
    (step1G fixed stmts).assignments.contains n = true ↔ n ∈ allTargets stmts := by
  unfold step1G
  rw [step1_fold_assignments, (step1Init_empty fixed).2.2.2.2, assignedIn_iff_mem_allTargets]
  simp [AMap.contains]

theorem step1G_constant_iff (fixed : List FixedFunction) (stmts : List Stmt) (n : String) :
    (step1G fixed stmts).constantsRaw.contains n = true ↔ DeclaredConst stmts n := by
  unfold step1G DeclaredConst
  rw [step1_fold_constant, (step1Init_empty fixed).2.2.2.1]
  simp [AMap.contains]

/-- the names of the width table before the statements are read: the names of the built-in components -/
theorem step1Init_wire_iff (fixed : List FixedFunction) (n : String) :
    (step1Init fixed).wires.contains n = true ↔ n ∈ fixedNamesOf fixed := by
  rw [AMap.contains_iff_mem_keys]
  unfold step1Init fixedNamesOf
  rw [mem_dedupS]
  have := fold_seen (β := FixedFunction) (fun s => s.wires.keys)
    (fun s f =>
      let s := f.inWires.foldl (fun s (w : String × Nat) =>
        { s with wireTypes := s.wireTypes.insert w.1 .builtinInput, wires := s.wires.insert w.1 (.bits w.2) }) s
      match f.outWire with
      | some (n, w) => { s with wireTypes := s.wireTypes.insert n .builtinOutput, wires := s.wires.insert n (.bits w) }
      | none => s)
    (fun f => f.inWires.map (·.1) ++ (match f.outWire with | some (n, _) => [n] | none => []))
    (by
      intro s f n
      have hin := fold_seen (β := String × Nat) (fun s => s.wires.keys)
        (fun s (w : String × Nat) =>
          { s with wireTypes := s.wireTypes.insert w.1 .builtinInput, wires := s.wires.insert w.1 (.bits w.2) })
        (fun w => [w.1])
        (by
          intro s w n
          show n ∈ (AMap.insert s.wires w.1 (Width.bits w.2)).keys ↔ _
          rw [AMap.mem_keys_insert]; simp) f.inWires s n
      rw [flatMap_single_fun] at hin
      cases ho : f.outWire with
      | none =>
        simp only [List.append_nil]
        exact hin
      | some p =>
        obtain ⟨m, w⟩ := p
        simp only
        show n ∈ (AMap.insert _ m (Width.bits w)).keys ↔ _
        rw [AMap.mem_keys_insert, hin, List.mem_append]
        simp [or_assoc])
    fixed {} n
  refine this.trans ?_
  simp only [AMap.keys, List.map_nil, List.not_mem_nil, false_or, List.mem_flatMap]
  constructor <;> rintro ⟨a, ha, h⟩ <;> refine ⟨a, ha, ?_⟩ <;>
    (cases ho : a.outWire <;> simp only [ho] at h ⊢ <;> exact h)

theorem step1G_wire_iff (fixed : List FixedFunction) (stmts : List Stmt) (n : String) :
    (step1G fixed stmts).wires.contains n = true ↔ (n ∈ fixedNamesOf fixed ∨ DeclaredWire stmts n) := by
  unfold step1G DeclaredWire
  rw [step1_fold_wire, step1Init_wire_iff]

/-! the table of the constants' definitions -/

section
variable (FN FO : List String)

theorem consts_fold_constantsRaw : ∀ (ds : List ConstDecl) (s : Step1),
    (ds.foldl (step1Const FN) s).constantsRaw = ds.foldl (fun m d => AMap.insert m d.name d.value) s.constantsRaw
  | [], _ => rfl
  | d :: rest, s => by
    rw [List.foldl_cons, List.foldl_cons, consts_fold_constantsRaw rest]
    rfl

theorem step1Stmt_constantsRaw (s : Step1) (st : Stmt) :
    (step1Stmt FN FO s st).constantsRaw =
      (constDecls [st]).foldl (fun m d => AMap.insert m d.name d.value) s.constantsRaw := by
  cases st with
  | consts ds =>
    show (ds.foldl (step1Const FN) s).constantsRaw = _
    rw [consts_fold_constantsRaw]
    simp [constDecls]
  | wires ds =>
    have : (step1Stmt FN FO s (.wires ds)).constantsRaw = s.constantsRaw :=
      fold_proj_eq (·.constantsRaw) (step1Wire FN) (fun _ _ => rfl) ds s
    rw [this]; simp [constDecls]
  | assigns as =>
    have : (step1Stmt FN FO s (.assigns as)).constantsRaw = s.constantsRaw :=
      fold_proj_eq (·.constantsRaw) (step1Assign FO)
        (fun s a => fold_proj_eq (·.constantsRaw) (step1Name FO a.value) (fun _ _ => rfl) a.names s) as s
    rw [this]; simp [constDecls]
  | bank b => simp [step1Stmt, constDecls]

theorem step1_fold_constantsRaw : ∀ (stmts : List Stmt) (s : Step1),
    (stmts.foldl (step1Stmt FN FO) s).constantsRaw =
      (constDecls stmts).foldl (fun m d => AMap.insert m d.name d.value) s.constantsRaw
  | [], _ => rfl
  | st :: rest, s => by
    rw [List.foldl_cons, step1_fold_constantsRaw rest, step1Stmt_constantsRaw]
    have : constDecls (st :: rest) = constDecls [st] ++ constDecls rest := by
      simp [constDecls]
    rw [this, List.foldl_append]
end

theorem foldl_insert_get?_ne : ∀ (post : List ConstDecl) (m : AMap Ex) (k : String), (∀ d' ∈ post, d'.name ≠ k) →
    (post.foldl (fun m d => AMap.insert m d.name d.value) m).get? k = m.get? k
  | [], _, _, _ => rfl
  | d :: rest, m, k, h => by
    rw [List.foldl_cons, foldl_insert_get?_ne rest _ k (fun d' hd' => h d' (List.mem_cons_of_mem _ hd'))]
    exact AMap.get?_insert_ne _ _ _ _ (fun e => h d List.mem_cons_self e.symm)

/-- the definition recorded for a constant is that of its last declaration -/
theorem step1G_constantsRaw_get? (fixed : List FixedFunction) (stmts : List Stmt) (d : ConstDecl)
    (h : LastConstDecl stmts d) : (step1G fixed stmts).constantsRaw.get? d.name = some d.value := by
  obtain ⟨pre, post, hs, hpost⟩ := h
  unfold step1G
  rw [step1_fold_constantsRaw, hs, List.foldl_append, List.foldl_cons, foldl_insert_get?_ne post _ _ hpost]
  exact AMap.get?_insert_self _ _ _

theorem step1G_constantsRaw_mem (fixed : List FixedFunction) (stmts : List Stmt) (d : ConstDecl)
    (h : LastConstDecl stmts d) : (d.name, d.value) ∈ (step1G fixed stmts).constantsRaw :=
  AMap.mem_of_get? _ _ _ (step1G_constantsRaw_get? fixed stmts d h)

/-- conversely every recorded definition is that of a last declaration -/
theorem foldl_insert_mem : ∀ (ds : List ConstDecl) (m : AMap Ex) (p : String × Ex),
    p ∈ ds.foldl (fun m d => AMap.insert m d.name d.value) m →
      p ∈ m ∨ ∃ d ∈ ds, p = (d.name, d.value)
  | [], _, _, h => Or.inl h
  | d :: rest, m, p, h => by
    rw [List.foldl_cons] at h
    rcases foldl_insert_mem rest _ p h with h | ⟨d', hd', e⟩
    · rcases AMap.mem_insert _ _ _ _ h with h | h
      · exact Or.inl h
      · exact Or.inr ⟨d, List.mem_cons_self, h⟩
    · exact Or.inr ⟨d', List.mem_cons_of_mem _ hd', e⟩

theorem step1G_constantsRaw_mem_decl (fixed : List FixedFunction) (stmts : List Stmt) (p : String × Ex)
    (h : p ∈ (step1G fixed stmts).constantsRaw) : ∃ d ∈ constDecls stmts, p = (d.name, d.value) := by
  unfold step1G at h
  rw [step1_fold_constantsRaw, (step1Init_empty fixed).2.2.2.1] at h
  rcases foldl_insert_mem _ _ p h with h | h
  · cases h
  · exact h

/-! ### the diagnostics of `constRefErrors` and of assigned constants, by membership -/

theorem mem_constRefErrors_nonconst (s1 : Step1) (p : String × Ex) (hp : p ∈ s1.constantsRaw) (r : String)
    (hr : r ∈ refs p.2) (hw : s1.wires.contains r = true) (hc : s1.constantsRaw.contains r = false) :
    (⟨.NonConstantWireRead, [r]⟩ : Diag) ∈ constRefErrors s1 := by
  unfold constRefErrors
  refine List.mem_flatMap.mpr ⟨p, hp, List.mem_flatMap.mpr ⟨r, (mem_dedupS _ _).mpr hr, ?_⟩⟩
  simp only [hw, hc, Bool.not_false, Bool.and_self, if_true]
  rw [List.mem_replicate]
  refine ⟨?_, rfl⟩
  unfold occurrences
  exact Nat.pos_iff_ne_zero.mp (List.count_pos_iff.mpr hr)

theorem mem_constRefErrors_undeclared (s1 : Step1) (p : String × Ex) (hp : p ∈ s1.constantsRaw) (r : String)
    (hr : r ∈ refs p.2) (hw : s1.wires.contains r = false) (hc : s1.constantsRaw.contains r = false) :
    (⟨.UndeclaredWireRead, [r]⟩ : Diag) ∈ constRefErrors s1 := by
  unfold constRefErrors
  refine List.mem_flatMap.mpr ⟨p, hp, List.mem_flatMap.mpr ⟨r, (mem_dedupS _ _).mpr hr, ?_⟩⟩
  simp only [hw, hc, Bool.not_false, Bool.false_and, Bool.false_eq_true, if_false, if_true]
  rw [List.mem_replicate]
  refine ⟨?_, rfl⟩
  unfold occurrences
  exact Nat.pos_iff_ne_zero.mp (List.count_pos_iff.mpr hr)

/-- conversely, what a diagnostic of `constRefErrors` says -/
theorem constRefErrors_sound (s1 : Step1) (d : Diag) (h : d ∈ constRefErrors s1) :
    ∃ p ∈ s1.constantsRaw, ∃ r ∈ refs p.2, s1.constantsRaw.contains r = false ∧
      ((d = ⟨.NonConstantWireRead, [r]⟩ ∧ s1.wires.contains r = true) ∨
       (d = ⟨.UndeclaredWireRead, [r]⟩ ∧ s1.wires.contains r = false)) := by
  unfold constRefErrors at h
  obtain ⟨p, hp, h⟩ := List.mem_flatMap.mp h
  obtain ⟨r, hr, h⟩ := List.mem_flatMap.mp h
  rw [mem_dedupS] at hr
  refine ⟨p, hp, r, hr, ?_⟩
  cases hc : AMap.contains s1.constantsRaw r with
  | true => simp [hc] at h
  | false =>
    refine ⟨rfl, ?_⟩
    cases hw : AMap.contains s1.wires r with
    | true =>
      simp only [hw, hc, Bool.not_false, Bool.and_self, if_true] at h
      exact Or.inl ⟨(List.mem_replicate.mp h).2, rfl⟩
    | false =>
      simp only [hw, hc, Bool.not_false, Bool.false_and, Bool.false_eq_true, if_false, if_true] at h
      exact Or.inr ⟨(List.mem_replicate.mp h).2, rfl⟩

theorem mem_assignedConst (s1 : Step1) (n : String) (ha : n ∈ s1.assigned) (hc : s1.constantsRaw.contains n = true) :
    (⟨.AssignedConstant, [n]⟩ : Diag) ∈
      s1.assigned.flatMap fun n => if s1.constantsRaw.contains n then [(⟨.AssignedConstant, [n]⟩ : Diag)] else [] :=
  List.mem_flatMap.mpr ⟨n, ha, by rw [if_pos hc]; exact List.mem_singleton.mpr rfl⟩

theorem mem_errs1Of (s1 : Step1) (d : Diag) :
    d ∈ errs1Of s1 ↔ d ∈ s1.errors ∨
      d ∈ (s1.assigned.flatMap fun n => if s1.constantsRaw.contains n then [(⟨.AssignedConstant, [n]⟩ : Diag)] else []) ∨
      d ∈ constRefErrors s1 := by
  unfold errs1Of
  rw [List.mem_append, List.mem_append, or_assoc]

/-! ### Group A: the faults and their diagnostics -/

section groupA
variable (fl : Flags) (cls : CharClass) (o : Orders) (fixed : List FixedFunction) (stmts : List Stmt)

/-- A1a. a name declared twice (by `wire` or `const` declarations, in any combination) -/
theorem redeclared_named (n : String) (h : 2 ≤ (allDeclared stmts).count n) :
    ∃ ds, Program.new fl cls o fixed stmts = .error ds ∧ (⟨.RedeclaredWire, [n]⟩ : Diag) ∈ ds := by
  apply Program_new_stage1
  rw [mem_errs1Of, step1G_errors_mem]
  exact Or.inl (Or.inl (mem_dupErrs_twice _ _ _ _ _ n h))

/-- A1b. a declaration of the name of an input or output of a built-in component -/
theorem redeclared_builtin_named (n : String) (h : n ∈ allDeclared stmts) (hf : n ∈ fixedNamesOf fixed) :
    ∃ ds, Program.new fl cls o fixed stmts = .error ds ∧ (⟨.RedeclaredBuiltinWire, [n]⟩ : Diag) ∈ ds := by
  apply Program_new_stage1
  rw [mem_errs1Of, step1G_errors_mem]
  exact Or.inl (Or.inl (mem_dupErrs_forbidden _ _ _ _ _ n (by simp) h hf))

/-- A2. a name assigned twice (in one statement `a = a = e`, in one `assigns` group, or across statements) -/
theorem double_assigned_named (n : String) (h : 2 ≤ (allTargets stmts).count n) :
    ∃ ds, Program.new fl cls o fixed stmts = .error ds ∧ (⟨.DoubleAssignedWire, [n]⟩ : Diag) ∈ ds := by
  apply Program_new_stage1
  rw [mem_errs1Of, step1G_errors_mem]
  exact Or.inl (Or.inr (mem_dupErrs_twice _ _ _ _ _ n h))

/-- A3. an assignment to the output of a built-in component -/
theorem assigned_fixed_out_named (n : String) (h : n ∈ allTargets stmts) (hf : n ∈ fixedOutOf fixed) :
    ∃ ds, Program.new fl cls o fixed stmts = .error ds ∧ (⟨.DoubleAssignedFixedOutWire, [n]⟩ : Diag) ∈ ds := by
  apply Program_new_stage1
  rw [mem_errs1Of, step1G_errors_mem]
  exact Or.inl (Or.inr (mem_dupErrs_forbidden _ _ _ _ _ n (by simp) h hf))

/-- A4. an assignment to a declared constant -/
theorem assigned_constant_named (n : String) (h : n ∈ allTargets stmts) (hc : DeclaredConst stmts n) :
    ∃ ds, Program.new fl cls o fixed stmts = .error ds ∧ (⟨.AssignedConstant, [n]⟩ : Diag) ∈ ds := by
  apply Program_new_stage1
  rw [mem_errs1Of]
  exact Or.inr (Or.inl (mem_assignedConst _ n ((step1G_assigned_iff fixed stmts n).mpr h)
    ((step1G_constant_iff fixed stmts n).mpr hc)))

/-- A5a. the definition of a constant reads a wire (a declared wire or a name of a built-in component) that is not
    also declared as a constant -/
theorem const_reads_wire_named (d : ConstDecl) (hd : LastConstDecl stmts d) (r : String) (hr : r ∈ refs d.value)
    (hw : r ∈ fixedNamesOf fixed ∨ DeclaredWire stmts r) (hc : ¬ DeclaredConst stmts r) :
    ∃ ds, Program.new fl cls o fixed stmts = .error ds ∧ (⟨.NonConstantWireRead, [r]⟩ : Diag) ∈ ds := by
  apply Program_new_stage1
  rw [mem_errs1Of]
  refine Or.inr (Or.inr (mem_constRefErrors_nonconst _ (d.name, d.value) (step1G_constantsRaw_mem fixed stmts d hd) r hr
    ((step1G_wire_iff fixed stmts r).mpr hw) ?_))
  cases h : (step1G fixed stmts).constantsRaw.contains r with
  | false => rfl
  | true => exact absurd ((step1G_constant_iff fixed stmts r).mp h) hc

/-- A5b. the definition of a constant reads a name that is not declared at all -/
theorem const_reads_undeclared_named (d : ConstDecl) (hd : LastConstDecl stmts d) (r : String) (hr : r ∈ refs d.value)
    (hnf : r ∉ fixedNamesOf fixed) (hnw : ¬ DeclaredWire stmts r) (hc : ¬ DeclaredConst stmts r) :
    ∃ ds, Program.new fl cls o fixed stmts = .error ds ∧ (⟨.UndeclaredWireRead, [r]⟩ : Diag) ∈ ds := by
  apply Program_new_stage1
  rw [mem_errs1Of]
  refine Or.inr (Or.inr (mem_constRefErrors_undeclared _ (d.name, d.value) (step1G_constantsRaw_mem fixed stmts d hd) r hr ?_ ?_))
  · cases h : (step1G fixed stmts).wires.contains r with
    | false => rfl
    | true =>
      rcases (step1G_wire_iff fixed stmts r).mp h with h | h
      · exact absurd h hnf
      · exact absurd h hnw
  · cases h : (step1G fixed stmts).constantsRaw.contains r with
    | false => rfl
    | true => exact absurd ((step1G_constant_iff fixed stmts r).mp h) hc

/-- **the converse for stage 1**: when stage 1 reports anything, the result of `Program::new` is exactly its list, and every
    diagnostic in it is one of the seven above, naming a name for which the corresponding fault holds -/
theorem stage1_sound (ds : List Diag) (hne : errs1Of (step1G fixed stmts) ≠ [])
    (h : Program.new fl cls o fixed stmts = .error ds) (d : Diag) (hd : d ∈ ds) :
    ∃ n, d.names = [n] ∧
      ((d.kind = .RedeclaredWire ∧ 2 ≤ (allDeclared stmts).count n) ∨
       (d.kind = .RedeclaredBuiltinWire ∧ n ∈ allDeclared stmts ∧ n ∈ fixedNamesOf fixed) ∨
       (d.kind = .DoubleAssignedWire ∧ 2 ≤ (allTargets stmts).count n) ∨
       (d.kind = .DoubleAssignedFixedOutWire ∧ n ∈ allTargets stmts ∧ n ∈ fixedOutOf fixed) ∨
       (d.kind = .AssignedConstant ∧ n ∈ allTargets stmts ∧ DeclaredConst stmts n) ∨
       (d.kind = .NonConstantWireRead ∧ (n ∈ fixedNamesOf fixed ∨ DeclaredWire stmts n) ∧ ¬ DeclaredConst stmts n ∧
          ∃ c ∈ constDecls stmts, n ∈ refs c.value) ∨
       (d.kind = .UndeclaredWireRead ∧ n ∉ fixedNamesOf fixed ∧ ¬ DeclaredWire stmts n ∧ ¬ DeclaredConst stmts n ∧
          ∃ c ∈ constDecls stmts, n ∈ refs c.value)) := by
  rw [Program_new_stage1_error fl cls o fixed stmts hne] at h
  simp only [Except.error.injEq] at h
  subst h
  rw [mem_errs1Of, step1G_errors_mem] at hd
  rcases hd with (hd | hd) | hd | hd
  · obtain ⟨n, hn, h⟩ := dupErrs_sound _ _ _ _ _ _ hd
    refine ⟨n, ?_⟩
    rcases h with ⟨rfl, h⟩ | ⟨rfl, hF, _⟩
    · refine ⟨rfl, Or.inl ⟨rfl, ?_⟩⟩
      rcases h with h | h
      · cases h
      · exact h
    · exact ⟨rfl, Or.inr (Or.inl ⟨rfl, hn, hF⟩)⟩
  · obtain ⟨n, hn, h⟩ := dupErrs_sound _ _ _ _ _ _ hd
    refine ⟨n, ?_⟩
    rcases h with ⟨rfl, h⟩ | ⟨rfl, hF, _⟩
    · refine ⟨rfl, Or.inr (Or.inr (Or.inl ⟨rfl, ?_⟩))⟩
      rcases h with h | h
      · cases h
      · exact h
    · exact ⟨rfl, Or.inr (Or.inr (Or.inr (Or.inl ⟨rfl, hn, hF⟩)))⟩
  · obtain ⟨n, hn, h⟩ := List.mem_flatMap.mp hd
    refine ⟨n, ?_⟩
    by_cases hc : (step1G fixed stmts).constantsRaw.contains n = true
    · rw [if_pos hc] at h
      have := List.mem_singleton.mp h
      subst this
      exact ⟨rfl, Or.inr (Or.inr (Or.inr (Or.inr (Or.inl ⟨rfl, (step1G_assigned_iff fixed stmts n).mp hn,
        (step1G_constant_iff fixed stmts n).mp hc⟩))))⟩
    · rw [if_neg hc] at h; cases h
  · obtain ⟨p, hp, r, hr, hc, h⟩ := constRefErrors_sound _ d hd
    obtain ⟨c, hcd, rfl⟩ := step1G_constantsRaw_mem_decl fixed stmts p hp
    have hnc : ¬ DeclaredConst stmts r := by
      intro hdc
      have := (step1G_constant_iff fixed stmts r).mpr hdc
      rw [hc] at this; cases this
    refine ⟨r, ?_⟩
    rcases h with ⟨rfl, hw⟩ | ⟨rfl, hw⟩
    · exact ⟨rfl, Or.inr (Or.inr (Or.inr (Or.inr (Or.inr (Or.inl ⟨rfl, (step1G_wire_iff fixed stmts r).mp hw, hnc, c, hcd, hr⟩)))))⟩
    · refine ⟨rfl, Or.inr (Or.inr (Or.inr (Or.inr (Or.inr (Or.inr ⟨rfl, ?_, ?_, hnc, c, hcd, hr⟩)))))⟩
      · intro hm
        have := (step1G_wire_iff fixed stmts r).mpr (Or.inl hm)
        rw [hw] at this; cases this
      · intro hm
        have := (step1G_wire_iff fixed stmts r).mpr (Or.inr hm)
        rw [hw] at this; cases this

end groupA

end FaultNamed
