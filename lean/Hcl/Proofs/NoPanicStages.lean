import Hcl.Proofs.NoPanic
import Hcl.Proofs.Accepted

/-! The model of `Program::new` never reports an internal error (`InternalPanic`: an `assert!`, `unwrap()` or
    `panic!` of the real code, which the parser's `catch_unwind` would turn into "Internal parser error"). -/

theorem checkFixEval_np (fl : Flags) (Γ : Ctx) (κ : Env) (e : Ex) (ds : List Diag)
    (hΓ : CtxOK Γ) (hon : EnvOn Γ κ (refs e)) (hwf : wfEx e = true) (h : checkFixEval fl Γ κ e = .error ds) :
    NoPanic ds := by
  unfold checkFixEval at h
  cases hc : check fl Γ κ e with
  | error ds' =>
    rw [hc] at h
    simp only [Except.error.injEq] at h
    subst h
    exact check_np fl Γ κ e _ hc
  | ok w =>
    rw [hc] at h
    simp only at h
    obtain ⟨_, _, hcorr⟩ := ev_correct (fl := fl) (Γ := Γ) (κ := κ) (σ := κ) hΓ e w hon hwf hc
    cases hd : Spec.dv Γ (val κ) e with
    | none =>
      rw [hd] at hcorr
      simp only at hcorr
      rw [hcorr] at h
      simp only [Except.error.injEq] at h
      rw [← h]
      intro d hd'
      simp at hd'
      subst hd'
      simp [Err.toDiag]
    | some x =>
      rw [hd] at hcorr
      simp only at hcorr
      rw [hcorr.1] at h
      simp at h

/-! ### step 1 -/

section
variable (FN FO : List String)

theorem checkDoubleDeclare_np (s : Step1) (name : String) (h : NoPanic s.errors) :
    NoPanic (checkDoubleDeclare FN s name).errors := by
  unfold checkDoubleDeclare
  apply noPanic_append h
  split
  · intro d hd; simp at hd; subst hd; simp
  · split
    · intro d hd; simp at hd; subst hd; simp
    · exact noPanic_nil

theorem step1Stmt_np (s : Step1) (st : Stmt) (h : NoPanic s.errors) : NoPanic (step1Stmt FN FO s st).errors := by
  have fold_np : ∀ {α : Type} (f : Step1 → α → Step1), (∀ s a, NoPanic s.errors → NoPanic (f s a).errors) →
      ∀ (l : List α) (s : Step1), NoPanic s.errors → NoPanic (l.foldl f s).errors := by
    intro α f hf l
    induction l with
    | nil => intro s hs; exact hs
    | cons a rest ih => intro s hs; exact ih _ (hf s a hs)
  cases st with
  | consts ds =>
    apply fold_np (step1Const FN) _ ds s h
    intro s d hs
    exact checkDoubleDeclare_np FN s d.name hs
  | wires ds =>
    apply fold_np (step1Wire FN) _ ds s h
    intro s d hs
    exact checkDoubleDeclare_np FN s d.name hs
  | assigns as =>
    apply fold_np (step1Assign FO) _ as s h
    intro s a hs
    apply fold_np (step1Name FO a.value) _ a.names s hs
    intro s n hs
    unfold step1Name
    apply noPanic_append hs
    split
    · intro d hd; simp at hd; subst hd; simp
    · split
      · intro d hd; simp at hd; subst hd; simp
      · exact noPanic_nil
  | bank b => exact h

theorem step1_fold_np (stmts : List Stmt) (s : Step1) (h : NoPanic s.errors) :
    NoPanic (stmts.foldl (step1Stmt FN FO) s).errors := by
  induction stmts generalizing s with
  | nil => exact h
  | cons st rest ih => exact ih _ (step1Stmt_np FN FO s st h)
end

/-! ### step 2: `resolve_constants` -/

theorem addDeps_nodes_upper (known : List String) (target : String) : ∀ (srcs : List String) (g : GBuild) (n : Node),
    n ∈ (addDeps known target srcs g).nodes → n ∈ g.nodes ∨ n = target ∨ n ∈ srcs
  | [], g, n, h => Or.inl h
  | s :: rest, g, n, h => by
    unfold addDeps at h
    simp only [List.foldl_cons] at h
    by_cases hk : known.contains s = true
    · simp only [hk, if_true] at h
      rcases addDeps_nodes_upper known target rest g n h with h1 | h1 | h1
      · exact Or.inl h1
      · exact Or.inr (Or.inl h1)
      · exact Or.inr (Or.inr (List.mem_cons_of_mem _ h1))
    · have hk' : known.contains s = false := by simpa using hk
      simp only [hk', Bool.false_eq_true, if_false] at h
      rcases addDeps_nodes_upper known target rest (g.insert s target) n h with h1 | h1 | h1
      · have h1' : n ∈ setInsert (setInsert g.nodes s) target := h1
        rw [mem_setInsert, mem_setInsert] at h1'
        rcases h1' with (h2 | h2) | h2
        · exact Or.inl h2
        · exact Or.inr (Or.inr (by rw [h2]; exact List.mem_cons_self))
        · exact Or.inr (Or.inl h2)
      · exact Or.inr (Or.inl h1)
      · exact Or.inr (Or.inr (List.mem_cons_of_mem _ h1))

theorem addDeps_nodes_mono (known : List String) (target : String) : ∀ (srcs : List String) (g : GBuild) (n : Node),
    n ∈ g.nodes → n ∈ (addDeps known target srcs g).nodes
  | [], _, _, h => h
  | s :: rest, g, n, h => by
    unfold addDeps
    simp only [List.foldl_cons]
    split
    · exact addDeps_nodes_mono known target rest g n h
    · exact addDeps_nodes_mono known target rest (g.insert s target) n (g.nodes_insert_mono s target n h)

def constGraphFrom (l : List (String × Ex)) (g : GBuild) : GBuild :=
  l.foldl (fun g (p : String × Ex) => (addDeps [] p.1 (dedupS (refs p.2)) g).addNode p.1) g

theorem constGraph_eq (exprs : AMap Ex) : constGraph exprs = constGraphFrom exprs {} := by
  unfold constGraph constGraphFrom addDeps
  congr 1

theorem constGraphFrom_spec : ∀ (l : List (String × Ex)) (g : GBuild),
    g.WF → (l.map (·.1)).Nodup → (∀ p ∈ l, ∀ e ∈ g.edges, e.2 ≠ p.1) →
    (constGraphFrom l g).WF ∧ (∀ p ∈ l, p.1 ∈ (constGraphFrom l g).nodes) ∧
    (∀ n ∈ (constGraphFrom l g).nodes, n ∈ g.nodes ∨ ∃ p ∈ l, n = p.1 ∨ n ∈ refs p.2)
  | [], g, wf, _, _ => ⟨wf, by simp, fun n hn => Or.inl hn⟩
  | p :: rest, g, wf, hnd, hfresh => by
    simp only [List.map_cons, List.nodup_cons] at hnd
    have hnew : ∀ s ∈ dedupS (refs p.2), (s, p.1) ∉ g.edges := by
      intro s _ hm
      exact hfresh p List.mem_cons_self (s, p.1) hm rfl
    obtain ⟨a1, a2, a3⟩ := addDeps_spec [] p.1 (dedupS (refs p.2)) g wf (nodup_dedupS _) hnew
    have wf1 := (addDeps [] p.1 (dedupS (refs p.2)) g).wf_addNode p.1 a1
    have hfresh' : ∀ q ∈ rest, ∀ e ∈ ((addDeps [] p.1 (dedupS (refs p.2)) g).addNode p.1).edges, e.2 ≠ q.1 := by
      intro q hq e he
      have he' : e ∈ (addDeps [] p.1 (dedupS (refs p.2)) g).edges := he
      rcases (a3 e).mp he' with h | ⟨h, _, _⟩
      · exact hfresh q (List.mem_cons_of_mem _ hq) e h
      · rw [h]; intro e2
        exact hnd.1 (List.mem_map.mpr ⟨q, hq, e2.symm⟩)
    obtain ⟨b1, b2, b3⟩ := constGraphFrom_spec rest _ wf1 hnd.2 hfresh'
    have hstep : constGraphFrom (p :: rest) g =
        constGraphFrom rest ((addDeps [] p.1 (dedupS (refs p.2)) g).addNode p.1) := rfl
    rw [hstep]
    refine ⟨b1, ?_, ?_⟩
    · intro q hq
      rcases List.mem_cons.mp hq with h | h
      · subst h
        -- the node was added and nodes only grow
        have hmono : ∀ (l : List (String × Ex)) (g : GBuild) (n : Node), n ∈ g.nodes → n ∈ (constGraphFrom l g).nodes := by
          intro l
          induction l with
          | nil => intro g n hn; exact hn
          | cons x xs ih =>
            intro g n hn
            apply ih
            show n ∈ setInsert _ x.1
            rw [mem_setInsert]
            left
            exact addDeps_nodes_mono [] x.1 (dedupS (refs x.2)) g n hn
        exact hmono rest _ _ ((mem_setInsert _ _ _).mpr (Or.inr rfl))
      · exact b2 q h
    · intro n hn
      rcases b3 n hn with h | ⟨q, hq, h⟩
      · have h' : n ∈ setInsert (addDeps [] p.1 (dedupS (refs p.2)) g).nodes p.1 := h
        rw [mem_setInsert] at h'
        rcases h' with h1 | h1
        · rcases addDeps_nodes_upper [] p.1 (dedupS (refs p.2)) g n h1 with h2 | h2 | h2
          · exact Or.inl h2
          · exact Or.inr ⟨p, List.mem_cons_self, Or.inl h2⟩
          · exact Or.inr ⟨p, List.mem_cons_self, Or.inr ((mem_dedupS _ _).mp h2)⟩
        · exact Or.inr ⟨p, List.mem_cons_self, Or.inl h1⟩
      · exact Or.inr ⟨q, List.mem_cons_of_mem _ hq, h⟩

theorem panicDiag_not_np : ¬ NoPanic panicDiag := by
  intro h
  exact h ⟨.InternalPanic, []⟩ (by simp [panicDiag]) rfl

theorem resolveLoop_np (fl : Flags) (exprs : AMap Ex) (hwf : ∀ p ∈ exprs, wfEx p.2 = true) :
    ∀ (names : List String) (res : AMap WireValue) (errs : List Diag),
      (∀ n ∈ names, (exprs.get? n).isSome = true) → ConstOK res → NoPanic errs →
      NoPanic (resolveLoop fl exprs names res errs).2
  | [], _, _, _, _, he => he
  | name :: rest, res, errs, hn, hc, he => by
    unfold resolveLoop
    cases hg : exprs.get? name with
    | none =>
      have := hn name List.mem_cons_self
      rw [hg] at this; simp at this
    | some e =>
      simp only
      have hrest : ∀ n ∈ rest, (exprs.get? n).isSome = true := fun n h => hn n (List.mem_cons_of_mem _ h)
      obtain ⟨c1, c2⟩ := constCtx_ok res hc
      have hwfe := hwf (name, e) (AMap.mem_of_get? _ _ _ hg)
      cases hcf : checkFixEval fl (AMap.toCtx (res.map (fun p => (p.1, p.2.width)))) res.toEnv e with
      | error ds =>
        exact resolveLoop_np fl exprs hwf rest res _ hrest hc
          (noPanic_append he (checkFixEval_np fl _ _ e ds c1 (c2 _) hwfe hcf))
      | ok v =>
        exact resolveLoop_np fl exprs hwf rest _ _ hrest
          (constOK_insert res name v hc (checkFixEval_ok fl _ _ e v c1 (c2 _) hwfe hcf)) he

/-- when the loop records no error, every name it was given has a value afterwards -/
theorem resolveLoop_all (fl : Flags) (exprs : AMap Ex) : ∀ (names : List String) (res : AMap WireValue) (errs : List Diag),
    (resolveLoop fl exprs names res errs).2 = [] →
    errs = [] ∧ (∀ n, res.contains n = true → (resolveLoop fl exprs names res errs).1.contains n = true) ∧
      ∀ n ∈ names, (resolveLoop fl exprs names res errs).1.contains n = true
  | [], res, errs, h => ⟨h, fun _ hn => hn, by simp⟩
  | name :: rest, res, errs, h => by
    unfold resolveLoop at h ⊢
    cases hg : exprs.get? name with
    | none =>
      rw [hg] at h
      simp only [List.append_eq_nil_iff] at h
      exact absurd h.2 (by simp [panicDiag])
    | some e =>
      rw [hg] at h
      simp only at h ⊢
      cases hcf : checkFixEval fl (AMap.toCtx (res.map (fun p => (p.1, p.2.width)))) res.toEnv e with
      | error ds =>
        rw [hcf] at h
        simp only at h
        obtain ⟨h1, _, _⟩ := resolveLoop_all fl exprs rest res _ h
        rw [List.append_eq_nil_iff] at h1
        exact absurd h1.2 (checkFixEval_err fl _ _ _ _ hcf)
      | ok v =>
        rw [hcf] at h
        simp only at h ⊢
        obtain ⟨h1, h2, h3⟩ := resolveLoop_all fl exprs rest (res.insert name v) errs h
        refine ⟨h1, fun n hn => h2 n (by rw [AMap.contains_insert]; simp [hn]), ?_⟩
        intro n hn
        rcases List.mem_cons.mp hn with e1 | e1
        · subst e1; exact h2 _ (by rw [AMap.contains_insert]; simp)
        · exact h3 n e1

/-- **step 2 never reports an internal error** (and, when it succeeds, every constant has a value) -/
theorem resolveConstants_np (fl : Flags) (o : Orders) (exprs : AMap Ex) (ho : OrdersOK o)
    (hk : exprs.keys.Nodup) (hwf : ∀ p ∈ exprs, wfEx p.2 = true)
    (hrefs : ∀ p ∈ exprs, ∀ r ∈ refs p.2, exprs.contains r = true) :
    (∀ ds, resolveConstants fl o exprs = .error ds → NoPanic ds) ∧
    (∀ c, resolveConstants fl o exprs = .ok c → ∀ k ∈ exprs.keys, c.contains k = true) := by
  obtain ⟨gwf, gkeys, gupper⟩ := constGraphFrom_spec exprs {} GBuild.wf_empty hk (by intro p _ e he; simp at he)
  rw [← constGraph_eq] at gwf gkeys gupper
  have hnodes : ∀ n ∈ (constGraph exprs).nodes, (exprs.get? n).isSome = true := by
    intro n hn
    rw [AMap.get?_isSome_iff_contains]
    rcases gupper n hn with h | ⟨p, hp, h | h⟩
    · simp at h
    · rw [h]; exact (AMap.contains_iff_mem_keys _ _).mpr (List.mem_map.mpr ⟨p, hp, rfl⟩)
    · exact hrefs p hp n h
  unfold resolveConstants
  rcases (constGraph exprs).sort_spec o gwf ho with ⟨order, hso, _, hcover, _⟩ | ⟨c, hsc, _⟩
  · rw [hso]
    simp only
    have hnames : ∀ n ∈ order, (exprs.get? n).isSome = true := fun n hn => hnodes n ((hcover n).mp hn)
    constructor
    · intro ds h
      split at h
      · simp at h
      · simp only [Except.error.injEq] at h
        rw [← h]
        exact resolveLoop_np fl exprs hwf order [] [] hnames (by intro k v hv; simp [AMap.get?] at hv) noPanic_nil
    · intro c h k hk'
      split at h
      · rename_i herr
        simp only [Except.ok.injEq] at h
        have hnil : (resolveLoop fl exprs order [] []).2 = [] := by simpa using herr
        obtain ⟨_, _, h3⟩ := resolveLoop_all fl exprs order [] [] hnil
        rw [← h]
        obtain ⟨p, hp, rfl⟩ := List.mem_map.mp hk'
        rw [← AMap.get?_isSome_iff_contains, canonConsts_get?,
          (AMap.contains_iff_mem_keys exprs p.1).mpr (List.mem_map.mpr ⟨p, hp, rfl⟩), if_pos rfl,
          AMap.get?_isSome_iff_contains]
        exact h3 p.1 ((hcover p.1).mpr (gkeys p hp))
      · simp at h
  · rw [hsc]
    constructor
    · intro ds h
      simp only [Except.error.injEq] at h
      rw [← h]
      intro d hd; simp at hd; subst hd; simp
    · intro c h; simp at h

/-! ### step 3: register banks -/

theorem noPanic_of_kind (l : List Diag) (h : ∀ d ∈ l, d.kind ≠ .InternalPanic) : NoPanic l := h

theorem noPanic_replicate (n : Nat) (d : Diag) (h : d.kind ≠ .InternalPanic) : NoPanic (List.replicate n d) := by
  intro x hx
  rw [List.mem_replicate] at hx
  rw [hx.2]; exact h

theorem noPanic_flatMap {α : Type} (l : List α) (f : α → List Diag) (h : ∀ a ∈ l, NoPanic (f a)) : NoPanic (l.flatMap f) := by
  intro d hd
  obtain ⟨a, ha, hda⟩ := List.mem_flatMap.mp hd
  exact h a ha d hda

theorem noPanic_ite (c : Prop) [Decidable c] (a b : List Diag) (ha : NoPanic a) (hb : NoPanic b) : NoPanic (if c then a else b) := by
  split <;> assumption

theorem noPanic_single (d : Diag) (h : d.kind ≠ .InternalPanic) : NoPanic [d] := by
  intro x hx; simp at hx; subst hx; exact h

section
variable (fl : Flags) (cls : CharClass) (s1 : Step1) (constants : AMap WireValue)

theorem regPre_np (bank inName outName : String) (acc : BankAcc) (seen : List String) (r : RegDecl) :
    NoPanic (regPre s1 constants bank inName outName acc seen r).1 := by
  unfold regPre
  dsimp only
  repeat' (first
    | apply noPanic_append
    | apply noPanic_ite
    | (apply noPanic_flatMap; intro _ _)
    | exact noPanic_nil
    | exact noPanic_single _ (by simp)
    | exact noPanic_replicate _ _ (by simp))

theorem regEval_np (bank inName outName : String) (s : Step3) (acc : BankAcc) (r : RegDecl)
    (hc : ConstOK constants) (hr : r.width.ok ∧ wfEx r.default = true) (hs : NoPanic s.errors) :
    NoPanic (regEval fl constants bank inName outName s acc r).1.errors := by
  unfold regEval
  simp only
  obtain ⟨c1, c2⟩ := constCtx_ok constants hc
  cases hcf : checkFixEval fl (AMap.toCtx (constants.map (fun p => (p.1, p.2.width)))) constants.toEnv r.default with
  | error ds =>
    simp only
    exact noPanic_append hs (checkFixEval_np fl _ _ _ ds c1 (c2 _) hr.2 hcf)
  | ok value =>
    simp only
    rw [asWidth_ok value r.width hr.1]
    simp only
    apply noPanic_append hs
    split
    · exact noPanic_nil
    · exact noPanic_single _ (by simp)

theorem step3Register_np (bank : String) (inP outP : Char) (st : Step3 × BankAcc) (r : RegDecl)
    (hc : ConstOK constants) (hr : r.width.ok ∧ wfEx r.default = true) (hs : NoPanic st.1.errors) :
    NoPanic (step3Register fl s1 constants bank inP outP st r).1.errors := by
  obtain ⟨s, acc⟩ := st
  unfold step3Register
  simp only
  split
  · exact noPanic_append hs (regPre_np s1 constants _ _ _ _ _ _)
  · apply regEval_np fl constants _ _ _ _ acc r hc hr
    exact noPanic_append hs (regPre_np s1 constants _ _ _ _ _ _)

theorem step3Bank_np (s : Step3) (b : BankDecl) (hc : ConstOK constants)
    (hb : ∀ r ∈ b.regs, r.width.ok ∧ wfEx r.default = true) (hs : NoPanic s.errors) :
    NoPanic (step3Bank fl cls s1 constants s b).errors := by
  unfold step3Bank
  split
  · rename_i inP outP _
    split
    · exact noPanic_append hs (noPanic_single _ (by simp))
    · simp only
      have fold : ∀ (regs : List RegDecl) (st : Step3 × BankAcc), (∀ r ∈ regs, r.width.ok ∧ wfEx r.default = true) →
          NoPanic st.1.errors → NoPanic (regs.foldl (step3Register fl s1 constants b.name inP outP) st).1.errors := by
        intro regs
        induction regs with
        | nil => intro st _ h; exact h
        | cons r rest ih =>
          intro st hr h
          exact ih _ (fun x hx => hr x (List.mem_cons_of_mem _ hx))
            (step3Register_np fl s1 constants b.name inP outP st r hc (hr r List.mem_cons_self) h)
      apply fold b.regs _ hb
      apply noPanic_append hs
      apply noPanic_flatMap
      intro n _
      exact noPanic_ite _ _ _ (noPanic_single _ (by simp)) noPanic_nil
  · exact noPanic_append hs (noPanic_single _ (by simp))

theorem step3_np (hc : ConstOK constants) (hb : ∀ b ∈ s1.banksRaw, ∀ r ∈ b.regs, r.width.ok ∧ wfEx r.default = true) :
    NoPanic (s1.banksRaw.foldl (step3Bank fl cls s1 constants) { wireTypes := s1.wireTypes }).errors := by
  have fold : ∀ (banks : List BankDecl) (s : Step3), (∀ b ∈ banks, ∀ r ∈ b.regs, r.width.ok ∧ wfEx r.default = true) →
      NoPanic s.errors → NoPanic (banks.foldl (step3Bank fl cls s1 constants) s).errors := by
    intro banks
    induction banks with
    | nil => intro s _ h; exact h
    | cons b rest ih =>
      intro s hb h
      exact ih _ (fun x hx => hb x (List.mem_cons_of_mem _ hx))
        (step3Bank_np fl cls s1 constants s b hc (hb b List.mem_cons_self) h)
  exact fold s1.banksRaw _ hb noPanic_nil
end

/-! ### `assignments_to_actions` -/

section
variable (fl : Flags) (widths : AMap Width) (constants : AMap WireValue) (assignments : AMap Ex) (known : List String)

theorem preprocessOne_np (st : PreState) (f : FixedFunction)
    (hin : ∀ n ∈ f.inWires.map (·.1), known.contains n = false)
    (hout : ∀ n w, f.outWire = some (n, w) → known.contains n = false ∧ assignments.contains n = false)
    (hs : NoPanic st.errors) : NoPanic (preprocessOne fl widths constants assignments known st f).errors := by
  have hkc : (f.inWires.map (·.1)).any known.contains = false := by
    rw [List.any_eq_false]
    intro n hn
    rw [hin n hn]; simp
  have hunset : ∀ l : List String, NoPanic (l.map (fun n => (⟨.UnsetBuiltinWire, [n]⟩ : Diag))) := by
    intro l d hd
    obtain ⟨n, _, rfl⟩ := List.mem_map.mp hd
    simp
  unfold preprocessOne
  simp only [hkc, Bool.false_eq_true, if_false]
  generalize (f.inWires.map (·.1)).filter (fun n => !assignments.contains n) = missing
  by_cases hA : (f.mandatory && !missing.isEmpty) = true
  · simp only [hA, if_true]
    cases ho : f.outWire with
    | none => exact noPanic_append hs (hunset _)
    | some ow =>
      obtain ⟨out, w⟩ := ow
      obtain ⟨h1, h2⟩ := hout out w ho
      simp only [h1, h2, Bool.or_self, Bool.false_eq_true, if_false]
      exact noPanic_append hs (hunset _)
  · simp only [hA, Bool.false_eq_true, if_false]
    by_cases hB : (!missing.isEmpty) = true
    · simp only [hB, if_true]
      apply noPanic_append
      · apply noPanic_append hs
        cases ho : f.outWire with
        | none => exact noPanic_nil
        | some ow =>
          obtain ⟨out, w⟩ := ow
          simp only
          exact noPanic_ite _ _ _ (hunset _) noPanic_nil
      · apply noPanic_ite
        · apply noPanic_ite
          · exact noPanic_single _ (by simp)
          · exact noPanic_nil
        · exact noPanic_nil
    · simp only [hB, Bool.false_eq_true, if_false]
      cases ho : f.outWire with
      | none => exact hs
      | some ow =>
        obtain ⟨out, w⟩ := ow
        obtain ⟨h1, h2⟩ := hout out w ho
        simp only [h1, h2, Bool.or_self, Bool.false_eq_true, if_false]
        exact hs
end

section
variable (fl : Flags) (widths : AMap Width) (constants : AMap WireValue) (assignments : AMap Ex) (known : List String)
  (declared : List String) (byOutput : AMap FixedFunction)

theorem preprocess_fold_np (fixed : List FixedFunction)
    (hin : ∀ f ∈ fixed, ∀ n ∈ f.inWires.map (·.1), known.contains n = false)
    (hout : ∀ f ∈ fixed, ∀ n w, f.outWire = some (n, w) → known.contains n = false ∧ assignments.contains n = false) :
    ∀ (st : PreState), NoPanic st.errors →
      NoPanic (fixed.foldl (preprocessOne fl widths constants assignments known) st).errors := by
  induction fixed with
  | nil => intro st h; exact h
  | cons f rest ih =>
    intro st h
    simp only [List.foldl_cons]
    apply ih (fun g hg => hin g (List.mem_cons_of_mem _ hg)) (fun g hg => hout g (List.mem_cons_of_mem _ hg))
    exact preprocessOne_np fl widths constants assignments known st f (hin f List.mem_cons_self) (hout f List.mem_cons_self) h

/-- a turn of the loop in which the `assert!`s hold adds no internal error -/
theorem loopStep_np (st : LoopState) (name : String)
    (hrefs : ∀ e, assignments.get? name = some e → ∀ r ∈ refs e, r ∈ st.covered)
    (hfix : ∀ f, assignments.get? name = none → byOutput.get? name = some f → ∀ i ∈ f.inWires.map (·.1), i ∈ st.covered)
    (hs : NoPanic st.errors) :
    NoPanic (loopStep fl assignments widths declared constants byOutput st name).errors ∧
    ∀ n, n ∈ (loopStep fl assignments widths declared constants byOutput st name).covered ↔ n ∈ st.covered ∨ n = name := by
  have hcov : ∀ n, n ∈ (loopStep fl assignments widths declared constants byOutput st name).covered ↔ n ∈ st.covered ∨ n = name := by
    intro n
    unfold loopStep
    simp only
    repeat' split
    all_goals exact mem_setInsert _ _ _
  refine ⟨?_, hcov⟩
  unfold loopStep
  cases h1 : assignments.get? name with
  | some expr =>
    have hall : (refs expr).all st.covered.contains = true := by
      rw [List.all_eq_true]
      intro r hr
      simpa using hrefs expr h1 r hr
    simp only [hall, if_true]
    cases h2 : widths.get? name with
    | none => exact noPanic_append hs (noPanic_single _ (by simp))
    | some w =>
      simp only
      cases h3 : check fl widths.toCtx constants.toEnv expr with
      | error ds => exact noPanic_append hs (check_np fl _ _ expr ds h3)
      | ok ew =>
        simp only
        split
        · exact hs
        · exact noPanic_append hs (noPanic_single _ (by simp))
  | none =>
    simp only
    cases h2 : byOutput.get? name with
    | some f =>
      have hall : (f.inWires.map (·.1)).all st.covered.contains = true := by
        rw [List.all_eq_true]
        intro i hi
        simpa using hfix f h1 h2 i hi
      simp only [hall, if_true]
      exact hs
    | none =>
      simp only
      split
      · exact noPanic_append hs (noPanic_single _ (by simp))
      · exact hs

/-- the whole loop over a list in which every name's reads are known or earlier in the list -/
theorem actionsLoop_np : ∀ (names : List String) (st : LoopState),
    names.Nodup →
    (∀ pre x post, names = pre ++ x :: post →
      (∀ e, assignments.get? x = some e → ∀ r ∈ refs e, r ∈ st.covered ∨ r ∈ pre) ∧
      (∀ f, assignments.get? x = none → byOutput.get? x = some f → ∀ i ∈ f.inWires.map (·.1), i ∈ st.covered ∨ i ∈ pre)) →
    NoPanic st.errors →
    NoPanic (actionsLoop fl assignments widths declared constants byOutput names st).errors
  | [], st, _, _, hs => hs
  | name :: rest, st, hnd, hord, hs => by
    have hstep : actionsLoop fl assignments widths declared constants byOutput (name :: rest) st =
        actionsLoop fl assignments widths declared constants byOutput rest
          (loopStep fl assignments widths declared constants byOutput st name) := by
      simp [actionsLoop]
    rw [hstep]
    obtain ⟨h0a, h0b⟩ := hord [] name rest rfl
    obtain ⟨hnp, hcov⟩ := loopStep_np fl widths constants assignments declared byOutput st name
      (fun e he r hr => by rcases h0a e he r hr with h | h; exact h; simp at h)
      (fun f h1 h2 i hi => by rcases h0b f h1 h2 i hi with h | h; exact h; simp at h) hs
    apply actionsLoop_np rest _ (List.nodup_cons.mp hnd).2 _ hnp
    intro pre x post hsplit
    obtain ⟨ha, hb⟩ := hord (name :: pre) x post (by rw [hsplit]; rfl)
    constructor
    · intro e he r hr
      rcases ha e he r hr with h | h
      · exact Or.inl ((hcov r).mpr (Or.inl h))
      · rcases List.mem_cons.mp h with h2 | h2
        · exact Or.inl ((hcov r).mpr (Or.inr h2))
        · exact Or.inr h2
    · intro f h1 h2 i hi
      rcases hb f h1 h2 i hi with h | h
      · exact Or.inl ((hcov i).mpr (Or.inl h))
      · rcases List.mem_cons.mp h with h3 | h3
        · exact Or.inl ((hcov i).mpr (Or.inr h3))
        · exact Or.inr h3
end

theorem assignmentsToActions_np (fl : Flags) (o : Orders) (assignments : AMap Ex) (widths : AMap Width)
    (known : List String) (fixed : List FixedFunction) (declared : List String) (constants : AMap WireValue)
    (ho : OrdersOK o) (ht : FixedTableOK fixed) (hk : assignments.keys.Nodup)
    (hin : ∀ f ∈ fixed, ∀ n ∈ f.inWires.map (·.1), known.contains n = false)
    (hout : ∀ f ∈ fixed, ∀ n w, f.outWire = some (n, w) → known.contains n = false ∧ assignments.contains n = false)
    (ds : List Diag) (h : assignmentsToActions fl o assignments widths known fixed declared constants = .error ds) :
    NoPanic ds := by
  unfold assignmentsToActions at h
  simp only at h
  obtain ⟨g0wf, g0nodes, g0edges⟩ := assignGraph_spec assignments known hk
  generalize hg0 : assignGraph assignments known = g0 at h g0wf g0nodes g0edges
  have hprenp := preprocess_fold_np fl widths constants assignments known fixed hin hout ({ graph := g0 } : PreState) noPanic_nil
  generalize hpre : fixed.foldl (preprocessOne fl widths constants assignments known) { graph := g0 } = pre at h hprenp
  by_cases hpe : pre.errors.isEmpty = true
  · have hpe' : pre.errors = [] := by simpa using hpe
    simp only [hpe, Bool.not_true, Bool.false_eq_true, if_false] at h
    have hg0c : ∀ e ∈ g0.edges, assignments.contains e.2 = true := by
      intro e he
      obtain ⟨ex, hm, _⟩ := (g0edges e.1 e.2).mp he
      exact (AMap.contains_iff_mem_keys _ _).mpr (List.mem_map.mpr ⟨(e.2, ex), hm, rfl⟩)
    have hinit : PreFacts assignments known g0 [] ({ graph := g0 } : PreState) :=
      { noOut := by intro f hf; simp at hf
        byKeys := by simp [AMap.keys]
        byOut := by intro n f hf; simp at hf
        wf := g0wf
        nodes := fun n hn => hn
        edges := fun e he => Or.inl he
        noOutSub := List.Sublist.refl _
        edgesG0 := fun e he => he
        edgesFixed := by intro n f hf; simp at hf }
    have hpf := preprocess_fold_facts fl widths constants assignments known fixed ht g0 hg0c fixed [] _ (by simp) hinit
      (by rw [hpre]; exact hpe')
    rw [hpre] at hpf
    rcases pre.graph.sort_spec o hpf.wf ho with ⟨order, hso, hond, _, hordered⟩ | ⟨c, hsc, _⟩
    · rw [hso] at h
      simp only at h
      -- the loop
      have hloop : NoPanic (actionsLoop fl assignments widths declared constants pre.info.byOutput order { covered := known }).errors := by
        apply actionsLoop_np fl widths constants assignments declared pre.info.byOutput order _ hond _ noPanic_nil
        intro pfx x post hsplit
        constructor
        · intro e he r hr
          by_cases hkn : known.contains r = true
          · left; simpa using hkn
          · right
            have hkn' : known.contains r = false := by simpa using hkn
            have hedge : (r, x) ∈ g0.edges := (g0edges r x).mpr ⟨e, AMap.mem_of_get? _ _ _ he, hr, hkn'⟩
            exact hordered pfx x post hsplit r (hpf.edgesG0 _ hedge)
        · intro f _ h2 i hi
          right
          exact hordered pfx x post hsplit i (hpf.edgesFixed x f (AMap.mem_of_get? _ _ _ h2) i hi)
      generalize actionsLoop fl assignments widths declared constants pre.info.byOutput order { covered := known } = st at h hloop
      split at h
      · simp at h
      · simp only [Except.error.injEq] at h
        rw [← h]
        apply noPanic_append hloop
        intro d hd
        obtain ⟨n, _, rfl⟩ := List.mem_map.mp hd
        simp
    · rw [hsc] at h
      simp only [Except.error.injEq] at h
      rw [← h]
      exact noPanic_single _ (by simp)
  · simp only [hpe] at h
    simp only [Bool.not_false, if_true, Except.error.injEq] at h
    rw [← h]; exact hprenp

/-- a built-in output that is assigned to is reported in step 1 -/
def OutsFree (FO : List String) (s : Step1) : Prop := s.errors = [] → ∀ n ∈ FO, s.assignments.contains n = false

theorem step1_outsFree (FN FO : List String) (stmts : List Stmt) (s : Step1) (h : OutsFree FO s) :
    OutsFree FO (stmts.foldl (step1Stmt FN FO) s) := by
  have hstep : ∀ s st, True → OutsFree FO s →
      OutsFree FO (step1Stmt FN FO s st) ∧ ((step1Stmt FN FO s st).errors = [] → s.errors = []) := by
    intro s st _ hs
    cases st with
    | consts ds =>
      apply fold_inv (OutsFree FO) (step1Const FN) (fun _ => True) _ ds s (fun _ _ => trivial) hs
      intro s d _ hs
      have hback : (step1Const FN s d).errors = [] → s.errors = [] := fun he => (checkDoubleDeclare_errors FN s d.name he).1
      exact ⟨fun he n hn => hs (hback he) n hn, hback⟩
    | wires ds =>
      apply fold_inv (OutsFree FO) (step1Wire FN) (fun _ => True) _ ds s (fun _ _ => trivial) hs
      intro s d _ hs
      have hback : (step1Wire FN s d).errors = [] → s.errors = [] := fun he => (checkDoubleDeclare_errors FN s d.name he).1
      exact ⟨fun he n hn => hs (hback he) n hn, hback⟩
    | assigns as =>
      apply fold_inv (OutsFree FO) (step1Assign FO) (fun _ => True) _ as s (fun _ _ => trivial) hs
      intro s a _ hs
      apply fold_inv (OutsFree FO) (step1Name FO a.value) (fun _ => True) _ a.names s (fun _ _ => trivial) hs
      intro s name _ hs
      have hback : (step1Name FO a.value s name).errors = [] → s.errors = [] ∧ FO.contains name = false := by
        unfold step1Name
        simp only
        intro he
        rw [List.append_eq_nil_iff] at he
        refine ⟨he.1, ?_⟩
        have h2 := he.2
        by_cases hc : FO.contains name = true
        · exfalso
          split at h2
          · simp at h2
          · simp [hc] at h2
        · simpa using hc
      refine ⟨?_, fun he => (hback he).1⟩
      intro he n hn
      obtain ⟨h1, h2⟩ := hback he
      have hne : n ≠ name := by
        intro e; subst e
        have : FO.contains n = true := by simpa using hn
        rw [this] at h2; cases h2
      show (s.assignments.insert name a.value).contains n = false
      rw [AMap.contains_insert, hs h1 n hn]
      simpa using hne
    | bank b => exact ⟨hs, fun he => he⟩
  exact (fold_inv (OutsFree FO) (step1Stmt FN FO) (fun _ => True) hstep stmts s (fun _ _ => trivial) h).1

/-- **`Program::new` never reports an internal error**: for every well-formed statement list, every flag set,
    every classification of bank letters and every iteration order, whatever diagnostics the model returns, none
    is the `InternalPanic` that stands for an `assert!`, `unwrap()` or `panic!` of the real code. -/
theorem Program_new_np (fl : Flags) (cls : CharClass) (o : Orders) (stmts : List Stmt)
    (ho : OrdersOK o) (hwf : StmtsWF stmts) (ds : List Diag)
    (h : Program.new fl cls o y86FixedFunctions stmts = .error ds) : NoPanic ds := by
  unfold Program.new at h
  simp only at h
  generalize hs1 : List.foldl (step1Stmt _ _) (step1Init y86FixedFunctions) stmts = s1 at h
  have hs1' : stmts.foldl (step1Stmt (fixedNamesOf y86FixedFunctions)
      (y86FixedFunctions.filterMap fun f => f.outWire.map (·.1))) (step1Init y86FixedFunctions) = s1 := hs1
  obtain ⟨s1inv, _⟩ := step1_fold_inv (fixedNamesOf y86FixedFunctions)
    (y86FixedFunctions.filterMap fun f => f.outWire.map (·.1)) y86W0 stmts (step1Init y86FixedFunctions) hwf step1Init_inv
  have hs1np := step1_fold_np (fixedNamesOf y86FixedFunctions)
    (y86FixedFunctions.filterMap fun f => f.outWire.map (·.1)) stmts (step1Init y86FixedFunctions)
    (by rw [step1Init_clean]; exact noPanic_nil)
  rw [hs1'] at s1inv hs1np
  split at h
  · -- errors of step 1
    simp only [Except.error.injEq] at h
    rw [← h]
    apply noPanic_append
    · apply noPanic_append hs1np
      apply noPanic_flatMap
      intro n _
      exact noPanic_ite _ _ _ (noPanic_single _ (by simp)) noPanic_nil
    · unfold constRefErrors
      apply noPanic_flatMap
      intro p _
      apply noPanic_flatMap
      intro n _
      dsimp only
      repeat' (first
        | apply noPanic_ite
        | exact noPanic_nil
        | exact noPanic_replicate _ _ (by simp))
  · rename_i herrs1
    simp only [Bool.not_eq_true', List.isEmpty_eq_false_iff, ne_eq, Decidable.not_not, List.append_eq_nil_iff] at herrs1
    have hs1clean : s1.errors = [] := herrs1.1.1
    -- every name a constant reads is a constant
    have hrefs : ∀ p ∈ s1.constantsRaw, ∀ r ∈ refs p.2, s1.constantsRaw.contains r = true := by
      intro p hp r hr
      have hce := herrs1.2
      unfold constRefErrors at hce
      by_cases hc : s1.constantsRaw.contains r = true
      · exact hc
      · exfalso
        have hc' : s1.constantsRaw.contains r = false := by simpa using hc
        have hocc : 0 < occurrences p.2 r := by
          unfold occurrences
          exact List.count_pos_iff.mpr hr
        have hmem : ∃ d, d ∈ (s1.constantsRaw.flatMap fun (p : String × Ex) =>
            (dedupS (refs p.2)).flatMap fun inName =>
              let isConstant := s1.constantsRaw.contains inName
              if s1.wires.contains inName && !isConstant then
                List.replicate (occurrences p.2 inName) (⟨.NonConstantWireRead, [inName]⟩ : Diag)
              else if !isConstant then
                List.replicate (occurrences p.2 inName) ⟨.UndeclaredWireRead, [inName]⟩
              else []) := by
          by_cases hw : s1.wires.contains r = true
          · refine ⟨⟨.NonConstantWireRead, [r]⟩, ?_⟩
            refine List.mem_flatMap.mpr ⟨p, hp, List.mem_flatMap.mpr ⟨r, (mem_dedupS _ _).mpr hr, ?_⟩⟩
            simp only [hw, hc', Bool.not_false, Bool.and_self, if_true]
            exact List.mem_replicate.mpr ⟨by omega, rfl⟩
          · have hw' : s1.wires.contains r = false := by simpa using hw
            refine ⟨⟨.UndeclaredWireRead, [r]⟩, ?_⟩
            refine List.mem_flatMap.mpr ⟨p, hp, List.mem_flatMap.mpr ⟨r, (mem_dedupS _ _).mpr hr, ?_⟩⟩
            simp only [hw', hc', Bool.false_and, Bool.false_eq_true, if_false, Bool.not_false, if_true]
            exact List.mem_replicate.mpr ⟨by omega, rfl⟩
        obtain ⟨d, hd⟩ := hmem
        rw [hce] at hd
        simp at hd
    obtain ⟨hc_np, hc_all⟩ := resolveConstants_np fl o s1.constantsRaw ho s1inv.cKeys s1inv.cWf hrefs
    split at h
    · rename_i dsc hconst
      simp only [Except.error.injEq] at h
      rw [← h]; exact hc_np _ hconst
    · rename_i constants hconst
      have hcok := resolveConstants_constOK fl o s1.constantsRaw constants s1inv.cWf hconst
      have hckeys := resolveConstants_keys fl o s1.constantsRaw constants hconst
      have hs3np := step3_np fl cls s1 constants hcok s1inv.banks
      generalize hs3 : s1.banksRaw.foldl (step3Bank fl cls s1 constants) { wireTypes := s1.wireTypes } = s3 at h hs3np
      split at h
      · -- errors of step 3 and step 4
        simp only [Except.error.injEq] at h
        rw [← h]
        apply noPanic_append hs3np
        apply noPanic_flatMap
        intro n _
        repeat' (first
          | apply noPanic_ite
          | exact noPanic_nil
          | exact noPanic_single _ (by simp))
      · rename_i herrs3
        have hs3clean : s3.errors = [] := by
          simp only [Bool.not_eq_true', List.isEmpty_eq_false_iff, ne_eq, Decidable.not_not, List.append_eq_nil_iff] at herrs3
          exact herrs3.1
        have hs3f : S3Facts s1.declared (fun n => s1.assignments.contains n = false) s3 {} := by
          rw [← hs3]
          exact step3_facts fl cls s1 constants (fun b hb r hr => (s1inv.banks b hb r hr).1) (by rw [hs3]; exact hs3clean)
        split at h
        · -- a constant without a value: impossible
          rename_i hmiss
          exfalso
          rw [List.any_eq_true] at hmiss
          obtain ⟨k, hk, hk2⟩ := hmiss
          have := hc_all constants hconst k hk
          rw [this] at hk2; simp at hk2
        · have hyp : TablesHyp (fixedNamesOf y86FixedFunctions) y86W0 s1 constants s3 :=
            { s1inv := s1inv, s1clean := hs1clean, cok := hcok, ckeys := hckeys, s3f := hs3f
              fnShape := by
                intro n hn
                have a := List.all_eq_true.mp y86_names_not_sig n hn
                have b := List.all_eq_true.mp y86_names_not_ctl n hn
                exact ⟨by simpa using a, by simpa using b⟩ }
          generalize hknown : ((constPairs s1.constantsRaw.keys constants).map (·.1)).foldl setInsert
            ((bankOuts s3.banks).foldl setInsert []) = known at h
          have hknownmem : ∀ n, n ∈ known → n ∈ bankOuts s3.banks ∨ n ∈ (constPairs s1.constantsRaw.keys constants).map (·.1) := by
            intro n hn
            rw [← hknown, mem_foldl_setInsert, mem_foldl_setInsert] at hn
            rcases hn with (h1 | h1) | h1
            · simp at h1
            · exact Or.inl h1
            · exact Or.inr h1
          -- a built-in name is never a known value
          have hfixedNotKnown : ∀ n ∈ fixedNamesOf y86FixedFunctions, known.contains n = false := by
            intro n hn
            by_cases hc : known.contains n = true
            · exfalso
              have hm : n ∈ known := by simpa using hc
              rcases hknownmem n hm with h1 | h1
              · simp only [bankOuts, List.mem_flatMap, List.mem_map] at h1
                obtain ⟨b, hb, sg, hsg, rfl⟩ := h1
                have := isSigName_second ((hs3f.banks b hb).sigs.sig sg hsg).2.1
                rw [(hyp.fnShape _ hn).1] at this; cases this
              · obtain ⟨pr, hpr, rfl⟩ := List.mem_map.mp h1
                exact (constPairs_declared hyp pr hpr).2.1 hn
            · simpa using hc
          split at h
          · rename_i dsa hact
            simp only [Except.error.injEq] at h
            rw [← h]
            apply assignmentsToActions_np fl o s1.assignments _ known y86FixedFunctions s1.declared constants ho
              y86Fixed_table s1inv.aKeys _ _ dsa hact
            · intro f hf n hn
              apply hfixedNotKnown
              unfold fixedNamesOf
              rw [mem_dedupS]
              exact List.mem_flatMap.mpr ⟨f, hf, List.mem_append_left _ hn⟩
            · intro f hf n w hout
              have hn : n ∈ fixedNamesOf y86FixedFunctions := by
                have := List.all_eq_true.mp y86_out_in_names f hf
                rw [hout] at this
                simpa using this
              refine ⟨hfixedNotKnown n hn, ?_⟩
              -- an assigned built-in output is reported in step 1
              have hfree := step1_outsFree (fixedNamesOf y86FixedFunctions)
                (y86FixedFunctions.filterMap fun f => f.outWire.map (·.1)) stmts (step1Init y86FixedFunctions)
                (by intro _ m _; have : (step1Init y86FixedFunctions).assignments = [] := by decide +kernel
                    rw [this]; simp [AMap.contains])
              rw [hs1'] at hfree
              exact hfree hs1clean n (List.mem_filterMap.mpr ⟨f, hf, by simp [hout]⟩)
          · simp at h
