import Hcl.Proofs.LexLiterals
import Hcl.Model.Parser
import Hcl.Spec.Grammar
import Hcl.Generated
import Hcl.Util.Format

/-!
# C11 — source text is read with the documented precedence, literals and comments

`Lexer.lex` and `Parser.parseTier` model lexer.rs and the expression grammar of parser.lalrpop
(compared with the real lexer/parser token by token and node by node, spans included).
-/

open Lexer

/-! ### precedence -/

def tokName : Tok → String
  | .OrOr => "||" | .AndAnd => "&&" | .Equal => "==" | .NotEqual => "!=" | .LessEqual => "<=" | .GreaterEqual => ">="
  | .Less => "<" | .Greater => ">" | .Or => "|" | .Xor => "^" | .And => "&" | .LeftShift => "<<" | .RightShift => ">>"
  | .Plus => "+" | .Minus => "-" | .Times => "*" | .Divide => "/" | _ => "?"

/-- **the model's precedence table is the documented one** (loosest first in the model, tightest first in the documentation) -/
theorem C11_model_tiers_documented :
    (Parser.tiers.map fun t => match t with
      | some tier => (tier.ops.map (fun o => tokName o.1), tier.chains)
      | none => (["in"], false)).reverse = Spec.precTable := by decide

/-- follow the `BinTier` chain of the grammar source from `start`: the operator groups in the order the grammar nests them -/
def chainFrom (tiers : List (String × String × String × String)) (inOperand : List String) : Nat → String → List (String × Bool)
  | 0, _ => []
  | fuel+1, name =>
    if name == "ExprIn" then ("in", false) :: (match inOperand with
      | [next] => chainFrom tiers inOperand fuel next
      | _ => [])
    else match tiers.find? (fun t => t.1 == name) with
      | some (_, kind, ops, next) => (ops, kind == "BinTier") :: chainFrom tiers inOperand fuel next
      | none => []

/-- **the grammar source has the documented tiers** (extracted from parser.lalrpop on this run) -/
theorem C11_grammar_tiers_documented :
    chainFrom Generated.grammarTiers Generated.grammarInOperand 20 "ExprLogicalOr" =
      [("BinOpLogicalOr", true), ("BinOpLogicalAnd", true), ("BinOpCompare", false), ("in", false), ("BinOpOr", true),
       ("BinOpXor", true), ("BinOpAnd", true), ("BinOpShift", true), ("BinOpAddSub", true), ("BinOpMulDiv", true)] := by decide

/-- and each operator group of the grammar source holds the documented symbols -/
theorem C11_grammar_ops_documented :
    Generated.grammarOps =
      [("BinOpAddSub", "+", "Add"), ("BinOpAddSub", "-", "Sub"), ("BinOpAnd", "&", "And"), ("BinOpXor", "^", "Xor"), ("BinOpOr", "|", "Or"),
       ("BinOpMulDiv", "*", "Mul"), ("BinOpMulDiv", "/", "Div"), ("BinOpCompare", "==", "Equal"), ("BinOpCompare", "!=", "NotEqual"),
       ("BinOpCompare", "<=", "LessEqual"), ("BinOpCompare", ">=", "GreaterEqual"), ("BinOpCompare", "<", "Less"),
       ("BinOpCompare", ">", "Greater"), ("BinOpLogicalAnd", "&&", "LogicalAnd"), ("BinOpLogicalOr", "||", "LogicalOr"),
       ("BinOpShift", "<<", "LeftShift"), ("BinOpShift", ">>", "RightShift"), ("UnOp", "+", "Plus"), ("UnOp", "-", "Negate"),
       ("UnOp", "~", "Complement"), ("UnOp", "!", "Not")] := by decide

/-! ### the predefined names -/

/-- the value a preamble definition gives a name: its literal read by the lexer model, or the value of the name it refers to -/
def preambleValue (defs : List (String × String)) (name : String) : Option Nat :=
  let litVal (lit : String) : Option Nat :=
    match lex asciiCls lit.toList with
    | [.tok _ (.Constant v) _] => some v.bits
    | _ => none
  match defs.lookup name with
  | none => none
  | some lit =>
    match litVal lit with
    | some v => some v
    | none => (defs.lookup lit).bind litVal

/-- **the predefined Y86 names have their CS:APP values** (preamble text extracted from program.rs on this run) -/
theorem C11_preamble_values :
    Spec.csappValues.all (fun p => preambleValue Generated.preambleConsts p.1 == some p.2) = true := by decide

/-! ### literals -/

/-- **binary literals**: `0b` followed by `n` binary digits, `1 ≤ n ≤ 128`, is one constant, `n` bits wide, whose value
    is the digits read in base 2 (most significant first) -/
theorem C11_binary (bits : List Bool) (hne : bits ≠ []) (hlen : bits.length ≤ 128) :
    lex asciiCls ('0' :: 'b' :: bits.map bitChar) =
      [.tok 0 (.Constant ⟨digitsVal 2 (bits.map bitChar), .bits bits.length⟩) (2 + bits.length)] :=
  lex_binary bits hne hlen

/-- **hexadecimal literals** (digits of either case): unsized, value = the digits in base 16; rejected over their
    whole extent exactly when the value does not fit in 128 bits -/
theorem C11_hex (ds : List Char) (hne : ds ≠ []) (hall : ∀ c ∈ ds, isHex c = true) :
    lex asciiCls ('0' :: 'x' :: ds) =
      if digitsVal 16 ds < 2 ^ 128 then [.tok 0 (.Constant ⟨digitsVal 16 ds, .unlimited⟩) (2 + ds.length)]
      else [.err (.invalidConstant 0 (2 + ds.length))] := lex_hex ds hne hall

/-- **decimal literals**: unsized, value = the digits in base 10; rejected exactly when ≥ 2^128 -/
theorem C11_decimal (d0 d1 : Char) (ds : List Char) (h0 : isDec d0 = true) (h1 : isDec d1 = true)
    (hall : ∀ c ∈ ds, isDec c = true) :
    lex asciiCls (d0 :: d1 :: ds) =
      if digitsVal 10 (d0 :: d1 :: ds) < 2 ^ 128 then
        [.tok 0 (.Constant ⟨digitsVal 10 (d0 :: d1 :: ds), .unlimited⟩) (2 + ds.length)]
      else [.err (.invalidConstant 0 (2 + ds.length))] := lex_decimal d0 d1 ds h0 h1 hall

theorem C11_digit (d0 : Char) (h0 : isDec d0 = true) :
    lex asciiCls [d0] = [.tok 0 (.Constant ⟨d0.toNat - 48, .unlimited⟩) 1] := lex_digit d0 h0

/-- the digit values are the usual ones, in either case -/
example : digitVal '7' = 7 ∧ digitVal 'a' = 10 ∧ digitVal 'F' = 15 ∧ digitsVal 16 "1fE".toList = 510 ∧
    digitsVal 2 "0101".toList = 5 ∧ digitsVal 10 "340".toList = 340 := by decide
