import Hcl.Proofs.YoSpec
import Hcl.Model.Yo
import Hcl.Spec.YoFormat
open Rust

/-!
# C15 — loading a .yo listing puts exactly the listed bytes at the listed addresses

`Yo.loadLine`/`Yo.load` model `load_line_y86`/`load_from_y86` with Rust's byte-offset string slicing
(`get` = checked, `index` = panicking); `Spec.classify`/`Spec.image` are the listing format.
-/

namespace Yo

theorem get_some_bounds {s : Bytes} {a b : Nat} {x : Bytes} (h : get s a b = some x) :
    a ≤ b ∧ b ≤ s.length ∧ isBoundary s a = true ∧ isBoundary s b = true ∧ x = (s.drop a).take (b - a) := by
  unfold get at h
  split at h
  · rename_i hc
    simp only [Bool.and_eq_true, decide_eq_true_eq] at hc
    cases h
    exact ⟨hc.1.1.1, hc.1.1.2, hc.1.2, hc.2, rfl⟩
  · cases h

theorem beq_some_of {s : Bytes} {a b : Nat} {lit : Bytes} (h : (get s a b == some lit) = true) : get s a b = some lit := by
  simpa using h

theorem index_ok {s : Bytes} {a b : Nat} (hab : a ≤ b) (hb : b ≤ s.length) (ha' : isBoundary s a = true)
    (hb' : isBoundary s b = true) : index s a b = .ok ((s.drop a).take (b - a)) := by
  simp [index, get, hab, hb, ha', hb', pure, Except.pure]

/-- the hex loop never runs out of its 12 units of fuel on a 20-byte field -/
theorem hexLoop_no_panic (hexChars : Bytes) : ∀ (fuel i : Nat) (m : Mem) (loc : Nat),
    0 < fuel → hexChars.length < i + 2 * fuel → hexLoop hexChars fuel i m loc ≠ .panic
  | 0, _, _, _, h0, _ => by omega
  | fuel+1, i, m, loc, _, h => by
    simp only [hexLoop]
    split
    · rename_i hc
      simp only [Bool.and_eq_true, decide_eq_true_eq] at hc
      cases hd : get hexChars i (i + 2) with
      | none => simp
      | some digits =>
        simp only
        split
        · have := (get_some_bounds hd).2.1
          exact hexLoop_no_panic hexChars fuel (i + 2) _ _ (by omega) (by omega)
        · simp
    · simp

/-- **C15, no crash.** Whatever the line (any bytes: short, empty, odd digit counts, non-hex, non-ASCII,
    even invalid UTF-8) the line loader returns a result; none of its string slicings can panic. -/
theorem C15_line_no_panic (m : Mem) (loc : Nat) (line : Bytes) : loadLine m loc line ≠ .panic := by
  unfold loadLine
  split
  · rename_i hc
    simp only [Bool.and_eq_true] at hc
    obtain ⟨⟨h1, h2⟩, h3⟩ := hc
    obtain ⟨_, _, _, hb2, _⟩ := get_some_bounds (beq_some_of h1)
    obtain ⟨_, h7, hb5, hb7, _⟩ := get_some_bounds (beq_some_of h2)
    obtain ⟨_, h29, hb27, _, _⟩ := get_some_bounds (beq_some_of h3)
    rw [index_ok (by omega) (by omega) hb2 hb5]
    simp only
    split
    · simp
    · rw [index_ok (by omega) (by omega) hb7 hb27]
      simp only
      have hlen : ((line.drop 7).take (27 - 7)).length = 20 := by simp; omega
      exact hexLoop_no_panic _ 12 0 m _ (by decide) (by omega)
  · split <;> simp

/-- **C15, no crash, whole file.** -/
theorem C15_load_no_panic : ∀ (lines : List Bytes) (m : Mem) (loc : Nat) (found : Bool),
    (match loadLines lines m loc found with | .panic => False | _ => True)
  | [], m, loc, found => by cases found <;> simp [loadLines]
  | line :: rest, m, loc, found => by
    simp only [loadLines]
    by_cases hv : validUtf8 line = true
    · simp only [hv, Bool.not_true, Bool.false_eq_true, ↓reduceIte]
      have hnp := C15_line_no_panic m loc line
      cases hl : loadLine m loc line with
      | ok m' loc' => exact C15_load_no_panic rest m' loc' true
      | err => trivial
      | panic => exact absurd hl hnp
    · simp [hv]

/-- an empty file is refused -/
theorem C15_empty_refused : (match load [] with | .emptyFile => True | _ => False) := by
  simp [load, loadLines]

end Yo

/-! ### exactly the listed bytes at the listed addresses -/

namespace Yo

/-- what a data line denotes: byte `k` of the line at address `addr + k`, all other addresses untouched -/
theorem overlay_spec (f : Nat → Nat) : ∀ (bs : List Nat) (addr a : Nat),
    Spec.overlay f addr bs a = if addr ≤ a ∧ a < addr + bs.length then bs.getD (a - addr) 0 else f a := by
  intro bs
  induction bs generalizing f with
  | nil =>
    intro addr a
    simp only [Spec.overlay, List.length_nil, Nat.add_zero]
    have : ¬ (addr ≤ a ∧ a < addr) := by omega
    simp [this]
  | cons b rest ih =>
    intro addr a
    simp only [Spec.overlay, List.length_cons]
    rw [ih]
    by_cases h1 : addr + 1 ≤ a ∧ a < addr + 1 + rest.length
    · have h2 : addr ≤ a ∧ a < addr + (rest.length + 1) := by omega
      simp only [h1, h2, and_self, if_true]
      have : a - addr = (a - (addr + 1)) + 1 := by omega
      rw [this]; simp
    · simp only [h1, if_false]
      by_cases h3 : a = addr
      · subst h3
        have h2 : a ≤ a ∧ a < a + (rest.length + 1) := by omega
        simp [h2]
      · have h2 : ¬ (addr ≤ a ∧ a < addr + (rest.length + 1)) := by omega
        simp [h2, h3]

/-- **C15, one line**: a valid-UTF-8 line is loaded exactly as the listing format says: a data line stores its bytes
    at consecutive addresses from its address, a line without `|` or a comment line changes nothing, anything else
    is refused -/
theorem C15_line (m : Mem) (loc : Nat) (line : Bytes) (hv : validUtf8 line = true) :
    loadLine m loc line = match Spec.classify line with
      | .data addr bs => .ok (storeBytes m addr bs) (addr + bs.length)
      | .nothing => .ok m loc
      | .malformed => .err := loadLine_spec m loc line hv

/-- **C15, whole file**: for every list of valid-UTF-8 lines, the loader refuses exactly when the format refuses
    (a malformed line) or there is no line at all; otherwise every address holds what the listing says (later
    lines over earlier ones, 0 where nothing is listed) -/
theorem C15_image (lines : List Bytes) (hv : ∀ l ∈ lines, validUtf8 l = true) :
    match Spec.image lines (fun _ => 0) [] with
    | some (f, _) =>
        if !lines.isEmpty then ∃ m', load lines = .ok m' ∧ ∀ a, m'.get a = f a
        else load lines = .emptyFile
    | none => ∃ l, load lines = .unparseable l := by
  have h := loadLines_spec lines [] 0 false [] hv
  have hget : (fun a => Mem.get [] a) = (fun _ => 0) := by
    funext a; simp [Mem.get]
  have hget' : Mem.get [] = (fun _ => 0) := hget
  rw [hget'] at h
  cases hi : Spec.image lines (fun _ => 0) [] with
  | none =>
    rw [hi] at h
    simpa [load] using h
  | some r =>
    rw [hi] at h
    simpa [load] using h

/-- lines that are not valid UTF-8 are an I/O error of `BufRead::lines`, never a panic -/
theorem C15_invalid_utf8 (line : Bytes) (rest : List Bytes) (m : Mem) (loc : Nat) (found : Bool)
    (h : validUtf8 line = false) : loadLines (line :: rest) m loc found = .ioError := by
  simp [loadLines, h]

end Yo
