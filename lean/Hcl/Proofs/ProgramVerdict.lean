import Hcl.Proofs.ActionsVerdict
import Hcl.Proofs.ConstDeterminism
import Hcl.Proofs.Accepted
open Rust

/-! Acceptance by `Program::new` does not depend on the iteration orders of the hash tables. -/

/-- **what one iteration order accepts, every order accepts** -/
theorem Program_new_verdict (fl : Flags) (cls : CharClass) (o₁ o₂ : Orders) (stmts : List Stmt) (p₁ : Program)
    (ho₁ : OrdersOK o₁) (ho₂ : OrdersOK o₂) (hwf : StmtsWF stmts)
    (h₁ : Program.new fl cls o₁ y86FixedFunctions stmts = .ok p₁) :
    ∃ p₂, Program.new fl cls o₂ y86FixedFunctions stmts = .ok p₂ := by
  have hcr := Program_new_constRefs fl cls o₁ stmts p₁ h₁
  unfold step1Of at hcr
  unfold Program.new at h₁ ⊢
  simp only at h₁ ⊢
  generalize hs1 : List.foldl (step1Stmt _ _) (step1Init y86FixedFunctions) stmts = s1 at h₁ ⊢
  have hs1' : stmts.foldl (step1Stmt (fixedNamesOf y86FixedFunctions)
      (y86FixedFunctions.filterMap fun f => f.outWire.map (·.1))) (step1Init y86FixedFunctions) = s1 := hs1
  obtain ⟨s1inv, _⟩ := step1_fold_inv (fixedNamesOf y86FixedFunctions)
    (y86FixedFunctions.filterMap fun f => f.outWire.map (·.1)) y86W0 stmts (step1Init y86FixedFunctions) hwf step1Init_inv
  rw [hs1'] at s1inv hcr
  split at h₁
  · simp at h₁
  · rename_i herrs1
    rw [if_neg herrs1]
    split at h₁
    · simp at h₁
    · rename_i constants hconst
      have hconst₂ := resolveConstants_order_independent fl o₁ o₂ s1.constantsRaw ho₁ ho₂ s1inv.cKeys
        (constRefs_of_nil s1 hcr) constants hconst
      rw [hconst₂]
      simp only
      generalize hs3 : s1.banksRaw.foldl (step3Bank fl cls s1 constants) { wireTypes := s1.wireTypes } = s3 at h₁ ⊢
      split at h₁
      · simp at h₁
      · rename_i herrs3
        rw [if_neg herrs3]
        split at h₁
        · simp at h₁
        · rename_i hmiss
          rw [if_neg hmiss]
          split at h₁
          · simp at h₁
          · rename_i actions hact
            obtain ⟨acts₂, hact₂⟩ := assignmentsToActions_verdict fl o₁ o₂ _ _ _ _ _ _ actions ho₁ ho₂ y86Fixed_table
              s1inv.aKeys hact
            rw [hact₂]
            exact ⟨_, rfl⟩
