import Hcl.Proofs.AcceptedValid
import Hcl.Proofs.NoLoopStages
import Hcl.Graph.TopoSort

/-!
# C10 — combinational loops are detected exactly, and the reported loop is real

Graph level.  `KGraph`/`Graph` carry, as lists, the iteration orders that the Kahn loop and
`find_cycle` observe in the `HashSet`/`HashMap`s of `Graph<T>` (program.rs); the theorems are
stated for *every* such pair of structures describing the same edge set, i.e. for every
hash-iteration order.  `SortResult.panic` stands for the `usize` underflow in
`num_in_unvisited - 1`, for fuel exhaustion of either loop and for
`panic!("find_cycle() called when no cycle present")`.
-/

theorem getLast!_cons_cons' (a b : Node) (t : List Node) : (a :: b :: t).getLast! = (b :: t).getLast! := by
  simp [List.getLast!_eq_getLast?_getD, List.getLast?_cons_cons]

theorem path_rank_le (g : Graph) (rank : Node → Nat) (hr : ∀ u v, v ∈ g.succ u → rank u < rank v) :
    ∀ (c : List Node) (a : Node), IsPath g (a :: c) → rank a ≤ rank ((a :: c).getLast!) := by
  intro c
  induction c with
  | nil => intro a _; simp [List.getLast!_eq_getLast?_getD]
  | cons b t ih =>
    intro a hp
    rw [getLast!_cons_cons']
    have h1 : rank a < rank b := hr a b hp.1
    have h2 := ih b hp.2
    omega

/-- a graph with a strictly increasing numbering along edges has no cycle -/
theorem no_cycle_of_rank (g : Graph) (rank : Node → Nat) (hr : ∀ u v, v ∈ g.succ u → rank u < rank v) :
    ¬ ∃ c, IsCycle g c := by
  rintro ⟨c, hc⟩
  cases c with
  | nil => exact hc
  | cons h t =>
    have h1 := path_rank_le g rank hr t h hc.1
    have h2 := hr _ _ hc.2
    omega

theorem idxOf_append_cons_of_not_mem (pre post : List Node) (x : Node) (h : x ∉ pre) :
    (pre ++ x :: post).idxOf x = pre.length := by
  induction pre with
  | nil => simp
  | cons a t ih =>
    have hne : a ≠ x := fun e => h (by simp [e])
    have ht : x ∉ t := fun e => h (by simp [e])
    simp only [List.cons_append, List.length_cons]
    rw [idxOf_cons_ne' _ _ _ hne, ih ht]

theorem idxOf_lt_of_mem (l : List Node) (x : Node) (h : x ∈ l) : l.idxOf x < l.length :=
  List.idxOf_lt_length_of_mem h

/-- **Exactness, every order**: the sorter answers "cycle" exactly when the dependency graph has one. -/
theorem C10_cycle_iff (kg : KGraph) (dg : Graph) (wf : KWF kg) (same : SameGraph kg dg) :
    (∃ c, topologicalSort kg dg = .cycle c) ↔ (∃ c, IsCycle dg c) := by
  constructor
  · rintro ⟨c, hc⟩
    rcases topologicalSort_spec kg dg wf same with ⟨o, ho, _⟩ | ⟨c', hc', hcyc⟩
    · rw [ho] at hc; cases hc
    · exact ⟨c', hcyc⟩
  · intro hex
    rcases topologicalSort_spec kg dg wf same with ⟨o, ho, hnd, hcov, hpo⟩ | ⟨c', hc', _⟩
    · exfalso
      refine no_cycle_of_rank dg (fun u => o.idxOf u) ?_ hex
      intro u v huv
      have huv' : v ∈ kg.succ u := (same.succ u v).mp huv
      have hv : v ∈ o := (hcov v).mpr (wf.closed u v huv').2
      obtain ⟨pre, post, rfl⟩ := List.append_of_mem hv
      have hvpre : v ∉ pre := by
        intro hm
        have := (List.nodup_append.mp hnd).2.2 v hm v (by simp)
        exact this rfl
      have hupre : u ∈ pre := hpo pre v post rfl u ((wf.inv u v).mp huv')
      rw [idxOf_append_cons_of_not_mem pre post v hvpre]
      have : (pre ++ v :: post).idxOf u ≤ pre.idxOf u := by
        rw [List.idxOf_append, if_pos hupre]; exact Nat.le_refl _
      have h2 := idxOf_lt_of_mem pre u hupre
      omega
    · exact ⟨c', hc'⟩

/-- **Soundness of the reported loop and of the schedule, totality**: for every iteration order the
    sorter returns either a duplicate-free list of all nodes in which every node comes after all its
    predecessors, or a list of nodes that is a real cycle; it never panics. -/
theorem C10_sorter_spec (kg : KGraph) (dg : Graph) (wf : KWF kg) (same : SameGraph kg dg) :
    (∃ order, topologicalSort kg dg = .ok order ∧ order.Nodup ∧ (∀ x, x ∈ order ↔ x ∈ kg.nodes) ∧
        PredOrdered kg order) ∨
    (∃ c, topologicalSort kg dg = .cycle c ∧ IsCycle dg c) :=
  topologicalSort_spec kg dg wf same

theorem C10_never_panics (kg : KGraph) (dg : Graph) (wf : KWF kg) (same : SameGraph kg dg) :
    topologicalSort kg dg ≠ .panic := by
  rcases topologicalSort_spec kg dg wf same with ⟨o, ho, _⟩ | ⟨c, hc, _⟩
  · rw [ho]; intro h; cases h
  · rw [hc]; intro h; cases h

/-- the reported loop is a loop whatever the graph (no well-formedness needed) -/
theorem C10_reported_loop_is_real (g : Graph) (c : List Node) (h : findCycle g = some (some c)) :
    IsCycle g c := findCycle_sound g c h

/-! Non-vacuity: a concrete well-formed cyclic and a concrete well-formed acyclic graph. -/
def exK : KGraph :=
  { nodes := ["c", "a", "b"],
    succ := fun u => if u = "a" then ["b"] else if u = "b" then ["c"] else if u = "c" then ["a"] else [],
    preds := fun v => if v = "b" then ["a"] else if v = "c" then ["b"] else if v = "a" then ["c"] else [],
    numEdges := 3 }
def exD : Graph := { nodes := exK.nodes, succ := exK.succ }

example : topologicalSort exK exD = .cycle ["c", "a", "b"] := by decide

def exK2 : KGraph :=
  { nodes := ["c", "a", "b"],
    succ := fun u => if u = "a" then ["b", "c"] else if u = "b" then ["c"] else [],
    preds := fun v => if v = "b" then ["a"] else if v = "c" then ["a", "b"] else [],
    numEdges := 3 }
example : topologicalSort exK2 { nodes := exK2.nodes, succ := exK2.succ } = .ok ["a", "b", "c"] := by decide

/-! ### for every accepted program -/

/-- the dependency graph of a list of value-writing actions: `u → v` when the action driving `v` reads `u` -/
def depGraph (acts : List Action) : Graph :=
  { nodes := acts.map Action.out
    succ := fun u => (acts.filter (fun a => a.reads.contains u)).map Action.out }

theorem sched_split (avail : List String) (l1 : List Action) (a : Action) (l2 : List Action)
    (h : Sched avail (l1 ++ a :: l2)) : ∀ r ∈ a.reads, r ∈ avail ∨ r ∈ writesOf l1 := by
  rw [sched_append] at h
  intro r hr
  have := h.2.1 r hr
  exact List.mem_append.mp this

/-- **C10 for every accepted program**: the dependency graph of an accepted program's value-writing actions (wire `u`
    → wire `v` when the definition or component driving `v` reads `u`) has no cycle: a program with a combinational
    loop is never accepted, under any iteration order. -/
theorem C10_accepted_acyclic (fl : Flags) (cls : CharClass) (o : Orders) (stmts : List Stmt) (p : Program)
    (ho : OrdersOK o) (hwf : StmtsWF stmts)
    (h : Program.new fl cls o y86FixedFunctions stmts = .ok p) :
    ∃ pre fin, p.actions = pre ++ fin ∧ (∀ a ∈ fin, a.isPure = false) ∧ ¬ ∃ c, IsCycle (depGraph pre) c := by
  obtain ⟨pre, fin, known, hsplit, hv, hfin, hsched, hknown, _⟩ := Program_new_valid fl cls o stmts p ho hwf h
  refine ⟨pre, fin, hsplit, hfin, ?_⟩
  have hnd : (pre.map Action.out).Nodup := by
    have : ∀ (l : List Action) (before : List String), ValidFrom before l → (l.map Action.out).Nodup := by
      intro l
      induction l with
      | nil => intro _ _; simp
      | cons a rest ih =>
        intro before hvl
        simp only [List.map_cons, List.nodup_cons]
        exact ⟨hvl.2.2.1, ih _ hvl.2.2.2.2⟩
    exact this pre [] hv
  -- rank: position of the output among the outputs (0 for wires nobody drives)
  apply no_cycle_of_rank (depGraph pre) (fun u => if u ∈ pre.map Action.out then (pre.map Action.out).idxOf u + 1 else 0)
  intro u v huv
  simp only [depGraph, List.mem_map, List.mem_filter] at huv
  obtain ⟨a, ⟨ha, hread⟩, rfl⟩ := huv
  have hur : u ∈ a.reads := by simpa using hread
  obtain ⟨l1, l2, hl⟩ := List.append_of_mem ha
  have hreads := sched_split known l1 a l2 (by rw [← hl]; exact hsched) u hur
  have hvmem : a.out ∈ pre.map Action.out := List.mem_map.mpr ⟨a, ha, rfl⟩
  -- the position of a's output is the length of l1
  have hnotin : a.out ∉ l1.map Action.out := by
    rw [hl, List.map_append, List.map_cons, List.nodup_append] at hnd
    intro hm
    exact hnd.2.2 _ hm _ List.mem_cons_self rfl
  have hidx : (pre.map Action.out).idxOf a.out = l1.length := by
    rw [hl, List.map_append, List.map_cons, idxOf_append_cons_of_not_mem _ _ _ hnotin, List.length_map]
  simp only [hvmem, if_true, hidx]
  by_cases hum : u ∈ pre.map Action.out
  · simp only [hum, if_true]
    rcases hreads with h1 | h1
    · exact absurd hum (hknown u h1)
    · -- u is written by an action of l1
      simp only [writesOf, List.mem_flatMap] at h1
      obtain ⟨b, hb, hub⟩ := h1
      have hbpure : b.isPure = true := validFrom_pure pre [] hv b (by rw [hl]; exact List.mem_append_left _ hb)
      rw [pure_writes b hbpure] at hub
      simp at hub
      have hu1 : u ∈ l1.map Action.out := List.mem_map.mpr ⟨b, hb, hub.symm⟩
      have : (pre.map Action.out).idxOf u < l1.length := by
        rw [hl, List.map_append, List.idxOf_append]
        simp only [hu1, if_true]
        have := idxOf_lt_of_mem _ _ hu1
        simpa using this
      omega
  · simp only [hum, if_false]; omega

/-! ### for every rejected program: the reported loop is real -/

/-- **C10, the reported loop is real**: whenever the diagnostics of `Program::new` (any statement list, flag set,
    iteration order) contain a loop report, it is the only diagnostic, and the wires it lists form a cycle of the
    dependency relation of the statements: each is read by what drives the next (the definition of a constant or wire,
    or the built-in component with that output), and the last by what drives the first. -/
theorem C10_reported_loop_real (fl : Flags) (cls : CharClass) (o : Orders) (stmts : List Stmt) (ds : List Diag) (c : List String)
    (ho : OrdersOK o) (hwf : StmtsWF stmts)
    (h : Program.new fl cls o y86FixedFunctions stmts = .error ds) (hc : (⟨.WireLoop, c⟩ : Diag) ∈ ds) :
    ds = [⟨.WireLoop, c⟩] ∧ RelCycle (DependsOn stmts) c := by
  rcases Program_new_nl fl cls o stmts ho hwf ds h with h1 | ⟨c', h1, h2⟩
  · exact absurd rfl (h1 _ hc)
  · rw [h1] at hc
    simp only [List.mem_cons, List.not_mem_nil, or_false, Diag.mk.injEq, true_and] at hc
    subst hc
    exact ⟨h1, h2⟩

/-- a cycle of a relation has at least one element, and every element has a successor in it -/
example (R : Node → Node → Prop) (a b : Node) (h : RelCycle R [a, b]) : R a b ∧ R b a := ⟨h.1.1, h.2⟩
