"""C05 — memory is little-endian and byte-addressed; writes land at the end of the cycle."""
from props import C19
from props import C15
import re
from props.common_prog import judge_prog

THEOREM_MODULES = ["Hcl.Theorems.C05", "Hcl.Theorems.Effects", "Hcl.Tie.Memory", "Hcl.Tie.Fixed", "Hcl.Tie.PinsStep", "Hcl.Tie.PinsYo"]
THEOREMS = {"Hcl.Theorems.Effects": ["C04_C05_accepted_effect", "portWrite_spec", "writeMem_effect", "writeReg_effect"], "Hcl.Tie.Memory": ["Tie.Memory.memoryReadText", "Tie.Memory.memoryWriteText"], "Hcl.Tie.Fixed": ["Tie.Fixed.fixedFunctions"], "Hcl.Theorems.C05": ["C05_read_spec", "C05_write_spec", "wrLE_hit", "wrLE_other", "C05_read_after_write",
                                 "C05_last_write_wins", "C05_untouched", "C05_read_port", "C05_instruction_port",
                                 "C05_write_port"],
            "Hcl.Tie.PinsStep": ["Tie.PinsStep.pinStepWithOutput"],
            "Hcl.Tie.PinsYo": ["Tie.PinsYo.pinLoadLine", "Tie.PinsYo.pinLoadFrom"]}

RULE = ("S-PROG memory profile: mem_addr/pc from {small constants, counter-derived, 0 - counter (top of the address space), "
        "random 64-bit}, read and write enables toggling over the cycles, random initial images (bytes near 0, near 2^64 "
        "and random), instruction port on data that was just written, 1-12 cycles. The memory map (verif-hooks accessor), "
        "mem_output, i10bytes and all other wires are compared after every cycle with the Lean model and with Spec.cycle "
        "(rdLE/wrLE over addresses mod 2^64, writes after all reads). Wrap-around and same-cycle read+write coverage is counted.")


def judge(req, impl, model, spec):
    j = judge_prog(req, impl, model, spec)
    if not impl.startswith("ok") or "tag-memory" not in j["cats"]:
        j["key"] = None
        return j
    if re.search(r"mem_addr=1844674407370955\d{4}/64", impl):
        j["cats"].append("address-near-2^64")
    if re.search(r"mem_readbit=1/1", impl) and re.search(r"mem_writebit=1/1", impl):
        j["cats"].append("read-and-write-enabled")
    return j


def streams(tier, seed):
    q = tier == "quick"
    return [{"name": "prog-memory", "stream": "prog", "count": 600 if q else 20000, "extra": ("memory",), "judge": judge},
            # what the user sees goes through the command line and the two files: the real binary on accepted, rejected, big, not-UTF-8, bare-CR files, good and malformed images, all options and TIMEOUT forms (as in C19)
            {"name": "cli", "stream": "cli", "count": 200 if q else 5000, "pygen": C19.pygen, "judge": C19.judge},
            # "else the loaded image": what memory holds before the first write is what the loader made of the .yo file (as in C15)
            {"name": "yo", "stream": "yo", "count": 1500 if q else 40000, "judge": C15.judge},
            {"name": "yo-malformed", "stream": "yo-malformed", "count": 2000 if q else 50000, "judge": C15.judge}]
