import Hcl.Model.Check
import Hcl.Model.ParserStmtsSp

/-! # What the located parts of a diagnostic of `Program::new` must be  (property C14)

"Every diagnostic that shows a source location ... underlines exactly the offending span."  For each kind of
diagnostic this file says, over the spanned statements `SStmt` of the program (preamble included), what the spans the
diagnostic shows must be: the declaration, assignment target, register or (sub-)expression the diagnostic is ABOUT.
It is written from the wording of the diagnostics (errors.rs `format_for_contents`: "Wire 'x' never assigned but defined
here:", "Wire 'x' redeclared. Declared here: ... After being declared here:", "Constant 'x' is assigned a value here: ...
but it is defined as a constant here:", ...), not from program.rs.

`PointsAt ss d spans`: `spans` (in the order the diagnostic shows them) are acceptable locations for `d`. -/

namespace Spec
open Parser

/-- the declarations of the program: name and the span that declares it (a wire declaration `name : width`, or the name
    of a constant in `const name = value`) -/
def declsOf (ss : List SStmt) : List (String × Span) :=
  ss.flatMap fun st => match st with
    | .consts ds => ds.map fun d => (d.name, d.nameSpan)
    | .wires ds => ds.map fun d => (d.name, d.span)
    | _ => []

/-- the constants: name, span of the name -/
def constDeclsOf (ss : List SStmt) : List (String × Span) :=
  ss.flatMap fun st => match st with
    | .consts ds => ds.map fun d => (d.name, d.nameSpan)
    | _ => []

/-- the assignment targets: name, span of the name, the value assigned -/
def targetsOf (ss : List SStmt) : List (String × Span × PEx) :=
  ss.flatMap fun st => match st with
    | .assigns as => as.flatMap fun a => a.names.map fun nm => (nm.1, nm.2, a.value)
    | _ => []

def banksOf (ss : List SStmt) : List SBankDecl :=
  ss.flatMap fun st => match st with
    | .bank b => [b]
    | _ => []

/-- the signals a register declaration stands for (`register xY { r : w = d; }` declares `x_r` and `Y_r`): the signal's
    name, the bank, the register -/
def regSignalsOf (ss : List SStmt) : List (String × SBankDecl × SRegDecl) :=
  (banksOf ss).flatMap fun b =>
    match b.name.toList with
    | [i, o] => b.registers.flatMap fun r => [(String.ofList [i, '_'] ++ r.name, b, r), (String.ofList [o, '_'] ++ r.name, b, r)]
    | _ => []

/-- the control signals of a bank `xY`: `stall_Y` and `bubble_Y` -/
def controlSignalsOf (b : SBankDecl) : List String :=
  match b.name.toList with
  | [_, o] => ["stall_" ++ String.ofList [o], "bubble_" ++ String.ofList [o]]
  | _ => []

/-- the expressions of the program: values of constants, assigned values, default values of registers -/
def exprsOf (ss : List SStmt) : List PEx :=
  ss.flatMap fun st => match st with
    | .consts ds => ds.map (·.value)
    | .wires _ => []
    | .assigns as => as.map (·.value)
    | .bank b => b.registers.map (·.default)

mutual
/-- all sub-expressions of an expression, itself included -/
def subs : PEx → List PEx
  | .const s e v => [.const s e v]
  | .bin s e op l r => .bin s e op l r :: (subs l ++ subs r)
  | .un s e op x => .un s e op x :: subs x
  | .mux s e opts => .mux s e opts :: subsOpts opts
  | .wire s e n => [.wire s e n]
  | .slice s e x lo hi => .slice s e x lo hi :: subs x
  | .concat s e l r => .concat s e l r :: (subs l ++ subs r)
  | .inSet s e x items => .inSet s e x items :: (subs x ++ subsExs items)
def subsOpts : POpts → List PEx
  | .nil => []
  | .cons c v rest => subs c ++ subs v ++ subsOpts rest
def subsExs : PExs → List PEx
  | .nil => []
  | .cons x rest => subs x ++ subsExs rest
end

/-- the spans of the values of the options of a case expression -/
def optionValueSpans : POpts → List Span
  | .nil => []
  | .cons _ v rest => v.span :: optionValueSpans rest

/-- `sp` is where the name `n` is read: a wire reference spelled `n` inside an expression of the program -/
def ReadAt (ss : List SStmt) (n : String) (sp : Span) : Prop :=
  ∃ x ∈ exprsOf ss, ∃ s e, PEx.wire s e n ∈ subs x ∧ sp = (s, e)

/-- every span is the span of a sub-expression of one and the same expression of the program -/
def InOneExpr (ss : List SStmt) (spans : List Span) : Prop :=
  ∃ x ∈ exprsOf ss, ∀ sp ∈ spans, ∃ y ∈ subs x, sp = y.span

/-- `sp` is the span of a register declaration one of whose two signals is `n` -/
def RegisterOf (ss : List SStmt) (n : String) (sp : Span) : Prop :=
  ∃ b r, (n, b, r) ∈ regSignalsOf ss ∧ sp = r.span

/-- `sp` is the span of an assignment target spelled `n` -/
def TargetOf (ss : List SStmt) (n : String) (sp : Span) : Prop := ∃ x, (n, sp, x) ∈ targetsOf ss

/-- the located parts each kind of diagnostic must have -/
def PointsAt (ss : List SStmt) (d : Diag) (spans : List Span) : Prop :=
  match d.kind, d.names, spans with
  -- a wire that is declared and never assigned: its declaration
  | .UnsetWire, [n], [sp] => (n, sp) ∈ declsOf ss
  -- an input of a register that is never assigned: the declaration of the register
  | .UnsetRegisterInputWire, [n], [sp] => RegisterOf ss n sp
  -- a second declaration of a name: what declares it the second time (a declaration, a register one of whose signals
  -- it is, or the name of the bank one of whose control signals it is), then a declaration of the name
  | .RedeclaredWire, [n], [new, old] =>
      ((n, new) ∈ declsOf ss ∨ RegisterOf ss n new ∨ ∃ b ∈ banksOf ss, n ∈ controlSignalsOf b ∧ new = b.nameSpan) ∧
      (n, old) ∈ declsOf ss
  | .RedeclaredBuiltinWire, [n], [sp] => (n, sp) ∈ declsOf ss
  -- a wire assigned twice: two assignment targets spelled with its name
  | .DoubleAssignedWire, [n], [new, old] => TargetOf ss n new ∧ TargetOf ss n old
  | .DoubleAssignedFixedOutWire, [n], [sp] => TargetOf ss n sp
  -- a constant that is assigned: the assignment target, then a declaration of the name
  | .AssignedConstant, [n], [sp, decl] => TargetOf ss n sp ∧ (n, decl) ∈ declsOf ss
  | .UndeclaredWireAssigned, [n], [sp] => TargetOf ss n sp
  -- a name that is read where it may not be: an occurrence of the name in an expression of the program
  | .UndeclaredWireRead, [n], [sp] => ReadAt ss n sp
  | .NonConstantWireRead, [n], [sp] => ReadAt ss n sp
  -- an output of a register that is also assigned: the register, then the assignment target
  | .DoubleAssignedRegisterWire, [n], [reg, asg] => RegisterOf ss n reg ∧ TargetOf ss n asg
  -- a signal two registers stand for: the two registers
  | .DoubleDeclaredRegisterOutWire, [n], [old, new] => RegisterOf ss n old ∧ RegisterOf ss n new
  | .InvalidRegisterBankName, [name], [sp] => ∃ b ∈ banksOf ss, b.name = name ∧ sp = b.nameSpan
  -- a value of the wrong width: the value assigned to the wire / the default value of the register
  | .MismatchedWireWidths, [n], [sp] => ∃ t x, (n, t, x) ∈ targetsOf ss ∧ sp = x.span
  | .MismatchedRegisterDefaultWidths, [bank, reg], [sp] =>
      ∃ b ∈ banksOf ss, ∃ r ∈ b.registers, b.name = bank ∧ r.name = reg ∧ sp = r.default.span
  -- the errors of the width checker: sub-expressions of one expression of the program
  | .MismatchedExprWidths, [], [a, b] => InOneExpr ss [a, b]
  | .NonBooleanWidth, [], [sp] => InOneExpr ss [sp]
  | .NoBitWidth, [], [sp] => InOneExpr ss [sp]
  | .WireTooWide, [], [sp] => InOneExpr ss [sp]
  | .InvalidBitIndex, [], [sp] => InOneExpr ss [sp]
  | .MisorderedBitIndexes, [], [sp] => InOneExpr ss [sp]
  | .NoMuxDefaultOption, [], [sp] => InOneExpr ss [sp]
  | .MultipleMuxDefaultOption, [], [sp] => InOneExpr ss [sp]
  | .UnreachableOptions, [], [sp] => InOneExpr ss [sp]
  -- the values of all the options of one case expression of the program
  | .MismatchedMuxWidths, [], sps => ∃ x ∈ exprsOf ss, ∃ s e opts, PEx.mux s e opts ∈ subs x ∧ sps = optionValueSpans opts
  -- diagnostics without a location
  | .WireLoop, _, [] => True
  | .PartialFixedInput, _, [] => True
  | .UnsetBuiltinWire, _, [] => True
  | .UnsetUndeclaredWire, _, [] => True
  | .DuplicateRegister, _, [] => True
  | .DivideByZero, _, [] => True
  | .RuntimeMismatchedWidths, _, [] => True
  | .InternalPanic, _, [] => True
  | _, _, _ => False

end Spec
