//! hclv: correspondence harness.  `hclv gen <stream> <seed> <count> <outfile> [args..]` runs the
//! real hclrs code in-process on generated inputs and writes one line per case:
//! `<request S-expression>\t<implementation result>`.
mod rng;
mod graphs;
mod gen;
mod progrun;
mod streams;
mod proggen;
mod watch;
mod render;


fn main() {
    let args: Vec<String> = std::env::args().collect();
    if args.len() < 6 || args[1] != "gen" {
        eprintln!("usage: hclv gen <stream> <seed> <count> <outfile> [extra]");
        std::process::exit(2);
    }
    // keep panic messages of the code under test out of the way; they are caught and reported as results
    std::panic::set_hook(Box::new(|_| {}));
    let stream = args[2].as_str();
    let seed: u64 = args[3].parse().expect("seed");
    let count: u64 = args[4].parse().expect("count");
    watch::init(&args[5], format!("{} {}", stream, seed));
    let extra: Vec<String> = args[6..].to_vec();
    let mut rng = rng::Rng::new(seed);
    let mut emit = |req: String, res: String| watch::emit(req, res);
    match stream {
        "graph-exhaustive" => {
            // count = number of nodes; all graphs with 0..=count nodes
            for n in 0..=(count as u32) { graphs::exhaustive(n, &mut emit); }
        }
        "graph-slice" => {
            let lo: u64 = extra[0].parse().unwrap();
            let hi: u64 = extra[1].parse().unwrap();
            graphs::exhaustive_slice(count as u32, lo, hi, &mut emit);
        }
        "graph-random" => graphs::random(&mut rng, count, &mut emit),
        "expr" => streams::expr(&mut rng, count, false, &mut emit),
        "expr-mutated" => streams::expr(&mut rng, count, true, &mut emit),
        "prog-fault" => streams::prog_faulty(&mut rng, count, "fault", &mut emit),
        "yo" => streams::yo(&mut rng, count, false, &mut emit),
        "yo-malformed" => streams::yo(&mut rng, count, true, &mut emit),
        "parse" => streams::parse(&mut rng, count, &mut emit),
        "lex" => streams::lex(&mut rng, count, &mut emit),
        "region" => streams::region(&mut rng, count, &mut emit),
        "diag" => streams::diag(&mut rng, count, &mut emit),
        "render" => render::render(&mut rng, count, &mut emit),
        "anytext" => streams::anytext(&mut rng, count, &mut emit),
        "literal" => streams::literal(&mut rng, count, &mut emit),
        "table" => streams::table(&mut rng, count, &mut emit),
        "options" => streams::options(&mut rng, count, &mut emit),
        "reorder" => streams::reorder(&mut rng, count, &mut emit),
        "messages" => streams::messages(&mut rng, count, &mut emit),
        "dump" => streams::dump(&mut rng, count, &mut emit),
        "disasm" => streams::disasm(&mut rng, count, &mut emit),
        "trace" => streams::trace(&mut rng, count, &mut emit),
        "run" => streams::run(&mut rng, count, &mut emit),
        "prog-loop" => streams::prog_faulty(&mut rng, count, "loop", &mut emit),
        "prog-multi" => streams::prog_faulty(&mut rng, count, "multi", &mut emit),
        "prog" => streams::prog(&mut rng, count, extra.get(0).map(|s| s.as_str()).unwrap_or("dag"), &mut emit),
        _ => { eprintln!("unknown stream {}", stream); std::process::exit(2); }
    }
    watch::finish();
}
