import Hcl.Generated

/-! Text pins (written by tools/mkpins.py): the comment-free, whitespace-normalised bodies of functions that the
    hand-written model transcribes, as they were when the model was last validated against them.  An edit of one
    of these functions makes the `rfl` below fail; the check then looks for an input on which model and code
    differ, and reports the property as no longer shown to hold when it finds none. -/

namespace Tie.PinsValue

/-- `pub fn as_width(self, new_width: WireWidth)`, src/ast.rs -/
theorem pinAsWidth : Generated.pinAsWidth = ("WireValue { bits: self.bits & new_width.mask(), width: new_width }" : String) := by rfl

/-- `pub fn op<F>(self, other: WireValue`, src/ast.rs -/
theorem pinValueOp : Generated.pinValueOp = ("WireValue { bits: f(self.bits, other.bits) & new_width.mask(), width: new_width }" : String) := by rfl

end Tie.PinsValue
