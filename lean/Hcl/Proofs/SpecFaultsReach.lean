import Hcl.Spec.Accept
import Hcl.Proofs.NoLoopStages

/-!
# The executable cycle test of the specification is exact

`Spec.cyclicNodes edges = []` exactly when the relation "is an edge" has no cycle (`RelCycle`).
-/

namespace SF.Reach

/-- reachable through a non-empty path of edges -/
inductive TC (E : List (String × String)) : String → String → Prop
  | single {u v : String} : (u, v) ∈ E → TC E u v
  | head {u w v : String} : (u, w) ∈ E → TC E w v → TC E u v

theorem TC.tail {E : List (String × String)} {u w v : String} (h : TC E u w) (e : (w, v) ∈ E) : TC E u v := by
  induction h with
  | single h1 => exact TC.head h1 (TC.single e)
  | head h1 _ ih => exact TC.head h1 (ih e)

def succs (E : List (String × String)) (u : String) : List String := (E.filter (fun e => e.1 == u)).map (·.2)

theorem mem_succs (E : List (String × String)) (u v : String) : v ∈ succs E u ↔ (u, v) ∈ E := by
  unfold succs
  simp only [List.mem_map, List.mem_filter, beq_iff_eq]
  constructor
  · rintro ⟨⟨a, b⟩, ⟨hm, h1⟩, h2⟩
    simp only at h1 h2
    subst h1; subst h2; exact hm
  · intro h; exact ⟨(u, v), ⟨h, rfl⟩, rfl⟩

theorem dedup_eq (l : List String) : Spec.dedup l = dedupS l := rfl

theorem mem_dedup (l : List String) (x : String) : x ∈ Spec.dedup l ↔ x ∈ l := by
  rw [dedup_eq]; exact mem_dedupS l x

theorem reaches_zero (E : List (String × String)) (u : String) : Spec.reaches E 0 u = succs E u := rfl

theorem reaches_succ (E : List (String × String)) (k : Nat) (u : String) :
    Spec.reaches E (k + 1) u = Spec.dedup (Spec.reaches E k u ++ (Spec.reaches E k u).flatMap (succs E)) := rfl

theorem mem_reaches_succ (E : List (String × String)) (k : Nat) (u v : String) :
    v ∈ Spec.reaches E (k + 1) u ↔ v ∈ Spec.reaches E k u ∨ ∃ w, w ∈ Spec.reaches E k u ∧ (w, v) ∈ E := by
  rw [reaches_succ, mem_dedup, List.mem_append, List.mem_flatMap]
  constructor
  · rintro (h | ⟨w, hw, hv⟩)
    · exact Or.inl h
    · exact Or.inr ⟨w, hw, (mem_succs E w v).mp hv⟩
  · rintro (h | ⟨w, hw, hv⟩)
    · exact Or.inl h
    · exact Or.inr ⟨w, hw, (mem_succs E w v).mpr hv⟩

/-- soundness: every listed node is the end of a non-empty path -/
theorem tc_of_mem_reaches (E : List (String × String)) (u : String) :
    ∀ (k : Nat) (v : String), v ∈ Spec.reaches E k u → TC E u v := by
  intro k
  induction k with
  | zero => intro v h; rw [reaches_zero] at h; exact TC.single ((mem_succs E u v).mp h)
  | succ k ih =>
    intro v h
    rcases (mem_reaches_succ E k u v).mp h with h | ⟨w, hw, he⟩
    · exact ih v h
    · exact (ih w hw).tail he

theorem reaches_mono_succ (E : List (String × String)) (u : String) (k : Nat) (v : String)
    (h : v ∈ Spec.reaches E k u) : v ∈ Spec.reaches E (k + 1) u :=
  (mem_reaches_succ E k u v).mpr (Or.inl h)

theorem reaches_mono_zero (E : List (String × String)) (u : String) (k : Nat) (v : String)
    (h : v ∈ Spec.reaches E 0 u) : v ∈ Spec.reaches E k u := by
  induction k with
  | zero => exact h
  | succ k ih => exact reaches_mono_succ E u k v ih

def Closed (E : List (String × String)) (S : List String) : Prop :=
  ∀ w, w ∈ S → ∀ v, (w, v) ∈ E → v ∈ S

theorem closed_or_grows (E : List (String × String)) (u : String) (k : Nat) :
    Closed E (Spec.reaches E k u) ∨
      ∃ l : List String, l.Nodup ∧ (∀ x, x ∈ l → x ∈ Spec.reaches E k u) ∧ k + 1 ≤ l.length := by
  induction k with
  | zero =>
    by_cases h : ∃ w v, w ∈ Spec.reaches E 0 u ∧ (w, v) ∈ E ∧ v ∉ Spec.reaches E 0 u
    · obtain ⟨w, v, hw, _, _⟩ := h
      refine Or.inr ⟨[w], by simp, ?_, by simp⟩
      intro x hx
      simp only [List.mem_singleton] at hx
      subst hx; exact hw
    · refine Or.inl ?_
      intro w hw v he
      by_cases hv : v ∈ Spec.reaches E 0 u
      · exact hv
      · exact absurd ⟨w, v, hw, he, hv⟩ h
  | succ k ih =>
    by_cases h : ∃ w v, w ∈ Spec.reaches E k u ∧ (w, v) ∈ E ∧ v ∉ Spec.reaches E k u
    · obtain ⟨w, v, hw, he, hv⟩ := h
      rcases ih with hc | ⟨l, hnd, hsub, hlen⟩
      · exact absurd (hc w hw v he) hv
      · refine Or.inr ⟨v :: l, ?_, ?_, ?_⟩
        · rw [List.nodup_cons]
          exact ⟨fun hvl => hv (hsub v hvl), hnd⟩
        · intro x hx
          rcases List.mem_cons.mp hx with hx | hx
          · subst hx
            exact (mem_reaches_succ E k u x).mpr (Or.inr ⟨w, hw, he⟩)
          · exact reaches_mono_succ E u k x (hsub x hx)
        · simp only [List.length_cons]; omega
    · have hc : Closed E (Spec.reaches E k u) := by
        intro w hw v he
        by_cases hv : v ∈ Spec.reaches E k u
        · exact hv
        · exact absurd ⟨w, v, hw, he, hv⟩ h
      refine Or.inl ?_
      intro w hw v he
      have hw' : w ∈ Spec.reaches E k u := by
        rcases (mem_reaches_succ E k u w).mp hw with h1 | ⟨x, hx, hxe⟩
        · exact h1
        · exact hc x hx w hxe
      exact reaches_mono_succ E u k v (hc w hw' v he)

/-- the nodes of the edge list -/
def nodes (E : List (String × String)) : List String := Spec.dedup (E.flatMap (fun e => [e.1, e.2]))

theorem mem_nodes (E : List (String × String)) (x : String) :
    x ∈ nodes E ↔ ∃ e, e ∈ E ∧ (x = e.1 ∨ x = e.2) := by
  unfold nodes
  rw [mem_dedup, List.mem_flatMap]
  simp only [List.mem_cons, List.not_mem_nil, or_false]

theorem tc_target_mem_nodes {E : List (String × String)} {u v : String} (h : TC E u v) : v ∈ nodes E := by
  induction h with
  | single h1 => exact (mem_nodes E _).mpr ⟨_, h1, Or.inr rfl⟩
  | head _ _ ih => exact ih

theorem closed_at_fuel (E : List (String × String)) (u : String) :
    Closed E (Spec.reaches E (nodes E).length u) := by
  rcases closed_or_grows E u (nodes E).length with h | ⟨l, hnd, hsub, hlen⟩
  · exact h
  · exfalso
    have hs : l ⊆ nodes E := fun x hx => tc_target_mem_nodes (tc_of_mem_reaches E u _ x (hsub x hx))
    have := List.Nodup.length_le_of_subset hnd hs
    omega

theorem closed_tc {E : List (String × String)} {S : List String} (hc : Closed E S) {w v : String} (h : TC E w v) :
    w ∈ S → v ∈ S := by
  induction h with
  | single h1 => intro hw; exact hc _ hw _ h1
  | head h1 _ ih => intro hw; exact ih (hc _ hw _ h1)

/-- completeness: with fuel `nodes.length` every end of a non-empty path is listed -/
theorem mem_reaches_of_tc (E : List (String × String)) (u v : String) (h : TC E u v) :
    v ∈ Spec.reaches E (nodes E).length u := by
  have hc := closed_at_fuel E u
  have h0 : ∀ w, (u, w) ∈ E → w ∈ Spec.reaches E (nodes E).length u := fun w hw =>
    reaches_mono_zero E u _ w (by rw [reaches_zero]; exact (mem_succs E u w).mpr hw)
  cases h with
  | single h1 => exact h0 v h1
  | head h1 h2 => exact closed_tc hc h2 (h0 _ h1)

theorem mem_cyclicNodes (E : List (String × String)) (u : String) : u ∈ Spec.cyclicNodes E ↔ TC E u u := by
  show u ∈ (nodes E).filter (fun u => (Spec.reaches E (nodes E).length u).contains u) ↔ _
  rw [List.mem_filter, List.contains_iff_mem]
  constructor
  · rintro ⟨_, h⟩; exact tc_of_mem_reaches E u _ u h
  · intro h; exact ⟨tc_target_mem_nodes h, mem_reaches_of_tc E u u h⟩

/-! ### paths as lists -/

theorem getLast!_cons_cons (a b : String) (t : List String) : (a :: b :: t).getLast! = (b :: t).getLast! := rfl

theorem tc_of_relPath (E : List (String × String)) :
    ∀ (t : List String) (a x : String), RelPath (fun u v => (u, v) ∈ E) (a :: t) → ((a :: t).getLast!, x) ∈ E → TC E a x := by
  intro t
  induction t with
  | nil => intro a x _ hl; exact TC.single hl
  | cons b t ih =>
    intro a x hp hl
    rw [getLast!_cons_cons] at hl
    exact TC.head hp.1 (ih b x hp.2 hl)

theorem relPath_of_tc {E : List (String × String)} {u v : String} (h : TC E u v) :
    ∃ t : List String, RelPath (fun a b => (a, b) ∈ E) (u :: t) ∧ ((u :: t).getLast!, v) ∈ E := by
  induction h with
  | single h1 => exact ⟨[], trivial, h1⟩
  | head h1 _ ih =>
    obtain ⟨t, hp, hl⟩ := ih
    exact ⟨_ :: t, ⟨h1, hp⟩, by rw [getLast!_cons_cons]; exact hl⟩

theorem relCycle_iff_tc (E : List (String × String)) :
    (∃ c, RelCycle (fun u v => (u, v) ∈ E) c) ↔ ∃ u, TC E u u := by
  constructor
  · rintro ⟨c, hc⟩
    cases c with
    | nil => exact hc.elim
    | cons a t => exact ⟨a, tc_of_relPath E t a a hc.1 hc.2⟩
  · rintro ⟨u, h⟩
    obtain ⟨t, hp, hl⟩ := relPath_of_tc h
    exact ⟨u :: t, hp, hl⟩

end SF.Reach

/-- a reported node lies on a cycle, and every node on a cycle is reported -/
theorem SF.mem_cyclicNodes_iff (edges : List (String × String)) (u : String) :
    u ∈ Spec.cyclicNodes edges ↔
      ∃ t : List String, RelCycle (fun a b => (a, b) ∈ edges) (u :: t) := by
  rw [SF.Reach.mem_cyclicNodes]
  constructor
  · intro h
    obtain ⟨t, hp, hl⟩ := SF.Reach.relPath_of_tc h
    exact ⟨t, hp, hl⟩
  · rintro ⟨t, hc⟩
    exact SF.Reach.tc_of_relPath edges t u u hc.1 hc.2

theorem SF.cyclicNodes_nil_of_acyclic (edges : List (String × String))
    (h : ¬ ∃ c, RelCycle (fun u v => (u, v) ∈ edges) c) : Spec.cyclicNodes edges = [] := by
  apply List.eq_nil_iff_forall_not_mem.mpr
  intro u hu
  exact h ((SF.Reach.relCycle_iff_tc edges).mpr ⟨u, (SF.Reach.mem_cyclicNodes edges u).mp hu⟩)

theorem SF.acyclic_of_cyclicNodes_nil (edges : List (String × String))
    (h : Spec.cyclicNodes edges = []) : ¬ ∃ c, RelCycle (fun u v => (u, v) ∈ edges) c := by
  intro hc
  obtain ⟨u, hu⟩ := (SF.Reach.relCycle_iff_tc edges).mp hc
  have := (SF.Reach.mem_cyclicNodes edges u).mpr hu
  rw [h] at this
  exact absurd this List.not_mem_nil

theorem SF.cyclicNodes_nil_iff (edges : List (String × String)) :
    Spec.cyclicNodes edges = [] ↔ ¬ ∃ c, RelCycle (fun u v => (u, v) ∈ edges) c :=
  ⟨SF.acyclic_of_cyclicNodes_nil edges, SF.cyclicNodes_nil_of_acyclic edges⟩

#print axioms SF.cyclicNodes_nil_iff
#print axioms SF.mem_cyclicNodes_iff
