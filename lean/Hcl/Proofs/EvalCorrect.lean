import Hcl.Proofs.UnOps
import Hcl.Model.Check
open Rust

/-! The central expression-level theorem: for an expression the checker accepts at width `w`,
    the (width-fixed) expression evaluates — without panic or run-time width error — to exactly
    the specified value `Spec.dv` at width `w = Spec.sw`, or reports division by zero exactly
    when the specification says a division by zero is evaluated. -/

def CtxOK (Γ : Ctx) : Prop := ∀ n w, Γ n = some w → w.ok

/-- every wire of the context has a value of its declared width -/
def EnvOK (Γ : Ctx) (σ : Env) : Prop := ∀ n w, Γ n = some w → ∃ v, σ n = some ⟨v, w⟩ ∧ v < w.card

/-- every wire in `names` that the context knows has a value of its declared width -/
def EnvOn (Γ : Ctx) (σ : Env) (names : List String) : Prop :=
  ∀ n, n ∈ names → ∀ w, Γ n = some w → ∃ v, σ n = some ⟨v, w⟩ ∧ v < w.card

theorem EnvOn.mono {Γ σ L L'} (h : EnvOn Γ σ L) (hsub : ∀ n, n ∈ L' → n ∈ L) : EnvOn Γ σ L' :=
  fun n hn => h n (hsub n hn)

theorem EnvOK.on {Γ σ} (h : EnvOK Γ σ) (L : List String) : EnvOn Γ σ L := fun n _ w hw => h n w hw

def val (σ : Env) : String → Nat := fun n => match σ n with
  | some v => v.bits
  | none => 0

mutual
/-- what the lexer/parser guarantee about an expression: literals fit their width, widths and slice
    bounds are at most 128 -/
def wfEx : Ex → Bool
  | .const v => (match v.width with
      | .bits n => decide (n ≤ 128) && decide (v.bits < 2 ^ n)
      | .unlimited => decide (v.bits < 2 ^ 128))
  | .bin _ l r => wfEx l && wfEx r
  | .un _ e => wfEx e
  | .wire _ => true
  | .slice e _ hi => wfEx e && decide (hi ≤ 128)
  | .concat l r => wfEx l && wfEx r
  | .mux opts => wfOpts opts
  | .inSet e items => wfEx e && wfExs items
def wfOpts : Opts → Bool
  | .nil => true
  | .cons c v rest => wfEx c && wfEx v && wfOpts rest
def wfExs : Exs → Bool
  | .nil => true
  | .cons e rest => wfEx e && wfExs rest
end

def Correct (fl : Flags) (Γ : Ctx) (κ σ : Env) (e : Ex) (w : Width) : Prop :=
  w.ok ∧ w = Spec.sw Γ e ∧
  match Spec.dv Γ (val σ) e with
  | some v => ev fl σ (fixMux fl Γ κ e) = .ok ⟨v, w⟩ ∧ v < w.card
  | none => ev fl σ (fixMux fl Γ κ e) = .error .divideByZero

def MuxGood (fl : Flags) (Γ : Ctx) (κ σ : Env) (opts : Opts) (W : Width) : Prop :=
  match Spec.dvOpts Γ (val σ) opts with
  | some v => ∃ aw, evMux fl σ (fixMuxOpts fl Γ κ opts) = .ok ⟨v, aw⟩ ∧ (aw = .unlimited ∨ aw = W) ∧ v < aw.card
  | none => evMux fl σ (fixMuxOpts fl Γ κ opts) = .error .divideByZero

def InGood (fl : Flags) (Γ : Ctx) (κ σ : Env) (x : Nat) (items : Exs) : Prop :=
  match Spec.dvIn Γ (val σ) x items with
  | some v => evIn fl σ x (fixMuxExs fl Γ κ items) = .ok ⟨v, .bits 1⟩ ∧ v < 2
  | none => evIn fl σ x (fixMuxExs fl Γ κ items) = .error .divideByZero

theorem bind_ok {ε α β} {x : Except ε α} {f : α → Except ε β} {b : β} (h : (x >>= f) = .ok b) :
    ∃ a, x = .ok a ∧ f a = .ok b := by
  cases x with
  | error e => simp [bind, Except.bind] at h
  | ok a => exact ⟨a, rfl, h⟩

/-! ### inversion of `check` -/

theorem check_bin_inv {fl Γ κ op l r w} (h : check fl Γ κ (.bin op l r) = .ok w) :
    ∃ a b, check fl Γ κ l = .ok a ∧ check fl Γ κ r = .ok b ∧ binWidth fl op a b = some w := by
  unfold check at h
  unfold binWidth
  cases hk : op.kind <;> simp only [hk] at h ⊢
  · -- boolCombine
    split at h
    · obtain ⟨a, ha, h⟩ := bind_ok h
      split at h
      · simp [throw, throwThe, MonadExceptOf.throw, bind, Except.bind] at h
      · simp only [pure, Except.pure, bind, Except.bind] at h
        cases hb : check fl Γ κ r with
        | error e => simp [hb] at h
        | ok b =>
          simp only [hb] at h
          split at h
          · simp [throw, throwThe, MonadExceptOf.throw] at h
          · cases h; exact ⟨a, b, ha, rfl, rfl⟩
    · obtain ⟨a, ha, h⟩ := bind_ok h
      obtain ⟨b, hb, h⟩ := bind_ok h
      cases h; exact ⟨a, b, ha, hb, rfl⟩
  · -- boolFromEq
    obtain ⟨a, ha, h⟩ := bind_ok h
    obtain ⟨b, hb, h⟩ := bind_ok h
    split at h
    · cases h; exact ⟨a, b, ha, hb, rfl⟩
    · simp [throw, throwThe, MonadExceptOf.throw] at h
  · -- equalWidth
    obtain ⟨a, ha, h⟩ := bind_ok h
    obtain ⟨b, hb, h⟩ := bind_ok h
    split at h
    · rename_i w' hc; cases h; exact ⟨a, b, ha, hb, hc⟩
    · simp [throw, throwThe, MonadExceptOf.throw] at h
  · -- equalWidthWeak
    split at h
    · rename_i hs
      obtain ⟨a, ha, h⟩ := bind_ok h
      obtain ⟨b, hb, h⟩ := bind_ok h
      split at h
      · rename_i w' hc; cases h; exact ⟨a, b, ha, hb, by simp [hs, hc]⟩
      · simp [throw, throwThe, MonadExceptOf.throw] at h
    · rename_i hs
      obtain ⟨a, ha, h⟩ := bind_ok h
      obtain ⟨b, hb, h⟩ := bind_ok h
      cases h; exact ⟨a, b, ha, hb, by simp [hs]⟩

theorem combine_cases {cur aw c1 : Width} (h : cur.combine aw = some c1) :
    (cur = .unlimited ∧ aw = c1) ∨ (aw = .unlimited ∧ cur = c1) ∨ (cur = c1 ∧ aw = c1) := by
  cases cur <;> cases aw <;> simp [Width.combine] at h
  · rename_i s t; obtain ⟨rfl, rfl⟩ := h; right; right; exact ⟨rfl, rfl⟩
  · right; left; exact ⟨rfl, h⟩
  · left; exact ⟨rfl, h⟩
  · left; exact ⟨rfl, h⟩

theorem join_unl_right (a : Width) : Spec.join a .unlimited = a := by cases a <;> rfl
theorem join_unl_left (a : Width) : Spec.join .unlimited a = a := by cases a <;> rfl
theorem join_self (a : Width) : Spec.join a a = a := by cases a <;> simp [Spec.join]
theorem join_join_self (a r : Width) : Spec.join a (Spec.join a r) = Spec.join a r := by
  cases a <;> cases r <;> simp [Spec.join]
  rename_i s t
  simp only [Nat.max_def]
  repeat' split
  all_goals omega

variable {fl : Flags} {Γ : Ctx} {κ σ : Env}

mutual
theorem ev_correct (hΓ : CtxOK Γ) :
    ∀ (e : Ex) (w : Width), EnvOn Γ σ (refs e) → wfEx e = true → check fl Γ κ e = .ok w → Correct fl Γ κ σ e w
  | .const v, w, _, hwf, h => by
      simp only [check, pure, Except.pure] at h
      cases h
      unfold wfEx at hwf
      refine ⟨?_, rfl, ?_⟩
      · cases hv : v.width <;> simp [hv, Width.ok] at hwf ⊢
        exact hwf.1
      · simp only [Spec.dv, fixMux, ev, pure, Except.pure]
        refine ⟨by first | rfl | trivial, ?_⟩
        cases hv : v.width <;> simp [hv, Width.card, U128] at hwf ⊢
        · exact hwf.2
        · exact hwf
  | .wire n, w, hσ, _, h => by
      simp only [check] at h
      cases hn : Γ n with
      | none => simp [hn, throw, throwThe, MonadExceptOf.throw] at h
      | some w' =>
        simp only [hn, pure, Except.pure] at h
        cases h
        obtain ⟨v, hv, hb⟩ := hσ n (by simp [refs]) w hn
        refine ⟨hΓ n w hn, by simp [Spec.sw, hn], ?_⟩
        simp only [Spec.dv, fixMux, ev, hv, pure, Except.pure, val]
        exact ⟨by first | rfl | trivial, hb⟩
  | .bin op l r, w, hσ, hwf, h => by
      obtain ⟨a, b, hl, hr, hbw⟩ := check_bin_inv h
      unfold wfEx at hwf
      simp only [Bool.and_eq_true] at hwf
      obtain ⟨ha, hsa, hla⟩ := ev_correct hΓ l a (hσ.mono (by intro n hn; simp [refs, hn])) hwf.1 hl
      obtain ⟨hb, hsb, hrb⟩ := ev_correct hΓ r b (hσ.mono (by intro n hn; simp [refs, hn])) hwf.2 hr
      have hwok := binWidth_ok ha hb hbw
      have hsw : w = Spec.sw Γ (.bin op l r) := by
        rw [binWidth_join hbw]; simp only [Spec.sw, ← hsa, ← hsb]
        cases op <;> rfl
      refine ⟨hwok, hsw, ?_⟩
      simp only [Spec.dv, fixMux, ev]
      cases hdl : Spec.dv Γ (val σ) l with
      | none =>
        simp only [hdl] at hla
        simp [hla, bind, Except.bind, Option.bind]
      | some x =>
        simp only [hdl] at hla
        cases hdr : Spec.dv Γ (val σ) r with
        | none =>
          simp only [hdr] at hrb
          simp [hla.1, hrb, bind, Except.bind, Option.bind]
        | some y =>
          simp only [hdr] at hrb
          obtain ⟨hspec, hlt⟩ := applyBin_spec fl op x y a b w ha hb hla.2 hrb.2 hbw
          simp only [hla.1, hrb.1, bind, Except.bind, Option.bind, ← hsw, hspec]
          cases hbv : Spec.binVal op w x y with
          | none => simp
          | some v => exact ⟨rfl, hlt v hbv⟩
  | .un op e, w, hσ, hwf, h => by
      unfold wfEx at hwf
      have hinv : ∃ a, check fl Γ κ e = .ok a ∧ w = (if op = .not then .bits 1 else a) := by
        cases op
        · exact ⟨w, by simpa [check] using h, by simp⟩
        · exact ⟨w, by simpa [check] using h, by simp⟩
        · exact ⟨w, by simpa [check] using h, by simp⟩
        · simp only [check] at h
          obtain ⟨a, ha, h⟩ := bind_ok h
          cases h
          exact ⟨a, ha, by simp⟩
      obtain ⟨a, hca, hw⟩ := hinv
      obtain ⟨ha, hsa, hea⟩ := ev_correct hΓ e a (hσ.mono (by intro n hn; simpa [refs] using hn)) hwf hca
      have hwok : w.ok := by
        rw [hw]; split
        · simp [Width.ok]
        · exact ha
      have hsw : w = Spec.sw Γ (.un op e) := by
        rw [hw]; cases op <;> simp [Spec.sw, hsa]
      refine ⟨hwok, hsw, ?_⟩
      simp only [Spec.dv, fixMux, ev]
      cases hd : Spec.dv Γ (val σ) e with
      | none =>
        simp only [hd] at hea
        simp [hea, bind, Except.bind, Option.bind]
      | some x =>
        simp only [hd] at hea
        have hu := applyUn_spec op x a ha hea.2
        simp only [hea.1, bind, Except.bind, Option.bind, hu, ← hsa, Spec.card_eq, ← hw]
        have hxm : x % a.card = x := Nat.mod_eq_of_lt hea.2
        have hpos := a.card_pos
        cases op
        · simp only [reduceCtorEq, ↓reduceIte] at hw; subst hw
          exact ⟨rfl, hea.2⟩
        · simp only [reduceCtorEq, ↓reduceIte] at hw; subst hw
          exact ⟨rfl, Nat.mod_lt _ hpos⟩
        · simp only [reduceCtorEq, ↓reduceIte] at hw; subst hw
          exact ⟨rfl, by omega⟩
        · simp only [↓reduceIte] at hw; subst hw
          refine ⟨rfl, ?_⟩
          by_cases h0 : x = 0 <;> simp [h0, Spec.b2n, Width.card]
  | .slice e lo hi, w, hσ, hwf, h => by
      unfold wfEx at hwf
      simp only [Bool.and_eq_true, decide_eq_true_eq] at hwf
      simp only [check] at h
      split at h
      · simp [throw, throwThe, MonadExceptOf.throw] at h
      · rename_i hlohi
        obtain ⟨a, hca, h⟩ := bind_ok h
        have hw : w = .bits (hi - lo) := by
          cases a with
          | bits n =>
            simp only at h
            split at h
            · simp [throw, throwThe, MonadExceptOf.throw] at h
            · simp only [pure, Except.pure] at h; cases h; rfl
          | unlimited => simp only [pure, Except.pure] at h; cases h; rfl
        subst hw
        obtain ⟨ha, hsa, hea⟩ := ev_correct hΓ e a (hσ.mono (by intro n hn; simpa [refs] using hn)) hwf.1 hca
        have hle : lo ≤ hi := by omega
        refine ⟨by simp only [Width.ok]; omega, by simp [Spec.sw], ?_⟩
        simp only [Spec.dv, fixMux, ev]
        cases hd : Spec.dv Γ (val σ) e with
        | none =>
          simp only [hd] at hea
          simp [hea, bind, Except.bind, Option.bind]
        | some x =>
          simp only [hd] at hea
          have hs := slice_spec x lo hi hle hwf.2
          simp only [hea.1, bind, Except.bind, Option.bind] at hs ⊢
          refine ⟨hs, ?_⟩
          simp only [Width.card]
          exact Nat.mod_lt _ (Nat.pow_pos (by decide))
  | .concat l r, w, hσ, hwf, h => by
      unfold wfEx at hwf
      simp only [Bool.and_eq_true] at hwf
      simp only [check] at h
      obtain ⟨a, hca, h⟩ := bind_ok h
      cases a with
      | unlimited => simp [throw, throwThe, MonadExceptOf.throw] at h
      | bits lw =>
        simp only at h
        obtain ⟨b, hcb, h⟩ := bind_ok h
        cases b with
        | unlimited => simp [throw, throwThe, MonadExceptOf.throw] at h
        | bits rw =>
          simp only at h
          split at h
          · rename_i hsum
            simp only [pure, Except.pure] at h; cases h
            obtain ⟨ha, hsa, hea⟩ := ev_correct hΓ l _ (hσ.mono (by intro n hn; simp [refs, hn])) hwf.1 hca
            obtain ⟨hb, hsb, heb⟩ := ev_correct hΓ r _ (hσ.mono (by intro n hn; simp [refs, hn])) hwf.2 hcb
            refine ⟨hsum, by simp [Spec.sw, ← hsa, ← hsb, Spec.bitsOf], ?_⟩
            simp only [Spec.dv, fixMux, ev]
            cases hdl : Spec.dv Γ (val σ) l with
            | none =>
              simp only [hdl] at hea
              simp [hea, bind, Except.bind, Option.bind]
            | some x =>
              simp only [hdl] at hea
              cases hdr : Spec.dv Γ (val σ) r with
              | none =>
                simp only [hdr] at heb
                simp [hea.1, heb, bind, Except.bind, Option.bind]
              | some y =>
                simp only [hdr] at heb
                obtain ⟨hc, hlt⟩ := concat_spec x y lw rw hea.2 heb.2 hsum
                simp only [hea.1, heb.1, bind, Except.bind, Option.bind, ← hsb, Spec.bitsOf] at hc ⊢
                exact ⟨hc, hlt⟩
          · simp [throw, throwThe, MonadExceptOf.throw] at h
  | .mux opts, w, hσ, hwf, h => by
      unfold wfEx at hwf
      have hchk := h
      simp only [check] at h
      obtain ⟨s', hs', h⟩ := bind_ok h
      have hW : s'.width = some w := by
        simp only [bind, Except.bind, pure, Except.pure] at h
        repeat (split at h <;> try (simp [throw, throwThe, MonadExceptOf.throw] at h))
        all_goals (first | (rename_i hh; cases h; exact hh) | skip)
      obtain ⟨hcur, hok, hjoin, hgood⟩ := opts_correct hΓ opts {} s' w (hσ.mono (by intro n hn; simpa [refs] using hn)) hwf hs' hW
      have hwok : w.ok := hok (by simp [Width.ok])
      have hsw : w = Spec.swOpts Γ opts := by
        have := hjoin .unlimited rfl
        rw [join_unl_left] at this; exact this.symm
      refine ⟨hwok, by simp [Spec.sw, hsw], ?_⟩
      simp only [Spec.dv]
      unfold MuxGood at hgood
      cases hd : Spec.dvOpts Γ (val σ) opts with
      | none =>
        simp only [hd] at hgood
        simp only [Option.bind, bind]
        simp only [fixMux, hchk]
        cases w with
        | unlimited => simp only [ev]; exact hgood
        | bits n => simp only [ev, hgood, bind, Except.bind]
      | some v =>
        simp only [hd] at hgood
        obtain ⟨aw, hev, haw, hvlt⟩ := hgood
        simp only [Option.bind, bind, ← hsw, Spec.card_eq]
        simp only [fixMux, hchk]
        cases w with
        | unlimited =>
          simp only [ev, hev]
          have : aw = .unlimited := by rcases haw with h | h <;> exact h
          subst this
          have hvm : v % Width.unlimited.card = v := Nat.mod_eq_of_lt hvlt
          rw [hvm]
          exact ⟨rfl, hvlt⟩
        | bits n =>
          have hn : n ≤ 128 := hwok
          have hs := slice_spec v 0 n (Nat.zero_le _) hn
          simp only [ev, hev, bind, Except.bind] at hs ⊢
          simp only [Nat.pow_zero, Nat.div_one, Nat.sub_zero] at hs
          refine ⟨hs, ?_⟩
          simp only [Width.card]
          exact Nat.mod_lt _ (Nat.pow_pos (by decide))
  | .inSet e items, w, hσ, hwf, h => by
      unfold wfEx at hwf
      simp only [Bool.and_eq_true] at hwf
      simp only [check] at h
      obtain ⟨a, hca, h⟩ := bind_ok h
      obtain ⟨errs, hci, h⟩ := bind_ok h
      have hw : w = .bits 1 := by
        split at h
        · simp only [pure, Except.pure] at h; cases h; rfl
        · simp [throw, throwThe, MonadExceptOf.throw] at h
      subst hw
      obtain ⟨ha, hsa, hea⟩ := ev_correct hΓ e a (hσ.mono (by intro n hn; simp [refs, hn])) hwf.1 hca
      refine ⟨by simp [Width.ok], by simp [Spec.sw], ?_⟩
      simp only [Spec.dv, fixMux, ev]
      cases hd : Spec.dv Γ (val σ) e with
      | none =>
        simp only [hd] at hea
        simp [hea, bind, Except.bind, Option.bind]
      | some x =>
        simp only [hd] at hea
        have hin := items_correct hΓ items a errs (hσ.mono (by intro n hn; simp [refs, hn])) hwf.2 hci x
        unfold InGood at hin
        simp only [hea.1, bind, Except.bind, Option.bind]
        cases hdi : Spec.dvIn Γ (val σ) x items with
        | none => simp only [hdi] at hin; exact hin
        | some v =>
          simp only [hdi] at hin
          exact ⟨hin.1, by simp only [Width.card]; omega⟩
theorem opts_correct (hΓ : CtxOK Γ) :
    ∀ (opts : Opts) (s s' : MuxScan) (W : Width), EnvOn Γ σ (refsOpts opts) → wfOpts opts = true →
      checkOpts fl Γ κ opts s = .ok s' → s'.width = some W →
      (∃ cur, s.width = some cur ∧ (cur = .unlimited ∨ cur = W)) ∧
      ((∀ cur, s.width = some cur → cur.ok) → W.ok) ∧
      (∀ cur, s.width = some cur → Spec.join cur (Spec.swOpts Γ opts) = W) ∧
      MuxGood fl Γ κ σ opts W
  | .nil, s, s', W, _, _, h, hW => by
      simp only [checkOpts, pure, Except.pure] at h
      cases h
      refine ⟨⟨W, hW, Or.inr rfl⟩, fun hh => hh W hW, ?_, ?_⟩
      · intro cur hc; rw [hW] at hc; cases hc; simp [Spec.swOpts, join_unl_right]
      · simp only [MuxGood, Spec.dvOpts, fixMuxOpts, evMux, pure, Except.pure]
        exact ⟨.unlimited, rfl, Or.inl rfl, by simp [Width.card, U128]⟩
  | .cons c v rest, s, s', W, hσ, hwf, h, hW => by
      unfold wfOpts at hwf
      simp only [Bool.and_eq_true] at hwf
      simp only [checkOpts] at h
      obtain ⟨cw, hcc, h⟩ := bind_ok h
      obtain ⟨aw, hcv, h⟩ := bind_ok h
      obtain ⟨⟨cur1, hs1, hcur1⟩, hok1, hjoin1, hgood1⟩ := opts_correct hΓ rest _ s' W (hσ.mono (by intro n hn; simp [refsOpts, hn])) hwf.2 h hW
      obtain ⟨hcwok, _, hec⟩ := ev_correct hΓ c cw (hσ.mono (by intro n hn; simp [refsOpts, hn])) hwf.1.1 hcc
      obtain ⟨hawok, hsaw, hev⟩ := ev_correct hΓ v aw (hσ.mono (by intro n hn; simp [refsOpts, hn])) hwf.1.2 hcv
      -- the scanned width before this option
      cases hsw : s.width with
      | none => simp [hsw] at hs1
      | some cur =>
        have hs1' := hs1
        simp only [hsw] at hs1
        have hcomb : cur.combine aw = some cur1 := hs1
        have hcases := combine_cases hcomb
        have hcurW : cur = .unlimited ∨ cur = W := by
          rcases hcases with ⟨h1, _⟩ | ⟨_, h2⟩ | ⟨h1, _⟩
          · exact Or.inl h1
          · rcases hcur1 with h | h
            · left; rw [h2, h]
            · right; rw [h2, h]
          · rcases hcur1 with h | h
            · left; rw [h1, h]
            · right; rw [h1, h]
        have hawW : aw = .unlimited ∨ aw = W := by
          rcases hcases with ⟨_, h2⟩ | ⟨h1, _⟩ | ⟨_, h2⟩
          · rcases hcur1 with h | h
            · left; rw [h2, h]
            · right; rw [h2, h]
          · exact Or.inl h1
          · rcases hcur1 with h | h
            · left; rw [h2, h]
            · right; rw [h2, h]
        refine ⟨⟨cur, rfl, hcurW⟩, ?_, ?_, ?_⟩
        · intro hh
          apply hok1
          intro c1 hc1
          rw [hs1'] at hc1; cases hc1
          exact Width.combine_ok (hh cur rfl) hawok hcomb
        · intro cur' hc'
          cases hc'
          have hj := hjoin1 cur1 hs1'
          simp only [Spec.swOpts, ← hsaw]
          rcases hcases with ⟨h1, h2⟩ | ⟨h1, h2⟩ | ⟨h1, h2⟩
          · rw [h1, h2, join_unl_left]; exact hj
          · rw [h1, h2, join_unl_left]; exact hj
          · rw [h1, h2, join_join_self]; exact hj
        · unfold MuxGood at hgood1 ⊢
          simp only [Spec.dvOpts, fixMuxOpts, evMux]
          cases hdc : Spec.dv Γ (val σ) c with
          | none =>
            simp only [hdc] at hec
            simp [hec, bind, Except.bind, Option.bind]
          | some x =>
            simp only [hdc] at hec
            simp only [hec.1, bind, Except.bind, Option.bind]
            by_cases hx : x ≠ 0
            · have hx' : x > 0 := Nat.pos_of_ne_zero hx
              simp only [hx, ↓reduceIte, hx', ne_eq, not_false_eq_true]
              cases hdv : Spec.dv Γ (val σ) v with
              | none => simp only [hdv] at hev; exact hev
              | some y =>
                simp only [hdv] at hev
                exact ⟨aw, hev.1, hawW, hev.2⟩
            · have hx0 : x = 0 := by simpa using hx
              subst hx0
              simp only [ne_eq, not_true_eq_false, ↓reduceIte, gt_iff_lt, Nat.lt_irrefl]
              exact hgood1
theorem items_correct (hΓ : CtxOK Γ) :
    ∀ (items : Exs) (a : Width) (errs : List Diag), EnvOn Γ σ (refsExs items) → wfExs items = true →
      checkItems fl Γ κ a items = .ok errs → ∀ x, InGood fl Γ κ σ x items
  | .nil, _, _, _, _, _, x => by
      simp [InGood, Spec.dvIn, fixMuxExs, evIn, pure, Except.pure]
  | .cons e rest, a, errs, hσ, hwf, h, x => by
      unfold wfExs at hwf
      simp only [Bool.and_eq_true] at hwf
      simp only [checkItems] at h
      obtain ⟨b, hcb, h⟩ := bind_ok h
      obtain ⟨more, hcm, _⟩ := bind_ok h
      obtain ⟨_, _, hee⟩ := ev_correct hΓ e b (hσ.mono (by intro n hn; simp [refsExs, hn])) hwf.1 hcb
      have hrest := items_correct hΓ rest a more (hσ.mono (by intro n hn; simp [refsExs, hn])) hwf.2 hcm x
      unfold InGood at hrest ⊢
      simp only [Spec.dvIn, fixMuxExs, evIn]
      cases hd : Spec.dv Γ (val σ) e with
      | none =>
        simp only [hd] at hee
        simp [hee, bind, Except.bind, Option.bind]
      | some y =>
        simp only [hd] at hee
        simp only [hee.1, bind, Except.bind, Option.bind]
        by_cases hxy : x = y
        · simp [hxy, pure, Except.pure]
        · simp only [hxy, ↓reduceIte]
          exact hrest
end
