import Hcl.Proofs.LexLayout
import Hcl.Proofs.LexLocal
open Lexer Parser

/-! What a turn of the lexer's loop leaves is a suffix of what it was given (`lexStep_suffix`); hence every place that
    the lexer reaches (`Reach`) is reached by a run of turns that read, piece by piece, exactly the text in front of it
    (`Run`: `Reach.run`), and the layout theorems can be stated with the plain hypothesis that the lexer reaches the
    place (`parseProgram_insert_after_reach`, `parseProgram_replace_layout_reach`, ...). -/

namespace Lexer

/-- the step goes on with a suffix of `rest` -/
def Suf (rest : List Char) : Step → Prop
  | .stop _ => True
  | .more _ cs' _ => ∃ q, rest = q ++ cs'

theorem suf_ite {rest : List Char} {p : Prop} [Decidable p] {a b : Step} (ha : Suf rest a) (hb : Suf rest b) :
    Suf rest (if p then a else b) := by
  split <;> assumption

theorem suf_simple (rest : List Char) (i next : Nat) (t : Tok) : Suf rest (simpleStep rest i next t) := ⟨[], rfl⟩

theorem suf_choose (rest : List Char) (i next : Nat) (dflt : Tok) (opts : List (Char × Tok)) :
    Suf rest (chooseStep rest i next dflt opts) := by
  unfold chooseStep
  cases rest with
  | nil => exact ⟨[], rfl⟩
  | cons d rest2 =>
    simp only
    cases opts.find? (fun o => o.1 == d) with
    | some o => exact ⟨[d], rfl⟩
    | none => exact ⟨[], rfl⟩

theorem suf_lineComment (rest : List Char) (next : Nat) : Suf rest (lineCommentStep rest next) := by
  unfold lineCommentStep
  cases hsp : spanWhile (fun d => d != '\n' && d != '\r') rest with
  | mk skipped after => exact ⟨skipped, spanWhile_split _ _ _ _ hsp⟩

theorem suf_slash (rest : List Char) (i next : Nat) : Suf rest (slashStep rest i next) := by
  unfold slashStep
  split
  · exact suf_lineComment _ _
  · split
    · rename_i after off' hsk
      obtain ⟨q, hq, _⟩ := skipBlock_suffix _ _ _ _ _ hsk
      exact ⟨q, hq⟩
    · trivial
  · exact suf_simple _ _ _ _

theorem suf_dot (rest : List Char) (i next : Nat) :
    Suf rest (match (generalizing := false) rest with
      | '.' :: rest2 => .more [.tok i .DotDot (i + 2)] rest2 (next + 1)
      | _ => .stop [.err (.lexical i)]) := by
  split
  · rename_i rest2
    exact ⟨['.'], rfl⟩
  · trivial

theorem suf_punct (c : Char) (rest : List Char) (i next : Nat) : Suf rest (punctStep c rest i next) := by
  unfold punctStep
  repeat' apply suf_ite
  all_goals first
    | exact suf_simple _ _ _ _
    | exact suf_choose _ _ _ _ _
    | exact suf_lineComment _ _
    | exact suf_slash _ _ _
    | exact suf_dot _ _ _
    | trivial

theorem suf_ident (cls : CharCls) (c : Char) (rest : List Char) (i next : Nat) : Suf rest (identStep cls c rest i next) := by
  unfold identStep
  cases hsp : spanWhile (fun d => cls.isAlphanumeric d || d == '_') rest with
  | mk more after => exact ⟨more, spanWhile_split _ _ _ _ hsp⟩

theorem handleConstant_suffix (i : Nat) (first : Char) (rest : List Char) (total : Nat) (x : Nat × Tok × Nat)
    (after : List Char) (off' : Nat) (hfirst : isDec first = true)
    (h : handleConstant i first rest total = .ok (x, after, off')) : ∃ q, rest = q ++ after := by
  unfold handleConstant at h
  simp only at h
  cases rest with
  | nil =>
    simp only [Except.ok.injEq, Prod.mk.injEq] at h
    exact ⟨[], by rw [← h.2.1]; rfl⟩
  | cons c2 rest2 =>
    simp only at h
    by_cases hx : (c2 == 'x') = true
    · simp only [hx, if_true] at h
      cases rest2 with
      | nil => cases h
      | cons hd tl =>
        simp only at h
        split at h
        · cases h
        · cases hsp : spanWhile isHex (hd :: tl) with
          | mk digits aft =>
            rw [hsp] at h
            simp only at h
            have hs := spanWhile_split _ _ _ _ hsp
            split at h
            · simp only [Except.ok.injEq, Prod.mk.injEq] at h
              obtain ⟨_, h2, _⟩ := h
              subst h2
              exact ⟨c2 :: digits, by rw [hs]; rfl⟩
            · cases h
    · simp only [hx, Bool.false_eq_true, if_false] at h
      by_cases hb : (c2 == 'b') = true
      · simp only [hb, if_true] at h
        cases rest2 with
        | nil => cases h
        | cons hd tl =>
          simp only at h
          split at h
          · cases h
          · cases hsp : spanWhile isBin (hd :: tl) with
            | mk digits aft =>
              rw [hsp] at h
              simp only at h
              have hs := spanWhile_split _ _ _ _ hsp
              have fin : ∀ (y : Except LexErr ((Nat × Tok × Nat) × List Char × Nat)),
                  (∀ z a o, y = .ok (z, a, o) → a = aft) → y = .ok (x, after, off') →
                  ∃ q, c2 :: hd :: tl = q ++ after := by
                intro y hy hy'
                have := hy _ _ _ hy'
                subst this
                exact ⟨c2 :: digits, by rw [hs]; rfl⟩
              split at h
              · split at h
                · cases h
                · split at h
                  · cases h
                  · split at h
                    · simp only [Except.ok.injEq, Prod.mk.injEq] at h
                      obtain ⟨_, h2, _⟩ := h
                      exact ⟨c2 :: digits, by rw [hs, ← h2]; rfl⟩
                    · cases h
              · split at h
                · cases h
                · split at h
                  · simp only [Except.ok.injEq, Prod.mk.injEq] at h
                    obtain ⟨_, h2, _⟩ := h
                    exact ⟨c2 :: digits, by rw [hs, ← h2]; rfl⟩
                  · cases h
      · simp only [hb, Bool.false_eq_true, if_false] at h
        by_cases hdc : isDec c2 = true
        · simp only [hdc, if_true] at h
          cases hsp : spanWhile isDec (first :: c2 :: rest2) with
          | mk digits aft =>
            rw [hsp] at h
            simp only at h
            cases hv : parseRadix 10 digits with
            | none => rw [hv] at h; cases h
            | some v =>
              rw [hv] at h
              simp only [Except.ok.injEq, Prod.mk.injEq] at h
              obtain ⟨_, h2, _⟩ := h
              subst h2
              have hs := spanWhile_split _ _ _ _ hsp
              cases digits with
              | nil =>
                exfalso
                simp only [List.nil_append] at hs
                rw [← hs] at hsp
                have := spanWhile_head _ _ _ _ _ hsp
                rw [hfirst] at this
                cases this
              | cons d0 ds =>
                simp only [List.cons_append, List.cons.injEq] at hs
                exact ⟨ds, hs.2⟩
        · simp only [hdc, Bool.false_eq_true, if_false, Except.ok.injEq, Prod.mk.injEq] at h
          exact ⟨[], by rw [← h.2.1]; rfl⟩

theorem suf_constant (c : Char) (rest : List Char) (i total : Nat) (hc : isDec c = true) :
    Suf rest (constantStep c rest i total) := by
  unfold constantStep
  cases h : handleConstant i c rest total with
  | error e => trivial
  | ok r =>
    obtain ⟨⟨s, t, e⟩, after, o⟩ := r
    exact handleConstant_suffix i c rest total _ after o hc h

/-- **what a turn of the loop leaves is a suffix of what it was given** -/
theorem lexStep_suffix (cls : CharCls) (total : Nat) (cs : List Char) (off : Nat) (items : List Item) (cs' : List Char)
    (off' : Nat) (h : lexStep cls total cs off = .more items cs' off') : ∃ p, cs = p ++ cs' := by
  cases cs with
  | nil => unfold lexStep at h; cases h
  | cons c rest =>
    have key : Suf rest (lexStep cls total (c :: rest) off) := by
      unfold lexStep
      simp only
      split
      · exact ⟨[], rfl⟩
      · split
        · exact suf_ident cls c rest _ _
        · split
          · rename_i hdec
            exact suf_constant c rest _ _ hdec
          · exact suf_punct c rest _ _
    rw [h] at key
    obtain ⟨q, hq⟩ := key
    exact ⟨c :: q, by rw [hq]; rfl⟩

/-- **every place the lexer reaches is reached by a run that reads exactly the text in front of it** -/
theorem Reach.run {cls : CharCls} {total : Nat} {cs : List Char} {off : Nat} {items : List Item} {cs' : List Char}
    {off' : Nat} (h : Reach cls total cs off items cs' off') : ∃ a, cs = a ++ cs' ∧ Run cls total cs' a off items off' := by
  induction h with
  | refl cs off => exact ⟨[], rfl, Run.nil off⟩
  | @step cs off items cs1 off1 items2 cs2 off2 hs _ ih =>
    obtain ⟨a1, h1, r1⟩ := ih
    obtain ⟨p, hp⟩ := lexStep_suffix cls total cs off items cs1 off1 hs
    subst h1
    subst hp
    exact ⟨p ++ a1, by simp, Run.cons hs r1⟩

/-- the last turn of a run -/
theorem Run.unsnoc {cls : CharCls} {total : Nat} {rest a : List Char} {off : Nat} {items : List Item} {off' : Nat}
    (h : Run cls total rest a off items off') : (a = [] ∧ items = [] ∧ off' = off) ∨
    ∃ a0 p items0 o1 items1, a = a0 ++ p ∧ items = items0 ++ items1 ∧ Run cls total (p ++ rest) a0 off items0 o1 ∧
      lexStep cls total (p ++ rest) o1 = .more items1 rest off' := by
  induction h with
  | nil off => exact Or.inl ⟨rfl, rfl, rfl⟩
  | @cons p a1 off items off1 items' off2 hs _ ih =>
    right
    rcases ih with ⟨rfl, rfl, rfl⟩ | ⟨a0, p', items0, o1, items1, rfl, rfl, r0, hs0⟩
    · refine ⟨[], p, [], off, items, by simp, by simp, Run.nil off, ?_⟩
      simpa using hs
    · refine ⟨p ++ a0, p', items ++ items0, o1, items1, by simp, by simp, ?_, hs0⟩
      have e : p ++ ((a0 ++ p') ++ rest) = p ++ (a0 ++ (p' ++ rest)) := by simp
      rw [e] at hs
      have e2 : (a0 ++ p') ++ rest = a0 ++ (p' ++ rest) := by simp
      rw [e2] at hs
      exact Run.cons hs r0

/-! ### The layout theorems with the plain hypothesis -/

/-- `Run` from `Reach`, for a text given as `a ++ rest` -/
theorem Reach.run_of_append {cls : CharCls} {total : Nat} {a rest : List Char} {off : Nat} {items : List Item} {off' : Nat}
    (h : Reach cls total (a ++ rest) off items rest off') : Run cls total rest a off items off' := by
  obtain ⟨a', h1, r⟩ := h.run
  have : a = a' := List.append_cancel_right h1
  subst this
  exact r

/-- **Blank space, or a comment, after a token never changes the meaning**: the lexer, started on the text, reaches the
    place in front of `p ++ b`, reads `p` in one turn and stands in front of `b`; `w` is skipped in front of `b` and
    starts with a character that does not glue to `p` (`Agree`). -/
theorem parseProgram_insert_after_reach (cls : CharCls) (a p b w : List Char) (pre : List Item) (o1 : Nat)
    (items : List Item) (o2 : Nat)
    (hreach : Reach cls (sizeOf' ((a ++ p) ++ b)) ((a ++ p) ++ b) 0 pre (p ++ b) o1)
    (hstep : lexStep cls (sizeOf' ((a ++ p) ++ b)) (p ++ b) o1 = .more items b o2)
    (ha : Agree cls p b (w ++ b)) (hw : Skips cls w b) :
    parseProgram cls ((a ++ p) ++ (w ++ b)) = parseProgram cls ((a ++ p) ++ b) := by
  rw [List.append_assoc a p b] at hreach
  have hrun := hreach.run_of_append
  rw [← List.append_assoc a p b] at hrun
  exact parseProgram_insert_after cls a p b w pre o1 items o2 hrun hstep ha hw

theorem tokenKinds_replace_layout_reach (cls : CharCls) (a p w1 w2 b : List Char) (pre : List Item) (o1 : Nat)
    (items : List Item) (o2 : Nat)
    (hreach : Reach cls (sizeOf' ((a ++ p) ++ (w1 ++ b))) ((a ++ p) ++ (w1 ++ b)) 0 pre (p ++ (w1 ++ b)) o1)
    (hstep : lexStep cls (sizeOf' ((a ++ p) ++ (w1 ++ b))) (p ++ (w1 ++ b)) o1 = .more items (w1 ++ b) o2)
    (ha : Agree cls p (w1 ++ b) (w2 ++ b)) (hw1 : Skips cls w1 b) (hw2 : Skips cls w2 b) :
    tokenKinds cls ((a ++ p) ++ (w2 ++ b)) = tokenKinds cls ((a ++ p) ++ (w1 ++ b)) := by
  rw [List.append_assoc a p (w1 ++ b)] at hreach
  have hrun := hreach.run_of_append
  rw [← List.append_assoc a p (w1 ++ b)] at hrun
  exact tokenKinds_replace_layout cls a p w1 w2 b pre o1 items o2 hrun hstep ha hw1 hw2

/-- **Any two layouts after a token are interchangeable**, with the plain hypothesis that the lexer reaches the token. -/
theorem parseProgram_replace_layout_reach (cls : CharCls) (a p w1 w2 b : List Char) (pre : List Item) (o1 : Nat)
    (items : List Item) (o2 : Nat)
    (hreach : Reach cls (sizeOf' ((a ++ p) ++ (w1 ++ b))) ((a ++ p) ++ (w1 ++ b)) 0 pre (p ++ (w1 ++ b)) o1)
    (hstep : lexStep cls (sizeOf' ((a ++ p) ++ (w1 ++ b))) (p ++ (w1 ++ b)) o1 = .more items (w1 ++ b) o2)
    (ha : Agree cls p (w1 ++ b) (w2 ++ b)) (hw1 : Skips cls w1 b) (hw2 : Skips cls w2 b) :
    parseProgram cls ((a ++ p) ++ (w2 ++ b)) = parseProgram cls ((a ++ p) ++ (w1 ++ b)) :=
  parseProgram_of_tokenKinds cls _ _
    (tokenKinds_replace_layout_reach cls a p w1 w2 b pre o1 items o2 hreach hstep ha hw1 hw2)

/-- **Layout at any place the lexer reaches**: no mention of the last turn.  The lexer, started on `t ++ b`, reaches the
    place in front of `b`; `w` is skipped there and starts with a character that glues to nothing (for instance a line
    end that is a separator: `agree_of_nl`). -/
theorem parseProgram_insert_reach (cls : CharCls) (t b w : List Char) (pre : List Item) (o : Nat)
    (hreach : Reach cls (sizeOf' (t ++ b)) (t ++ b) 0 pre b o) (ha : ∀ p, Agree cls p b (w ++ b)) (hw : Skips cls w b) :
    parseProgram cls (t ++ (w ++ b)) = parseProgram cls (t ++ b) := by
  have hrun := hreach.run_of_append
  rcases hrun.unsnoc with ⟨rfl, _, _⟩ | ⟨a0, p, items0, o1, items1, rfl, rfl, r0, hs⟩
  · simpa using parseProgram_insert_front cls w b hw
  · exact parseProgram_insert_after cls a0 p b w items0 o1 items1 o r0 hs (ha p) hw

/-- a separator that is a line end, and neither `/` nor `*`, glues to nothing -/
theorem agree_of_nl (cls : CharCls) (c : Char) (r b : List Char) (hsep : Sep cls c) (hnl : IsNl c) (p : List Char) :
    Agree cls p b (c :: r) :=
  Or.inr ⟨c, r, rfl, hsep, fun _ => by rcases hnl with rfl | rfl <;> exact ⟨by decide, by decide⟩, Or.inl hnl⟩

/-- **A line end, followed by any blank space, at any place the lexer reaches never changes the meaning** -/
theorem parseProgram_insert_newline_reach (cls : CharCls) (t b : List Char) (c : Char) (ws : List Char) (pre : List Item)
    (o : Nat) (hreach : Reach cls (sizeOf' (t ++ b)) (t ++ b) 0 pre b o)
    (hws : ∀ x ∈ c :: ws, cls.isWhitespace x = true) (hsep : Sep cls c) (hnl : IsNl c) :
    parseProgram cls (t ++ ((c :: ws) ++ b)) = parseProgram cls (t ++ b) :=
  parseProgram_insert_reach cls t b (c :: ws) pre o hreach
    (fun p => agree_of_nl cls c (ws ++ b) b hsep hnl p) (skips_blanks (c :: ws) hws b)

end Lexer

#print axioms Lexer.lexStep_suffix
#print axioms Lexer.Reach.run
#print axioms Lexer.parseProgram_insert_after_reach
#print axioms Lexer.parseProgram_replace_layout_reach
#print axioms Lexer.parseProgram_insert_reach
#print axioms Lexer.parseProgram_insert_newline_reach
