import Hcl.Util.SExp
import Hcl.Graph.TopoSort
import Hcl.Model.Eval
