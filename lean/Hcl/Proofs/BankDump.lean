import Hcl.Model.Dump
open Rust

/-! `dump_bank`: the registers printed are exactly the bank's registers, in order, each with its current value. -/

namespace Dump

/-- the register a token shows, if it shows one -/
def BTok.item? : BTok → Option (String × Nat × Nat)
  | .item name w v => some (name, w, v)
  | _ => none

/-- tokens that may occur between the opening and the closing brace -/
def BTok.inner : BTok → Bool
  | .item _ _ _ => true
  | .wrap _ => true
  | _ => false

/-- what `dump_bank` shows of one register: its name (the input wire's name without the bank prefix), the number of
    hexadecimal digits of its width, and the value its output wire holds -/
def shownOf (vals : AMap WireValue) (sg : String × String × Width) : String × Nat × Nat :=
  (regNameOf sg.1, (sg.2.2.bitsOr128 + 3) / 4, bitsOf vals sg.2.1)

theorem bankStep_toks (vals : AMap WireValue) (o : BankOut) (sg : String × String × Width) :
    ∃ add, (bankStep vals o sg).toks = o.toks ++ add ∧ (∀ t ∈ add, t.inner = true) ∧
      add.filterMap BTok.item? = [shownOf vals sg] := by
  unfold bankStep
  simp only
  split
  · refine ⟨[.wrap (maxLoc - o.loc), .item (regNameOf sg.1) ((sg.2.2.bitsOr128 + 3) / 4) (bitsOf vals sg.2.1)], ?_, ?_, ?_⟩
    · simp
    · intro t ht
      simp only [List.mem_cons, List.not_mem_nil, or_false] at ht
      rcases ht with rfl | rfl <;> rfl
    · rfl
  · refine ⟨[.item (regNameOf sg.1) ((sg.2.2.bitsOr128 + 3) / 4) (bitsOf vals sg.2.1)], rfl, ?_, rfl⟩
    intro t ht
    simp only [List.mem_cons, List.not_mem_nil, or_false] at ht
    subst ht; rfl

theorem bankFold_toks (vals : AMap WireValue) : ∀ (sigs : List (String × String × Width)) (o : BankOut),
    ∃ body, (sigs.foldl (bankStep vals) o).toks = o.toks ++ body ∧ (∀ t ∈ body, t.inner = true) ∧
      body.filterMap BTok.item? = sigs.map (shownOf vals)
  | [], o => by
    refine ⟨[], by simp, ?_, rfl⟩
    intro t ht; cases ht
  | sg :: rest, o => by
    obtain ⟨add, h1, h2, h3⟩ := bankStep_toks vals o sg
    obtain ⟨body, b1, b2, b3⟩ := bankFold_toks vals rest (bankStep vals o sg)
    refine ⟨add ++ body, ?_, ?_, ?_⟩
    · rw [List.foldl_cons, b1, h1, List.append_assoc]
    · intro t ht
      rcases List.mem_append.mp ht with h | h
      · exact h2 t h
      · exact b2 t h
    · rw [List.filterMap_append, h3, b3]; rfl

/-- the state letter of a bank: bubbled wins over stalled -/
def statusOf (vals : AMap WireValue) (b : RegisterBank) : String :=
  if bitsOf vals b.bubble > 0 then "B" else if bitsOf vals b.stall > 0 then "S" else "N"

/-- **what `dump_bank` prints**: the opening with the bank's label and its state, then -- between line breaks -- one
    item per register of the bank, in declaration order, each with the register's name, digit count and current value,
    then the closing brace and the end of the line -/
theorem bankToks_shape (vals : AMap WireValue) (b : RegisterBank) :
    ∃ body n, bankToks vals b = BTok.head b.label (statusOf vals b) :: body ++ [BTok.close, BTok.fin n] ∧
      (∀ t ∈ body, t.inner = true) ∧ body.filterMap BTok.item? = b.signals.map (shownOf vals) := by
  unfold bankToks statusOf
  simp only
  obtain ⟨body, b1, b2, b3⟩ := bankFold_toks vals b.signals
    ⟨[BTok.head b.label (if bitsOf vals b.bubble > 0 then "B" else if bitsOf vals b.stall > 0 then "S" else "N")], 18⟩
  generalize List.foldl (bankStep vals) _ b.signals = o at b1
  split
  · refine ⟨body ++ [.wrap (maxLoc - o.loc)], maxLoc - (2 + 2), ?_, ?_, ?_⟩
    · simp only [b1]; simp
    · intro t ht
      rcases List.mem_append.mp ht with h | h
      · exact b2 t h
      · simp only [List.mem_cons, List.not_mem_nil, or_false] at h; subst h; rfl
    · rw [List.filterMap_append, b3]; simp [BTok.item?]
  · refine ⟨body, maxLoc - (o.loc + 2), ?_, b2, b3⟩
    simp only [b1]; simp
end Dump

/-! ### which banks are printed -/

namespace Dump

def pairOf (b : RegisterBank) : Char × RegisterBank := (letterOf b, b)

theorem byLetter_fold (l : List RegisterBank) : ∀ (acc : List (Char × RegisterBank)),
    (l.map letterOf).Nodup → (∀ b ∈ l, ∀ p ∈ acc, p.1 ≠ letterOf b) →
    l.foldl (fun acc b =>
      let c := letterOf b
      if acc.any (fun p => p.1 == c) then acc.map (fun p => if p.1 == c then (c, b) else p) else acc ++ [(c, b)]) acc =
      acc ++ l.map pairOf := by
  induction l with
  | nil => intro acc _ _; simp
  | cons b rest ih =>
    intro acc hnd hdis
    simp only [List.map_cons, List.nodup_cons] at hnd
    have hany : acc.any (fun p => p.1 == letterOf b) = false := by
      rw [List.any_eq_false]
      intro p hp
      simpa using hdis b List.mem_cons_self p hp
    simp only [List.foldl_cons, hany, Bool.false_eq_true, if_false]
    rw [ih _ hnd.2]
    · simp [pairOf]
    · intro b' hb' p hp
      rcases List.mem_append.mp hp with h | h
      · exact hdis b' (List.mem_cons_of_mem _ hb') p h
      · simp only [List.mem_cons, List.not_mem_nil, or_false] at h
        subst h
        intro heq
        exact hnd.1 (List.mem_map.mpr ⟨b', hb', heq.symm⟩)

theorem byLetter_nodup (banks : List RegisterBank) (h : (banks.map letterOf).Nodup) : byLetter banks = banks.map pairOf := by
  unfold byLetter
  rw [byLetter_fold banks [] h (by intro b _ p hp; cases hp)]
  simp

theorem bankFor_map (banks : List RegisterBank) (c : Char) :
    bankFor (banks.map pairOf) c = banks.find? (fun b => letterOf b == c) := by
  unfold bankFor
  induction banks with
  | nil => rfl
  | cons b rest ih =>
    simp only [List.map_cons, List.find?_cons, pairOf]
    cases hb : letterOf b == c with
    | true => rfl
    | false => exact ih

theorem bankFor_self (banks : List RegisterBank) (h : (banks.map letterOf).Nodup) (b : RegisterBank) (hb : b ∈ banks) :
    bankFor (banks.map pairOf) (letterOf b) = some b := by
  rw [bankFor_map]
  induction banks with
  | nil => cases hb
  | cons x rest ih =>
    simp only [List.map_cons, List.nodup_cons] at h
    rw [List.find?_cons]
    rcases List.mem_cons.mp hb with he | he
    · subst he; simp
    · have hne : (letterOf x == letterOf b) = false := by
        apply beq_false_of_ne
        intro heq
        exact h.1 (List.mem_map.mpr ⟨b, he, heq.symm⟩)
      rw [hne]
      exact ih h.2 he

theorem bankFor_isSome (banks : List RegisterBank) (c : Char) :
    (bankFor (banks.map pairOf) c).isSome = true ↔ c ∈ banks.map letterOf := by
  rw [bankFor_map, List.find?_isSome]
  constructor
  · rintro ⟨b, hb, h⟩; exact List.mem_map.mpr ⟨b, hb, by simpa using h⟩
  · intro h
    obtain ⟨b, hb, rfl⟩ := List.mem_map.mp h
    exact ⟨b, hb, by simp⟩

theorem filterMap_filter_isSome {α β : Type} (g : α → Option β) : ∀ (l : List α),
    l.filterMap g = (l.filter (fun a => (g a).isSome)).filterMap g
  | [] => rfl
  | a :: rest => by
    rw [List.filterMap_cons, List.filter_cons]
    cases h : g a with
    | none => simp only [Option.isSome_none, Bool.false_eq_true, if_false]; exact filterMap_filter_isSome g rest
    | some v => simp only [Option.isSome_some, if_true, List.filterMap_cons, h]; rw [filterMap_filter_isSome g rest]

/-- **every bank is printed exactly once** when the banks have pairwise distinct output letters: the printed list is a
    rearrangement of the declared banks -/
theorem printedBanks_perm (banks : List RegisterBank) (h : (banks.map letterOf).Nodup) : (printedBanks banks).Perm banks := by
  unfold printedBanks
  simp only
  rw [byLetter_nodup banks h]
  have hL : (banks.map pairOf).map (·.1) = banks.map letterOf := by simp [pairOf, Function.comp_def]
  rw [hL]
  -- the letters looked up, restricted to those that have a bank, are a rearrangement of the banks' letters
  generalize hK : stdOrder ++ sortChars ((banks.map letterOf).filter (fun c => !stdOrder.contains c)) = K
  have hsort : (sortChars ((banks.map letterOf).filter (fun c => !stdOrder.contains c))).Perm
      ((banks.map letterOf).filter (fun c => !stdOrder.contains c)) := List.mergeSort_perm _ _
  have hKnd : K.Nodup := by
    rw [← hK, List.nodup_append]
    refine ⟨by decide, hsort.nodup_iff.mpr (h.filter _), ?_⟩
    intro a ha b hb heq
    subst heq
    have := (hsort.mem_iff).mp hb
    rw [List.mem_filter] at this
    have h2 : stdOrder.contains a = true := by simpa using ha
    rw [h2] at this
    simp at this
  have hKmem : ∀ c, c ∈ K.filter (fun c => (bankFor (banks.map pairOf) c).isSome) ↔ c ∈ banks.map letterOf := by
    intro c
    rw [List.mem_filter, bankFor_isSome]
    constructor
    · exact fun hh => hh.2
    · intro hc
      refine ⟨?_, hc⟩
      rw [← hK, List.mem_append]
      by_cases hs : c ∈ stdOrder
      · exact Or.inl hs
      · right
        rw [hsort.mem_iff, List.mem_filter]
        exact ⟨hc, by simpa using hs⟩
  have hperm : (K.filter (fun c => (bankFor (banks.map pairOf) c).isSome)).Perm (banks.map letterOf) :=
    (List.perm_ext_iff_of_nodup (hKnd.filter _) h).mpr hKmem
  rw [filterMap_filter_isSome]
  refine (hperm.filterMap _).trans ?_
  rw [List.filterMap_map]
  have key : ∀ (l : List RegisterBank), (∀ b ∈ l, b ∈ banks) →
      l.filterMap (bankFor (banks.map pairOf) ∘ letterOf) = l := by
    intro l
    induction l with
    | nil => intro _; rfl
    | cons b rest ih =>
      intro hsub
      rw [List.filterMap_cons]
      simp only [Function.comp, bankFor_self banks h b (hsub b List.mem_cons_self)]
      rw [ih (fun x hx => hsub x (List.mem_cons_of_mem _ hx))]
  rw [key banks (fun b hb => hb)]

end Dump
