#!/usr/bin/env python3
"""Rewrite the table of seeded mutations in DESIGN.md (between the BEGIN/END markers) from seeded/*/meta.json."""
import glob
import json
import os
import re

VERIF = os.path.dirname(os.path.dirname(os.path.abspath(__file__)))
rows = ["| seed | change (one line) | needs | detected by | how |", "|---|---|---|---|---|"]
for d in sorted(glob.glob(os.path.join(VERIF, "seeded", "*", "meta.json"))):
    m = json.load(open(d))
    sid = os.path.basename(os.path.dirname(d))
    cr = m.get("checks_run", {})
    det = m.get("detected_by", [])
    how = []
    for p in det:
        lines = cr.get(p, {}).get("lines", [])
        if any(l.startswith("VIOLATION") and "no-failing-input-found" not in l for l in lines):
            how.append("failing input")
        elif lines:
            how.append("broken obligation only")
    summ = (m.get("summary") or "").replace("|", "/").replace("\n", " ")
    needs = (m.get("needs") or "").replace("|", "/").replace("\n", " ")
    rows.append("| %s | %s | %s | %s | %s |" % (sid, summ[:230], needs[:150], " ".join(det) or "**missed**", ", ".join(sorted(set(how))) or "-"))
text = open(os.path.join(VERIF, "DESIGN.md")).read()
new = "<!-- BEGIN SEEDED TABLE -->\n" + "\n".join(rows) + "\n<!-- END SEEDED TABLE -->"
text = re.sub(r"<!-- BEGIN SEEDED TABLE -->.*?<!-- END SEEDED TABLE -->", lambda _: new, text, flags=re.S)
open(os.path.join(VERIF, "DESIGN.md"), "w").write(text)
print(len(rows) - 2, "seeds")
