import Hcl.Theorems.C16
import Hcl.Spec.DumpFormat
open Rust
open Spec.DumpFormat

/-! # The state dump can be read back, character by character -/

namespace Spec.DumpFormat

/-! ### `splitOn` and `words` on lists built from segments -/

theorem splitOn_go_acc (sep : Char) : ∀ (rest cur : List Char) (acc : List (List Char)),
    splitOn.go sep rest cur acc = acc.reverse ++ splitOn.go sep rest cur []
  | [], cur, acc => by simp [splitOn.go]
  | c :: tl, cur, acc => by
    unfold splitOn.go
    split
    · rw [splitOn_go_acc sep tl [] (cur.reverse :: acc), splitOn_go_acc sep tl [] [cur.reverse]]
      simp
    · exact splitOn_go_acc sep tl (c :: cur) acc

theorem splitOn_go_noSep (sep : Char) : ∀ (a rest cur : List Char) (acc : List (List Char)), (∀ c ∈ a, c ≠ sep) →
    splitOn.go sep (a ++ rest) cur acc = splitOn.go sep rest (a.reverse ++ cur) acc
  | [], rest, cur, acc, _ => rfl
  | c :: a, rest, cur, acc, h => by
    have hc : (c == sep) = false := beq_false_of_ne (h c (List.mem_cons_self ..))
    rw [List.cons_append, splitOn.go]
    simp only [hc, Bool.false_eq_true, ↓reduceIte]
    rw [splitOn_go_noSep sep a rest (c :: cur) acc (fun x hx => h x (List.mem_cons_of_mem _ hx))]
    simp

/-- a segment without the separator, followed by the separator, is the first piece -/
theorem splitOn_sep (sep : Char) (a b : List Char) (h : ∀ c ∈ a, c ≠ sep) :
    splitOn sep (a ++ sep :: b) = a :: splitOn sep b := by
  unfold splitOn
  rw [splitOn_go_noSep sep a _ _ _ h, splitOn.go]
  simp only [beq_self_eq_true, ↓reduceIte, List.append_nil, List.reverse_reverse]
  rw [splitOn_go_acc]
  rfl

theorem splitOn_noSep (sep : Char) (a : List Char) (h : ∀ c ∈ a, c ≠ sep) : splitOn sep a = [a] := by
  have := splitOn_go_noSep sep a [] [] [] h
  unfold splitOn
  rw [List.append_nil] at this
  rw [this]
  simp [splitOn.go]

theorem words_nil : words [] = [] := rfl

theorem words_space (rest : List Char) : words (' ' :: rest) = words rest := by
  unfold words
  rw [show ' ' :: rest = [] ++ ' ' :: rest from rfl, splitOn_sep ' ' [] rest (fun _ h => by cases h)]
  rfl

theorem words_spaces : ∀ (k : Nat) (rest : List Char), words (List.replicate k ' ' ++ rest) = words rest
  | 0, rest => rfl
  | k + 1, rest => by rw [List.replicate_succ, List.cons_append, words_space, words_spaces k rest]

theorem words_word (w rest : List Char) (hne : w ≠ []) (h : ∀ c ∈ w, c ≠ ' ') :
    words (w ++ ' ' :: rest) = w :: words rest := by
  unfold words
  rw [splitOn_sep ' ' w rest h, List.filter_cons_of_pos]
  cases w with
  | nil => exact absurd rfl hne
  | cons _ _ => rfl

theorem words_last (w : List Char) (hne : w ≠ []) (h : ∀ c ∈ w, c ≠ ' ') : words w = [w] := by
  unfold words
  rw [splitOn_noSep ' ' w h]
  cases w with
  | nil => exact absurd rfl hne
  | cons _ _ => rfl

end Spec.DumpFormat

namespace Spec.DumpFormat

/-! ### hexadecimal digits -/

theorem hexDigits_isHex : ∀ (fuel n : Nat) (c : Char), c ∈ hexDigits fuel n → (hexVal? c).isSome = true
  | 0, _, c, h => by simp [hexDigits] at h
  | fuel + 1, n, c, h => by
    simp only [hexDigits] at h
    split at h
    · rename_i hn
      simp only [List.mem_cons, List.not_mem_nil, or_false] at h
      subst h
      rw [hexVal_hexDigit n hn]; rfl
    · rcases List.mem_append.mp h with h | h
      · exact hexDigits_isHex fuel _ c h
      · simp only [List.mem_cons, List.not_mem_nil, or_false] at h
        subst h
        rw [hexVal_hexDigit (n % 16) (Nat.mod_lt _ (by decide))]; rfl

theorem hex_ne (c d : Char) (hd : hexVal? d = none) (h : (hexVal? c).isSome = true) : c ≠ d := by
  intro e; subst e; rw [hd] at h; cases h

/-- the digits printed for a number below `2^128` read back as the number -/
theorem parseHex_hexDigits (n : Nat) (h : n < 2 ^ 128) : parseHex (hexDigits 40 n) = some n := by
  have := C16_hex_roundtrip n h
  unfold toHex at this
  rwa [String.toList_ofList] at this

theorem parseHex_padZero (w n : Nat) (h : n < 2 ^ 128) : parseHex (padLeft '0' w (hexDigits 40 n)) = some n := by
  have := C16_hexpad_roundtrip w n h
  unfold toHexPad at this
  rwa [String.toList_ofList] at this

/-! ### the frame test of `parseLine` -/

/-- what `parseLine` does with a line of the frame that starts with `|`, after the frame test -/
def afterBar (p : Parsed) (line : List Char) : Parsed :=
  let ws := words line
  if p.openBank then
    let closes := ws.contains ['}']
    match p.banks.reverse with
    | (l, st, items) :: before => { p with banks := (before.reverse ++ [(l, st, items ++ bankItems ws)]), openBank := !closes }
    | [] => p
  else match ws with
  | bar :: w :: rest =>
    if bar != ['|'] then p else
    if w == "register".toList then
      match rest with
      | hd :: rest =>
        let label := hd.takeWhile (· != '(')
        let st := ((hd.dropWhile (· != '(')).drop 1).headD '?'
        let closes := rest.contains ['}']
        { p with banks := p.banks ++ [(String.ofList label, st, bankItems rest)], openBank := !closes }
      | [] => p
    else if w == "used".toList then { p with inMemory := true }
    else if p.inMemory then
      match stripPrefix "|  0x".toList line with
      | some r =>
        let digits := r.takeWhile (· != '_')
        let after := (r.dropWhile (· != '_')).drop 4
        match parseHex digits with
        | some row => { p with bytes := p.bytes ++ rowCells (row * 16) 0 after }
        | none => { p with framed := false }
      | none => { p with framed := false }
    else { p with regs := p.regs ++ regPairs ((ws.drop 1).map (fun w => w.filter (· != ':'))) }
  | _ => p

theorem parseLine_bar (p : Parsed) (tl : List Char) :
    parseLine p ('|' :: tl) = afterBar { p with framed := p.framed && delim (('|' :: tl).getLastD ' ') } ('|' :: tl) := by
  unfold parseLine afterBar
  have h1 : stripPrefix "Cycles run: ".toList ('|' :: tl) = none := by
    rw [show "Cycles run: ".toList = 'C' :: "ycles run: ".toList from rfl]
    simp [stripPrefix, List.isPrefixOf]
  have h2 : stripPrefix "Error code: ".toList ('|' :: tl) = none := by
    rw [show "Error code: ".toList = 'E' :: "rror code: ".toList from rfl]
    simp [stripPrefix, List.isPrefixOf]
  simp only [h1, h2, List.isEmpty_cons, Bool.false_eq_true, ↓reduceIte, List.headD_cons]
  have h3 : ('|' == '+') = false := by decide
  have h4 : delim '|' = true := by decide
  simp only [h3, h4, Bool.and_true, Bool.false_eq_true, ↓reduceIte]
  rfl

theorem parseLine_nil (p : Parsed) : parseLine p [] = p := by
  unfold parseLine; rfl

end Spec.DumpFormat

namespace Spec.DumpFormat

/-! ### reading line by line -/

/-- `parse` from a given state -/
def readLines (p : Parsed) (cs : List Char) : Parsed := (splitOn '\n' cs).foldl parseLine p

theorem parse_eq (t : String) : parse t = readLines {} t.toList := rfl

theorem readLines_nil (p : Parsed) : readLines p [] = p := by
  unfold readLines
  rw [splitOn_noSep '\n' [] (fun _ h => by cases h)]
  exact parseLine_nil p

/-- a line without a line break, then the line break: the line is read, then the rest -/
theorem readLines_line (p : Parsed) (a rest : List Char) (h : ∀ c ∈ a, c ≠ '\n') :
    readLines p (a ++ '\n' :: rest) = readLines (parseLine p a) rest := by
  unfold readLines
  rw [splitOn_sep '\n' a rest h, List.foldl_cons]

theorem getLastD_snoc (l : List Char) (x d : Char) : (l ++ [x]).getLastD d = x := by
  rw [List.getLastD_eq_getLast?, List.getLast?_append]; rfl

/-! ### the program register lines -/

/-- a register name as it is printed: not empty, without blanks and colons -/
def GoodName (nm : List Char) : Prop := nm ≠ [] ∧ (∀ c ∈ nm, c ≠ ' ') ∧ (∀ c ∈ nm, c ≠ ':') ∧ (∀ c ∈ nm, c ≠ '\n')

/-- `NAME:`, blanks, the value right-aligned in 16 columns -/
def regField (nm : List Char) (j v : Nat) : List Char :=
  nm ++ ':' :: ' ' :: (List.replicate j ' ' ++ padLeft ' ' 16 (hexDigits 40 v))

def regLineChars (n1 : List Char) (j1 a : Nat) (n2 : List Char) (j2 b : Nat) (n3 : List Char) (j3 c : Nat) : List Char :=
  '|' :: ' ' :: (regField n1 j1 a ++ ' ' :: ' ' :: ' ' :: (regField n2 j2 b ++ ' ' :: ' ' :: ' ' :: (regField n3 j3 c ++ [' ', '|'])))

theorem hexDigits40_ne_nil (v : Nat) : hexDigits 40 v ≠ [] := hexDigits_ne_nil 40 v (by decide)

theorem hexDigits_no (d : Char) (hd : hexVal? d = none) (v : Nat) : ∀ c ∈ hexDigits 40 v, c ≠ d :=
  fun c hc => hex_ne c d hd (hexDigits_isHex 40 v c hc)

theorem words_regField (nm : List Char) (j v : Nat) (rest : List Char) (hn : GoodName nm) :
    words (regField nm j v ++ ' ' :: rest) = (nm ++ [':']) :: hexDigits 40 v :: words rest := by
  have e : regField nm j v ++ ' ' :: rest =
      (nm ++ [':']) ++ ' ' :: (List.replicate j ' ' ++ (List.replicate (16 - (hexDigits 40 v).length) ' ' ++ (hexDigits 40 v ++ ' ' :: rest))) := by
    simp [regField, padLeft, List.append_assoc]
  rw [e, words_word _ _ (by simp), words_spaces, words_spaces, words_word _ _ (hexDigits40_ne_nil v) (hexDigits_no ' ' (by decide) v)]
  intro c hc
  rcases List.mem_append.mp hc with h | h
  · exact hn.2.1 c h
  · simp only [List.mem_cons, List.not_mem_nil, or_false] at h
    subst h; decide

theorem words_regLine (n1 : List Char) (j1 a : Nat) (n2 : List Char) (j2 b : Nat) (n3 : List Char) (j3 c : Nat)
    (h1 : GoodName n1) (h2 : GoodName n2) (h3 : GoodName n3) :
    words (regLineChars n1 j1 a n2 j2 b n3 j3 c) =
      [['|'], n1 ++ [':'], hexDigits 40 a, n2 ++ [':'], hexDigits 40 b, n3 ++ [':'], hexDigits 40 c, ['|']] := by
  unfold regLineChars
  rw [show ∀ X, '|' :: ' ' :: X = ['|'] ++ ' ' :: X from fun _ => rfl, words_word _ _ (by simp) (by decide),
    words_regField _ _ _ _ h1, words_space, words_space, words_regField _ _ _ _ h2, words_space, words_space,
    show regField n3 j3 c ++ [' ', '|'] = regField n3 j3 c ++ ' ' :: ['|'] from rfl, words_regField _ _ _ _ h3,
    words_last _ (by simp) (by decide)]

theorem filter_colon_name (nm : List Char) (h : GoodName nm) : (nm ++ [':']).filter (· != ':') = nm := by
  rw [List.filter_append, List.filter_eq_self.mpr]
  · simp
  · intro c hc
    simpa using h.2.2.1 c hc

theorem filter_colon_hex (v : Nat) : (hexDigits 40 v).filter (· != ':') = hexDigits 40 v := by
  rw [List.filter_eq_self]
  intro c hc
  simpa using hexDigits_no ':' (by decide) v c hc

theorem name_ne_word (nm : List Char) (w : List Char) (hw : ':' ∉ w) : (nm ++ [':'] == w) = false := by
  apply beq_false_of_ne
  intro e
  apply hw
  rw [← e]; simp

theorem regLine_last (n1 : List Char) (j1 a : Nat) (n2 : List Char) (j2 b : Nat) (n3 : List Char) (j3 c : Nat) :
    (regLineChars n1 j1 a n2 j2 b n3 j3 c).getLastD ' ' = '|' := by
  have : regLineChars n1 j1 a n2 j2 b n3 j3 c =
      ('|' :: ' ' :: (regField n1 j1 a ++ ' ' :: ' ' :: ' ' :: (regField n2 j2 b ++ ' ' :: ' ' :: ' ' :: (regField n3 j3 c ++ [' '])))) ++ ['|'] := by
    simp [regLineChars]
  rw [this, getLastD_snoc]

/-- **one register line**: three names with their values are appended to the registers read so far -/
theorem parseLine_regLine (p : Parsed) (hob : p.openBank = false) (him : p.inMemory = false)
    (n1 : List Char) (j1 a : Nat) (n2 : List Char) (j2 b : Nat) (n3 : List Char) (j3 c : Nat)
    (h1 : GoodName n1) (h2 : GoodName n2) (h3 : GoodName n3) (ha : a < 2 ^ 128) (hb : b < 2 ^ 128) (hc : c < 2 ^ 128) :
    parseLine p (regLineChars n1 j1 a n2 j2 b n3 j3 c) =
      { p with regs := p.regs ++ [(String.ofList n1, a), (String.ofList n2, b), (String.ofList n3, c)] } := by
  have hl := regLine_last n1 j1 a n2 j2 b n3 j3 c
  have hw := words_regLine n1 j1 a n2 j2 b n3 j3 c h1 h2 h3
  have hbar : (['|'] != ['|']) = false := by decide
  have hr := name_ne_word n1 "register".toList (by decide)
  have hu := name_ne_word n1 "used".toList (by decide)
  revert hl hw
  rw [show regLineChars n1 j1 a n2 j2 b n3 j3 c = '|' :: (regLineChars n1 j1 a n2 j2 b n3 j3 c).tail from rfl]
  intro hl hw
  rw [parseLine_bar, hl]
  unfold afterBar
  simp only [hob, him, hw, hbar, hr, hu, Bool.false_eq_true, ↓reduceIte, List.drop_one, List.tail_cons, List.map_cons, List.map_nil,
    filter_colon_name _ h1, filter_colon_name _ h2, filter_colon_name _ h3, filter_colon_hex, regPairs,
    parseHex_hexDigits _ ha, parseHex_hexDigits _ hb, parseHex_hexDigits _ hc]
  have : delim '|' = true := by decide
  simp only [this, Bool.and_true]

end Spec.DumpFormat

/-! ### 1. the program registers -/

namespace Dump

theorem regLine_toList (l1 l2 l3 : String) (n1 n2 n3 : List Char) (j1 j2 j3 a b c : Nat)
    (e1 : l1.toList = n1 ++ ':' :: ' ' :: List.replicate j1 ' ') (e2 : l2.toList = n2 ++ ':' :: ' ' :: List.replicate j2 ' ')
    (e3 : l3.toList = n3 ++ ':' :: ' ' :: List.replicate j3 ' ') :
    (regLine l1 a l2 b l3 c).toList = regLineChars n1 j1 a n2 j2 b n3 j3 c ++ ['\n'] := by
  unfold regLine toHexPadSpace regLineChars regField
  simp only [String.toList_append, String.toList_ofList, e1, e2, e3]
  rw [show "| ".toList = ['|', ' '] from rfl, show "   ".toList = [' ', ' ', ' '] from rfl, show " |\n".toList = [' ', '|', '\n'] from rfl]
  simp [List.append_assoc]

theorem regLineChars_noNl (n1 : List Char) (j1 a : Nat) (n2 : List Char) (j2 b : Nat) (n3 : List Char) (j3 c : Nat)
    (h1 : GoodName n1) (h2 : GoodName n2) (h3 : GoodName n3) : ∀ x ∈ regLineChars n1 j1 a n2 j2 b n3 j3 c, x ≠ '\n' := by
  have hf : ∀ (nm : List Char) (j v : Nat), GoodName nm → ∀ x ∈ regField nm j v, x ≠ '\n' := by
    intro nm j v hn x hx
    unfold regField padLeft at hx
    simp only [List.mem_append, List.mem_cons, List.mem_replicate] at hx
    rcases hx with h | h | h | h | h | h
    · exact hn.2.2.2 x h
    · subst h; decide
    · subst h; decide
    · rw [h.2]; decide
    · rw [h.2]; decide
    · exact hexDigits_no '\n' (by decide) v x h
  intro x hx
  unfold regLineChars at hx
  simp only [List.mem_append, List.mem_cons, List.not_mem_nil, or_false] at hx
  rcases hx with h | h | h | h | h | h | h | h | h | h | h | h | h
  all_goals first
    | (subst h; decide)
    | exact hf _ _ _ h1 x h
    | exact hf _ _ _ h2 x h
    | exact hf _ _ _ h3 x h

/-- reading one register line of the dump, followed by anything -/
theorem readLines_regLine (p : Parsed) (hob : p.openBank = false) (him : p.inMemory = false)
    (l1 l2 l3 : String) (n1 n2 n3 : List Char) (j1 j2 j3 a b c : Nat)
    (e1 : l1.toList = n1 ++ ':' :: ' ' :: List.replicate j1 ' ') (e2 : l2.toList = n2 ++ ':' :: ' ' :: List.replicate j2 ' ')
    (e3 : l3.toList = n3 ++ ':' :: ' ' :: List.replicate j3 ' ')
    (h1 : GoodName n1) (h2 : GoodName n2) (h3 : GoodName n3) (ha : a < 2 ^ 128) (hb : b < 2 ^ 128) (hc : c < 2 ^ 128)
    (rest : List Char) :
    readLines p ((regLine l1 a l2 b l3 c).toList ++ rest) =
      readLines { p with regs := p.regs ++ [(String.ofList n1, a), (String.ofList n2, b), (String.ofList n3, c)] } rest := by
  rw [regLine_toList l1 l2 l3 n1 n2 n3 j1 j2 j3 a b c e1 e2 e3, List.append_assoc]
  rw [show ['\n'] ++ rest = '\n' :: rest from rfl, readLines_line _ _ _ (regLineChars_noNl _ _ _ _ _ _ _ _ _ h1 h2 h3),
    parseLine_regLine p hob him _ _ _ _ _ _ _ _ _ h1 h2 h3 ha hb hc]

theorem goodName_of (nm : List Char) (h : (!nm.isEmpty && nm.all (fun c => c != ' ' && c != ':' && c != '\n')) = true) : GoodName nm := by
  simp only [Bool.and_eq_true, Bool.not_eq_true', List.all_eq_true, bne_iff_ne, ne_eq] at h
  refine ⟨?_, fun c hc => (h.2 c hc).1.1, fun c hc => (h.2 c hc).1.2, fun c hc => (h.2 c hc).2⟩
  intro e; rw [e] at h; exact absurd h.1 (by decide)

/-- the five register lines, followed by anything: the fifteen registers are appended in the order printed -/
theorem programRegisters_readLines (r : List Nat) (hr : ∀ i, i < 15 → r.getD i 0 < 2 ^ 64) (p : Parsed)
    (hob : p.openBank = false) (him : p.inMemory = false) (rest : List Char) :
    readLines p ((programRegisters r).toList ++ rest) =
      readLines { p with regs := p.regs ++
        [("RAX", r.getD 0 0), ("RCX", r.getD 1 0), ("RDX", r.getD 2 0), ("RBX", r.getD 3 0), ("RSP", r.getD 4 0), ("RBP", r.getD 5 0),
         ("RSI", r.getD 6 0), ("RDI", r.getD 7 0), ("R8", r.getD 8 0), ("R9", r.getD 9 0), ("R10", r.getD 10 0), ("R11", r.getD 11 0),
         ("R12", r.getD 12 0), ("R13", r.getD 13 0), ("R14", r.getD 14 0)] } rest := by
  have hb : ∀ i, i < 15 → r.getD i 0 < 2 ^ 128 := fun i hi => Nat.lt_trans (hr i hi) (by decide)
  unfold programRegisters
  simp only [String.toList_append, List.append_assoc]
  rw [readLines_regLine p hob him "RAX: " "RCX: " "RDX: " ['R','A','X'] ['R','C','X'] ['R','D','X'] 0 0 0 _ _ _ rfl rfl rfl
    (goodName_of _ (by decide)) (goodName_of _ (by decide)) (goodName_of _ (by decide)) (hb 0 (by decide)) (hb 1 (by decide)) (hb 2 (by decide))]
  rw [readLines_regLine _ (by exact hob) (by exact him) "RBX: " "RSP: " "RBP: " ['R','B','X'] ['R','S','P'] ['R','B','P'] 0 0 0 _ _ _ rfl rfl rfl
    (goodName_of _ (by decide)) (goodName_of _ (by decide)) (goodName_of _ (by decide)) (hb 3 (by decide)) (hb 4 (by decide)) (hb 5 (by decide))]
  rw [readLines_regLine _ (by exact hob) (by exact him) "RSI: " "RDI: " "R8:  " ['R','S','I'] ['R','D','I'] ['R','8'] 0 0 1 _ _ _ rfl rfl rfl
    (goodName_of _ (by decide)) (goodName_of _ (by decide)) (goodName_of _ (by decide)) (hb 6 (by decide)) (hb 7 (by decide)) (hb 8 (by decide))]
  rw [readLines_regLine _ (by exact hob) (by exact him) "R9:  " "R10: " "R11: " ['R','9'] ['R','1','0'] ['R','1','1'] 1 0 0 _ _ _ rfl rfl rfl
    (goodName_of _ (by decide)) (goodName_of _ (by decide)) (goodName_of _ (by decide)) (hb 9 (by decide)) (hb 10 (by decide)) (hb 11 (by decide))]
  rw [readLines_regLine _ (by exact hob) (by exact him) "R12: " "R13: " "R14: " ['R','1','2'] ['R','1','3'] ['R','1','4'] 0 0 0 _ _ _ rfl rfl rfl
    (goodName_of _ (by decide)) (goodName_of _ (by decide)) (goodName_of _ (by decide)) (hb 12 (by decide)) (hb 13 (by decide)) (hb 14 (by decide))]
  simp only [List.append_assoc, List.cons_append, List.nil_append]

/-- **the program registers can be read back**: reading the five register lines gives the fifteen registers, by name,
    with their values, and every line is framed -/
theorem programRegisters_readback (r : List Nat) (hr : ∀ i, i < 15 → r.getD i 0 < 2 ^ 64) :
    (parse (Dump.programRegisters r)).regs =
      [("RAX", r.getD 0 0), ("RCX", r.getD 1 0), ("RDX", r.getD 2 0), ("RBX", r.getD 3 0), ("RSP", r.getD 4 0), ("RBP", r.getD 5 0),
       ("RSI", r.getD 6 0), ("RDI", r.getD 7 0), ("R8", r.getD 8 0), ("R9", r.getD 9 0), ("R10", r.getD 10 0), ("R11", r.getD 11 0),
       ("R12", r.getD 12 0), ("R13", r.getD 13 0), ("R14", r.getD 14 0)] ∧ (parse (Dump.programRegisters r)).framed = true := by
  have := programRegisters_readLines r hr {} rfl rfl []
  rw [List.append_nil, readLines_nil] at this
  rw [parse_eq, this]
  exact ⟨rfl, rfl⟩

end Dump

/-! ### 2. one register bank -/

namespace Spec.DumpFormat

theorem parseLine_framed (p : Parsed) (mid : List Char) :
    parseLine p ('|' :: (mid ++ ['|'])) = afterBar p ('|' :: (mid ++ ['|'])) := by
  rw [parseLine_bar, show '|' :: (mid ++ ['|']) = ('|' :: mid) ++ ['|'] from rfl, getLastD_snoc]
  have : delim '|' = true := by decide
  rw [this, Bool.and_true]

theorem afterBar_head (p : Parsed) (hob : p.openBank = false) (line hd : List Char) (rest : List (List Char))
    (hw : words line = ['|'] :: "register".toList :: hd :: rest) :
    afterBar p line =
      { p with banks := p.banks ++ [(String.ofList (hd.takeWhile (· != '(')), ((hd.dropWhile (· != '(')).drop 1).headD '?', bankItems rest)],
               openBank := !rest.contains ['}'] } := by
  unfold afterBar
  have hbar : (['|'] != ['|']) = false := by decide
  simp only [hob, hw, hbar, Bool.false_eq_true, ↓reduceIte, beq_self_eq_true]

theorem afterBar_cont (p : Parsed) (hob : p.openBank = true) (before : List (String × Char × List (String × Nat)))
    (l : String) (st : Char) (items : List (String × Nat)) (hb : p.banks = before ++ [(l, st, items)]) (line : List Char) :
    afterBar p line =
      { p with banks := before ++ [(l, st, items ++ bankItems (words line))], openBank := !(words line).contains ['}'] } := by
  unfold afterBar
  simp only [hob, hb, ↓reduceIte, List.reverse_append, List.reverse_cons, List.reverse_nil, List.nil_append, List.cons_append,
    List.reverse_reverse]

theorem bankItems_skip (w : List Char) (ws : List (List Char)) (h : ∀ c ∈ w, c ≠ '=') : bankItems (w :: ws) = bankItems ws := by
  unfold bankItems
  rw [List.filterMap_cons]
  simp only [splitOn_noSep '=' w h]

theorem bankItems_item (nm hex : List Char) (v : Nat) (ws : List (List Char)) (hn : ∀ c ∈ nm, c ≠ '=') (hh : ∀ c ∈ hex, c ≠ '=')
    (hv : parseHex hex = some v) : bankItems ((nm ++ '=' :: hex) :: ws) = (String.ofList nm, v) :: bankItems ws := by
  unfold bankItems
  rw [List.filterMap_cons]
  simp only [splitOn_sep '=' nm hex hn, splitOn_noSep '=' hex hh, hv, Option.map_some]

theorem bankItems_nil : bankItems [] = [] := rfl

/-- the reader is inside the group `(L, S, _)` that follows the groups `before`, at the end of the characters `cur`
    of a line, having read `items` in this group: whatever follows up to the closing `|` is read as further items -/
def Ready (before : List (String × Char × List (String × Nat))) (L : String) (S : Char) (p : Parsed) (cur : List Char)
    (items : List (String × Nat)) : Prop :=
  ∀ T : List Char, parseLine p (cur ++ ' ' :: (T ++ ['|'])) =
    { p with banks := before ++ [(L, S, items ++ bankItems (words (T ++ ['|'])))],
             openBank := !(words (T ++ ['|'])).contains ['}'] }

theorem ready_head (p : Parsed) (hob : p.openBank = false) (Lc : List Char) (sc : Char)
    (hL : ∀ c ∈ Lc, c ≠ ' ' ∧ c ≠ '(') (hs : sc ≠ ' ') :
    Ready p.banks (String.ofList Lc) sc p ("| register ".toList ++ (Lc ++ ['(', sc, ')', ' ', '{'])) [] := by
  intro T
  have e : "| register ".toList ++ (Lc ++ ['(', sc, ')', ' ', '{']) ++ ' ' :: (T ++ ['|']) =
      '|' :: ((' ' :: ("register".toList ++ ' ' :: ((Lc ++ ['(', sc, ')']) ++ ' ' :: (['{'] ++ ' ' :: T)))) ++ ['|']) := by
    rw [show "| register ".toList = '|' :: ' ' :: ("register".toList ++ [' ']) from rfl]
    simp [List.append_assoc]
  have hw : words ('|' :: ((' ' :: ("register".toList ++ ' ' :: ((Lc ++ ['(', sc, ')']) ++ ' ' :: (['{'] ++ ' ' :: T)))) ++ ['|'])) =
      ['|'] :: "register".toList :: (Lc ++ ['(', sc, ')']) :: ['{'] :: words (T ++ ['|']) := by
    have e2 : '|' :: ((' ' :: ("register".toList ++ ' ' :: ((Lc ++ ['(', sc, ')']) ++ ' ' :: (['{'] ++ ' ' :: T)))) ++ ['|']) =
        ['|'] ++ ' ' :: ("register".toList ++ ' ' :: ((Lc ++ ['(', sc, ')']) ++ ' ' :: (['{'] ++ ' ' :: (T ++ ['|'])))) := by
      simp [List.append_assoc]
    rw [e2, words_word _ _ (by simp) (by decide), words_word _ _ (by decide) (by decide), words_word _ _ (by simp),
      words_word _ _ (by simp) (by decide)]
    intro c hc
    simp only [List.mem_append, List.mem_cons, List.not_mem_nil, or_false] at hc
    rcases hc with h | h | h | h
    · exact (hL c h).1
    · subst h; decide
    · subst h; exact hs
    · subst h; decide
  rw [e, parseLine_framed, afterBar_head p hob _ _ _ hw]
  have h1 : (Lc ++ ['(', sc, ')']).takeWhile (· != '(') = Lc := by
    rw [List.takeWhile_append_of_pos (fun c hc => by simpa using (hL c hc).2)]
    simp
  have h2 : (Lc ++ ['(', sc, ')']).dropWhile (· != '(') = ['(', sc, ')'] := by
    rw [List.dropWhile_append_of_pos (fun c hc => by simpa using (hL c hc).2)]
    simp
  rw [h1, h2, bankItems_skip ['{'] _ (by decide)]
  simp only [List.drop_one, List.tail_cons, List.headD_cons, List.nil_append, List.contains_cons]
  have : (['}'] == ['{']) = false := by decide
  simp only [this, Bool.false_or]

theorem ready_cont (p : Parsed) (hob : p.openBank = true) (before : List (String × Char × List (String × Nat)))
    (L : String) (S : Char) (items : List (String × Nat)) (hb : p.banks = before ++ [(L, S, items)]) :
    Ready before L S p ['|', ' '] items := by
  intro T
  have e : ['|', ' '] ++ ' ' :: (T ++ ['|']) = '|' :: ((' ' :: ' ' :: T) ++ ['|']) := rfl
  have hw : words ('|' :: ((' ' :: ' ' :: T) ++ ['|'])) = ['|'] :: words (T ++ ['|']) := by
    rw [show '|' :: ((' ' :: ' ' :: T) ++ ['|']) = ['|'] ++ ' ' :: (' ' :: (T ++ ['|'])) from rfl,
      words_word _ _ (by simp) (by decide), words_space]
  rw [e, parseLine_framed, afterBar_cont p hob before L S items hb, hw, bankItems_skip ['|'] _ (by decide)]
  simp only [List.contains_cons]
  have : (['}'] == ['|']) = false := by decide
  simp only [this, Bool.false_or]

theorem ready_item (before : List (String × Char × List (String × Nat))) (L : String) (S : Char) (p : Parsed) (cur : List Char)
    (items : List (String × Nat)) (h : Ready before L S p cur items) (nm hex : List Char) (v : Nat)
    (hn : ∀ c ∈ nm, c ≠ ' ' ∧ c ≠ '=') (hh : ∀ c ∈ hex, (hexVal? c).isSome = true) (hv : parseHex hex = some v) :
    Ready before L S p (cur ++ ' ' :: (nm ++ '=' :: hex)) (items ++ [(String.ofList nm, v)]) := by
  intro T
  have e : (cur ++ ' ' :: (nm ++ '=' :: hex)) ++ ' ' :: (T ++ ['|']) = cur ++ ' ' :: (((nm ++ '=' :: hex) ++ ' ' :: T) ++ ['|']) := by
    simp [List.append_assoc]
  have hsp : ∀ c ∈ nm ++ '=' :: hex, c ≠ ' ' := by
    intro c hc
    rcases List.mem_append.mp hc with h | h
    · exact (hn c h).1
    · rcases List.mem_cons.mp h with h | h
      · subst h; decide
      · exact hex_ne c ' ' (by decide) (hh c h)
  have hw : words (((nm ++ '=' :: hex) ++ ' ' :: T) ++ ['|']) = (nm ++ '=' :: hex) :: words (T ++ ['|']) := by
    rw [List.append_assoc, List.cons_append, words_word _ _ (by simp) hsp]
  rw [e, h _, hw, bankItems_item nm hex v _ (fun c hc => (hn c hc).2) (fun c hc => hex_ne c '=' (by decide) (hh c hc)) hv]
  have hc : (['}'] == nm ++ '=' :: hex) = false := by
    apply beq_false_of_ne
    intro e
    have : '=' ∈ ['}'] := by rw [e]; simp
    revert this; decide
  simp only [List.contains_cons, hc, Bool.false_or, List.append_assoc, List.cons_append, List.nil_append]

end Spec.DumpFormat

namespace Dump

/-- no line break among the characters -/
def NoNl (l : List Char) : Prop := ∀ c ∈ l, c ≠ '\n'

theorem nn_nil : NoNl [] := fun _ h => by cases h
theorem nn_cons {c : Char} {l : List Char} (h : c ≠ '\n') (hl : NoNl l) : NoNl (c :: l) := by
  intro x hx
  rcases List.mem_cons.mp hx with e | e
  · subst e; exact h
  · exact hl x e
theorem nn_append {a b : List Char} (ha : NoNl a) (hb : NoNl b) : NoNl (a ++ b) := by
  intro x hx
  rcases List.mem_append.mp hx with e | e
  · exact ha x e
  · exact hb x e
theorem nn_spaces (n : Nat) : NoNl (List.replicate n ' ') := by
  intro x hx
  rw [(List.mem_replicate.mp hx).2]; decide
theorem nn_hex {l : List Char} (h : ∀ c ∈ l, (hexVal? c).isSome = true) : NoNl l :=
  fun c hc => hex_ne c '\n' (by decide) (h c hc)

theorem replicate_snoc (a : Char) : ∀ (n : Nat) (l : List Char), List.replicate n a ++ a :: l = a :: (List.replicate n a ++ l)
  | 0, _ => rfl
  | n + 1, l => by rw [List.replicate_succ, List.cons_append, replicate_snoc a n l]; rfl

/-- `| register ` -/
def regHead : List Char := "| register ".toList

/-- the characters of a token of `dump_bank` -/
def BTok.chars : BTok → List Char
  | .head label status => regHead ++ (label.toList ++ '(' :: (status.toList ++ [')', ' ', '{']))
  | .wrap pad => List.replicate pad ' ' ++ [' ', '|', '\n', '|', ' ']
  | .item name w v => ' ' :: (name.toList ++ '=' :: padLeft '0' w (hexDigits 40 v))
  | .close => [' ', '}']
  | .fin pad => List.replicate pad ' ' ++ [' ', '|', '\n']

theorem BTok.text_toList (t : BTok) : t.text.toList = t.chars := by
  cases t with
  | head label status =>
    simp only [BTok.text, BTok.chars, String.toList_append]
    rw [show "| register ".toList = regHead from rfl, show "(".toList = ['('] from rfl, show ") {".toList = [')', ' ', '{'] from rfl]
    simp [List.append_assoc]
  | wrap pad =>
    simp only [BTok.text, BTok.chars, String.toList_append, spaces, String.toList_ofList]
    rfl
  | item name w v =>
    simp only [BTok.text, BTok.chars, String.toList_append, toHexPad, String.toList_ofList]
    rw [show " ".toList = [' '] from rfl, show "=".toList = ['='] from rfl]
    simp [List.append_assoc]
  | close => rfl
  | fin pad =>
    simp only [BTok.text, BTok.chars, String.toList_append, spaces, String.toList_ofList]
    rfl

theorem join_text_toList : ∀ (toks : List BTok), (String.join (toks.map BTok.text)).toList = toks.flatMap BTok.chars
  | [] => by simp [String.join_nil]
  | t :: toks => by
    rw [List.map_cons, String.join_cons, String.toList_append, BTok.text_toList, join_text_toList toks, List.flatMap_cons]

/-- the tokens between the opening and the closing brace: line breaks, and registers whose names are free of blanks,
    `=` and line breaks and whose values are below `2^128` -/
def GoodInner : BTok → Prop
  | .item name _ v => (∀ c ∈ name.toList, c ≠ ' ' ∧ c ≠ '=' ∧ c ≠ '\n') ∧ v < 2 ^ 128
  | .wrap _ => True
  | _ => False

/-- the registers the tokens show: name and value -/
def itemsOf (body : List BTok) : List (String × Nat) :=
  body.filterMap fun t => match t with
    | .item n _ v => some (n, v)
    | _ => none

theorem padZero_isHex (w v : Nat) : ∀ c ∈ padLeft '0' w (hexDigits 40 v), (hexVal? c).isSome = true := by
  intro c hc
  unfold padLeft at hc
  rcases List.mem_append.mp hc with h | h
  · rw [(List.mem_replicate.mp h).2]; decide
  · exact hexDigits_isHex 40 v c h

theorem readLines_body (before : List (String × Char × List (String × Nat))) (L : String) (S : Char) :
    ∀ (body : List BTok) (p : Parsed) (cur : List Char) (items : List (String × Nat)) (n : Nat) (rest : List Char),
    (∀ t ∈ body, GoodInner t) → (∀ c ∈ cur, c ≠ '\n') → Ready before L S p cur items →
    readLines p (cur ++ ((body ++ [BTok.close, BTok.fin n]).flatMap BTok.chars ++ rest)) =
      readLines { p with banks := before ++ [(L, S, items ++ itemsOf body)], openBank := false } rest
  | [], p, cur, items, n, rest, _, hcur, hr => by
    have e : cur ++ (([] ++ [BTok.close, BTok.fin n]).flatMap BTok.chars ++ rest) =
        (cur ++ ' ' :: (('}' :: ' ' :: List.replicate n ' ') ++ ['|'])) ++ '\n' :: rest := by
      simp only [List.nil_append, List.flatMap_cons, List.flatMap_nil, BTok.chars, List.append_nil, List.append_assoc,
        List.cons_append]
      rw [replicate_snoc]
    have hnl : NoNl (cur ++ ' ' :: (('}' :: ' ' :: List.replicate n ' ') ++ ['|'])) :=
      nn_append hcur (nn_cons (by decide) (nn_append (nn_cons (by decide) (nn_cons (by decide) (nn_spaces n))) (nn_cons (by decide) nn_nil)))
    have hw : words (('}' :: ' ' :: List.replicate n ' ') ++ ['|']) = [['}'], ['|']] := by
      rw [show ('}' :: ' ' :: List.replicate n ' ') ++ ['|'] = ['}'] ++ ' ' :: (List.replicate n ' ' ++ ['|']) from rfl,
        words_word _ _ (by simp) (by decide), words_spaces, words_last _ (by simp) (by decide)]
    rw [e, readLines_line _ _ _ hnl, hr _, hw]
    rfl
  | .item name w v :: body, p, cur, items, n, rest, hg, hcur, hr => by
    have hgi := hg _ (List.mem_cons_self ..)
    have hr' := ready_item before L S p cur items hr name.toList (padLeft '0' w (hexDigits 40 v)) v
      (fun c hc => ⟨(hgi.1 c hc).1, (hgi.1 c hc).2.1⟩) (padZero_isHex w v) (parseHex_padZero w v hgi.2)
    have hcur' : ∀ c ∈ cur ++ ' ' :: (name.toList ++ '=' :: padLeft '0' w (hexDigits 40 v)), c ≠ '\n' := by
      intro c hc
      simp only [List.mem_append, List.mem_cons] at hc
      rcases hc with h | h | h | h | h
      · exact hcur c h
      · subst h; decide
      · exact (hgi.1 c h).2.2
      · subst h; decide
      · exact hex_ne c '\n' (by decide) (padZero_isHex w v c h)
    have ih := readLines_body before L S body p _ _ n rest (fun t ht => hg t (List.mem_cons_of_mem _ ht)) hcur' hr'
    rw [String.ofList_toList] at ih
    have e : cur ++ ((BTok.item name w v :: body ++ [BTok.close, BTok.fin n]).flatMap BTok.chars ++ rest) =
        (cur ++ ' ' :: (name.toList ++ '=' :: padLeft '0' w (hexDigits 40 v))) ++ ((body ++ [BTok.close, BTok.fin n]).flatMap BTok.chars ++ rest) := by
      simp [BTok.chars, List.append_assoc]
    rw [e, ih]
    simp [itemsOf]
  | .wrap pad :: body, p, cur, items, n, rest, hg, hcur, hr => by
    have e : cur ++ ((BTok.wrap pad :: body ++ [BTok.close, BTok.fin n]).flatMap BTok.chars ++ rest) =
        (cur ++ ' ' :: (List.replicate pad ' ' ++ ['|'])) ++ '\n' :: (['|', ' '] ++ ((body ++ [BTok.close, BTok.fin n]).flatMap BTok.chars ++ rest)) := by
      simp only [List.cons_append, List.flatMap_cons, BTok.chars, List.append_assoc, List.nil_append]
      rw [replicate_snoc]
    have hnl : NoNl (cur ++ ' ' :: (List.replicate pad ' ' ++ ['|'])) :=
      nn_append hcur (nn_cons (by decide) (nn_append (nn_spaces pad) (nn_cons (by decide) nn_nil)))
    have hw : words (List.replicate pad ' ' ++ ['|']) = [['|']] := by
      rw [words_spaces, words_last _ (by simp) (by decide)]
    rw [e, readLines_line _ _ _ hnl, hr _, hw]
    have ih := readLines_body before L S body
      { p with banks := before ++ [(L, S, items ++ bankItems [['|']])], openBank := !([['|']] : List (List Char)).contains ['}'] }
      ['|', ' '] items n rest (fun t ht => hg t (List.mem_cons_of_mem _ ht)) (by decide)
      (ready_cont _ rfl before L S items (by rw [bankItems_skip ['|'] _ (by decide), bankItems_nil, List.append_nil]))
    rw [ih]
    simp [itemsOf]
  | .head _ _ :: _, _, _, _, _, _, hg, _, _ => (hg _ (List.mem_cons_self ..)).elim
  | .close :: _, _, _, _, _, _, hg, _, _ => (hg _ (List.mem_cons_self ..)).elim
  | .fin _ :: _, _, _, _, _, _, hg, _, _ => (hg _ (List.mem_cons_self ..)).elim

end Dump

namespace Dump

/-- the state letter of a bank as a character: bubbled wins over stalled -/
def statusChar (vals : AMap WireValue) (b : RegisterBank) : Char :=
  if bitsOf vals b.bubble > 0 then 'B' else if bitsOf vals b.stall > 0 then 'S' else 'N'

theorem statusOf_eq (vals : AMap WireValue) (b : RegisterBank) : statusOf vals b = String.ofList [statusChar vals b] := by
  unfold statusOf statusChar
  split
  · rfl
  · split <;> rfl

theorem statusChar_ok (vals : AMap WireValue) (b : RegisterBank) : statusChar vals b ≠ ' ' ∧ statusChar vals b ≠ '\n' := by
  unfold statusChar
  split
  · decide
  · split <;> decide

theorem parsed_openBank_eta (p : Parsed) (hob : p.openBank = false) (bs : List (String × Char × List (String × Nat))) :
    { p with banks := bs, openBank := false } = { p with banks := bs } := by
  cases p
  simp only at hob
  subst hob
  rfl

/-- **a group of tokens can be read back**: the characters printed for the opening of a bank, registers and line
    breaks, the closing brace and the end of the line, read from a state that is not inside a group, add exactly one
    group -- the label, the state letter, the registers in order with their values -- and change nothing else -/
theorem toks_readback (p : Parsed) (hob : p.openBank = false) (label : String) (sc : Char) (body : List BTok) (n : Nat)
    (rest : List Char) (hl : ∀ c ∈ label.toList, c ≠ ' ' ∧ c ≠ '(' ∧ c ≠ '\n') (hs : sc ≠ ' ' ∧ sc ≠ '\n')
    (hg : ∀ t ∈ body, GoodInner t) :
    readLines p ((String.join ((BTok.head label (String.ofList [sc]) :: body ++ [BTok.close, BTok.fin n]).map BTok.text)).toList ++ rest) =
      readLines { p with banks := p.banks ++ [(label, sc, itemsOf body)] } rest := by
  have hr := ready_head p hob label.toList sc (fun c hc => ⟨(hl c hc).1, (hl c hc).2.1⟩) hs.1
  have hcur : NoNl ("| register ".toList ++ (label.toList ++ ['(', sc, ')', ' ', '{'])) :=
    nn_append (show ∀ c ∈ "| register ".toList, c ≠ '\n' by decide) (nn_append (fun c hc => (hl c hc).2.2)
      (nn_cons (by decide) (nn_cons hs.2 (nn_cons (by decide) (nn_cons (by decide) (nn_cons (by decide) nn_nil))))))
  have h := readLines_body p.banks (String.ofList label.toList) sc body p _ [] n rest hg hcur hr
  rw [join_text_toList, List.cons_append, List.flatMap_cons, List.append_assoc]
  have e : BTok.chars (BTok.head label (String.ofList [sc])) = "| register ".toList ++ (label.toList ++ ['(', sc, ')', ' ', '{']) := by
    show regHead ++ (label.toList ++ '(' :: ((String.ofList [sc]).toList ++ [')', ' ', '{'])) = _
    rw [String.toList_ofList]
    rfl
  rw [e, h, String.ofList_toList, List.nil_append, parsed_openBank_eta p hob]

theorem itemsOf_eq : ∀ (body : List BTok), itemsOf body = (body.filterMap BTok.item?).map (fun x => (x.1, x.2.2))
  | [] => rfl
  | .item name w v :: body => by
    show (name, v) :: itemsOf body = _
    rw [itemsOf_eq body]; rfl
  | .head _ _ :: body => by
    show itemsOf body = _
    rw [itemsOf_eq body]; rfl
  | .wrap _ :: body => by
    show itemsOf body = _
    rw [itemsOf_eq body]; rfl
  | .close :: body => by
    show itemsOf body = _
    rw [itemsOf_eq body]; rfl
  | .fin _ :: body => by
    show itemsOf body = _
    rw [itemsOf_eq body]; rfl

/-- **one register bank can be read back**: for a bank whose label has no blank, `(` or line break and whose register
    names have no blank, `=` or line break (they are identifiers), with values below `2^128`, reading the text of
    `dump_bank` in a state that is not inside a group adds exactly the group of the bank: its label, its state letter,
    and every register in declaration order with the value of its output wire.  Nothing else changes: the reader is
    outside a group again, and the frame test has passed on every line. -/
theorem bank_readback (vals : AMap WireValue) (b : RegisterBank) (p : Parsed) (hob : p.openBank = false)
    (hl : ∀ c ∈ b.label.toList, c ≠ ' ' ∧ c ≠ '(' ∧ c ≠ '\n')
    (hn : ∀ sg ∈ b.signals, ∀ c ∈ (regNameOf sg.1).toList, c ≠ ' ' ∧ c ≠ '=' ∧ c ≠ '\n')
    (hv : ∀ sg ∈ b.signals, bitsOf vals sg.2.1 < 2 ^ 128) (rest : List Char) :
    readLines p ((Dump.bank vals b).toList ++ rest) =
      readLines { p with banks := p.banks ++
        [(b.label, statusChar vals b, b.signals.map fun sg => (regNameOf sg.1, bitsOf vals sg.2.1))] } rest := by
  obtain ⟨body, n, ht, hin, hit⟩ := bankToks_shape vals b
  have hg : ∀ t ∈ body, GoodInner t := by
    intro t ht'
    cases t with
    | item name w v =>
      have hm : (name, w, v) ∈ body.filterMap BTok.item? := List.mem_filterMap.mpr ⟨_, ht', rfl⟩
      rw [hit] at hm
      obtain ⟨sg, hsg, he⟩ := List.mem_map.mp hm
      unfold shownOf at he
      simp only [Prod.mk.injEq] at he
      obtain ⟨e1, _, e3⟩ := he
      subst e1; subst e3
      exact ⟨hn sg hsg, hv sg hsg⟩
    | wrap pad => trivial
    | head _ _ => exact absurd (hin _ ht') (by simp [BTok.inner])
    | close => exact absurd (hin _ ht') (by simp [BTok.inner])
    | fin _ => exact absurd (hin _ ht') (by simp [BTok.inner])
  unfold bank
  rw [ht, statusOf_eq, toks_readback p hob b.label (statusChar vals b) body n rest hl (statusChar_ok vals b) hg, itemsOf_eq, hit,
    List.map_map]
  rfl

/-- the same for the text of one bank alone -/
theorem bank_parse (vals : AMap WireValue) (b : RegisterBank)
    (hl : ∀ c ∈ b.label.toList, c ≠ ' ' ∧ c ≠ '(' ∧ c ≠ '\n')
    (hn : ∀ sg ∈ b.signals, ∀ c ∈ (regNameOf sg.1).toList, c ≠ ' ' ∧ c ≠ '=' ∧ c ≠ '\n')
    (hv : ∀ sg ∈ b.signals, bitsOf vals sg.2.1 < 2 ^ 128) :
    (parse (Dump.bank vals b)).banks = [(b.label, statusChar vals b, b.signals.map fun sg => (regNameOf sg.1, bitsOf vals sg.2.1))] ∧
    (parse (Dump.bank vals b)).openBank = false ∧ (parse (Dump.bank vals b)).framed = true := by
  have := bank_readback vals b {} rfl hl hn hv []
  rw [List.append_nil, readLines_nil] at this
  rw [parse_eq, this]
  exact ⟨rfl, rfl, rfl⟩

end Dump

/-! ### 3. the memory rows -/

namespace Dump

/-- the blanks that follow the cell in column `i` (group separators) -/
def sepChars (i : Nat) : List Char := if i == 3 || i == 11 then [' '] else if i == 7 then [' ', ' '] else []

def cellChars : Option Nat → List Char
  | some v => ' ' :: padLeft '0' 2 (hexDigits 40 v)
  | none => [' ', ' ', ' ']

/-- the end of a row: four blanks and the frame -/
def rowEnd : List Char := [' ', ' ', ' ', ' ', '|']

/-- the characters of a token of the memory walk -/
def MTok.chars : MTok → List Char
  | .label r => '|' :: ' ' :: ' ' :: '0' :: 'x' :: (padLeft '0' 7 (hexDigits 40 r) ++ ['_', ':', ' ', ' '])
  | .cell i b => cellChars b ++ (sepChars i ++ (if i == 15 then rowEnd ++ ['\n'] else []))

theorem MTok.text_toList (t : MTok) : t.text.toList = t.chars := by
  cases t with
  | label r =>
    simp only [MTok.text, MTok.chars, String.toList_append, toHexPad, String.toList_ofList]
    rw [show "|  0x".toList = ['|', ' ', ' ', '0', 'x'] from rfl, show "_:  ".toList = ['_', ':', ' ', ' '] from rfl]
    rfl
  | cell i b =>
    have h2 : (if (i == 3 || i == 11) = true then " " else if (i == 7) = true then "  " else "").toList =
        if (i == 3 || i == 11) = true then [' '] else if (i == 7) = true then [' ', ' '] else [] := by
      split
      · rfl
      · split <;> rfl
    have h3 : (if (i == 15) = true then "    |\n" else "").toList = if (i == 15) = true then [' ', ' ', ' ', ' ', '|'] ++ ['\n'] else [] := by
      split <;> rfl
    cases b with
    | none =>
      simp only [MTok.text, MTok.chars, String.toList_append, sepChars, rowEnd, h2, h3, List.append_assoc]
      rfl
    | some v =>
      simp only [MTok.text, MTok.chars, String.toList_append, sepChars, rowEnd, h2, h3, List.append_assoc, toHexPad,
        String.toList_ofList, cellChars]
      rfl

theorem join_mtext_toList : ∀ (toks : List MTok), (String.join (toks.map MTok.text)).toList = toks.flatMap MTok.chars
  | [] => by simp [String.join_nil]
  | t :: toks => by
    rw [List.map_cons, String.join_cons, String.toList_append, MTok.text_toList, join_mtext_toList toks, List.flatMap_cons]

theorem sep_drop (col : Nat) (Y : List Char) :
    (if (col == 3 || col == 11) = true then List.drop 1 (sepChars col ++ Y)
      else if (col == 7) = true then List.drop 2 (sepChars col ++ Y) else sepChars col ++ Y) = Y := by
  unfold sepChars
  split
  · rfl
  · split <;> rfl

theorem rowCells_some (base col : Nat) (hc : col < 16) (a b : Char) (v : Nat) (Y : List Char) (hp : parseHex [a, b] = some v) :
    rowCells base col (' ' :: a :: b :: (sepChars col ++ Y)) = (base + col, v) :: rowCells base (col + 1) Y := by
  rw [rowCells.eq_2 _ _ _ (by omega)]
  have h16 : ¬ col > 16 := by omega
  simp only [h16, ↓reduceIte, List.take_succ_cons, List.take_zero, List.drop_succ_cons, List.drop_zero, hp, Option.map_some,
    sep_drop]
  rfl

theorem rowCells_none (base col : Nat) (hc : col < 16) (Y : List Char) :
    rowCells base col (' ' :: ' ' :: ' ' :: (sepChars col ++ Y)) = rowCells base (col + 1) Y := by
  rw [rowCells.eq_2 _ _ _ (by omega)]
  have h16 : ¬ col > 16 := by omega
  have hp : parseHex [' ', ' '] = none := by decide
  simp only [h16, ↓reduceIte, List.take_succ_cons, List.take_zero, List.drop_succ_cons, List.drop_zero, hp, Option.map_none,
    sep_drop]
  rfl

/-- a byte is printed with exactly two digits -/
theorem byte_digits (v : Nat) (h : v < 256) : ∃ a b, padLeft '0' 2 (hexDigits 40 v) = [a, b] := by
  unfold padLeft
  rw [show (40 : Nat) = 38 + 1 + 1 from rfl, hexDigits]
  split
  · exact ⟨'0', hexDigit v, rfl⟩
  · rw [hexDigits]
    have : v / 16 < 16 := by omega
    simp only [this, ↓reduceIte]
    exact ⟨hexDigit (v / 16), hexDigit (v % 16), rfl⟩

/-- a label shows a number below `2^128`, a cell a byte -/
def MGood : MTok → Prop
  | .label r => r < 2 ^ 128
  | .cell _ (some v) => v < 256
  | .cell _ none => True

/-- reading the cell in column `col` -/
theorem rowCells_cell (r col : Nat) (hc : col < 16) (b : Option Nat) (hg : MGood (.cell col b)) (Y : List Char) :
    rowCells (r * 16) col (cellChars b ++ (sepChars col ++ Y)) = readToks [.cell col b] r ++ rowCells (r * 16) (col + 1) Y := by
  cases b with
  | none => exact rowCells_none _ _ hc Y
  | some v =>
    obtain ⟨a, b, hab⟩ := byte_digits v hg
    have hp : parseHex [a, b] = some v := by
      rw [← hab]; exact parseHex_padZero 2 v (Nat.lt_trans hg (by decide))
    simp only [cellChars, hab, List.cons_append, List.nil_append]
    rw [rowCells_some _ _ hc a b v Y hp, Nat.mul_comm]
    rfl

theorem nn_cell (b : Option Nat) : NoNl (cellChars b) := by
  cases b with
  | none => unfold cellChars NoNl; decide
  | some v => exact nn_cons (by decide) (nn_hex (padZero_isHex 2 v))

theorem nn_sep (i : Nat) : NoNl (sepChars i) := by
  unfold sepChars NoNl
  split
  · decide
  · split <;> decide

end Dump

namespace Dump

theorem readToks_cell_cons (i : Nat) (b : Option Nat) (row : List MTok) (r : Nat) :
    readToks (.cell i b :: row) r = readToks [.cell i b] r ++ readToks row r := by
  cases b <;> rfl

/-- **the cells of a row**: tokens that continue a row at column `p` start with the cells `p..15`; their characters are
    the cells' characters followed by the end of the row, and `rowCells` reads the cells back -/
theorem row_split : ∀ (n p : Nat), p + n = 15 → ∀ toks : List MTok, runRows (some p) toks = some none → (∀ t ∈ toks, MGood t) →
    ∃ row rest', toks = row ++ rest' ∧ runRows none rest' = some none ∧ (∀ r, lastRow row r = r) ∧
      ∃ Z, NoNl Z ∧ row.flatMap MTok.chars = Z ++ (rowEnd ++ ['\n']) ∧ ∀ r X, rowCells (r * 16) p (Z ++ X) = readToks row r
  | n, p, hp, [], h, _ => by simp [runRows] at h
  | n, p, hp, .label _ :: _, h, _ => by simp [runRows] at h
  | 0, p, hp, .cell i b :: rest, h, hg => by
    have hp15 : p = 15 := by omega
    subst hp15
    simp only [runRows] at h
    split at h
    · rename_i hi
      subst hi
      refine ⟨[.cell 15 b], rest, rfl, h, fun r => rfl, cellChars b ++ sepChars 15, nn_append (nn_cell b) (nn_sep 15), ?_, ?_⟩
      · simp [MTok.chars, List.append_assoc]
      · intro r X
        rw [List.append_assoc, rowCells_cell r 15 (by decide) b (hg _ (List.mem_cons_self ..)), rowCells.eq_1, List.append_nil]
    · cases h
  | n + 1, p, hp, .cell i b :: rest, h, hg => by
    simp only [runRows] at h
    split at h
    · rename_i hi
      subst hi
      have hn : nextPos i = some (i + 1) := by
        unfold nextPos; rw [if_neg (by omega)]
      rw [hn] at h
      obtain ⟨row, rest', e, hr, hl, Z, hz, hc, hcells⟩ := row_split n (i + 1) (by omega) rest h
        (fun t ht => hg t (List.mem_cons_of_mem _ ht))
      refine ⟨.cell i b :: row, rest', by rw [e]; rfl, hr, fun r => hl r, cellChars b ++ (sepChars i ++ Z),
        nn_append (nn_cell b) (nn_append (nn_sep i) hz), ?_, ?_⟩
      · have h15 : (i == 15) = false := by
          apply beq_false_of_ne; omega
        rw [List.flatMap_cons, hc]
        simp [MTok.chars, h15, List.append_assoc]
      · intro r X
        rw [List.append_assoc, List.append_assoc, rowCells_cell r i (by omega) b (hg _ (List.mem_cons_self ..)), hcells,
          ← readToks_cell_cons]
    · cases h

end Dump

namespace Spec.DumpFormat

theorem afterBar_row (p : Parsed) (hob : p.openBank = false) (him : p.inMemory = true) (line w : List Char) (rest : List (List Char))
    (hw : words line = ['|'] :: w :: rest) (h1 : (w == "register".toList) = false) (h2 : (w == "used".toList) = false)
    (r0 : List Char) (hs : stripPrefix "|  0x".toList line = some r0) (row : Nat)
    (hp : parseHex (r0.takeWhile (· != '_')) = some row) :
    afterBar p line = { p with bytes := p.bytes ++ rowCells (row * 16) 0 ((r0.dropWhile (· != '_')).drop 4) } := by
  unfold afterBar
  have hbar : (['|'] != ['|']) = false := by decide
  simp only [hob, him, hw, hbar, h1, h2, hs, hp, Bool.false_eq_true, ↓reduceIte]

theorem afterBar_used (p : Parsed) (hob : p.openBank = false) (line : List Char) (rest : List (List Char))
    (hw : words line = ['|'] :: "used".toList :: rest) : afterBar p line = { p with inMemory := true } := by
  unfold afterBar
  have hbar : (['|'] != ['|']) = false := by decide
  have h1 : ("used".toList == "register".toList) = false := by decide
  simp only [hob, hw, hbar, h1, Bool.false_eq_true, ↓reduceIte, beq_self_eq_true]

end Spec.DumpFormat

namespace Dump

/-- **one memory row**: the label and the sixteen cells are read as the bytes of that row -/
theorem parseLine_memRow (p : Parsed) (hob : p.openBank = false) (him : p.inMemory = true) (r : Nat) (hr : r < 2 ^ 128)
    (Z : List Char) :
    parseLine p (MTok.chars (.label r) ++ (Z ++ rowEnd)) = { p with bytes := p.bytes ++ rowCells (r * 16) 0 (Z ++ rowEnd) } := by
  have hH := padZero_isHex 7 r
  have hpH := parseHex_padZero 7 r hr
  have e : MTok.chars (.label r) ++ (Z ++ rowEnd) =
      '|' :: ((' ' :: ' ' :: '0' :: 'x' :: (padLeft '0' 7 (hexDigits 40 r) ++ '_' :: ':' :: ' ' :: ' ' :: (Z ++ [' ', ' ', ' ', ' ']))) ++ ['|']) := by
    simp [MTok.chars, rowEnd, List.append_assoc]
  rw [e]
  generalize padLeft '0' 7 (hexDigits 40 r) = H at hH hpH
  have hw : words ('|' :: ((' ' :: ' ' :: '0' :: 'x' :: (H ++ '_' :: ':' :: ' ' :: ' ' :: (Z ++ [' ', ' ', ' ', ' ']))) ++ ['|'])) =
      ['|'] :: ('0' :: 'x' :: (H ++ ['_', ':'])) :: words (' ' :: (Z ++ rowEnd)) := by
    have e2 : '|' :: ((' ' :: ' ' :: '0' :: 'x' :: (H ++ '_' :: ':' :: ' ' :: ' ' :: (Z ++ [' ', ' ', ' ', ' ']))) ++ ['|']) =
        ['|'] ++ ' ' :: (' ' :: (('0' :: 'x' :: (H ++ ['_', ':'])) ++ ' ' :: (' ' :: (Z ++ rowEnd)))) := by
      simp [rowEnd, List.append_assoc]
    rw [e2, words_word _ _ (by simp) (by decide), words_space, words_word _ _ (by simp)]
    intro c hc
    simp only [List.mem_cons, List.mem_append, List.not_mem_nil, or_false] at hc
    rcases hc with h | h | h | h | h
    · subst h; decide
    · subst h; decide
    · exact hex_ne c ' ' (by decide) (hH c h)
    · subst h; decide
    · subst h; decide
  have h1 : (('0' :: 'x' :: (H ++ ['_', ':'])) == "register".toList) = false := by
    apply beq_false_of_ne
    rw [show "register".toList = 'r' :: "egister".toList from rfl]
    intro e
    have := (List.cons.inj e).1
    revert this; decide
  have h2 : (('0' :: 'x' :: (H ++ ['_', ':'])) == "used".toList) = false := by
    apply beq_false_of_ne
    rw [show "used".toList = 'u' :: "sed".toList from rfl]
    intro e
    have := (List.cons.inj e).1
    revert this; decide
  have hs : stripPrefix "|  0x".toList ('|' :: ((' ' :: ' ' :: '0' :: 'x' :: (H ++ '_' :: ':' :: ' ' :: ' ' :: (Z ++ [' ', ' ', ' ', ' ']))) ++ ['|'])) =
      some (H ++ '_' :: ':' :: ' ' :: ' ' :: (Z ++ rowEnd)) := by
    rw [show "|  0x".toList = ['|', ' ', ' ', '0', 'x'] from rfl]
    simp [stripPrefix, List.isPrefixOf, rowEnd, List.append_assoc]
  have hne : ∀ c ∈ H, (c != '_') = true := fun c hc => by simpa using hex_ne c '_' (by decide) (hH c hc)
  have ht : (H ++ '_' :: ':' :: ' ' :: ' ' :: (Z ++ rowEnd)).takeWhile (· != '_') = H := by
    rw [List.takeWhile_append_of_pos hne]; simp
  have hd : ((H ++ '_' :: ':' :: ' ' :: ' ' :: (Z ++ rowEnd)).dropWhile (· != '_')).drop 4 = Z ++ rowEnd := by
    rw [List.dropWhile_append_of_pos hne]; simp
  rw [parseLine_framed, afterBar_row p hob him _ _ _ hw h1 h2 _ hs r (by rw [ht]; exact hpH), hd]

/-- the header line of the memory section without its line break -/
def memHeaderLine : List Char :=
  '|' :: ((' ' :: ("used".toList ++ ' ' :: "memory:   _0 _1 _2 _3  _4 _5 _6 _7   _8 _9 _a _b  _c _d _e _f    ".toList)) ++ ['|'])

theorem memHeader_toList : memHeader.toList = memHeaderLine ++ ['\n'] := by decide

theorem nn_memHeaderLine : NoNl memHeaderLine := by unfold NoNl; decide

/-- the header line switches the reader to the memory section -/
theorem parseLine_memHeader (p : Parsed) (hob : p.openBank = false) : parseLine p memHeaderLine = { p with inMemory := true } := by
  unfold memHeaderLine
  rw [parseLine_framed]
  refine afterBar_used p hob _ (words (("memory:   _0 _1 _2 _3  _4 _5 _6 _7   _8 _9 _a _b  _c _d _e _f    ".toList) ++ ['|'])) ?_
  rw [show '|' :: ((' ' :: ("used".toList ++ ' ' :: "memory:   _0 _1 _2 _3  _4 _5 _6 _7   _8 _9 _a _b  _c _d _e _f    ".toList)) ++ ['|']) =
      ['|'] ++ ' ' :: ("used".toList ++ ' ' :: ("memory:   _0 _1 _2 _3  _4 _5 _6 _7   _8 _9 _a _b  _c _d _e _f    ".toList ++ ['|'])) by simp,
    words_word _ _ (by simp) (by decide), words_word _ _ (by decide) (by decide)]

end Dump

namespace Dump

theorem parsed_bytes_nil (p : Parsed) : { p with bytes := p.bytes ++ [] } = p := by
  cases p; simp

theorem nn_label (r : Nat) : NoNl (MTok.chars (.label r)) := by
  unfold MTok.chars
  exact nn_cons (by decide) (nn_cons (by decide) (nn_cons (by decide) (nn_cons (by decide) (nn_cons (by decide)
    (nn_append (nn_hex (padZero_isHex 7 r)) (by unfold NoNl; decide))))))

/-- **complete rows can be read back**: the characters of tokens that form complete 16-byte rows (a label, then the
    cells of the columns 0..15, repeated), read in the memory section, add exactly the bytes the tokens show, each at
    the address its row label and column give it -/
theorem readLines_rows : ∀ (k : Nat) (toks : List MTok), toks.length ≤ k → runRows none toks = some none → (∀ t ∈ toks, MGood t) →
    ∀ (p : Parsed) (rest : List Char) (r : Nat), p.openBank = false → p.inMemory = true →
    readLines p (toks.flatMap MTok.chars ++ rest) = readLines { p with bytes := p.bytes ++ readToks toks r } rest
  | _, [], _, _, _, p, rest, r, _, _ => by
    show readLines p ([] ++ rest) = readLines { p with bytes := p.bytes ++ [] } rest
    rw [parsed_bytes_nil, List.nil_append]
  | 0, _ :: _, hk, _, _, _, _, _, _, _ => by simp at hk
  | k + 1, .cell _ _ :: _, _, h, _, _, _, _, _, _ => by simp [runRows] at h
  | k + 1, .label r0 :: toks1, hk, h, hg, p, rest, r, hob, him => by
    simp only [runRows] at h
    obtain ⟨row, rest', e, hr, hl, Z, hz, hc, hcells⟩ := row_split 15 0 rfl toks1 h (fun t ht => hg t (List.mem_cons_of_mem _ ht))
    subst e
    have hlen : rest'.length ≤ k := by
      simp only [List.length_cons, List.length_append] at hk; omega
    have e : (MTok.label r0 :: (row ++ rest')).flatMap MTok.chars ++ rest =
        (MTok.chars (.label r0) ++ (Z ++ rowEnd)) ++ '\n' :: (rest'.flatMap MTok.chars ++ rest) := by
      rw [List.flatMap_cons, List.flatMap_append, hc]
      simp [List.append_assoc]
    have hnl : NoNl (MTok.chars (.label r0) ++ (Z ++ rowEnd)) :=
      nn_append (nn_label r0) (nn_append hz (by unfold NoNl rowEnd; decide))
    rw [e, readLines_line _ _ _ hnl, parseLine_memRow p hob him r0 (hg _ (List.mem_cons_self ..)) Z, hcells r0 rowEnd]
    rw [readLines_rows k rest' hlen hr (fun t ht => hg t (List.mem_cons_of_mem _ (List.mem_append_right _ ht))) _ rest r0 (by exact hob) (by exact him)]
    have : readToks (MTok.label r0 :: (row ++ rest')) r = readToks row r0 ++ readToks rest' r0 := by
      show readToks (row ++ rest') r0 = _
      rw [read_append, hl]
    rw [this, List.append_assoc]

end Dump

namespace Dump

theorem sortedFrom_keys : ∀ (m : Mem) (lo : Nat), SortedFrom lo m → ∀ kv ∈ m, kv.1 < U64
  | [], _, _, _, h => by cases h
  | (k, v) :: rest, lo, hs, kv, h => by
    rcases List.mem_cons.mp h with e | e
    · subst e; exact hs.2.1
    · exact sortedFrom_keys rest (k + 1) hs.2.2 kv e

theorem good_nones (c n : Nat) : ∀ t ∈ nonesFrom c n, MGood t := by
  intro t ht
  unfold nonesFrom at ht
  obtain ⟨j, _, e⟩ := List.mem_map.mp ht
  subst e; trivial

theorem good_rowStart (k v : Nat) (hk : k < U64) (hv : v < 256) : ∀ t ∈ rowStartToks k v, MGood t := by
  intro t ht
  unfold rowStartToks at ht
  rcases List.mem_cons.mp ht with e | e
  · subst e
    have : U64 < 2 ^ 128 := by unfold U64; decide
    exact Nat.lt_of_le_of_lt (Nat.div_le_self k 16) (Nat.lt_trans hk this)
  · rcases List.mem_append.mp e with e | e
    · exact good_nones _ _ t e
    · simp only [List.mem_cons, List.not_mem_nil, or_false] at e
      subst e; exact hv

theorem good_keyToks (cur k v : Nat) (hk : k < U64) (hv : v < 256) : ∀ t ∈ keyToks cur k v, MGood t := by
  intro t ht
  unfold keyToks at ht
  split at ht
  · exact good_rowStart k v hk hv t ht
  · split at ht
    · rcases List.mem_append.mp ht with e | e
      · exact good_nones _ _ t e
      · simp only [List.mem_cons, List.not_mem_nil, or_false] at e
        subst e; exact hv
    · rcases List.mem_append.mp ht with e | e
      · exact good_nones _ _ t e
      · exact good_rowStart k v hk hv t e

theorem good_specFrom : ∀ (m : Mem) (cur : Nat), (∀ kv ∈ m, kv.1 < U64 ∧ kv.2 < 256) → ∀ t ∈ specFrom cur m, MGood t
  | [], _, _, t, ht => by cases ht
  | (k, v) :: rest, cur, hm, t, ht => by
    unfold specFrom at ht
    rcases List.mem_append.mp ht with e | e
    · exact good_keyToks cur k v (hm _ (List.mem_cons_self ..)).1 (hm _ (List.mem_cons_self ..)).2 t e
    · exact good_specFrom rest (k + 1) (fun kv hkv => hm kv (List.mem_cons_of_mem _ hkv)) t e

theorem good_finish (c : Nat) : ∀ t ∈ finishToks c, MGood t := by
  intro t ht
  unfold finishToks at ht
  split at ht
  · cases ht
  · exact good_nones _ _ t ht

theorem good_specToks (m : Mem) (hm : ∀ kv ∈ m, kv.1 < U64 ∧ kv.2 < 256) : ∀ t ∈ specToks m, MGood t := by
  intro t ht
  cases m with
  | nil => cases ht
  | cons kv rest =>
    obtain ⟨k0, v0⟩ := kv
    unfold specToks at ht
    rcases List.mem_append.mp ht with e | e
    · exact good_specFrom _ _ hm t e
    · exact good_finish _ t e

/-- the memory section, followed by anything: the reader enters the memory section and the bytes read are exactly the
    memory (sorted, addresses below 2^64, byte values) -/
theorem memory_readLines (m : Mem) (h : SortedFrom 0 m) (hv : ∀ kv ∈ m, kv.2 < 256) (p : Parsed) (hob : p.openBank = false)
    (rest : List Char) :
    readLines p ((Dump.memory m).toList ++ rest) = readLines { p with bytes := p.bytes ++ m, inMemory := true } rest := by
  have hg : ∀ t ∈ memToks m, MGood t := by
    rw [memToks_spec m h.sorted]
    exact good_specToks m (fun kv hkv => ⟨sortedFrom_keys m 0 h kv hkv, hv kv hkv⟩)
  unfold memory
  rw [String.toList_append, memHeader_toList, join_mtext_toList, List.append_assoc, List.append_assoc,
    show ['\n'] ++ ((memToks m).flatMap MTok.chars ++ rest) = '\n' :: ((memToks m).flatMap MTok.chars ++ rest) from rfl,
    readLines_line _ _ _ nn_memHeaderLine, parseLine_memHeader p hob,
    readLines_rows _ (memToks m) (Nat.le_refl _) (rows_memToks m h.sorted) hg _ rest 0 (by exact hob) rfl,
    read_memToks m h.sorted 0]

/-- **the memory section can be read back, character by character**: for every sorted memory of bytes (what the
    simulator can be in, `C16_memory_reachable`), reading the text of `dump_memory_y86` gives exactly the memory --
    every used byte at its own address and nothing else -- and every line passes the frame test -/
theorem memory_readback (m : Mem) (h : SortedFrom 0 m) (hv : ∀ kv ∈ m, kv.2 < 256) :
    (parse (Dump.memory m)).bytes = m ∧ (parse (Dump.memory m)).framed = true ∧ (parse (Dump.memory m)).inMemory = true := by
  have := memory_readLines m h hv {} rfl []
  rw [List.append_nil, readLines_nil] at this
  rw [parse_eq, this]
  exact ⟨List.nil_append m, rfl, rfl⟩

/-! ### the three sections together -/

/-- what the reader records for a bank -/
def bankEntry (vals : AMap WireValue) (b : RegisterBank) : String × Char × List (String × Nat) :=
  (b.label, statusChar vals b, b.signals.map fun sg => (regNameOf sg.1, bitsOf vals sg.2.1))

/-- label and register names are identifiers, values fit 128 bits -/
def GoodBank (vals : AMap WireValue) (b : RegisterBank) : Prop :=
  (∀ c ∈ b.label.toList, c ≠ ' ' ∧ c ≠ '(' ∧ c ≠ '\n') ∧
  (∀ sg ∈ b.signals, ∀ c ∈ (regNameOf sg.1).toList, c ≠ ' ' ∧ c ≠ '=' ∧ c ≠ '\n') ∧
  (∀ sg ∈ b.signals, bitsOf vals sg.2.1 < 2 ^ 128)

theorem parsed_banks_nil (p : Parsed) : { p with banks := p.banks ++ [] } = p := by
  cases p; simp

/-- several banks one after the other: one group each, in the order printed -/
theorem banks_readLines (vals : AMap WireValue) : ∀ (bs : List RegisterBank), (∀ b ∈ bs, GoodBank vals b) →
    ∀ (p : Parsed), p.openBank = false → ∀ rest : List Char,
    readLines p ((String.join (bs.map (bank vals))).toList ++ rest) =
      readLines { p with banks := p.banks ++ bs.map (bankEntry vals) } rest
  | [], _, p, _, rest => by
    rw [List.map_nil, String.join_nil, List.map_nil, parsed_banks_nil]
    rfl
  | b :: bs, hg, p, hob, rest => by
    obtain ⟨h1, h2, h3⟩ := hg b (List.mem_cons_self ..)
    rw [List.map_cons, String.join_cons, String.toList_append, List.append_assoc, bank_readback vals b p hob h1 h2 h3,
      banks_readLines vals bs (fun b' hb' => hg b' (List.mem_cons_of_mem _ hb')) _ (by exact hob) rest]
    simp only [List.map_cons, List.append_assoc, List.cons_append, List.nil_append]
    rfl

/-- **registers, banks and memory of a dump, read in sequence**: the fifteen program registers, one group per printed
    bank, and the memory, each recovered exactly; the reader ends in the memory section, outside a group, and every line
    has passed the frame test -/
theorem sections_readLines (r : List Nat) (hr : ∀ i, i < 15 → r.getD i 0 < 2 ^ 64) (vals : AMap WireValue)
    (banks : List RegisterBank) (hb : ∀ b ∈ printedBanks banks, GoodBank vals b)
    (m : Mem) (hm : SortedFrom 0 m) (hv : ∀ kv ∈ m, kv.2 < 256)
    (p : Parsed) (hob : p.openBank = false) (him : p.inMemory = false) (rest : List Char) :
    readLines p ((programRegisters r ++ customRegisters vals banks ++ memory m).toList ++ rest) =
      readLines { p with
        regs := p.regs ++
          [("RAX", r.getD 0 0), ("RCX", r.getD 1 0), ("RDX", r.getD 2 0), ("RBX", r.getD 3 0), ("RSP", r.getD 4 0), ("RBP", r.getD 5 0),
           ("RSI", r.getD 6 0), ("RDI", r.getD 7 0), ("R8", r.getD 8 0), ("R9", r.getD 9 0), ("R10", r.getD 10 0), ("R11", r.getD 11 0),
           ("R12", r.getD 12 0), ("R13", r.getD 13 0), ("R14", r.getD 14 0)],
        banks := p.banks ++ (printedBanks banks).map (bankEntry vals),
        bytes := p.bytes ++ m, inMemory := true } rest := by
  rw [String.toList_append, String.toList_append, List.append_assoc, List.append_assoc,
    programRegisters_readLines r hr p hob him]
  unfold customRegisters
  rw [banks_readLines vals _ hb _ (by exact hob), memory_readLines m hm hv _ (by exact hob)]

end Dump

#print axioms Dump.programRegisters_readback
#print axioms Dump.programRegisters_readLines
#print axioms Dump.toks_readback
#print axioms Dump.bank_readback
#print axioms Dump.bank_parse
#print axioms Dump.readLines_rows
#print axioms Dump.memory_readLines
#print axioms Dump.memory_readback
#print axioms Dump.sections_readLines
