import Hcl.Proofs.CompleteIff
open Rust

/-! A dependency loop is **reported as a loop**: when a loop is the only thing wrong with the constants, with the
    assignments and built-in components, or with a whole program, the rejection consists of exactly one loop report, and
    the names it lists form a cycle of the dependency relation.  (The other direction, that a loop report names a real
    cycle, is `Program_new_nl` / `C10_reported_loop_real`.) -/

/-! ### constants -/

/-- a cycle among the constants' definitions is reported, as the only diagnostic -/
theorem resolveConstants_cycle_reported (fl : Flags) (o : Orders) (exprs : AMap Ex) (ho : OrdersOK o)
    (hk : exprs.keys.Nodup) (hrefs : ∀ p ∈ exprs, ∀ r ∈ refs p.2, exprs.contains r = true)
    (hcyc : ∃ cy, RelCycle (ConstDep exprs) cy) :
    ∃ c, resolveConstants fl o exprs = .error [⟨.WireLoop, c⟩] ∧ RelCycle (ConstDep exprs) c := by
  obtain ⟨_, f2, f3⟩ := constGraph_facts o exprs ho hk hrefs
  unfold resolveConstants
  cases hs : (constGraph exprs).sort o with
  | ok order => exact absurd hcyc ((constGraph_sort_ok_iff o exprs ho hk hrefs).mp ⟨order, hs⟩)
  | cycle c => exact ⟨c, rfl, f2 c hs⟩
  | panic => exact absurd hs f3

/-! ### assignments and built-in components -/

/-- a cycle among the assignments and the built-in components is reported, as the only diagnostic, when the
    preprocessing of the components has nothing to report -/
theorem assignmentsToActions_cycle_reported (fl : Flags) (o : Orders) (assignments : AMap Ex) (widths : AMap Width)
    (known : List String) (fixed : List FixedFunction) (declared : List String) (constants : AMap WireValue)
    (ho : OrdersOK o) (ht : FixedTableOK fixed) (hk : assignments.keys.Nodup)
    -- the table of components: no input is also an output
    (hio : ∀ f ∈ fixed, ∀ g ∈ fixed, ∀ w, g.outWire = some w → w.1 ∉ f.inWires.map (·.1))
    -- component names are not known names (constants / register outputs) and component outputs are not assigned
    (hin : ∀ f ∈ fixed, ∀ n ∈ f.inWires.map (·.1), known.contains n = false)
    (hout : ∀ f ∈ fixed, ∀ n w, f.outWire = some (n, w) → known.contains n = false ∧ assignments.contains n = false)
    -- mandatory components have all their inputs
    (hmand : ∀ f ∈ fixed, f.mandatory = true → Active assignments f)
    -- a component with an output that lacks an input is not used: nothing reads its output
    (hunused : ∀ f ∈ fixed, ¬ Active assignments f → ∀ n w, f.outWire = some (n, w) → ∀ p ∈ assignments, n ∉ refs p.2)
    -- a component that has some but not all of its inputs has an enable input that is assigned a checked expression
    -- evaluating to 0
    (hpartial : ∀ f ∈ fixed, ¬ Active assignments f → (∃ i ∈ f.inWires.map (·.1), assignments.contains i = true) →
        ∃ en expr v, f.disabledIfFalse = some en ∧ assignments.get? en = some expr ∧
          (∃ ew, check fl widths.toCtx constants.toEnv expr = .ok ew) ∧
          ev fl constants.toEnv (fixMux fl widths.toCtx constants.toEnv expr) = .ok v ∧ v.bits = 0)
    -- known names (constants, register outputs) are not assigned
    (hka : ∀ n, known.contains n = true → assignments.contains n = false)
    (hcyc : ∃ c, RelCycle (ActDep assignments fixed) c) :
    ∃ c, assignmentsToActions fl o assignments widths known fixed declared constants = .error [⟨.WireLoop, c⟩] ∧
      RelCycle (ActDep assignments fixed) c := by
  unfold assignmentsToActions
  simp only
  obtain ⟨g0wf, g0nodes, g0edges⟩ := assignGraph_spec assignments known hk
  have g0up := assignGraph_nodes_upper assignments known
  generalize hg0 : assignGraph assignments known = g0 at g0wf g0nodes g0edges g0up ⊢
  have hinv0 : PreInv assignments g0 [] ({ graph := g0 } : PreState) :=
    ⟨rfl, fun n hn => Or.inl hn, by intro f hf; simp at hf⟩
  have hinv := preprocess_fold_inv fl widths constants assignments known fixed ht g0 g0up hio hin hout hmand hunused
    hpartial fixed [] _ (by simp) hinv0
  have hg0c : ∀ e ∈ g0.edges, assignments.contains e.2 = true := by
    intro e he
    obtain ⟨ex, hm, _⟩ := (g0edges e.1 e.2).mp he
    exact (AMap.contains_iff_mem_keys _ _).mpr (List.mem_map.mpr ⟨(e.2, ex), hm, rfl⟩)
  have hinit : PreFacts assignments known g0 [] ({ graph := g0 } : PreState) :=
    { noOut := by intro f hf; simp at hf
      byKeys := by simp [AMap.keys]
      byOut := by intro n f hf; simp at hf
      wf := g0wf
      nodes := fun n hn => hn
      edges := fun e he => Or.inl he
      noOutSub := List.Sublist.refl _
      edgesG0 := fun e he => he
      edgesFixed := by intro n f hf; simp at hf }
  have hpf := preprocess_fold_facts fl widths constants assignments known fixed ht g0 hg0c fixed [] _ (by simp) hinit
    hinv.errs
  have hconv := ActIff.preprocess_fold_conv fl widths constants assignments known fixed ht g0 hg0c fixed [] _ (by simp) hinit
    (by intro g hg; simp at hg) (by intro g hg; simp at hg) hinv.errs
  generalize hpre : fixed.foldl (preprocessOne fl widths constants assignments known) { graph := g0 } = pre at hinv hpf hconv ⊢
  have hpe' : pre.errors = [] := hinv.errs
  obtain ⟨hcomp, _⟩ := hconv
  simp only [hpe', List.isEmpty_nil, Bool.not_true, Bool.false_eq_true, if_false]
  rcases pre.graph.sort_spec o hpf.wf ho with ⟨order, hso, _, hcover, hordered⟩ | ⟨c, hsc, hcy⟩
  · -- an order that respects every edge of the graph excludes the cycle
    exfalso
    obtain ⟨c, hc⟩ := hcyc
    apply ActIff.no_relCycle_of_order (fun u v => (u, v) ∈ pre.graph.edges) order
      (fun u v huv => (hcover v).mpr (hpf.wf.closed _ huv).2)
      (fun pfx x post hs u hu => hordered pfx x post hs u hu)
    refine ⟨c, relCycle_mono ?_ c (ActIff.relCycle_onCyc c hc)⟩
    rintro u v ⟨huv, ⟨w, hwu⟩, ⟨x, hvx⟩⟩
    rcases huv with ⟨e, he, hr⟩ | ⟨f, hf, ⟨fw, hfo⟩, hu⟩
    · -- `u` has a definition or is driven by a component: it is not a known name
      have hkn : known.contains u = false := by
        rcases hwu with ⟨e', he', _⟩ | ⟨g, hg, ⟨gw, hgo⟩, _⟩
        · cases hku : known.contains u with
          | false => rfl
          | true =>
            have h1 := hka u hku
            have h2 : assignments.contains u = true :=
              (AMap.contains_iff_mem_keys _ _).mpr (List.mem_map.mpr ⟨(u, e'), he', rfl⟩)
            rw [h1] at h2; cases h2
        · exact (hout g hg u gw hgo).1
      exact hpf.edgesG0 _ ((g0edges u v).mpr ⟨e, he, hr, hkn⟩)
    · by_cases hact : Active assignments f
      · have hget := hcomp f hf hact v fw hfo
        exact hpf.edgesFixed v f (AMap.mem_of_get? _ _ _ hget) u hu
      · -- the output of an incomplete component is read by nothing, and is no component's input
        exfalso
        rcases hvx with ⟨e', he', hr'⟩ | ⟨g, hg, ⟨gw, hgo⟩, hv⟩
        · exact hunused f hf hact v fw hfo (x, e') he' hr'
        · exact hio g hg f hf (v, fw) hfo hv
  · rw [hsc]
    refine ⟨c, rfl, ?_⟩
    apply relCycle_mono _ c (pre.graph.cycle_edges o ho c hcy)
    intro u v huv
    rcases hpf.edges (u, v) huv with h1 | ⟨f, hf, hi⟩
    · obtain ⟨e, he, hr, _⟩ := (g0edges u v).mp h1
      exact Or.inl ⟨e, he, hr⟩
    · obtain ⟨hfd, hw, _⟩ := hpf.byOut v f hf
      exact Or.inr ⟨f, hfd, hw, hi⟩

/-! ### the whole constructor -/

/-- assembly: the first stage has nothing to report and the constants are rejected ⇒ the program is rejected with the
    diagnostics of the constants -/
theorem Program_new_error_of_consts (fl : Flags) (cls : CharClass) (o : Orders) (stmts : List Stmt) (ds : List Diag)
    (h1 : errs1Of (step1Of stmts) = [])
    (h2 : resolveConstants fl o (step1Of stmts).constantsRaw = .error ds) :
    Program.new fl cls o y86FixedFunctions stmts = .error ds := by
  unfold Program.new
  simp only
  generalize hs1 : List.foldl (step1Stmt _ _) (step1Init y86FixedFunctions) stmts = s1'
  have hs1' : s1' = step1Of stmts := hs1.symm
  subst hs1'
  clear hs1
  generalize step1Of stmts = s1 at *
  have h1' : (s1.errors ++ (s1.assigned.flatMap fun n => if s1.constantsRaw.contains n then [(⟨.AssignedConstant, [n]⟩ : Diag)] else []) ++
    constRefErrors s1) = [] := h1
  rw [h1']
  simp only [List.isEmpty_nil, Bool.not_true, Bool.false_eq_true, if_false]
  rw [h2]

/-- assembly: stages 1 to 4 have nothing to report and `assignments_to_actions` rejects ⇒ the program is rejected with
    the diagnostics of `assignments_to_actions` -/
theorem Program_new_error_of_actions (fl : Flags) (cls : CharClass) (o : Orders) (stmts : List Stmt) (ho : OrdersOK o)
    (constants : AMap WireValue) (ds : List Diag)
    (h1 : errs1Of (step1Of stmts) = [])
    (hrefs : ∀ p ∈ (step1Of stmts).constantsRaw, ∀ r ∈ refs p.2, (step1Of stmts).constantsRaw.contains r = true)
    (hwf : StmtsWF stmts)
    (h2 : resolveConstants fl o (step1Of stmts).constantsRaw = .ok constants)
    (h3 : (step3Of fl cls (step1Of stmts) constants).errors = [])
    (h4 : ∀ n ∈ neededOf (step1Of stmts) (step3Of fl cls (step1Of stmts) constants), (step1Of stmts).assignments.contains n = true)
    (h5 : assignmentsToActions fl o (step1Of stmts).assignments
        (finalWires (step1Of stmts) constants (step3Of fl cls (step1Of stmts) constants))
        (knownOf (step1Of stmts) constants (step3Of fl cls (step1Of stmts) constants)) y86FixedFunctions
        (step1Of stmts).declared constants = .error ds) :
    Program.new fl cls o y86FixedFunctions stmts = .error ds := by
  unfold Program.new
  simp only
  obtain ⟨s1inv, _⟩ := step1_fold_inv (fixedNamesOf y86FixedFunctions)
    (y86FixedFunctions.filterMap fun f => f.outWire.map (·.1)) y86W0 stmts (step1Init y86FixedFunctions) hwf step1Init_inv
  have hs1i : S1Inv (fixedNamesOf y86FixedFunctions) y86W0 (step1Of stmts) := s1inv
  generalize hs1 : List.foldl (step1Stmt _ _) (step1Init y86FixedFunctions) stmts = s1'
  have hs1' : s1' = step1Of stmts := hs1.symm
  subst hs1'
  clear hs1 s1inv
  generalize step1Of stmts = s1 at *
  have h1' : (s1.errors ++ (s1.assigned.flatMap fun n => if s1.constantsRaw.contains n then [(⟨.AssignedConstant, [n]⟩ : Diag)] else []) ++
    constRefErrors s1) = [] := h1
  rw [h1']
  simp only [List.isEmpty_nil, Bool.not_true, Bool.false_eq_true, if_false]
  rw [h2]
  simp only
  have hs3 : List.foldl (step3Bank fl cls s1 constants) { wireTypes := s1.wireTypes } s1.banksRaw = step3Of fl cls s1 constants := rfl
  rw [hs3]
  generalize step3Of fl cls s1 constants = s3 at *
  have he4 : ((List.foldl setInsert s1.needed (bankIns s3.banks)).flatMap fun n =>
      if s1.assignments.contains n then ([] : List Diag) else
      if s1.declared.contains n then [⟨.UnsetWire, [n]⟩]
      else if s3.registerIns.contains n then [⟨.UnsetRegisterInputWire, [n]⟩]
      else [⟨.UnsetBuiltinWire, [n]⟩]) = [] := by
    rw [List.flatMap_eq_nil_iff]
    intro n hn
    rw [if_pos (h4 n hn)]
  rw [he4, h3]
  simp only [List.append_nil, List.isEmpty_nil, Bool.not_true, Bool.false_eq_true, if_false]
  have hmiss : (s1.constantsRaw.keys.any fun k => !constants.contains k) = false := by
    rw [List.any_eq_false]
    intro k hk
    have := (resolveConstants_np fl o s1.constantsRaw ho hs1i.cKeys hs1i.cWf hrefs).2 constants h2 k hk
    simp [this]
  rw [hmiss]
  simp only [Bool.false_eq_true, if_false]
  have hW : insertAll (insertAll s1.wires (bankPairs s3.banks)) (constPairs s1.constantsRaw.keys constants) =
      finalWires s1 constants s3 := rfl
  have hK : ((constPairs s1.constantsRaw.keys constants).map (·.1)).foldl setInsert ((bankOuts s3.banks).foldl setInsert []) =
      knownOf s1 constants s3 := rfl
  rw [hW, hK, h5]

/-- **a loop among the constants is reported**: if the names of a program are in order (no name declared twice or
    colliding with a built-in name, no name assigned twice, no built-in output or constant assigned, constants read only
    constants) and some constant depends on itself, `Program::new` rejects the program with exactly one diagnostic, a loop
    report, and the names it lists form a cycle of the program's dependency relation -/
theorem Program_new_loop_reported (fl : Flags) (cls : CharClass) (o : Orders) (stmts : List Stmt) (ho : OrdersOK o)
    (hwf : StmtsWF stmts)
    -- stage 1 has nothing to report:
    (hgate : (allDeclared stmts).Nodup ∧ (∀ n ∈ allDeclared stmts, n ∉ fixedNamesOf y86FixedFunctions) ∧
       (allTargets stmts).Nodup ∧ (∀ n ∈ allTargets stmts, n ∉ y86FixedFunctions.filterMap fun f => f.outWire.map (·.1)) ∧
       (∀ n ∈ allTargets stmts, (step1Of stmts).constantsRaw.contains n = false) ∧
       (∀ p ∈ (step1Of stmts).constantsRaw, ∀ r ∈ refs p.2, (step1Of stmts).constantsRaw.contains r = true))
    (hcyc : ∃ cy, RelCycle (ConstDep (step1Of stmts).constantsRaw) cy) :
    ∃ c, Program.new fl cls o y86FixedFunctions stmts = .error [⟨.WireLoop, c⟩] ∧ RelCycle (DependsOn stmts) c := by
  obtain ⟨s1inv, _⟩ := step1_fold_inv (fixedNamesOf y86FixedFunctions)
    (y86FixedFunctions.filterMap fun f => f.outWire.map (·.1)) y86W0 stmts (step1Init y86FixedFunctions) hwf step1Init_inv
  have hs1i : S1Inv (fixedNamesOf y86FixedFunctions) y86W0 (step1Of stmts) := s1inv
  have h1 : errs1Of (step1Of stmts) = [] := (step1_gate_nil_iff stmts).mpr hgate
  obtain ⟨c, hc, hcy⟩ := resolveConstants_cycle_reported fl o (step1Of stmts).constantsRaw ho hs1i.cKeys hgate.2.2.2.2.2 hcyc
  refine ⟨c, Program_new_error_of_consts fl cls o stmts _ h1 hc, relCycle_mono ?_ c hcy⟩
  intro u v huv
  exact Or.inl huv

/-- **a loop among the wires is reported**: if stages 1 to 4 of `Program::new` have nothing to report (the names are in
    order, the constants resolve, the register banks are well-formed, every wire that needs a value is assigned), the
    built-in components are used in an orderly way (`mand`, `unused`, `partialOff` of `ActionsOK`) and some wire depends
    on itself through assignments and built-in components, then the program is rejected with exactly one diagnostic, a
    loop report, and the names it lists form a cycle of the program's dependency relation -/
theorem Program_new_wire_loop_reported (fl : Flags) (cls : CharClass) (o : Orders) (stmts : List Stmt) (ho : OrdersOK o)
    (hwf : StmtsWF stmts) (constants : AMap WireValue)
    (hgate : (allDeclared stmts).Nodup ∧ (∀ n ∈ allDeclared stmts, n ∉ fixedNamesOf y86FixedFunctions) ∧
       (allTargets stmts).Nodup ∧ (∀ n ∈ allTargets stmts, n ∉ y86FixedFunctions.filterMap fun f => f.outWire.map (·.1)) ∧
       (∀ n ∈ allTargets stmts, (step1Of stmts).constantsRaw.contains n = false) ∧
       (∀ p ∈ (step1Of stmts).constantsRaw, ∀ r ∈ refs p.2, (step1Of stmts).constantsRaw.contains r = true))
    (hconsts : resolveConstants fl o (step1Of stmts).constantsRaw = .ok constants)
    (hbanks : (∀ b ∈ (step1Of stmts).banksRaw, BankDeclOK fl cls (step1Of stmts) constants b) ∧
       (allRegNames (step1Of stmts).banksRaw).Nodup)
    (hneeded : ∀ n ∈ neededOf (step1Of stmts) (step3Of fl cls (step1Of stmts) constants), n ∈ allTargets stmts)
    (hmand : ∀ f ∈ y86FixedFunctions, f.mandatory = true → Active (step1Of stmts).assignments f)
    (hunused : ∀ f ∈ y86FixedFunctions, ¬ Active (step1Of stmts).assignments f → ∀ n w, f.outWire = some (n, w) →
      ∀ p ∈ (step1Of stmts).assignments, n ∉ refs p.2)
    (hpartial : ∀ f ∈ y86FixedFunctions, ¬ Active (step1Of stmts).assignments f →
      (∃ i ∈ f.inWires.map (·.1), (step1Of stmts).assignments.contains i = true) →
        ∃ en expr v, f.disabledIfFalse = some en ∧ (step1Of stmts).assignments.get? en = some expr ∧
          (∃ ew, check fl (finalWires (step1Of stmts) constants (step3Of fl cls (step1Of stmts) constants)).toCtx constants.toEnv expr = .ok ew) ∧
          ev fl constants.toEnv (fixMux fl (finalWires (step1Of stmts) constants (step3Of fl cls (step1Of stmts) constants)).toCtx
            constants.toEnv expr) = .ok v ∧ v.bits = 0)
    (hcyc : ∃ cy, RelCycle (ActDep (step1Of stmts).assignments y86FixedFunctions) cy) :
    ∃ c, Program.new fl cls o y86FixedFunctions stmts = .error [⟨.WireLoop, c⟩] ∧ RelCycle (DependsOn stmts) c := by
  obtain ⟨hdecl, hdeclB, htgt, htgtB, htgtC, hcrefs⟩ := hgate
  obtain ⟨s1inv, _⟩ := step1_fold_inv (fixedNamesOf y86FixedFunctions)
    (y86FixedFunctions.filterMap fun f => f.outWire.map (·.1)) y86W0 stmts (step1Init y86FixedFunctions) hwf step1Init_inv
  have hs1i : S1Inv (fixedNamesOf y86FixedFunctions) y86W0 (step1Of stmts) := s1inv
  have h1 : errs1Of (step1Of stmts) = [] := (step1_gate_nil_iff stmts).mpr ⟨hdecl, hdeclB, htgt, htgtB, htgtC, hcrefs⟩
  have hs1clean : (step1Of stmts).errors = [] := (step1Of_errors_nil_iff stmts).mpr ⟨hdecl, hdeclB, htgt, htgtB⟩
  have hw : ∀ b ∈ (step1Of stmts).banksRaw, ∀ r ∈ b.regs, r.width.ok := fun b hb r hr => (hs1i.banks b hb r hr).1
  have hs3clean := (step3Of_errors_nil_iff fl cls (step1Of stmts) constants hw).mpr hbanks
  have hcok := resolveConstants_constOK fl o (step1Of stmts).constantsRaw constants hs1i.cWf hconsts
  have hckeys := resolveConstants_keys fl o (step1Of stmts).constantsRaw constants hconsts
  have hs3f : S3Facts (step1Of stmts).declared (fun n => (step1Of stmts).assignments.contains n = false)
      (step3Of fl cls (step1Of stmts) constants) {} :=
    step3_facts fl cls (step1Of stmts) constants hw hs3clean
  have hyp : TablesHyp (fixedNamesOf y86FixedFunctions) y86W0 (step1Of stmts) constants (step3Of fl cls (step1Of stmts) constants) :=
    { s1inv := hs1i, s1clean := hs1clean, cok := hcok, ckeys := hckeys, s3f := hs3f
      fnShape := by
        intro n hn
        have a := List.all_eq_true.mp y86_names_not_sig n hn
        have b := List.all_eq_true.mp y86_names_not_ctl n hn
        exact ⟨by simpa using a, by simpa using b⟩ }
  have hknownmem : ∀ n, n ∈ knownOf (step1Of stmts) constants (step3Of fl cls (step1Of stmts) constants) →
      n ∈ bankOuts (step3Of fl cls (step1Of stmts) constants).banks ∨
      n ∈ (constPairs (step1Of stmts).constantsRaw.keys constants).map (·.1) := by
    intro n hn
    unfold knownOf at hn
    rw [mem_foldl_setInsert, mem_foldl_setInsert] at hn
    rcases hn with (h1 | h1) | h1
    · simp at h1
    · exact Or.inl h1
    · exact Or.inr h1
  have hfixedNotKnown : ∀ n ∈ fixedNamesOf y86FixedFunctions,
      (knownOf (step1Of stmts) constants (step3Of fl cls (step1Of stmts) constants)).contains n = false := by
    intro n hn
    by_cases hc : (knownOf (step1Of stmts) constants (step3Of fl cls (step1Of stmts) constants)).contains n = true
    · exfalso
      have hm : n ∈ knownOf (step1Of stmts) constants (step3Of fl cls (step1Of stmts) constants) := by simpa using hc
      rcases hknownmem n hm with h1 | h1
      · simp only [bankOuts, List.mem_flatMap, List.mem_map] at h1
        obtain ⟨b, hb, sg, hsg, rfl⟩ := h1
        have := isSigName_second ((hs3f.banks b hb).sigs.sig sg hsg).2.1
        rw [(hyp.fnShape _ hn).1] at this; cases this
      · obtain ⟨pr, hpr, rfl⟩ := List.mem_map.mp h1
        exact (constPairs_declared hyp pr hpr).2.1 hn
    · simpa using hc
  -- a known name (a register output or a constant) is not assigned
  have hka : ∀ n, (knownOf (step1Of stmts) constants (step3Of fl cls (step1Of stmts) constants)).contains n = true →
      (step1Of stmts).assignments.contains n = false := by
    intro n hn
    have hm : n ∈ knownOf (step1Of stmts) constants (step3Of fl cls (step1Of stmts) constants) := by simpa using hn
    by_cases hc : (step1Of stmts).assignments.contains n = true
    · exfalso
      rcases hknownmem n hm with h1 | h1
      · simp only [bankOuts, List.mem_flatMap, List.mem_map] at h1
        obtain ⟨b, hb, sg, hsg, rfl⟩ := h1
        have := hs3f.outsNA b hb sg hsg
        rw [hc] at this; cases this
      · obtain ⟨pr, hpr, rfl⟩ := List.mem_map.mp h1
        obtain ⟨v, hk, _, _⟩ := (mem_constPairs _ _ _).mp hpr
        have hcc : (step1Of stmts).constantsRaw.contains pr.1 = true := (AMap.contains_iff_mem_keys _ _).mpr hk
        have := htgtC pr.1 ((step1Of_assignments_contains_iff stmts pr.1).mp hc)
        rw [hcc] at this; cases this
    · simpa using hc
  obtain ⟨c, hc, hcy⟩ := assignmentsToActions_cycle_reported fl o (step1Of stmts).assignments
    (finalWires (step1Of stmts) constants (step3Of fl cls (step1Of stmts) constants))
    (knownOf (step1Of stmts) constants (step3Of fl cls (step1Of stmts) constants)) y86FixedFunctions
    (step1Of stmts).declared constants ho y86Fixed_table hs1i.aKeys y86_hio
    (by
      intro f hf n hn
      apply hfixedNotKnown
      unfold fixedNamesOf
      rw [mem_dedupS]
      exact List.mem_flatMap.mpr ⟨f, hf, List.mem_append_left _ hn⟩)
    (by
      intro f hf n w hout
      have hn : n ∈ fixedNamesOf y86FixedFunctions := by
        have := List.all_eq_true.mp y86_out_in_names f hf
        rw [hout] at this
        simpa using this
      refine ⟨hfixedNotKnown n hn, ?_⟩
      by_cases hc : (step1Of stmts).assignments.contains n = true
      · exfalso
        exact htgtB n ((step1Of_assignments_contains_iff stmts n).mp hc) (List.mem_filterMap.mpr ⟨f, hf, by simp [hout]⟩)
      · simpa using hc)
    hmand hunused hpartial hka hcyc
  refine ⟨c, Program_new_error_of_actions fl cls o stmts ho constants _ h1 hcrefs hwf hconsts hs3clean ?_ hc,
    relCycle_mono ?_ c hcy⟩
  · intro n hn
    exact (step1Of_assignments_contains_iff stmts n).mpr (hneeded n hn)
  · intro u v huv
    exact Or.inr huv

/-! ### the hypotheses are satisfiable -/

/-- two constants defined in terms of each other: the conditions of `resolveConstants_cycle_reported` hold -/
example (fl : Flags) (o : Orders) (ho : OrdersOK o) :
    ∃ c, resolveConstants fl o [("A", .wire "B"), ("B", .wire "A")] = .error [⟨.WireLoop, c⟩] ∧
      RelCycle (ConstDep [("A", .wire "B"), ("B", .wire "A")]) c := by
  apply resolveConstants_cycle_reported fl o _ ho (by decide)
  · intro p hp r hr
    simp only [List.mem_cons, List.not_mem_nil, or_false] at hp
    rcases hp with rfl | rfl <;> simp [refs] at hr <;> subst hr <;> decide
  · refine ⟨["A", "B"], ⟨⟨.wire "A", by simp, by simp [refs]⟩, trivial⟩, ⟨.wire "B", by simp, by simp [refs]⟩⟩

/-- a description that drives `Stat` and `pc`, switches the data memory read port off and defines two wires in terms of
    each other: the conditions of `assignmentsToActions_cycle_reported` hold -/
example (o : Orders) (ho : OrdersOK o) : ∃ c, assignmentsToActions {} o
    [("Stat", .const ⟨1, .bits 3⟩), ("pc", .const ⟨0, .bits 64⟩), ("mem_readbit", .const ⟨0, .bits 1⟩),
     ("x", .wire "y"), ("y", .wire "x")]
    [("Stat", .bits 3), ("pc", .bits 64), ("mem_readbit", .bits 1), ("i10bytes", .bits 80), ("x", .bits 8), ("y", .bits 8)]
    [] y86FixedFunctions ["x", "y"] [] = .error [⟨.WireLoop, c⟩] ∧
    RelCycle (ActDep [("Stat", .const ⟨1, .bits 3⟩), ("pc", .const ⟨0, .bits 64⟩), ("mem_readbit", .const ⟨0, .bits 1⟩),
     ("x", .wire "y"), ("y", .wire "x")] y86FixedFunctions) c := by
  apply assignmentsToActions_cycle_reported _ o _ _ _ _ _ _ ho y86Fixed_table (by decide) y86_hio
  · intro f _ n _; rfl
  · intro f hf n w ho
    refine ⟨rfl, ?_⟩
    simp only [y86FixedFunctions, List.mem_cons, List.not_mem_nil, or_false] at hf
    rcases hf with rfl | rfl | rfl | rfl | rfl | rfl | rfl | rfl <;> simp at ho <;> (obtain ⟨rfl, _⟩ := ho; decide)
  · intro f hf hm
    simp only [y86FixedFunctions, List.mem_cons, List.not_mem_nil, or_false] at hf
    rcases hf with rfl | rfl | rfl | rfl | rfl | rfl | rfl | rfl <;> simp at hm <;> (unfold Active; decide)
  · intro f hf hna n w ho p hp
    simp only [y86FixedFunctions, List.mem_cons, List.not_mem_nil, or_false] at hf
    rcases hf with rfl | rfl | rfl | rfl | rfl | rfl | rfl | rfl <;> simp at ho
    · exact absurd (by unfold Active; decide) hna
    all_goals
      obtain ⟨rfl, _⟩ := ho
      simp only [List.mem_cons, List.not_mem_nil, or_false] at hp
      rcases hp with rfl | rfl | rfl | rfl | rfl <;> simp [refs]
  · intro f hf hna hsome
    simp only [y86FixedFunctions, List.mem_cons, List.not_mem_nil, or_false] at hf
    rcases hf with rfl | rfl | rfl | rfl | rfl | rfl | rfl | rfl
    · exact absurd (by unfold Active; decide) hna
    · exact absurd (by unfold Active; decide) hna
    · exact ⟨"mem_readbit", .const ⟨0, .bits 1⟩, ⟨0, .bits 1⟩, rfl, rfl, ⟨.bits 1, by simp [check, pure, Except.pure]⟩,
        by simp [fixMux, ev, pure, Except.pure], rfl⟩
    all_goals
      exfalso
      obtain ⟨i, hi, hc⟩ := hsome
      simp at hi
      revert hc
      first
        | (rcases hi with rfl | rfl | rfl <;> decide)
        | (rcases hi with rfl | rfl <;> decide)
        | (subst hi; decide)
  · intro n hn; simp at hn
  · refine ⟨["x", "y"], ⟨Or.inl ⟨.wire "x", by simp, by simp [refs]⟩, trivial⟩, Or.inl ⟨.wire "y", by simp, by simp [refs]⟩⟩

#print axioms resolveConstants_cycle_reported
#print axioms assignmentsToActions_cycle_reported
#print axioms Program_new_loop_reported
#print axioms Program_new_wire_loop_reported
