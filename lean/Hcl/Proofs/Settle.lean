import Hcl.Proofs.StepSound
open Rust

/-! Settlement: executing the scheduled actions in order leaves every written wire equal to its
    definition evaluated in the *final* valuation of the cycle (the start-of-cycle registers and
    memory being what the read ports see). -/

/-! ### evaluation only depends on the referenced wires -/

def agreeOn (l : List String) (σ τ : Env) : Prop := ∀ x ∈ l, σ x = τ x

theorem agreeOn_left {a b : List String} {σ τ : Env} (h : agreeOn (a ++ b) σ τ) : agreeOn a σ τ :=
  fun x hx => h x (List.mem_append_left _ hx)
theorem agreeOn_right {a b : List String} {σ τ : Env} (h : agreeOn (a ++ b) σ τ) : agreeOn b σ τ :=
  fun x hx => h x (List.mem_append_right _ hx)

mutual
theorem ev_congr (fl : Flags) (σ τ : Env) : ∀ (e : Ex), agreeOn (refs e) σ τ → ev fl σ e = ev fl τ e
  | .const _, _ => by simp [ev]
  | .bin op l r, h => by
      simp only [refs] at h
      simp only [ev, ev_congr fl σ τ l (agreeOn_left h), ev_congr fl σ τ r (agreeOn_right h)]
  | .un op e, h => by
      simp only [refs] at h
      simp only [ev, ev_congr fl σ τ e h]
  | .wire n, h => by
      simp only [refs] at h
      simp only [ev, h n (by simp)]
  | .slice e lo hi, h => by
      simp only [refs] at h
      simp only [ev, ev_congr fl σ τ e h]
  | .concat l r, h => by
      simp only [refs] at h
      simp only [ev, ev_congr fl σ τ l (agreeOn_left h), ev_congr fl σ τ r (agreeOn_right h)]
  | .mux o, h => by
      simp only [refs] at h
      simp only [ev, evMux_congr fl σ τ o h]
  | .inSet e items, h => by
      simp only [refs] at h
      simp only [ev, ev_congr fl σ τ e (agreeOn_left h)]
      congr 1; funext a
      exact evIn_congr fl σ τ a.bits items (agreeOn_right h)
theorem evMux_congr (fl : Flags) (σ τ : Env) : ∀ (o : Opts), agreeOn (refsOpts o) σ τ → evMux fl σ o = evMux fl τ o
  | .nil, _ => by simp [evMux]
  | .cons c v rest, h => by
      simp only [refsOpts] at h
      simp only [evMux, ev_congr fl σ τ c (agreeOn_left (agreeOn_left h)),
        ev_congr fl σ τ v (agreeOn_right (agreeOn_left h)), evMux_congr fl σ τ rest (agreeOn_right h)]
theorem evIn_congr (fl : Flags) (σ τ : Env) (x : Nat) : ∀ (items : Exs), agreeOn (refsExs items) σ τ → evIn fl σ x items = evIn fl τ x items
  | .nil, _ => by simp [evIn]
  | .cons e rest, h => by
      simp only [refsExs] at h
      simp only [evIn, ev_congr fl σ τ e (agreeOn_left h), evIn_congr fl σ τ x rest (agreeOn_right h)]
end

/-! ### the definition of what a value-writing action computes -/

def lookupOrPanic (σ : Env) (n : String) : E WireValue :=
  match σ n with
  | some v => pure v
  | none => throw (.fail (.panic ("unwrap on missing wire " ++ n)))

/-- the value an action gives the wire it writes, as a function of the valuation `σ`; the register
    file and memory are those of the start of the cycle -/
def Action.defn (fl : Flags) (regs : List Nat) (mem : Mem) (σ : Env) : Action → E WireValue
  | .assign _ e w => do
      let v ← ev fl σ e
      asWidth v w
  | .readReg number _ => do
      let n ← lookupOrPanic σ number
      let idx := n.bits % U64
      pure ⟨if idx < regs.length then regs.getD idx 0 else 0, .bits 64⟩
  | .readMem isRead address _ bytes _ => do
      let doRead ← match isRead with
        | none => pure true
        | some wire => do let v ← lookupOrPanic σ wire; pure (decide (v.bits > 0))
      if doRead then do
        let a ← lookupOrPanic σ address
        pure ⟨mem.read (a.bits % U64) bytes, .bits (bytes * 8)⟩
      else asWidth ⟨0, .unlimited⟩ (.bits (bytes * 8))
  | _ => throw (.fail (.panic "not a value-writing action"))

def Action.isPure : Action → Bool
  | .assign .. => true
  | .readReg .. => true
  | .readMem .. => true
  | _ => false

def Action.out : Action → String
  | .assign n _ _ => n
  | .readReg _ out => out
  | .readMem _ _ out _ _ => out
  | _ => ""

theorem getOrPanic_eq (vals : AMap WireValue) (n : String) : getOrPanic vals n = lookupOrPanic vals.toEnv n := rfl

/-- a value-writing action stores its definition's value and touches nothing else -/
theorem execAction_pure (fl : Flags) (s : State) (a : Action) (hp : a.isPure = true) :
    execAction fl s a = (do
      let v ← a.defn fl s.regs s.mem s.values.toEnv
      pure { s with values := s.values.insert a.out v }) := by
  cases a with
  | assign n e w =>
    simp only [execAction, Action.defn, Action.out, bind, Except.bind]
    cases ev fl s.values.toEnv e <;> simp [pure, Except.pure]
  | readReg number out =>
    simp only [execAction, Action.defn, Action.out, bind, Except.bind, getOrPanic_eq]
    cases lookupOrPanic s.values.toEnv number <;> simp [pure, Except.pure]
  | readMem isRead address out bytes isInstr =>
    simp only [execAction, Action.defn, Action.out, bind, Except.bind, getOrPanic_eq]
    cases isRead with
    | none =>
      simp only [pure, Except.pure, ↓reduceIte]
      cases lookupOrPanic s.values.toEnv address <;> simp
    | some r =>
      simp only
      cases lookupOrPanic s.values.toEnv r with
      | error e => simp
      | ok rv =>
        simp only [pure, Except.pure]
        by_cases hr : rv.bits > 0
        · simp only [hr, decide_true, ↓reduceIte]
          cases lookupOrPanic s.values.toEnv address <;> simp
        · simp only [hr, decide_false, Bool.false_eq_true, ↓reduceIte]
  | writeReg _ _ => simp [Action.isPure] at hp
  | writeMem _ _ _ _ => simp [Action.isPure] at hp
  | setStatus _ => simp [Action.isPure] at hp

theorem lookupOrPanic_congr {σ τ : Env} {n : String} (h : σ n = τ n) : lookupOrPanic σ n = lookupOrPanic τ n := by
  simp [lookupOrPanic, h]

/-- the definition only looks at the wires the action reads -/
theorem defn_local (fl : Flags) (regs : List Nat) (mem : Mem) (a : Action) (σ τ : Env)
    (h : agreeOn a.reads σ τ) : a.defn fl regs mem σ = a.defn fl regs mem τ := by
  cases a with
  | assign n e w => simp only [Action.defn, ev_congr fl σ τ e (by simpa [Action.reads] using h)]
  | readReg number out =>
    simp only [Action.defn, lookupOrPanic_congr (h number (by simp [Action.reads]))]
  | readMem isRead address out bytes isInstr =>
    cases isRead with
    | none => simp only [Action.defn, lookupOrPanic_congr (h address (by simp [Action.reads]))]
    | some r =>
      simp only [Action.defn, lookupOrPanic_congr (h address (by simp [Action.reads])),
        lookupOrPanic_congr (h r (by simp [Action.reads]))]
  | writeReg _ _ => rfl
  | writeMem _ _ _ _ => rfl
  | setStatus _ => rfl

/-! ### schedules -/

/-- schedule validity for settlement: relative to the names `before` already written in this cycle,
    an action's output is written by nobody else, and the wires it reads are not written by itself
    or any later action -/
def ValidFrom (before : List String) : List Action → Prop
  | [] => True
  | a :: rest =>
      a.isPure = true ∧ a.out ∉ before ∧ a.out ∉ rest.map Action.out ∧
      (∀ x ∈ a.reads, x ∉ (a :: rest).map Action.out) ∧
      ValidFrom (a.out :: before) rest

theorem validFrom_pure : ∀ (acts : List Action) (before : List String), ValidFrom before acts →
    ∀ a ∈ acts, a.isPure = true
  | [], _, _, a, ha => by simp at ha
  | c :: r, before, hv, a, ha => by
    rcases List.mem_cons.mp ha with rfl | ha
    · exact hv.1
    · exact validFrom_pure r _ hv.2.2.2.2 a ha

theorem execPure_stable (fl : Flags) : ∀ (acts : List Action) (s t : State) (x : String),
    (∀ a ∈ acts, a.isPure = true) → execActions fl acts s = .ok t → x ∉ acts.map Action.out →
    t.values.toEnv x = s.values.toEnv x ∧ t.regs = s.regs ∧ t.mem = s.mem := by
  intro acts
  induction acts with
  | nil => intro s t x _ h _; simp [execActions, pure, Except.pure] at h; subst h; exact ⟨rfl, rfl, rfl⟩
  | cons a rest ih =>
    intro s t x hp h hx
    simp only [execActions, bind, Except.bind] at h
    rw [execAction_pure fl s a (hp a (by simp))] at h
    simp only [bind, Except.bind] at h
    cases hv : a.defn fl s.regs s.mem s.values.toEnv with
    | error e => rw [hv] at h; simp at h
    | ok v =>
      rw [hv] at h
      simp only [pure, Except.pure] at h
      simp only [List.map_cons, List.mem_cons, not_or] at hx
      obtain ⟨h1, h2, h3⟩ := ih _ t x (fun b hb => hp b (List.mem_cons_of_mem _ hb)) h hx.2
      refine ⟨?_, h2, h3⟩
      rw [h1, AMap.toEnv_insert]; simp [hx.1]

/-- **settlement of the value-writing part of a cycle** -/
theorem settled_pure (fl : Flags) : ∀ (acts : List Action) (before : List String) (s t : State),
    ValidFrom before acts → execActions fl acts s = .ok t →
    t.regs = s.regs ∧ t.mem = s.mem ∧
    ∀ a ∈ acts, ∃ v, a.defn fl s.regs s.mem t.values.toEnv = .ok v ∧ t.values.toEnv a.out = some v := by
  intro acts
  induction acts with
  | nil =>
    intro _ s t _ h
    simp [execActions, pure, Except.pure] at h; subst h
    exact ⟨rfl, rfl, by simp⟩
  | cons a rest ih =>
    intro before s t hv hex
    obtain ⟨hpure, _, hnotlater, hreads, hrest⟩ := hv
    have hex' := hex
    simp only [execActions, bind, Except.bind] at hex
    rw [execAction_pure fl s a hpure] at hex
    simp only [bind, Except.bind] at hex
    cases hfa : a.defn fl s.regs s.mem s.values.toEnv with
    | error e => rw [hfa] at hex; simp at hex
    | ok v =>
      rw [hfa] at hex
      simp only [pure, Except.pure] at hex
      have hrestPure : ∀ b ∈ rest, b.isPure = true := validFrom_pure rest _ hrest
      obtain ⟨hregs, hmem, hall⟩ := ih (a.out :: before) _ t hrest hex
      simp only at hregs hmem
      refine ⟨hregs, hmem, ?_⟩
      intro b hb
      rcases List.mem_cons.mp hb with rfl | hb
      · obtain ⟨hout, _, _⟩ := execPure_stable fl rest _ t b.out hrestPure hex hnotlater
        have hout' : t.values.toEnv b.out = some v := by
          rw [hout, AMap.toEnv_insert]; simp
        have hagree : agreeOn b.reads s.values.toEnv t.values.toEnv := by
          intro x hx
          have hxw := hreads x hx
          simp only [List.map_cons, List.mem_cons, not_or] at hxw
          obtain ⟨h1, _, _⟩ := execPure_stable fl rest _ t x hrestPure hex hxw.2
          rw [h1, AMap.toEnv_insert]; simp [hxw.1]
        refine ⟨v, ?_, hout'⟩
        rw [← defn_local fl s.regs s.mem b _ _ hagree, hfa]
      · obtain ⟨w, hw1, hw2⟩ := hall b hb
        exact ⟨w, hw1, hw2⟩
