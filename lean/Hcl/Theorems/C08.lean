import Hcl.Proofs.CheckSpec
import Hcl.Proofs.EvalCorrect
import Hcl.Proofs.ActionsVerdict
import Hcl.Proofs.ConstErrors
import Hcl.Proofs.DefaultsRule
import Hcl.Proofs.Step1Tables
import Hcl.Proofs.FlagProgram

/-!
# C08 — acceptance is decided exactly by the documented width rules

`Spec.typeOf fl Γ isTrue e` (Hcl/Spec/Accept.lean) is the list of rules of the property statement,
written rule by rule; `check` models `get_width_and_check`.
-/

/-- **C08, expressions.** For every flag set, context and expression: the checker accepts at width `w`
    exactly when the documented rules give width `w` (so it rejects exactly when some rule is violated). -/
theorem C08_accept_iff_rules (fl : Flags) (Γ : Ctx) (κ : Env) (e : Ex) (w : Width) :
    check fl Γ κ e = .ok w ↔ Spec.typeOf fl Γ (alwaysTrue fl κ) e = some w :=
  C08_expr fl Γ κ e w

theorem C08_reject_iff_rule_violated (fl : Flags) (Γ : Ctx) (κ : Env) (e : Ex) :
    (∃ ds, check fl Γ κ e = .error ds) ↔ Spec.typeOf fl Γ (alwaysTrue fl κ) e = none := by
  rw [← check_eq_typeOf]
  cases check fl Γ κ e <;> simp [okOf]

/-- an assignment (or register default) is accepted when, in addition, its width equals the target's or is unsized -/
theorem C08_target_rule (tw ew : Width) : (tw.combine ew).isSome = Spec.compatible tw ew := by
  rw [combine_spec]; cases Spec.compatible tw ew <;> rfl

/-- the width the rules assign is the width the language semantics assigns (`Spec.sw`) -/
theorem C08_width_is_semantic_width {fl : Flags} {Γ : Ctx} {κ σ : Env} (hΓ : CtxOK Γ) (hσ : EnvOK Γ σ) (e : Ex) (w : Width)
    (hwf : wfEx e = true) (h : Spec.typeOf fl Γ (alwaysTrue fl κ) e = some w) : w = Spec.sw Γ e :=
  (ev_correct hΓ e w (hσ.on _) hwf ((C08_expr fl Γ κ e w).mpr h)).2.1

/-! Non-vacuity: one accepted and one rejected expression for each family of rules. -/
def exΓ8 : Ctx := fun n => if n = "a" then some (.bits 8) else if n = "b" then some (.bits 4) else none
example : Spec.typeOf {} exΓ8 (fun _ => false) (.bin .and (.wire "a") (.wire "b")) = none := by decide
example : Spec.typeOf {} exΓ8 (fun _ => false) (.bin .add (.wire "a") (.wire "b")) = some (.bits 8) := by decide
example : Spec.typeOf {} exΓ8 (fun _ => false) (.slice (.wire "a") 2 8) = some (.bits 6) := by decide
example : Spec.typeOf {} exΓ8 (fun _ => false) (.slice (.wire "a") 2 9) = none := by decide
example : Spec.typeOf {} exΓ8 (fun _ => false) (.concat (.wire "a") (.const ⟨1, .unlimited⟩)) = none := by decide

/-! ### for every accepted program -/

/-- **C08 for every accepted program**: whatever the iteration order, every assignment `n = e` of an accepted program
    obeys the rules: in the width table of the program (declared wires, register signals, built-in wires, constants)
    the target has a width, the documented rules give the expression a width, and the two are equal or the
    expression is unsized.  Read the other way: a program in which some assignment breaks a width rule is never accepted. -/
theorem C08_accepted (fl : Flags) (cls : CharClass) (o : Orders) (stmts : List Stmt) (p : Program)
    (ho : OrdersOK o) (hwf : StmtsWF stmts) (h : Program.new fl cls o y86FixedFunctions stmts = .ok p) :
    ∀ n e, (step1Of stmts).assignments.get? n = some e →
      ∃ tw ew, (finalWires (step1Of stmts) p.constants (step3Of fl cls (step1Of stmts) p.constants)).get? n = some tw ∧
        Spec.typeOf fl (finalWires (step1Of stmts) p.constants (step3Of fl cls (step1Of stmts) p.constants)).toCtx
          (alwaysTrue fl p.constants.toEnv) e = some ew ∧
        Spec.compatible tw ew = true := by
  obtain ⟨s1, c, s3, k, hyp, _, hact, hpc, _, _, e1, _, e3, _, _, _⟩ := Program_new_decompose' fl cls o stmts p hwf h
  subst e1
  subst hpc
  subst e3
  intro n e hne
  obtain ⟨w, ew, h1, h2, h3⟩ := assignmentsToActions_rules fl o _ _ _ _ _ _ p.actions ho y86Fixed_table hyp.s1inv.aKeys hact n e hne
  refine ⟨w, ew, h1, (C08_accept_iff_rules fl _ _ e ew).mp h2, ?_⟩
  rw [← C08_target_rule]; exact h3

/-- **C08 for the constants of every accepted program**: every constant definition `const n = e` obeys the rules in the
    table of the constants themselves (a constant may only mention constants), and the program's value for `n` is the
    value of `e` (after the width fix-up of case expressions) -/
theorem C08_accepted_constants (fl : Flags) (cls : CharClass) (o : Orders) (stmts : List Stmt) (p : Program)
    (ho : OrdersOK o) (hwf : StmtsWF stmts) (h : Program.new fl cls o y86FixedFunctions stmts = .ok p) :
    ∀ n e, (step1Of stmts).constantsRaw.get? n = some e →
      ∃ v w, p.constants.get? n = some v ∧
        Spec.typeOf fl (wOf p.constants).toCtx (alwaysTrue fl p.constants.toEnv) e = some w ∧
        ev fl p.constants.toEnv (fixMux fl (wOf p.constants).toCtx p.constants.toEnv e) = .ok v := by
  have hcr := Program_new_constRefs fl cls o stmts p h
  obtain ⟨s1, c, s3, k, hyp, _, _, hpc, _, _, e1, ec, _, _, _, _⟩ := Program_new_decompose' fl cls o stmts p hwf h
  subst e1
  subst hpc
  intro n e hne
  obtain ⟨v, hv, hcv⟩ := resolveConstants_rules fl o _ ho hyp.s1inv.cKeys (constRefs_of_nil _ hcr) p.constants ec n e hne
  unfold constVal checkFixEval at hcv
  cases hck : check fl (wOf p.constants).toCtx p.constants.toEnv e with
  | error ds => rw [hck] at hcv; cases hcv
  | ok w =>
    rw [hck] at hcv
    simp only at hcv
    cases hev : ev fl p.constants.toEnv (fixMux fl (wOf p.constants).toCtx p.constants.toEnv e) with
    | error err => rw [hev] at hcv; cases hcv
    | ok v' =>
      rw [hev] at hcv
      simp only [Except.ok.injEq] at hcv
      subst hcv
      exact ⟨v', w, hv, (C08_accept_iff_rules fl _ _ e w).mp hck, rfl⟩

/-- **C08 for the register defaults of every accepted program**: every register of every bank of the program comes from a
    declaration `name : width = default` of a bank of that label whose default passes the width checker in the table of
    the constants (hence obeys the rules, `C08_accept_iff_rules`), has the register's width or is unsized, and whose value,
    brought to the register's width, is the value the register starts with. -/
theorem C08_accepted_defaults (fl : Flags) (cls : CharClass) (o : Orders) (stmts : List Stmt) (p : Program)
    (hwf : StmtsWF stmts) (h : Program.new fl cls o y86FixedFunctions stmts = .ok p) :
    ∀ b ∈ p.banks, ∃ bd ∈ (step1Of stmts).banksRaw, bd.name = b.label ∧
      ∀ sg ∈ b.signals, ∃ r ∈ bd.regs, DefaultRule fl p.constants b.defaults sg r := by
  have hclean := Program_new_s3clean fl cls o stmts p h
  obtain ⟨s1, c, s3, k, _, _, _, hpc, hpb, _, e1, _, e3, _, _, _⟩ := Program_new_decompose' fl cls o stmts p hwf h
  subst e1
  subst hpc
  unfold step3Of at hclean e3
  have := step3_rule fl cls (step1Of stmts) p.constants hclean
  rw [hpb, e3]
  exact this

/-- the same, naming the `register` statement -/
theorem C08_accepted_defaults_stmt (fl : Flags) (cls : CharClass) (o : Orders) (stmts : List Stmt) (p : Program)
    (hwf : StmtsWF stmts) (h : Program.new fl cls o y86FixedFunctions stmts = .ok p) :
    ∀ b ∈ p.banks, ∃ bd, Stmt.bank bd ∈ stmts ∧ bd.name = b.label ∧
      ∀ sg ∈ b.signals, ∃ r ∈ bd.regs, DefaultRule fl p.constants b.defaults sg r := by
  intro b hb
  obtain ⟨bd, hbd, e, hs⟩ := C08_accepted_defaults fl cls o stmts p hwf h b hb
  rw [step1Of_banksRaw, List.mem_filterMap] at hbd
  obtain ⟨st, hst, hm⟩ := hbd
  cases st with
  | bank b' => simp only [Option.some.injEq] at hm; subst hm; exact ⟨b', hst, e, hs⟩
  | consts _ => cases hm
  | wires _ => cases hm
  | assigns _ => cases hm
