"""C17 — each strictness option changes exactly the check it names, nothing else."""
from props import C19
from props.common_prog import judge_prog

THEOREM_MODULES = ["Hcl.Theorems.C17", "Hcl.Tie.Ops", "Hcl.Tie.PinsCheck", "Hcl.Theorems.C17Mono"]
THEOREMS = {"Hcl.Theorems.C17Mono": ["C17_option_only_adds_checks", "C17_option_changes_exactly_its_check", "C17_accepted_monotone", "C17_strictest_and_laxest", "FlagMonoCex.m1_fails", "FlagMonoCex.m2_fails"],
            "Hcl.Tie.Ops": ["Tie.Ops.strictnessConsts", "Tie.Ops.defaultFeatures", "Tie.Ops.binopApplyText"], "Hcl.Theorems.C17": ["C17_accepted_same_program", "C17_accepted_same_run", "Program_new_flag", "Program_new_flag_run", "fixMux_flag", "checkFixEval_flag", "check_width_flag", "execAction_flag", "C17_eval_flag_independent"],
            "Hcl.Tie.PinsCheck": ["Tie.PinsCheck.pinGetWidthAndCheck", "Tie.PinsCheck.pinFixMuxWidths", "Tie.PinsCheck.pinEvaluate"]}

RULE = ("S-FEATURES: the harness (and with it hclrs) is rebuilt per strictness feature set (quick: default, none, all, "
        "each of the five options alone; thorough: all 32 subsets); each build reports its "
        "features through a hook and runs the well-typed and the mutated S-EXPR streams (one width perturbed, or the shape of a case expression / boolean operand changed: two defaults, an arm after the default, no default, no arm, a 0- or 2-bit boolean operand); the Lean model and the "
        "specification are run with the same flags. Correspondence: accept/reject + diagnostics kinds + values equal the "
        "model's; oracle: accept/reject and values equal the specification's (whose values do not depend on the flags). "
        "distinct = distinct (feature set, program text).")

F = ["strict-wire-widths-binary", "strict-boolean-ops", "require-mux-default", "disallow-multiple-mux-default",
     "disallow-unreachable-options"]


def judge_for(tag):
    def judge(req, impl, model, spec):
        j = judge_prog(req, impl, model, spec)
        j["key"] = tag + "|" + (j["key"] or "")
        j["cats"] = [tag + ":" + c for c in j["cats"]]
        return j
    return judge


def streams(tier, seed):
    if tier == "quick":
        sets = [None, [], F, [F[0]], [F[1]], [F[2]], [F[3]], [F[4]]]
        n1, n2 = 600, 900
    else:
        sets = [None] + [[F[i] for i in range(5) if (m >> i) & 1] for m in range(32)]
        n1, n2 = 3000, 5000
    out = []
    for fs in sets:
        tag = "default" if fs is None else ("+".join(x.split("-")[0] + x.split("-")[-1] for x in fs) or "none")
        out.append({"name": "expr[%s]" % tag, "stream": "expr", "count": n1, "features": fs, "judge": judge_for(tag)})
        out.append({"name": "expr-mutated[%s]" % tag, "stream": "expr-mutated", "count": n2, "features": fs,
                    "judge": judge_for(tag)})
    # what the user sees goes through the command line and the two files: the real binary on accepted, rejected, big, not-UTF-8, bare-CR files, good and malformed images, all options and TIMEOUT forms (as in C19)
    out.append({"name": "cli", "stream": "cli", "count": 200 if tier == "quick" else 5000, "pygen": C19.pygen, "judge": C19.judge})
    return out
