"""C13 — any input text yields diagnostics or a run, never a crash or a hang."""
from props import C14
import os
import framework as fw
import bytes_stream
from props import common_prog

THEOREM_MODULES = ["Hcl.Theorems.C13", "Hcl.Theorems.C11Fuel", "Hcl.Theorems.C14Render", "Hcl.Tie.PinsErrors", "Hcl.Tie.PinsLexer"]
THEOREMS = {"Hcl.Tie.PinsLexer": ["Tie.PinsLexer.pinLexerNext", "Tie.PinsLexer.pinLexerChooseToken", "Tie.PinsLexer.pinLexerGetWhile", "Tie.PinsLexer.pinLexerInternalNext", "Tie.PinsLexer.pinLexerResolveIdentifier"],
            "Hcl.Theorems.C14Render": ["C14_render_total", "C14_render_ok_iff", "C14_grammar_tokens_ok"],
            "Hcl.Tie.PinsErrors": ["Tie.PinsErrors.pinFormatForContents", "Tie.PinsErrors.pinFormatTokenList", "Tie.PinsErrors.pinListWithAnd", "Tie.PinsErrors.pinFindCloseNames"],
            "Hcl.Theorems.C11Fuel": ["C11_parser_fuel_enough", "C11_parser_fuel_independent"],
            "Hcl.Theorems.C13": ["C13_construction_no_internal_error", "C13_accepted_runs", "Program_new_np", "resolveConstants_np",
                                 "assignmentsToActions_np", "check_np", "GBuild.sort_ne_panic", "C13_lexer_terminates", "C13_lexer_progress", "C13_render_total", "C13_render_total_y86",
                                 "C13_lookup_total", "C13_preamble_utf8"]}

RULE = ("S-TEXT (in-process, real preamble, parse_y86_hcl + Error::format_for_contents under catch_unwind): token soup with "
        "Unicode blanks/letters and malformed literals; generated valid programs truncated at a random byte, with one token "
        "inserted / deleted / substituted, with CRLF / CR / doubled line ends, with non-ASCII or invalid UTF-8 (made lossy as "
        "the real reader does) inserted, ending inside a literal / comment / multi-byte character; half-wired built-in "
        "components with 16 kinds of constant enable expressions. Correspondence: texts that parse are handed (as AST) to "
        "the Lean model of Program::new and compared on acceptance, diagnostic kinds and one cycle; texts that do not parse are "
        "compared token by token with the lexer model. Oracle: never a panic (parsing, building, rendering), never an "
        "'internal' diagnostic, at least one 'error:' line when rejected, acceptance as Spec.faults says for parsed programs. "
        "S-BYTES (the real binary on files of arbitrary bytes incl. invalid UTF-8, NUL, BOM; --check and a 3-cycle run): exit "
        "status 0 or 1, 'error:' on stderr iff 1, no panic, no internal error, no hang (60 s). "
        "S-REGION: show_region on arbitrary texts and spans incl. usize::MAX (no panic; model correspondence). "
        "S-DUMP (as in C16): the state dump of designs with register names of 1 to 80 characters and widths up to 128 must print (no panic). S-DISASM / S-TRACE (as in C20): every first-two-byte combination through the real disassembler and the trace line of "
        "real cycles at random pcs over random memory, under catch_unwind: whatever bytes a program makes the simulator fetch, "
        "printing the trace line must not panic. "
        "non-trivial = rejected or malformed inputs; distinct = distinct texts.")

_binary = {}


def pygen(seed, count, outfile):
    if "b" not in _binary:
        ok, out, b = fw.build_binary()
        if not ok:
            raise RuntimeError("cargo build of /repo failed: " + out[-1500:])
        _binary["b"] = b
    bytes_stream.generate(_binary["b"], seed, count, outfile, os.path.join(fw.BUILD, "bytes-work-%d" % os.getpid()))


def judge_text(req, impl, model, spec):
    how = req.split("(how ")[1].split(")")[0] if "(how " in req else "?"
    render = req.split("(render ")[1].split(")")[0] if "(render " in req else "?"
    inner_prog = "(prog " in req
    if inner_prog:
        r = common_prog.judge_prog(req, impl, model, spec)
    else:
        r = {"corr": impl == model, "oracle": True, "what": "", "key": req, "cats": []}
        outcome = req.split("(outcome ")[1].split(")")[0] if "(outcome " in req else ""
        if outcome.startswith("PANIC") or impl.startswith("PANIC"):
            r["oracle"] = False
            r["what"] = "panic on a text that does not parse: " + outcome[:200]
        elif "Internal" in outcome:
            r["oracle"] = False
            r["what"] = "internal error reported for a text that does not parse: " + outcome[:200]
        elif not outcome.startswith("rej"):
            r["oracle"] = False
            r["what"] = "a text the statement parser rejects was not rejected by parse_y86_hcl: " + outcome[:200]
    r["cats"] = [how, "accepted" if render == "accepted" else "rejected"]
    if "Internal" in impl:
        r["oracle"] = False
        r["what"] = "internal error reported: " + impl[:200]
    if render == "RENDER-PANIC":
        r["oracle"] = False
        r["what"] = "panic while parsing or rendering the diagnostics"
    elif render != "accepted":
        if "errors=1" not in render:
            r["oracle"] = False
            r["what"] = "rejected without any 'error:' line"
        if "internal=1" in render:
            r["oracle"] = False
            r["what"] = "an internal error was printed"
    if render == "accepted" and impl.startswith("rej"):
        r["oracle"] = False
        r["what"] = "two runs of the same text disagree (accepted / rejected)"
    return r


def judge_bytes(req, impl, model, spec):
    how = req.split("(how ")[1].split(")")[0]
    f = dict(x.split("=") for x in impl.split(" "))
    ok = True
    what = ""
    if f["hang"] != "0":
        ok, what = False, "no answer within 60 s"
    elif f["panic"] != "0" or f["exit"] not in ("0", "1"):
        ok, what = False, "the binary panicked or died (exit status %s)" % f["exit"]
    elif f["internal"] != "0":
        ok, what = False, "an internal error was reported"
    elif f["exit"] == "1" and f["errors"] != "1":
        ok, what = False, "exit status 1 without an 'error:' line"
    elif f["exit"] == "0" and f["errors"] != "0":
        ok, what = False, "exit status 0 although an 'error:' line was printed"
    return {"corr": True, "oracle": ok, "what": what + " for " + req[:300] if what else "", "key": req,
            "cats": [how, "exit-" + f["exit"]]}


def judge_region(req, impl, model, spec):
    ok = not impl.startswith("PANIC")
    return {"corr": impl == model, "oracle": ok, "what": "" if ok else "show_region panicked", "key": req,
            "cats": ["region"]}


def judge_nopanic(req, impl, model, spec):
    ok = not impl.startswith("PANIC")
    return {"corr": impl == model, "oracle": ok, "what": "" if ok else "the disassembler / trace line panicked", "key": req,
            "cats": ["disasm" if req.startswith("(disasm") else "trace"]}


def judge_dump(req, impl, model, spec):
    ok = impl != "PANIC"
    return {"corr": True, "oracle": ok, "what": "" if ok else "printing the state dump panicked", "key": req, "cats": ["dump"]}


def streams(tier, seed):
    q = tier == "quick"
    return [{"name": "text", "stream": "anytext", "count": 4000 if q else 300000, "judge": judge_text},
            {"name": "bytes", "stream": "bytes", "count": 1500 if q else 60000, "pygen": pygen, "judge": judge_bytes},
            {"name": "region", "stream": "region", "count": 10000 if q else 500000, "judge": judge_region},
            {"name": "disasm", "stream": "disasm", "count": 2 if q else 10, "judge": judge_nopanic},
            {"name": "dump", "stream": "dump", "count": 1500 if q else 30000, "judge": judge_dump},
            {"name": "trace", "stream": "trace", "count": 1500 if q else 50000, "judge": judge_nopanic},
            # the text of the diagnostics, byte for byte against the model of errors.rs (as in C14)
            {"name": "render", "stream": "render", "count": 2000 if q else 80000, "judge": C14.judge_render}]
