"""C14 — diagnostics point at the offending construct in the user's own file."""

from props import C19
THEOREM_MODULES = ["Hcl.Theorems.C14", "Hcl.Theorems.C14Render", "Hcl.Tie.PinsIo", "Hcl.Tie.PinsErrors", "Hcl.Tie.PinsLexer", "Hcl.Tie.PinsGrammar", "Hcl.Theorems.C14Stmts", "Hcl.Theorems.C14Diag", "Hcl.Theorems.C14DiagAll", "Hcl.Theorems.C14EndToEnd", "Hcl.Tie.PinsRefs"]
THEOREMS = {"Hcl.Tie.PinsRefs": ["Tie.PinsRefs.pinApplyToAll", "Tie.PinsRefs.pinApplyToAllMut", "Tie.PinsRefs.pinReferencedWires", "Tie.PinsRefs.pinFindReferences"],
            "Hcl.Theorems.C14EndToEnd": ["C14_end_to_end", "C14_end_to_end_bytes", "C14_end_to_end_string", "C14_end_to_end_names", "C14E2E.length_encodeBytes", "C14E2E.validUtf8_encodeBytes", "C14E2E.encodeBytes_of_fromUTF8?"],
            "Hcl.Theorems.C14DiagAll": ["C14_diag_points_at", "C14_diag_spans_in_text", "C14_diag_spans_in_text_le", "C14_points_at_in_text", "C14_checker_points", "C14_checker_points_at", "C14_eval_after_check_unlocated", "C14_check_eval_points_at", "C14_constants_points", "C14_banks_points", "C14_actions_points"],
            "Hcl.Theorems.C14Diag": ["C14_diag_erase", "C14_diag_step1_verdict", "C14_diag_points_at_step1", "C14_diag_names_in_text"],
            "Hcl.Theorems.C14Stmts": ["C14_statements_erase", "C14_statements_erase_tokens", "C14_statement_spans", "C14_statement_names", "C14_statement_spans_in_text", "C14_statements_ordered", "C14_identifier_span"],
            "Hcl.Tie.PinsGrammar": ["Tie.PinsGrammar.pinGrammarFile"],
            "Hcl.Tie.PinsLexer": ["Tie.PinsLexer.pinLexerNext", "Tie.PinsLexer.pinLexerChooseToken", "Tie.PinsLexer.pinLexerGetWhile", "Tie.PinsLexer.pinLexerInternalNext", "Tie.PinsLexer.pinLexerResolveIdentifier"],
            "Hcl.Theorems.C14Render": ["C14_render_total", "C14_render_names", "C14_render_regions", "C14_render_located", "C14_render_multiple", "C14_render_leaves", "C14_render_ok_iff", "C14_grammar_tokens_ok", "Errors.render_total", "Errors.render_names_wire", "Errors.render_regions", "Errors.render_multiple"],
            "Hcl.Theorems.C14": ["C14_file", "C14_file_builtin", "C14_line", "C14_region", "C14_region_y86",
                                 "C14_preamble_ends_line", "C14_preamble_utf8",
                                 "Io.lookupIndex_spec", "Io.lineNumberAndBounds_user", "Io.showRegion_line",
                                 "Yo.validUtf8_boundary", "Yo.validUtf8_append", "C14_token_spans", "Lexer.lexStep_ok", "Lexer.handleConstant_pos",
                                 "C14_expression_spans", "C14_expression_extent", "Parser.parseTier_spans", "Parser.parseExpr_spans"],
            "Hcl.Tie.PinsErrors": ["Tie.PinsErrors.pinFormatForContents", "Tie.PinsErrors.pinFormatTokenList", "Tie.PinsErrors.pinListWithAnd", "Tie.PinsErrors.pinFindCloseNames"],
            "Hcl.Tie.PinsIo": ["Tie.PinsIo.pinMarkNewlines", "Tie.PinsIo.pinFilename", "Tie.PinsIo.pinLineNumberAndBounds", "Tie.PinsIo.pinShowRegion", "Tie.PinsIo.pinNewFromData", "Tie.PinsIo.pinNewFromFile"]}

RULE = ("S-REGION: FileContents::new_from_data + show_region / line_number_and_bounds / range of the real code on small "
        "texts (ASCII and multi-byte lines, blank lines, LF / CRLF / bare CR, with and without final newline; preambles with "
        "and without final newline, empty, multi-byte) and spans anywhere, reversed, empty, beyond the end and usize::MAX, "
        "under catch_unwind; compared byte for byte with the Lean model Io.showRegion (correspondence) and, for spans inside "
        "one line of the user's text, with Spec.region (oracle). "
        "S-DIAG: one fault of 19 kinds planted at a known line and column (any line incl. first/last, after comments, blank "
        "lines and two-line block comments, LF or CRLF, with or without final newline) in an otherwise valid program; the real "
        "parse_y86_hcl + Error::format_for_contents with the real preamble; every located region of the rendered text must "
        "be what the model renders for a span the error carries, the message must name the planted wire in quotes (where the fault is about a wire) (correspondence: errors.rs hands its spans to show_region "
        "unchanged), the planted span must be shown exactly as Spec.region renders it and no region may name <builtin> (oracle). "
        "S-RENDER: rejected inputs of every kind (the generators of S-TEXT, S-DIAG, fault, loop and multi-fault injection, width mutations, loader and run-time errors, plus hand-built error values for the variants no input reaches): the bytes Error::format_for_contents writes against the Lean model Errors.render (all 52 variants), whose regions are Io.showRegion of the spans the error carries. S-PARSE (as in C11): the spanned tree the real expression parser builds for generated expressions (all operator pairs, "
        "unary/in placements, random trees; operands in parentheses at either edge) must be the spanned tree of the Lean parser "
        "model, whose spans are proved to be nested byte ranges of the text (C14_expression_spans). "
        "non-trivial = cases with a specified span / a rejected program; distinct = distinct requests.")


def judge_region(req, impl, model, spec):
    ok = True
    what = ""
    cats = []
    if impl.startswith("PANIC"):
        return {"corr": impl == model, "oracle": False, "what": "show_region panicked", "key": None, "cats": ["panic"]}
    if spec == "unspecified":
        cats.append("outside-one-line")
        key = None
    else:
        key = req
        cats.append("one-line-span")
        shown = impl.split(" ")[1] if impl.startswith("ok ") else impl
        if shown != spec:
            ok = False
            try:
                what = "located region differs from the specification: shown %r expected %r" % (bytes.fromhex(shown), bytes.fromhex(spec))
            except ValueError:
                what = "located region differs from the specification"
    return {"corr": impl == model, "oracle": ok, "what": what, "key": key, "cats": cats}


def judge_diag(req, impl, model, spec):
    kind = req.split("(kind ")[1].split(")")[0] if "(kind " in req else "?"
    cats = [kind]
    if impl.startswith("PANIC"):
        return {"corr": False, "oracle": False, "what": "panic while parsing or rendering diagnostics", "key": None, "cats": cats}
    if impl == "accepted":
        return {"corr": True, "oracle": False, "what": "a program with a planted fault (%s) was accepted" % kind, "key": None, "cats": cats}
    ok = spec == "planted=1 builtin=0"
    what = ""
    if not ok:
        what = ("the planted fault (%s) is not shown at its line/column, or a region is attributed to <builtin>: %s" % (kind, spec))
    # the harness also looks at the message text: where the planted fault is about a wire, an 'error:' line names it in quotes
    if " named=0" in impl:
        ok = False
        what = "no 'error:' line of the rendered diagnostics names the offending wire of the planted fault (%s)" % kind
    if " named=" in impl:
        cats.append("message-names-the-wire")
    impl = impl.replace(" named=1", "").replace(" named=0", "")
    return {"corr": impl == model, "oracle": ok, "what": what, "key": req, "cats": cats}


def judge_parse(req, impl, model, spec):
    from props import C11
    r = C11.judge(req, impl, model, spec)
    # what C14 asks of this stream is the spans (correspondence with the model); the grouping oracle is C11's
    if not impl.startswith("PANIC"):
        r["oracle"] = True
        r["what"] = ""
    return r


def judge_render(req, impl, model, spec):
    """the whole rendered text of a diagnostic (errors.rs format_for_contents) against the Lean model Errors.render"""
    how = req.split("(how ")[1].split(")")[0] if "(how " in req else "?"
    variant = req.split("(error (")[1].split(" ")[0].split(")")[0] if "(error (" in req else "?"
    ok = True
    what = ""
    # hand-built error values may carry spans no real error has (the renderer's latent slicing defects): only what the real
    # code produces must render
    if impl == "UNSTABLE":
        ok = False
        what = "the same text, parsed and built three times, gave different diagnostics (kinds, names, suggested names or spans; beyond their order and which loop is shown) (%s, %s)" % (how, variant)
    if impl == "PANIC" and not how.startswith("synthetic"):
        ok = False
        what = "rendering the diagnostics of a real rejection panicked (%s, %s)" % (how, variant)
    # the verdict of the spanned model of Program::new (Program.newSp) on the spans of the real diagnostics: the driver parses
    # the text, rebuilds the program and compares (kind, names, spans) as multisets with the real Error value
    _, _, verdict = spec.partition("\x00")
    verdict = verdict.strip()
    cats = ["how-" + how.split("-")[0], "variant-" + variant]
    spans_ok = True
    if verdict:
        cats.append(verdict.split(":")[0])
        spans_ok = not verdict.startswith("diag-spans-DIFFER")
    if not spans_ok:
        model = model + " [diag-spans-DIFFER: the spans Program.newSp attaches to the diagnostics differ from those of the real Error value]"
    # an unstable rejection has no single text to compare with the model's: it is an oracle failure (C12), not a disagreement
    corr = True if impl == "UNSTABLE" else (impl == model and spans_ok)
    return {"corr": corr, "oracle": ok, "what": what, "key": req, "cats": cats}


def judge_lex(req, impl, model, spec):
    from props import C11
    r = C11.judge_soup(req, impl, model, spec) if not impl.startswith("same ") else C11.judge(req, impl, model, spec)
    if not impl.startswith("PANIC"):
        r["oracle"] = True
        r["what"] = ""
    return r


def streams(tier, seed):
    q = tier == "quick"
    return [{"name": "region", "stream": "region", "count": 20000 if q else 1500000, "judge": judge_region},
            {"name": "diag", "stream": "diag", "count": 3000 if q else 200000, "judge": judge_diag},
            {"name": "parse", "stream": "parse", "count": 2000 if q else 100000, "judge": judge_parse},
            # the spans of the tokens themselves (the tie of C14_token_spans): real lexer against the lexer model
            {"name": "lex", "stream": "lex", "count": 3000 if q else 200000, "judge": judge_lex},
            {"name": "literal", "stream": "literal", "count": 2000 if q else 100000, "judge": judge_lex},
            # what the user sees goes through the command line and the two files: the real binary on accepted, rejected, big, not-UTF-8, bare-CR files, good and malformed images, all options and TIMEOUT forms (as in C19)
            {"name": "cli", "stream": "cli", "count": 200 if q else 5000, "pygen": C19.pygen, "judge": C19.judge},
            # the text of the diagnostics, byte for byte against the model of errors.rs (as in C14)
            {"name": "render", "stream": "render", "count": 2500 if q else 120000, "judge": judge_render}]
