import Hcl.Proofs.CheckCongr
import Hcl.Proofs.NoPanicStages
import Hcl.Proofs.SortVerdict
open Rust

/-! `resolve_constants` gives the same values whatever order the sorter returns. -/

def wOf (res : AMap WireValue) : AMap Width := res.map (fun p => (p.1, p.2.width))

theorem wOf_toCtx (res : AMap WireValue) (x : String) : (wOf res).toCtx x = (res.toEnv x).map (·.width) := by
  unfold wOf AMap.toCtx AMap.toEnv
  induction res with
  | nil => rfl
  | cons p rest ih =>
    rw [List.map_cons, List.lookup_cons, List.lookup_cons]
    cases x == p.1 with
    | true => rfl
    | false => exact ih

theorem agreeOn_wOf (l : List String) (r₁ r₂ : AMap WireValue) (h : agreeOn l r₁.toEnv r₂.toEnv) :
    agreeOnC l (wOf r₁).toCtx (wOf r₂).toCtx := by
  intro x hx
  rw [wOf_toCtx, wOf_toCtx, h x hx]

/-- the value the loop computes for one constant, given the constants resolved so far -/
def constVal (fl : Flags) (res : AMap WireValue) (e : Ex) : C WireValue :=
  checkFixEval fl (wOf res).toCtx res.toEnv e

theorem constVal_congr (fl : Flags) (r₁ r₂ : AMap WireValue) (e : Ex) (h : agreeOn (refs e) r₁.toEnv r₂.toEnv) :
    constVal fl r₁ e = constVal fl r₂ e :=
  checkFixEval_congr fl _ _ _ _ e (agreeOn_wOf _ _ _ h) h

theorem resolveLoop_step_ok (fl : Flags) (exprs : AMap Ex) (name : String) (rest : List String) (res : AMap WireValue)
    (errs : List Diag) (e : Ex) (v : WireValue) (hg : exprs.get? name = some e) (hc : constVal fl res e = .ok v) :
    resolveLoop fl exprs (name :: rest) res errs = resolveLoop fl exprs rest (res.insert name v) errs := by
  unfold constVal wOf at hc
  rw [resolveLoop, hg]
  simp only [hc]

theorem resolveLoop_step_err (fl : Flags) (exprs : AMap Ex) (name : String) (rest : List String) (res : AMap WireValue)
    (errs : List Diag) (e : Ex) (ds : List Diag) (hg : exprs.get? name = some e) (hc : constVal fl res e = .error ds) :
    resolveLoop fl exprs (name :: rest) res errs = resolveLoop fl exprs rest res (errs ++ ds) := by
  unfold constVal wOf at hc
  rw [resolveLoop, hg]
  simp only [hc]

/-- values once entered stay: later names are different names -/
theorem resolveLoop_mono (fl : Flags) (exprs : AMap Ex) : ∀ (names : List String) (res : AMap WireValue) (errs : List Diag),
    (∀ n ∈ names, res.contains n = false) → names.Nodup →
    ∀ k v, res.get? k = some v → (resolveLoop fl exprs names res errs).1.get? k = some v
  | [], res, errs, _, _, k, v, h => h
  | name :: rest, res, errs, hfresh, hnd, k, v, h => by
    cases hg : exprs.get? name with
    | none => rw [resolveLoop, hg]; exact h
    | some e =>
      have hne : k ≠ name := by
        intro hk; subst hk
        have := hfresh k List.mem_cons_self
        rw [← AMap.get?_isSome_iff_contains, h] at this
        cases this
      cases hc : constVal fl res e with
      | error ds =>
        rw [resolveLoop_step_err fl exprs name rest res errs e ds hg hc]
        exact resolveLoop_mono fl exprs rest res _ (fun n hn => hfresh n (List.mem_cons_of_mem _ hn)) (List.nodup_cons.mp hnd).2 k v h
      | ok w =>
        rw [resolveLoop_step_ok fl exprs name rest res errs e w hg hc]
        apply resolveLoop_mono fl exprs rest _ _ _ (List.nodup_cons.mp hnd).2 k v
        · rw [AMap.get?_insert_ne _ _ _ _ hne]; exact h
        · intro n hn
          rw [AMap.contains_insert]
          have h1 : n ≠ name := fun h1 => (List.nodup_cons.mp hnd).1 (h1 ▸ hn)
          have h2 : (n == name) = false := by simpa using h1
          rw [h2, Bool.or_false]
          exact hfresh n (List.mem_cons_of_mem _ hn)

/-- `R` *explains* `res`: every value in `res` is what the loop computes for that constant from any table that agrees
    with `R` on the names its definition mentions -/
def Explains (fl : Flags) (exprs : AMap Ex) (R res : AMap WireValue) : Prop :=
  ∀ name v, res.get? name = some v → ∀ e, exprs.get? name = some e →
    ∀ res' : AMap WireValue, agreeOn (refs e) res'.toEnv R.toEnv → constVal fl res' e = .ok v

/-- the topological condition on the rest of the order: every name a definition mentions is resolved already or comes earlier -/
def DepsReady (exprs : AMap Ex) (names : List String) (res : AMap WireValue) : Prop :=
  ∀ pre n post, names = pre ++ n :: post → ∀ e, exprs.get? n = some e → ∀ x ∈ refs e, res.contains x = true ∨ x ∈ pre

theorem depsReady_tail (exprs : AMap Ex) (name : String) (rest : List String) (res : AMap WireValue) (v : WireValue)
    (h : DepsReady exprs (name :: rest) res) : DepsReady exprs rest (res.insert name v) := by
  intro pre n post hs e he x hx
  rcases h (name :: pre) n post (by rw [hs]; rfl) e he x hx with h1 | h1
  · left; rw [AMap.contains_insert, h1, Bool.true_or]
  · rcases List.mem_cons.mp h1 with h2 | h2
    · left; rw [AMap.contains_insert, h2]; simp
    · exact Or.inr h2

theorem depsReady_tail' (exprs : AMap Ex) (name : String) (rest : List String) (res : AMap WireValue)
    (hc : res.contains name = true)
    (h : DepsReady exprs (name :: rest) res) : DepsReady exprs rest res := by
  intro pre n post hs e he x hx
  rcases h (name :: pre) n post (by rw [hs]; rfl) e he x hx with h1 | h1
  · exact Or.inl h1
  · rcases List.mem_cons.mp h1 with h2 | h2
    · left; rw [h2]; exact hc
    · exact Or.inr h2

/-- a run without errors is explained by its own result -/
theorem resolveLoop_explains (fl : Flags) (exprs : AMap Ex) (R : AMap WireValue) :
    ∀ (names : List String) (res : AMap WireValue) (errs : List Diag),
    (resolveLoop fl exprs names res errs).2 = [] →
    (∀ k v, (resolveLoop fl exprs names res errs).1.get? k = some v → R.get? k = some v) →
    (∀ n ∈ names, res.contains n = false) → names.Nodup → DepsReady exprs names res →
    Explains fl exprs R res → Explains fl exprs R (resolveLoop fl exprs names res errs).1
  | [], res, errs, _, _, _, _, _, hex => hex
  | name :: rest, res, errs, hnil, hR, hfresh, hnd, hdeps, hex => by
    cases hg : exprs.get? name with
    | none =>
      rw [resolveLoop, hg] at hnil
      simp only [List.append_eq_nil_iff] at hnil
      exact absurd hnil.2 (by simp [panicDiag])
    | some e =>
      cases hc : constVal fl res e with
      | error ds =>
        rw [resolveLoop_step_err fl exprs name rest res errs e ds hg hc] at hnil
        obtain ⟨h1, _, _⟩ := resolveLoop_all fl exprs rest res _ hnil
        rw [List.append_eq_nil_iff] at h1
        unfold constVal wOf at hc
        exact absurd h1.2 (checkFixEval_err fl _ _ _ _ hc)
      | ok v =>
        rw [resolveLoop_step_ok fl exprs name rest res errs e v hg hc] at hnil hR ⊢
        have hnd' := List.nodup_cons.mp hnd
        have hfresh' : ∀ n ∈ rest, (res.insert name v).contains n = false := by
          intro n hn
          rw [AMap.contains_insert]
          have h1 : n ≠ name := fun h1 => hnd'.1 (h1 ▸ hn)
          have h2 : (n == name) = false := by simpa using h1
          rw [h2, Bool.or_false]
          exact hfresh n (List.mem_cons_of_mem _ hn)
        -- what is resolved so far is part of `R`
        have hsubR : ∀ k w, (res.insert name v).get? k = some w → R.get? k = some w := fun k w hk =>
          hR k w (resolveLoop_mono fl exprs rest _ errs hfresh' hnd'.2 k w hk)
        apply resolveLoop_explains fl exprs R rest _ errs hnil hR hfresh' hnd'.2 (depsReady_tail exprs name rest res v hdeps)
        intro n w hn e' he' res' hag
        rw [AMap.get?_insert] at hn
        split at hn
        · rename_i heq
          subst heq
          cases hn
          rw [hg] at he'; cases he'
          rw [← hc]
          apply constVal_congr
          intro x hx
          rw [hag x hx]
          rcases hdeps [] n rest rfl e hg x hx with h1 | h1
          · obtain ⟨u, hu⟩ := (AMap.contains_iff_lookup _ _).mp h1
            have hne : x ≠ n := by
              intro hxn; subst hxn
              have := hfresh x List.mem_cons_self
              rw [h1] at this; cases this
            have : R.get? x = some u := hsubR x u (by rw [AMap.get?_insert_ne _ _ _ _ hne]; exact hu)
            show R.get? x = res.get? x
            rw [this]; exact hu.symm
          · cases h1
        · exact hex n w hn e' he' res' hag

/-- a table that explains itself is what every topological order computes -/
theorem resolveLoop_follow (fl : Flags) (exprs : AMap Ex) (R : AMap WireValue)
    (hR : ∀ name e, exprs.get? name = some e → ∃ v, R.get? name = some v)
    (hex : Explains fl exprs R R) :
    ∀ (names : List String) (res : AMap WireValue) (errs : List Diag),
    (∀ n ∈ names, (exprs.get? n).isSome = true) →
    (∀ k v, res.get? k = some v → R.get? k = some v) → DepsReady exprs names res →
    (resolveLoop fl exprs names res errs).2 = errs ∧
    (∀ k v, (resolveLoop fl exprs names res errs).1.get? k = some v → R.get? k = some v) ∧
    (∀ k, (res.contains k = true ∨ k ∈ names) → (resolveLoop fl exprs names res errs).1.contains k = true)
  | [], res, errs, _, hsub, _ => ⟨rfl, hsub, by intro k hk; rcases hk with h | h; exact h; cases h⟩
  | name :: rest, res, errs, hn, hsub, hdeps => by
    obtain ⟨e, hg⟩ := Option.isSome_iff_exists.mp (hn name List.mem_cons_self)
    obtain ⟨v, hv⟩ := hR name e hg
    have hc : constVal fl res e = .ok v := by
      apply hex name v hv e hg res
      intro x hx
      rcases hdeps [] name rest rfl e hg x hx with h1 | h1
      · obtain ⟨u, hu⟩ := (AMap.contains_iff_lookup _ _).mp h1
        show res.get? x = R.get? x
        rw [hsub x u hu]; exact hu
      · cases h1
    rw [resolveLoop_step_ok fl exprs name rest res errs e v hg hc]
    have hsub' : ∀ k w, (res.insert name v).get? k = some w → R.get? k = some w := by
      intro k w hk
      rw [AMap.get?_insert] at hk
      split at hk
      · rename_i heq; subst heq; cases hk; exact hv
      · exact hsub k w hk
    obtain ⟨a1, a2, a3⟩ := resolveLoop_follow fl exprs R hR hex rest (res.insert name v) errs
      (fun n h => hn n (List.mem_cons_of_mem _ h)) hsub' (depsReady_tail exprs name rest res v hdeps)
    refine ⟨a1, a2, ?_⟩
    intro k hk
    apply a3
    rcases hk with h | h
    · left; rw [AMap.contains_insert, h, Bool.true_or]
    · rcases List.mem_cons.mp h with h1 | h1
      · left; rw [AMap.contains_insert, h1]; simp
      · exact Or.inr h1

/-! ### the graph of the constants has an edge for every reference -/

theorem constGraphFrom_edges : ∀ (l : List (String × Ex)) (g : GBuild),
    g.WF → (l.map (·.1)).Nodup → (∀ p ∈ l, ∀ e ∈ g.edges, e.2 ≠ p.1) →
    ∀ e, (e ∈ g.edges ∨ ∃ p ∈ l, e.2 = p.1 ∧ e.1 ∈ refs p.2) → e ∈ (constGraphFrom l g).edges
  | [], g, _, _, _, e, h => by
    rcases h with h | ⟨p, hp, _⟩
    · exact h
    · cases hp
  | p :: rest, g, wf, hnd, hfresh, e, h => by
    simp only [List.map_cons, List.nodup_cons] at hnd
    have hnew : ∀ s ∈ dedupS (refs p.2), (s, p.1) ∉ g.edges := by
      intro s _ hm
      exact hfresh p List.mem_cons_self (s, p.1) hm rfl
    obtain ⟨a1, _, a3⟩ := addDeps_spec [] p.1 (dedupS (refs p.2)) g wf (nodup_dedupS _) hnew
    have wf1 := (addDeps [] p.1 (dedupS (refs p.2)) g).wf_addNode p.1 a1
    have hfresh' : ∀ q ∈ rest, ∀ e ∈ ((addDeps [] p.1 (dedupS (refs p.2)) g).addNode p.1).edges, e.2 ≠ q.1 := by
      intro q hq e he
      have he' : e ∈ (addDeps [] p.1 (dedupS (refs p.2)) g).edges := he
      rcases (a3 e).mp he' with h | ⟨h, _, _⟩
      · exact hfresh q (List.mem_cons_of_mem _ hq) e h
      · rw [h]; intro e2
        exact hnd.1 (List.mem_map.mpr ⟨q, hq, e2.symm⟩)
    have hstep : constGraphFrom (p :: rest) g =
        constGraphFrom rest ((addDeps [] p.1 (dedupS (refs p.2)) g).addNode p.1) := rfl
    rw [hstep]
    apply constGraphFrom_edges rest _ wf1 hnd.2 hfresh' e
    rcases h with h | ⟨q, hq, h1, h2⟩
    · left
      show e ∈ (addDeps [] p.1 (dedupS (refs p.2)) g).edges
      exact (a3 e).mpr (Or.inl h)
    · rcases List.mem_cons.mp hq with hqp | hqr
      · subst hqp
        left
        show e ∈ (addDeps [] q.1 (dedupS (refs q.2)) g).edges
        exact (a3 e).mpr (Or.inr ⟨h1, (mem_dedupS _ _).mpr h2, by simp⟩)
      · exact Or.inr ⟨q, hqr, h1, h2⟩

/-- **the resolved constants do not depend on the iteration orders**: what one order accepts, every order accepts with
    the same values -/
theorem resolveConstants_order_independent (fl : Flags) (o₁ o₂ : Orders) (exprs : AMap Ex) (ho₁ : OrdersOK o₁) (ho₂ : OrdersOK o₂)
    (hk : exprs.keys.Nodup) (hrefs : ∀ p ∈ exprs, ∀ r ∈ refs p.2, exprs.contains r = true)
    (c : AMap WireValue) (h : resolveConstants fl o₁ exprs = .ok c) : resolveConstants fl o₂ exprs = .ok c := by
  obtain ⟨gwf, gkeys, gupper⟩ := constGraphFrom_spec exprs {} GBuild.wf_empty hk (by intro p _ e he; simp at he)
  have gedges := constGraphFrom_edges exprs {} GBuild.wf_empty hk (by intro p _ e he; simp at he)
  rw [← constGraph_eq] at gwf gkeys gupper gedges
  have hnodes : ∀ n ∈ (constGraph exprs).nodes, (exprs.get? n).isSome = true := by
    intro n hn
    rw [AMap.get?_isSome_iff_contains]
    rcases gupper n hn with h | ⟨p, hp, h | h⟩
    · simp at h
    · rw [h]; exact (AMap.contains_iff_mem_keys _ _).mpr (List.mem_map.mpr ⟨p, hp, rfl⟩)
    · exact hrefs p hp n h
  -- any order the sorter returns is ready
  have hready : ∀ (o : Orders) (order : List Node), OrdersOK o → (constGraph exprs).sort o = .ok order →
      order.Nodup ∧ (∀ x, x ∈ order ↔ x ∈ (constGraph exprs).nodes) ∧ DepsReady exprs order [] := by
    intro o order ho hs
    rcases (constGraph exprs).sort_spec o gwf ho with ⟨order', hso, hnd, hcover, htopo⟩ | ⟨c, hsc, _⟩
    · rw [hs] at hso; cases hso
      refine ⟨hnd, hcover, ?_⟩
      intro pre n post hsplit e he x hx
      right
      exact htopo pre n post hsplit x (gedges (x, n) (Or.inr ⟨(n, e), AMap.mem_of_get? _ _ _ he, rfl, hx⟩))
    · rw [hs] at hsc; cases hsc
  unfold resolveConstants at h
  cases hs₁ : (constGraph exprs).sort o₁ with
  | cycle c' => rw [hs₁] at h; simp at h
  | panic => rw [hs₁] at h; simp at h
  | ok order₁ =>
    rw [hs₁] at h
    simp only at h
    split at h
    · rename_i herr
      simp only [Except.ok.injEq] at h
      have hnil : (resolveLoop fl exprs order₁ [] []).2 = [] := by simpa using herr
      obtain ⟨hnd₁, hcov₁, hdeps₁⟩ := hready o₁ order₁ ho₁ hs₁
      obtain ⟨_, _, hall⟩ := resolveLoop_all fl exprs order₁ [] [] hnil
      -- the first run's table explains itself
      have hexpl : Explains fl exprs (resolveLoop fl exprs order₁ [] []).1 (resolveLoop fl exprs order₁ [] []).1 :=
        resolveLoop_explains fl exprs _ order₁ [] [] hnil (fun _ _ hh => hh) (by intro n _; rfl) hnd₁ hdeps₁
          (by intro n v hn; simp [AMap.get?] at hn)
      have htotal : ∀ name e, exprs.get? name = some e → ∃ v, (resolveLoop fl exprs order₁ [] []).1.get? name = some v := by
        intro name e he
        apply (AMap.contains_iff_lookup _ _).mp
        apply hall name
        rw [hcov₁]
        exact gkeys (name, e) (AMap.mem_of_get? _ _ _ he)
      obtain ⟨order₂, hs₂⟩ := (constGraph exprs).sort_ok_of_ok o₁ o₂ gwf ho₁ ho₂ order₁ hs₁
      obtain ⟨_, hcov₂, hdeps₂⟩ := hready o₂ order₂ ho₂ hs₂
      obtain ⟨b1, b2, b3⟩ := resolveLoop_follow fl exprs _ htotal hexpl order₂ [] []
        (fun n hn => hnodes n ((hcov₂ n).mp hn)) (by intro k v hkv; simp [AMap.get?] at hkv) hdeps₂
      unfold resolveConstants
      rw [hs₂]
      simp only
      rw [b1]
      simp only [List.isEmpty_nil, if_true]
      rw [← h]
      congr 1
      apply canonConsts_ext
      intro k hkk
      obtain ⟨p, hp, rfl⟩ := List.mem_map.mp hkk
      have hin : p.1 ∈ order₂ := (hcov₂ p.1).mpr (gkeys p hp)
      obtain ⟨v, hv⟩ := (AMap.contains_iff_lookup _ _).mp (b3 p.1 (Or.inr hin))
      show (resolveLoop fl exprs order₂ [] []).1.get? p.1 = _
      rw [b2 p.1 v hv]; exact hv
    · simp at h

/-! ### what step 1 guarantees about the constants' definitions -/

theorem constRefs_of_nil (s1 : Step1) (hce : constRefErrors s1 = []) :
    ∀ p ∈ s1.constantsRaw, ∀ r ∈ refs p.2, s1.constantsRaw.contains r = true := by
  intro p hp r hr
  unfold constRefErrors at hce
  by_cases hc : s1.constantsRaw.contains r = true
  · exact hc
  · exfalso
    have hc' : s1.constantsRaw.contains r = false := by simpa using hc
    have hocc : 0 < occurrences p.2 r := by
      unfold occurrences
      exact List.count_pos_iff.mpr hr
    have hmem : ∃ d, d ∈ (s1.constantsRaw.flatMap fun (p : String × Ex) =>
        (dedupS (refs p.2)).flatMap fun inName =>
          let isConstant := s1.constantsRaw.contains inName
          if s1.wires.contains inName && !isConstant then
            List.replicate (occurrences p.2 inName) (⟨.NonConstantWireRead, [inName]⟩ : Diag)
          else if !isConstant then
            List.replicate (occurrences p.2 inName) ⟨.UndeclaredWireRead, [inName]⟩
          else []) := by
      by_cases hw : s1.wires.contains r = true
      · refine ⟨⟨.NonConstantWireRead, [r]⟩, ?_⟩
        refine List.mem_flatMap.mpr ⟨p, hp, List.mem_flatMap.mpr ⟨r, (mem_dedupS _ _).mpr hr, ?_⟩⟩
        simp only [hw, hc', Bool.not_false, Bool.and_self, if_true]
        exact List.mem_replicate.mpr ⟨by omega, rfl⟩
      · have hw' : s1.wires.contains r = false := by simpa using hw
        refine ⟨⟨.UndeclaredWireRead, [r]⟩, ?_⟩
        refine List.mem_flatMap.mpr ⟨p, hp, List.mem_flatMap.mpr ⟨r, (mem_dedupS _ _).mpr hr, ?_⟩⟩
        simp only [hw', hc', Bool.false_and, Bool.false_eq_true, if_false, Bool.not_false, if_true]
        exact List.mem_replicate.mpr ⟨by omega, rfl⟩
    obtain ⟨d, hd⟩ := hmem
    rw [hce] at hd
    simp at hd

/-- an accepted program passed the constant-reference test of step 1 -/
theorem Program_new_constRefs (fl : Flags) (cls : CharClass) (o : Orders) (stmts : List Stmt) (p : Program)
    (h : Program.new fl cls o y86FixedFunctions stmts = .ok p) : constRefErrors (step1Of stmts) = [] := by
  unfold Program.new at h
  simp only at h
  split at h
  · simp at h
  · rename_i herrs1
    simp only [Bool.not_eq_true', List.isEmpty_eq_false_iff, ne_eq, Decidable.not_not, List.append_eq_nil_iff] at herrs1
    exact herrs1.2
