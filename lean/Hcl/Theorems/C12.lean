import Hcl.Theorems.C01
import Hcl.Theorems.C10

/-!
# C12 — results are deterministic: same inputs, same output, on every run

The only source of run-to-run variation is the iteration order of the randomly seeded hash tables.
In the model those orders are explicit data (`KGraph`/`Graph` node and successor lists, the order
of the action list), and the theorems quantify over all of them.
-/

theorem IsPath_congr {g₁ g₂ : Graph} (h : ∀ u v, v ∈ g₁.succ u ↔ v ∈ g₂.succ u) :
    ∀ c : List Node, IsPath g₁ c → IsPath g₂ c
  | [], _ => trivial
  | [_], _ => trivial
  | a :: b :: t, hp => ⟨(h a b).mp hp.1, IsPath_congr h (b :: t) hp.2⟩

theorem IsCycle_congr {g₁ g₂ : Graph} (h : ∀ u v, v ∈ g₁.succ u ↔ v ∈ g₂.succ u) (c : List Node)
    (hc : IsCycle g₁ c) : IsCycle g₂ c := by
  cases c with
  | nil => exact hc
  | cons x t => exact ⟨IsPath_congr h _ hc.1, (h _ _).mp hc.2⟩

/-- **C12, rejection for a loop does not depend on the hash order.**  Two runs see the same dependency
    graph under different iteration orders (`kg₁/dg₁` and `kg₂/dg₂`): either both report a loop or
    both produce a schedule.  (Which loop is shown may differ.) -/
theorem C12_loop_verdict_order_independent (kg₁ kg₂ : KGraph) (dg₁ dg₂ : Graph)
    (wf₁ : KWF kg₁) (wf₂ : KWF kg₂) (s₁ : SameGraph kg₁ dg₁) (s₂ : SameGraph kg₂ dg₂)
    (hsame : ∀ u v, v ∈ dg₁.succ u ↔ v ∈ dg₂.succ u) :
    (∃ c, topologicalSort kg₁ dg₁ = .cycle c) ↔ (∃ c, topologicalSort kg₂ dg₂ = .cycle c) := by
  rw [C10_cycle_iff kg₁ dg₁ wf₁ s₁, C10_cycle_iff kg₂ dg₂ wf₂ s₂]
  constructor
  · rintro ⟨c, hc⟩; exact ⟨c, IsCycle_congr hsame c hc⟩
  · rintro ⟨c, hc⟩; exact ⟨c, IsCycle_congr (fun u v => (hsame u v).symm) c hc⟩

/-- **C12, values do not depend on the evaluation order.**  Any two valid schedules of the same set
    of actions (what two runs with different hash seeds produce for one program) leave every wire with
    the same value at the end of the cycle; with `C07_soundness`/`C03_edge` (which do not mention the
    order) the whole run, and hence everything printed from the final state, coincides. -/
theorem C12_values_schedule_independent (fl : Flags) (pre₁ pre₂ fin₁ fin₂ : List Action) (s t₁ t₂ : State) (base : List String)
    (hv₁ : ValidFrom [] pre₁) (hv₂ : ValidFrom [] pre₂) (hsame : ∀ a, a ∈ pre₁ ↔ a ∈ pre₂)
    (hre : ReadsEarlier base pre₁) (hbase : ∀ x ∈ base, x ∉ pre₁.map Action.out)
    (hf₁ : ∀ a ∈ fin₁, a.isPure = false) (hf₂ : ∀ a ∈ fin₂, a.isPure = false)
    (h₁ : execActions fl (pre₁ ++ fin₁) s = .ok t₁) (h₂ : execActions fl (pre₂ ++ fin₂) s = .ok t₂) :
    ∀ x, t₁.values.toEnv x = t₂.values.toEnv x :=
  C01_order_independent fl pre₁ pre₂ fin₁ fin₂ s t₁ t₂ base hv₁ hv₂ hsame hre hbase hf₁ hf₂ h₁ h₂
