"""C03 — register banks update only at the clock edge, honouring stall and bubble."""
from props import C19
from props import C16
import re
from props.common_prog import judge_prog

THEOREM_MODULES = ["Hcl.Theorems.C03", "Hcl.Tie.Banks", "Hcl.Tie.PinsInit", "Hcl.Tie.PinsDump"]
THEOREMS = {"Hcl.Tie.Banks": ["Tie.Banks.processBanksText"], "Hcl.Theorems.C03": ["C03_accepted", "C03_bank_edge", "C03_edge", "foldDefaults", "foldSignals"],
            "Hcl.Tie.PinsInit": ["Tie.PinsInit.pinInitialState"],
            "Hcl.Tie.PinsDump": ["Tie.PinsDump.pinDumpBank", "Tie.PinsDump.pinDumpCustom"]}

RULE = ("S-PROG banks profile: 1-4 register banks (pairwise distinct prefix letters, 1-4 registers of widths 0..128, "
        "constant and expression defaults), stall and bubble of each bank driven independently from a counter register so "
        "that they are asserted together, released again and differ per bank, 1-12 cycles; all wire values incl. every "
        "bank output after every clock edge are compared with the Lean model (correspondence) and with Spec.cycle's "
        "bubble > stall > load rule (oracle). non-trivial = accepted programs with at least one extra bank; distinct = texts.")


def judge(req, impl, model, spec):
    j = judge_prog(req, impl, model, spec)
    if not impl.startswith("ok") or "tag-bank" not in j["cats"]:
        j["key"] = None
    # coverage of the control patterns actually exercised
    for m in re.finditer(r"(stall|bubble)_([A-Z])=1/1", impl):
        j["cats"].append(m.group(1) + "-asserted")
    return j


def streams(tier, seed):
    q = tier == "quick"
    return [{"name": "prog-banks", "stream": "prog", "count": 500 if q else 20000, "extra": ("banks",), "judge": judge},
            {"name": "prog-dag", "stream": "prog", "count": 150 if q else 5000, "extra": ("dag",), "judge": judge},
            # what the user sees goes through the command line and the two files: the real binary on accepted, rejected, big, not-UTF-8, bare-CR files, good and malformed images, all options and TIMEOUT forms (as in C19)
            {"name": "cli", "stream": "cli", "count": 200 if q else 5000, "pygen": C19.pygen, "judge": C19.judge},
            # the registers are seen through the state dump: a bank's line shows its OUTPUT signals (what the registers hold), also
            # right after a cycle in which the bank was stalled or bubbled, when inputs and outputs differ (as in C16)
            {"name": "dump", "stream": "dump", "count": 600 if q else 20000, "judge": C16.judge}]
