import Hcl.Proofs.SpecFaultsDesign
import Hcl.Proofs.SpecFaultsBridge
import Hcl.Proofs.SpecFaultsReach
import Hcl.Proofs.CompleteConsts
import Hcl.Proofs.Stage2
open Rust Reorder

/-! # Constants: the specification's sweeps against the model's `resolve_constants` -/

namespace SF

/-- which names are constants -/
def K (stmts : List Stmt) : String → Bool := (constNames stmts).contains

theorem K_iff (stmts : List Stmt) (n : String) : K stmts n = true ↔ n ∈ constNames stmts := by
  unfold K; simp

theorem isTrue_eq (stmts : List Stmt) : isTrue stmts = truthOf (K stmts) (Spec.design stmts).Γ (constEnv stmts) := rfl

/-- the constant table the specification computes, as a function -/
def specEnv (stmts : List Stmt) : Env := fun n =>
  ((cst stmts).1.lookup n).map (fun w => (⟨(cst stmts).2.get n, w⟩ : WireValue))

/-- the model's table `c` is the table the specification computes, and every constant is in it -/
structure ConstsMatch (stmts : List Stmt) (c : AMap WireValue) : Prop where
  get : ∀ n, c.toEnv n = specEnv stmts n
  all : ∀ n ∈ constNames stmts, (cst stmts).2.has n = true

theorem lookup_map_val {α β : Type} (f : String → α → β) (n : String) : ∀ (l : List (String × α)),
    (l.map (fun p => (p.1, f p.1 p.2))).lookup n = (l.lookup n).map (f n)
  | [] => rfl
  | (a, b) :: rest => by
    simp only [List.map_cons, List.lookup]
    by_cases h : n = a
    · subst h; simp
    · have : (n == a) = false := by simpa using h
      simp only [this]
      exact lookup_map_val f n rest

/-- the specification's table as an association list -/
def specTable (stmts : List Stmt) : AMap WireValue :=
  (cst stmts).1.map (fun p => (p.1, (⟨(cst stmts).2.get p.1, p.2⟩ : WireValue)))

theorem specTable_toEnv (stmts : List Stmt) (n : String) : (specTable stmts).toEnv n = specEnv stmts n := by
  unfold specTable AMap.toEnv specEnv
  exact lookup_map_val (fun k w => (⟨(cst stmts).2.get k, w⟩ : WireValue)) n _

/-! ### what a matching table says -/

theorem get_zero_of_lookup_none (stmts : List Stmt) (n : String) (h : (cst stmts).1.lookup n = none) : (cst stmts).2.get n = 0 := by
  have hinv := cst_inv stmts
  have hh : (cst stmts).2.has n = false := by
    cases hc : (cst stmts).2.has n with
    | false => rfl
    | true =>
      have := (hinv.has_iff_lookup n).mp hc
      rw [h] at this; cases this
  rw [has_eq, AMap.contains_eq_isSome] at hh
  rw [get_eq]
  cases hl : List.lookup n (cst stmts).2 with
  | none => rfl
  | some v => rw [hl] at hh; cases hh

section
variable {stmts : List Stmt} {c : AMap WireValue} (hget : ∀ n, c.toEnv n = specEnv stmts n)
include hget

theorem val_eq (n : String) : val c.toEnv n = constEnv stmts n := by
  unfold val
  rw [hget n, constEnv_eq]
  unfold specEnv
  cases hl : (cst stmts).1.lookup n with
  | none => simp only [Option.map_none]; exact (get_zero_of_lookup_none stmts n hl).symm
  | some w => rfl

theorem wOf_eq (n : String) : (wOf c).toCtx n = (cst stmts).1.lookup n := by
  rw [wOf_toCtx, hget n]
  unfold specEnv
  cases (cst stmts).1.lookup n <;> rfl

theorem toEnv_none (n : String) (h : K stmts n = false) : c.toEnv n = none := by
  rw [hget n]
  unfold specEnv
  have : n ∉ constNames stmts := by
    intro hm; rw [(K_iff stmts n).mpr hm] at h; cases h
  rw [cst_lookup_none stmts n this]; rfl

end

/-- the tables of the bridge, over the context of the constants alone -/
theorem tables_consts {stmts : List Stmt} {c : AMap WireValue} (hout : ∀ n, K stmts n = false → c.toEnv n = none)
    (hc : ConstOK c) : Tables (K stmts) (wOf c).toCtx c.toEnv where
  ctx := (constCtx_ok c hc).1
  outside := hout
  env := fun n _ w hw => (constCtx_ok c hc).2 [n] n List.mem_cons_self w hw

/-! ### one definition -/

/-- a definition that obeys the specification's rules and has a value there passes the model's checker and evaluates
    to that value at that width — in any context `Γ` that fits the table and knows the constants the definition mentions -/
theorem def_ok (fl : Flags) {cls : CharClass} {stmts : List Stmt} (hb : Basic cls stmts) {c : AMap WireValue}
    (hget : ∀ n, c.toEnv n = specEnv stmts n) (Γ : Ctx) (ht : Tables (K stmts) Γ c.toEnv)
    (e : Ex) (hwf : wfEx e = true) (hplain : ∀ cd ∈ conds e, Plain (K stmts) cd = true)
    (hrefsK : ∀ r ∈ refs e, r ∈ constNames stmts)
    (hΓ : ∀ r ∈ refs e, Γ r = (cst stmts).1.lookup r) :
    Spec.typeOf fl (Spec.design stmts).Γ (isTrue stmts) e = okOf (check fl Γ c.toEnv e) ∧
    ∀ w, check fl Γ c.toEnv e = .ok w →
      w.ok ∧ w = Spec.sw (Spec.design stmts).Γ e ∧
      (match Spec.dv (Spec.design stmts).Γ (constEnv stmts) e with
       | some v => ev fl c.toEnv (fixMux fl Γ c.toEnv e) = .ok ⟨v, w⟩ ∧ v < w.card
       | none => ev fl c.toEnv (fixMux fl Γ c.toEnv e) = .error .divideByZero) := by
  have hΓ' : ∀ n ∈ refs e, (Spec.design stmts).Γ n = Γ n := by
    intro n hn
    rw [hb.Γ_const n (hrefsK n hn), hΓ n hn]
  have hσ : ∀ n ∈ refs e, K stmts n = true → constEnv stmts n = val c.toEnv n := fun n _ _ => (val_eq hget n).symm
  refine ⟨?_, ?_⟩
  · rw [isTrue_eq]
    exact typeOf_eq_check fl (K stmts) Γ c.toEnv ht _ _ e hΓ' hσ hplain hwf
  · intro w hck
    exact dv_eq_ev fl (K stmts) Γ c.toEnv ht _ _ e hΓ' hσ (fun n hn => (K_iff stmts n).mpr (hrefsK n hn)) hwf w hck

/-! ### the dependency relation of the constants -/

theorem mem_eConst (stmts : List Stmt) (u v : String) :
    (u, v) ∈ eConst stmts ↔ ∃ e, (v, e) ∈ (el stmts).constDefs ∧ u ∈ refs e := by
  unfold eConst
  simp only [List.mem_flatMap, List.mem_map, Prod.mk.injEq]
  constructor
  · rintro ⟨p, hp, n, hn, rfl, rfl⟩
    exact ⟨p.2, hp, (mem_dedup _ _).mp hn⟩
  · rintro ⟨e, he, hu⟩
    exact ⟨(v, e), he, u, (mem_dedup _ _).mpr hu, rfl, rfl⟩

theorem constCycle_iff (stmts : List Stmt) :
    (¬ ∃ cy, RelCycle (ConstDep (el stmts).constDefs) cy) ↔ Spec.cyclicNodes (eConst stmts) = [] := by
  rw [cyclicNodes_nil_iff]
  have h1 : ∀ u v, ConstDep (el stmts).constDefs u v ↔ (u, v) ∈ eConst stmts := by
    intro u v; rw [mem_eConst]; rfl
  constructor
  · rintro h ⟨cy, hc⟩
    exact h ⟨cy, relCycle_mono (fun u v huv => (h1 u v).mpr huv) cy hc⟩
  · rintro h ⟨cy, hc⟩
    exact h ⟨cy, relCycle_mono (fun u v huv => (h1 u v).mp huv) cy hc⟩

/-! ### the specification's fault list for constants -/

theorem wConst_nil_iff (fl : Flags) (stmts : List Stmt) :
    wConst fl stmts = [] ↔ ∀ p ∈ (el stmts).constDefs,
      (∃ w, Spec.typeOf fl (Spec.design stmts).Γ (isTrue stmts) p.2 = some w) ∧
      (∃ v, Spec.dv (Spec.design stmts).Γ (constEnv stmts) p.2 = some v) := by
  unfold wConst
  rw [List.filterMap_eq_nil_iff]
  apply forall_congr'
  intro p
  apply forall_congr'
  intro _
  cases h1 : Spec.typeOf fl (Spec.design stmts).Γ (isTrue stmts) p.2 with
  | none => simp
  | some w =>
    cases h2 : Spec.dv (Spec.design stmts).Γ (constEnv stmts) p.2 with
    | none => simp
    | some v => simp

end SF

namespace SF

/-! ### the entry the sweeps record for a constant -/

theorem constDefs_keys_nodup {cls : CharClass} {stmts : List Stmt} (hb : Basic cls stmts) :
    (AMap.keys (el stmts).constDefs).Nodup := (List.nodup_append.mp hb.declNodup).2.1

/-- a constant the sweeps have resolved carries the width and the value of its definition in the final tables -/
theorem entry_of_def {cls : CharClass} {stmts : List Stmt} (hb : Basic cls stmts) (x : String) (e : Ex)
    (hxe : (x, e) ∈ (el stmts).constDefs) (hrefsK : ∀ r ∈ refs e, r ∈ constNames stmts)
    (hhas : (cst stmts).2.has x = true) :
    (cst stmts).1.lookup x = some (Spec.sw (Spec.design stmts).Γ e) ∧
    Spec.dv (Spec.design stmts).Γ (constEnv stmts) e = some ((cst stmts).2.get x) := by
  obtain ⟨e', he', _, hdv, hlk⟩ := (cst_inv stmts).expl x hhas
  have hee : e' = e := by
    have := key_inj (el stmts).constDefs (constDefs_keys_nodup hb) (x, e') he' (x, e) hxe rfl
    exact (Prod.mk.injEq _ _ _ _ ▸ this).2
  subst hee
  have hΓ : ∀ r ∈ refs e', (Spec.design stmts).Γ r = cΓ (cst stmts) r := fun r hr => hb.Γ_const r (hrefsK r hr)
  constructor
  · rw [hlk, sw_congr _ _ e' hΓ]
  · rw [dv_congr _ (cΓ (cst stmts)) _ (cst stmts).2.get e' hΓ (fun r _ => by rw [constEnv_eq]), hdv]

/-! ### a context that only knows the entries that are in order -/

open Classical in
/-- the constants whose recorded width is proper and whose recorded value fits it -/
noncomputable def okCtx (stmts : List Stmt) : Ctx := fun n =>
  match (cst stmts).1.lookup n with
  | some w => if w.ok ∧ (cst stmts).2.get n < w.card then some w else none
  | none => none

theorem okCtx_some (stmts : List Stmt) (n : String) (w : Width) (h : okCtx stmts n = some w) :
    (cst stmts).1.lookup n = some w ∧ w.ok ∧ (cst stmts).2.get n < w.card := by
  unfold okCtx at h
  cases hl : (cst stmts).1.lookup n with
  | none => rw [hl] at h; cases h
  | some w' =>
    rw [hl] at h
    simp only at h
    split at h
    · rename_i hc
      cases h
      exact ⟨rfl, hc⟩
    · cases h

theorem okCtx_eq (stmts : List Stmt) (n : String)
    (h : ∀ w, (cst stmts).1.lookup n = some w → w.ok ∧ (cst stmts).2.get n < w.card) :
    okCtx stmts n = (cst stmts).1.lookup n := by
  unfold okCtx
  cases hl : (cst stmts).1.lookup n with
  | none => rfl
  | some w => simp only; rw [if_pos (h w hl)]

theorem tables_ok (stmts : List Stmt) : Tables (K stmts) (okCtx stmts) (specTable stmts).toEnv where
  ctx := fun n w hw => (okCtx_some stmts n w hw).2.1
  outside := toEnv_none (specTable_toEnv stmts)
  env := by
    intro n _ w hw
    obtain ⟨h1, _, h3⟩ := okCtx_some stmts n w hw
    refine ⟨(cst stmts).2.get n, ?_, h3⟩
    rw [specTable_toEnv]; unfold specEnv; rw [h1]; rfl

theorem order_induction (P : String → Prop) (order : List String)
    (step : ∀ pre x post, order = pre ++ x :: post → (∀ y ∈ pre, P y) → P x) : ∀ x ∈ order, P x := by
  have main : ∀ (post pre : List String), order = pre ++ post → (∀ y ∈ pre, P y) → ∀ x ∈ post, P x := by
    intro post
    induction post with
    | nil => intro _ _ _ x hx; cases hx
    | cons a rest ih =>
      intro pre hs hpre x hx
      have ha : P a := step pre a rest hs hpre
      rcases List.mem_cons.mp hx with rfl | hx
      · exact ha
      · apply ih (pre ++ [a]) (by rw [hs]; simp) _ x hx
        intro y hy
        rcases List.mem_append.mp hy with h | h
        · exact hpre y h
        · simp at h; rw [h]; exact ha
  exact main order [] rfl (fun y hy => by cases hy)

end SF

namespace SF

/-! ### specification ⇒ model -/

theorem okOf_some {α : Type} (x : C α) (a : α) (h : some a = okOf x) : x = .ok a := by
  cases x with
  | ok b => simp only [okOf, Option.some.injEq] at h; rw [h]
  | error ds => cases h

/-- **the constants, specification ⇒ model**: if the specification finds no width fault and no loop among the constants
    (and they read constants only), `resolve_constants` succeeds, with the table the specification computes -/
theorem consts_sound (fl : Flags) {cls : CharClass} (o : Orders) {stmts : List Stmt} (ho : OrdersOK o) (hb : Basic cls stmts)
    (hcwf : ∀ p ∈ (el stmts).constDefs, wfEx p.2 = true)
    (hrefs : ∀ p ∈ (el stmts).constDefs, ∀ r ∈ refs p.2, r ∈ constNames stmts)
    (hplain : ∀ p ∈ (el stmts).constDefs, ∀ cd ∈ conds p.2, Plain (K stmts) cd = true)
    (hw : wConst fl stmts = []) (hl : Spec.cyclicNodes (eConst stmts) = []) :
    ∃ c, resolveConstants fl o (el stmts).constDefs = .ok c ∧ ConstsMatch stmts c ∧ ConstOK c := by
  have hk := constDefs_keys_nodup hb
  have hrefs' : ∀ p ∈ (el stmts).constDefs, ∀ r ∈ refs p.2, AMap.contains (el stmts).constDefs r = true := by
    intro p hp r hr
    exact (AMap.contains_iff_mem_keys _ _).mpr (hrefs p hp r hr)
  have hacyc := (constCycle_iff stmts).mpr hl
  obtain ⟨order, hs⟩ := (constGraph_sort_ok_iff o _ ho hk hrefs').mpr hacyc
  obtain ⟨f1, _, _⟩ := constGraph_facts o _ ho hk hrefs'
  obtain ⟨hnd, hsome, hin, htopo⟩ := f1 order hs
  have hwc := (wConst_nil_iff fl stmts).mp hw
  -- every element of the order has a definition whose names come earlier
  have htopo' : ∀ pre x post, order = pre ++ x :: post → ∃ e, (x, e) ∈ (el stmts).constDefs ∧ ∀ r ∈ refs e, r ∈ pre := by
    intro pre x post hsplit
    have hx : x ∈ order := by rw [hsplit]; simp
    obtain ⟨e, he⟩ := Option.isSome_iff_exists.mp (hsome x hx)
    have hm := AMap.mem_of_get? _ _ _ he
    exact ⟨e, hm, fun r hr => htopo pre x post hsplit r ⟨e, hm, hr⟩⟩
  have hsub : ∀ x ∈ order, x ∈ (el stmts).constDefs.map (·.1) := by
    intro x hx
    obtain ⟨e, he⟩ := Option.isSome_iff_exists.mp (hsome x hx)
    exact List.mem_map.mpr ⟨(x, e), AMap.mem_of_get? _ _ _ he, rfl⟩
  have hlen : order.length ≤ (el stmts).constDefs.length + 1 := by
    have := List.Nodup.length_le_of_subset hnd hsub
    rw [List.length_map] at this
    omega
  -- all constants are resolved by the sweeps
  have hhas : ∀ x ∈ order, (cst stmts).2.has x = true := by
    apply elabConsts_complete sw_congr dv_congr _ order htopo' _ hlen
    intro x _ e hxe _
    obtain ⟨v, hv⟩ := (hwc (x, e) hxe).2
    have hΓ : ∀ r ∈ refs e, (Spec.design stmts).Γ r = cΓ (cst stmts) r := fun r hr => hb.Γ_const r (hrefs (x, e) hxe r hr)
    have : Spec.dv (cΓ (cst stmts)) (cst stmts).2.get e = some v := by
      rw [← dv_congr (Spec.design stmts).Γ (cΓ (cst stmts)) (constEnv stmts) (cst stmts).2.get e hΓ
        (fun r _ => by rw [constEnv_eq])]
      exact hv
    show Spec.dv (cΓ (cst stmts)) (cst stmts).2.get e ≠ none
    rw [this]; exact fun h => by cases h
  have hall : ∀ n ∈ constNames stmts, n ∈ order := by
    intro n hn
    obtain ⟨p, hp, hpn⟩ := List.mem_map.mp hn
    obtain ⟨a, e⟩ := p
    simp only at hpn; subst hpn
    exact hin a e (AMap.get?_of_mem_nodup _ _ _ hk hp)
  -- phase 1: every recorded entry is in order
  have hgetR := specTable_toEnv stmts
  have hP : ∀ x ∈ order, ∀ w, (cst stmts).1.lookup x = some w → w.ok ∧ (cst stmts).2.get x < w.card := by
    apply order_induction
    intro pre x post hsplit hpre w hlk
    have hx : x ∈ order := by rw [hsplit]; simp
    obtain ⟨e, hxe, hpreR⟩ := htopo' pre x post hsplit
    obtain ⟨⟨w1, hty⟩, ⟨v1, hdv⟩⟩ := hwc (x, e) hxe
    obtain ⟨h1, h2⟩ := def_ok fl hb hgetR (okCtx stmts) (tables_ok stmts) e (hcwf _ hxe) (hplain _ hxe) (hrefs _ hxe)
      (fun r hr => okCtx_eq stmts r (hpre r (hpreR r hr)))
    rw [hty] at h1
    obtain ⟨wok, wsw, hm⟩ := h2 w1 (okOf_some _ _ h1)
    rw [hdv] at hm
    simp only at hm
    obtain ⟨e1, e2⟩ := entry_of_def hb x e hxe (hrefs _ hxe) (hhas x hx)
    rw [hlk, ← wsw] at e1
    rw [hdv] at e2
    simp only [Option.some.injEq] at e1 e2
    rw [e1, ← e2]
    exact ⟨wok, hm.2⟩
  -- phase 2: the table is in order, and every definition evaluates to its entry
  have hokR : ConstOK (specTable stmts) := by
    intro k v hkv
    have hkv' : (specTable stmts).toEnv k = some v := hkv
    rw [hgetR] at hkv'
    unfold specEnv at hkv'
    cases hlk : (cst stmts).1.lookup k with
    | none => rw [hlk] at hkv'; cases hkv'
    | some w =>
      rw [hlk] at hkv'
      simp only [Option.map_some, Option.some.injEq] at hkv'
      subst hkv'
      have hkc : k ∈ constNames stmts := by
        apply (cst_inv stmts).dom_defs k
        exact ((cst_inv stmts).has_iff_lookup k).mpr (by rw [hlk]; rfl)
      exact hP k (hall k hkc) w hlk
  have hR : ∀ n e, AMap.get? (el stmts).constDefs n = some e →
      ∃ v, (specTable stmts).get? n = some v ∧ constVal fl (specTable stmts) e = .ok v := by
    intro n e hne
    have hxe := AMap.mem_of_get? _ _ _ hne
    have hn : n ∈ order := hin n e hne
    obtain ⟨⟨w1, hty⟩, ⟨v1, hdv⟩⟩ := hwc (n, e) hxe
    obtain ⟨h1, h2⟩ := def_ok fl hb hgetR (wOf (specTable stmts)).toCtx (tables_consts (toEnv_none hgetR) hokR) e (hcwf _ hxe)
      (hplain _ hxe) (hrefs _ hxe) (fun r _ => wOf_eq hgetR r)
    rw [hty] at h1
    have hck := okOf_some _ _ h1
    obtain ⟨_, wsw, hm⟩ := h2 w1 hck
    rw [hdv] at hm
    simp only at hm
    obtain ⟨e1, e2⟩ := entry_of_def hb n e hxe (hrefs _ hxe) (hhas n hn)
    rw [hdv] at e2
    simp only [Option.some.injEq] at e2
    refine ⟨⟨v1, w1⟩, ?_, ?_⟩
    · show (specTable stmts).toEnv n = _
      rw [hgetR]; unfold specEnv
      rw [e1, ← wsw, ← e2]; rfl
    · unfold constVal checkFixEval
      rw [hck]
      simp only
      rw [hm.1]
  obtain ⟨c, hc⟩ := (resolveConstants_ok_iff fl o _ ho hk hrefs').mpr ⟨hacyc, specTable stmts, hR⟩
  have htab := resolveConstants_table fl o _ ho hk hrefs' (specTable stmts) hR c hc
  have hgetc : ∀ n, c.toEnv n = specEnv stmts n := by
    intro n
    rw [← hgetR n]
    by_cases hn : n ∈ constNames stmts
    · obtain ⟨p, hp, hpn⟩ := List.mem_map.mp hn
      obtain ⟨a, e⟩ := p
      simp only at hpn; subst hpn
      exact htab a e (AMap.get?_of_mem_nodup _ _ _ hk hp)
    · have h1 : c.toEnv n = none := by
        cases hcn : c.toEnv n with
        | none => rfl
        | some v => exact absurd (resolveConstants_keys fl o _ c hc n v hcn) hn
      rw [h1, hgetR]
      unfold specEnv
      rw [cst_lookup_none stmts n hn]; rfl
  refine ⟨c, hc, ⟨hgetc, fun n hn => hhas n (hall n hn)⟩, ?_⟩
  intro k v hkv
  apply hokR k v
  show (specTable stmts).toEnv k = some v
  rw [hgetR, ← hgetc]; exact hkv

end SF

namespace SF

/-! ### model ⇒ specification -/

/-- **the constants, model ⇒ specification**: when `resolve_constants` succeeds, the specification's sweeps compute the
    same table, and the specification finds no width fault and no loop among the constants -/
theorem consts_complete (fl : Flags) {cls : CharClass} (o : Orders) {stmts : List Stmt} (ho : OrdersOK o) (hb : Basic cls stmts)
    (hcwf : ∀ p ∈ (el stmts).constDefs, wfEx p.2 = true)
    (hrefs : ∀ p ∈ (el stmts).constDefs, ∀ r ∈ refs p.2, r ∈ constNames stmts)
    (hplain : ∀ p ∈ (el stmts).constDefs, ∀ cd ∈ conds p.2, Plain (K stmts) cd = true)
    (c : AMap WireValue) (hc : resolveConstants fl o (el stmts).constDefs = .ok c) :
    ConstsMatch stmts c ∧ ConstOK c ∧ wConst fl stmts = [] ∧ Spec.cyclicNodes (eConst stmts) = [] := by
  have hk := constDefs_keys_nodup hb
  have hrefs' : ∀ p ∈ (el stmts).constDefs, ∀ r ∈ refs p.2, AMap.contains (el stmts).constDefs r = true := by
    intro p hp r hr
    exact (AMap.contains_iff_mem_keys _ _).mpr (hrefs p hp r hr)
  have hok : ConstOK c := resolveConstants_constOK fl o _ c hcwf hc
  have hrules := resolveConstants_rules fl o _ ho hk hrefs' c hc
  have hkeys := resolveConstants_keys fl o _ c hc
  have hacyc := ((resolveConstants_ok_iff fl o _ ho hk hrefs').mp ⟨c, hc⟩).1
  have hout : ∀ n, K stmts n = false → c.toEnv n = none := by
    intro n hn
    cases hcn : c.toEnv n with
    | none => rfl
    | some v =>
      have := (K_iff stmts n).mpr (hkeys n v hcn)
      rw [hn] at this; cases this
  have ht := tables_consts hout hok
  obtain ⟨order, hs⟩ := (constGraph_sort_ok_iff o _ ho hk hrefs').mpr hacyc
  obtain ⟨f1, _, _⟩ := constGraph_facts o _ ho hk hrefs'
  obtain ⟨hnd, hsome, hin, htopo⟩ := f1 order hs
  have htopo' : ∀ pre x post, order = pre ++ x :: post → ∃ e, (x, e) ∈ (el stmts).constDefs ∧ ∀ r ∈ refs e, r ∈ pre := by
    intro pre x post hsplit
    have hx : x ∈ order := by rw [hsplit]; simp
    obtain ⟨e, he⟩ := Option.isSome_iff_exists.mp (hsome x hx)
    have hm := AMap.mem_of_get? _ _ _ he
    exact ⟨e, hm, fun r hr => htopo pre x post hsplit r ⟨e, hm, hr⟩⟩
  have hsub : ∀ x ∈ order, x ∈ (el stmts).constDefs.map (·.1) := by
    intro x hx
    obtain ⟨e, he⟩ := Option.isSome_iff_exists.mp (hsome x hx)
    exact List.mem_map.mpr ⟨(x, e), AMap.mem_of_get? _ _ _ he, rfl⟩
  have hlen : order.length ≤ (el stmts).constDefs.length + 1 := by
    have := List.Nodup.length_le_of_subset hnd hsub
    rw [List.length_map] at this
    omega
  -- what the model's table says about one definition
  have hdef : ∀ x e, (x, e) ∈ (el stmts).constDefs → ∃ v0 w, c.toEnv x = some v0 ∧
      check fl (wOf c).toCtx c.toEnv e = .ok w ∧ w = Spec.sw (wOf c).toCtx e ∧
      ∃ v, Spec.dv (wOf c).toCtx (val c.toEnv) e = some v ∧ v0 = ⟨v, w⟩ := by
    intro x e hxe
    obtain ⟨v0, hv0, hcv⟩ := hrules x e (AMap.get?_of_mem_nodup _ _ _ hk hxe)
    unfold constVal checkFixEval at hcv
    cases hck : check fl (wOf c).toCtx c.toEnv e with
    | error ds => rw [hck] at hcv; cases hcv
    | ok w =>
      rw [hck] at hcv
      simp only at hcv
      obtain ⟨_, wsw, hm⟩ := dv_eq_ev fl (K stmts) _ _ ht (wOf c).toCtx (val c.toEnv) e (fun _ _ => rfl) (fun _ _ _ => rfl)
        (fun n hn => (K_iff stmts n).mpr (hrefs _ hxe n hn)) (hcwf _ hxe) w hck
      refine ⟨v0, w, hv0, rfl, wsw, ?_⟩
      cases hd : Spec.dv (wOf c).toCtx (val c.toEnv) e with
      | none =>
        rw [hd] at hm
        simp only at hm
        rw [hm] at hcv
        cases hcv
      | some v =>
        rw [hd] at hm
        simp only at hm
        rw [hm.1] at hcv
        simp only [Except.ok.injEq] at hcv
        exact ⟨v, rfl, hcv.symm⟩
  -- the sweeps agree with the model's table
  have hag : AgreesWith (wOf c).toCtx (val c.toEnv) (cst stmts) := by
    apply elabConsts_agrees sw_congr dv_congr
    intro x e hxe _ v hv
    obtain ⟨v0, w, h0, _, wsw, v', hv', e0⟩ := hdef x e hxe
    rw [hv] at hv'
    simp only [Option.some.injEq] at hv'
    subst hv'
    subst e0
    constructor
    · rw [wOf_toCtx, h0, ← wsw]; rfl
    · unfold val; rw [h0]
  have hhas : ∀ x ∈ order, (cst stmts).2.has x = true := by
    apply elabConsts_complete sw_congr dv_congr _ order htopo' _ hlen
    intro x _ e hxe hr
    obtain ⟨v0, w, _, _, _, v', hv', _⟩ := hdef x e hxe
    show Spec.dv (cΓ (cst stmts)) (cst stmts).2.get e ≠ none
    rw [dv_congr (cΓ (cst stmts)) (wOf c).toCtx (cst stmts).2.get (val c.toEnv) e
      (fun r hrr => (hag r (hr r hrr)).1) (fun r hrr => (hag r (hr r hrr)).2), hv']
    exact fun h => by cases h
  have hall : ∀ n ∈ constNames stmts, (cst stmts).2.has n = true := by
    intro n hn
    obtain ⟨p, hp, hpn⟩ := List.mem_map.mp hn
    obtain ⟨a, e⟩ := p
    simp only at hpn; subst hpn
    exact hhas a (hin a e (AMap.get?_of_mem_nodup _ _ _ hk hp))
  have hget : ∀ n, c.toEnv n = specEnv stmts n := by
    intro n
    unfold specEnv
    by_cases hn : n ∈ constNames stmts
    · obtain ⟨h1, h2⟩ := hag n (hall n hn)
      rw [h1, h2, wOf_toCtx]
      unfold val
      cases c.toEnv n <;> rfl
    · rw [cst_lookup_none stmts n hn]
      exact hout n (by
        cases hk' : K stmts n with
        | false => rfl
        | true => exact absurd ((K_iff stmts n).mp hk') hn)
  refine ⟨⟨hget, hall⟩, hok, ?_, (constCycle_iff stmts).mp hacyc⟩
  rw [wConst_nil_iff]
  intro p hp
  obtain ⟨x, e⟩ := p
  obtain ⟨v0, w, h0, hck, _, _⟩ := hdef x e hp
  obtain ⟨h1, h2⟩ := def_ok fl hb hget (wOf c).toCtx ht e (hcwf _ hp) (hplain _ hp) (hrefs _ hp) (fun r _ => wOf_eq hget r)
  refine ⟨⟨w, by rw [h1, hck]; rfl⟩, ?_⟩
  obtain ⟨_, _, hm⟩ := h2 w hck
  cases hd : Spec.dv (Spec.design stmts).Γ (constEnv stmts) e with
  | some v => exact ⟨v, rfl⟩
  | none =>
    exfalso
    rw [hd] at hm
    simp only at hm
    obtain ⟨v0', hv0', hcv⟩ := hrules x e (AMap.get?_of_mem_nodup _ _ _ hk hp)
    unfold constVal checkFixEval at hcv
    rw [hck] at hcv
    simp only at hcv
    rw [hm] at hcv
    cases hcv

end SF
