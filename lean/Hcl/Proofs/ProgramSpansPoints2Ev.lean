import Hcl.Proofs.FlagMono
import Hcl.Proofs.ProgramSpansPoints
open Rust

/-! Evaluation after a successful width check, over tables whose values have the recorded widths, never reports one of
    the two evaluation errors that carry a location in Rust (`NoBitWidth`, `UndeclaredWireRead`): the value it yields
    has exactly the checked width, so the `unlimited` test of bit concatenation cannot fire, and every wire the checker
    found in the widths is in the values.  No well-formedness of the expression is needed (an out-of-range literal can
    only produce an internal panic, `RuntimeMismatchedWidths` or `DivideByZero`, none of which is located). -/

namespace Parser

/-- an evaluation error that carries no location -/
def Quiet : Err → Prop
  | .fail _ => True
  | .runtimeMismatchedWidths => True
  | .divideByZero => True
  | .noBitWidth => False
  | .undeclaredWireRead _ => False

/-- every error of a computation is quiet -/
def QE {α : Type} (r : E α) : Prop := ∀ err, r = .error err → Quiet err

theorem QE_ok {α : Type} (a : α) : QE (.ok a : E α) := fun _ h => by cases h

theorem QE_pure {α : Type} (a : α) : QE (pure a : E α) := fun _ h => by cases h

theorem QE_bind {α β : Type} {x : E α} {f : α → E β} (hx : QE x) (hf : ∀ a, x = .ok a → QE (f a)) : QE (x >>= f) := by
  intro err h
  cases hxx : x with
  | error e =>
    rw [hxx] at h
    simp only [bind, Except.bind] at h
    cases h
    exact hx _ hxx
  | ok a =>
    rw [hxx] at h
    exact hf a hxx err h

theorem QE_liftR {α : Type} (x : R α) : QE (liftR x) := by
  intro err h
  cases x with
  | ok a => simp only [liftR] at h; cases h
  | error f => simp only [liftR] at h; cases h; trivial

theorem QE_applyRaw (op : BinOp) (l r : Nat) : QE (applyRaw op l r) := by
  intro err h
  unfold applyRaw at h
  cases op <;> simp only [pure, Except.pure] at h <;> try (cases h)
  split at h
  · cases h; trivial
  · cases h

theorem QE_binWidthE (fl : Flags) (op : BinOp) (a b : Width) : QE (binWidthE fl op a b) := by
  intro err h
  unfold binWidthE at h
  cases hk : op.kind <;> simp only [hk] at h
  · cases h
  · cases h
  · cases hc : a.combine b with
    | some w => rw [hc] at h; cases h
    | none => rw [hc] at h; cases h; trivial
  · split at h
    · cases hc : a.combine b with
      | some w => rw [hc] at h; cases h
      | none => rw [hc] at h; cases h; trivial
    · cases h

theorem QE_applyBin (fl : Flags) (op : BinOp) (a b : WireValue) : QE (applyBin fl op a b) := by
  unfold applyBin
  split
  · intro err h; cases h; trivial
  · exact QE_bind (QE_binWidthE _ _ _ _) fun w _ => QE_bind (QE_applyRaw _ _ _) fun _ _ =>
      QE_bind (QE_liftR _) fun _ _ => QE_pure _

theorem QE_applyUn (op : UnOp) (a : WireValue) : QE (applyUn op a) := by
  unfold applyUn
  exact QE_bind (QE_liftR _) fun _ _ => QE_pure _

theorem binWidthE_eq {fl : Flags} {op : BinOp} {a b w w' : Width} (hw : binWidth fl op a b = some w)
    (h : binWidthE fl op a b = .ok w') : w' = w := by
  unfold binWidth at hw
  unfold binWidthE at h
  cases hk : op.kind <;> simp only [hk] at h hw
  · cases h; cases hw; rfl
  · cases h; cases hw; rfl
  · rw [hw] at h; cases h; rfl
  · cases hs : fl.strictBinary
    · simp only [hs, Bool.false_eq_true, if_false] at h hw
      cases h; cases hw; rfl
    · simp only [hs, if_true] at h hw
      rw [hw] at h; cases h; rfl

theorem applyBin_width {fl : Flags} {op : BinOp} {a b v : WireValue} {w : Width}
    (hw : binWidth fl op a.width b.width = some w) (h : applyBin fl op a b = .ok v) : v.width = w := by
  unfold applyBin at h
  split at h
  · cases h
  · obtain ⟨w1, hw1, h⟩ := bind_ok h
    obtain ⟨raw, _, h⟩ := bind_ok h
    obtain ⟨m, _, h⟩ := bind_ok h
    cases h
    exact binWidthE_eq hw hw1

theorem under_trans {a b c : Width} (h1 : a.under b) (h2 : b.under c) : a.under c := by
  rcases h1 with rfl | rfl
  · exact h2
  · exact Or.inr rfl

section
variable {fl : Flags} {Γ : Ctx} {κ σ : Env}

mutual
theorem ev_q (hσ : ∀ n w, Γ n = some w → ∃ v, σ n = some v ∧ v.width = w) : ∀ (e : Ex) (w : Width),
    check fl Γ κ e = .ok w →
    QE (ev fl σ (fixMux fl Γ κ e)) ∧ ∀ v, ev fl σ (fixMux fl Γ κ e) = .ok v → v.width = w
  | .const c, w, h => by
      unfold check at h
      cases h
      simp only [fixMux, ev]
      exact ⟨QE_pure _, fun v hv => by cases hv; rfl⟩
  | .wire n, w, h => by
      unfold check at h
      simp only [fixMux, ev]
      cases hg : Γ n with
      | none => rw [hg] at h; cases h
      | some w' =>
        rw [hg] at h
        cases h
        obtain ⟨v, hv, hvw⟩ := hσ n _ hg
        rw [hv]
        exact ⟨QE_pure _, fun v' hv' => by cases hv'; exact hvw⟩
  | .bin op l r, w, h => by
      obtain ⟨wa, wb, ha, hb, hw⟩ := check_bin_inv h
      obtain ⟨qa, wa'⟩ := ev_q hσ l wa ha
      obtain ⟨qb, wb'⟩ := ev_q hσ r wb hb
      simp only [fixMux, ev]
      refine ⟨QE_bind qa fun a _ => QE_bind qb fun b _ => QE_applyBin _ _ _ _, ?_⟩
      intro v hv
      obtain ⟨a, hea, hv⟩ := bind_ok hv
      obtain ⟨b, heb, hv⟩ := bind_ok hv
      have h1 := wa' a hea
      have h2 := wb' b heb
      rw [← h1, ← h2] at hw
      exact applyBin_width hw hv
  | .un op e, w, h => by
      simp only [fixMux, ev]
      cases op with
      | not =>
        unfold check at h
        obtain ⟨wa, ha, h⟩ := bind_ok h
        cases h
        obtain ⟨qa, _⟩ := ev_q hσ e wa ha
        refine ⟨QE_bind qa fun a _ => QE_applyUn _ _, ?_⟩
        intro v hv
        obtain ⟨a, hea, hv⟩ := bind_ok hv
        rw [applyUn_width hv]; rfl
      | plus =>
        unfold check at h
        obtain ⟨qa, wa'⟩ := ev_q hσ e w h
        refine ⟨QE_bind qa fun a _ => QE_applyUn _ _, ?_⟩
        intro v hv
        obtain ⟨a, hea, hv⟩ := bind_ok hv
        rw [applyUn_width hv]; exact wa' a hea
      | neg =>
        unfold check at h
        obtain ⟨qa, wa'⟩ := ev_q hσ e w h
        refine ⟨QE_bind qa fun a _ => QE_applyUn _ _, ?_⟩
        intro v hv
        obtain ⟨a, hea, hv⟩ := bind_ok hv
        rw [applyUn_width hv]; exact wa' a hea
      | compl =>
        unfold check at h
        obtain ⟨qa, wa'⟩ := ev_q hσ e w h
        refine ⟨QE_bind qa fun a _ => QE_applyUn _ _, ?_⟩
        intro v hv
        obtain ⟨a, hea, hv⟩ := bind_ok hv
        rw [applyUn_width hv]; exact wa' a hea
  | .slice e lo hi, w, h => by
      obtain ⟨wa, ha⟩ := check_slice_inv h
      obtain ⟨qa, _⟩ := ev_q hσ e wa ha
      simp only [fixMux, ev]
      refine ⟨QE_bind qa fun a _ => QE_bind (QE_liftR _) fun _ _ => QE_bind (QE_liftR _) fun _ _ => QE_pure _, ?_⟩
      intro v hv
      obtain ⟨a, hea, hv⟩ := bind_ok hv
      obtain ⟨n, hn, hv⟩ := bind_ok hv
      obtain ⟨m, _, hv⟩ := bind_ok hv
      cases hv
      have hn' := liftR_ok hn
      unfold uSub at hn'
      split at hn'
      · cases hn'
        unfold check at h
        split at h
        · cases h
        · rw [ha] at h
          cases wa with
          | unlimited => cases h; rfl
          | bits k =>
            simp only [bind, Except.bind] at h
            split at h
            · cases h
            · cases h; rfl
      · cases hn'
  | .concat l r, w, h => by
      obtain ⟨wa, wb, ha, hb⟩ := check_concat_inv h
      obtain ⟨qa, wa'⟩ := ev_q hσ l wa ha
      obtain ⟨qb, wb'⟩ := ev_q hσ r wb hb
      simp only [fixMux, ev]
      unfold check at h
      rw [ha] at h
      simp only [bind, Except.bind] at h
      cases wa with
      | unlimited => cases h
      | bits lw =>
        simp only [hb] at h
        cases wb with
        | unlimited => cases h
        | bits rw =>
          simp only at h
          constructor
          · refine QE_bind qa fun a hea => QE_bind qb fun b heb => ?_
            have h1 := wa' a hea
            have h2 := wb' b heb
            rw [h1, h2]
            exact QE_bind (QE_liftR _) fun _ _ => QE_bind (QE_liftR _) fun _ _ => QE_pure _
          · intro v hv
            obtain ⟨a, hea, hv⟩ := bind_ok hv
            obtain ⟨b, heb, hv⟩ := bind_ok hv
            have h1 := wa' a hea
            have h2 := wb' b heb
            rw [h1, h2] at hv
            simp only at hv
            obtain ⟨n, hn, hv⟩ := bind_ok hv
            obtain ⟨m, _, hv⟩ := bind_ok hv
            cases hv
            have hn' := liftR_ok hn
            unfold u8Add at hn'
            split at hn'
            · cases hn'
              split at h
              · cases h; rfl
              · cases h
            · cases hn'
  | .mux opts, w, h => by
      have h0 := h
      rw [check_mux_eq] at h
      obtain ⟨s, hs, h⟩ := bind_ok h
      have hW := muxFinal_ok h
      obtain ⟨qm, wm⟩ := evMux_q hσ opts {} s hs
      simp only [fixMux, h0]
      cases w with
      | unlimited =>
        simp only [ev]
        refine ⟨qm, fun v hv => ?_⟩
        rcases wm v hv _ hW with h1 | h1 <;> exact h1
      | bits n =>
        simp only [ev]
        refine ⟨QE_bind qm fun a _ => QE_bind (QE_liftR _) fun _ _ => QE_bind (QE_liftR _) fun _ _ => QE_pure _, ?_⟩
        intro v hv
        obtain ⟨a, hea, hv⟩ := bind_ok hv
        obtain ⟨k, hk, hv⟩ := bind_ok hv
        obtain ⟨m, _, hv⟩ := bind_ok hv
        cases hv
        have hk' := liftR_ok hk
        unfold uSub at hk'
        simp only [Nat.zero_le, if_true, pure, Except.pure, Nat.sub_zero] at hk'
        cases hk'
        rfl
  | .inSet e items, w, h => by
      unfold check at h
      obtain ⟨wa, ha, h⟩ := bind_ok h
      obtain ⟨errs, he, h⟩ := bind_ok h
      obtain ⟨qa, _⟩ := ev_q hσ e wa ha
      simp only [fixMux, ev]
      refine ⟨QE_bind qa fun a _ => evIn_q hσ a.bits wa items errs he, ?_⟩
      intro v hv
      obtain ⟨a, hea, hv⟩ := bind_ok hv
      split at h
      · cases h; exact evIn_width hv
      · cases h
theorem evMux_q (hσ : ∀ n w, Γ n = some w → ∃ v, σ n = some v ∧ v.width = w) : ∀ (opts : Opts) (s s' : MuxScan),
    checkOpts fl Γ κ opts s = .ok s' →
    QE (evMux fl σ (fixMuxOpts fl Γ κ opts)) ∧
    ∀ v, evMux fl σ (fixMuxOpts fl Γ κ opts) = .ok v → ∀ W, s'.width = some W → v.width.under W
  | .nil, s, s', h => by
      simp only [fixMuxOpts, evMux]
      exact ⟨QE_pure _, fun v hv W _ => by cases hv; exact Or.inr rfl⟩
  | .cons c x rest, s, s', h => by
      unfold checkOpts at h
      obtain ⟨wc, hc, h⟩ := bind_ok h
      obtain ⟨wx, hx, h⟩ := bind_ok h
      obtain ⟨qc, _⟩ := ev_q hσ c wc hc
      obtain ⟨qx, wx'⟩ := ev_q hσ x wx hx
      obtain ⟨qr, wr⟩ := evMux_q hσ rest _ s' h
      simp only [fixMuxOpts, evMux]
      constructor
      · refine QE_bind qc fun cv _ => ?_
        split
        · exact qx
        · exact qr
      · intro v hv W hW
        obtain ⟨cv, hcv, hv⟩ := bind_ok hv
        by_cases hpos : cv.bits > 0
        · rw [if_pos hpos] at hv
          have hvw := wx' v hv
          obtain ⟨w1, hw1, hu⟩ := checkOpts_width_back rest _ s' h W hW
          cases hsw : s.width with
          | none => rw [hsw] at hw1; cases hw1
          | some cur =>
            rw [hsw] at hw1
            simp only at hw1
            rw [hvw]
            rcases combine_cases hw1 with ⟨_, h2⟩ | ⟨h2, _⟩ | ⟨_, h2⟩
            · rw [h2]; exact hu
            · exact Or.inr h2
            · rw [h2]; exact hu
        · rw [if_neg hpos] at hv
          exact wr v hv W hW
theorem evIn_q (hσ : ∀ n w, Γ n = some w → ∃ v, σ n = some v ∧ v.width = w) (x : Nat) (a : Width) : ∀ (items : Exs) (l : List Diag),
    checkItems fl Γ κ a items = .ok l → QE (evIn fl σ x (fixMuxExs fl Γ κ items))
  | .nil, _, _ => by
      simp only [fixMuxExs, evIn]
      exact QE_pure _
  | .cons e rest, l, h => by
      obtain ⟨b, l', hb, hl'⟩ := checkItems_cons_inv h
      obtain ⟨qb, _⟩ := ev_q hσ e b hb
      simp only [fixMuxExs, evIn]
      refine QE_bind qb fun bv _ => ?_
      split
      · exact QE_pure _
      · exact evIn_q hσ x a rest l' hl'
end
end

/-- the tables of constants: the widths are the widths of the values -/
theorem table_typed (res : AMap WireValue) (n : String) (w : Width)
    (h : AMap.toCtx (res.map fun p => (p.1, p.2.width)) n = some w) : ∃ v, AMap.toEnv res n = some v ∧ v.width = w := by
  unfold AMap.toCtx AMap.toEnv at *
  induction res with
  | nil => simp at h
  | cons p r ih =>
    obtain ⟨a, b⟩ := p
    simp only [List.map_cons, List.lookup_cons] at h ⊢
    cases hk : n == a
    · rw [hk] at h; exact ih h
    · rw [hk] at h
      simp only [Option.some.injEq] at h
      exact ⟨b, rfl, h⟩

/-- **the run-time errors of `checkFixEvalSp` are the unlocated ones**: over a table of constants, the error of the
    evaluation that follows a successful check is an internal panic, a run-time width mismatch or a division by zero -/
theorem checkFixEvalSp_cases (fl : Flags) (res : AMap WireValue) (x : PEx) (ds : List DiagSp)
    (h : checkFixEvalSp fl (AMap.toCtx (res.map fun p => (p.1, p.2.width))) (AMap.toEnv res) x = .error ds) :
    checkSp fl (AMap.toCtx (res.map fun p => (p.1, p.2.width))) (AMap.toEnv res) x = .error ds ∨
    ∃ err, Quiet err ∧ ds = [DiagSp.ofDiag err.toDiag] := by
  unfold checkFixEvalSp at h
  cases hc : checkSp fl (AMap.toCtx (res.map fun p => (p.1, p.2.width))) (AMap.toEnv res) x with
  | error ds' =>
    rw [hc] at h
    simp only [Except.error.injEq] at h
    subst h
    exact Or.inl rfl
  | ok w =>
    rw [hc] at h
    simp only at h
    right
    have hck := checkSp_erase fl (AMap.toCtx (res.map fun p => (p.1, p.2.width))) (AMap.toEnv res) x
    rw [hc] at hck
    simp only [eraseE, Except.mapError] at hck
    obtain ⟨q, _⟩ := ev_q (fl := fl) (κ := AMap.toEnv res) (σ := AMap.toEnv res) (table_typed res) x.erase w hck.symm
    cases hev : ev fl (AMap.toEnv res) (fixMux fl (AMap.toCtx (res.map fun p => (p.1, p.2.width))) (AMap.toEnv res) x.erase) with
    | ok v => rw [hev] at h; cases h
    | error err =>
      rw [hev] at h
      simp only [Except.error.injEq] at h
      exact ⟨err, q err hev, h.symm⟩

end Parser
